/-
  C14 — type-level hooks: steps, and the established shape + unchanged kind / name of what they return.
-/
import PyGqlModel.Lemmas.HeapClosedHooks

set_option linter.unusedSimpArgs false
set_option linter.unusedVariables false
set_option linter.unnecessarySimpa false

namespace PyGql.Heap.Own
open PyGql.Heap

/-- conclusion of the type-level establish lemmas -/
def TypeEst (chk : Ref → Bool) (t : TypeO) (h' : Heap) (r : Option Addr) : Prop :=
  ∀ a', r = some a' → typeShape chk h' a' = true ∧ ∃ t', h'.readType a' = some t' ∧ t'.kind = t.kind ∧ t'.name = t.name

theorem rebuiltOrSame_step (v : Visitor) (reg : List (String × Addr)) (h : Heap) (a : Addr) (t : TypeO) (fs : List Addr) :
    StepAll v reg h (rebuiltOrSame h a t fs).1 := by
  simp only [rebuiltOrSame]
  split
  · exact stepAll_alloc v reg h _
  · exact StepAll.refl v reg h

theorem typeRefs_fields (t : TypeO) (fs : List Addr) : typeRefs { t with fields := fs } = typeRefs t := by
  simp [typeRefs]

/-- the (possibly rebuilt) type object after the members were visited: same kind / name, references not worse,
    members = the returned ones -/
theorem rebuiltOrSame_spec (chk : Ref → Bool) (h0 h1 : Heap) (st : StepImp chk h0 h1) (a : Addr) (t : TypeO) (ht : h0.readType a = some t)
    (fs : List Addr) :
    ∃ tu, (rebuiltOrSame h1 a t fs).1.readType (rebuiltOrSame h1 a t fs).2 = some tu ∧ tu.kind = t.kind ∧ tu.name = t.name ∧
      ((typeRefs t).all chk = true → (typeRefs tu).all chk = true) ∧ (∀ c, c ∈ tu.fields → c ∈ fs) ∧
      StepImp chk h1 (rebuiltOrSame h1 a t fs).1 := by
  simp only [rebuiltOrSame]
  split
  · exact ⟨{ t with fields := fs }, readType_alloc_new _ _, rfl, rfl, by simp [typeRefs_fields], fun c hc => hc, step_alloc chk h1 _⟩
  · rename_i hb
    have heq := bne_false_eq hb
    obtain ⟨o', hr', hd, hk, hrefs⟩ := st a _ (readType_read ht)
    cases o' with
    | type t' =>
      simp only [SameHead] at hd
      exact ⟨t', readType_of_read hr', hd.1, hd.2.1, fun x => by simpa [refsOf] using hrefs (by simpa [refsOf] using x),
        fun c hc => by rw [heq]; simpa [kids] using hk.subset (by simpa [kids] using hc), StepImp.refl chk h1⟩
    | field _ => simp [SameHead] at hd
    | arg _ => simp [SameHead] at hd
    | dir _ => simp [SameHead] at hd

theorem compositeRest_step (v : Visitor) (reg : List (String × Addr)) (a : Addr) (h : Heap) (t : TypeO) :
    StepAll v reg h (compositeRest v reg a h t).1 := by
  have hm := mapFilter_step (onField_step v reg t.name) t.fields h
  have hu := rebuiltOrSame_step v reg (mapFilter (onField v reg t.name) h t.fields).1 a t (mapFilter (onField v reg t.name) h t.fields).2
  simp only [compositeRest]
  cases v with
  | heal =>
    simp only
    split
    · split
      · rename_i tu htu
        refine (hm.trans hu).trans ?_
        intro chk hc
        exact write_type_ifaces chk _ _ tu _ htu (by
          simp only [List.all_eq_true]
          intro r hr
          exact hc r (List.all_eq_true.mp (healedRefs_ok reg tu.ifaces) r hr))
      · exact hm.trans hu
    · exact hm.trans hu
  | vis p => exact hm.trans hu
  | camel r => exact hm.trans hu
  | sdir d w => exact hm.trans hu

theorem typeMembersOK_fields (chk : Ref → Bool) (h : Heap) (t : TypeO) (hk : t.kind = Kind.object ∨ t.kind = Kind.interface)
    (hf : ∀ c, c ∈ t.fields → fieldShape chk h c = true) : typeMembersOK chk h t = true := by
  rcases hk with hk | hk <;> simp only [typeMembersOK, hk, List.all_eq_true] <;> exact hf

theorem compositeRest_est (v : Visitor) (reg : List (String × Addr)) (chk0 : Ref → Bool) (hc : Compat v reg chk0) (a : Addr) (h : Heap) (t : TypeO)
    (ht : h.readType a = some t) (hk : t.kind = Kind.object ∨ t.kind = Kind.interface) (hrefs : (typeRefs t).all chk0 = true)
    (hfields : ∀ c, c ∈ t.fields → fieldShape chk0 h c = true) :
    TypeEst (outChk v reg chk0) t (compositeRest v reg a h t).1 (compositeRest v reg a h t).2 := by
  have hest := mapFilter_est (S := fieldShape) (fun chk h h' a st hs => fieldShape_keep st a hs) hc (onField_step v reg t.name)
    (fun h a hs => onField_est v reg t.name chk0 hc h a hs) t.fields h hfields
  have hstep := mapFilter_step (onField_step v reg t.name) t.fields h
  -- for the references use `chk0`, for the members the established check
  obtain ⟨tu, hru, hku, hnu, hrefu, hsubu, stu⟩ := rebuiltOrSame_spec chk0 h _ (hstep chk0 hc) a t ht (mapFilter (onField v reg t.name) h t.fields).2
  obtain ⟨_, _, _, _, _, _, stu'⟩ := rebuiltOrSame_spec (outChk v reg chk0) h _ (hstep _ (compat_out v reg chk0 hc)) a t ht
    (mapFilter (onField v reg t.name) h t.fields).2
  have hmem : ∀ c, c ∈ tu.fields → fieldShape (outChk v reg chk0) (rebuiltOrSame (mapFilter (onField v reg t.name) h t.fields).1 a t
      (mapFilter (onField v reg t.name) h t.fields).2).1 c = true :=
    fun c hcm => fieldShape_keep stu' c (hest c (hsubu c hcm))
  have hku' : tu.kind = Kind.object ∨ tu.kind = Kind.interface := by rw [hku]; exact hk
  intro a' e
  simp only [compositeRest] at e ⊢
  cases v with
  | heal =>
    simp only at e ⊢
    split at e
    · rename_i hobj
      simp only [hobj, if_true, hru] at e ⊢
      simp only [Option.some.injEq] at e
      subst e
      have hw := write_type_ifaces (refOK reg) _ _ tu (healedRefs reg tu.ifaces) hru (healedRefs_ok reg tu.ifaces)
      have hkobj : tu.kind = Kind.object := by rw [hku]; simpa using hobj
      refine ⟨?_, _, readType_write_self _ _ _ (readType_lt' hru), hku, hnu⟩
      rw [typeShape_eq _ _ _ _ (readType_write_self _ _ _ (readType_lt' hru)), Bool.and_eq_true]
      refine ⟨by simp only [typeRefs, hkobj, outChk]; exact healedRefs_ok reg tu.ifaces, ?_⟩
      apply typeMembersOK_fields _ _ _ (Or.inl hkobj)
      intro c hcm
      exact fieldShape_keep hw c (hmem c hcm)
    · rename_i hobj
      simp only [hobj] at e ⊢
      simp only [Option.some.injEq, Bool.false_eq_true, if_false] at e ⊢
      subst e
      have hkif : tu.kind = Kind.interface := by
        rcases hku' with h1 | h1
        · rw [← hku, h1] at hobj; simp at hobj
        · exact h1
      refine ⟨?_, tu, hru, hku, hnu⟩
      rw [typeShape_eq _ _ _ _ hru, Bool.and_eq_true]
      exact ⟨by simp [typeRefs, hkif], typeMembersOK_fields _ _ _ hku' hmem⟩
  | vis p =>
    simp only [Option.some.injEq] at e ⊢
    subst e
    refine ⟨?_, tu, hru, hku, hnu⟩
    rw [typeShape_eq _ _ _ _ hru, Bool.and_eq_true]
    exact ⟨hrefu hrefs, typeMembersOK_fields _ _ _ hku' hmem⟩
  | camel r =>
    simp only [Option.some.injEq] at e ⊢
    subst e
    refine ⟨?_, tu, hru, hku, hnu⟩
    rw [typeShape_eq _ _ _ _ hru, Bool.and_eq_true]
    exact ⟨hrefu hrefs, typeMembersOK_fields _ _ _ hku' hmem⟩
  | sdir d w =>
    simp only [Option.some.injEq] at e ⊢
    subst e
    refine ⟨?_, tu, hru, hku, hnu⟩
    rw [typeShape_eq _ _ _ _ hru, Bool.and_eq_true]
    exact ⟨hrefu hrefs, typeMembersOK_fields _ _ _ hku' hmem⟩


theorem onComposite_step (v : Visitor) (reg : List (String × Addr)) (h : Heap) (a : Addr) (t : TypeO) (ht : h.readType a = some t) :
    StepAll v reg h (onComposite v reg h a t).1 := by
  simp only [onComposite]
  cases v with
  | vis p =>
    simp only
    split
    · exact StepAll.refl _ reg h
    · split
      · refine StepAll.trans ?_ (compositeRest_step _ reg a _ _)
        intro chk _
        exact write_type_fields chk h a t _ ht List.filter_sublist
      · exact compositeRest_step _ reg a h t
  | heal => exact compositeRest_step _ reg a h t
  | camel r => exact compositeRest_step _ reg a h t
  | sdir d w => exact compositeRest_step _ reg a h t

theorem typeShape_iff (chk : Ref → Bool) (h : Heap) (a : Addr) :
    typeShape chk h a = true ↔ ∃ t, h.readType a = some t ∧ (typeRefs t).all chk = true ∧ typeMembersOK chk h t = true := by
  cases ht : h.readType a with
  | none => simp [typeShape, ht]
  | some t => simp [typeShape, ht, Bool.and_eq_true]

theorem onComposite_est (v : Visitor) (reg : List (String × Addr)) (chk0 : Ref → Bool) (hc : Compat v reg chk0) (h : Heap) (a : Addr) (t : TypeO)
    (ht : h.readType a = some t) (hk : t.kind = Kind.object ∨ t.kind = Kind.interface) (hrefs : (typeRefs t).all chk0 = true)
    (hm : typeMembersOK chk0 h t = true) :
    TypeEst (outChk v reg chk0) t (onComposite v reg h a t).1 (onComposite v reg h a t).2 := by
  have hfields : ∀ c, c ∈ t.fields → fieldShape chk0 h c = true := by
    rcases hk with hk | hk <;> simpa [typeMembersOK, hk, List.all_eq_true] using hm
  simp only [onComposite]
  cases v with
  | vis p =>
    simp only
    split
    · intro a' e; cases e
    · split
      · have hw := write_type_fields chk0 h a t (t.fields.filter fun fa => match fieldName h fa with | some fnm => p.fieldVis t.name fnm | none => true)
          ht List.filter_sublist
        have := compositeRest_est (.vis p) reg chk0 hc a _ { t with fields := t.fields.filter fun fa => match fieldName h fa with | some fnm => p.fieldVis t.name fnm | none => true }
          (readType_write_self h a _ (readType_lt' ht)) (by simpa using hk) (by simpa [typeRefs_fields] using hrefs)
          (fun c hcm => fieldShape_keep hw c (hfields c (List.mem_filter.mp hcm).1))
        exact this
      · exact compositeRest_est _ reg chk0 hc a h t ht hk hrefs hfields
  | heal => exact compositeRest_est _ reg chk0 hc a h t ht hk hrefs hfields
  | camel r => exact compositeRest_est _ reg chk0 hc a h t ht hk hrefs hfields
  | sdir d w => exact compositeRest_est _ reg chk0 hc a h t ht hk hrefs hfields

/-! ### input objects -/

theorem inputRest_step (v : Visitor) (reg : List (String × Addr)) (a : Addr) (nm : String) (h : Heap) (t : TypeO) :
    StepAll v reg h (inputRest v reg a nm h t).1 := by
  have hm := mapFilter_step (onInputField_step v reg) t.fields h
  have hu := rebuiltOrSame_step v reg (mapFilter (onInputField v reg) h t.fields).1 a t (mapFilter (onInputField v reg) h t.fields).2
  simp only [inputRest]
  cases v with
  | vis p => simp only; split <;> exact hm.trans hu
  | heal => exact hm.trans hu
  | camel r => exact hm.trans hu
  | sdir d w => exact hm.trans hu

theorem inputRest_est (v : Visitor) (reg : List (String × Addr)) (chk0 : Ref → Bool) (hc : Compat v reg chk0) (a : Addr) (nm : String) (h : Heap) (t : TypeO)
    (ht : h.readType a = some t) (hk : t.kind = Kind.input) (hfields : ∀ c, c ∈ t.fields → argShape chk0 h c = true) :
    TypeEst (outChk v reg chk0) t (inputRest v reg a nm h t).1 (inputRest v reg a nm h t).2 := by
  have hest := mapFilter_est (S := argShape) (fun chk h h' a st hs => argShape_keep st a hs) hc (onInputField_step v reg)
    (fun h a hs => onInputField_est v reg chk0 h a hs) t.fields h hfields
  have hstep := mapFilter_step (onInputField_step v reg) t.fields h
  obtain ⟨tu, hru, hku, hnu, _, hsubu, stu'⟩ := rebuiltOrSame_spec (outChk v reg chk0) h _ (hstep _ (compat_out v reg chk0 hc)) a t ht
    (mapFilter (onInputField v reg) h t.fields).2
  have hsh : typeShape (outChk v reg chk0) (rebuiltOrSame (mapFilter (onInputField v reg) h t.fields).1 a t
      (mapFilter (onInputField v reg) h t.fields).2).1 (rebuiltOrSame (mapFilter (onInputField v reg) h t.fields).1 a t
      (mapFilter (onInputField v reg) h t.fields).2).2 = true := by
    rw [typeShape_eq _ _ _ _ hru, Bool.and_eq_true]
    have hki : tu.kind = Kind.input := by rw [hku]; exact hk
    refine ⟨by simp [typeRefs, hki], ?_⟩
    simp only [typeMembersOK, hki, List.all_eq_true]
    exact fun c hcm => argShape_keep stu' c (hest c (hsubu c hcm))
  intro a' e
  simp only [inputRest] at e ⊢
  cases v with
  | vis p =>
    simp only at e ⊢
    split at e
    · rename_i hv
      simp only [hv, if_true, Option.some.injEq] at e ⊢
      subst e
      exact ⟨hsh, tu, hru, hku, hnu⟩
    · cases e
  | heal =>
    simp only [Option.some.injEq] at e ⊢
    subst e
    exact ⟨hsh, tu, hru, hku, hnu⟩
  | camel r =>
    simp only [Option.some.injEq] at e ⊢
    subst e
    exact ⟨hsh, tu, hru, hku, hnu⟩
  | sdir d w =>
    simp only [Option.some.injEq] at e ⊢
    subst e
    exact ⟨hsh, tu, hru, hku, hnu⟩

theorem onInputObject_step (v : Visitor) (reg : List (String × Addr)) (h : Heap) (a : Addr) (t : TypeO) (ht : h.readType a = some t) :
    StepAll v reg h (onInputObject v reg h a t).1 := by
  simp only [onInputObject]
  cases v with
  | vis p =>
    simp only
    split
    · refine StepAll.trans ?_ (inputRest_step _ reg a _ _ _)
      intro chk _
      exact write_type_fields chk h a t _ ht List.filter_sublist
    · exact inputRest_step _ reg a _ h t
  | heal => exact inputRest_step _ reg a _ h t
  | camel r => exact inputRest_step _ reg a _ h t
  | sdir d w => exact inputRest_step _ reg a _ h t

theorem onInputObject_est (v : Visitor) (reg : List (String × Addr)) (chk0 : Ref → Bool) (hc : Compat v reg chk0) (h : Heap) (a : Addr) (t : TypeO)
    (ht : h.readType a = some t) (hk : t.kind = Kind.input) (hm : typeMembersOK chk0 h t = true) :
    TypeEst (outChk v reg chk0) t (onInputObject v reg h a t).1 (onInputObject v reg h a t).2 := by
  have hfields : ∀ c, c ∈ t.fields → argShape chk0 h c = true := by
    simpa [typeMembersOK, hk, List.all_eq_true] using hm
  simp only [onInputObject]
  cases v with
  | vis p =>
    simp only
    split
    · have hw := write_type_fields chk0 h a t (t.fields.filter fun fa => match argName h fa with | some fnm => p.inputVis t.name fnm | none => true)
        ht List.filter_sublist
      exact inputRest_est (.vis p) reg chk0 hc a t.name _ { t with fields := t.fields.filter fun fa => match argName h fa with | some fnm => p.inputVis t.name fnm | none => true }
        (readType_write_self h a _ (readType_lt' ht)) (by simpa using hk)
        (fun c hcm => argShape_keep hw c (hfields c (List.mem_filter.mp hcm).1))
    · exact inputRest_est _ reg chk0 hc a t.name h t ht hk hfields
  | heal => exact inputRest_est _ reg chk0 hc a t.name h t ht hk hfields
  | camel r => exact inputRest_est _ reg chk0 hc a t.name h t ht hk hfields
  | sdir d w => exact inputRest_est _ reg chk0 hc a t.name h t ht hk hfields

/-! ### unions, scalars, enums -/

theorem onUnion_step (v : Visitor) (reg : List (String × Addr)) (h : Heap) (a : Addr) (t : TypeO) (ht : h.readType a = some t) :
    StepAll v reg h (onUnion v reg h a t).1 := by
  simp only [onUnion]
  cases v with
  | heal =>
    intro chk hc
    exact write_type_members chk h a t _ ht (by
      simp only [List.all_eq_true]
      intro r hr
      exact hc r (List.all_eq_true.mp (healedRefs_ok reg t.members) r hr))
  | vis p => simp only; split <;> exact StepAll.refl _ reg h
  | camel r => exact StepAll.refl _ reg h
  | sdir d w => exact StepAll.refl _ reg h

theorem onUnion_est (v : Visitor) (reg : List (String × Addr)) (chk0 : Ref → Bool) (h : Heap) (a : Addr) (t : TypeO)
    (ht : h.readType a = some t) (hk : t.kind = Kind.union) (hrefs : (typeRefs t).all chk0 = true) :
    TypeEst (outChk v reg chk0) t (onUnion v reg h a t).1 (onUnion v reg h a t).2 := by
  have hsame : typeShape chk0 h a = true := by
    rw [typeShape_eq _ _ _ _ ht, Bool.and_eq_true]; exact ⟨hrefs, by simp [typeMembersOK, hk]⟩
  intro a' e
  simp only [onUnion] at e ⊢
  cases v with
  | heal =>
    simp only [Option.some.injEq] at e ⊢
    subst e
    refine ⟨?_, _, readType_write_self h a _ (readType_lt' ht), rfl, rfl⟩
    rw [typeShape_eq _ _ _ _ (readType_write_self h a _ (readType_lt' ht)), Bool.and_eq_true]
    exact ⟨by simp only [typeRefs, hk, outChk]; exact healedRefs_ok reg t.members, by simp [typeMembersOK, hk]⟩
  | vis p =>
    simp only at e ⊢
    split at e
    · rename_i hv
      simp only [hv, if_true, Option.some.injEq] at e ⊢
      subst e
      exact ⟨hsame, t, ht, rfl, rfl⟩
    · cases e
  | camel r =>
    simp only [Option.some.injEq] at e ⊢
    subst e
    exact ⟨hsame, t, ht, rfl, rfl⟩
  | sdir d w =>
    simp only [Option.some.injEq] at e ⊢
    subst e
    exact ⟨hsame, t, ht, rfl, rfl⟩

theorem onLeaf_step (v : Visitor) (reg : List (String × Addr)) (h : Heap) (a : Addr) (t : TypeO) : StepAll v reg h (onLeaf v h a t).1 := by
  simp only [onLeaf]
  cases v with
  | vis p => simp only; split <;> exact StepAll.refl _ reg h
  | heal => exact StepAll.refl _ reg h
  | camel r => exact StepAll.refl _ reg h
  | sdir d w => exact StepAll.refl _ reg h

theorem onLeaf_est (v : Visitor) (reg : List (String × Addr)) (chk0 : Ref → Bool) (h : Heap) (a : Addr) (t : TypeO)
    (ht : h.readType a = some t) (hk : t.kind = Kind.scalar ∨ t.kind = Kind.enum) :
    TypeEst (outChk v reg chk0) t (onLeaf v h a t).1 (onLeaf v h a t).2 := by
  have hsame : ∀ chk, typeShape chk h a = true := by
    intro chk
    rw [typeShape_eq _ _ _ _ ht, Bool.and_eq_true]
    rcases hk with hk | hk <;> simp [typeRefs, typeMembersOK, hk]
  intro a' e
  simp only [onLeaf] at e ⊢
  cases v with
  | vis p =>
    simp only at e ⊢
    split at e
    · rename_i hv
      simp only [hv, if_true, Option.some.injEq] at e ⊢
      subst e
      exact ⟨hsame _, t, ht, rfl, rfl⟩
    · cases e
  | heal =>
    simp only [Option.some.injEq] at e ⊢
    subst e
    exact ⟨hsame _, t, ht, rfl, rfl⟩
  | camel r =>
    simp only [Option.some.injEq] at e ⊢
    subst e
    exact ⟨hsame _, t, ht, rfl, rfl⟩
  | sdir d w =>
    simp only [Option.some.injEq] at e ⊢
    subst e
    exact ⟨hsame _, t, ht, rfl, rfl⟩

/-! ### dispatch, directives -/

theorem onType_step (v : Visitor) (reg : List (String × Addr)) (h : Heap) (a : Addr) : StepAll v reg h (onType v reg h a).1 := by
  simp only [onType]
  split
  · exact StepAll.refl v reg h
  · rename_i t ht
    split
    · exact onComposite_step v reg h a t ht
    · exact onComposite_step v reg h a t ht
    · exact onInputObject_step v reg h a t ht
    · exact onUnion_step v reg h a t ht
    · exact onLeaf_step v reg h a t
    · exact onLeaf_step v reg h a t

/-- `on_schema`'s dispatch on a well-shaped registered type: what it returns has the established shape, the same kind and name -/
theorem onType_est (v : Visitor) (reg : List (String × Addr)) (chk0 : Ref → Bool) (hc : Compat v reg chk0) (h : Heap) (a : Addr)
    (hs : typeShape chk0 h a = true) :
    ∃ t, h.readType a = some t ∧ TypeEst (outChk v reg chk0) t (onType v reg h a).1 (onType v reg h a).2 := by
  obtain ⟨t, ht, hrefs, hm⟩ := (typeShape_iff chk0 h a).mp hs
  refine ⟨t, ht, ?_⟩
  simp only [onType, ht]
  cases hk : t.kind with
  | object => exact onComposite_est v reg chk0 hc h a t ht (Or.inl hk) hrefs hm
  | interface => exact onComposite_est v reg chk0 hc h a t ht (Or.inr hk) hrefs hm
  | input => exact onInputObject_est v reg chk0 hc h a t ht hk hm
  | union => exact onUnion_est v reg chk0 h a t ht hk hrefs
  | scalar => exact onLeaf_est v reg chk0 h a t ht (Or.inl hk)
  | enum => exact onLeaf_est v reg chk0 h a t ht (Or.inr hk)

theorem onDirective_step (v : Visitor) (reg : List (String × Addr)) (h : Heap) (a : Addr) : StepAll v reg h (onDirective v reg h a).1 := by
  simp only [onDirective]
  split
  · exact StepAll.refl v reg h
  · rename_i d hd
    split
    · exact StepAll.refl v reg h
    · have hm := mapFilter_step (onArgument_step v reg) d.args h
      split
      · exact hm.trans (stepAll_alloc v reg _ _)
      · exact hm

theorem onDirective_est (v : Visitor) (reg : List (String × Addr)) (chk0 : Ref → Bool) (hc : Compat v reg chk0) (h : Heap) (a : Addr)
    (hs : dirShape chk0 h a = true) : ∀ a', (onDirective v reg h a).2 = some a' →
      dirShape (outChk v reg chk0) (onDirective v reg h a).1 a' = true := by
  intro a' e
  simp only [dirShape] at hs
  split at hs
  · rename_i d hd
    simp only [List.all_eq_true] at hs
    have hest := mapFilter_est (S := argShape) (fun chk h h' a st hs => argShape_keep st a hs) hc (onArgument_step v reg)
      (fun h a hs => onArgument_est v reg chk0 h a hs) d.args h hs
    have hstep := mapFilter_step (onArgument_step v reg) d.args h
    simp only [onDirective, hd] at e ⊢
    split at e
    · cases e
    · rename_i hh
      simp only [hh] at e ⊢
      split at e
      · rename_i hb
        simp only [hb, if_true, Option.some.injEq, Bool.false_eq_true, if_false] at e ⊢
        subst e
        simp only [dirShape, readDir_alloc_new, List.all_eq_true]
        exact fun c hcm => argShape_keep (step_alloc _ _ _) c (hest c hcm)
      · rename_i hb
        simp only [hb, Option.some.injEq, Bool.false_eq_true, if_false] at e ⊢
        subst e
        have heq := bne_false_eq hb
        obtain ⟨o', hr', hdd, hk, _⟩ := hstep _ (compat_out v reg chk0 hc) a _ (readDir_read hd)
        cases o' with
        | dir d' =>
          simp only [dirShape, readDir_of_read hr', List.all_eq_true]
          intro c hcm
          have hmm : c ∈ d.args := by simpa [kids] using hk.subset (by simpa [kids] using hcm)
          exact hest c (by rw [heq]; exact hmm)
        | type _ => simp [SameHead] at hdd
        | arg _ => simp [SameHead] at hdd
        | field _ => simp [SameHead] at hdd
  · cases hs

end PyGql.Heap.Own

/-
  `SingleFieldSubscriptionsChecker._response_keys` (`rootKeysGo`, Validate/Rules.lean) computes - when its fuel suffices,
  and the fuel the rule passes (`sfsBound`) always does - exactly the set of RESPONSE KEYS REACHABLE from the root
  selection set through inline fragments and fragment spreads (`KA frs [] sels`), each once. This is the declarative
  reading of `CollectFields` restricted to response keys; it does not depend on the order of selections.
-/
import PyGqlModel.Lemmas.ValidateAlias
namespace PyGql.Validate
open PyGql

/-- response key `k` is reachable from the selections `L` through inline fragments and spreads of fragments not in `vis` -/
inductive KA (frs : AL (List Sel)) : List String → List Sel → String → Prop where
  | field {vis L al n a ds h i sub} : Sel.field al n a ds h i sub ∈ L → KA frs vis L (okey al n)
  | inline {vis L on ds i sub k} : Sel.inline on ds i sub ∈ L → KA frs vis sub k → KA frs vis L k
  | spread {vis L name ds sels k} : Sel.spread name ds ∈ L → name ∉ vis → AL.get? frs name = some sels →
      KA frs vis sels k → KA frs vis L k

variable {frs : AL (List Sel)}

theorem KA.mono {vis : List String} {L L' : List Sel} {k : String} (h : KA frs vis L k) (hs : ∀ x ∈ L, x ∈ L') :
    KA frs vis L' k := by
  cases h with
  | field hm => exact .field (hs _ hm)
  | inline hm hk => exact .inline (hs _ hm) hk
  | spread hm hv hg hk => exact .spread (hs _ hm) hv hg hk

theorem KA.append_iff {vis : List String} {a b : List Sel} {k : String} :
    KA frs vis (a ++ b) k ↔ KA frs vis a k ∨ KA frs vis b k := by
  constructor
  · intro h
    cases h with
    | field hm =>
      rcases List.mem_append.mp hm with hm | hm
      · exact Or.inl (.field hm)
      · exact Or.inr (.field hm)
    | inline hm hk =>
      rcases List.mem_append.mp hm with hm | hm
      · exact Or.inl (.inline hm hk)
      · exact Or.inr (.inline hm hk)
    | spread hm hv hg hk =>
      rcases List.mem_append.mp hm with hm | hm
      · exact Or.inl (.spread hm hv hg hk)
      · exact Or.inr (.spread hm hv hg hk)
  · rintro (h | h)
    · exact h.mono (fun x hx => List.mem_append_left _ hx)
    · exact h.mono (fun x hx => List.mem_append_right _ hx)

theorem KA.nil {vis : List String} {k : String} : ¬ KA frs vis [] k := by
  intro h
  cases h with
  | field hm => cases hm
  | inline hm _ => cases hm
  | spread hm _ _ _ => cases hm

/-- fewer visited fragments: more reachable -/
theorem KA.weaken {vis vis' : List String} {L : List Sel} {k : String} (h : KA frs vis L k) (hv : ∀ x ∈ vis', x ∈ vis) :
    KA frs vis' L k := by
  induction h with
  | field hm => exact .field hm
  | inline hm _ ih => exact .inline hm ih
  | spread hm hn hg _ ih => exact .spread hm (fun hc => hn (hv _ hc)) hg ih

/-- **cutting loops**: a key reachable avoiding `vis` is reachable avoiding `f` as well, from the same selections or
    from the body of `f` -/
theorem KA.avoid (f : String) {vis : List String} {L : List Sel} {k : String} (h : KA frs vis L k) :
    KA frs (f :: vis) L k ∨ ∃ body, AL.get? frs f = some body ∧ KA frs (f :: vis) body k := by
  induction h with
  | field hm => exact Or.inl (.field hm)
  | inline hm _ ih =>
    rcases ih with ih | ih
    · exact Or.inl (.inline hm ih)
    · exact Or.inr ih
  | @spread L name ds sels k hm hn hg _ ih =>
    by_cases e : name = f
    · subst e
      rcases ih with ih | ih
      · exact Or.inr ⟨sels, hg, ih⟩
      · exact Or.inr ih
    · rcases ih with ih | ih
      · refine Or.inl (.spread hm (fun hc => ?_) hg ih)
        rcases List.mem_cons.mp hc with hc | hc
        · exact e hc
        · exact hn hc
      · exact Or.inr ih

/-! ### soundness: every key collected is reachable -/

theorem rootKeysGo_sound : ∀ (fuel : Nat) (work : List Sel) (ks vis : List String) (k : String),
    k ∈ rootKeysGo frs fuel work ks vis → k ∈ ks ∨ KA frs [] work k
  | 0, _, _, _, _, h => by simp only [rootKeysGo] at h; exact Or.inl h
  | f + 1, [], _, _, _, h => by simp only [rootKeysGo] at h; exact Or.inl h
  | f + 1, .field al n a ds hs i sub :: rest, ks, vis, k, h => by
    rw [rootKeysGo_field] at h
    rcases rootKeysGo_sound f rest _ vis k h with h1 | h1
    · split at h1
      · exact Or.inl h1
      · rcases List.mem_append.mp h1 with h1 | h1
        · exact Or.inl h1
        · simp only [List.mem_singleton] at h1
          subst h1
          exact Or.inr (.field (List.mem_cons_self ..))
    · exact Or.inr (h1.mono fun x hx => List.mem_cons_of_mem _ hx)
  | f + 1, .inline on ds i sub :: rest, ks, vis, k, h => by
    simp only [rootKeysGo] at h
    rcases rootKeysGo_sound f (sub ++ rest) ks vis k h with h1 | h1
    · exact Or.inl h1
    · rcases KA.append_iff.mp h1 with h1 | h1
      · exact Or.inr (.inline (List.mem_cons_self ..) h1)
      · exact Or.inr (h1.mono fun x hx => List.mem_cons_of_mem _ hx)
  | f + 1, .spread name ds :: rest, ks, vis, k, h => by
    simp only [rootKeysGo] at h
    split at h
    · rcases rootKeysGo_sound f rest ks vis k h with h1 | h1
      · exact Or.inl h1
      · exact Or.inr (h1.mono fun x hx => List.mem_cons_of_mem _ hx)
    · cases hg : AL.get? frs name with
      | none =>
        rw [hg] at h
        rcases rootKeysGo_sound f rest ks _ k h with h1 | h1
        · exact Or.inl h1
        · exact Or.inr (h1.mono fun x hx => List.mem_cons_of_mem _ hx)
      | some sels =>
        rw [hg] at h
        rcases rootKeysGo_sound f (sels ++ rest) ks _ k h with h1 | h1
        · exact Or.inl h1
        · rcases KA.append_iff.mp h1 with h1 | h1
          · exact Or.inr (.spread (List.mem_cons_self ..) (by simp) hg h1)
          · exact Or.inr (h1.mono fun x hx => List.mem_cons_of_mem _ hx)

theorem rootKeysGo_mono : ∀ (fuel : Nat) (work : List Sel) (ks vis : List String) (k : String),
    k ∈ ks → k ∈ rootKeysGo frs fuel work ks vis
  | 0, _, _, _, _, h => by simp only [rootKeysGo]; exact h
  | f + 1, [], _, _, _, h => by simp only [rootKeysGo]; exact h
  | f + 1, .field al n a ds hs i sub :: rest, ks, vis, k, h => by
    rw [rootKeysGo_field]
    refine rootKeysGo_mono f rest _ vis k ?_
    split
    · exact h
    · exact List.mem_append_left _ h
  | f + 1, .inline on ds i sub :: rest, ks, vis, k, h => by
    simp only [rootKeysGo]; exact rootKeysGo_mono f _ ks vis k h
  | f + 1, .spread name ds :: rest, ks, vis, k, h => by
    simp only [rootKeysGo]
    split
    · exact rootKeysGo_mono f rest ks vis k h
    · cases AL.get? frs name with
      | none => exact rootKeysGo_mono f rest ks _ k h
      | some sels => exact rootKeysGo_mono f _ ks _ k h

theorem rootKeysGo_nodup : ∀ (fuel : Nat) (work : List Sel) (ks vis : List String),
    ks.Nodup → (rootKeysGo frs fuel work ks vis).Nodup
  | 0, _, _, _, h => by simp only [rootKeysGo]; exact h
  | f + 1, [], _, _, h => by simp only [rootKeysGo]; exact h
  | f + 1, .field al n a ds hs i sub :: rest, ks, vis, h => by
    rw [rootKeysGo_field]
    refine rootKeysGo_nodup f rest _ vis ?_
    split
    · exact h
    · rename_i hc
      refine List.nodup_append.mpr ⟨h, by simp, fun a ha b hb => ?_⟩
      simp only [List.mem_singleton] at hb
      subst hb
      intro e
      subst e
      exact hc (List.contains_iff_mem.mpr ha)
  | f + 1, .inline on ds i sub :: rest, ks, vis, h => by
    simp only [rootKeysGo]; exact rootKeysGo_nodup f _ ks vis h
  | f + 1, .spread name ds :: rest, ks, vis, h => by
    simp only [rootKeysGo]
    split
    · exact rootKeysGo_nodup f rest ks vis h
    · cases AL.get? frs name with
      | none => exact rootKeysGo_nodup f rest ks _ h
      | some sels => exact rootKeysGo_nodup f _ ks _ h

/-! ### completeness, with enough fuel -/

/-- the selections still to be opened: those of the fragments of the table not yet visited -/
def unvisited (frs : AL (List Sel)) (vis : List String) : Nat :=
  ((frs.filter fun p => !vis.contains p.1).map fun p => selsSize p.2 + 1).sum

theorem selsSize_append (a b : List Sel) : selsSize (a ++ b) = selsSize a + selsSize b := by
  induction a with
  | nil => simp [selsSize]
  | cons x xs ih => simp only [List.cons_append, selsSize, ih]; omega

theorem unvisited_cons_le (frs : AL (List Sel)) (vis : List String) (name : String) :
    unvisited frs (name :: vis) ≤ unvisited frs vis := by
  unfold unvisited
  induction frs with
  | nil => simp
  | cons p ps ih =>
    simp only [List.contains_cons] at ih ⊢
    simp only [List.filter_cons]
    by_cases h1 : vis.contains p.1 = true
    · simp only [h1, Bool.or_true, Bool.not_true, Bool.false_eq_true, ↓reduceIte]; exact ih
    · simp only [Bool.not_eq_true] at h1
      by_cases h2 : (p.1 == name) = true
      · simp only [h1, h2, Bool.or_false, Bool.not_true, Bool.false_eq_true, ↓reduceIte, Bool.not_false, List.map_cons,
          List.sum_cons]
        omega
      · simp only [Bool.not_eq_true] at h2
        simp only [h1, h2, Bool.or_false, Bool.not_false, ↓reduceIte, List.map_cons, List.sum_cons]
        omega

theorem unvisited_visit (frs : AL (List Sel)) (vis : List String) (name : String) (sels : List Sel)
    (hv : vis.contains name = false) (hg : AL.get? frs name = some sels) :
    unvisited frs (name :: vis) + selsSize sels + 1 ≤ unvisited frs vis := by
  unfold unvisited
  induction frs with
  | nil => simp [AL.get?] at hg
  | cons p ps ih =>
    simp only [AL.get?, List.find?_cons] at hg
    by_cases h2 : (p.1 == name) = true
    · simp only [h2, Option.map_some, Option.some.injEq] at hg
      have e : p.1 = name := eq_of_beq h2
      have h1 : vis.contains p.1 = false := by rw [e]; exact hv
      have hle := unvisited_cons_le ps vis name
      unfold unvisited at hle
      simp only [List.contains_cons] at hle ⊢
      simp only [List.filter_cons, h1, h2, Bool.or_false, Bool.not_true, Bool.false_eq_true,
        ↓reduceIte, Bool.not_false, List.map_cons, List.sum_cons, hg]
      omega
    · simp only [Bool.not_eq_true] at h2
      simp only [h2, Bool.false_eq_true, ↓reduceIte] at hg
      have := ih (by simpa [AL.get?] using hg)
      simp only [List.contains_cons] at this ⊢
      simp only [List.filter_cons]
      by_cases h1 : vis.contains p.1 = true
      · simp only [h1, Bool.or_true, Bool.not_true, Bool.false_eq_true, ↓reduceIte]; exact this
      · simp only [Bool.not_eq_true] at h1
        simp only [h1, h2, Bool.or_false, Bool.not_false, ↓reduceIte, List.map_cons, List.sum_cons]
        omega

theorem get?_none_avoid {vis : List String} {L : List Sel} {k name : String} (hg : AL.get? frs name = none)
    (h : KA frs vis L k) : KA frs (name :: vis) L k := by
  rcases h.avoid name with h | ⟨body, hb, _⟩
  · exact h
  · rw [hg] at hb; cases hb

/-- **completeness**: with fuel for the work list and for every fragment not yet visited, every key reachable
    (avoiding the visited fragments) is collected -/
theorem rootKeysGo_complete : ∀ (fuel : Nat) (work : List Sel) (ks vis : List String) (k : String),
    selsSize work + unvisited frs vis < fuel → KA frs vis work k → k ∈ rootKeysGo frs fuel work ks vis
  | 0, _, _, _, _, hf, _ => by omega
  | f + 1, [], _, _, _, _, h => absurd h KA.nil
  | f + 1, .field al n a ds hs i sub :: rest, ks, vis, k, hf, h => by
    rw [rootKeysGo_field]
    simp only [selsSize, selSize] at hf
    have hk : KA frs vis ([Sel.field al n a ds hs i sub] ++ rest) k := h
    rcases KA.append_iff.mp hk with h1 | h1
    · cases h1 with
      | field hm =>
        simp only [List.mem_singleton, Sel.field.injEq] at hm
        obtain ⟨rfl, rfl, _⟩ := hm
        refine rootKeysGo_mono f rest _ vis _ ?_
        split
        · rename_i hc; exact List.contains_iff_mem.mp hc
        · exact List.mem_append_right _ (List.mem_singleton.mpr rfl)
      | inline hm _ => simp at hm
      | spread hm _ _ _ => simp at hm
    · exact rootKeysGo_complete f rest _ vis k (by omega) h1
  | f + 1, .inline on ds i sub :: rest, ks, vis, k, hf, h => by
    simp only [rootKeysGo]
    simp only [selsSize, selSize] at hf
    refine rootKeysGo_complete f (sub ++ rest) ks vis k (by rw [selsSize_append]; omega) ?_
    have hk : KA frs vis ([Sel.inline on ds i sub] ++ rest) k := h
    rcases KA.append_iff.mp hk with h1 | h1
    · cases h1 with
      | field hm => simp at hm
      | inline hm hk' =>
        simp only [List.mem_singleton, Sel.inline.injEq] at hm
        obtain ⟨_, _, _, rfl⟩ := hm
        exact KA.append_iff.mpr (Or.inl hk')
      | spread hm _ _ _ => simp at hm
    · exact KA.append_iff.mpr (Or.inr h1)
  | f + 1, .spread name ds :: rest, ks, vis, k, hf, h => by
    simp only [rootKeysGo]
    simp only [selsSize, selSize] at hf
    have hk : KA frs vis ([Sel.spread name ds] ++ rest) k := h
    split
    · rename_i hc
      refine rootKeysGo_complete f rest ks vis k (by omega) ?_
      rcases KA.append_iff.mp hk with h1 | h1
      · cases h1 with
        | field hm => simp at hm
        | inline hm _ => simp at hm
        | spread hm hn _ _ =>
          simp only [List.mem_singleton, Sel.spread.injEq] at hm
          rw [hm.1] at hn
          exact absurd (List.contains_iff_mem.mp hc) hn
      · exact h1
    · rename_i hc
      have hc' : vis.contains name = false := by simpa using hc
      cases hg : AL.get? frs name with
      | none =>
        refine rootKeysGo_complete f rest ks _ k (by have := unvisited_cons_le frs vis name; omega) ?_
        rcases KA.append_iff.mp hk with h1 | h1
        · cases h1 with
          | field hm => simp at hm
          | inline hm _ => simp at hm
          | spread hm _ hg' _ =>
            simp only [List.mem_singleton, Sel.spread.injEq] at hm
            rw [hm.1, hg] at hg'; cases hg'
        · exact get?_none_avoid hg h1
      | some sels =>
        have hu := unvisited_visit frs vis name sels hc' hg
        refine rootKeysGo_complete f (sels ++ rest) ks _ k (by rw [selsSize_append]; omega) ?_
        rcases KA.append_iff.mp hk with h1 | h1
        · cases h1 with
          | field hm => simp at hm
          | inline hm _ => simp at hm
          | spread hm _ hg' hk' =>
            simp only [List.mem_singleton, Sel.spread.injEq] at hm
            rw [hm.1, hg] at hg'
            cases hg'
            rcases hk'.avoid name with h2 | ⟨body, hb, h2⟩
            · exact KA.append_iff.mpr (Or.inl h2)
            · rw [hg] at hb; cases hb
              exact KA.append_iff.mpr (Or.inl h2)
        · rcases h1.avoid name with h2 | ⟨body, hb, h2⟩
          · exact KA.append_iff.mpr (Or.inr h2)
          · rw [hg] at hb; cases hb
            exact KA.append_iff.mpr (Or.inl h2)

/-- **what `_response_keys` computes**: with enough fuel, exactly the reachable response keys -/
theorem mem_rootKeys_iff (fuel : Nat) (sels : List Sel) (k : String) (hf : selsSize sels + unvisited frs [] < fuel) :
    k ∈ rootKeys frs fuel sels ↔ KA frs [] sels k := by
  unfold rootKeys
  constructor
  · intro h
    rcases rootKeysGo_sound fuel sels [] [] k h with h | h
    · cases h
    · exact h
  · exact rootKeysGo_complete fuel sels [] [] k hf

theorem rootKeys_nodup (fuel : Nat) (sels : List Sel) : (rootKeys frs fuel sels).Nodup :=
  rootKeysGo_nodup fuel sels [] [] List.nodup_nil

end PyGql.Validate

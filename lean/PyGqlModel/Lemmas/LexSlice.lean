/-
  The lexer SLICE lemma at the level of the lexical specification (`Spec.Lexical.Tiles`):
  if a text is tiled by `pre ++ seg ++ post` (`seg`, `post` non-empty) then the characters from the start of the first
  token of `seg` to the end of its last token are tiled by `seg` itself, moved down by the start offset, followed by
  `<EOF>`.  What makes it true: an ignored run / a lexeme / a follow restriction never looks further than the NEXT
  character, and the end of the text satisfies every follow restriction.
-/
import PyGqlModel.Spec.Lexical
namespace PyGql

/-- move a token `d` characters to the right / to the left -/
def Tok.up (d : Nat) (t : Tok) : Tok := { t with start := t.start + d, stop := t.stop + d }
def Tok.down (d : Nat) (t : Tok) : Tok := { t with start := t.start - d, stop := t.stop - d }

@[simp] theorem Tok.down_up (d : Nat) (t : Tok) : (t.up d).down d = t := by
  cases t; simp [Tok.up, Tok.down]

theorem Tok.map_down_up (d : Nat) (ts : List Tok) : (ts.map (Tok.up d)).map (Tok.down d) = ts := by
  induction ts with
  | nil => rfl
  | cons t ts ih => simp [ih]

namespace Spec.Lexical

/-- the `<EOF>` token of a text of length `m` -/
def eofT (m : Nat) : Tok := ⟨.eof, m, m, textOfString "<EOF>"⟩

theorem startsWith_append_false (p : Nat → Bool) (a b : Text) (h : startsWith p (a ++ b) = false) :
    startsWith p a = false := by
  cases a with
  | nil => rfl
  | cons c t => simpa [startsWith] using h

/-- an ignored run only looks at the next character: what follows may be truncated -/
theorem IgnRun.trunc {a b ign : Text} (h : IgnRun (a ++ b) ign) : IgnRun a ign := by
  induction h with
  | nil => exact .nil
  | char c t hc _ ih => exact .char c t hc ih
  | comment body t hb hs _ ih =>
    refine .comment body t hb ?_ ih
    rw [← List.append_assoc] at hs
    exact startsWith_append_false _ _ _ hs

/-- a follow restriction only looks at the next character, and the end of the text satisfies it -/
theorem Follow.trunc {k : TokKind} {lex a b : Text} (h : Follow k lex (a ++ b)) : Follow k lex a := by
  cases k <;> simp only [Follow] at h ⊢
  all_goals first
    | exact startsWith_append_false _ _ _ h
    | exact fun e => startsWith_append_false _ _ _ (h e)

theorem Tiles.cons_inv {n : Nat} {s : Text} {t : Tok} {toks : List Tok} (h : Tiles n s (t :: toks)) (hne : toks ≠ []) :
    ∃ ign lex rest, s = ign ++ (lex ++ rest) ∧ IgnRun (lex ++ rest) ign ∧ Lexeme t.kind lex t.value ∧
      Follow t.kind lex rest ∧ Tiles n rest toks ∧
      t = ⟨t.kind, n - (lex ++ rest).length, n - rest.length, t.value⟩ := by
  cases h with
  | eof ign _ => exact absurd rfl hne
  | tok ign lex rest k v toks hi hl hf ht => exact ⟨ign, lex, rest, rfl, hi, hl, hf, ht, rfl⟩

/-- drop leading tokens -/
theorem Tiles.drop_prefix {n : Nat} : ∀ (pre : List Tok) {s : Text} {more : List Tok}, more ≠ [] →
    Tiles n s (pre ++ more) → ∃ x s1, s = x ++ s1 ∧ Tiles n s1 more
  | [], s, more, _, h => ⟨[], s, rfl, h⟩
  | t :: pre, s, more, hne, h => by
    obtain ⟨ign, lex, rest, rfl, _, _, _, ht, _⟩ := Tiles.cons_inv (toks := pre ++ more) h (by simp [hne])
    obtain ⟨x, s1, rfl, h1⟩ := Tiles.drop_prefix pre hne ht
    exact ⟨ign ++ (lex ++ x), s1, by simp, h1⟩

/-- the segment lemma: the tokens `seg` at the head of a tiling tile their own characters `body` (for every length
    `m` of an enclosing text that leaves room), and the tiling goes on with `post` on the remaining `rest` -/
theorem Tiles.segment {n : Nat} : ∀ (seg : List Tok) {s : Text} {post : List Tok}, post ≠ [] →
    Tiles n s (seg ++ post) →
    ∃ body rest, s = body ++ rest ∧ Tiles n rest post ∧ (seg = [] → body = []) ∧
      (∀ t ∈ seg.getLast?, t.stop = n - rest.length) ∧
      ∀ m, body.length ≤ m → m + rest.length ≤ n →
        ∃ seg', seg = seg'.map (Tok.up (n - rest.length - m)) ∧ Tiles m body (seg' ++ [eofT m])
  | [], s, post, _, h =>
    ⟨[], s, rfl, h, fun _ => rfl, by simp, fun m _ _ => ⟨[], rfl, Tiles.eof [] .nil⟩⟩
  | t :: seg, s, post, hne, h => by
    obtain ⟨ign, lex, rest0, rfl, hi, hl, hf, ht, et⟩ := Tiles.cons_inv (toks := seg ++ post) h (by simp [hne])
    obtain ⟨body', rest, rfl, hp, hnil, hlast, hm⟩ := Tiles.segment seg hne ht
    refine ⟨ign ++ (lex ++ body'), rest, by simp, hp, by simp, ?_, ?_⟩
    · intro u hu
      cases seg with
      | nil =>
        simp at hu; subst hu
        rw [et, hnil rfl]; simp
      | cons t2 seg2 =>
        simp only [List.getLast?_cons_cons] at hu
        exact hlast u hu
    · intro m hb hmr
      obtain ⟨seg', e, ht'⟩ := hm m (by simp at hb; omega) hmr
      refine ⟨⟨t.kind, m - (lex ++ body').length, m - body'.length, t.value⟩ :: seg', ?_, ?_⟩
      · rw [List.map_cons, ← e]
        congr 1
        rw [et]
        simp only [Tok.up, List.length_append] at hb ⊢
        congr 1 <;> omega
      · have hi' : IgnRun (lex ++ body') ign := by
          rw [← List.append_assoc] at hi; exact hi.trunc
        exact Tiles.tok ign lex body' t.kind t.value (seg' ++ [eofT m]) hi' hl hf.trunc ht'

/-- characters `a … b` of a text -/
def slice (s : Text) (a b : Nat) : Text := (s.drop a).take (b - a)

theorem slice_mid (x body rest : Text) : slice (x ++ (body ++ rest)) x.length (x.length + body.length) = body := by
  simp [slice]

/-- THE SLICE LEMMA on tilings: for a tiling `pre ++ (f :: tl) ++ post` of a whole text (`post ≠ []`: at least `<EOF>`
    follows), the characters from the start of `f` to the end of the last token of `f :: tl` are tiled by exactly these
    tokens, moved down by `f.start`, followed by `<EOF>` — with no leading and no trailing ignored characters. -/
theorem Tiles.slice {s : Text} (pre : List Tok) (f : Tok) (tl post : List Tok) (hne : post ≠ [])
    (h : Tiles s.length s (pre ++ (f :: tl) ++ post)) :
    f.start ≤ ((f :: tl).getLast?.getD f).stop ∧ ((f :: tl).getLast?.getD f).stop ≤ s.length ∧
    Tiles (((f :: tl).getLast?.getD f).stop - f.start) (Lexical.slice s f.start ((f :: tl).getLast?.getD f).stop)
      ((f :: tl).map (Tok.down f.start) ++ [eofT (((f :: tl).getLast?.getD f).stop - f.start)]) := by
  have e : pre ++ (f :: tl) ++ post = pre ++ (f :: (tl ++ post)) := by simp
  rw [e] at h
  obtain ⟨x, s1, rfl, h1⟩ := Tiles.drop_prefix pre (by simp) h
  obtain ⟨ign, lex, rest0, rfl, _, hl, hf, ht, et⟩ := Tiles.cons_inv h1 (by simp [hne])
  obtain ⟨body', rest, rfl, _, hnil, hlast, hm⟩ := Tiles.segment tl hne ht
  have hb : ((f :: tl).getLast?.getD f).stop = (x ++ ign).length + (lex ++ body').length := by
    cases tl with
    | nil =>
      simp only [List.getLast?_singleton, Option.getD_some]
      rw [et, hnil rfl]; simp; omega
    | cons t2 tl2 =>
      have := hlast ((t2 :: tl2).getLast (by simp)) (by simp [List.getLast?_eq_some_getLast])
      simp only [List.getLast?_cons_cons, List.getLast?_eq_some_getLast (l := t2 :: tl2) (by simp), Option.getD_some]
      rw [this]; simp; omega
  have ha : f.start = (x ++ ign).length := by rw [et]; simp; omega
  have hs : x ++ (ign ++ (lex ++ (body' ++ rest))) = (x ++ ign) ++ ((lex ++ body') ++ rest) := by simp
  rw [hb, ha, hs, slice_mid]
  refine ⟨by omega, by simp; omega, ?_⟩
  rw [Nat.add_sub_cancel_left]
  obtain ⟨seg', e', ht'⟩ := hm (lex ++ body').length (by simp) (by simp; omega)
  have hd : (x ++ (ign ++ (lex ++ (body' ++ rest)))).length - rest.length - (lex ++ body').length = (x ++ ign).length := by
    simp; omega
  rw [hd] at e'
  rw [List.map_cons, e', Tok.map_down_up]
  have hf' : Tok.down (x ++ ign).length f = ⟨f.kind, (lex ++ body').length - (lex ++ body').length,
      (lex ++ body').length - body'.length, f.value⟩ := by
    rw [et]; simp [Tok.down]; omega
  rw [hf']
  have hf2 : Follow f.kind lex body' := hf.trunc
  exact Tiles.tok [] lex body' f.kind f.value (seg' ++ [eofT _]) .nil hl hf2 ht'

end Spec.Lexical
end PyGql

/-
  C12 text level — `include_descriptions=False`: the printer with descriptions off prints what the printer with
  descriptions on prints for the schema WITHOUT its descriptions (`stripSchema`):
  `printSchemaT o s = printSchemaT { o with descriptions := true } (stripSchema s)` when `o.descriptions = false`.
-/
import PyGqlModel.Lemmas.SdlTextRewrapPrint
import PyGqlModel.SdlAstToDoc
namespace PyGql.SdlText
open PyGql PyGql.Ast PyGql.Sdl PyGql.SdlPrint

/-! ### default values do not look at descriptions -/

theorem findType_strip (s : SchemaD) (n : String) : (stripSchema s).findType n = (s.findType n).map stripType := by
  simp only [SchemaD.findType, stripSchema]
  induction s.types with
  | nil => rfl
  | cons t ts ih =>
    have hn : (stripType t).name = t.name := rfl
    simp only [List.map_cons, List.find?_cons, hn]
    cases t.name == n <;> simp [ih]

theorem find_values_strip (v : J) : ∀ (vs : List EnumValD),
    ((vs.map stripEnumVal).find? (fun ev => jEq ev.value v)).map (fun ev => Lit.enum ev.name) =
      (vs.find? (fun ev => jEq ev.value v)).map (fun ev => Lit.enum ev.name)
  | [] => rfl
  | x :: vs => by
    have hv : (stripEnumVal x).value = x.value := rfl
    simp only [List.map_cons, List.find?_cons, hv]
    cases jEq x.value v
    · exact find_values_strip v vs
    · rfl

theorem valueLit_strip (s : SchemaD) : ∀ fuel,
    (∀ v ty, valueLit (stripSchema s) fuel v ty = valueLit s fuel v ty) ∧
    (∀ items t, itemsLit (stripSchema s) fuel items t = itemsLit s fuel items t) ∧
    (∀ kvs (fs : List ArgD), fieldsLit (stripSchema s) fuel kvs (fs.map stripArg) = fieldsLit s fuel kvs fs) := by
  intro fuel
  induction fuel with
  | zero =>
    refine ⟨fun v ty => by simp [valueLit], fun items t => by simp [itemsLit], fun kvs fs => by simp [fieldsLit]⟩
  | succ k ih =>
    obtain ⟨ih1, ih2, ih3⟩ := ih
    refine ⟨?_, ?_, ?_⟩
    · intro v ty
      cases ty with
      | nonNull t => simp only [valueLit, ih1]
      | list t => simp only [valueLit, ih1, ih2]
      | named n =>
        simp only [valueLit, findType_strip]
        cases hft : s.findType n with
        | none => rfl
        | some t =>
          simp only [Option.map_some]
          have hk : (stripType t).kind = t.kind := rfl
          rw [hk]
          cases v <;> cases t.kind <;> simp only [stripType, find_values_strip, ih3]
    · intro items t
      cases items with
      | nil => simp [itemsLit]
      | cons x xs => simp only [itemsLit, ih1, ih2]
    · intro kvs fs
      cases fs with
      | nil => simp [fieldsLit]
      | cons f fs =>
        simp only [List.map_cons, fieldsLit, ih1, ih3]
        rfl

theorem valueText_strip (s : SchemaD) (v : J) (ty : Ty) :
    SdlPrintT.valueText (stripSchema s) v ty = SdlPrintT.valueText s v ty := by
  simp only [SdlPrintT.valueText, (valueLit_strip s valueFuel).1]

/-! ### the printer -/

section
variable (o : SdlPrintT.OptsT) (hoff : o.descriptions = false) (s : SchemaD)

/-- the same options with descriptions on -/
abbrev onOf (o : SdlPrintT.OptsT) : SdlPrintT.OptsT := { o with descriptions := true }

include hoff

theorem printDescription_off (d : Option String) (depth : Nat) (first : Bool) : SdlPrintT.printDescription o d depth first = [] := by
  cases d <;> simp [SdlPrintT.printDescription, hoff]

omit hoff in
theorem printDescription_none (o' : SdlPrintT.OptsT) (depth : Nat) (first : Bool) : SdlPrintT.printDescription o' none depth first = [] := rfl

omit hoff in
theorem printInputValue_strip (a : ArgD) : SdlPrintT.printInputValue (stripSchema s) (stripArg a) = SdlPrintT.printInputValue s a := by
  simp only [SdlPrintT.printInputValue, stripArg, valueText_strip]

theorem multiArgs_off (as : List ArgD) : SdlPrintT.multiArgs o as = false := by simp [SdlPrintT.multiArgs, hoff]

omit hoff in
theorem multiArgs_strip (o' : SdlPrintT.OptsT) (as : List ArgD) : SdlPrintT.multiArgs o' (as.map stripArg) = false := by
  simp only [SdlPrintT.multiArgs, Bool.and_eq_false_iff]
  right
  induction as with
  | nil => rfl
  | cons a as ih => simp only [List.map_cons, List.any_cons, ih, stripArg, Bool.or_self]

omit hoff in
theorem printArgs_strip (o₁ o₂ : SdlPrintT.OptsT) (depth : Nat) : ∀ (k : Nat) (as : List ArgD),
    SdlPrintT.printArgs (stripSchema s) o₂ depth false k (as.map stripArg) = SdlPrintT.printArgs s o₁ depth false k as
  | _, [] => rfl
  | k, a :: as => by
    simp only [List.map_cons, SdlPrintT.printArgs, Bool.false_eq_true, if_false, printInputValue_strip, printArgs_strip o₁ o₂ depth (k + 1) as]

theorem printArguments_strip (as : List ArgD) (depth : Nat) :
    SdlPrintT.printArguments (stripSchema s) (onOf o) (as.map stripArg) depth = SdlPrintT.printArguments s o as depth := by
  simp only [SdlPrintT.printArguments, multiArgs_off o hoff, multiArgs_strip, printArgs_strip s o (onOf o) depth 0 as, List.isEmpty_map]

theorem printFields_strip : ∀ (k : Nat) (fs : List FieldD),
    SdlPrintT.printFields (stripSchema s) (onOf o) k (fs.map stripField) = SdlPrintT.printFields s o k fs
  | _, [] => rfl
  | k, f :: fs => by
    simp only [List.map_cons, SdlPrintT.printFields, SdlPrintT.printField, stripField, printDescription_off o hoff, printDescription_none,
      printArguments_strip o hoff s, printFields_strip (k + 1) fs]

theorem printEnumValues_strip : ∀ (k : Nat) (vs : List EnumValD),
    SdlPrintT.printEnumValues (onOf o) k (vs.map stripEnumVal) = SdlPrintT.printEnumValues o k vs
  | _, [] => rfl
  | k, v :: vs => by
    simp only [List.map_cons, SdlPrintT.printEnumValues, SdlPrintT.printEnumValue, stripEnumVal, printDescription_off o hoff, printDescription_none,
      printEnumValues_strip (k + 1) vs]

theorem printInputFields_strip : ∀ (k : Nat) (fs : List ArgD),
    SdlPrintT.printInputFields (stripSchema s) (onOf o) k (fs.map stripArg) = SdlPrintT.printInputFields s o k fs
  | _, [] => rfl
  | k, f :: fs => by
    have hd : (stripArg f).desc = none := rfl
    simp only [List.map_cons, SdlPrintT.printInputFields, SdlPrintT.printInputField, hd, printDescription_off o hoff, printDescription_none,
      printInputValue_strip, printInputFields_strip (k + 1) fs]

theorem printType_strip (t : TypeD) : SdlPrintT.printType (stripSchema s) (onOf o) (stripType t) = SdlPrintT.printType s o t := by
  have hk : (stripType t).kind = t.kind := rfl
  unfold SdlPrintT.printType
  rw [hk]
  cases t.kind <;>
    simp only [stripType, printDescription_off o hoff, printDescription_none, printFields_strip o hoff s 0 t.fields,
      printEnumValues_strip o hoff 0 t.values, printInputFields_strip o hoff s 0 t.inputFields] <;> try rfl

theorem printDirectiveDefinition_strip (d : DirectiveD) :
    SdlPrintT.printDirectiveDefinition (stripSchema s) (onOf o) (stripDirective d) = SdlPrintT.printDirectiveDefinition s o d := by
  simp only [SdlPrintT.printDirectiveDefinition, stripDirective, printDescription_off o hoff, printDescription_none,
    printArguments_strip o hoff s]

omit hoff in
theorem needsSchemaBlock_strip : needsSchemaBlock (stripSchema s) = needsSchemaBlock s := by
  have hany : ∀ n, (s.types.map stripType).any (fun t => t.name == n) = s.types.any (fun t => t.name == n) := by
    intro n; simp only [List.any_map, Function.comp_def]; rfl
  have hr : ∀ r n, rootImplied (stripSchema s) r n = rootImplied s r n := by
    intro r n; cases r <;> simp only [rootImplied, stripSchema, hany]
  simp only [needsSchemaBlock, hr]
  rfl

omit hoff in
theorem printSchemaDefinition_strip : SdlPrintT.printSchemaDefinition (onOf o) (stripSchema s) = SdlPrintT.printSchemaDefinition o s := by
  simp only [SdlPrintT.printSchemaDefinition, needsSchemaBlock_strip]
  rfl

/-- **with descriptions off the printer prints the description-free schema** -/
theorem printSchemaT_strip : SdlPrintT.printSchemaT (onOf o) (stripSchema s) = SdlPrintT.printSchemaT o s := by
  have hd : (sortBy (·.name) (stripSchema s).directives).map (SdlPrintT.printDirectiveDefinition (stripSchema s) (onOf o)) =
      (sortBy (·.name) s.directives).map (SdlPrintT.printDirectiveDefinition s o) := by
    show (sortBy (·.name) (s.directives.map stripDirective)).map _ = _
    rw [sortBy_map (fun d : DirectiveD => d.name) stripDirective (fun _ => rfl), List.map_map]
    exact List.map_congr_left (fun d _ => printDirectiveDefinition_strip o hoff s d)
  have ht : (sortBy (·.name) (stripSchema s).types).map (SdlPrintT.printType (stripSchema s) (onOf o)) =
      (sortBy (·.name) s.types).map (SdlPrintT.printType s o) := by
    show (sortBy (·.name) (s.types.map stripType)).map _ = _
    rw [sortBy_map (fun t : TypeD => t.name) stripType (fun _ => rfl), List.map_map]
    exact List.map_congr_left (fun t _ => printType_strip o hoff s t)
  simp only [SdlPrintT.printSchemaT, printSchemaDefinition_strip, hd, ht]

end
end PyGql.SdlText

/-
  Layer 4 (completeness, building blocks): descriptions, operation type definitions, input values, argument
  definitions, field definitions, enum values, blocks, `implements`, union members, directive locations.
  (The completeness direction of the definitions themselves — `TSComplete` — is still open.)
-/
import PyGqlModel.Lemmas.ParseTSE
namespace PyGql.Parse
open PyGql PyGql.Ast PyGql.Spec

theorem firstIn_descV (fl : Flags) (o : Option StringValue) : FirstIn fl [.string, .blockString] (descV o) := by
  cases o with
  | none => simpa [descV, optV] using FirstIn.nil fl _
  | some sv =>
    intro l ts l' rest h
    simp only [descV, optV, stringV, checkAll_cons, check_node, check_tok] at h
    obtain ⟨l1, ts1, ⟨f, tl, rfl, ⟨l2, ts2, ⟨t, h1, hc, _⟩, _⟩, _⟩, _⟩ := h
    cases h1
    refine Or.inr ⟨_, _, rfl, ?_⟩
    rw [cls_kind hc]; split <;> simp

/-- `parse_description`: complete when what follows the (absent) description is not a string -/
theorem parseDescription_complete (fl : Flags) (o : Option StringValue) (l l' : Tok) (ts rest : List Tok)
    (hfol : o = none → NotK [.string, .blockString] rest)
    (h : Item.checkAll fl (descV o) l ts = some (l', rest)) :
    parseDescription fl ⟨ts, l⟩ = .ok (o, ⟨rest, l'⟩) := by
  cases o with
  | none =>
    simp only [descV, optV, checkAll_nil] at h
    cases h
    obtain ⟨t, tl, rfl, hk⟩ := hfol rfl
    have hk' : ¬(t.kind = .string ∨ t.kind = .blockString) := by simpa using hk
    simp [parseDescription, bind_eq, peek_cons, hk', pure_eq]
  | some sv =>
    simp only [descV, optV, checkAll_cons, checkAll_nil] at h
    obtain ⟨l1, ts1, hs, hfin⟩ := h
    cases hfin
    obtain ⟨c, t, tl, rfl, hk⟩ := parseStringLiteral_complete fl sv l l' ts rest hs
    have hk' : t.kind = .string ∨ t.kind = .blockString := by
      rw [hk]; cases sv.block <;> simp
    simp [parseDescription, bind_eq, peek_cons, hk', c, pure_eq]

theorem parseOperationTypeDefinition_complete (fl : Flags) (d : OperationTypeDefinition) (l l' : Tok)
    (ts rest : List Tok) (w : wfOperationType d = true)
    (h : (operationTypeV d).check fl l ts = some (l', rest)) :
    parseOperationTypeDefinition fl ⟨ts, l⟩ = .ok (d, ⟨rest, l'⟩) := by
  rcases d with ⟨op, ty, loc⟩
  simp only [operationTypeV, check_node, checkAll_cons, checkAll_nil, check_tok] at h
  obtain ⟨f, tl, rfl, ⟨l1, ts1, ⟨t, e, hc, rfl⟩, l2, ts2, ⟨col, rfl, hc2, rfl⟩, l3, ts3, hnt, hfin⟩, rfl⟩ := h
  cases e; cases hfin
  obtain ⟨hk, hv⟩ := cls_kw_inv hc
  have cnt := parseNamedType_complete fl _ _ _ _ _ hnt
  have hm : f.value ∈ Generated.ParserTables.operationTypeTuple := by
    rw [hv]; simpa [wfOperationType] using w
  simp [parseOperationTypeDefinition, bind_eq, peek_cons, parseOperationType_pos hk hm, expect_pos (cls_kind hc2), cnt,
    mkLoc_eq, pure_eq, hv]

theorem parseInputValueDefinition_complete (fl : Flags) (fuel : Nat) (d : InputValueDefinition) (l l' : Tok)
    (ts rest : List Tok) (w : wfInputValue d = true) (hf : ts.length ≤ fuel) (hfol : FollowTDD rest)
    (h : (inputValueV d).check fl l ts = some (l', rest)) :
    parseInputValueDefinition fl fuel ⟨ts, l⟩ = .ok (d, ⟨rest, l'⟩) := by
  rcases d with ⟨desc, nm, t, dv, ds, loc⟩
  simp only [inputValueV, check_node] at h
  obtain ⟨f, tl, rfl, hall, rfl⟩ := h
  rw [checkAll_append] at hall
  obtain ⟨l1, ts1, hdesc, hall⟩ := hall
  rw [checkAll_cons] at hall
  obtain ⟨l2, ts2, hn, htd⟩ := hall
  simp only [wfInputValue, Bool.and_eq_true] at w
  obtain ⟨t1, tl1, rfl, hk1⟩ := nameV_first hn
  have cdesc := parseDescription_complete fl desc l l1 (f :: tl) (t1 :: tl1) (fun _ => NotK.cons (by simp [hk1])) hdesc
  have cn := parseName_complete fl _ _ _ _ _ hn
  have ctd := typeDefaultDirs_complete fl fuel t dv ds l2 l' ts2 rest w.1.1 w.1.2 w.2
    (by have a := checkAll_len hdesc; have b := check_len hn; omega) hfol htd
  rw [parseInputValueDefinition_eq]
  simp [bind_eq, peek_cons, cdesc, cn, ctd, mkLoc_eq, pure_eq]

/-- the first token of an input value / field / enum value definition: a description string or its name -/
theorem descName_first {fl : Flags} {desc : Option StringValue} {nm : Name} {is : List Item} {l : Tok} {ts : List Tok}
    {r : Tok × List Tok} (h : Item.checkAll fl (descV desc ++ nameV nm :: is) l ts = some r) :
    ∃ t tl, ts = t :: tl ∧ (t.kind = .string ∨ t.kind = .blockString ∨ t.kind = .name) := by
  rcases r with ⟨l', rest⟩
  rw [checkAll_append] at h
  obtain ⟨l1, ts1, hd, hall⟩ := h
  rw [checkAll_cons] at hall
  obtain ⟨l2, ts2, hn, _⟩ := hall
  obtain ⟨t1, tl1, rfl, hk1⟩ := nameV_first hn
  rcases firstIn_descV fl desc _ _ _ _ hd with ⟨rfl, _⟩ | ⟨t, tl, rfl, hk⟩
  · exact ⟨_, _, rfl, Or.inr (Or.inr hk1)⟩
  · refine ⟨_, _, rfl, ?_⟩
    simp at hk; rcases hk with hk | hk
    · exact Or.inl hk
    · exact Or.inr (Or.inl hk)

theorem inputValueV_width (d : InputValueDefinition) : 1 ≤ (inputValueV d).yield.length := by
  simp [inputValueV, nameV, Item.yield, Item.yieldAll, yieldAll_append]; omega

theorem parseArgumentDefinitions_complete (fl : Flags) (fuel : Nat) (ds : List InputValueDefinition) (l l' : Tok)
    (ts rest : List Tok) (w : ∀ d ∈ ds, wfInputValue d = true) (hf : ts.length ≤ fuel)
    (hempty : ds = [] → NotK [.parenL] rest)
    (h : Item.checkAll fl (groupV .parenL .parenR inputValueV ds) l ts = some (l', rest)) :
    parseArgumentDefinitions fl fuel ⟨ts, l⟩ = .ok (ds, ⟨rest, l'⟩) := by
  rw [parseArgumentDefinitions_eq]
  apply optMany_complete fl _ .parenL .parenR inputValueV FollowTDD fuel ds l l' ts rest
  · exact Nat.le_trans (groupV_len inputValueV_width h) hf
  · intro d hd l ts' l' rest hl hc hfo
    exact parseInputValueDefinition_complete fl fuel d l l' ts' rest (w d hd) (by omega) hfo hc
  · intro d _ l ts r hc
    rcases r with ⟨l', rest⟩
    simp only [inputValueV, check_node] at hc
    obtain ⟨f, tl, rfl, hall, _⟩ := hc
    obtain ⟨t, tl', e, hk⟩ := descName_first hall
    cases e
    rcases hk with hk | hk | hk <;> exact ⟨NotK.cons (by simp [hk]), NotK.cons (by simp [hk])⟩
  · intro t tl hk; exact NotK.cons (by simp [hk])
  · exact hempty
  · exact h

/-- an optional `{ X+ }` block: complete, the look-ahead restriction supplying the `{`-test when absent -/
theorem block_complete {α} (fl : Flags) (p : P α) (V : α → Item) (Fol : List Tok → Prop)
    (n : Nat) (xs : List α) (l l' : Tok) (ts rest : List Tok)
    (hV : ∀ x, 1 ≤ (V x).yield.length) (hf : ts.length ≤ n)
    (hp : ∀ x ∈ xs, ∀ l ts' l' rest, ts'.length < ts.length → (V x).check fl l ts' = some (l', rest) → Fol rest →
        p ⟨ts', l⟩ = .ok (x, ⟨rest, l'⟩))
    (hfirst : ∀ x ∈ xs, ∀ l ts r, (V x).check fl l ts = some r → Fol ts ∧ NotK [.curlyR] ts)
    (hclose : ∀ t tl, t.kind = .curlyR → Fol (t :: tl))
    (hne : xs = [] → rest ≠ [])
    (h : Item.checkAll fl (blockV V xs) l ts = some (l', rest)) :
    optMany n .curlyL p .curlyR ⟨ts, l⟩ = .ok (xs, ⟨rest, l'⟩) := by
  cases xs with
  | nil =>
    simp only [blockV, List.isEmpty_nil, if_true, checkAll_cons, checkAll_nil, check_nla] at h
    obtain ⟨l1, ts1, ⟨rfl, rfl, hno⟩, hfin⟩ := h
    cases hfin
    cases rest with
    | nil => exact ((hne rfl) rfl).elim
    | cons t tl =>
      have hk := hno t tl rfl
      simp [optMany, bind_eq, peek_cons, hk, pure_eq]
  | cons x xs =>
    have h' : Item.checkAll fl (groupV .curlyL .curlyR V (x :: xs)) l ts = some (l', rest) := by
      simpa [blockV, groupV] using h
    exact optMany_complete fl p .curlyL .curlyR V Fol n (x :: xs) l l' ts rest
      (Nat.le_trans (groupV_len hV h') hf) hp hfirst hclose (by simp) h'

end PyGql.Parse

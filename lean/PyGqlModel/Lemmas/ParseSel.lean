/-
  Layer 2: selections — fields (alias, arguments, directives, nested selection sets), fragment spreads,
  inline fragments (with the `on` look-ahead), selection sets: soundness (WF, spans) and exact completeness.
-/
import PyGqlModel.Lemmas.ParseArgs
namespace PyGql.Parse
open PyGql PyGql.Ast PyGql.Spec

/-! ### first tokens of optional parts -/

/-- if the items consume anything, the first token's kind is in `F` -/
def FirstIn (fl : Flags) (F : List TokKind) (is : List Item) : Prop :=
  ∀ l ts l' rest, Item.checkAll fl is l ts = some (l', rest) →
    (ts = rest ∧ l' = l) ∨ ∃ t tl, ts = t :: tl ∧ t.kind ∈ F

theorem FirstIn.nil (fl : Flags) (F : List TokKind) : FirstIn fl F [] := by
  intro l ts l' rest h
  rw [checkAll_nil] at h; cases h; exact Or.inl ⟨rfl, rfl⟩

theorem FirstIn.append {fl : Flags} {F1 F2 : List TokKind} {is1 is2 : List Item}
    (h1 : FirstIn fl F1 is1) (h2 : FirstIn fl F2 is2) : FirstIn fl (F1 ++ F2) (is1 ++ is2) := by
  intro l ts l' rest h
  rw [checkAll_append] at h
  obtain ⟨l1, ts1, a, b⟩ := h
  rcases h1 _ _ _ _ a with ⟨rfl, rfl⟩ | ⟨t, tl, rfl, hk⟩
  · rcases h2 _ _ _ _ b with ⟨rfl, rfl⟩ | ⟨t, tl, rfl, hk⟩
    · exact Or.inl ⟨rfl, rfl⟩
    · exact Or.inr ⟨t, tl, rfl, by simp [hk]⟩
  · exact Or.inr ⟨t, tl, rfl, by simp [hk]⟩

theorem FirstIn.mono {fl : Flags} {F F' : List TokKind} {is : List Item} (h : FirstIn fl F is)
    (hs : ∀ k ∈ F, k ∈ F') : FirstIn fl F' is := by
  intro l ts l' rest hc
  rcases h _ _ _ _ hc with e | ⟨t, tl, rfl, hk⟩
  · exact Or.inl e
  · exact Or.inr ⟨t, tl, rfl, hs _ hk⟩

/-- a list starting with a mandatory token of kind `k` -/
theorem FirstIn.tok (fl : Flags) (k : TokKind) (v : Text) (is : List Item) : FirstIn fl [k] (Item.tok k v :: is) := by
  intro l ts l' rest h
  simp only [checkAll_cons, check_tok] at h
  obtain ⟨l1, ts1, ⟨t, rfl, hc, _⟩, _⟩ := h
  exact Or.inr ⟨t, _, rfl, by simp [cls_kind hc]⟩

/-- a list starting with a node whose first item is a mandatory token -/
theorem FirstIn.node_tok (fl : Flags) (loc : Loc) (k : TokKind) (v : Text) (is js : List Item) :
    FirstIn fl [k] (Item.node loc (Item.tok k v :: is) :: js) := by
  intro l ts l' rest h
  simp only [checkAll_cons, check_node, check_tok] at h
  obtain ⟨l1, ts1, ⟨f, tl, rfl, ⟨l2, ts2, ⟨t, h1, hc, _⟩, _⟩, _⟩, _⟩ := h
  cases h1
  exact Or.inr ⟨_, _, rfl, by simp [cls_kind hc]⟩

theorem FirstIn.use {fl : Flags} {F ks : List TokKind} {is : List Item} (hF : FirstIn fl F is)
    {l l' : Tok} {ts rest : List Tok} (h : Item.checkAll fl is l ts = some (l', rest))
    (hr : NotK ks rest) (hd : ∀ k ∈ F, k ∉ ks) : NotK ks ts := by
  rcases hF _ _ _ _ h with ⟨rfl, _⟩ | ⟨t, tl, rfl, hk⟩
  · exact hr
  · exact NotK.cons (hd _ hk)

theorem firstIn_groupV {α} (fl : Flags) (opn close : TokKind) (V : α → Item) (xs : List α) :
    FirstIn fl [opn] (groupV opn close V xs) := by
  cases xs with
  | nil => simpa [groupV] using FirstIn.nil fl [opn]
  | cons x xs => simpa [groupV] using FirstIn.tok fl opn [] _

theorem firstIn_argumentsV (fl : Flags) (as : List Argument) : FirstIn fl [.parenL] (argumentsV as) :=
  firstIn_groupV fl _ _ _ as

theorem firstIn_directivesV (fl : Flags) (ds : List Directive) : FirstIn fl [.atSign] (directivesV ds) := by
  cases ds with
  | nil => simpa [directivesV] using FirstIn.nil fl [.atSign]
  | cons d ds => simpa [directivesV, directiveV] using FirstIn.node_tok fl d.loc .atSign [] _ _

theorem firstIn_optSelectionSetV (fl : Flags) (ss : Option SelectionSet) :
    FirstIn fl [.curlyL] (optSelectionSetV ss) := by
  cases ss with
  | none => simpa [optSelectionSetV] using FirstIn.nil fl [.curlyL]
  | some ss =>
    cases ss with
    | mk sels loc => simpa [optSelectionSetV, selectionSetV] using FirstIn.node_tok fl loc .curlyL [] _ _


/-! ### soundness -/

def aliasV (al : Option Name) : List Item :=
  match al with
  | none => []
  | some a => [nameV a, p .colon]

def tcV (tc : Option NamedType) : List Item :=
  match tc with
  | none => []
  | some t => [kw K.on, namedTypeV t]

theorem selectionV_field (al : Option Name) (nm : Name) (as : List Argument) (ds : List Directive)
    (ss : Option SelectionSet) (loc : Loc) :
    selectionV (.field al nm as ds ss loc) =
      .node loc (aliasV al ++ nameV nm :: (argumentsV as ++ directivesV ds ++ optSelectionSetV ss)) := by
  cases al <;> simp [selectionV, aliasV]

theorem selectionV_inline (tc : Option NamedType) (ds : List Directive) (ss : SelectionSet) (loc : Loc) :
    selectionV (.inlineFragment tc ds ss loc) =
      .node loc (p .ellip :: (tcV tc ++ directivesV ds ++ [selectionSetV ss])) := by
  cases tc <;> simp [selectionV, tcV]

/-- what a selection-set parser must satisfy -/
def SoundSS (fl : Flags) (pss : P SelectionSet) : Prop :=
  ∀ s x s', pss s = .ok (x, s') →
    wfSelectionSet x = true ∧ (selectionSetV x).check fl s.last s.toks = some (s'.last, s'.toks)

theorem parseFieldWith_sound (fl : Flags) (fuel : Nat) (pss : P SelectionSet) (hpss : SoundSS fl pss)
    (s : PS) (f : Selection) (s' : PS) (h : parseFieldWith fl fuel pss s = .ok (f, s')) :
    wfSelection f = true ∧ (selectionV f).check fl s.last s.toks = some (s'.last, s'.toks) := by
  simp only [parseFieldWith, bind_ok, peek_ok, skip_ok, ite_ok, mkLoc_ok, pure_ok] at h
  obtain ⟨st, s1, ⟨ts, h1, hs1⟩, noa, s2, hn, ⟨al, nm⟩, s3, hal, as, s4, ha, ds, s5, hd, oss, s6, hss, loc, s7,
    ⟨hloc, hs7⟩, hfin⟩ := h
  subst hs1
  have cn := parseName_sound fl _ _ _ hn
  obtain ⟨wa, ca, _⟩ := parseArguments_sound fl _ _ _ _ _ ha
  obtain ⟨wd, cd⟩ := parseDirectives_sound fl _ _ _ _ _ hd
  -- optional selection set
  have hoss : wfOptSelectionSet oss = true ∧
      Item.checkAll fl (optSelectionSetV oss) s5.last s5.toks = some (s6.last, s6.toks) := by
    obtain ⟨t, s8, ⟨ts8, h8, hs8⟩, hx⟩ := hss
    subst hs8
    rcases hx with ⟨_, ss, s9, hs, hfin⟩ | ⟨_, hfin⟩
    · cases hfin
      obtain ⟨w, c⟩ := hpss _ _ _ hs
      simp [wfOptSelectionSet, w, optSelectionSetV, Item.checkAll, c]
    · cases hfin
      simp [wfOptSelectionSet, optSelectionSetV, Item.checkAll]
  obtain ⟨wss, css⟩ := hoss
  -- alias
  have hals : Item.checkAll fl (aliasV al ++ [nameV nm])
      s1.last s1.toks = some (s3.last, s3.toks) := by
    obtain ⟨b, s8, ⟨t, ts8, h8, hb⟩, hx⟩ := hal
    rcases hb with ⟨hk, rfl, rfl⟩ | ⟨hk, rfl, rfl⟩
    · simp only [true_and, not_true_eq_false, false_and, or_false] at hx
      obtain ⟨n2, s9, hn2, hfin⟩ := hx
      cases hfin
      have cn2 := parseName_sound fl _ _ _ hn2
      simp only [h8] at cn
      simp only at cn2
      simp [aliasV, Item.checkAll, Item.check, cn, cls_const hk rfl, cn2]
    · simp only [Bool.false_eq_true, false_and, not_false_eq_true, true_and, false_or] at hx
      cases hx
      simp [aliasV, Item.checkAll, cn]
  cases hfin; subst hs7; subst hloc
  refine ⟨?_, ?_⟩
  · simp only [wfSelection, Bool.and_eq_true, List.all_eq_true]
    exact ⟨⟨wa, wd⟩, wss⟩
  · have hall : Item.checkAll fl (aliasV al ++
        nameV nm :: (argumentsV as ++ directivesV ds ++ optSelectionSetV oss)) s1.last s1.toks =
        some (s'.last, s'.toks) := by
      have e : (aliasV al ++
          nameV nm :: (argumentsV as ++ directivesV ds ++ optSelectionSetV oss)) =
          (aliasV al ++ [nameV nm]) ++
            (argumentsV as ++ (directivesV ds ++ optSelectionSetV oss)) := by simp
      rw [e, checkAll_append]
      refine ⟨_, _, hals, ?_⟩
      rw [checkAll_append]
      refine ⟨_, _, ca, ?_⟩
      rw [checkAll_append]
      exact ⟨_, _, cd, css⟩
    simp only [selectionV_field, check_node]
    exact ⟨_, _, h1, hall, rfl⟩

theorem parseFragmentName_sound (fl : Flags) (s : PS) (n : Name) (s' : PS) (h : parseFragmentName fl s = .ok (n, s')) :
    n.value ≠ K.on ∧ (nameV n).check fl s.last s.toks = some (s'.last, s'.toks) := by
  simp only [parseFragmentName, bind_ok, peek_ok, ite_ok, fail_ok, and_false, false_or] at h
  obtain ⟨t, s1, ⟨ts, h1, rfl⟩, hv, hn⟩ := h
  have c := parseName_sound fl _ _ _ hn
  refine ⟨?_, c⟩
  simp only [parseName, bind_ok, expect_ok, mkLoc_ok, pure_ok] at hn
  obtain ⟨t', s2, ⟨ts', h2, _, rfl⟩, loc, s3, ⟨rfl, rfl⟩, hfin⟩ := hn
  cases hfin
  rw [h1] at h2; cases h2
  exact hv

theorem parseFragmentWith_sound (fl : Flags) (fuel : Nat) (pss : P SelectionSet) (hpss : SoundSS fl pss)
    (s : PS) (f : Selection) (s' : PS) (h : parseFragmentWith fl fuel pss s = .ok (f, s')) :
    wfSelection f = true ∧ (selectionV f).check fl s.last s.toks = some (s'.last, s'.toks) := by
  simp only [parseFragmentWith, bind_ok, peek_ok, expect_ok, ite_ok, mkLoc_ok, pure_ok, advance_ok] at h
  obtain ⟨st, s1, ⟨ts, h1, rfl⟩, el, s2, ⟨ts2, h2, hk2, rfl⟩, lead, s3, ⟨ts3, h3, rfl⟩, h⟩ := h
  rw [h1] at h2; cases h2
  simp only at h3
  rcases h with ⟨_, nm, s4, hn, ds, s5, hd, loc, s6, ⟨rfl, rfl⟩, hfin⟩ |
    ⟨hcond, tc, s4, htc, ds, s5, hd, ss, s6, hs, loc, s7, ⟨rfl, rfl⟩, hfin⟩
  · cases hfin
    obtain ⟨hne, cn⟩ := parseFragmentName_sound fl _ _ _ hn
    obtain ⟨wd, cd⟩ := parseDirectives_sound fl _ _ _ _ _ hd
    simp only at cn
    refine ⟨by simp [wfSelection, hne, wd], ?_⟩
    simp [selectionV, Item.check, Item.checkAll, h1, cls_const hk2 rfl, cn]
    rw [cd]; simp
  · cases hfin
    obtain ⟨wd, cd⟩ := parseDirectives_sound fl _ _ _ _ _ hd
    obtain ⟨ws, cs⟩ := hpss _ _ _ hs
    have htc' : Item.checkAll fl (tcV tc) st ts =
        some (s4.last, s4.toks) := by
      rcases htc with ⟨hon, t, s8, ⟨ts8, h8, rfl⟩, nt, s9, hnt, hfin⟩ | ⟨_, hfin⟩
      · cases hfin
        rw [h3] at h8; cases h8
        have cnt := parseNamedType_sound fl _ _ _ hnt
        simp only at cnt
        simp only [decide_eq_true_eq] at hon
        simp [tcV, Item.checkAll, Item.check, h3, cls, hon.1, hon.2, hasValue, cnt]
      · cases hfin
        simp [tcV, Item.checkAll]
    refine ⟨by simp [wfSelection, wd, ws], ?_⟩
    have hall : Item.checkAll fl (p .ellip :: (tcV tc ++
        directivesV ds ++ [selectionSetV ss])) s1.last s1.toks = some (s'.last, s'.toks) := by
      rw [checkAll_cons]
      refine ⟨st, ts, by simp [h1, Item.check, cls_const hk2 rfl], ?_⟩
      rw [List.append_assoc, checkAll_append]
      refine ⟨_, _, htc', ?_⟩
      rw [checkAll_append]
      refine ⟨_, _, cd, ?_⟩
      simp [Item.checkAll, cs]
    simp only [selectionV_inline, check_node]
    exact ⟨_, _, h1, hall, rfl⟩

theorem selectionsV_eq (ss : List Selection) : selectionsV ss = ss.map selectionV := by
  induction ss with
  | nil => simp [selectionsV]
  | cons v vs ih => simp [selectionsV, ih]

theorem wfSelections_eq (ss : List Selection) : wfSelections ss = true ↔ ∀ x ∈ ss, wfSelection x = true := by
  induction ss with
  | nil => simp [wfSelections]
  | cons v vs ih => simp [wfSelections, ih]

theorem parseSelectionSetWith_sound (fl : Flags) (fuel : Nat) (psel : P Selection)
    (hpsel : ∀ s x s', psel s = .ok (x, s') →
      wfSelection x = true ∧ (selectionV x).check fl s.last s.toks = some (s'.last, s'.toks)) :
    SoundSS fl (parseSelectionSetWith fl fuel psel) := by
  intro s x s' h
  simp only [parseSelectionSetWith, bind_ok, peek_ok, mkLoc_ok, pure_ok] at h
  obtain ⟨st, s1, ⟨ts, h1, rfl⟩, sels, s2, hm, loc, s3, ⟨rfl, rfl⟩, hfin⟩ := h
  cases hfin
  obtain ⟨ne, q, c⟩ := many_sound fl psel .curlyL .curlyR rfl rfl (fun x => wfSelection x = true) selectionV hpsel
    _ _ _ _ hm
  refine ⟨?_, ?_⟩
  · simp only [wfSelectionSet, Bool.and_eq_true, wfSelections_eq]
    exact ⟨by cases sels <;> simp_all, q⟩
  · simp only [selectionSetV, selectionsV_eq, check_node]
    exact ⟨_, _, h1, c, rfl⟩

theorem parseSelection_sound (fl : Flags) (fuel : Nat) : ∀ (n : Nat) (s : PS) (x : Selection) (s' : PS),
    parseSelection fl fuel n s = .ok (x, s') →
    wfSelection x = true ∧ (selectionV x).check fl s.last s.toks = some (s'.last, s'.toks) := by
  intro n
  induction n with
  | zero => intro s x s' h; simp [parseSelection, fail_ok] at h
  | succ n ih =>
    intro s x s' h
    have hss := parseSelectionSetWith_sound fl fuel (parseSelection fl fuel n) ih
    simp only [parseSelection, bind_ok, peek_ok, ite_ok] at h
    obtain ⟨t, s1, ⟨ts, h1, rfl⟩, h⟩ := h
    rcases h with ⟨_, h⟩ | ⟨_, h⟩
    · exact parseFragmentWith_sound fl fuel _ hss _ _ _ h
    · exact parseFieldWith_sound fl fuel _ hss _ _ _ h

theorem parseSelectionSet_sound (fl : Flags) (fuel : Nat) : SoundSS fl (parseSelectionSet fl fuel) :=
  parseSelectionSetWith_sound fl fuel _ (parseSelection_sound fl fuel fuel)

end PyGql.Parse

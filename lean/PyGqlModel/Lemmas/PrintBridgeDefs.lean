/-
  THE BRIDGE, part 3 (continued): operations, fragments, type-system definitions, documents.
-/
import PyGqlModel.Lemmas.PrintBridgeOk
namespace PyGql.PrintTokens
open PyGql PyGql.Ast PyGql.Parse PyGql.Spec PyGql.Print PyGql.PrintLex PyGql.PrintMatch

theorem okOperation_of_leaf (ind : Text) (hind : Blank ind) (d : OperationDefinition) (h : LeafOK (operationV d).yield)
    (hw : wfOperation d = true) : okOperation ind d := by
  simp only [wfOperation, Bool.and_eq_true, decide_eq_true_eq] at hw
  obtain ⟨⟨⟨hop, _⟩, _⟩, hss⟩ := hw
  have hopk := operation_of_wf hop
  by_cases hs : isShorthand d = true
  · simp only [operationV, hs, ↓reduceIte, Item.yield, Item.yieldAll, List.nil_append, List.append_nil] at h
    simp only [isShorthand, Bool.and_eq_true, decide_eq_true_eq, Option.isNone_iff_eq_none, List.isEmpty_iff] at hs
    obtain ⟨_, hn, hv, hd⟩ := hs
    refine ⟨hopk, by rw [hn]; trivial, by rw [hv]; trivial, by rw [hd]; trivial, okSelectionSet_of_leaf ind hind _ h hss⟩
  · have hs' : isShorthand d = false := by simpa using hs
    simp only [operationV, hs', Bool.false_eq_true, ↓reduceIte, kw, Item.yield, Item.yieldAll, PrintMatch.yieldAll_append,
      List.append_nil, List.singleton_append, leafOK_cons, leafOK_append] at h
    refine ⟨hopk, ?_, okVarDefs_of_leaf ind hind _ h.2.1.1.2, okDirectives_of_leaf ind hind _ h.2.1.2,
      okSelectionSet_of_leaf ind hind _ h.2.2 hss⟩
    have hn := h.2.1.1.1
    cases hnm : d.name with
    | none => trivial
    | some n =>
      rw [hnm] at hn
      simp only [optV, nameV, Item.yieldAll, Item.yield, List.append_nil, leafOK_cons] at hn
      exact hn.1

theorem okFragment_of_leaf (ind : Text) (hind : Blank ind) (fl : Flags) (d : FragmentDefinition) (h : LeafOK (fragmentV d).yield)
    (hw : wfFragment fl d = true) : okFragment ind d := by
  simp only [wfFragment, Bool.and_eq_true] at hw
  simp only [fragmentV, namedTypeV, nameV, kw, Item.yield, Item.yieldAll, PrintMatch.yieldAll_append, List.append_nil,
    List.singleton_append, List.cons_append, List.nil_append, leafOK_cons, leafOK_append] at h
  exact ⟨h.2.1, h.2.2.2.2.1, okVarDefs_of_leaf ind hind _ h.2.2.1, okDirectives_of_leaf ind hind _ h.2.2.2.2.2.1,
    okSelectionSet_of_leaf ind hind _ h.2.2.2.2.2.2 hw.2⟩


/-! ### type-system members -/

theorem okDesc_of_leaf (ind : Text) (o : Option StringValue) (h : LeafOK (Item.yieldAll (descV o))) : okDesc ind o := by
  cases o with
  | none => trivial
  | some s =>
    simp only [okDesc]
    intro hb
    simp only [descV, optV, stringV, hb, ↓reduceIte, Item.yieldAll, Item.yield, List.append_nil, leafOK_cons] at h
    exact descLay_canon ind _ h.1

theorem okInputValue_of_leaf (ind : Text) (hind : Blank ind) (d : InputValueDefinition) (h : LeafOK (inputValueV d).yield) :
    okInputValue ind d := by
  simp only [inputValueV, nameV, Item.yield, Item.yieldAll, PrintMatch.yieldAll_append, List.append_nil, List.cons_append,
    List.nil_append, leafOK_cons, leafOK_append] at h
  refine ⟨h.2.1, lexOkType_of_leaf d.type h.2.2.2.1, ?_, okDirectives_of_leaf ind hind _ h.2.2.2.2.2⟩
  have key := okDefault_of_leaf ind hind _ h.2.2.2.2.1
  split
  · rename_i v hv; exact key v hv
  · trivial

theorem okInputValues_of_leaf (ind : Text) (hind : Blank ind) (ds : List InputValueDefinition)
    (h : ∀ d ∈ ds, LeafOK (inputValueV d).yield) : okInputValues ind ds :=
  fun d hd => okInputValue_of_leaf ind hind d (h d hd)

theorem okFieldDef_of_leaf (ind : Text) (hind : Blank ind) (d : FieldDefinition) (h : LeafOK (fieldDefinitionV d).yield) :
    okFieldDef ind d := by
  simp only [fieldDefinitionV, nameV, Item.yield, Item.yieldAll, PrintMatch.yieldAll_append, List.append_nil, List.cons_append,
    List.nil_append, leafOK_cons, leafOK_append] at h
  exact ⟨h.2.1, okInputValues_of_leaf ind hind _ (leafOK_groupV _ _ _ _ h.2.2.1), lexOkType_of_leaf d.type h.2.2.2.2.1,
    okDirectives_of_leaf ind hind _ h.2.2.2.2.2⟩

theorem okEnumValue_of_leaf (ind : Text) (hind : Blank ind) (d : EnumValueDefinition) (h : LeafOK (enumValueDefinitionV d).yield) :
    okEnumValue ind d := by
  simp only [enumValueDefinitionV, nameV, Item.yield, Item.yieldAll, PrintMatch.yieldAll_append, List.append_nil,
    List.cons_append, List.nil_append, leafOK_cons, leafOK_append] at h
  exact ⟨h.2.1, okDirectives_of_leaf ind hind _ h.2.2⟩

theorem okOperationType_of_leaf (d : OperationTypeDefinition) (h : LeafOK (operationTypeV d).yield)
    (hw : wfOperationType d = true) : okOperationType d := by
  simp only [wfOperationType, decide_eq_true_eq] at hw
  simp only [operationTypeV, namedTypeV, nameV, kw, Item.yield, Item.yieldAll, List.append_nil, List.cons_append,
    List.nil_append, leafOK_cons] at h
  exact ⟨operation_of_wf hw, h.2.2.1⟩

theorem leafOK_sepV {α} (sep : TokKind) (f : α → Item) (xs : List α) (h : LeafOK (Item.yieldAll (sepV sep f xs))) :
    ∀ x ∈ xs, LeafOK (f x).yield := by
  cases xs with
  | nil => intro x hx; cases hx
  | cons y ys =>
    simp only [sepV, Item.yieldAll, Item.yield, List.nil_append, leafOK_append] at h
    intro x hx
    simp only [List.mem_cons] at hx
    rcases hx with rfl | hx
    · exact h.1
    · have h2 := h.2
      clear h
      induction ys with
      | nil => cases hx
      | cons z zs ih =>
        simp only [List.flatMap_cons, List.cons_append, List.nil_append, Item.yieldAll, Item.yield, leafOK_cons,
          leafOK_append] at h2
        simp only [List.mem_cons] at hx
        rcases hx with rfl | hx
        · exact h2.2.1
        · exact ih hx h2.2.2

theorem leafOK_blockV {α} (f : α → Item) (xs : List α) (h : LeafOK (Item.yieldAll (blockV f xs))) :
    ∀ x ∈ xs, LeafOK (f x).yield := by
  unfold blockV at h
  split at h
  · rename_i he; intro x hx; rw [List.isEmpty_iff.1 he] at hx; cases hx
  · simp only [Item.yieldAll, Item.yield, PrintMatch.yieldAll_append, List.singleton_append, leafOK_cons, leafOK_append] at h
    exact (leafOK_map f xs).1 h.2.1

theorem okNamedTypes_of_leaf (ts : List NamedType) (h : ∀ t ∈ ts, LeafOK (namedTypeV t).yield) : okNamedTypes ts := by
  intro t ht
  have := h t ht
  simp only [namedTypeV, nameV, Item.yield, Item.yieldAll, List.append_nil, leafOK_cons] at this
  exact this.1

theorem okImplements_of_leaf (ifs : List NamedType) (h : LeafOK (Item.yieldAll (implementsV ifs))) : okNamedTypes ifs := by
  unfold implementsV at h
  split at h
  · rename_i he; rw [List.isEmpty_iff.1 he]; intro t ht; cases ht
  · simp only [kw, Item.yieldAll, Item.yield, List.singleton_append, leafOK_cons] at h
    exact okNamedTypes_of_leaf ifs (leafOK_sepV _ _ _ h.2)

theorem okUnionMembers_of_leaf (ts : List NamedType) (h : LeafOK (Item.yieldAll (unionMembersV ts))) : okNamedTypes ts := by
  unfold unionMembersV at h
  split at h
  · rename_i he; rw [List.isEmpty_iff.1 he]; intro t ht; cases ht
  · simp only [Item.yieldAll, Item.yield, List.singleton_append, leafOK_cons] at h
    exact okNamedTypes_of_leaf ts (leafOK_sepV _ _ _ h.2)


/-! ### definitions and documents -/

theorem okMembers_of {α} (ok : α → Prop) (f : α → Item) (xs : List α) (h : ∀ x ∈ xs, LeafOK (f x).yield)
    (hk : ∀ x, LeafOK (f x).yield → ok x) : okMembers ok xs := fun x hx => hk x (h x hx)

theorem okDefinition_of_leaf (ind : Text) (hind : Blank ind) (fl : Flags) (d : Definition)
    (h : LeafOK (definitionV d).yield) (hw : wfDefinition fl d = true) : okDefinition ind d := by
  cases d with
  | operation o =>
    simp only [okDefinition, isExecDef, ↓reduceIte, okExecDefinition]
    exact okOperation_of_leaf ind hind o (by simpa [definitionV] using h) (by simpa [wfDefinition] using hw)
  | fragment f =>
    simp only [okDefinition, isExecDef, ↓reduceIte, okExecDefinition]
    exact okFragment_of_leaf ind hind fl f (by simpa [definitionV] using h) (by simpa [wfDefinition] using hw)
  | schemaDefinition dirs ops loc =>
    simp only [okDefinition, isExecDef, Bool.false_eq_true, ↓reduceIte, okTSDefinition]
    simp only [wfDefinition, Bool.and_eq_true, Bool.not_eq_true', List.isEmpty_eq_false_iff, List.all_eq_true] at hw
    simp only [definitionV, nameV, kw, Item.yield, Item.yieldAll, PrintMatch.yieldAll_append, List.append_nil, List.cons_append,
      List.nil_append, List.singleton_append, leafOK_cons, leafOK_append] at h
    exact ⟨okDirectives_of_leaf ind hind _ h.2.1, hw.1.2, fun x hx =>
      okOperationType_of_leaf x ((leafOK_map operationTypeV ops).1 h.2.2.2.1 x hx) (hw.2 x hx)⟩
  | schemaExtension dirs ops loc =>
    simp only [okDefinition, isExecDef, Bool.false_eq_true, ↓reduceIte, okTSDefinition]
    simp only [wfDefinition, Bool.and_eq_true, List.all_eq_true] at hw
    simp only [definitionV, nameV, kw, Item.yield, Item.yieldAll, PrintMatch.yieldAll_append, List.append_nil, List.cons_append,
      List.nil_append, List.singleton_append, leafOK_cons, leafOK_append] at h
    exact ⟨okDirectives_of_leaf ind hind _ h.2.2.1, fun x hx =>
      okOperationType_of_leaf x (leafOK_blockV _ _ h.2.2.2 x hx) (hw.1.2 x hx)⟩
  | scalarTypeDefinition desc name dirs loc =>
    simp only [okDefinition, isExecDef, Bool.false_eq_true, ↓reduceIte, okTSDefinition]
    simp only [definitionV, nameV, kw, Item.yield, Item.yieldAll, PrintMatch.yieldAll_append, List.append_nil, List.cons_append,
      List.nil_append, List.singleton_append, leafOK_cons, leafOK_append] at h
    exact ⟨okDesc_of_leaf ind desc h.1, h.2.2.1, okDirectives_of_leaf ind hind _ h.2.2.2⟩
  | scalarTypeExtension name dirs loc =>
    simp only [okDefinition, isExecDef, Bool.false_eq_true, ↓reduceIte, okTSDefinition]
    simp only [definitionV, nameV, kw, Item.yield, Item.yieldAll, PrintMatch.yieldAll_append, List.append_nil, List.cons_append,
      List.nil_append, List.singleton_append, leafOK_cons, leafOK_append] at h
    exact ⟨h.2.2.1, okDirectives_of_leaf ind hind _ h.2.2.2⟩
  | objectTypeDefinition desc name ifs dirs fields loc =>
    simp only [okDefinition, isExecDef, Bool.false_eq_true, ↓reduceIte, okTSDefinition]
    simp only [definitionV, nameV, kw, Item.yield, Item.yieldAll, PrintMatch.yieldAll_append, List.append_nil, List.cons_append,
      List.nil_append, List.singleton_append, leafOK_cons, leafOK_append] at h
    exact ⟨okDesc_of_leaf ind desc h.1, h.2.2.1, okImplements_of_leaf ifs h.2.2.2.1.1, okDirectives_of_leaf ind hind _ h.2.2.2.1.2,
      okMembers_of _ fieldDefinitionV fields (leafOK_blockV _ _ h.2.2.2.2) (okFieldDef_of_leaf ind hind)⟩
  | objectTypeExtension name ifs dirs fields loc =>
    simp only [okDefinition, isExecDef, Bool.false_eq_true, ↓reduceIte, okTSDefinition]
    simp only [definitionV, nameV, kw, Item.yield, Item.yieldAll, PrintMatch.yieldAll_append, List.append_nil, List.cons_append,
      List.nil_append, List.singleton_append, leafOK_cons, leafOK_append] at h
    exact ⟨h.2.2.1, okImplements_of_leaf ifs h.2.2.2.1.1, okDirectives_of_leaf ind hind _ h.2.2.2.1.2,
      okMembers_of _ fieldDefinitionV fields (leafOK_blockV _ _ h.2.2.2.2) (okFieldDef_of_leaf ind hind)⟩
  | interfaceTypeDefinition desc name dirs fields loc =>
    simp only [okDefinition, isExecDef, Bool.false_eq_true, ↓reduceIte, okTSDefinition]
    simp only [definitionV, nameV, kw, Item.yield, Item.yieldAll, PrintMatch.yieldAll_append, List.append_nil, List.cons_append,
      List.nil_append, List.singleton_append, leafOK_cons, leafOK_append] at h
    exact ⟨okDesc_of_leaf ind desc h.1, h.2.2.1, okDirectives_of_leaf ind hind _ h.2.2.2.1,
      okMembers_of _ fieldDefinitionV fields (leafOK_blockV _ _ h.2.2.2.2) (okFieldDef_of_leaf ind hind)⟩
  | interfaceTypeExtension name dirs fields loc =>
    simp only [okDefinition, isExecDef, Bool.false_eq_true, ↓reduceIte, okTSDefinition]
    simp only [definitionV, nameV, kw, Item.yield, Item.yieldAll, PrintMatch.yieldAll_append, List.append_nil, List.cons_append,
      List.nil_append, List.singleton_append, leafOK_cons, leafOK_append] at h
    exact ⟨h.2.2.1, okDirectives_of_leaf ind hind _ h.2.2.2.1,
      okMembers_of _ fieldDefinitionV fields (leafOK_blockV _ _ h.2.2.2.2) (okFieldDef_of_leaf ind hind)⟩
  | unionTypeDefinition desc name dirs types loc =>
    simp only [okDefinition, isExecDef, Bool.false_eq_true, ↓reduceIte, okTSDefinition]
    simp only [definitionV, nameV, kw, Item.yield, Item.yieldAll, PrintMatch.yieldAll_append, List.append_nil, List.cons_append,
      List.nil_append, List.singleton_append, leafOK_cons, leafOK_append] at h
    exact ⟨okDesc_of_leaf ind desc h.1, h.2.2.1, okDirectives_of_leaf ind hind _ h.2.2.2.1, okUnionMembers_of_leaf types h.2.2.2.2⟩
  | unionTypeExtension name dirs types loc =>
    simp only [okDefinition, isExecDef, Bool.false_eq_true, ↓reduceIte, okTSDefinition]
    simp only [definitionV, nameV, kw, Item.yield, Item.yieldAll, PrintMatch.yieldAll_append, List.append_nil, List.cons_append,
      List.nil_append, List.singleton_append, leafOK_cons, leafOK_append] at h
    exact ⟨h.2.2.1, okDirectives_of_leaf ind hind _ h.2.2.2.1, okUnionMembers_of_leaf types h.2.2.2.2⟩
  | enumTypeDefinition desc name dirs values loc =>
    simp only [okDefinition, isExecDef, Bool.false_eq_true, ↓reduceIte, okTSDefinition]
    simp only [definitionV, nameV, kw, Item.yield, Item.yieldAll, PrintMatch.yieldAll_append, List.append_nil, List.cons_append,
      List.nil_append, List.singleton_append, leafOK_cons, leafOK_append] at h
    exact ⟨okDesc_of_leaf ind desc h.1, h.2.2.1, okDirectives_of_leaf ind hind _ h.2.2.2.1,
      okMembers_of _ enumValueDefinitionV values (leafOK_blockV _ _ h.2.2.2.2) (okEnumValue_of_leaf ind hind)⟩
  | enumTypeExtension name dirs values loc =>
    simp only [okDefinition, isExecDef, Bool.false_eq_true, ↓reduceIte, okTSDefinition]
    simp only [definitionV, nameV, kw, Item.yield, Item.yieldAll, PrintMatch.yieldAll_append, List.append_nil, List.cons_append,
      List.nil_append, List.singleton_append, leafOK_cons, leafOK_append] at h
    exact ⟨h.2.2.1, okDirectives_of_leaf ind hind _ h.2.2.2.1,
      okMembers_of _ enumValueDefinitionV values (leafOK_blockV _ _ h.2.2.2.2) (okEnumValue_of_leaf ind hind)⟩
  | inputObjectTypeDefinition desc name dirs fields loc =>
    simp only [okDefinition, isExecDef, Bool.false_eq_true, ↓reduceIte, okTSDefinition]
    simp only [definitionV, nameV, kw, Item.yield, Item.yieldAll, PrintMatch.yieldAll_append, List.append_nil, List.cons_append,
      List.nil_append, List.singleton_append, leafOK_cons, leafOK_append] at h
    exact ⟨okDesc_of_leaf ind desc h.1, h.2.2.1, okDirectives_of_leaf ind hind _ h.2.2.2.1,
      okInputValues_of_leaf ind hind fields (leafOK_blockV _ _ h.2.2.2.2)⟩
  | inputObjectTypeExtension name dirs fields loc =>
    simp only [okDefinition, isExecDef, Bool.false_eq_true, ↓reduceIte, okTSDefinition]
    simp only [definitionV, nameV, kw, Item.yield, Item.yieldAll, PrintMatch.yieldAll_append, List.append_nil, List.cons_append,
      List.nil_append, List.singleton_append, leafOK_cons, leafOK_append] at h
    exact ⟨h.2.2.1, okDirectives_of_leaf ind hind _ h.2.2.2.1,
      okInputValues_of_leaf ind hind fields (leafOK_blockV _ _ h.2.2.2.2)⟩
  | directiveDefinition desc name args locations loc =>
    simp only [okDefinition, isExecDef, Bool.false_eq_true, ↓reduceIte, okTSDefinition]
    simp only [wfDefinition, Bool.and_eq_true, Bool.not_eq_true', List.isEmpty_eq_false_iff] at hw
    simp only [definitionV, nameV, kw, Item.yield, Item.yieldAll, PrintMatch.yieldAll_append, List.append_nil, List.cons_append,
      List.nil_append, List.singleton_append, leafOK_cons, leafOK_append] at h
    refine ⟨okDesc_of_leaf ind desc h.1, h.2.2.2.1, okInputValues_of_leaf ind hind args (leafOK_groupV _ _ _ _ h.2.2.2.2.1),
      hw.1.2, fun n hn => ?_⟩
    have := leafOK_sepV _ _ _ h.2.2.2.2.2.2 n hn
    simp only [nameV, Item.yield, Item.yieldAll, List.append_nil, leafOK_cons] at this
    exact this.1

end PyGql.PrintTokens

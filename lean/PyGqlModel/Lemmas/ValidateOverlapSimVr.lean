/-
  `OvSim` for `Vr` (injective renaming of variables): `V.doc d` simulates `d` for the clause of 5.3.2. The only place
  where the overlap rule reads a variable name is `_same_value` on two `Variable` nodes (equal names); an injective
  renaming keeps its outcome (`sameValue_vr`), the sort by argument name is untouched.
-/
import PyGqlModel.Lemmas.ValidateOverlapSimTable
import PyGqlModel.Lemmas.ValidateVarRenamePos
namespace PyGql.Validate
open PyGql PyGql.Validate.Spec

namespace Vr
variable (V : Vr)

section
variable (hinj : ∀ a b, V.var a = V.var b → a = b)
include hinj

mutual
theorem sameValue_vr : ∀ a b : Value, sameValue (V.value a) (V.value b) = sameValue a b
  | .var a, .var b => by
    show (V.var a == V.var b) = (a == b)
    by_cases e : a = b
    · subst e; simp
    · have : ¬ V.var a = V.var b := fun h => e (hinj _ _ h)
      rw [beq_eq_false_iff_ne.mpr this, beq_eq_false_iff_ne.mpr e]
  | .list as, .list bs => by simp only [Vr.value, sameValue]; exact sameValues_vr as bs
  | .obj fs, .obj gs => by simp only [Vr.value, sameValue]; exact sameFields_vr fs gs
  | .int _, .int _ | .float _, .float _ | .str _, .str _ | .bool _, .bool _ | .null, .null | .enum _, .enum _ => rfl
  | .var _, .int _ | .var _, .float _ | .var _, .str _ | .var _, .bool _ | .var _, .null | .var _, .enum _
  | .var _, .list _ | .var _, .obj _ => rfl
  | .int _, .var _ | .int _, .float _ | .int _, .str _ | .int _, .bool _ | .int _, .null | .int _, .enum _
  | .int _, .list _ | .int _, .obj _ => rfl
  | .float _, .var _ | .float _, .int _ | .float _, .str _ | .float _, .bool _ | .float _, .null | .float _, .enum _
  | .float _, .list _ | .float _, .obj _ => rfl
  | .str _, .var _ | .str _, .int _ | .str _, .float _ | .str _, .bool _ | .str _, .null | .str _, .enum _
  | .str _, .list _ | .str _, .obj _ => rfl
  | .bool _, .var _ | .bool _, .int _ | .bool _, .float _ | .bool _, .str _ | .bool _, .null | .bool _, .enum _
  | .bool _, .list _ | .bool _, .obj _ => rfl
  | .null, .var _ | .null, .int _ | .null, .float _ | .null, .str _ | .null, .bool _ | .null, .enum _
  | .null, .list _ | .null, .obj _ => rfl
  | .enum _, .var _ | .enum _, .int _ | .enum _, .float _ | .enum _, .str _ | .enum _, .bool _ | .enum _, .null
  | .enum _, .list _ | .enum _, .obj _ => rfl
  | .list _, .var _ | .list _, .int _ | .list _, .float _ | .list _, .str _ | .list _, .bool _ | .list _, .null
  | .list _, .enum _ | .list _, .obj _ => rfl
  | .obj _, .var _ | .obj _, .int _ | .obj _, .float _ | .obj _, .str _ | .obj _, .bool _ | .obj _, .null
  | .obj _, .enum _ | .obj _, .list _ => rfl
theorem sameValues_vr : ∀ as bs : List Value, sameValues (V.values as) (V.values bs) = sameValues as bs
  | [], [] => rfl
  | [], _ :: _ => rfl
  | _ :: _, [] => rfl
  | a :: as, b :: bs => by simp only [Vr.values, sameValues, sameValue_vr a b, sameValues_vr as bs]
theorem sameFields_vr : ∀ fs gs : List ObjField, sameFields (V.objFields fs) (V.objFields gs) = sameFields fs gs
  | [], [] => rfl
  | [], _ :: _ => rfl
  | f :: fs, [] => by cases f; simp [Vr.objFields, Vr.objField, sameFields]
  | .mk n a :: fs, .mk m b :: gs => by
    simp only [Vr.objFields, Vr.objField, sameFields, sameValue_vr a b, sameFields_vr fs gs]
end

theorem sameArgsZip_vr : ∀ as bs : List Arg, sameArgsZip (as.map V.arg) (bs.map V.arg) = sameArgsZip as bs
  | [], _ => by simp [sameArgsZip]
  | _ :: _, [] => by simp [sameArgsZip]
  | a :: as, b :: bs => by
    simp only [List.map_cons, sameArgsZip, Vr.arg, V.sameValue_vr hinj a.value b.value, sameArgsZip_vr as bs]

end

theorem insertArg_vr (a : Arg) : ∀ l : List Arg, insertArg (V.arg a) (l.map V.arg) = (insertArg a l).map V.arg
  | [] => rfl
  | b :: bs => by
    simp only [List.map_cons, insertArg, Vr.arg]
    split
    · rfl
    · simp only [List.map_cons]
      congr 1
      exact insertArg_vr a bs

theorem sortArgs_vr (l : List Arg) : sortArgs (l.map V.arg) = (sortArgs l).map V.arg := by
  unfold sortArgs
  have key : ∀ (l acc : List Arg), (l.map V.arg).foldl (fun acc a => insertArg a acc) (acc.map V.arg) =
      (l.foldl (fun acc a => insertArg a acc) acc).map V.arg := by
    intro l
    induction l with
    | nil => intro acc; rfl
    | cons a l ih => intro acc; simp only [List.map_cons, List.foldl_cons, V.insertArg_vr, ih]
  exact key l []

theorem sameArguments_vr (hinj : ∀ a b, V.var a = V.var b → a = b) (a b : List Arg) :
    sameArguments (a.map V.arg) (b.map V.arg) = sameArguments a b := by
  unfold sameArguments
  rw [List.length_map, List.length_map, V.sortArgs_vr, V.sortArgs_vr, V.sameArgsZip_vr hinj]

/-- collected fields under `Vr` -/
def ent (e : FEntry) : FEntry := { e with args := e.args.map V.arg, sub := V.selList e.sub }

theorem mem_selList {x : Sel} {sels : List Sel} : x ∈ V.selList sels ↔ ∃ y ∈ sels, x = V.sel y := by
  rw [V.selList_eq_map, List.mem_map]
  constructor
  · rintro ⟨y, hy, rfl⟩; exact ⟨y, hy, rfl⟩
  · rintro ⟨y, hy, rfl⟩; exact ⟨y, hy, rfl⟩

theorem collD_fwd (s : SchemaD) {p : Option String} {sels : List Sel} {rn : String} {e : FEntry}
    (hc : CollD s p sels rn e) : CollD s p (V.selList sels) rn (V.ent e) := by
  induction hc with
  | @field parent sels alias name args dirs hasSub ssid sub hm =>
    exact CollD.field (dirs := dirs.map V.dir) (V.mem_selList.mpr ⟨_, hm, rfl⟩)
  | @inline parent sels on dirs id sub rn e hm _ ih =>
    exact CollD.inline (dirs := dirs.map V.dir) (id := id) (V.mem_selList.mpr ⟨_, hm, rfl⟩) ih

theorem collD_bwd (s : SchemaD) {p : Option String} {sels' : List Sel} {rn : String} {e' : FEntry}
    (hc : CollD s p sels' rn e') : ∀ sels, sels' = V.selList sels → ∃ e, e' = V.ent e ∧ CollD s p sels rn e := by
  induction hc with
  | @field parent sels' alias name args dirs hasSub ssid sub hm =>
    rintro sels rfl
    obtain ⟨y, hy, e⟩ := V.mem_selList.mp hm
    cases y with
    | field al n a ds hs i sb =>
      simp only [Vr.sel, Sel.field.injEq] at e
      obtain ⟨rfl, rfl, rfl, rfl, rfl, rfl, rfl⟩ := e
      exact ⟨_, rfl, CollD.field hy⟩
    | spread n ds => simp [Vr.sel] at e
    | inline on ds i sb => simp [Vr.sel] at e
  | @inline parent sels' on dirs id sub rn e hm _ ih =>
    rintro sels rfl
    obtain ⟨y, hy, e⟩ := V.mem_selList.mp hm
    cases y with
    | field al n a ds hs i sb => simp [Vr.sel] at e
    | spread n ds => simp [Vr.sel] at e
    | inline on0 ds i sb =>
      simp only [Vr.sel, Sel.inline.injEq] at e
      obtain ⟨rfl, rfl, rfl, rfl⟩ := e
      obtain ⟨e0, he0, hc0⟩ := ih sb rfl
      exact ⟨e0, he0, CollD.inline hy hc0⟩

theorem spreadD_fwd {sels : List Sel} {g : String} (h : SpreadD sels g) : SpreadD (V.selList sels) g := by
  induction h with
  | @spread sels name dirs hm => exact SpreadD.spread (dirs := dirs.map V.dir) (V.mem_selList.mpr ⟨_, hm, rfl⟩)
  | @inline sels on dirs id sub name hm _ ih =>
    exact SpreadD.inline (dirs := dirs.map V.dir) (id := id) (on := on) (V.mem_selList.mpr ⟨_, hm, rfl⟩) ih

theorem spreadD_bwd {sels' : List Sel} {g : String} (h : SpreadD sels' g) :
    ∀ sels, sels' = V.selList sels → SpreadD sels g := by
  induction h with
  | @spread sels' name dirs hm =>
    rintro sels rfl
    obtain ⟨y, hy, e⟩ := V.mem_selList.mp hm
    cases y with
    | field al n a ds hs i sb => simp [Vr.sel] at e
    | spread n ds =>
      simp only [Vr.sel, Sel.spread.injEq] at e
      obtain ⟨rfl, rfl⟩ := e
      exact SpreadD.spread hy
    | inline on ds i sb => simp [Vr.sel] at e
  | @inline sels' on dirs id sub name hm _ ih =>
    rintro sels rfl
    obtain ⟨y, hy, e⟩ := V.mem_selList.mp hm
    cases y with
    | field al n a ds hs i sb => simp [Vr.sel] at e
    | spread n ds => simp [Vr.sel] at e
    | inline on0 ds i sb =>
      simp only [Vr.sel, Sel.inline.injEq] at e
      obtain ⟨rfl, rfl, rfl, rfl⟩ := e
      exact SpreadD.inline hy (ih sb rfl)

theorem nodes_doc (d : Doc) : nodes (V.doc d) = (nodes d).map V.node := by
  simp only [nodes, Vr.doc, List.map_cons, Vr.node]
  congr 1
  induction d.defs with
  | nil => rfl
  | cons x xs ih => simp only [List.map_cons, List.flatMap_cons, List.map_append, defNodes_vr, ih]

theorem selSet_fwd {d : Doc} {i : Nat} {sels : List Sel} (h : SelSet d i sels) : SelSet (V.doc d) i (V.selList sels) := by
  unfold SelSet at h ⊢
  rw [V.nodes_doc]
  exact List.mem_map.mpr ⟨_, h, rfl⟩

theorem selSet_bwd {d : Doc} {i : Nat} {sels' : List Sel} (h : SelSet (V.doc d) i sels') :
    ∃ sels, SelSet d i sels ∧ sels' = V.selList sels := by
  unfold SelSet at h
  rw [V.nodes_doc] at h
  obtain ⟨m, hm, e⟩ := List.mem_map.mp h
  cases m <;> simp [Vr.node] at e
  rename_i j sels
  obtain ⟨rfl, rfl⟩ := e
  exact ⟨sels, hm, rfl⟩

theorem typed_doc (s : SchemaD) (d : Doc) : typedNodes s (V.doc d) = (typedNodes s d).map V.nv := by
  simp only [typedNodes, Vr.doc]
  induction d.defs with
  | nil => rfl
  | cons x xs ih => simp only [List.map_cons, List.flatMap_cons, List.map_append, tnDef_vr, ih]

theorem walkP (s : SchemaD) (d : Doc) (i : Nat) (p : Option String) : WalkP s d i p ↔ WalkP s (V.doc d) i p := by
  constructor
  · rintro ⟨sels, v, hm, rfl⟩
    refine ⟨V.selList sels, v, ?_, rfl⟩
    rw [V.typed_doc]
    exact List.mem_map.mpr ⟨_, hm, rfl⟩
  · rintro ⟨sels', v, hm, rfl⟩
    rw [V.typed_doc] at hm
    obtain ⟨⟨n, v0⟩, h0, e⟩ := List.mem_map.mp hm
    simp only [Vr.nv, Prod.mk.injEq] at e
    obtain ⟨e1, rfl⟩ := e
    cases n <;> simp [Vr.node] at e1
    rename_i j sels
    obtain ⟨rfl, rfl⟩ := e1
    exact ⟨sels, v0, h0, rfl⟩

theorem fragDefs_doc (d : Doc) : fragDefs (V.doc d) = (fragDefs d).map (mapFragDef id V.selList) := by
  simp only [fragDefs, Vr.doc]
  induction d.defs with
  | nil => rfl
  | cons x xs ih => cases x <;> simp_all [Vr.defn, mapFragDef]

/-- **`V.doc d` simulates `d`** (injective renaming of variables) -/
def ovSim (hinj : ∀ a b, V.var a = V.var b → a = b) (s : SchemaD) (d : Doc) : OvSim s d (V.doc d) where
  σ := V.selList
  φ := id
  ρ := id
  ε := V.ent
  Good := fun _ => True
  ρ_inj := fun _ _ h => h
  φ_inj := fun _ _ h => h
  sets_fwd := fun _ _ h => V.selSet_fwd h
  sets_bwd := fun _ _ h => V.selSet_bwd h
  walk := V.walkP s d
  frags_fwd := fragTable_image_fwd (φ := id) (V.fragDefs_doc d) (fun _ _ h => h)
  frags_bwd := fragTable_image_bwd (φ := id) (V.fragDefs_doc d) (fun _ _ h => h)
  collD_fwd := fun _ _ _ _ _ _ h => V.collD_fwd s h
  collD_bwd := fun _ _ _ _ rn' _ h => by
    obtain ⟨e, he, hc⟩ := V.collD_bwd s h _ rfl
    exact ⟨rn', e, rfl, he, hc⟩
  spreadD_fwd := fun _ _ _ _ h => V.spreadD_fwd h
  spreadD_bwd := fun _ _ _ g' h => ⟨g', rfl, V.spreadD_bwd h _ rfl⟩
  good_of := fun _ _ => trivial
  ε_parent := fun _ => rfl
  ε_name := fun _ => rfl
  ε_hasSub := fun _ => rfl
  ε_ssid := fun _ => rfl
  ε_fdef := fun _ => rfl
  ε_sub := fun _ => rfl
  ε_args := fun e1 e2 _ _ => V.sameArguments_vr hinj e1.args e2.args

/-- selection-set identities are untouched by `Vr` -/
theorem wfIds (d : Doc) : WfIds (V.doc d) ↔ WfIds d := by
  unfold WfIds selSetIds idsOf
  rw [V.nodes_doc, List.filterMap_map]
  have : (ssidOf? ∘ V.node) = ssidOf? := by
    funext n; cases n <;> rfl
  rw [this]

theorem fragNames_doc (d : Doc) : fragNames (V.doc d) = fragNames d := by
  simp only [fragNames, Vr.doc]
  induction d.defs with
  | nil => rfl
  | cons x xs ih => cases x <;> simp_all [Vr.defn]

end Vr
end PyGql.Validate

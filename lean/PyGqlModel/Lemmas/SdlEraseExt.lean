/-
  C12 — `build doc = build (doc.map eraseCustom)` for ARBITRARY documents, part 2: `_collect_definitions`, the part of
  `build_schema_ignoring_extensions` after it, and `extend_schema` (type extensions, schema extensions, the default values
  evaluated again in the extended types).
-/
import PyGqlModel.Lemmas.SdlEraseEnv
namespace PyGql.Props.C12
open PyGql PyGql.Sdl PyGql.SdlPrintTA

/-! ### `_collect_definitions` -/

def eraseCollected (c : Collected) : Collected :=
  { schemaDef := c.schemaDef.map eraseSD, types := c.types.map eraseType, directives := c.directives.map eraseDir }

theorem collectStep_erase (acc : Collected) (d : Def) :
    collectStep (eraseCollected acc) (eraseCustom d) = (collectStep acc d).map eraseCollected := by
  cases d with
  | schema sd =>
    simp only [eraseCustom_schema, collectStep, eraseCollected, Option.isSome_map]
    cases acc.schemaDef.isSome <;> rfl
  | type t =>
    have hn : (eraseType t).name = t.name := rfl
    have ha : (acc.types.map eraseType).any (fun x => x.name == t.name) = acc.types.any (fun x => x.name == t.name) := by
      simp only [List.any_map, Function.comp_def]; rfl
    simp only [eraseCustom, collectStep, eraseCollected, hn, ha]
    cases acc.types.any (fun x => x.name == t.name)
    · cases isDefaultName t.name
      · simp only [Bool.false_eq_true, if_false, pure, Except.pure, Except.map, eraseCollected, List.map_append, List.map_cons, List.map_nil]
      · rfl
    · rfl
  | directive dd =>
    have ha : (acc.directives.map eraseDir).any (fun x => x.name == dd.name) = acc.directives.any (fun x => x.name == dd.name) := by
      simp only [List.any_map, Function.comp_def]; rfl
    have hn : (eraseDir dd).name = dd.name := rfl
    simp only [eraseCustom_directive, collectStep, eraseCollected, hn, ha]
    cases acc.directives.any (fun x => x.name == dd.name)
    · simp only [Bool.false_eq_true, if_false, pure, Except.pure, Except.map, eraseCollected, List.map_append, List.map_cons, List.map_nil]
    · rfl
  | ext t => rfl
  | schemaExt sd => rfl
  | other => rfl

theorem collectFold_erase : ∀ (doc : Doc) (acc : Collected),
    (doc.map eraseCustom).foldlM collectStep (eraseCollected acc) = (doc.foldlM collectStep acc).map eraseCollected
  | [], _ => rfl
  | d :: ds, acc => by
    simp only [List.map_cons, List.foldlM_cons, collectStep_erase]
    cases collectStep acc d with
    | error e => rfl
    | ok acc' => exact collectFold_erase ds acc'

theorem collectDefinitions_erase (doc : Doc) :
    collectDefinitions (doc.map eraseCustom) = (collectDefinitions doc).map eraseCollected :=
  collectFold_erase doc {}

/-! ### the part of `build_schema_ignoring_extensions` after `_collect_definitions` -/

theorem buildRoots_erase {e' e : Env} (h : EnvErase e' e) (sd : Option SchemaDef) (types : List TypeD) :
    buildRoots e' (sd.map eraseSD) types = buildRoots e sd types := by
  cases sd with
  | none => rfl
  | some sd => simp only [Option.map_some, buildRoots, eraseSD, resolves_erase_fun h]

/-- the result of the erased document: same live schema, the erased environment -/
theorem buildCollected_erase (c : Collected) (additional : List TypeD) :
    buildCollected (eraseCollected c) additional =
      (buildCollected c additional >>= fun p => pure (Env.of (c.types.map eraseType) additional, p.2)) := by
  have h := envErase_of c.types additional
  have hd := mapM_map_congr' eraseDir (buildDirective (Env.of (c.types.map eraseType) additional))
    (buildDirective (Env.of c.types additional)) (buildDirective_eraseEnv h) c.directives
  have ht := mapM_map_congr' eraseType (buildType (Env.of (c.types.map eraseType) additional))
    (buildType (Env.of c.types additional)) (buildType_eraseEnv h) c.types
  simp only [buildCollected, eraseCollected, hasThunkCycle_erase h, hd, ht, buildRoots_erase h, bind_assoc, pure_bind]

/-! ### `extend_schema` -/

theorem typeExtensions_erase (live : Live) : ∀ doc : Doc,
    typeExtensions live (doc.map eraseCustom) = (typeExtensions live doc).map eraseType
  | [] => rfl
  | d :: ds => by
    have ih := typeExtensions_erase live ds
    unfold typeExtensions at ih ⊢
    cases d with
    | ext t =>
      have hn : (eraseType t).name = t.name := rfl
      simp only [List.map_cons, eraseCustom, List.filterMap_cons, hn]
      cases (isDefaultName t.name || live.types.any (·.name == t.name))
      · simpa using ih
      · simpa using ih
    | type t => simpa [eraseCustom] using ih
    | directive dd => simpa [eraseCustom] using ih
    | schema sd => simpa [eraseCustom] using ih
    | schemaExt sd => simpa [eraseCustom] using ih
    | other => simpa [eraseCustom] using ih

theorem schemaExtensions_erase : ∀ doc : Doc, schemaExtensions (doc.map eraseCustom) = (schemaExtensions doc).map eraseSD
  | [] => rfl
  | d :: ds => by
    have ih := schemaExtensions_erase ds
    unfold schemaExtensions at ih ⊢
    cases d <;> simpa [eraseCustom, eraseSD] using ih

theorem directiveDefs_erase : ∀ doc : Doc, directiveDefs (doc.map eraseCustom) = (directiveDefs doc).map eraseDir
  | [] => rfl
  | d :: ds => by
    have ih := directiveDefs_erase ds
    unfold directiveDefs at ih ⊢
    cases d <;> simpa [eraseCustom, eraseDir] using ih

theorem mergeFold_erase : ∀ (l : List TypeDef) (t : TypeDef),
    l.foldl (fun (acc : TypeDef) (y : TypeDef) =>
      { acc with interfaces := acc.interfaces ++ (eraseType y).interfaces, fields := acc.fields ++ (eraseType y).fields,
                 members := acc.members ++ (eraseType y).members, values := acc.values ++ (eraseType y).values,
                 inputFields := acc.inputFields ++ (eraseType y).inputFields }) (eraseType t) =
    eraseType (l.foldl (fun (acc : TypeDef) (e : TypeDef) =>
      { acc with interfaces := acc.interfaces ++ e.interfaces, fields := acc.fields ++ e.fields, members := acc.members ++ e.members,
                 values := acc.values ++ e.values, inputFields := acc.inputFields ++ e.inputFields }) t)
  | [], _ => rfl
  | x :: xs, t => by
    simp only [List.foldl_cons]
    rw [← mergeFold_erase xs]
    congr 1
    simp only [eraseType, List.map_append]

/-- merging the erased extensions into the erased definition = erasing the merged definition -/
theorem mergeExt_erase (exts : List TypeDef) (t : TypeDef) :
    mergeExt (exts.map eraseType) (eraseType t) = eraseType (mergeExt exts t) := by
  have hn : (eraseType t).name = t.name := rfl
  have hf : (exts.map eraseType).filter (fun x => x.name == t.name) = (exts.filter (fun x => x.name == t.name)).map eraseType := by
    rw [List.filter_map]; rfl
  unfold mergeExt
  rw [hn, hf, List.foldl_map]
  exact mergeFold_erase _ t

theorem envErase_extended {e' e : Env} (h : EnvErase e' e) (texts : List TypeDef) :
    EnvErase (e'.extended (texts.map eraseType)) (e.extended texts) := by
  refine ⟨h.add, fun n => ?_⟩
  simp only [Env.extended, h.defs]
  cases e.findDef n with
  | none => rfl
  | some d => simp only [Option.map_some, mergeExt_erase]

section
variable {e' e : Env} (h : EnvErase e' e)
include h

theorem touches_erase (hide : String) : ∀ fuel : Nat,
    (∀ lit ty, touches e' hide fuel lit ty = touches e hide fuel lit ty) ∧
    (∀ items t, touchesItems e' hide fuel items t = touchesItems e hide fuel items t) ∧
    (∀ given (l : List InputValDef), touchesFields e' hide fuel given (l.map eraseIV) = touchesFields e hide fuel given l) := by
  intro fuel
  induction fuel with
  | zero => exact ⟨fun _ _ => rfl, fun _ _ => rfl, fun _ _ => rfl⟩
  | succ k ih =>
    obtain ⟨i1, i2, i3⟩ := ih
    refine ⟨?_, ?_, ?_⟩
    · intro lit ty
      cases ty with
      | nonNull t => cases lit <;> simp only [touches, i1]
      | list t => cases lit <;> simp only [touches, i1, i2]
      | named n =>
        cases lit <;> simp only [touches, h.add, h.defs]
        cases hfa : e.findAdditional n <;> cases hfd : e.findDef n <;>
          simp only [Option.map_some, Option.map_none, eraseType, i3]
    · intro items t
      cases items with
      | nil => rfl
      | cons x xs => simp only [touchesItems, i1, i2]
    · intro given l
      cases l with
      | nil => rfl
      | cons f fs =>
        simp only [List.map_cons, touchesFields, i3, i1]
        rfl

theorem needsHidden_erase (hide : Option String) (lit : Lit) (ty : Ty) :
    needsHidden e' hide lit ty = needsHidden e hide lit ty := by
  cases hide with
  | none => rfl
  | some hd => simp only [needsHidden, (touches_erase h hd coerceFuel).1]

end

theorem buildEnumValues_erase (l : List EnumValDef) : (l.map eraseEnumVal).mapM buildEnumValue = l.mapM buildEnumValue :=
  mapM_map_congr' eraseEnumVal buildEnumValue buildEnumValue buildEnumValue_erase l

section
variable {eB' eB eX' eX : Env} (hB : EnvErase eB' eB) (hX : EnvErase eX' eX)
include hB hX

theorem defaultValueX_erase (hide : Option String) (lit : Lit) (ty : Ty) :
    defaultValueX eB' eX' hide lit ty = defaultValueX eB eX hide lit ty := by
  simp only [defaultValueX, needsHidden_erase hX, defaultValue_erase hB, defaultValue_erase hX]

theorem buildArgumentX_eraseEnv (hide : Option String) (a : InputValDef) :
    buildArgumentX eB' eX' hide (eraseIV a) = buildArgumentX eB eX hide a := by
  unfold buildArgumentX
  simp only [checkRef_erase hB, defaultValueX_erase hB hX]
  rfl

theorem buildArgumentsX_eraseEnv (hide : Option String) (l : List InputValDef) :
    (l.map eraseIV).mapM (buildArgumentX eB' eX' hide) = l.mapM (buildArgumentX eB eX hide) :=
  mapM_map_congr' _ _ _ (buildArgumentX_eraseEnv hB hX hide) l

theorem buildFieldX_eraseEnv (hide : Option String) (f : FieldDef) :
    buildFieldX eB' eX' hide (eraseField f) = buildFieldX eB eX hide f := by
  simp only [buildFieldX, eraseField, checkRef_erase hB, buildArgumentsX_eraseEnv hB hX, deprecationReason_erase]

theorem buildFieldsX_eraseEnv (hide : Option String) (l : List FieldDef) :
    (l.map eraseField).mapM (buildFieldX eB' eX' hide) = l.mapM (buildFieldX eB eX hide) :=
  mapM_map_congr' _ _ _ (buildFieldX_eraseEnv hB hX hide) l

theorem buildTypeDefX_eraseEnv (hide : Option String) (d : TypeDef) :
    buildTypeDefX eB' eX' hide (eraseType d) = buildTypeDefX eB eX hide d := by
  have hn : (d.values.map eraseEnumVal).map (·.name) = d.values.map (·.name) := by
    simp [List.map_map, Function.comp_def, eraseEnumVal]
  unfold buildTypeDefX
  have hk : (eraseType d).kind = d.kind := rfl
  rw [hk]
  cases d.kind <;>
    simp only [eraseType, checkNames_erase hB, buildFieldsX_eraseEnv hB hX, buildEnumValues_erase,
      buildArgumentsX_eraseEnv hB hX, hn]

theorem buildDirectiveX_eraseEnv (d : DirDef) : buildDirectiveX eB' eX' (eraseDir d) = buildDirectiveX eB eX d := by
  simp only [buildDirectiveX, eraseDir, buildArgumentsX_eraseEnv hB hX]

theorem extendTypeX_erase (hide : Option String) (texts : List TypeDef) (t : TypeD) :
    extendTypeX eB' eX' hide (texts.map eraseType) t = extendTypeX eB eX hide texts t := by
  have hf : (texts.map eraseType).filter (fun x => x.name == t.name) = (texts.filter (fun x => x.name == t.name)).map eraseType := by
    rw [List.filter_map]; rfl
  have hany : ((texts.filter (fun x => x.name == t.name)).map eraseType).any (fun x => x.kind != t.kind) =
      (texts.filter (fun x => x.name == t.name)).any (fun x => x.kind != t.kind) := by
    simp only [List.any_map, Function.comp_def]; rfl
  unfold extendTypeX
  simp only [hf, hany, List.foldlM_map]
  cases t.kind <;>
    simp only [eraseType, checkNames_erase hB, buildFieldsX_eraseEnv hB hX, buildEnumValues_erase,
      buildArgumentsX_eraseEnv hB hX]

theorem reDefault_erase (hide : Option String) (texts : List TypeDef) (t : TypeD) :
    reDefault eB' eX' hide (texts.map eraseType) t = reDefault eB eX hide texts t := by
  simp only [reDefault, hB.add, hB.defs]
  cases eB.findAdditional t.name <;> cases eB.findDef t.name <;>
    simp only [Option.map_some, Option.map_none, mergeExt_erase, buildTypeDefX_eraseEnv hB hX]

theorem reDefaultDirective_erase (doc : Doc) (d : DirectiveD) :
    reDefaultDirective eB' eX' (doc.map eraseCustom) d = reDefaultDirective eB eX doc d := by
  have hfind : ((directiveDefs doc).map eraseDir).find? (fun x => x.name == d.name) =
      ((directiveDefs doc).find? (fun x => x.name == d.name)).map eraseDir :=
    find?_map_name eraseDir (·.name) (fun _ => rfl) d.name _
  simp only [reDefaultDirective, directiveDefs_erase, hfind]
  cases (directiveDefs doc).find? (fun x => x.name == d.name) <;>
    simp only [Option.map_some, Option.map_none, buildDirectiveX_eraseEnv hB hX]

end

theorem mapM_congr_fun {α β} (F G : α → R β) (hfg : ∀ a, F a = G a) (l : List α) : l.mapM F = l.mapM G := by
  have : F = G := funext hfg
  rw [this]

theorem extendSchema_erase {e' e : Env} (h : EnvErase e' e) (live : Live) (doc : Doc) (additional : List TypeD) :
    extendSchema e' live (doc.map eraseCustom) additional = extendSchema e live doc additional := by
  have hX := envErase_extended h (typeExtensions live doc)
  have hany : ((typeExtensions live doc).map eraseType).any (fun x => isDefaultName x.name && x.kind != builtinKind x.name) =
      (typeExtensions live doc).any (fun x => isDefaultName x.name && x.kind != builtinKind x.name) := by
    simp only [List.any_map, Function.comp_def]; rfl
  have h1 : (fun t : TypeD => extendTypeX e' (e'.extended ((typeExtensions live doc).map eraseType)) (hideFor t.kind t.name)
      ((typeExtensions live doc).map eraseType) t) =
      (fun t : TypeD => extendTypeX e (e.extended (typeExtensions live doc)) (hideFor t.kind t.name) (typeExtensions live doc) t) :=
    funext fun t => extendTypeX_erase h hX _ _ t
  have h2 : (fun t : TypeD => reDefault e' (e'.extended ((typeExtensions live doc).map eraseType)) (hideFor t.kind t.name)
      ((typeExtensions live doc).map eraseType) t) =
      (fun t : TypeD => reDefault e (e.extended (typeExtensions live doc)) (hideFor t.kind t.name) (typeExtensions live doc) t) :=
    funext fun t => reDefault_erase h hX _ _ t
  have h3 : reDefaultDirective e' (e'.extended ((typeExtensions live doc).map eraseType)) (doc.map eraseCustom) =
      reDefaultDirective e (e.extended (typeExtensions live doc)) doc :=
    funext fun d => reDefaultDirective_erase h hX doc d
  unfold extendSchema
  simp only [typeExtensions_erase, schemaExtensions_erase, List.isEmpty_map, hany, h1, h2, h3, List.foldlM_map, eraseSD]

end PyGql.Props.C12

/-
  Renaming of ALIASES (C06, `alpha_aliases`), at the level of the MODEL OF THE CODE: `Al.doc A d` gives every field the
  alias `A.alias oldAlias fieldName` (any function - not even injective). 24 of the 26 rule visitors never read an
  alias nor the selection lists embedded in the nodes they are handed (`document`, `operation`, `selectionSet`), so the
  whole run of a chain made of such rules is EQUAL, state by state, on the renamed document (`visitDocument_al`).
  The two rules that do read aliases are `SingleFieldSubscriptions` (response keys of the root selection set: below,
  `rootKeysGo_al`, for a renaming that is injective on response keys) and `OverlappingFieldsCanBeMerged` (not here).
-/
import PyGqlModel.Validate.Chain
namespace PyGql.Validate
open PyGql

structure Al where
  /-- new alias of a field, from its alias and its name -/
  alias : Option String → String → Option String

namespace Al
variable (A : Al)

mutual
def sel : Sel → Sel
  | .field al n args dirs hs id sub => .field (A.alias al n) n args dirs hs id (selList sub)
  | .spread n dirs => .spread n dirs
  | .inline on dirs id sub => .inline on dirs id (selList sub)
def selList : List Sel → List Sel
  | [] => []
  | x :: xs => sel x :: selList xs
end

def defn : Def → Def
  | .op k nm vars dirs id sels => .op k nm vars dirs id (A.selList sels)
  | .frag n on dirs id sels => .frag n on dirs id (A.selList sels)
  | .ts a b => .ts a b

def doc (d : Doc) : Doc := { defs := d.defs.map A.defn }

def node : Node → Node
  | .document d => .document (A.doc d)
  | .operation k nm vars dirs sels => .operation k nm vars dirs (A.selList sels)
  | .selectionSet id sels => .selectionSet id (A.selList sels)
  | n => n

theorem selList_eq_map (l : List Sel) : A.selList l = l.map A.sel := by
  induction l with
  | nil => rfl
  | cons x xs ih => rw [selList, ih]; rfl

end Al

/-- the rules that read aliases -/
def Rule.readsAlias : Rule → Bool
  | .singleFieldSubscriptions | .overlappingFieldsCanBeMerged => true
  | _ => false

/-! ### what the rules read of a document node -/

theorem al_isExecutable (A : Al) (x : Def) : (A.defn x).isExecutable = x.isExecutable := by cases x <;> rfl
theorem al_isOp (A : Al) (x : Def) : (A.defn x).isOp = x.isOp := by cases x <;> rfl
theorem al_isAnonOp (A : Al) (x : Def) : (A.defn x).isAnonOp = x.isAnonOp := by
  cases x with
  | op k nm => cases nm <;> rfl
  | _ => rfl

theorem al_filter_length (A : Al) (p : Def → Bool) (hp : ∀ x, p (A.defn x) = p x) (l : List Def) :
    ((l.map A.defn).filter p).length = (l.filter p).length := by
  induction l with
  | nil => rfl
  | cons x xs ih => simp only [List.map_cons, List.filter_cons, hp]; split <;> simp [ih]

theorem al_filter_any (A : Al) (p q : Def → Bool) (hp : ∀ x, p (A.defn x) = p x) (hq : ∀ x, q (A.defn x) = q x)
    (l : List Def) : ((l.map A.defn).filter p).any q = (l.filter p).any q := by
  induction l with
  | nil => rfl
  | cons x xs ih => simp only [List.map_cons, List.filter_cons, hp]; split <;> simp [ih, hq]

/-- name and type condition of the fragment definitions -/
theorem al_fragDefs_heads (A : Al) (d : Doc) :
    (fragDefs (A.doc d)).map (fun f => (f.1, f.2.1)) = (fragDefs d).map (fun f => (f.1, f.2.1)) := by
  obtain ⟨ds⟩ := d
  simp only [fragDefs, Al.doc]
  induction ds with
  | nil => rfl
  | cons x xs ih => cases x <;> simp_all [Al.defn, List.filterMap_cons]

theorem al_fragDefs_names (A : Al) (d : Doc) : (fragDefs (A.doc d)).map (·.1) = (fragDefs d).map (·.1) := by
  have := congrArg (List.map Prod.fst) (al_fragDefs_heads A d)
  simpa [List.map_map, Function.comp_def] using this

theorem al_pfs_table (A : Al) (s : SchemaD) (d : Doc) (m : AL String) :
    ((fragDefs (A.doc d)).filter fun f => (typeFromAst s (.named f.2.1)).isSome).foldl (fun m f => AL.set m f.1 f.2.1) m =
    ((fragDefs d).filter fun f => (typeFromAst s (.named f.2.1)).isSome).foldl (fun m f => AL.set m f.1 f.2.1) m := by
  have key : ∀ (l : List (String × String × Nat × List Sel)) (m : AL String),
      (l.filter fun f => (typeFromAst s (.named f.2.1)).isSome).foldl (fun m f => AL.set m f.1 f.2.1) m =
      ((l.map fun f => (f.1, f.2.1)).filter fun p => (typeFromAst s (.named p.2)).isSome).foldl
        (fun m p => AL.set m p.1 p.2) m := by
    intro l
    induction l with
    | nil => intro m; rfl
    | cons x xs ih =>
      intro m
      simp only [List.map_cons, List.filter_cons]
      split <;> simp [ih]
  rw [key, key, al_fragDefs_heads]

/-! ### one rule, one node -/

theorem enterRule_al (A : Al) (s : SchemaD) (fx : Fixes) (r : Rule) (hr : r.readsAlias = false) (n : Node) (ti : TI)
    (st : RS) : enterRule s fx r (A.node n) ti st = enterRule s fx r n ti st := by
  cases n with
  | document d =>
    cases r with
    | executableDefinitions =>
      have h := al_filter_length A (fun x => !x.isExecutable) (fun x => by simp only [al_isExecutable]) d.defs
      simp only [Al.node, enterRule, Al.doc, h]
    | loneAnonymousOperation =>
      have h1 := al_filter_length A (·.isOp) (al_isOp A) d.defs
      have h2 := al_filter_any A (·.isOp) (·.isAnonOp) (al_isOp A) (al_isAnonOp A) d.defs
      simp only [Al.node, enterRule, Al.doc, h1, h2]
    | knownFragmentNames =>
      have h := al_fragDefs_names A d
      simp only [Al.node, enterRule, h]
    | possibleFragmentSpreads =>
      have h := al_pfs_table A s d st.pfsTypes
      simp only [Al.node, enterRule, h]
    | singleFieldSubscriptions => exact absurd hr (by decide)
    | overlappingFieldsCanBeMerged => exact absurd hr (by decide)
    | _ => rfl
  | operation k nm vars dirs sels =>
    cases r <;> first | exact absurd hr (by decide) | rfl
  | selectionSet id sels =>
    cases r <;> first | exact absurd hr (by decide) | rfl
  | _ => rfl

theorem leaveRule_al (A : Al) (s : SchemaD) (fx : Fixes) (r : Rule) (n : Node) (ti : TI) (st : RS) :
    leaveRule s fx r (A.node n) ti st = leaveRule s fx r n ti st := by
  cases n with
  | document d => cases r <;> rfl
  | operation k nm vars dirs sels => cases r <;> rfl
  | selectionSet id sels => cases r <;> rfl
  | _ => rfl

theorem tiEnter_al (A : Al) (s : SchemaD) (n : Node) (t : TI) : tiEnter s (A.node n) t = tiEnter s n t := by
  cases n <;> rfl
theorem tiLeave_al (A : Al) (n : Node) (t : TI) : tiLeave (A.node n) t = tiLeave n t := by
  cases n <;> rfl

/-! ### the chain -/

/-- a configuration none of whose rules reads aliases -/
def Cfg.AliasBlind (c : Cfg) : Prop := ∀ r ∈ c.rules, r.readsAlias = false

theorem enterRules_al (A : Al) (c : Cfg) (n : Node) (ti : TI) (rules : List Rule)
    (h : ∀ r ∈ rules, r.readsAlias = false) (rs : RS) :
    enterRules c (A.node n) ti rules rs = enterRules c n ti rules rs := by
  induction rules generalizing rs with
  | nil => rfl
  | cons r rest ih =>
    simp only [enterRules, enterRule_al A c.schema c.fixes r (h r (List.mem_cons_self ..))]
    rw [ih (fun r' hr' => h r' (List.mem_cons_of_mem _ hr'))]

theorem raisedRules_al (A : Al) (c : Cfg) (n : Node) (ti : TI) (rules : List Rule)
    (h : ∀ r ∈ rules, r.readsAlias = false) (rs : RS) :
    raisedRules c (A.node n) ti rules rs = raisedRules c n ti rules rs := by
  induction rules generalizing rs with
  | nil => rfl
  | cons r rest ih =>
    simp only [raisedRules, enterRule_al A c.schema c.fixes r (h r (List.mem_cons_self ..))]
    split <;> simp [ih (fun r' hr' => h r' (List.mem_cons_of_mem _ hr'))]

theorem enter_al (A : Al) (c : Cfg) (hc : c.AliasBlind) (n : Node) (st : St) : enter c (A.node n) st = enter c n st := by
  simp only [enter, tiEnter_al, enterRules_al A c n _ c.rules hc]

theorem leave_al (A : Al) (c : Cfg) (n : Node) (st : St) : leave c (A.node n) st = leave c n st := by
  simp only [leave, tiLeave_al, leaveRule_al]

theorem leaveSkipped_al (A : Al) (c : Cfg) (hc : c.AliasBlind) (n : Node) (st0 st1 : St) :
    leaveSkipped c (A.node n) st0 st1 = leaveSkipped c n st0 st1 := by
  simp only [leaveSkipped, tiLeave_al, leaveRule_al, raisedRules_al A c n _ c.rules hc]

theorem visitNode_al (A : Al) (c : Cfg) (hc : c.AliasBlind) (n : Node) (body body' : St → St)
    (hb : ∀ st, body st = body' st) (st : St) : visitNode c (A.node n) body st = visitNode c n body' st := by
  simp only [visitNode, enter_al A c hc, leaveSkipped_al A c hc, leave_al, hb]

mutual
theorem visitSel_al (A : Al) (c : Cfg) (hc : c.AliasBlind) : ∀ (x : Sel) (st : St), visitSel c (A.sel x) st = visitSel c x st
  | .field al n args dirs hs id sub, st => by
    simp only [Al.sel, visitSel]
    refine congrFun (congrArg (visitNode c _) (funext fun st' => ?_)) st
    split
    · exact visitNode_al A c hc (.selectionSet id sub) _ _ (visitSels_al A c hc sub) _
    · rfl
  | .spread n dirs, st => rfl
  | .inline on dirs id sub, st => by
    simp only [Al.sel, visitSel]
    refine congrFun (congrArg (visitNode c _) (funext fun st' => ?_)) st
    exact visitNode_al A c hc (.selectionSet id sub) _ _ (visitSels_al A c hc sub) _
theorem visitSels_al (A : Al) (c : Cfg) (hc : c.AliasBlind) : ∀ (xs : List Sel) (st : St),
    visitSels c (A.selList xs) st = visitSels c xs st
  | [], st => rfl
  | x :: xs, st => by
    simp only [Al.selList, visitSels]
    rw [visitSel_al A c hc x st, visitSels_al A c hc xs]
end

theorem visitDef_al (A : Al) (c : Cfg) (hc : c.AliasBlind) (x : Def) (st : St) :
    visitDef c (A.defn x) st = visitDef c x st := by
  cases x with
  | op k nm vars dirs id sels =>
    simp only [Al.defn, visitDef]
    refine visitNode_al A c hc (.operation k nm vars dirs sels) _ _ (fun st' => ?_) st
    exact visitNode_al A c hc (.selectionSet id sels) _ _ (visitSels_al A c hc sels) _
  | frag n on dirs id sels =>
    simp only [Al.defn, visitDef]
    refine congrFun (congrArg (visitNode c _) (funext fun st' => ?_)) st
    exact visitNode_al A c hc (.selectionSet id sels) _ _ (visitSels_al A c hc sels) _
  | ts a b => rfl

/-- **the run of an alias-blind chain on the renamed document is the run on the document** (equal final states:
    same errors of the same rules, same crash) -/
theorem visitDocument_al (A : Al) (c : Cfg) (hc : c.AliasBlind) (d : Doc) (st : St) :
    visitDocument c (A.doc d) st = visitDocument c d st := by
  simp only [visitDocument]
  refine visitNode_al A c hc (.document d) _ _ (fun st' => ?_) st
  simp only [Al.doc, List.foldl_map, visitDef_al A c hc]

/-! ### SingleFieldSubscriptions: the response keys of the root selection set -/

mutual
theorem selSize_al (A : Al) : ∀ x : Sel, selSize (A.sel x) = selSize x
  | .field .. => by simp only [Al.sel, selSize, selsSize_al]
  | .spread .. => rfl
  | .inline .. => by simp only [Al.sel, selSize, selsSize_al]
theorem selsSize_al (A : Al) : ∀ xs : List Sel, selsSize (A.selList xs) = selsSize xs
  | [] => rfl
  | x :: xs => by simp only [Al.selList, selsSize, selSize_al A x, selsSize_al A xs]
end

theorem sfsBound_al (A : Al) (d : Doc) : sfsBound (A.doc d) = sfsBound d := by
  obtain ⟨ds⟩ := d
  simp only [sfsBound, Al.doc, List.foldl_map]
  congr 1
  funext n x
  cases x <;> simp [Al.defn, selsSize_al]

theorem al_has_map {α β : Type} (f : α → β) (m : AL α) (k : String) :
    AL.has (m.map fun p => (p.1, f p.2)) k = AL.has m k := by
  simp [AL.has, List.any_map, Function.comp_def]

theorem al_set_map {α β : Type} (f : α → β) (m : AL α) (k : String) (v : α) :
    AL.set (m.map fun p => (p.1, f p.2)) k (f v) = (AL.set m k v).map fun p => (p.1, f p.2) := by
  simp only [AL.set, al_has_map]
  split
  · simp only [List.map_map]
    refine List.map_congr_left fun p _ => ?_
    simp only [Function.comp]
    split <;> rfl
  · simp

theorem al_get?_map {α β : Type} (f : α → β) (m : AL α) (k : String) :
    AL.get? (m.map fun p => (p.1, f p.2)) k = (AL.get? m k).map f := by
  simp only [AL.get?]
  induction m with
  | nil => rfl
  | cons p ps ih =>
    simp only [List.map_cons, List.find?_cons]
    split
    · rfl
    · exact ih

theorem sfsTable_al (A : Al) (d : Doc) : sfsTable (A.doc d) = (sfsTable d).map fun p => (p.1, A.selList p.2) := by
  obtain ⟨ds⟩ := d
  simp only [sfsTable, Al.doc, List.foldl_map]
  have key : ∀ (l : List Def) (m : AL (List Sel)),
      l.foldl (fun m x => match A.defn x with | .frag n _ _ _ sels => AL.set m n sels | _ => m)
        (m.map fun p => (p.1, A.selList p.2)) =
      (l.foldl (fun m x => match x with | .frag n _ _ _ sels => AL.set m n sels | _ => m) m).map
        fun p => (p.1, A.selList p.2) := by
    intro l
    induction l with
    | nil => intro m; rfl
    | cons x xs ih =>
      intro m
      rw [List.foldl_cons, List.foldl_cons]
      cases x with
      | frag n on dirs id sels =>
        show List.foldl _ (AL.set (m.map fun p => (p.1, A.selList p.2)) n (A.selList sels)) xs = _
        rw [al_set_map]; exact ih _
      | op => exact ih _
      | ts => exact ih _
  exact key ds []

/-- the response key of a field: alias, else name -/
def okey (al : Option String) (n : String) : String := match al with | some a => a | none => n

/-- the response key given by the renaming -/
def Al.key (A : Al) (al : Option String) (n : String) : String := okey (A.alias al n) n

/-- `A` renames response keys by `ρ` -/
def Al.Renames (A : Al) (ρ : String → String) : Prop := ∀ al n, A.key al n = ρ (okey al n)

theorem rootKeysGo_field (frs : AL (List Sel)) (f : Nat) (al : Option String) (n : String) (a : List Arg) (ds : List Dir)
    (h : Bool) (i : Nat) (sub rest : List Sel) (ks vis : List String) :
    rootKeysGo frs (f + 1) (.field al n a ds h i sub :: rest) ks vis =
      rootKeysGo frs f rest (if ks.contains (okey al n) then ks else ks ++ [okey al n]) vis := by
  cases al <;> rfl

theorem contains_map_inj (ρ : String → String) (hρ : ∀ a b, ρ a = ρ b → a = b) (ks : List String) (k : String) :
    (ks.map ρ).contains (ρ k) = ks.contains k := by
  rw [Bool.eq_iff_iff]
  simp only [List.contains_iff_mem, List.mem_map]
  constructor
  · rintro ⟨a, ha, e⟩; rwa [← hρ _ _ e]
  · intro h; exact ⟨k, h, rfl⟩

/-- the collected response keys of the renamed selections are the renamed response keys -/
theorem rootKeysGo_al (A : Al) (ρ : String → String) (hA : A.Renames ρ) (hρ : ∀ a b, ρ a = ρ b → a = b)
    (frs : AL (List Sel)) : ∀ (fuel : Nat) (sels : List Sel) (ks vis : List String),
    rootKeysGo (frs.map fun p => (p.1, A.selList p.2)) fuel (A.selList sels) (ks.map ρ) vis =
      (rootKeysGo frs fuel sels ks vis).map ρ
  | 0, sels, ks, vis => by simp [rootKeysGo]
  | f + 1, [], ks, vis => by simp [rootKeysGo, Al.selList]
  | f + 1, .field al n _ _ _ _ _ :: rest, ks, vis => by
    simp only [Al.selList, Al.sel, rootKeysGo_field]
    have hk : okey (A.alias al n) n = ρ (okey al n) := hA al n
    rw [hk, contains_map_inj ρ hρ]
    split
    · exact rootKeysGo_al A ρ hA hρ frs f rest ks vis
    · have := rootKeysGo_al A ρ hA hρ frs f rest (ks ++ [okey al n]) vis
      simpa using this
  | f + 1, .inline _ _ _ sub :: rest, ks, vis => by
    simp only [Al.selList, Al.sel, rootKeysGo]
    have := rootKeysGo_al A ρ hA hρ frs f (sub ++ rest) ks vis
    simp only [A.selList_eq_map, ← List.map_append] at this ⊢
    exact this
  | f + 1, .spread name _ :: rest, ks, vis => by
    simp only [Al.selList, Al.sel, rootKeysGo, al_get?_map]
    split
    · exact rootKeysGo_al A ρ hA hρ frs f rest ks vis
    · cases hg : AL.get? frs name with
      | none => simp only [Option.map_none]; exact rootKeysGo_al A ρ hA hρ frs f rest ks (name :: vis)
      | some sels =>
        simp only [Option.map_some]
        have := rootKeysGo_al A ρ hA hρ frs f (sels ++ rest) ks (name :: vis)
        simp only [A.selList_eq_map, ← List.map_append] at this ⊢
        exact this

end PyGql.Validate

/-
  Well-formedness of every definition is position-free (`mapLoc f` for any `f`).
-/
import PyGqlModel.Lemmas.SpanShift
namespace PyGql.Spec
open PyGql PyGql.Ast PyGql.Parse

theorem all_map_congr {α} (m : α → α) (q : α → Bool) (h : ∀ x, q (m x) = q x) (xs : List α) :
    (xs.map m).all q = xs.all q := by
  induction xs with
  | nil => rfl
  | cons x xs ih => simp [h, ih]

theorem wfArgument_mapLoc (f : Loc → Loc) (c : Bool) (a : Argument) : wfArgument c (a.mapLoc f) = wfArgument c a := by
  simp [wfArgument, Argument.mapLoc, wfValue_mapLoc]

theorem wfDirective_mapLoc (f : Loc → Loc) (c : Bool) (x : Directive) : wfDirective c (x.mapLoc f) = wfDirective c x := by
  simp only [wfDirective, Directive.mapLoc]
  exact all_map_congr _ _ (wfArgument_mapLoc f c) _

theorem wfDirectives_mapLoc (f : Loc → Loc) (c : Bool) (ds : List Directive) :
    wfDirectives c (ds.map (Directive.mapLoc f)) = wfDirectives c ds :=
  all_map_congr _ _ (wfDirective_mapLoc f c) _

theorem wfDefault_mapLoc (f : Loc → Loc) (o : Option Value) : wfDefault (o.map (Value.mapLoc f)) = wfDefault o := by
  cases o <;> simp [wfDefault, wfValue_mapLoc]

theorem wfVariableDefinition_mapLoc (f : Loc → Loc) (x : VariableDefinition) :
    wfVariableDefinition (x.mapLoc f) = wfVariableDefinition x := by
  simp [wfVariableDefinition, VariableDefinition.mapLoc, wfType_mapLoc, wfDefault_mapLoc, wfDirectives_mapLoc]

mutual
theorem wfSelection_mapLoc (f : Loc → Loc) : ∀ s : Selection, wfSelection (s.mapLoc f) = wfSelection s
  | .field alias_ name args dirs ss loc => by
    simp [wfSelection, Selection.mapLoc, wfDirectives_mapLoc, all_map_congr _ _ (wfArgument_mapLoc f false),
      wfOptSelectionSet_mapLoc f ss]
  | .fragmentSpread name dirs loc => by simp [wfSelection, Selection.mapLoc, wfDirectives_mapLoc, Name.mapLoc]
  | .inlineFragment tc dirs ss loc => by simp [wfSelection, Selection.mapLoc, wfDirectives_mapLoc, wfSelectionSet_mapLoc f ss]
theorem wfSelectionSet_mapLoc (f : Loc → Loc) : ∀ ss : SelectionSet, wfSelectionSet (ss.mapLoc f) = wfSelectionSet ss
  | .mk sels loc => by
    simp only [wfSelectionSet, SelectionSet.mapLoc, wfSelections_mapLoc f sels]
    cases sels <;> simp [mapLocSelections]
theorem wfOptSelectionSet_mapLoc (f : Loc → Loc) : ∀ o : Option SelectionSet,
    wfOptSelectionSet (mapLocOptSS f o) = wfOptSelectionSet o
  | none => by simp [wfOptSelectionSet, mapLocOptSS]
  | some ss => by simp [wfOptSelectionSet, mapLocOptSS, wfSelectionSet_mapLoc f ss]
theorem wfSelections_mapLoc (f : Loc → Loc) : ∀ ss : List Selection, wfSelections (mapLocSelections f ss) = wfSelections ss
  | [] => by simp [wfSelections, mapLocSelections]
  | s :: ss => by simp [wfSelections, mapLocSelections, wfSelection_mapLoc f s, wfSelections_mapLoc f ss]
end

theorem wfOperation_mapLoc (f : Loc → Loc) (x : OperationDefinition) : wfOperation (x.mapLoc f) = wfOperation x := by
  cases x
  simp only [wfOperation, OperationDefinition.mapLoc, wfDirectives_mapLoc, wfSelectionSet_mapLoc,
    all_map_congr _ _ (wfVariableDefinition_mapLoc f)]
  rfl

theorem wfFragment_mapLoc (f : Loc → Loc) (fl : Flags) (x : FragmentDefinition) :
    wfFragment fl (x.mapLoc f) = wfFragment fl x := by
  cases x
  simp only [wfFragment, FragmentDefinition.mapLoc, wfDirectives_mapLoc, wfSelectionSet_mapLoc, Name.mapLoc,
    all_map_congr _ _ (wfVariableDefinition_mapLoc f), List.isEmpty_map]
  rfl

theorem wfOperationType_mapLoc (f : Loc → Loc) (x : OperationTypeDefinition) :
    wfOperationType (x.mapLoc f) = wfOperationType x := by
  cases x; rfl

theorem wfInputValue_mapLoc (f : Loc → Loc) (x : InputValueDefinition) : wfInputValue (x.mapLoc f) = wfInputValue x := by
  simp [wfInputValue, InputValueDefinition.mapLoc, wfType_mapLoc, wfDefault_mapLoc, wfDirectives_mapLoc]

theorem wfFieldDefinition_mapLoc (f : Loc → Loc) (x : FieldDefinition) :
    wfFieldDefinition (x.mapLoc f) = wfFieldDefinition x := by
  simp [wfFieldDefinition, FieldDefinition.mapLoc, wfType_mapLoc, wfDirectives_mapLoc,
    all_map_congr _ _ (wfInputValue_mapLoc f)]

theorem wfEnumValueDefinition_mapLoc (f : Loc → Loc) (x : EnumValueDefinition) :
    wfEnumValueDefinition (x.mapLoc f) = wfEnumValueDefinition x := by
  simp [wfEnumValueDefinition, EnumValueDefinition.mapLoc, wfDirectives_mapLoc, Name.mapLoc]

theorem isTypeSystem_mapLoc (f : Loc → Loc) (x : Definition) : isTypeSystem (x.mapLoc f) = isTypeSystem x := by
  cases x <;> rfl

theorem wfDefinition_mapLoc (f : Loc → Loc) (fl : Flags) (x : Definition) : wfDefinition fl (x.mapLoc f) = wfDefinition fl x := by
  cases x with
  | operation o => simp [wfDefinition, Definition.mapLoc, wfOperation_mapLoc]
  | fragment o => simp [wfDefinition, Definition.mapLoc, wfFragment_mapLoc]
  | _ =>
    (simp [wfDefinition, Definition.mapLoc, wfDirectives_mapLoc, all_map_congr _ _ (wfOperationType_mapLoc f),
      all_map_congr _ _ (wfFieldDefinition_mapLoc f), all_map_congr _ _ (wfEnumValueDefinition_mapLoc f),
      all_map_congr _ _ (wfInputValue_mapLoc f), Name.mapLoc, Function.comp_def]) <;> rfl

end PyGql.Spec

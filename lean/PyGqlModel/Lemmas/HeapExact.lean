/-
  C14 — EXACTNESS of healing: when every type name an object mentions is registered, `_HealSchemaVisitor` drops no member,
  rebuilds nothing and only re-points references: every object keeps its content up to the ADDRESSES inside its type
  references (`NVeq`), every member list is the very same list of addresses, `updated_types` / `updated_directives` are empty
  and `fix_type_references` stops after one round.
-/
import PyGqlModel.Lemmas.HeapClosedLoop
import PyGqlModel.Lemmas.HeapExtAttrs

set_option linter.unusedSimpArgs false
set_option linter.unusedVariables false

namespace PyGql.Heap.Own
open PyGql.Heap

/-! ### objects up to the addresses of their type references -/

def eraseT : TRef → TRef
  | .named r => .named ⟨r.name, 0⟩
  | .list t => .list (eraseT t)
  | .nonNull t => .nonNull (eraseT t)

def eraseRefs (rs : List Ref) : List Ref := rs.map fun r => ⟨r.name, 0⟩

/-- the object with every reference to a type replaced by the NAME of that type (member lists untouched) -/
def eraseR : Obj → Obj
  | .type t => .type { t with ifaces := eraseRefs t.ifaces, members := eraseRefs t.members }
  | .field f => .field { f with ty := eraseT f.ty }
  | .arg g => .arg { g with ty := eraseT g.ty }
  | .dir d => .dir d

theorem eraseT_base (t : TRef) : (eraseT t).base.name = t.base.name := by
  induction t with
  | named r => rfl
  | list t ih => simpa [eraseT, TRef.base] using ih
  | nonNull t ih => simpa [eraseT, TRef.base] using ih

theorem base_name_of_erase {t t' : TRef} (e : eraseT t' = eraseT t) : t'.base.name = t.base.name := by
  rw [← eraseT_base t', e, eraseT_base]

/-- same heap up to the addresses inside type references: same objects at the same addresses, same member lists -/
def NVeq (h h' : Heap) : Prop := ∀ a, (h'.read a).map eraseR = (h.read a).map eraseR

theorem NVeq.refl (h : Heap) : NVeq h h := fun _ => rfl
theorem NVeq.trans {h1 h2 h3 : Heap} (a : NVeq h1 h2) (b : NVeq h2 h3) : NVeq h1 h3 := fun x => (b x).trans (a x)

theorem nveq_write (h : Heap) (a : Addr) (o o' : Obj) (hr : h.read a = some o) (he : eraseR o' = eraseR o) : NVeq h (h.write a o') := by
  intro b
  by_cases hab : a = b
  · subst hab
    rw [read_write_same h a o' (read_lt h a o hr), hr]
    simp [he]
  · rw [read_write_other h a b o' hab]

theorem nveq_arg {h h' : Heap} (n : NVeq h h') {a : Addr} {g : ArgO} (hr : h.readArg a = some g) :
    ∃ g', h'.readArg a = some g' ∧ eraseT g'.ty = eraseT g.ty := by
  have e := n a
  rw [readArg_read hr] at e
  cases hr' : h'.read a with
  | none => simp [hr'] at e
  | some o =>
    rw [hr'] at e
    cases o with
    | arg g' =>
      simp only [Option.map_some, eraseR, Option.some.injEq, Obj.arg.injEq, ArgO.mk.injEq] at e
      exact ⟨g', readArg_of_read hr', e.2.1⟩
    | type _ => simp [eraseR] at e
    | field _ => simp [eraseR] at e
    | dir _ => simp [eraseR] at e

theorem nveq_field {h h' : Heap} (n : NVeq h h') {a : Addr} {f : FieldO} (hr : h.readField a = some f) :
    ∃ f', h'.readField a = some f' ∧ eraseT f'.ty = eraseT f.ty ∧ f'.args = f.args := by
  have e := n a
  rw [readField_read hr] at e
  cases hr' : h'.read a with
  | none => simp [hr'] at e
  | some o =>
    rw [hr'] at e
    cases o with
    | field f' =>
      simp only [Option.map_some, eraseR, Option.some.injEq, Obj.field.injEq, FieldO.mk.injEq] at e
      exact ⟨f', readField_of_read hr', e.2.1, e.2.2.1⟩
    | type _ => simp [eraseR] at e
    | arg _ => simp [eraseR] at e
    | dir _ => simp [eraseR] at e

theorem nveq_type {h h' : Heap} (n : NVeq h h') {a : Addr} {t : TypeO} (hr : h.readType a = some t) :
    ∃ t', h'.readType a = some t' ∧ t'.kind = t.kind ∧ t'.name = t.name ∧ t'.fields = t.fields ∧
      eraseRefs t'.ifaces = eraseRefs t.ifaces ∧ eraseRefs t'.members = eraseRefs t.members := by
  have e := n a
  rw [readType_read hr] at e
  cases hr' : h'.read a with
  | none => simp [hr'] at e
  | some o =>
    rw [hr'] at e
    cases o with
    | type t' =>
      simp only [Option.map_some, eraseR, Option.some.injEq, Obj.type.injEq, TypeO.mk.injEq] at e
      exact ⟨t', readType_of_read hr', e.1, e.2.1, e.2.2.2.1, e.2.2.2.2.1, e.2.2.2.2.2.1⟩
    | field _ => simp [eraseR] at e
    | arg _ => simp [eraseR] at e
    | dir _ => simp [eraseR] at e

theorem nveq_dir {h h' : Heap} (n : NVeq h h') {a : Addr} {d : DirO} (hr : h.readDir a = some d) : h'.readDir a = some d := by
  have e := n a
  rw [readDir_read hr] at e
  cases hr' : h'.read a with
  | none => simp [hr'] at e
  | some o =>
    rw [hr'] at e
    cases o with
    | dir d' =>
      simp only [Option.map_some, eraseR, Option.some.injEq, Obj.dir.injEq] at e
      rw [readDir_of_read hr', e]
    | field _ => simp [eraseR] at e
    | arg _ => simp [eraseR] at e
    | type _ => simp [eraseR] at e

/-! ### every name is registered -/

def nameIn (reg : List (String × Addr)) (n : String) : Prop := (lookup reg n).isSome = true

def refsIn (reg : List (String × Addr)) (rs : List Ref) : Prop := ∀ r, r ∈ rs → nameIn reg r.name

theorem refsIn_of_erase {reg : List (String × Addr)} {rs rs' : List Ref} (e : eraseRefs rs' = eraseRefs rs) (hin : refsIn reg rs) : refsIn reg rs' := by
  intro r hr
  have : (⟨r.name, 0⟩ : Ref) ∈ eraseRefs rs' := List.mem_map.mpr ⟨r, hr, rfl⟩
  rw [e] at this
  obtain ⟨r0, h0, h1⟩ := List.mem_map.mp this
  have hn : r0.name = r.name := by simpa using congrArg Ref.name h1
  rw [← hn]
  exact hin r0 h0

def ArgR (reg : List (String × Addr)) (h : Heap) (a : Addr) : Prop := ∃ g, h.readArg a = some g ∧ nameIn reg g.ty.base.name

def FieldR (reg : List (String × Addr)) (h : Heap) (a : Addr) : Prop :=
  ∃ f, h.readField a = some f ∧ nameIn reg f.ty.base.name ∧ ∀ x, x ∈ f.args → ArgR reg h x

/-- a registered type all of whose references (its own and its members') name registered types -/
def TypeR (reg : List (String × Addr)) (h : Heap) (a : Addr) : Prop :=
  ∃ t, h.readType a = some t ∧ refsIn reg (typeRefs t) ∧
    (match t.kind with
     | .object | .interface => ∀ x, x ∈ t.fields → FieldR reg h x
     | .input => ∀ x, x ∈ t.fields → ArgR reg h x
     | _ => True)

def DirR (reg : List (String × Addr)) (h : Heap) (a : Addr) : Prop := ∃ d, h.readDir a = some d ∧ ∀ x, x ∈ d.args → ArgR reg h x

theorem ArgR.keep {reg : List (String × Addr)} {h h' : Heap} (n : NVeq h h') {a : Addr} (r : ArgR reg h a) : ArgR reg h' a := by
  obtain ⟨g, hg, hin⟩ := r
  obtain ⟨g', hg', e⟩ := nveq_arg n hg
  refine ⟨g', hg', ?_⟩
  simp only [nameIn] at hin ⊢
  rw [base_name_of_erase e]; exact hin

theorem FieldR.keep {reg : List (String × Addr)} {h h' : Heap} (n : NVeq h h') {a : Addr} (r : FieldR reg h a) : FieldR reg h' a := by
  obtain ⟨f, hf, hin, hargs⟩ := r
  obtain ⟨f', hf', e, ea⟩ := nveq_field n hf
  refine ⟨f', hf', ?_, fun x hx => (hargs x (ea ▸ hx)).keep n⟩
  simp only [nameIn] at hin ⊢
  rw [base_name_of_erase e]; exact hin

theorem TypeR.keep {reg : List (String × Addr)} {h h' : Heap} (n : NVeq h h') {a : Addr} (r : TypeR reg h a) : TypeR reg h' a := by
  obtain ⟨t, ht, hi, hk⟩ := r
  obtain ⟨t', ht', ek, _, ef, ei, em⟩ := nveq_type n ht
  refine ⟨t', ht', ?_, ?_⟩
  · simp only [typeRefs, ek]
    cases hkk : t.kind <;> simp only [typeRefs, hkk] at hi ⊢ <;> first | exact refsIn_of_erase ei hi | exact refsIn_of_erase em hi | exact hi
  rw [ek, ef]
  cases hkk : t.kind <;> simp only [hkk] at hk ⊢
  · exact fun x hx => (hk x hx).keep n
  · exact fun x hx => (hk x hx).keep n
  · exact fun x hx => (hk x hx).keep n

theorem DirR.keep {reg : List (String × Addr)} {h h' : Heap} (n : NVeq h h') {a : Addr} (r : DirR reg h a) : DirR reg h' a := by
  obtain ⟨d, hd, hargs⟩ := r
  exact ⟨d, nveq_dir n hd, fun x hx => (hargs x hx).keep n⟩

/-! ### `_healed` on registered names -/

theorem healed_exact (reg : List (String × Addr)) : ∀ t : TRef, nameIn reg t.base.name → ∃ t', healed reg t = some t' ∧ eraseT t' = eraseT t := by
  intro t
  induction t with
  | named r =>
    intro hin
    simp only [nameIn, TRef.base] at hin
    obtain ⟨a, ha⟩ := Option.isSome_iff_exists.mp hin
    exact ⟨.named ⟨r.name, a⟩, by simp [healed, ha], rfl⟩
  | list t ih =>
    intro hin
    obtain ⟨t', h1, h2⟩ := ih (by simpa [TRef.base] using hin)
    exact ⟨.list t', by simp [healed, h1], by simp [eraseT, h2]⟩
  | nonNull t ih =>
    intro hin
    obtain ⟨t', h1, h2⟩ := ih (by simpa [TRef.base] using hin)
    exact ⟨.nonNull t', by simp [healed, h1], by simp [eraseT, h2]⟩

theorem healedRefs_exact (reg : List (String × Addr)) : ∀ rs : List Ref, refsIn reg rs → eraseRefs (healedRefs reg rs) = eraseRefs rs := by
  intro rs
  induction rs with
  | nil => intro _; rfl
  | cons r rest ih =>
    intro hin
    have hr : nameIn reg r.name := hin r (by simp)
    obtain ⟨a, ha⟩ := Option.isSome_iff_exists.mp hr
    have := ih (fun x hx => hin x (by simp [hx]))
    simp only [healedRefs, eraseRefs] at this ⊢
    simp only [List.filterMap_cons, ha, Option.map_some, List.map_cons, this]

/-! ### `map_and_filter` when the hook keeps every element -/

theorem mapFilter_exact (f : Heap → Addr → Heap × Option Addr) (P : Heap → Addr → Prop)
    (hP : ∀ h h' x, NVeq h h' → P h x → P h' x)
    (hf : ∀ h x, P h x → (f h x).2 = some x ∧ NVeq h (f h x).1) :
    ∀ (as : List Addr) (h : Heap), (∀ x, x ∈ as → P h x) → (mapFilter f h as).2 = as ∧ NVeq h (mapFilter f h as).1 := by
  intro as
  induction as with
  | nil => intro h _; exact ⟨rfl, NVeq.refl h⟩
  | cons a rest ih =>
    intro h hall
    obtain ⟨e1, n1⟩ := hf h a (hall a (by simp))
    obtain ⟨e2, n2⟩ := ih (f h a).1 (fun x hx => hP h _ x n1 (hall x (by simp [hx])))
    simp only [mapFilter, e1, e2]
    exact ⟨by simp, n1.trans n2⟩

/-! ### the hooks of the healing visitor -/

theorem onArgument_heal_exact (reg : List (String × Addr)) (h : Heap) (a : Addr) (r : ArgR reg h a) :
    (onArgument .heal reg h a).2 = some a ∧ NVeq h (onArgument .heal reg h a).1 := by
  obtain ⟨g, hg, hin⟩ := r
  obtain ⟨t', ht', et⟩ := healed_exact reg g.ty hin
  simp only [onArgument, hg, ht']
  exact ⟨by simp, nveq_write h a (.arg g) _ (readArg_read hg) (by simp [eraseR, et])⟩

theorem onInputField_heal_exact (reg : List (String × Addr)) (h : Heap) (a : Addr) (r : ArgR reg h a) :
    (onInputField .heal reg h a).2 = some a ∧ NVeq h (onInputField .heal reg h a).1 := by
  obtain ⟨g, hg, hin⟩ := r
  obtain ⟨t', ht', et⟩ := healed_exact reg g.ty hin
  simp only [onInputField, hg, ht']
  exact ⟨by simp, nveq_write h a (.arg g) _ (readArg_read hg) (by simp [eraseR, et])⟩

theorem args_heal_exact (reg : List (String × Addr)) (as : List Addr) (h : Heap) (hall : ∀ x, x ∈ as → ArgR reg h x) :
    (mapFilter (onArgument .heal reg) h as).2 = as ∧ NVeq h (mapFilter (onArgument .heal reg) h as).1 :=
  mapFilter_exact _ (ArgR reg) (fun _ _ _ n r => r.keep n) (onArgument_heal_exact reg) as h hall

theorem inputFields_heal_exact (reg : List (String × Addr)) (as : List Addr) (h : Heap) (hall : ∀ x, x ∈ as → ArgR reg h x) :
    (mapFilter (onInputField .heal reg) h as).2 = as ∧ NVeq h (mapFilter (onInputField .heal reg) h as).1 :=
  mapFilter_exact _ (ArgR reg) (fun _ _ _ n r => r.keep n) (onInputField_heal_exact reg) as h hall

theorem onField_heal_exact (reg : List (String × Addr)) (tn : String) (h : Heap) (a : Addr) (r : FieldR reg h a) :
    (onField .heal reg tn h a).2 = some a ∧ NVeq h (onField .heal reg tn h a).1 := by
  obtain ⟨f, hf, hin, hargs⟩ := r
  obtain ⟨e1, n1⟩ := args_heal_exact reg f.args h hargs
  obtain ⟨f1, hf1, et1, _⟩ := nveq_field n1 hf
  have hin1 : nameIn reg f1.ty.base.name := by simp only [nameIn] at hin ⊢; rw [base_name_of_erase et1]; exact hin
  obtain ⟨t', ht', et⟩ := healed_exact reg f1.ty hin1
  simp only [onField, hf, onFieldBase, e1, bne_self_eq_false, Bool.false_eq_true, if_false, healFieldType, hf1, ht']
  exact ⟨by simp, n1.trans (nveq_write _ a (.field f1) _ (readField_read hf1) (by simp [eraseR, et]))⟩

theorem fields_heal_exact (reg : List (String × Addr)) (tn : String) (as : List Addr) (h : Heap) (hall : ∀ x, x ∈ as → FieldR reg h x) :
    (mapFilter (onField .heal reg tn) h as).2 = as ∧ NVeq h (mapFilter (onField .heal reg tn) h as).1 :=
  mapFilter_exact _ (FieldR reg) (fun _ _ _ n r => r.keep n) (onField_heal_exact reg tn) as h hall

theorem onType_heal_exact (reg : List (String × Addr)) (h : Heap) (a : Addr) (r : TypeR reg h a) :
    (onType .heal reg h a).2 = some a ∧ NVeq h (onType .heal reg h a).1 := by
  obtain ⟨t, ht, hi, hk⟩ := r
  simp only [onType, ht]
  cases hkk : t.kind with
  | object =>
    simp only [hkk] at hk
    obtain ⟨e1, n1⟩ := fields_heal_exact reg t.name t.fields h hk
    obtain ⟨t1, ht1, _, _, _, ei, _⟩ := nveq_type n1 ht
    simp only [onComposite, compositeRest, e1, rebuiltOrSame, bne_self_eq_false, Bool.false_eq_true, if_false, hkk, beq_self_eq_true, if_true, ht1]
    refine ⟨by simp, n1.trans (nveq_write _ a (.type t1) _ (readType_read ht1) ?_)⟩
    simp only [eraseR, Obj.type.injEq]
    rw [healedRefs_exact reg t1.ifaces (refsIn_of_erase ei (by simpa [typeRefs, hkk] using hi))]
  | interface =>
    simp only [hkk] at hk
    obtain ⟨e1, n1⟩ := fields_heal_exact reg t.name t.fields h hk
    simp only [onComposite, compositeRest, e1, rebuiltOrSame, bne_self_eq_false, Bool.false_eq_true, if_false, hkk]
    exact ⟨by simp, n1⟩
  | input =>
    simp only [hkk] at hk
    obtain ⟨e1, n1⟩ := inputFields_heal_exact reg t.fields h hk
    simp only [onInputObject, inputRest, e1, rebuiltOrSame, bne_self_eq_false, Bool.false_eq_true, if_false]
    exact ⟨by simp, n1⟩
  | union =>
    simp only [onUnion]
    refine ⟨by simp, nveq_write h a (.type t) _ (readType_read ht) ?_⟩
    simp only [eraseR, Obj.type.injEq]
    rw [healedRefs_exact reg t.members (by simpa [typeRefs, hkk] using hi)]
  | scalar => simp only [onLeaf]; exact ⟨by simp, NVeq.refl h⟩
  | enum => simp only [onLeaf]; exact ⟨by simp, NVeq.refl h⟩

theorem onDirective_heal_exact (reg : List (String × Addr)) (h : Heap) (a : Addr) (r : DirR reg h a) :
    (onDirective .heal reg h a).2 = some a ∧ NVeq h (onDirective .heal reg h a).1 := by
  obtain ⟨d, hd, hargs⟩ := r
  obtain ⟨e1, n1⟩ := args_heal_exact reg d.args h hargs
  simp only [onDirective, hd, dirHidden, Bool.false_eq_true, if_false, e1, bne_self_eq_false]
  exact ⟨by simp, n1⟩

theorem visitTypes_heal_exact (reg : List (String × Addr)) : ∀ (l : List (String × Addr)) (h : Heap),
    (∀ e, e ∈ l → isProtected e.1 = false → TypeR reg h e.2) →
    (visitTypes .heal reg h l).2 = [] ∧ NVeq h (visitTypes .heal reg h l).1 := by
  intro l
  induction l with
  | nil => intro h _; exact ⟨rfl, NVeq.refl h⟩
  | cons e rest ih =>
    intro h hall
    obtain ⟨n, a⟩ := e
    by_cases hp : isProtected n = true
    · simp only [visitTypes, hp, if_true]
      exact ih h (fun e he => hall e (by simp [he]))
    · have hnp : isProtected n = false := by simpa using hp
      obtain ⟨e1, n1⟩ := onType_heal_exact reg h a (hall (n, a) (by simp) hnp)
      obtain ⟨e2, n2⟩ := ih (onType .heal reg h a).1 (fun e he hpe => (hall e (by simp [he]) hpe).keep n1)
      simp only [visitTypes, hnp, Bool.false_eq_true, if_false, e1, e2, bne_self_eq_false]
      exact ⟨by simp, n1.trans n2⟩

theorem visitDirs_heal_exact (reg : List (String × Addr)) : ∀ (l : List (String × Addr)) (h : Heap),
    (∀ e, e ∈ l → DirR reg h e.2) → (visitDirs .heal reg h l).2 = [] ∧ NVeq h (visitDirs .heal reg h l).1 := by
  intro l
  induction l with
  | nil => intro h _; exact ⟨rfl, NVeq.refl h⟩
  | cons e rest ih =>
    intro h hall
    obtain ⟨n, a⟩ := e
    obtain ⟨e1, n1⟩ := onDirective_heal_exact reg h a (hall (n, a) (by simp))
    obtain ⟨e2, n2⟩ := ih (onDirective .heal reg h a).1 (fun e he => (hall e (by simp [he])).keep n1)
    simp only [visitDirs, e1, e2, bne_self_eq_false, Bool.false_eq_true, if_false]
    exact ⟨by simp, n1.trans n2⟩

/-- every registered type / directive only mentions registered type names -/
def HealReady (h : Heap) (s : Schema) : Prop :=
  (∀ e, e ∈ s.types → isProtected e.1 = false → TypeR s.types h e.2) ∧ (∀ e, e ∈ s.dirs → DirR s.types h e.2)

/-- ONE round of `fix_type_references` on such a schema replaces nothing … -/
theorem healRound_exact (s : Schema) (h : Heap) (r : HealReady h s) :
    (visitAll .heal s h).2.1 = [] ∧ (visitAll .heal s h).2.2 = [] ∧ NVeq h (visitAll .heal s h).1 := by
  obtain ⟨e1, n1⟩ := visitTypes_heal_exact s.types s.types h r.1
  obtain ⟨e2, n2⟩ := visitDirs_heal_exact s.types s.dirs _ (fun e he => (r.2 e he).keep n1)
  simp only [visitAll]
  exact ⟨e1, e2, n1.trans n2⟩

/-- the schema with its root operation types looked up by name in its own registry -/
def healedRoots (s : Schema) : Schema :=
  { s with query := reRoot s.types s.query, mutation := reRoot s.types s.mutation, subscription := reRoot s.types s.subscription }

/-- … so the loop stops there: the registry is the same, the roots are looked up by name, the heap is the same up to the
    addresses inside type references -/
theorem healLoop_exact (cfg : Cfg) (fuel : Nat) (s : Schema) (h : Heap) (r : HealReady h s) :
    ∃ h', healLoop cfg (fuel + 1) s h = some (h', healedRoots s) ∧ NVeq h h' := by
  obtain ⟨e1, e2, n⟩ := healRound_exact s h r
  refine ⟨(visitAll .heal s h).1, ?_, n⟩
  simp only [healLoop, e1, e2, replaceCore, replaceTypes, replaceDirs, Bool.false_eq_true, if_false, healedRoots]

end PyGql.Heap.Own

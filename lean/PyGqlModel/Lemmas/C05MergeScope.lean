/-
  C05 — `MergeSafe` from the clause of 5.3.2, part 2: SCOPES. Every field of an executor-side scope (`InScope`: a tagged
  selection list with inline fragments and fragment spreads opened, each field with the static parent type it is
  selected on) of the TRANSLATED document `eDoc s env d` is a field the validator's search collects for the
  corresponding selection set of `d` (`Spec.Coll`: directly, through inline fragments, transitively through spreads),
  with the same parent type, response name, field name, argument nodes and sub-selection (`Rel`).
-/
import PyGqlModel.Lemmas.C05MergeArgs
import PyGqlModel.Lemmas.ValidateOverlapNodes
import PyGqlModel.Lemmas.ValidateVarsAL

set_option linter.unusedSimpArgs false
set_option linter.unusedVariables false

namespace PyGql.Props.C05
open PyGql
open PyGql.Validate (Node Arg AL)
open PyGql.Validate.Spec (SelSet Adm Coll CollD CollF SpreadD nodes selNodes selsNodes fragTable responseName inlineParent fragParent)

/-! ### small facts -/

theorem eSels_mem (s : SchemaD) (env : Exec.ArgEnv) : ∀ (sels : List Validate.Sel) (ex : Exec.Sel),
    ex ∈ eSels s env sels → ∃ vx ∈ sels, ex = eSel s env vx
  | [], ex, h => by simp [eSels] at h
  | v :: vs, ex, h => by
    simp only [eSels, List.mem_cons] at h
    rcases h with h | h
    · exact ⟨v, by simp, h⟩
    · obtain ⟨vx, hm, he⟩ := eSels_mem s env vs ex h
      exact ⟨vx, by simp [hm], he⟩

theorem mem_tag {T T' : String} {x : Exec.Sel} {sels : List Exec.Sel} (h : (T', x) ∈ Spec.tag T sels) : T' = T ∧ x ∈ sels := by
  simp only [Spec.tag, List.mem_map] at h
  obtain ⟨y, hy, he⟩ := h
  cases he
  exact ⟨rfl, hy⟩

theorem responseName_getD (al : Option String) (name : String) (h : al ≠ some "") : responseName al name = al.getD name := by
  cases al with
  | none => rfl
  | some a =>
    have : a ≠ "" := fun e => h (by rw [e])
    simp [responseName, this]

theorem findType_of_composite (s : SchemaD) (n : String) (h : Spec.isComposite s n = true) : (s.findType n).isSome = true := by
  unfold Spec.isComposite Exec.kindOf at h
  cases hf : s.findType n with
  | some _ => rfl
  | none =>
    simp only [hf] at h
    split at h <;> simp_all

theorem typeFromAst_of_composite (s : SchemaD) (n : String) (h : Spec.isComposite s n = true) :
    (Validate.typeFromAst s (.named n)).map (·.base) = some n := by
  have := findType_of_composite s n h
  unfold Validate.typeFromAst
  simp [Ty.base, this]

theorem validate_composite_of (s : SchemaD) (n : String) (h : Spec.isComposite s n = true) : Validate.isComposite s n = true := by
  have hf := findType_of_composite s n h
  unfold Spec.isComposite Exec.kindOf at h
  unfold Validate.isComposite Validate.kindOf
  cases hft : s.findType n with
  | none => simp [hft] at hf
  | some t =>
    simp only [hft] at h
    simp only [hft, Option.map_some]
    cases hk : t.kind <;> simp_all

/-! ### the two fragment tables agree (both: the LAST definition of a name wins) -/

theorem get?_foldl_set_eq {α} (k : String) : ∀ (l : List (String × α)) (m0 : AL α),
    AL.get? (l.foldl (fun m f => AL.set m f.1 f.2) m0) k
      = match l.reverse.find? (·.1 == k) with | some f => some f.2 | none => AL.get? m0 k
  | [], m0 => by simp
  | f :: fs, m0 => by
    rw [List.foldl_cons, get?_foldl_set_eq k fs, List.reverse_cons, List.find?_append]
    cases hfind : fs.reverse.find? (·.1 == k) with
    | some g => simp
    | none =>
      simp only [Option.none_or, List.find?_cons, List.find?_nil]
      rw [AL.get?_set]
      by_cases hk : k = f.1
      · subst hk; simp
      · have : (f.1 == k) = false := by
          have : ¬ f.1 = k := fun e => hk e.symm
          simpa using this
        simp [hk, this]

private theorem frag_find (s : SchemaD) (env : Exec.ArgEnv) (n : String) : ∀ (r : List Validate.Def) (fr : Exec.Frag),
    ((eDoc s env ⟨r⟩).frags).find? (·.name == n) = some fr →
    ∃ on fid fsels, (Validate.fragDefs ⟨r⟩).find? (·.1 == n) = some (fr.name, on, fid, fsels) ∧ fr.on = on ∧ fr.sels = eSels s env fsels
  | [], fr, h => by simp [eDoc] at h
  | x :: xs, fr, h => by
    have ih := frag_find s env n xs fr
    cases x with
    | op kind name vs ds ssid sels =>
      simp only [eDoc, List.filterMap_cons, eFrag] at h ih
      simpa [Validate.fragDefs, List.filterMap_cons] using ih h
    | ts a b =>
      simp only [eDoc, List.filterMap_cons, eFrag] at h ih
      simpa [Validate.fragDefs, List.filterMap_cons] using ih h
    | frag name on ds ssid sels =>
      simp only [eDoc, List.filterMap_cons, eFrag, List.find?_cons] at h ih
      by_cases hn : (name == n) = true
      · simp only [hn] at h
        cases h
        exact ⟨on, ssid, sels, by simp [Validate.fragDefs, List.filterMap_cons, List.find?_cons, hn], rfl, rfl⟩
      · have hn' : (name == n) = false := by simpa using hn
        simp only [hn'] at h
        obtain ⟨on', fid, fsels, h1, h2, h3⟩ := ih h
        exact ⟨on', fid, fsels, by simpa [Validate.fragDefs, List.filterMap_cons, List.find?_cons, hn'] using h1, h2, h3⟩

/-- **the fragment the executor finds under a name is the one the validator's table holds** -/
theorem fragment_lookup (s : SchemaD) (env : Exec.ArgEnv) (d : Validate.Doc) (name : String) (fr : Exec.Frag)
    (h : (eDoc s env d).fragment? name = some fr) :
    ∃ on fid fsels, AL.get? (fragTable d) name = some (on, fid, fsels) ∧ fr.on = on ∧ fr.sels = eSels s env fsels := by
  unfold Exec.Doc.fragment? at h
  have h1 : (eDoc s env d).frags.reverse = (eDoc s env ⟨d.defs.reverse⟩).frags := by
    simp [eDoc, List.filterMap_reverse]
  rw [h1] at h
  obtain ⟨on, fid, fsels, hf, h2, h3⟩ := frag_find s env name _ fr h
  refine ⟨on, fid, fsels, ?_, h2, h3⟩
  unfold fragTable
  rw [get?_foldl_set_eq]
  have h4 : (Validate.fragDefs d).reverse = Validate.fragDefs ⟨d.defs.reverse⟩ := by
    simp [Validate.fragDefs, List.filterMap_reverse]
  rw [h4, hf]

/-! ### what the search's entry says about a field of a scope -/

/-- document-side facts used by the derivation (each is a clause of another rule, a parser guarantee or a schema fact) -/
structure MergeFacts (s : SchemaD) (env : Exec.ArgEnv) (d : Validate.Doc) (vars : Exec.Vars) : Prop where
  /-- the parser never produces an empty alias -/
  aliases : ∀ i sels, SelSet d i sels → ∀ al name args dirs hs id sub,
    Validate.Sel.field al name args dirs hs id sub ∈ sels → al ≠ some ""
  /-- the clause of UniqueArgumentNames (fields) -/
  uniqueArgs : ∀ n ∈ nodes d, ∀ name args dirs hs, n = Node.field name args dirs hs → (args.map (·.name)).Nodup
  /-- the translated document is well-typed (`rules_accept_validDocR`) -/
  valid : Spec.ValidDocR s (eDoc s env d) vars
  /-- schema fact: only object and interface types carry fields -/
  owners : ∀ T name fd, Exec.fieldOf s T name = some fd → Validate.fieldOf s T name = some fd

structure Rel (s : SchemaD) (env : Exec.ArgEnv) (d : Validate.Doc) (vars : Exec.Vars) (x : String × Exec.FNode) (e : Validate.FEntry) : Prop where
  parent : e.parent = some x.1
  name : e.name = x.2.name
  args : x.2.args = Exec.argsTable s env e.name (eArgs e.args)
  hasSub : x.2.hasSub = e.hasSub
  sub : e.hasSub = true → x.2.sub = eSels s env e.sub
  fdef : e.fdef = Validate.ovFieldOf s x.1 e.name
  nodup : (e.args.map (·.name)).Nodup
  comp : Spec.isComposite s x.1 = true
  typed : (x.2.name = "__typename" ∧ x.2.hasSub = false) ∨
    (Exec.isMeta x.2.name = false ∧ ∃ fd, Exec.fieldOf s x.1 x.2.name = some fd ∧
      (x.2.hasSub = true → Spec.isComposite s fd.type.base = true ∧ Spec.selsOk s (eDoc s env d) vars fd.type.base x.2.sub = true))
  subSet : e.hasSub = true → SelSet d e.ssid e.sub ∧ Adm s d e.ssid (some (Spec.subBase s x.1 x.2))

theorem field_typed (s : SchemaD) (doc : Exec.Doc) (vars : Exec.Vars) (T key name : String) (loc : Nat) (dirs : List Exec.Dir)
    (args : List (String × Option String)) (hs : Bool) (sub : List Exec.Sel)
    (h : Spec.selOk s doc vars T (.field key name loc dirs args hs sub) = true) :
    (name = "__typename" ∧ hs = false) ∨
    (Exec.isMeta name = false ∧ ∃ fd, Exec.fieldOf s T name = some fd ∧
      (hs = true → Spec.isComposite s fd.type.base = true ∧ Spec.selsOk s doc vars fd.type.base sub = true)) := by
  simp only [Spec.selOk, Bool.and_eq_true] at h
  have h2 := h.2
  by_cases hn : name = "__typename"
  · subst hn; simp at h2; exact Or.inl ⟨rfl, h2⟩
  · have hn' : (name == "__typename") = false := by simpa using hn
    simp only [hn', Bool.false_eq_true, if_false] at h2
    by_cases hm : Exec.isMeta name = true
    · simp [hm] at h2
    · simp only [hm, Bool.false_eq_true, if_false] at h2
      refine Or.inr ⟨by simpa using hm, ?_⟩
      cases hfo : Exec.fieldOf s T name with
      | none => simp [hfo] at h2
      | some fd =>
        refine ⟨fd, rfl, ?_⟩
        intro hsub'
        simp only [hfo] at h2
        unfold Spec.isComposite
        cases hk : Exec.kindOf s fd.type.base with
        | none => simp [hk] at h2
        | some k =>
          cases k <;> simp [hk] at h2 <;> first | exact ⟨rfl, h2.2⟩ | exact absurd hsub' (by simp [h2])

theorem validDocR_frags (s : SchemaD) (doc : Exec.Doc) (vars : Exec.Vars) (h : Spec.ValidDocR s doc vars) : Spec.fragsOk s doc vars = true := by
  unfold Spec.ValidDocR Spec.validDocRB at h
  simp only [Bool.and_eq_true] at h
  exact h.1.1.2

/-- **scope correspondence**: a field of the executor-side scope of (a part of) a selection set of the document is
    collected by the validator's search for that set, with matching data. `(T0, i0, sels0)` is the selection set the
    search starts from, `(T, i, sels)` the inline-fragment body currently opened inside it. -/
theorem scope_coll (s : SchemaD) (env : Exec.ArgEnv) (d : Validate.Doc) (vars : Exec.Vars) (mf : MergeFacts s env d vars)
    {L : Spec.TSels} {x : String × Exec.FNode} (h : InScope (eDoc s env d) L x) :
    ∀ (T : String) (i : Nat) (sels : List Validate.Sel) (T0 : String) (i0 : Nat) (sels0 : List Validate.Sel),
      L = Spec.tag T (eSels s env sels) → SelSet d i sels → Spec.selsOk s (eDoc s env d) vars T (eSels s env sels) = true →
      Spec.isComposite s T = true → Adm s d i0 (some T0) → SelSet d i0 sels0 →
      (∀ rn e, CollD s (some T) sels rn e → CollD s (some T0) sels0 rn e) →
      (∀ g, SpreadD sels g → SpreadD sels0 g) →
      ∃ e, Coll s d (some T0) sels0 x.2.key e ∧ Rel s env d vars x e := by
  induction h with
  | @field L T' key name loc dirs args hs sub hm =>
    intro T i sels T0 i0 sels0 hL hS hok hcomp hA0 hS0 kD kS
    subst hL
    obtain ⟨rfl, hmx⟩ := mem_tag hm
    obtain ⟨vx, hvm, hve⟩ := eSels_mem s env sels _ hmx
    have hselok := selsOk_forall s _ vars T' _ hok _ hmx
    cases vx with
    | spread n ds => simp [eSel] at hve
    | inline on ds id vsub => simp [eSel] at hve
    | field al vname vargs vdirs vhs ssid vsub =>
      simp only [eSel, Exec.Sel.field.injEq] at hve
      obtain ⟨rfl, rfl, rfl, rfl, rfl, rfl, rfl⟩ := hve
      have hal := mf.aliases i sels hS al name vargs vdirs hs loc vsub hvm
      have hnode : Node.field name vargs vdirs hs ∈ nodes d :=
        Validate.selSet_closed hS _ (Validate.mem_selsNodes_of_mem hvm _ (by simp [selNodes]))
      have hcd : CollD s (some T') sels (responseName al name)
          { parent := some T', name := name, args := vargs, hasSub := hs, ssid := loc, sub := vsub,
            fdef := (some T').bind fun p => Validate.ovFieldOf s p name } := CollD.field hvm
      rw [responseName_getD al name hal] at hcd
      have htyped := field_typed s _ vars T' _ name loc _ _ hs _ hselok
      refine ⟨_, Or.inl (kD _ _ hcd), ?_⟩
      refine { parent := rfl, name := rfl, args := rfl, hasSub := rfl, sub := ?_, fdef := rfl, nodup := ?_, comp := hcomp,
               typed := htyped, subSet := ?_ }
      · intro hh; simp only at hh; subst hh; rfl
      · exact mf.uniqueArgs _ hnode name vargs vdirs hs rfl
      · intro hh
        simp only at hh
        subst hh
        refine ⟨Validate.selSet_sub hS0 (kD _ _ hcd) rfl, ?_⟩
        have hadm := Adm.sub hA0 hS0 (kD _ _ hcd) rfl
        rcases htyped with ⟨_, hf⟩ | ⟨hmeta, fd, hfd, _⟩
        · simp at hf
        · have hnt : name ≠ "__typename" := by
            intro e; subst e; simp [Exec.isMeta] at hmeta
          have hov : Validate.ovFieldOf s T' name = some fd := by
            unfold Validate.ovFieldOf
            have : (name == "__typename") = false := by simpa using hnt
            simp [this, mf.owners T' name fd hfd]
          simp only [Option.bind_some, hov, Option.map_some] at hadm
          simpa [Spec.subBase, hfd] using hadm
  | @inline L T' on dirs sub' x hm hr ih =>
    intro T i sels T0 i0 sels0 hL hS hok hcomp hA0 hS0 kD kS
    subst hL
    obtain ⟨rfl, hmx⟩ := mem_tag hm
    obtain ⟨vx, hvm, hve⟩ := eSels_mem s env sels _ hmx
    have hselok := selsOk_forall s _ vars T' _ hok _ hmx
    cases vx with
    | spread n ds => simp [eSel] at hve
    | field al vname vargs vdirs vhs ssid vsub => simp [eSel] at hve
    | inline von vdirs id vsub =>
      simp only [eSel, Exec.Sel.inline.injEq] at hve
      obtain ⟨rfl, rfl, rfl⟩ := hve
      have hS' : SelSet d id vsub :=
        Validate.selSet_closed hS _ (Validate.mem_selsNodes_of_mem hvm _ (by simp [selNodes]))
      simp only [Spec.selOk, Bool.and_eq_true] at hselok
      have hfacts : Spec.isComposite s (on.getD T') = true ∧ Spec.selsOk s (eDoc s env d) vars (on.getD T') (eSels s env vsub) = true ∧
          inlineParent s (some T') on = some (on.getD T') := by
        cases on with
        | none => exact ⟨hcomp, by simpa using hselok.2, rfl⟩
        | some c =>
          have h2 := hselok.2
          simp only [Bool.and_eq_true] at h2
          exact ⟨h2.1, h2.2, typeFromAst_of_composite s c h2.1⟩
      obtain ⟨hc', hok', hip⟩ := hfacts
      exact ih (on.getD T') id vsub T0 i0 sels0 rfl hS' hok' hc' hA0 hS0
        (fun rn e hc => kD rn e (CollD.inline hvm (by rw [hip]; exact hc)))
        (fun g hg => kS g (SpreadD.inline hvm hg))
  | @spread L T' name dirs fr x hm hf hr ih =>
    intro T i sels T0 i0 sels0 hL hS hok hcomp hA0 hS0 kD kS
    subst hL
    obtain ⟨rfl, hmx⟩ := mem_tag hm
    obtain ⟨vx, hvm, hve⟩ := eSels_mem s env sels _ hmx
    cases vx with
    | inline von vdirs id vsub => simp [eSel] at hve
    | field al vname vargs vdirs vhs ssid vsub => simp [eSel] at hve
    | spread vn vdirs =>
      simp only [eSel, Exec.Sel.spread.injEq] at hve
      obtain ⟨rfl, rfl⟩ := hve
      obtain ⟨on, fid, fsels, hget, hon, hsels⟩ := fragment_lookup s env d name fr hf
      obtain ⟨hfc, hfok, _⟩ := fragment_ok s _ vars (validDocR_frags s _ vars mf.valid) name fr hf
      rw [hon] at hfc hfok
      rw [hsels] at hfok
      have hSf : SelSet d fid fsels := Validate.fragTable_selSet hget
      have hAf : Adm s d fid (some on) := by
        have := Adm.frag (s := s) hget
        rwa [fragParent, typeFromAst_of_composite s on hfc] at this
      obtain ⟨e, hcoll, hrel⟩ := ih on fid fsels on fid fsels (by rw [hon, hsels]) hSf hfok hfc hAf hSf (fun _ _ h => h) (fun _ h => h)
      refine ⟨e, Or.inr ⟨name, kS _ (SpreadD.spread hvm), ?_⟩, hrel⟩
      rcases hcoll with hcd | ⟨g, hsp, hcf⟩
      · exact CollF.here hget hAf hcd
      · exact CollF.there hget hsp hcf

end PyGql.Props.C05

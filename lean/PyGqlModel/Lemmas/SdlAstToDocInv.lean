/-
  C12 — `astToDoc ρ` is a left inverse of `docToAst` up to the normaliser `reDoc ρ` (helper lemmas of `Props/C12_preimage.lean`).
-/
import PyGqlModel.SdlAstToDoc
namespace PyGql.SdlText
open PyGql PyGql.Ast PyGql.Sdl

theorem unT_T (s : String) : unT (T s) = s := by
  simp [unT, T, SdlPrintT.T, textOfString, List.map_map, Function.comp_def]

@[simp] theorem unName_nameOf (s : String) : unName (nameOf s) = s := unT_T s
@[simp] theorem unNamed_namedOf (s : String) : unNamed (namedOf s) = s := unT_T s
@[simp] theorem unType_typeOf : ∀ t : Ty, unType (typeOf t) = t
  | .named n => by simp [typeOf, unType]
  | .list t => by simp [typeOf, unType, unType_typeOf t]
  | .nonNull t => by simp [typeOf, unType, unType_typeOf t]

mutual
theorem litOfValue_valueOf (ρ : String → String) : ∀ l : Lit, litOfValue ρ (valueOf l) = reLit ρ l
  | .null => rfl
  | .int v f => by simp [valueOf, litOfValue, reLit, unT_T]
  | .float v f => by simp [valueOf, litOfValue, reLit, unT_T]
  | .str s => by simp [valueOf, litOfValue, reLit, unT_T]
  | .bool b => rfl
  | .enum s => by simp [valueOf, litOfValue, reLit, unT_T]
  | .list l => by simp [valueOf, litOfValue, reLit, litsOfValues_valuesOf ρ l]
  | .obj fs => by simp [valueOf, litOfValue, reLit, litFieldsOf_fieldsOf ρ fs]
theorem litsOfValues_valuesOf (ρ : String → String) : ∀ l : List Lit, litsOfValues ρ (valuesOf l) = reLits ρ l
  | [] => rfl
  | v :: vs => by simp [valuesOf, litsOfValues, reLits, litOfValue_valueOf ρ v, litsOfValues_valuesOf ρ vs]
theorem litFieldsOf_fieldsOf (ρ : String → String) : ∀ l : List (String × Lit), litFieldsOf ρ (fieldsOf l) = reLitFields ρ l
  | [] => rfl
  | (k, v) :: fs => by simp [fieldsOf, litFieldsOf, litFieldOf, reLitFields, litOfValue_valueOf ρ v, litFieldsOf_fieldsOf ρ fs, unT_T, unName, nameOf]
end
theorem descOfAst_descOf (d : Option String) : descOfAst (descOf d) = d := by
  cases d <;> simp [descOf, descOfAst, unT_T]

theorem argOfAst_argOf (ρ : String → String) (a : String × Lit) : argOfAst ρ (argOf a) = reArg ρ a := by
  simp [argOfAst, argOf, reArg, litOfValue_valueOf]

theorem dirOfAst_dirOf (ρ : String → String) (d : DirApp) : dirOfAst ρ (dirOf d) = reDir ρ d := by
  simp [dirOfAst, dirOf, reDir, List.map_map, Function.comp_def, argOfAst_argOf]

theorem dirs_inv (ρ : String → String) (ds : List DirApp) : (ds.map dirOf).map (dirOfAst ρ) = ds.map (reDir ρ) := by
  simp [List.map_map, Function.comp_def, dirOfAst_dirOf]

theorem inputValOfAst_inputValOf (ρ : String → String) (a : InputValDef) : inputValOfAst ρ (inputValOf a) = reInputVal ρ a := by
  cases hd : a.default <;> simp [inputValOfAst, inputValOf, reInputVal, descOfAst_descOf, dirOfAst_dirOf, hd, litOfValue_valueOf]

theorem inputVals_inv (ρ : String → String) (l : List InputValDef) : (l.map inputValOf).map (inputValOfAst ρ) = l.map (reInputVal ρ) := by
  simp [List.map_map, Function.comp_def, inputValOfAst_inputValOf]

theorem fieldOfAst_fieldOf (ρ : String → String) (f : FieldDef) : fieldOfAst ρ (fieldOf f) = reField ρ f := by
  simp [fieldOfAst, fieldOf, reField, descOfAst_descOf, dirOfAst_dirOf, inputValOfAst_inputValOf]

theorem fields_inv (ρ : String → String) (l : List FieldDef) : (l.map fieldOf).map (fieldOfAst ρ) = l.map (reField ρ) := by
  simp [List.map_map, Function.comp_def, fieldOfAst_fieldOf]

theorem enumValOfAst_enumValOf (ρ : String → String) (v : EnumValDef) : enumValOfAst ρ (enumValOf v) = reEnumVal ρ v := by
  simp [enumValOfAst, enumValOf, reEnumVal, descOfAst_descOf, dirOfAst_dirOf]

theorem enumVals_inv (ρ : String → String) (l : List EnumValDef) : (l.map enumValOf).map (enumValOfAst ρ) = l.map (reEnumVal ρ) := by
  simp [List.map_map, Function.comp_def, enumValOfAst_enumValOf]

theorem names_inv (l : List String) : (l.map namedOf).map unNamed = l := by
  simp [List.map_map, Function.comp_def]

theorem locs_inv (l : List String) : (l.map nameOf).map unName = l := by
  simp [List.map_map, Function.comp_def]

theorem ops_inv (l : List (String × String)) : (l.map opTypeOf).map opTypeOfAst = l := by
  simp [List.map_map, Function.comp_def, opTypeOf, opTypeOfAst, unT_T]

theorem defOfAst_typeDefOf (ρ : String → String) (t : TypeDef) : defOfAst ρ (typeDefOf t) = .type (reType ρ false t) := by
  cases hk : t.kind <;>
    simp [typeDefOf, defOfAst, reType, hk, descOfAst_descOf, dirOfAst_dirOf, fieldOfAst_fieldOf, enumValOfAst_enumValOf, inputValOfAst_inputValOf, Function.comp_def]

theorem defOfAst_typeExtOf (ρ : String → String) (t : TypeDef) : defOfAst ρ (typeExtOf t) = .ext (reType ρ true t) := by
  cases hk : t.kind <;>
    simp [typeExtOf, defOfAst, reType, hk, dirOfAst_dirOf, fieldOfAst_fieldOf, enumValOfAst_enumValOf, inputValOfAst_inputValOf, Function.comp_def]

theorem defOfAst_defOf (ρ : String → String) (x : Def) (y : Definition) (h : defOf x = some y) : defOfAst ρ y = reDef ρ x := by
  cases x with
  | type t => simp only [defOf, Option.some.injEq] at h; subst h; exact defOfAst_typeDefOf ρ t
  | ext t => simp only [defOf, Option.some.injEq] at h; subst h; exact defOfAst_typeExtOf ρ t
  | directive d => simp only [defOf, Option.some.injEq] at h; subst h; simp [defOfAst, reDef, descOfAst_descOf, inputValOfAst_inputValOf, Function.comp_def]
  | schema s => simp only [defOf, Option.some.injEq] at h; subst h; simp [defOfAst, reDef, dirOfAst_dirOf, Function.comp_def, opTypeOf, opTypeOfAst, unT_T]
  | schemaExt s => simp only [defOf, Option.some.injEq] at h; subst h; simp [defOfAst, reDef, dirOfAst_dirOf, Function.comp_def, opTypeOf, opTypeOfAst, unT_T]
  | other => simp [defOf] at h

theorem mapM_defOf_inv (ρ : String → String) : ∀ (doc : Doc) (ds : List Definition), doc.mapM defOf = some ds →
    ds.map (defOfAst ρ) = doc.map (reDef ρ)
  | [], ds, h => by simp at h; subst h; rfl
  | x :: xs, ds, h => by
    rw [List.mapM_cons] at h
    cases hx : defOf x with
    | none => simp [hx] at h
    | some y =>
      cases hxs : xs.mapM defOf with
      | none => simp [hx, hxs] at h
      | some ys =>
        simp [hx, hxs] at h
        subst h
        simp [defOfAst_defOf ρ x y hx, mapM_defOf_inv ρ xs ys hxs]

/-- `astToDoc ρ` inverts `docToAst` up to the normaliser -/
theorem astToDoc_docToAst (ρ : String → String) (doc : Doc) (d : Document) (h : docToAst doc = some d) :
    astToDoc ρ d = reDoc ρ doc := by
  simp only [docToAst, Option.map_eq_some_iff] at h
  obtain ⟨ds, hds, rfl⟩ := h
  exact mapM_defOf_inv ρ doc ds hds

mutual
theorem reLit_of_canonB (ρ : String → String) : ∀ l : Lit, litCanonB ρ l = true → reLit ρ l = l
  | .null, _ => rfl
  | .int v f, h => by simp only [litCanonB, beq_iff_eq] at h; simp [reLit, h]
  | .float v f, h => by simp only [litCanonB, beq_iff_eq] at h; simp [reLit, h]
  | .str s, _ => rfl
  | .bool b, _ => rfl
  | .enum s, _ => rfl
  | .list l, h => by simp only [litCanonB] at h; simp [reLit, reLits_of_canonB ρ l h]
  | .obj fs, h => by simp only [litCanonB] at h; simp [reLit, reLitFields_of_canonB ρ fs h]
theorem reLits_of_canonB (ρ : String → String) : ∀ l : List Lit, litsCanonB ρ l = true → reLits ρ l = l
  | [], _ => rfl
  | v :: vs, h => by
    simp only [litsCanonB, Bool.and_eq_true] at h
    simp [reLits, reLit_of_canonB ρ v h.1, reLits_of_canonB ρ vs h.2]
theorem reLitFields_of_canonB (ρ : String → String) : ∀ l : List (String × Lit), litFieldsCanonB ρ l = true → reLitFields ρ l = l
  | [], _ => rfl
  | (k, v) :: fs, h => by
    simp only [litFieldsCanonB, Bool.and_eq_true] at h
    simp [reLitFields, reLit_of_canonB ρ v h.1, reLitFields_of_canonB ρ fs h.2]
end

end PyGql.SdlText

/-
  Layer 4 (completeness): the eight type-system definitions.
-/
import PyGqlModel.Lemmas.ParseTSC3
namespace PyGql.Parse
open PyGql PyGql.Ast PyGql.Spec

/-- `Description? keyword Name` — the common head of the type definitions -/
def defHead (fl : Flags) (kw : Text) : P (Option StringValue × Name) := do
  let desc ← parseDescription fl
  let _ ← expectKeyword kw
  let name ← parseName fl
  pure (desc, name)

/-- the token shape the dispatcher looks at: `keyword …` or `string keyword …` -/
def HeadShape (desc : Option StringValue) (kw : Text) (ts : List Tok) : Prop :=
  match desc with
  | none => ∃ k tl, ts = k :: tl ∧ k.kind = .name ∧ k.value = kw
  | some _ => ∃ s k tl, ts = s :: k :: tl ∧ (s.kind = .string ∨ s.kind = .blockString) ∧ k.kind = .name ∧ k.value = kw

theorem descKw_shape (fl : Flags) (kw : Text) (desc : Option StringValue) (tail : List Item)
    (l l' : Tok) (ts rest : List Tok)
    (h : Item.checkAll fl (descV desc ++ Spec.kw kw :: tail) l ts = some (l', rest)) :
    HeadShape desc kw ts ∧
    ∃ lk k tsk, parseDescription fl ⟨ts, l⟩ = .ok (desc, ⟨k :: tsk, lk⟩) ∧ k.kind = .name ∧ k.value = kw ∧
      Item.checkAll fl tail k tsk = some (l', rest) ∧ tsk.length < ts.length := by
  rw [checkAll_append] at h
  obtain ⟨l1, ts1, hdesc, hall⟩ := h
  simp only [checkAll_cons, check_tok] at hall
  obtain ⟨l2, ts2, ⟨k, rfl, hc, rfl⟩, htail⟩ := hall
  obtain ⟨hk, hv⟩ := cls_kw_inv hc
  have cdesc := parseDescription_complete fl desc l l1 ts (l2 :: ts2) (fun _ => NotK.cons (by simp [hk])) hdesc
  have len := checkAll_len hdesc
  refine ⟨?_, l1, l2, ts2, cdesc, hk, hv, htail, by simp at len; omega⟩
  cases desc with
  | none =>
    simp only [descV, optV, checkAll_nil] at hdesc
    cases hdesc
    exact ⟨_, _, rfl, hk, hv⟩
  | some sv =>
    simp only [descV, optV, stringV, checkAll_cons, checkAll_nil, check_node, check_tok] at hdesc
    obtain ⟨l3, ts3, ⟨f, tl, rfl, ⟨l4, ts4, ⟨t, e, hc', rfl⟩, hfin'⟩, _⟩, hfin⟩ := hdesc
    cases e; cases hfin'; cases hfin
    refine ⟨_, _, _, rfl, ?_, hk, hv⟩
    rw [cls_kind hc']; cases sv.block <;> simp

theorem head_complete (fl : Flags) (kw : Text) (desc : Option StringValue) (nm : Name) (tail : List Item)
    (l l' : Tok) (ts rest : List Tok)
    (h : Item.checkAll fl (descV desc ++ Spec.kw kw :: nameV nm :: tail) l ts = some (l', rest)) :
    HeadShape desc kw ts ∧
    ∃ l3 ts3, defHead fl kw ⟨ts, l⟩ = .ok ((desc, nm), ⟨ts3, l3⟩) ∧
      Item.checkAll fl tail l3 ts3 = some (l', rest) ∧ ts3.length < ts.length := by
  obtain ⟨sh, lk, k, tsk, cdesc, hk, hv, htail, len⟩ := descKw_shape fl kw desc _ l l' ts rest h
  rw [checkAll_cons] at htail
  obtain ⟨l3, ts3, hn, htail⟩ := htail
  have cn := parseName_complete fl _ _ _ _ _ hn
  have len2 := check_len hn
  refine ⟨sh, l3, ts3, ?_, htail, by omega⟩
  simp [defHead, bind_eq, cdesc, expectKeyword_pos hk hv, cn, pure_eq]

abbrev DefComplete (fl : Flags) (fuel : Nat) (p : P Definition) (d : Definition) : Prop :=
  ∀ l l' ts rest, wfDefinition fl d = true → ts.length ≤ fuel → (definitionV d).check fl l ts = some (l', rest) →
    FollowDef rest → p ⟨ts, l⟩ = .ok (d, ⟨rest, l'⟩)

theorem followDirs_of_def {rest : List Tok} (h : FollowDef rest) : FollowDirs rest := h.notK _ (by simp)

theorem parseScalarTypeDefinition_eq (fl : Flags) (fuel : Nat) :
    parseScalarTypeDefinition fl fuel = (do
      let start ← peek
      let r ← defHead fl K.scalar
      let directives ← parseDirectives fl fuel true
      pure (.scalarTypeDefinition r.1 r.2 directives (← mkLoc fl start))) := by
  simp only [parseScalarTypeDefinition, defHead, bind_assoc', pure_bind']

theorem parseScalarTypeDefinition_complete (fl : Flags) (fuel : Nat) (desc : Option StringValue) (nm : Name)
    (ds : List Directive) (loc : Loc) :
    DefComplete fl fuel (parseScalarTypeDefinition fl fuel) (.scalarTypeDefinition desc nm ds loc) := by
  intro l l' ts rest w hf h hfol
  simp only [definitionV, check_node] at h
  obtain ⟨f, tl, rfl, hall, rfl⟩ := h
  obtain ⟨_, l3, ts3, ch, htail, len⟩ := head_complete fl _ desc nm _ l l' _ rest hall
  simp only [wfDefinition] at w
  have cd := parseDirectives_complete fl fuel true ds l3 l' ts3 rest w (by omega) (followDirs_of_def hfol) htail
  rw [parseScalarTypeDefinition_eq]
  simp [bind_eq, peek_cons, ch, cd, mkLoc_eq, pure_eq]

theorem parseObjectTypeDefinition_eq (fl : Flags) (fuel : Nat) :
    parseObjectTypeDefinition fl fuel = (do
      let start ← peek
      let r ← defHead fl K.type_
      let interfaces ← parseImplementsInterfaces fl fuel
      let directives ← parseDirectives fl fuel true
      let fields ← parseFieldsDefinition fl fuel
      pure (.objectTypeDefinition r.1 r.2 interfaces directives fields (← mkLoc fl start))) := by
  simp only [parseObjectTypeDefinition, defHead, bind_assoc', pure_bind']

/-- the tail `ImplementsInterfaces? Directives[Const]? FieldsDefinition?` shared by object definitions / extensions -/
theorem objectTail_complete (fl : Flags) (fuel : Nat) (ifs : List NamedType) (ds : List Directive)
    (fs : List FieldDefinition) (l l' : Tok) (ts rest : List Tok)
    (wd : wfDirectives true ds = true) (wf : ∀ d ∈ fs, wfFieldDefinition d = true) (hf : ts.length ≤ fuel)
    (hfol : FollowDef rest)
    (h : Item.checkAll fl (implementsV ifs ++ directivesV ds ++ blockV fieldDefinitionV fs) l ts = some (l', rest)) :
    ∃ l1 ts1 l2 ts2, parseImplementsInterfaces fl fuel ⟨ts, l⟩ = .ok (ifs, ⟨ts1, l1⟩) ∧
      parseDirectives fl fuel true ⟨ts1, l1⟩ = .ok (ds, ⟨ts2, l2⟩) ∧
      parseFieldsDefinition fl fuel ⟨ts2, l2⟩ = .ok (fs, ⟨rest, l'⟩) := by
  rw [List.append_assoc, checkAll_append] at h
  obtain ⟨l1, ts1, hi, hall⟩ := h
  have hall0 := hall
  rw [checkAll_append] at hall
  obtain ⟨l2, ts2, hd, hb⟩ := hall
  have len1 := checkAll_len hi
  have len2 := checkAll_len hd
  have fdb := (firstIn_directivesV fl ds).append (firstIn_blockV fl fieldDefinitionV fs)
  have ci := parseImplementsInterfaces_complete fl fuel ifs l l1 ts ts1 hf
    (fun _ => fdb.useImpl hall0 hfol.notImpl (by simp))
    (fdb.use hall0 (hfol.notK _ (by simp)) (by simp)) hi
  have cd := parseDirectives_complete fl fuel true ds l1 l2 ts1 ts2 wd (by omega)
    ((firstIn_blockV fl fieldDefinitionV fs).use hb (followDirs_of_def hfol) (by simp)) hd
  have cf := parseFieldsDefinition_complete fl fuel fs l2 l' ts2 rest wf (by omega) (fun _ => hfol.ne) hb
  exact ⟨l1, ts1, l2, ts2, ci, cd, cf⟩

theorem parseObjectTypeDefinition_complete (fl : Flags) (fuel : Nat) (desc : Option StringValue) (nm : Name)
    (ifs : List NamedType) (ds : List Directive) (fs : List FieldDefinition) (loc : Loc) :
    DefComplete fl fuel (parseObjectTypeDefinition fl fuel) (.objectTypeDefinition desc nm ifs ds fs loc) := by
  intro l l' ts rest w hf h hfol
  simp only [definitionV, check_node] at h
  obtain ⟨f, tl, rfl, hall, rfl⟩ := h
  obtain ⟨_, l3, ts3, ch, htail, len⟩ := head_complete fl _ desc nm _ l l' _ rest hall
  simp only [wfDefinition, Bool.and_eq_true, List.all_eq_true] at w
  obtain ⟨l4, ts4, l5, ts5, ci, cd, cf⟩ := objectTail_complete fl fuel ifs ds fs l3 l' ts3 rest w.1 w.2 (by omega) hfol htail
  rw [parseObjectTypeDefinition_eq]
  simp [bind_eq, peek_cons, ch, ci, cd, cf, mkLoc_eq, pure_eq]

/-- the tail `Directives[Const]? Block?` shared by interface / enum / input definitions and extensions -/
theorem dirsBlock_complete {α} (fl : Flags) (fuel : Nat) (V : α → Item) (pb : P (List α)) (ds : List Directive)
    (xs : List α) (l l' : Tok) (ts rest : List Tok) (wd : wfDirectives true ds = true) (hf : ts.length ≤ fuel)
    (hfol : FollowDef rest)
    (hpb : ∀ l2 ts2, ts2.length ≤ ts.length → Item.checkAll fl (blockV V xs) l2 ts2 = some (l', rest) →
      pb ⟨ts2, l2⟩ = .ok (xs, ⟨rest, l'⟩))
    (h : Item.checkAll fl (directivesV ds ++ blockV V xs) l ts = some (l', rest)) :
    ∃ l2 ts2, parseDirectives fl fuel true ⟨ts, l⟩ = .ok (ds, ⟨ts2, l2⟩) ∧ pb ⟨ts2, l2⟩ = .ok (xs, ⟨rest, l'⟩) := by
  rw [checkAll_append] at h
  obtain ⟨l2, ts2, hd, hb⟩ := h
  have cd := parseDirectives_complete fl fuel true ds l l2 ts ts2 wd hf
    ((firstIn_blockV fl V xs).use hb (followDirs_of_def hfol) (by simp)) hd
  exact ⟨l2, ts2, cd, hpb l2 ts2 (checkAll_len hd) hb⟩

theorem parseInterfaceTypeDefinition_eq (fl : Flags) (fuel : Nat) :
    parseInterfaceTypeDefinition fl fuel = (do
      let start ← peek
      let r ← defHead fl K.interface_
      let directives ← parseDirectives fl fuel true
      let fields ← parseFieldsDefinition fl fuel
      pure (.interfaceTypeDefinition r.1 r.2 directives fields (← mkLoc fl start))) := by
  simp only [parseInterfaceTypeDefinition, defHead, bind_assoc', pure_bind']

theorem parseInterfaceTypeDefinition_complete (fl : Flags) (fuel : Nat) (desc : Option StringValue) (nm : Name)
    (ds : List Directive) (fs : List FieldDefinition) (loc : Loc) :
    DefComplete fl fuel (parseInterfaceTypeDefinition fl fuel) (.interfaceTypeDefinition desc nm ds fs loc) := by
  intro l l' ts rest w hf h hfol
  simp only [definitionV, check_node] at h
  obtain ⟨f, tl, rfl, hall, rfl⟩ := h
  obtain ⟨_, l3, ts3, ch, htail, len⟩ := head_complete fl _ desc nm _ l l' _ rest hall
  simp only [wfDefinition, Bool.and_eq_true, List.all_eq_true] at w
  obtain ⟨l4, ts4, cd, cf⟩ := dirsBlock_complete fl fuel fieldDefinitionV (parseFieldsDefinition fl fuel) ds fs l3 l' ts3
    rest w.1 (by omega) hfol
    (fun l2 ts2 hl hb => parseFieldsDefinition_complete fl fuel fs l2 l' ts2 rest w.2 (by omega) (fun _ => hfol.ne) hb) htail
  rw [parseInterfaceTypeDefinition_eq]
  simp [bind_eq, peek_cons, ch, cd, cf, mkLoc_eq, pure_eq]

theorem parseEnumTypeDefinition_eq (fl : Flags) (fuel : Nat) :
    parseEnumTypeDefinition fl fuel = (do
      let start ← peek
      let r ← defHead fl K.enum_
      let directives ← parseDirectives fl fuel true
      let values ← parseEnumValuesDefinition fl fuel
      pure (.enumTypeDefinition r.1 r.2 directives values (← mkLoc fl start))) := by
  simp only [parseEnumTypeDefinition, defHead, bind_assoc', pure_bind']

theorem parseEnumTypeDefinition_complete (fl : Flags) (fuel : Nat) (desc : Option StringValue) (nm : Name)
    (ds : List Directive) (vs : List EnumValueDefinition) (loc : Loc) :
    DefComplete fl fuel (parseEnumTypeDefinition fl fuel) (.enumTypeDefinition desc nm ds vs loc) := by
  intro l l' ts rest w hf h hfol
  simp only [definitionV, check_node] at h
  obtain ⟨f, tl, rfl, hall, rfl⟩ := h
  obtain ⟨_, l3, ts3, ch, htail, len⟩ := head_complete fl _ desc nm _ l l' _ rest hall
  simp only [wfDefinition, Bool.and_eq_true, List.all_eq_true] at w
  obtain ⟨l4, ts4, cd, cf⟩ := dirsBlock_complete fl fuel enumValueDefinitionV (parseEnumValuesDefinition fl fuel) ds vs
    l3 l' ts3 rest w.1 (by omega) hfol
    (fun l2 ts2 hl hb => parseEnumValuesDefinition_complete fl fuel vs l2 l' ts2 rest w.2 (by omega) (fun _ => hfol.ne) hb)
    htail
  rw [parseEnumTypeDefinition_eq]
  simp [bind_eq, peek_cons, ch, cd, cf, mkLoc_eq, pure_eq]

theorem parseInputObjectTypeDefinition_eq (fl : Flags) (fuel : Nat) :
    parseInputObjectTypeDefinition fl fuel = (do
      let start ← peek
      let r ← defHead fl K.input
      let directives ← parseDirectives fl fuel true
      let fields ← parseInputFieldsDefinition fl fuel
      pure (.inputObjectTypeDefinition r.1 r.2 directives fields (← mkLoc fl start))) := by
  simp only [parseInputObjectTypeDefinition, defHead, bind_assoc', pure_bind']

theorem parseInputObjectTypeDefinition_complete (fl : Flags) (fuel : Nat) (desc : Option StringValue) (nm : Name)
    (ds : List Directive) (fs : List InputValueDefinition) (loc : Loc) :
    DefComplete fl fuel (parseInputObjectTypeDefinition fl fuel) (.inputObjectTypeDefinition desc nm ds fs loc) := by
  intro l l' ts rest w hf h hfol
  simp only [definitionV, check_node] at h
  obtain ⟨f, tl, rfl, hall, rfl⟩ := h
  obtain ⟨_, l3, ts3, ch, htail, len⟩ := head_complete fl _ desc nm _ l l' _ rest hall
  simp only [wfDefinition, Bool.and_eq_true, List.all_eq_true] at w
  obtain ⟨l4, ts4, cd, cf⟩ := dirsBlock_complete fl fuel inputValueV (parseInputFieldsDefinition fl fuel) ds fs
    l3 l' ts3 rest w.1 (by omega) hfol
    (fun l2 ts2 hl hb => parseInputFieldsDefinition_complete fl fuel fs l2 l' ts2 rest w.2 (by omega) (fun _ => hfol.ne) hb)
    htail
  rw [parseInputObjectTypeDefinition_eq]
  simp [bind_eq, peek_cons, ch, cd, cf, mkLoc_eq, pure_eq]

/-- the tail `Directives[Const]? UnionMemberTypes?` -/
theorem dirsUnion_complete (fl : Flags) (fuel : Nat) (ds : List Directive) (us : List NamedType)
    (l l' : Tok) (ts rest : List Tok) (wd : wfDirectives true ds = true) (hf : ts.length ≤ fuel)
    (hfol : FollowDef rest)
    (h : Item.checkAll fl (directivesV ds ++ unionMembersV us) l ts = some (l', rest)) :
    ∃ l2 ts2, parseDirectives fl fuel true ⟨ts, l⟩ = .ok (ds, ⟨ts2, l2⟩) ∧
      parseUnionMemberTypes fl fuel ⟨ts2, l2⟩ = .ok (us, ⟨rest, l'⟩) := by
  rw [checkAll_append] at h
  obtain ⟨l2, ts2, hd, hu⟩ := h
  have fu : FirstIn fl [.equals] (unionMembersV us) := by
    cases us with
    | nil => simpa [unionMembersV] using FirstIn.nil fl _
    | cons x xs => simpa [unionMembersV] using FirstIn.tok fl .equals [] _
  have cd := parseDirectives_complete fl fuel true ds l l2 ts ts2 wd hf
    (fu.use hu (followDirs_of_def hfol) (by simp)) hd
  have cu := parseUnionMemberTypes_complete fl fuel us l2 l' ts2 rest (Nat.le_trans (checkAll_len hd) hf)
    (hfol.notK _ (by simp)) hu
  exact ⟨l2, ts2, cd, cu⟩

theorem parseUnionTypeDefinition_eq (fl : Flags) (fuel : Nat) :
    parseUnionTypeDefinition fl fuel = (do
      let start ← peek
      let r ← defHead fl K.union
      let directives ← parseDirectives fl fuel true
      let types ← parseUnionMemberTypes fl fuel
      pure (.unionTypeDefinition r.1 r.2 directives types (← mkLoc fl start))) := by
  simp only [parseUnionTypeDefinition, defHead, bind_assoc', pure_bind']

theorem parseUnionTypeDefinition_complete (fl : Flags) (fuel : Nat) (desc : Option StringValue) (nm : Name)
    (ds : List Directive) (us : List NamedType) (loc : Loc) :
    DefComplete fl fuel (parseUnionTypeDefinition fl fuel) (.unionTypeDefinition desc nm ds us loc) := by
  intro l l' ts rest w hf h hfol
  simp only [definitionV, check_node] at h
  obtain ⟨f, tl, rfl, hall, rfl⟩ := h
  obtain ⟨_, l3, ts3, ch, htail, len⟩ := head_complete fl _ desc nm _ l l' _ rest hall
  simp only [wfDefinition] at w
  obtain ⟨l4, ts4, cd, cu⟩ := dirsUnion_complete fl fuel ds us l3 l' ts3 rest w (by omega) hfol htail
  rw [parseUnionTypeDefinition_eq]
  simp [bind_eq, peek_cons, ch, cd, cu, mkLoc_eq, pure_eq]

end PyGql.Parse

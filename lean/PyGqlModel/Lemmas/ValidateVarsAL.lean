/-
  Association lists with `OrderedDict` behaviour (`Validate/Ast.lean: AL`): look-up semantics of `set` / `modify`,
  and the well-formedness invariant (keys pairwise distinct) under which iterating over the items is the same
  as looking the keys up.
-/
import PyGqlModel.Validate.Variables
namespace PyGql.Validate.AL
variable {α : Type}

theorem get?_nil (k : String) : get? ([] : AL α) k = none := rfl

theorem get?_cons (p : String × α) (m : AL α) (k : String) :
    get? (p :: m) k = if p.1 = k then some p.2 else get? m k := by
  unfold get?
  by_cases h : p.1 = k <;> simp [h]

theorem has_cons (p : String × α) (m : AL α) (k : String) : has (p :: m) k = (decide (p.1 = k) || has m k) := by
  unfold has; simp only [List.any_cons]; congr 1

theorem has_eq_isSome (m : AL α) (k : String) : has m k = (get? m k).isSome := by
  induction m with
  | nil => rfl
  | cons p m ih => rw [has_cons, get?_cons, ih]; by_cases h : p.1 = k <;> simp [h]

theorem get?_append_single (m : AL α) (k k' : String) (v : α) :
    get? (m ++ [(k, v)]) k' = (get? m k').or (if k = k' then some v else none) := by
  induction m with
  | nil => simp [get?_cons, get?_nil]
  | cons p m ih => rw [List.cons_append, get?_cons, get?_cons, ih]; by_cases h : p.1 = k' <;> simp [h]

theorem get?_map_set (m : AL α) (k k' : String) (v : α) :
    get? (m.map fun p => if p.1 == k then (k, v) else p) k' =
      if k' = k then (if has m k then some v else none) else get? m k' := by
  induction m with
  | nil => simp [get?_nil, has]
  | cons p m ih =>
    rw [List.map_cons, get?_cons, ih, has_cons, get?_cons]
    by_cases h1 : p.1 = k
    · subst h1
      by_cases h2 : k' = p.1
      · subst h2; simp
      · have : ¬ p.1 = k' := fun e => h2 e.symm
        simp [h2, this]
    · by_cases h2 : k' = k
      · subst h2; simp [h1]
      · by_cases h3 : p.1 = k' <;> simp [h1, h2, h3]

theorem get?_set (m : AL α) (k k' : String) (v : α) :
    get? (set m k v) k' = if k' = k then some v else get? m k' := by
  unfold set
  by_cases hh : has m k = true
  · rw [if_pos hh, get?_map_set]; simp [hh]
  · rw [if_neg hh, get?_append_single]
    have hn : get? m k = none := by
      rw [has_eq_isSome] at hh; simpa using hh
    by_cases h2 : k' = k
    · subst h2; simp [hn]
    · have : ¬ k = k' := fun e => h2 e.symm
      simp [h2, this]

theorem getD_set (m : AL α) (k k' : String) (v d : α) :
    getD (set m k v) k' d = if k' = k then v else getD m k' d := by
  unfold getD; rw [get?_set]; by_cases h : k' = k <;> simp [h]

theorem getD_modify (m : AL α) (k k' : String) (d : α) (f : α → α) :
    getD (modify m k d f) k' d = if k' = k then f (getD m k d) else getD m k' d := by
  unfold modify; rw [getD_set]

theorem has_set (m : AL α) (k k' : String) (v : α) : has (set m k v) k' = (has m k' || decide (k' = k)) := by
  rw [has_eq_isSome, has_eq_isSome, get?_set]; by_cases h : k' = k <;> simp [h]

theorem mem_of_get? {m : AL α} {k : String} {v : α} (h : get? m k = some v) : (k, v) ∈ m := by
  induction m with
  | nil => simp [get?_nil] at h
  | cons p m ih =>
    rw [get?_cons] at h
    by_cases h1 : p.1 = k
    · rw [if_pos h1] at h; cases h; subst h1; exact List.mem_cons_self ..
    · rw [if_neg h1] at h; exact List.mem_cons_of_mem _ (ih h)

theorem has_iff_mem (m : AL α) (k : String) : has m k = true ↔ ∃ v, (k, v) ∈ m := by
  constructor
  · intro h
    rw [has_eq_isSome, Option.isSome_iff_exists] at h
    obtain ⟨v, hv⟩ := h
    exact ⟨v, mem_of_get? hv⟩
  · rintro ⟨v, hv⟩
    unfold has
    exact List.any_eq_true.mpr ⟨_, hv, by simp⟩

theorem mem_keys (m : AL α) (k : String) : k ∈ keys m ↔ has m k = true := by
  rw [has_iff_mem]; unfold keys
  simp only [List.mem_map]
  constructor
  · rintro ⟨p, hp, rfl⟩; exact ⟨p.2, hp⟩
  · rintro ⟨v, hv⟩; exact ⟨_, hv, rfl⟩

/-- keys pairwise distinct -/
def WF (m : AL α) : Prop := (keys m).Nodup

theorem wf_nil : WF ([] : AL α) := List.nodup_nil

theorem keys_map_set (m : AL α) (k : String) (v : α) :
    keys (m.map fun p => if p.1 == k then (k, v) else p) = keys m := by
  unfold keys
  rw [List.map_map]
  apply List.map_congr_left
  intro p _
  by_cases h : p.1 = k <;> simp [h]

theorem wf_set {m : AL α} (h : WF m) (k : String) (v : α) : WF (set m k v) := by
  unfold set
  by_cases hh : has m k = true
  · rw [if_pos hh]; unfold WF; rw [keys_map_set]; exact h
  · rw [if_neg hh]
    unfold WF keys
    rw [List.map_append, List.nodup_append]
    refine ⟨h, by simp, ?_⟩
    intro a ha b hb
    simp only [List.map_cons, List.map_nil, List.mem_singleton] at hb
    subst hb
    intro e; subst e
    exact hh ((mem_keys m a).mp ha)

theorem wf_modify {m : AL α} (h : WF m) (k : String) (d : α) (f : α → α) : WF (modify m k d f) := wf_set h _ _

theorem get?_of_mem {m : AL α} (h : WF m) {k : String} {v : α} (hm : (k, v) ∈ m) : get? m k = some v := by
  induction m with
  | nil => cases hm
  | cons p m ih =>
    unfold WF keys at h
    rw [List.map_cons, List.nodup_cons] at h
    rw [get?_cons]
    rcases List.mem_cons.mp hm with e | hm'
    · subst e; simp
    · have : p.1 ≠ k := by
        intro e; apply h.1; rw [e]; exact List.mem_map.mpr ⟨_, hm', rfl⟩
      rw [if_neg this]; exact ih h.2 hm'

theorem mem_iff_get? {m : AL α} (h : WF m) (k : String) (v : α) : (k, v) ∈ m ↔ get? m k = some v :=
  ⟨get?_of_mem h, mem_of_get?⟩

/-- every value of the map satisfies `P` -/
def AllVals (P : α → Prop) (m : AL α) : Prop := ∀ p ∈ m, P p.2

theorem mem_set {m : AL α} {k : String} {v : α} {p : String × α} (h : p ∈ set m k v) : p ∈ m ∨ p = (k, v) := by
  unfold set at h
  by_cases hh : has m k = true
  · rw [if_pos hh] at h
    obtain ⟨q, hq, e⟩ := List.mem_map.mp h
    by_cases h1 : q.1 = k
    · simp [h1] at e; exact Or.inr e.symm
    · simp [h1] at e; exact Or.inl (e ▸ hq)
  · rw [if_neg hh] at h
    rcases List.mem_append.mp h with h | h
    · exact Or.inl h
    · exact Or.inr (List.mem_singleton.mp h)

theorem getD_cases (m : AL α) (k : String) (d : α) : getD m k d = d ∨ (k, getD m k d) ∈ m := by
  unfold getD
  cases h : get? m k with
  | none => exact Or.inl rfl
  | some v => exact Or.inr (mem_of_get? h)

theorem allVals_modify {P : α → Prop} {m : AL α} (h : AllVals P m) (k : String) (d : α) (f : α → α)
    (hd : P d) (hf : ∀ v, P v → P (f v)) : AllVals P (modify m k d f) := by
  intro p hp
  rcases mem_set hp with hp | rfl
  · exact h p hp
  · apply hf
    rcases getD_cases m k d with e | e
    · rw [e]; exact hd
    · exact h _ e

theorem allVals_getD {P : α → Prop} {m : AL α} (h : AllVals P m) (k : String) (d : α) (hd : P d) : P (getD m k d) := by
  rcases getD_cases m k d with e | e
  · rw [e]; exact hd
  · exact h _ e

theorem getD_of_mem {m : AL α} (h : WF m) {k : String} {v : α} (hm : (k, v) ∈ m) (d : α) : getD m k d = v := by
  unfold getD; rw [get?_of_mem h hm]; rfl

end PyGql.Validate.AL

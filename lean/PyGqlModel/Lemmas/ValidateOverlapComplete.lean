/-
  `OverlappingFieldsCanBeMergedChecker`, soundness half, part 2: the field collection is COMPLETE (every field of
  `Spec.CollD` is in the collected map under its response name), and in a document without fragment spreads no
  selection set spreads anything.
-/
import PyGqlModel.Lemmas.ValidateOverlapEq
import PyGqlModel.Spec.ValidSpecOverlap2
namespace PyGql.Validate
open PyGql PyGql.Validate.Spec

theorem getD_add (fm : FMap) (rn' rn : String) (e' : FEntry) :
    AL.getD (AL.modify fm rn' [] (· ++ [e'])) rn [] = if rn = rn' then AL.getD fm rn' [] ++ [e'] else AL.getD fm rn [] :=
  AL.getD_modify fm rn' rn [] _

theorem Spec.CollD.cons_cases {s : SchemaD} {p : Option String} {x : Sel} {xs : List Sel} {rn : String} {e : FEntry}
    (h : CollD s p (x :: xs) rn e) : CollD s p [x] rn e ∨ CollD s p xs rn e := by
  cases h with
  | field hm =>
    rcases List.mem_cons.mp hm with rfl | hm
    · exact Or.inl (.field (List.mem_singleton.mpr rfl))
    · exact Or.inr (.field hm)
  | inline hm hs =>
    rcases List.mem_cons.mp hm with rfl | hm
    · exact Or.inl (.inline (List.mem_singleton.mpr rfl) hs)
    · exact Or.inr (.inline hm hs)

mutual
theorem collectSel_complete (s : SchemaD) : ∀ (parent : Option String) (x : Sel) (acc : FMap × List String)
    (rn : String) (e : FEntry), (e ∈ AL.getD acc.1 rn [] ∨ CollD s parent [x] rn e) →
    e ∈ AL.getD (collectSel s parent x acc).1 rn []
  | parent, .field alias name args dirs hasSub ssid sub, (fm, fr), rn, e, h => by
    simp only [collectSel]
    rw [getD_add]
    show e ∈ (if rn = responseName alias name then
      AL.getD fm (responseName alias name) [] ++
        [({ parent, name, args, hasSub, ssid, sub, fdef := parent.bind fun p => ovFieldOf s p name } : FEntry)]
      else AL.getD fm rn [])
    rcases h with h | h
    · by_cases hr : rn = responseName alias name
      · rw [if_pos hr]; exact List.mem_append_left _ (hr ▸ h)
      · rw [if_neg hr]; exact h
    · cases h with
      | @field _ _ alias' name' args' dirs' hasSub' ssid' sub' hm =>
        simp only [List.mem_singleton, Sel.field.injEq] at hm
        obtain ⟨h1, h2, h3, _, h5, h6, h7⟩ := hm
        subst h1 h2 h3 h5 h6 h7
        rw [if_pos rfl]
        exact List.mem_append_right _ (List.mem_singleton.mpr rfl)
      | inline hm _ => simp at hm
  | parent, .spread name dirs, (fm, fr), rn, e, h => by
    simp only [collectSel]
    rcases h with h | h
    · exact h
    · cases h with
      | field hm => simp at hm
      | inline hm _ => simp at hm
  | parent, .inline on dirs id sub, (fm, fr), rn, e, h => by
    simp only [collectSel]
    apply collectSels_complete s _ sub (fm, fr) rn e
    rcases h with h | h
    · exact Or.inl h
    · cases h with
      | field hm => simp at hm
      | @inline _ _ on' dirs' id' sub' _ _ hm hs =>
        simp only [List.mem_singleton, Sel.inline.injEq] at hm
        obtain ⟨h1, _, _, h4⟩ := hm
        subst h1 h4
        exact Or.inr hs
theorem collectSels_complete (s : SchemaD) : ∀ (parent : Option String) (xs : List Sel) (acc : FMap × List String)
    (rn : String) (e : FEntry), (e ∈ AL.getD acc.1 rn [] ∨ CollD s parent xs rn e) →
    e ∈ AL.getD (collectSels s parent xs acc).1 rn []
  | _, [], acc, rn, e, h => by
    rw [collectSels]
    rcases h with h | h
    · exact h
    · cases h with
      | field hm => cases hm
      | inline hm _ => cases hm
  | parent, x :: xs, acc, rn, e, h => by
    rw [collectSels]
    apply collectSels_complete s parent xs _ rn e
    rcases h with h | h
    · exact Or.inl (collectSel_complete s parent x acc rn e (Or.inl h))
    · rcases h.cons_cases with h | h
      · exact Or.inl (collectSel_complete s parent x acc rn e (Or.inr h))
      · exact Or.inr h
end

/-- `_fields_and_fragments` returns the collection under an admissible parent type -/
theorem ff_eq (s : SchemaD) (d : Doc) (p : Option String) (i : Nat) (sels : List Sel) (c : OCtx)
    (hc : ∀ q ∈ c.cache, Adm s d q.1 q.2) (hp : Adm s d i p) :
    ∃ p', Adm s d i p' ∧ (fieldsAndFragments s p i sels c).1.1 = (collectSels s p' sels ([], [])).1 := by
  unfold fieldsAndFragments
  cases hf : c.cache.find? (·.1 == i) with
  | some q =>
    obtain ⟨j, p0⟩ := q
    have hj : j = i := by simpa using List.find?_some hf
    exact ⟨p0, hj ▸ hc _ (List.mem_of_find?_eq_some hf), rfl⟩
  | none => exact ⟨p, hp, rfl⟩

/-- `_fields_and_fragments` leaves the crash flag alone -/
theorem ff_crash (s : SchemaD) (p : Option String) (i : Nat) (sels : List Sel) (c : OCtx) :
    (fieldsAndFragments s p i sels c).2.crash = c.crash := by
  unfold fieldsAndFragments
  cases c.cache.find? (·.1 == i) <;> rfl

/-! ### documents without fragment spreads -/

theorem noSpread_of_selSet {d : Doc} (hn : NoSpreads d) {i : Nat} {sels : List Sel} (h : SelSet d i sels) (g : String) :
    ¬ SpreadD sels g := by
  intro hs
  induction hs generalizing i with
  | @spread sels name dirs hm =>
    have : Node.spread name dirs ∈ nodes d :=
      selSet_closed h _ (mem_selsNodes_of_mem hm _ (by simp [selNodes]))
    exact hn _ this name dirs rfl
  | @inline sels on dirs id sub name hm _ ih =>
    exact ih (i := id) (selSet_closed h _ (mem_selsNodes_of_mem hm _ (by simp [selNodes])))

theorem coll_noSpreads {s : SchemaD} {d : Doc} (hn : NoSpreads d) {i : Nat} {sels : List Sel} (h : SelSet d i sels)
    {p : Option String} {rn : String} {e : FEntry} (hc : Coll s d p sels rn e) : CollD s p sels rn e := by
  rcases hc with hc | ⟨g, hg, _⟩
  · exact hc
  · exact absurd hg (noSpread_of_selSet hn h g)

/-- in a document without spreads `_fields_and_fragments` returns no fragment names -/
theorem ff_noSpreads (s : SchemaD) (d : Doc) (hn : NoSpreads d) (p : Option String) (i : Nat) (sels : List Sel) (c : OCtx)
    (hc : ∀ q ∈ c.cache, Adm s d q.1 q.2) (hp : Adm s d i p) (h : SelSet d i sels) :
    (fieldsAndFragments s p i sels c).1.2 = [] := by
  obtain ⟨_, a3, _, _⟩ := fieldsAndFragments_sound s d p i sels c hc hp
  rw [List.eq_nil_iff_forall_not_mem]
  intro g hg
  exact noSpread_of_selSet hn h g (a3 g hg)

end PyGql.Validate

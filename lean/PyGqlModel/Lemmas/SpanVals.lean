/-
  Every VALUE node of an executable definition (arguments of fields and directives, default values of variable
  definitions, and everything nested in them) is a sub-node of the definition's concrete-syntax view, and is well-formed
  (`wfValue false`) when the definition is.
-/
import PyGqlModel.Lemmas.SpanShift
namespace PyGql.Ast
open PyGql

def Argument.vals (a : Argument) : List Value := a.value.subs
def Directive.vals (d : Directive) : List Value := d.arguments.flatMap Argument.vals
def dirsVals (ds : List Directive) : List Value := ds.flatMap Directive.vals
def defaultVals : Option Value → List Value
  | none => []
  | some v => v.subs
def VariableDefinition.vals (d : VariableDefinition) : List Value := defaultVals d.defaultValue ++ dirsVals d.directives

mutual
def Selection.vals : Selection → List Value
  | .field _ _ args dirs ss _ => args.flatMap Argument.vals ++ dirsVals dirs ++ optSSVals ss
  | .fragmentSpread _ dirs _ => dirsVals dirs
  | .inlineFragment _ dirs ss _ => dirsVals dirs ++ ss.vals
def SelectionSet.vals : SelectionSet → List Value
  | .mk sels _ => selsVals sels
def optSSVals : Option SelectionSet → List Value
  | none => []
  | some ss => ss.vals
def selsVals : List Selection → List Value
  | [] => []
  | s :: ss => s.vals ++ selsVals ss
end

/-- every value node of an operation: variable defaults, directive and field arguments, at any depth -/
def OperationDefinition.vals (d : OperationDefinition) : List Value :=
  d.variableDefinitions.flatMap VariableDefinition.vals ++ dirsVals d.directives ++ d.selectionSet.vals
def FragmentDefinition.vals (d : FragmentDefinition) : List Value :=
  d.variableDefinitions.flatMap VariableDefinition.vals ++ dirsVals d.directives ++ d.selectionSet.vals

end PyGql.Ast

namespace PyGql.Spec
open PyGql PyGql.Ast PyGql.Parse

/-- `j` occurs in one of the items -/
def SubL (j : Item) (is : List Item) : Prop := ∃ i ∈ is, Item.Sub j i

theorem Item.Sub.trans {j i k : Item} (h1 : Item.Sub j i) (h2 : Item.Sub i k) : Item.Sub j k := by
  induction h2 with
  | refl => exact h1
  | node hm _ ih => exact .node hm ih

theorem SubL.node {j : Item} {is : List Item} (loc : Loc) (h : SubL j is) : Item.Sub j (.node loc is) := by
  obtain ⟨i, hi, hs⟩ := h; exact .node hi hs
theorem SubL.left {j : Item} {a : List Item} (b : List Item) (h : SubL j a) : SubL j (a ++ b) := by
  obtain ⟨i, hi, hs⟩ := h; exact ⟨i, List.mem_append_left _ hi, hs⟩
theorem SubL.right {j : Item} (a : List Item) {b : List Item} (h : SubL j b) : SubL j (a ++ b) := by
  obtain ⟨i, hi, hs⟩ := h; exact ⟨i, List.mem_append_right _ hi, hs⟩
theorem SubL.tail {j : Item} (x : Item) {b : List Item} (h : SubL j b) : SubL j (x :: b) := by
  obtain ⟨i, hi, hs⟩ := h; exact ⟨i, List.mem_cons_of_mem _ hi, hs⟩
theorem SubL.head {j i : Item} (b : List Item) (h : Item.Sub j i) : SubL j (i :: b) := ⟨i, by simp, h⟩
theorem SubL.map {α} {j : Item} (f : α → Item) {xs : List α} {x : α} (hx : x ∈ xs) (h : Item.Sub j (f x)) :
    SubL j (xs.map f) := ⟨f x, List.mem_map_of_mem hx, h⟩
theorem SubL.group {α} {j : Item} (o c : TokKind) (f : α → Item) {xs : List α} {x : α} (hx : x ∈ xs)
    (h : Item.Sub j (f x)) : SubL j (groupV o c f xs) := by
  unfold groupV
  have : xs.isEmpty = false := by cases xs with | nil => cases hx | cons _ _ => rfl
  simp only [this, Bool.false_eq_true, if_false]
  exact (SubL.map f hx h).left _ |>.tail _

theorem mem_flatMap' {α β} {f : α → List β} {xs : List α} {b : β} (h : b ∈ xs.flatMap f) : ∃ x ∈ xs, b ∈ f x := by
  simpa [List.mem_flatMap] using h

theorem all_mem {α} {q : α → Bool} {xs : List α} (h : xs.all q = true) {x : α} (hx : x ∈ xs) : q x = true := by
  simp only [List.all_eq_true] at h; exact h x hx

theorem argument_vals (c : Bool) (a : Argument) (w : Value) (h : w ∈ a.vals) :
    Item.Sub (valueV w) (argumentV a) ∧ (wfArgument c a = true → wfValue false w = true) := by
  obtain ⟨hs, hw⟩ := subs_value_sub c a.value w h
  refine ⟨?_, fun hh => wfValue_of_const c w (hw hh)⟩
  unfold argumentV
  exact ((SubL.head [] hs).tail _ |>.tail _).node _

theorem arguments_vals (c : Bool) (as : List Argument) (w : Value) (h : w ∈ as.flatMap Argument.vals) :
    SubL (valueV w) (argumentsV as) ∧ (as.all (wfArgument c) = true → wfValue false w = true) := by
  obtain ⟨a, ha, hw⟩ := mem_flatMap' h
  obtain ⟨h1, h2⟩ := argument_vals c a w hw
  exact ⟨SubL.group _ _ argumentV ha h1, fun hh => h2 (all_mem hh ha)⟩

theorem directive_vals (c : Bool) (d : Directive) (w : Value) (h : w ∈ d.vals) :
    Item.Sub (valueV w) (directiveV d) ∧ (wfDirective c d = true → wfValue false w = true) := by
  obtain ⟨h1, h2⟩ := arguments_vals c d.arguments w h
  exact ⟨by unfold directiveV; exact (h1.tail _ |>.tail _).node _, fun hh => h2 hh⟩

theorem directives_vals (c : Bool) (ds : List Directive) (w : Value) (h : w ∈ dirsVals ds) :
    SubL (valueV w) (directivesV ds) ∧ (wfDirectives c ds = true → wfValue false w = true) := by
  obtain ⟨d, hd, hw⟩ := mem_flatMap' h
  obtain ⟨h1, h2⟩ := directive_vals c d w hw
  exact ⟨SubL.map directiveV hd h1, fun hh => h2 (all_mem hh hd)⟩

theorem default_vals (o : Option Value) (w : Value) (h : w ∈ defaultVals o) :
    SubL (valueV w) (defaultV o) ∧ (wfDefault o = true → wfValue false w = true) := by
  cases o with
  | none => cases h
  | some v =>
    obtain ⟨hs, hw⟩ := subs_value_sub true v w h
    exact ⟨(SubL.head _ hs).tail _, fun hh => wfValue_of_const true w (hw hh)⟩

theorem variableDefinition_vals (d : VariableDefinition) (w : Value) (h : w ∈ d.vals) :
    Item.Sub (valueV w) (variableDefinitionV d) ∧ (wfVariableDefinition d = true → wfValue false w = true) := by
  unfold VariableDefinition.vals at h
  unfold variableDefinitionV
  simp only [wfVariableDefinition, Bool.and_eq_true]
  rcases List.mem_append.1 h with h | h
  · obtain ⟨h1, h2⟩ := default_vals d.defaultValue w h
    exact ⟨((h1.left _).tail _ |>.tail _ |>.tail _).node _, fun hh => h2 hh.1.2⟩
  · obtain ⟨h1, h2⟩ := directives_vals true d.directives w h
    exact ⟨((h1.right _).tail _ |>.tail _ |>.tail _).node _, fun hh => h2 hh.2⟩

theorem variableDefinitions_vals (ds : List VariableDefinition) (w : Value) (h : w ∈ ds.flatMap VariableDefinition.vals) :
    SubL (valueV w) (variableDefinitionsV ds) ∧ (ds.all wfVariableDefinition = true → wfValue false w = true) := by
  obtain ⟨d, hd, hw⟩ := mem_flatMap' h
  obtain ⟨h1, h2⟩ := variableDefinition_vals d w hw
  exact ⟨SubL.group _ _ variableDefinitionV hd h1, fun hh => h2 (all_mem hh hd)⟩

mutual
theorem selection_vals : ∀ (s : Selection) (w : Value), w ∈ s.vals →
    Item.Sub (valueV w) (selectionV s) ∧ (wfSelection s = true → wfValue false w = true)
  | .field alias_ name args dirs ss loc, w, h => by
    simp only [Selection.vals, List.mem_append] at h
    simp only [selectionV, wfSelection, Bool.and_eq_true]
    rcases h with (h | h) | h
    · obtain ⟨h1, h2⟩ := arguments_vals false args w h
      exact ⟨(((h1.left _).left _).tail _ |>.right _).node _, fun hh => h2 hh.1.1⟩
    · obtain ⟨h1, h2⟩ := directives_vals false dirs w h
      exact ⟨(((h1.right _).left _).tail _ |>.right _).node _, fun hh => h2 hh.1.2⟩
    · obtain ⟨h1, h2⟩ := optSS_vals ss w h
      exact ⟨((h1.right _).tail _ |>.right _).node _, fun hh => h2 hh.2⟩
  | .fragmentSpread name dirs loc, w, h => by
    simp only [Selection.vals] at h
    simp only [selectionV, wfSelection, Bool.and_eq_true]
    obtain ⟨h1, h2⟩ := directives_vals false dirs w h
    exact ⟨(h1.tail _ |>.tail _).node _, fun hh => h2 hh.2⟩
  | .inlineFragment tc dirs ss loc, w, h => by
    simp only [Selection.vals, List.mem_append] at h
    simp only [selectionV, wfSelection, Bool.and_eq_true]
    rcases h with h | h
    · obtain ⟨h1, h2⟩ := directives_vals false dirs w h
      exact ⟨(((h1.right _).left _).tail _).node _, fun hh => h2 hh.1⟩
    · obtain ⟨h1, h2⟩ := selectionSet_vals ss w h
      exact ⟨(((SubL.head [] h1).right _).tail _).node _, fun hh => h2 hh.2⟩
theorem selectionSet_vals : ∀ (ss : SelectionSet) (w : Value), w ∈ ss.vals →
    Item.Sub (valueV w) (selectionSetV ss) ∧ (wfSelectionSet ss = true → wfValue false w = true)
  | .mk sels loc, w, h => by
    simp only [SelectionSet.vals] at h
    simp only [selectionSetV, wfSelectionSet, Bool.and_eq_true]
    obtain ⟨h1, h2⟩ := sels_vals sels w h
    exact ⟨((h1.left _).tail _).node _, fun hh => h2 hh.2⟩
theorem optSS_vals : ∀ (o : Option SelectionSet) (w : Value), w ∈ optSSVals o →
    SubL (valueV w) (optSelectionSetV o) ∧ (wfOptSelectionSet o = true → wfValue false w = true)
  | none, w, h => by simp [optSSVals] at h
  | some ss, w, h => by
    simp only [optSSVals] at h
    obtain ⟨h1, h2⟩ := selectionSet_vals ss w h
    exact ⟨by simp only [optSelectionSetV]; exact SubL.head _ h1, fun hh => h2 (by simpa [wfOptSelectionSet] using hh)⟩
theorem sels_vals : ∀ (ss : List Selection) (w : Value), w ∈ selsVals ss →
    SubL (valueV w) (selectionsV ss) ∧ (wfSelections ss = true → wfValue false w = true)
  | [], w, h => by simp [selsVals] at h
  | s :: ss, w, h => by
    simp only [selsVals, List.mem_append] at h
    simp only [selectionsV, wfSelections, Bool.and_eq_true]
    rcases h with h | h
    · obtain ⟨h1, h2⟩ := selection_vals s w h
      exact ⟨SubL.head _ h1, fun hh => h2 hh.1⟩
    · obtain ⟨h1, h2⟩ := sels_vals ss w h
      exact ⟨h1.tail _, fun hh => h2 hh.2⟩
end

theorem operation_vals (d : OperationDefinition) (w : Value) (h : w ∈ d.vals) :
    Item.Sub (valueV w) (operationV d) ∧ (wfOperation d = true → wfValue false w = true) := by
  unfold OperationDefinition.vals at h
  simp only [List.mem_append] at h
  simp only [wfOperation, Bool.and_eq_true]
  unfold operationV
  split
  · rename_i hsh
    simp only [isShorthand, decide_eq_true_eq] at hsh
    rcases h with (h | h) | h
    · have : d.variableDefinitions = [] := by simpa using hsh.2.2.1
      simp [this] at h
    · have : d.directives = [] := by simpa using hsh.2.2.2
      simp [this, dirsVals] at h
    · obtain ⟨h1, h2⟩ := selectionSet_vals d.selectionSet w h
      exact ⟨((SubL.head [] h1).tail _).node _, fun hh => h2 hh.2⟩
  · rcases h with (h | h) | h
    · obtain ⟨h1, h2⟩ := variableDefinitions_vals d.variableDefinitions w h
      exact ⟨((((h1.right _).left _).left _).tail _).node _, fun hh => h2 hh.1.1.2⟩
    · obtain ⟨h1, h2⟩ := directives_vals false d.directives w h
      exact ⟨(((h1.right _).left _).tail _).node _, fun hh => h2 hh.1.2⟩
    · obtain ⟨h1, h2⟩ := selectionSet_vals d.selectionSet w h
      exact ⟨(((SubL.head [] h1).right _).tail _).node _, fun hh => h2 hh.2⟩

theorem fragment_vals (fl : Flags) (d : FragmentDefinition) (w : Value) (h : w ∈ d.vals) :
    Item.Sub (valueV w) (fragmentV d) ∧ (wfFragment fl d = true → wfValue false w = true) := by
  unfold FragmentDefinition.vals at h
  simp only [List.mem_append] at h
  simp only [wfFragment, Bool.and_eq_true]
  unfold fragmentV
  rcases h with (h | h) | h
  · obtain ⟨h1, h2⟩ := variableDefinitions_vals d.variableDefinitions w h
    exact ⟨((h1.left _).tail _ |>.tail _).node _, fun hh => h2 hh.1.1.2⟩
  · obtain ⟨h1, h2⟩ := directives_vals false d.directives w h
    exact ⟨(((h1.left _).tail _ |>.tail _).right _ |>.tail _ |>.tail _).node _, fun hh => h2 hh.1.2⟩
  · obtain ⟨h1, h2⟩ := selectionSet_vals d.selectionSet w h
    exact ⟨((((SubL.head [] h1).right _).tail _ |>.tail _).right _ |>.tail _ |>.tail _).node _, fun hh => h2 hh.2⟩

end PyGql.Spec

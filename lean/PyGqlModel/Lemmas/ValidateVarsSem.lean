/-
  Look-up semantics of a `VariablesCollector`: what the rules read from its five maps (`VC.sem`), and how the
  events of the walk change it (`Sem.apply`). The collector after the walk is the fold of `Sem.apply` over the
  scoped events of the document (`sem_visitDefs`).
-/
import PyGqlModel.Lemmas.ValidateVarsWalk3
import PyGqlModel.Lemmas.ValidateVarsAL
namespace PyGql.Validate
open PyGql PyGql.Validate.Spec

/-- where an event happens: in the operation filed under key `o`, or in the fragment named `f` -/
inductive Scope where
  | op (o : String)
  | frag (f : String)

structure Sem where
  /-- `_op_defined_variables[o].get(x)` -/
  dfn : String → String → Option VarDef
  /-- `_op_variables[o][x]` (the usages) -/
  ouse : String → String → List Usage
  /-- `x in _op_variables[o]` -/
  ouseK : String → String → Bool
  fuse : String → String → List Usage
  fuseK : String → String → Bool
  /-- `_op_fragments[o]` -/
  osp : String → List String
  /-- `_fragment_fragments[f]` -/
  fsp : String → List String

def VC.sem (c : VC) : Sem where
  dfn o x := AL.get? (AL.getD c.opDefined o []) x
  ouse o x := AL.getD (AL.getD c.opVars o []) x []
  ouseK o x := AL.has (AL.getD c.opVars o []) x
  fuse f x := AL.getD (AL.getD c.fragVars f []) x []
  fuseK f x := AL.has (AL.getD c.fragVars f []) x
  osp o := AL.getD c.opFrags o []
  fsp f := AL.getD c.fragFrags f []

def Sem.apply (fx : Fixes) : Scope × VEv → Sem → Sem
  | (.op o, .use x u), m => { m with
      ouse := fun o' x' => if o' = o ∧ x' = x then (if fx.v3 then m.ouse o x ++ [u] else [u]) else m.ouse o' x'
      ouseK := fun o' x' => m.ouseK o' x' || decide (o' = o ∧ x' = x) }
  | (.frag f, .use x u), m => { m with
      fuse := fun f' x' => if f' = f ∧ x' = x then (if fx.v3 then m.fuse f x ++ [u] else [u]) else m.fuse f' x'
      fuseK := fun f' x' => m.fuseK f' x' || decide (f' = f ∧ x' = x) }
  | (.op o, .spread g), m => { m with osp := fun o' => if o' = o then m.osp o ++ [g] else m.osp o' }
  | (.frag f, .spread g), m =>
    if g ≠ f then { m with fsp := fun f' => if f' = f then m.fsp f ++ [g] else m.fsp f' } else m
  | (.op o, .defn v), m => { m with dfn := fun o' x' => if o' = o ∧ x' = v.name then some v else m.dfn o' x' }
  | (.frag _, .defn _), m => m

def Sem.run (fx : Fixes) (evs : List (Scope × VEv)) (m : Sem) : Sem := evs.foldl (fun m e => Sem.apply fx e m) m

theorem Sem.run_nil (fx : Fixes) (m : Sem) : Sem.run fx [] m = m := rfl
theorem Sem.run_cons (fx : Fixes) (e : Scope × VEv) (evs : List (Scope × VEv)) (m : Sem) :
    Sem.run fx (e :: evs) m = Sem.run fx evs (Sem.apply fx e m) := rfl
theorem Sem.run_append (fx : Fixes) (a b : List (Scope × VEv)) (m : Sem) :
    Sem.run fx (a ++ b) m = Sem.run fx b (Sem.run fx a m) := by simp [Sem.run]

theorem getD_record (fx : Fixes) (m : AL (List Usage)) (x x' : String) (u : Usage) :
    AL.getD (VC.record fx m x u) x' [] = if x' = x then (if fx.v3 then AL.getD m x [] ++ [u] else [u]) else AL.getD m x' [] := by
  unfold VC.record
  cases fx.v3
  · simp only [Bool.false_eq_true, ↓reduceIte, AL.getD_set]
  · simp only [↓reduceIte, AL.getD_modify]

theorem has_record (fx : Fixes) (m : AL (List Usage)) (x x' : String) (u : Usage) :
    AL.has (VC.record fx m x u) x' = (AL.has m x' || decide (x' = x)) := by
  unfold VC.record
  cases fx.v3
  · simp only [Bool.false_eq_true, ↓reduceIte, AL.has_set]
  · simp only [↓reduceIte, AL.modify, AL.has_set]

theorem sem_applyEv_op (fx : Fixes) (e : VEv) (c : VC) (o : String) (ho : c.op = some o) (hiv : c.inVarDef = false) :
    (VC.applyEv fx e c).sem = Sem.apply fx (.op o, e) c.sem := by
  cases e with
  | use x u =>
    simp only [VC.applyEv, VC.useVar, hiv, ho, Bool.false_eq_true, ↓reduceIte, VC.sem, Sem.apply, Sem.mk.injEq, true_and,
      and_true]
    refine ⟨?_, ?_⟩
    · funext o' x'
      rw [AL.getD_modify]
      by_cases h1 : o' = o
      · subst h1; simp only [↓reduceIte, true_and, getD_record]
      · simp [h1]
    · funext o' x'
      rw [AL.getD_modify]
      by_cases h1 : o' = o
      · subst h1; simp only [↓reduceIte, true_and, has_record]
      · simp [h1]
  | spread g =>
    simp only [VC.applyEv, VC.enterSpread, ho, VC.sem, Sem.apply, Sem.mk.injEq, true_and, and_true]
    funext o'
    rw [AL.getD_modify]
  | defn v =>
    simp only [VC.applyEv, VC.defineVar, ho, VC.sem, Sem.apply, Sem.mk.injEq, true_and, and_true]
    funext o' x'
    rw [AL.getD_modify]
    by_cases h1 : o' = o
    · subst h1; simp only [↓reduceIte, true_and, AL.get?_set]
    · simp [h1]

theorem sem_applyEv_frag (fx : Fixes) (e : VEv) (c : VC) (f : String) (ho : c.op = none) (hf : c.frag = some f)
    (hiv : c.inVarDef = false) :
    (VC.applyEv fx e c).sem = Sem.apply fx (.frag f, e) c.sem := by
  cases e with
  | use x u =>
    simp only [VC.applyEv, VC.useVar, hiv, ho, hf, Bool.false_eq_true, ↓reduceIte, VC.sem, Sem.apply, Sem.mk.injEq,
      true_and, and_true]
    refine ⟨?_, ?_⟩
    · funext o' x'
      rw [AL.getD_modify]
      by_cases h1 : o' = f
      · subst h1; simp only [↓reduceIte, true_and, getD_record]
      · simp [h1]
    · funext o' x'
      rw [AL.getD_modify]
      by_cases h1 : o' = f
      · subst h1; simp only [↓reduceIte, true_and, has_record]
      · simp [h1]
  | spread g =>
    simp only [VC.applyEv, VC.enterSpread, ho, hf, Sem.apply]
    by_cases hg : g = f
    · subst hg; simp
    · simp only [bne_iff_ne, ne_eq, hg, not_false_eq_true, ↓reduceIte, VC.sem, Sem.mk.injEq, true_and]
      funext f'
      rw [AL.getD_modify]
  | defn v =>
    simp only [VC.applyEv, VC.defineVar, ho, Sem.apply]

theorem sem_applyAll_op (fx : Fixes) (evs : List VEv) (c : VC) (o : String) (ho : c.op = some o)
    (hiv : c.inVarDef = false) :
    (VC.applyAll fx evs c).sem = Sem.run fx (evs.map fun e => (Scope.op o, e)) c.sem := by
  induction evs generalizing c with
  | nil => rfl
  | cons e evs ih =>
    rw [VC.applyAll_cons, List.map_cons, Sem.run_cons, ← sem_applyEv_op fx e c o ho hiv]
    obtain ⟨a1, _, a3⟩ := VC.applyEv_scope fx e c
    exact ih _ (a1.trans ho) (a3.trans hiv)

theorem sem_applyAll_frag (fx : Fixes) (evs : List VEv) (c : VC) (f : String) (ho : c.op = none) (hf : c.frag = some f)
    (hiv : c.inVarDef = false) :
    (VC.applyAll fx evs c).sem = Sem.run fx (evs.map fun e => (Scope.frag f, e)) c.sem := by
  induction evs generalizing c with
  | nil => rfl
  | cons e evs ih =>
    rw [VC.applyAll_cons, List.map_cons, Sem.run_cons, ← sem_applyEv_frag fx e c f ho hf hiv]
    obtain ⟨a1, a2, a3⟩ := VC.applyEv_scope fx e c
    exact ih _ (a1.trans ho) (a2.trans hf) (a3.trans hiv)

/-- the scoped events of a definition -/
def defEvs (s : SchemaD) (x : Def) : List (Scope × VEv) :=
  match x with
  | .op _ name .. => (vlog s (tnDef s x)).map fun e => (Scope.op (name.getD ""), e)
  | .frag name .. => (vlog s (tnDef s x)).map fun e => (Scope.frag name, e)
  | .ts .. => []

theorem sem_defEffect (fx : Fixes) (s : SchemaD) (x : Def) (cc : VC)
    (h : cc.op = none ∧ cc.frag = none ∧ cc.inVarDef = false) :
    (defEffect fx s x cc).sem = Sem.run fx (defEvs s x) cc.sem := by
  cases x with
  | op kind name vars dirs ssid sels =>
    exact sem_applyAll_op fx _ (cc.enterOperation name) (name.getD "") rfl h.2.2
  | frag name on dirs ssid sels =>
    exact sem_applyAll_frag fx _ (cc.enterFragmentDef name) name h.1 rfl h.2.2
  | ts a b => rfl

theorem sem_defEffects (fx : Fixes) (s : SchemaD) (ds : List Def) (cc : VC)
    (h : cc.op = none ∧ cc.frag = none ∧ cc.inVarDef = false) :
    (ds.foldl (fun cc x => defEffect fx s x cc) cc).sem = Sem.run fx (ds.flatMap (defEvs s)) cc.sem ∧
    ((ds.foldl (fun cc x => defEffect fx s x cc) cc).op = none ∧
     (ds.foldl (fun cc x => defEffect fx s x cc) cc).frag = none ∧
     (ds.foldl (fun cc x => defEffect fx s x cc) cc).inVarDef = false) := by
  induction ds generalizing cc with
  | nil => exact ⟨rfl, h⟩
  | cons x xs ih =>
    rw [List.foldl_cons, List.flatMap_cons, Sem.run_append, ← sem_defEffect fx s x cc h]
    exact ih _ (defEffect_scope fx s x cc h)

end PyGql.Validate

/-
  What the look-ups of a `VariablesCollector` contain after a list of scoped events (`Sem.run`), event by event.
-/
import PyGqlModel.Lemmas.ValidateVarsSem
namespace PyGql.Validate
open PyGql PyGql.Validate.Spec

theorem run_osp (fx : Fixes) (evs : List (Scope × VEv)) (m : Sem) (o g : String) :
    g ∈ (Sem.run fx evs m).osp o ↔ g ∈ m.osp o ∨ (Scope.op o, VEv.spread g) ∈ evs := by
  induction evs generalizing m with
  | nil => simp [Sem.run_nil]
  | cons e evs ih =>
    rw [Sem.run_cons, ih, List.mem_cons]
    obtain ⟨sc, ev⟩ := e
    cases sc <;> cases ev <;> simp only [Sem.apply, Prod.mk.injEq, reduceCtorEq, false_and, and_false, false_or,
      Scope.op.injEq, VEv.spread.injEq]
    · rename_i o' g'
      by_cases h : o = o'
      · subst h; simp only [↓reduceIte, List.mem_append, List.mem_singleton, true_and]
        constructor
        · rintro ((h | h) | h)
          · exact Or.inl h
          · exact Or.inr (Or.inl h)
          · exact Or.inr (Or.inr h)
        · rintro (h | h | h)
          · exact Or.inl (Or.inl h)
          · exact Or.inl (Or.inr h)
          · exact Or.inr h
      · simp [h]
    · split <;> rfl

theorem run_fsp (fx : Fixes) (evs : List (Scope × VEv)) (m : Sem) (f g : String) :
    g ∈ (Sem.run fx evs m).fsp f ↔ g ∈ m.fsp f ∨ ((Scope.frag f, VEv.spread g) ∈ evs ∧ g ≠ f) := by
  induction evs generalizing m with
  | nil => simp [Sem.run_nil]
  | cons e evs ih =>
    rw [Sem.run_cons, ih, List.mem_cons]
    obtain ⟨sc, ev⟩ := e
    cases sc <;> cases ev <;> simp only [Sem.apply, Prod.mk.injEq, reduceCtorEq, false_and, and_false, false_or,
      Scope.frag.injEq, VEv.spread.injEq]
    rename_i f' g'
    by_cases hgf : g' = f'
    · subst hgf
      simp only [ne_eq, not_true_eq_false, ↓reduceIte]
      constructor
      · rintro (h | ⟨h, hne⟩)
        · exact Or.inl h
        · exact Or.inr ⟨Or.inr h, hne⟩
      · rintro (h | ⟨(⟨rfl, rfl⟩ | h), hne⟩)
        · exact Or.inl h
        · exact absurd rfl hne
        · exact Or.inr ⟨h, hne⟩
    · simp only [ne_eq, hgf, not_false_eq_true, ↓reduceIte]
      by_cases h : f = f'
      · subst h; simp only [↓reduceIte, List.mem_append, List.mem_singleton, true_and]
        constructor
        · rintro ((h | h) | ⟨h, hne⟩)
          · exact Or.inl h
          · subst h; exact Or.inr ⟨Or.inl rfl, hgf⟩
          · exact Or.inr ⟨Or.inr h, hne⟩
        · rintro (h | ⟨(h | h), hne⟩)
          · exact Or.inl (Or.inl h)
          · exact Or.inl (Or.inr h)
          · exact Or.inr ⟨h, hne⟩
      · simp [h]

theorem run_ouseK (fx : Fixes) (evs : List (Scope × VEv)) (m : Sem) (o x : String) :
    (Sem.run fx evs m).ouseK o x = true ↔ m.ouseK o x = true ∨ ∃ u, (Scope.op o, VEv.use x u) ∈ evs := by
  induction evs generalizing m with
  | nil => simp [Sem.run_nil]
  | cons e evs ih =>
    rw [Sem.run_cons, ih]
    simp only [List.mem_cons, exists_or]
    obtain ⟨sc, ev⟩ := e
    cases sc <;> cases ev <;> simp only [Sem.apply, Prod.mk.injEq, reduceCtorEq, false_and, and_false, false_or,
      Scope.op.injEq, VEv.use.injEq, exists_false]
    · rename_i o' x' u'
      simp only [Bool.or_eq_true, decide_eq_true_eq]
      constructor
      · rintro ((h | ⟨rfl, rfl⟩) | h)
        · exact Or.inl h
        · exact Or.inr (Or.inl ⟨u', rfl, rfl, rfl⟩)
        · exact Or.inr (Or.inr h)
      · rintro (h | ⟨u, rfl, rfl, rfl⟩ | h)
        · exact Or.inl (Or.inl h)
        · exact Or.inl (Or.inr ⟨rfl, rfl⟩)
        · exact Or.inr h
    · split <;> rfl

theorem run_fuseK (fx : Fixes) (evs : List (Scope × VEv)) (m : Sem) (f x : String) :
    (Sem.run fx evs m).fuseK f x = true ↔ m.fuseK f x = true ∨ ∃ u, (Scope.frag f, VEv.use x u) ∈ evs := by
  induction evs generalizing m with
  | nil => simp [Sem.run_nil]
  | cons e evs ih =>
    rw [Sem.run_cons, ih]
    simp only [List.mem_cons, exists_or]
    obtain ⟨sc, ev⟩ := e
    cases sc <;> cases ev <;> simp only [Sem.apply, Prod.mk.injEq, reduceCtorEq, false_and, and_false, false_or,
      Scope.frag.injEq, VEv.use.injEq, exists_false]
    · rename_i o' x' u'
      simp only [Bool.or_eq_true, decide_eq_true_eq]
      constructor
      · rintro ((h | ⟨rfl, rfl⟩) | h)
        · exact Or.inl h
        · exact Or.inr (Or.inl ⟨u', rfl, rfl, rfl⟩)
        · exact Or.inr (Or.inr h)
      · rintro (h | ⟨u, rfl, rfl, rfl⟩ | h)
        · exact Or.inl (Or.inl h)
        · exact Or.inl (Or.inr ⟨rfl, rfl⟩)
        · exact Or.inr h
    · split <;> rfl

theorem run_ouse (fx : Fixes) (h3 : fx.v3 = true) (evs : List (Scope × VEv)) (m : Sem) (o x : String) (u : Usage) :
    u ∈ (Sem.run fx evs m).ouse o x ↔ u ∈ m.ouse o x ∨ (Scope.op o, VEv.use x u) ∈ evs := by
  induction evs generalizing m with
  | nil => simp [Sem.run_nil]
  | cons e evs ih =>
    rw [Sem.run_cons, ih, List.mem_cons]
    obtain ⟨sc, ev⟩ := e
    cases sc <;> cases ev <;> simp only [Sem.apply, Prod.mk.injEq, reduceCtorEq, false_and, and_false, false_or,
      Scope.op.injEq, VEv.use.injEq, h3, ↓reduceIte]
    · rename_i o' x' u'
      by_cases h : o = o' ∧ x = x'
      · obtain ⟨rfl, rfl⟩ := h
        simp only [and_self, ↓reduceIte, List.mem_append, List.mem_singleton, true_and]
        constructor
        · rintro ((h | h) | h)
          · exact Or.inl h
          · exact Or.inr (Or.inl h)
          · exact Or.inr (Or.inr h)
        · rintro (h | h | h)
          · exact Or.inl (Or.inl h)
          · exact Or.inl (Or.inr h)
          · exact Or.inr h
      · rw [if_neg h]
        constructor
        · rintro (h' | h')
          · exact Or.inl h'
          · exact Or.inr (Or.inr h')
        · rintro (h' | ⟨a, b, _⟩ | h')
          · exact Or.inl h'
          · exact absurd ⟨a, b⟩ h
          · exact Or.inr h'
    · split <;> rfl

theorem run_fuse (fx : Fixes) (h3 : fx.v3 = true) (evs : List (Scope × VEv)) (m : Sem) (f x : String) (u : Usage) :
    u ∈ (Sem.run fx evs m).fuse f x ↔ u ∈ m.fuse f x ∨ (Scope.frag f, VEv.use x u) ∈ evs := by
  induction evs generalizing m with
  | nil => simp [Sem.run_nil]
  | cons e evs ih =>
    rw [Sem.run_cons, ih, List.mem_cons]
    obtain ⟨sc, ev⟩ := e
    cases sc <;> cases ev <;> simp only [Sem.apply, Prod.mk.injEq, reduceCtorEq, false_and, and_false, false_or,
      Scope.frag.injEq, VEv.use.injEq, h3, ↓reduceIte]
    · rename_i o' x' u'
      by_cases h : f = o' ∧ x = x'
      · obtain ⟨rfl, rfl⟩ := h
        simp only [and_self, ↓reduceIte, List.mem_append, List.mem_singleton, true_and]
        constructor
        · rintro ((h | h) | h)
          · exact Or.inl h
          · exact Or.inr (Or.inl h)
          · exact Or.inr (Or.inr h)
        · rintro (h | h | h)
          · exact Or.inl (Or.inl h)
          · exact Or.inl (Or.inr h)
          · exact Or.inr h
      · rw [if_neg h]
        constructor
        · rintro (h' | h')
          · exact Or.inl h'
          · exact Or.inr (Or.inr h')
        · rintro (h' | ⟨a, b, _⟩ | h')
          · exact Or.inl h'
          · exact absurd ⟨a, b⟩ h
          · exact Or.inr h'
    · split <;> rfl

/-- the last definition of `$x` under operation key `o` among the events, `init` if there is none -/
def lastDefn (o x : String) : List (Scope × VEv) → Option VarDef → Option VarDef
  | [], init => init
  | (.op o', .defn v) :: evs, init => lastDefn o x evs (if o = o' ∧ x = v.name then some v else init)
  | _ :: evs, init => lastDefn o x evs init

theorem run_dfn (fx : Fixes) (evs : List (Scope × VEv)) (m : Sem) (o x : String) :
    (Sem.run fx evs m).dfn o x = lastDefn o x evs (m.dfn o x) := by
  induction evs generalizing m with
  | nil => rfl
  | cons e evs ih =>
    rw [Sem.run_cons, ih]
    obtain ⟨sc, ev⟩ := e
    cases sc <;> cases ev <;> simp only [Sem.apply, lastDefn]
    · split <;> rfl

end PyGql.Validate

/-
  The extracted tables of `lexer.py` (Generated/LexTables.lean) denote the character classes of the
  specification (Spec/Lexical.lean). These lemmas are re-checked against the tables on every run.
-/
import PyGqlModel.Lex
import PyGqlModel.Spec.Lexical

namespace PyGql.Lex
open PyGql.Generated.LexTables
open PyGql.Spec.Lexical

theorem contains_false_of_lt {l : List Nat} {b c : Nat} (hl : ∀ x ∈ l, x < b) (hc : b ≤ c) :
    l.contains c = false := by
  rw [Bool.eq_false_iff]
  intro h
  have := hl c (by simpa using h)
  omega

theorem lookup_none_of_lt {β} {l : List (Nat × β)} {b c : Nat} (hl : ∀ p ∈ l, p.1 < b) (hc : b ≤ c) :
    l.lookup c = none := by
  induction l with
  | nil => rfl
  | cons p ps ih =>
    have hp := hl p (by simp)
    have : (c == p.1) = false := by simp; omega
    obtain ⟨k, v⟩ := p
    simp only [List.lookup, this]
    exact ih (fun q hq => hl q (by simp [hq]))

theorem isDigit_spec (c : Nat) : Lex.isDigit c = Spec.Lexical.isDigit c := by
  by_cases h : c < 128
  · revert c; decide
  · rw [Lex.isDigit, contains_false_of_lt (b := 128) (by decide) (by omega)]
    simp [Spec.Lexical.isDigit]; omega

theorem isHex_spec (c : Nat) : Lex.isHex c = Spec.Lexical.isHexDigit c := by
  by_cases h : c < 128
  · revert c; decide
  · rw [Lex.isHex, contains_false_of_lt (b := 128) (by decide) (by omega)]
    simp [Spec.Lexical.isHexDigit, Spec.Lexical.isDigit]; omega

theorem isLetter_spec (c : Nat) : Lex.isLetter c = Spec.Lexical.isLetter c := by
  by_cases h : c < 128
  · revert c; decide
  · rw [Lex.isLetter, contains_false_of_lt (b := 128) (by decide) (by omega)]
    simp [Spec.Lexical.isLetter]; omega

theorem isNameStart_spec (c : Nat) : Lex.isNameStart c = Spec.Lexical.isNameStart c := by
  simp [Lex.isNameStart, Spec.Lexical.isNameStart, isLetter_spec]

theorem isNameChar_spec (c : Nat) : Lex.isNameChar c = Spec.Lexical.isNameCont c := by
  simp [Lex.isNameChar, Spec.Lexical.isNameCont, Spec.Lexical.isNameStart, isLetter_spec, isDigit_spec]

theorem isIgnored_spec (c : Nat) : Lex.isIgnored c = Spec.Lexical.isIgnoredChar c := by
  rw [Bool.eq_iff_iff]
  simp [Lex.isIgnored, ignoredChars, Spec.Lexical.isIgnoredChar]
  omega

theorem isPrintable_spec (c : Nat) :
    Lex.isPrintable c = (Spec.Lexical.isSourceChar c && !Spec.Lexical.isLineTerm c) := by
  rw [Bool.eq_iff_iff]
  simp [Lex.isPrintable, Spec.Lexical.isSourceChar, Spec.Lexical.isLineTerm]
  omega

theorem isCommentChar_spec (c : Nat) : Lex.isCommentChar c = Spec.Lexical.isCommentChar c := by
  rw [Bool.eq_iff_iff]
  simp [Lex.isCommentChar, Lex.isPrintable, Spec.Lexical.isCommentChar, Spec.Lexical.isSourceChar,
    Spec.Lexical.isLineTerm]
  omega

/-- `QUOTED_CHARS` is the EscapedCharacter table of the specification -/
theorem quoted_spec (e : Nat) : Lex.quoted e = Spec.Lexical.escapedCharacter e := by
  by_cases h : e < 128
  · revert e; decide
  · rw [Lex.quoted, lookup_none_of_lt (b := 128) (by decide) (by omega)]
    unfold Spec.Lexical.escapedCharacter
    repeat (split; omega)
    rfl

/-- `SYMBOLS` maps exactly the one-character punctuators to their token kinds -/
theorem symbolKind_spec (c : Nat) (k : TokKind) :
    Lex.symbolKind c = some k ↔ Spec.Lexical.punctuator k = some [c] := by
  by_cases h : c < 128
  · cases k <;> (revert c; decide)
  · rw [Lex.symbolKind, lookup_none_of_lt (b := 128) (by decide) (by omega)]
    cases k <;> simp [Spec.Lexical.punctuator, TokKind.constText] <;> omega

theorem hexVal_spec (c : Nat) : Lex.hexVal c = Spec.Lexical.hexValue c := by
  unfold Lex.hexVal Spec.Lexical.hexValue
  simp only [Spec.Lexical.isDigit, Bool.and_eq_true, decide_eq_true_eq]
  split
  · rfl
  · split
    · have : ¬ (65 ≤ c ∧ c ≤ 70) := by omega
      simp [this]
    · rfl

theorem isHex_iff_hexVal (c : Nat) : Lex.isHex c = (Lex.hexVal c).isSome := by
  rw [isHex_spec, Bool.eq_iff_iff]
  unfold Lex.hexVal
  simp only [Spec.Lexical.isHexDigit, Spec.Lexical.isDigit, Bool.or_eq_true, Bool.and_eq_true, decide_eq_true_eq]
  split
  · simp; omega
  · split
    · simp; omega
    · split
      · simp; omega
      · simp; omega

/-- `chr(int(escape, 16))` on four hex digits is EscapedUnicode -/
theorem hex4_spec (a b c d : Nat) : Lex.hex4 a b c d = Spec.Lexical.escapedUnicode a b c d := by
  unfold Lex.hex4 Spec.Lexical.escapedUnicode
  simp only [isHex_iff_hexVal, ← hexVal_spec]
  cases ha : Lex.hexVal a <;> cases hb : Lex.hexVal b <;> cases hc : Lex.hexVal c <;>
    cases hd : Lex.hexVal d <;> simp
  omega

end PyGql.Lex

/-
  Arguments and directives: the printed form lexes to the canonical yield (one layer above values).
-/
import PyGqlModel.Lemmas.PrintTokens
namespace PyGql.PrintTokens
open PyGql PyGql.Ast PyGql.Parse PyGql.Spec PyGql.Print PyGql.PrintLex PyGql.PrintMatch PyGql.PrintString

theorem lexesTo_atSign {r cs} (h : LexesTo r cs) : LexesTo (64 :: r) ((.atSign, []) :: cs) :=
  lexesTo_punct (by decide) (by decide) (by decide) (by decide) rfl h
theorem lexesTo_parenL {r cs} (h : LexesTo r cs) : LexesTo (40 :: r) ((.parenL, []) :: cs) :=
  lexesTo_punct (by decide) (by decide) (by decide) (by decide) rfl h
theorem lexesTo_parenR {r cs} (h : LexesTo r cs) : LexesTo (41 :: r) ((.parenR, []) :: cs) :=
  lexesTo_punct (by decide) (by decide) (by decide) (by decide) rfl h

def lexOkArgument (ind : Text) (a : Argument) : Prop :=
  Spec.Lexical.isName a.name.value = true ∧ lexOkValue ind a.value
def lexOkArguments (ind : Text) : List Argument → Prop
  | [] => True
  | a :: as => lexOkArgument ind a ∧ lexOkArguments ind as
def lexOkDirective (ind : Text) (d : Directive) : Prop :=
  Spec.Lexical.isName d.name.value = true ∧ lexOkArguments ind d.arguments
def lexOkDirectives (ind : Text) : List Directive → Prop
  | [] => True
  | d :: ds => lexOkDirective ind d ∧ lexOkDirectives ind ds

theorem lexesTo_argument (c : Cfg) (a : Argument) (h : lexOkArgument c.indent a) (r : Text) (cs : List TokClass)
    (hr : Safe r) (hl : LexesTo r cs) : LexesTo (printArgument c a ++ r) ((argumentV a).yield ++ cs) := by
  have h1 := lexesTo_value c a.value h.2 r cs hr hl
  have h2 := lexesTo_name h.1 (safe_cons (c := 58) (by decide)) (lexesTo_colon (lexesTo_space h1))
  simpa [printArgument, argumentV, nameV, Item.yield, Item.yieldAll] using h2

theorem lexesTo_argumentList (c : Cfg) : ∀ (as : List Argument), lexOkArguments c.indent as →
    ∀ (r : Text) (cs : List TokClass), Safe r → LexesTo r cs →
    LexesTo (joinSep [44, 32] (as.map (printArgument c)) ++ r) (Item.yieldAll (as.map argumentV) ++ cs)
  | [], _, r, cs, _, hl => by simpa [joinSep, Item.yieldAll] using hl
  | [a], h, r, cs, hr, hl => by
    simpa [joinSep, Item.yieldAll] using lexesTo_argument c a h.1 r cs hr hl
  | a :: a' :: as, h, r, cs, hr, hl => by
    have ih := lexesTo_argumentList c (a' :: as) h.2 r cs hr hl
    have h1 := lexesTo_argument c a h.1 _ _ (safe_cons (c := 44) (by decide)) (lexesTo_comma (lexesTo_space ih))
    simpa [joinSep, Item.yieldAll] using h1

theorem printArgument_ne (c : Cfg) (as : List Argument) : ∀ x ∈ as.map (printArgument c), x ≠ [] := by
  intro x hx
  simp only [List.mem_map] at hx
  obtain ⟨a, _, rfl⟩ := hx
  simp [printArgument]

theorem joinSep_ne_nil (sep : Text) (xs : List Text) (hne : xs ≠ []) (h : ∀ x ∈ xs, x ≠ []) : joinSep sep xs ≠ [] := by
  match xs, hne with
  | [x], _ => simpa [joinSep] using h x (by simp)
  | x :: y :: ys, _ =>
    have := h x (by simp)
    simp [joinSep, this]

/-- `print_arguments` lexes to `Arguments? = ( Argument+ )` -/
theorem lexesTo_arguments (c : Cfg) (as : List Argument) (h : lexOkArguments c.indent as) (r : Text)
    (cs : List TokClass) (hr : Safe r) (hl : LexesTo r cs) :
    LexesTo (printArguments c as ++ r) (Item.yieldAll (argumentsV as) ++ cs) := by
  cases as with
  | nil => simpa [printArguments, join, joinSep, wrap, argumentsV, groupV, Item.yieldAll] using hl
  | cons a as =>
    have hj := join_eq_joinSep _ [44, 32] (printArgument_ne c (a :: as))
    have hne := joinSep_ne_nil [44, 32] ((a :: as).map (printArgument c)) (by simp) (printArgument_ne c (a :: as))
    have h1 := lexesTo_argumentList c (a :: as) h (41 :: r) ((.parenR, []) :: cs) (safe_cons (by decide)) (lexesTo_parenR hl)
    have h2 := lexesTo_parenL h1
    have hw : wrap [40] (joinSep [44, 32] ((a :: as).map (printArgument c))) [41] =
        [40] ++ joinSep [44, 32] ((a :: as).map (printArgument c)) ++ [41] := by
      unfold wrap
      cases hh : joinSep [44, 32] ((a :: as).map (printArgument c)) with
      | nil => exact absurd hh hne
      | cons x y => simp
    rw [printArguments, hj, hw]
    simpa [argumentsV, groupV, Item.yieldAll, yieldAll_append, Item.yield] using h2

/-- `print_directive` lexes to `@ Name Arguments?` -/
theorem lexesTo_directive (c : Cfg) (d : Directive) (h : lexOkDirective c.indent d) (r : Text)
    (cs : List TokClass) (hr : Safe r) (hl : LexesTo r cs) :
    LexesTo (printDirective c d ++ r) ((directiveV d).yield ++ cs) := by
  have h1 := lexesTo_arguments c d.arguments h.2 r cs hr hl
  have hs : Safe (printArguments c d.arguments ++ r) := by
    cases hd : d.arguments with
    | nil => simpa [printArguments, join, joinSep, wrap] using hr
    | cons a as =>
      have hj := join_eq_joinSep _ [44, 32] (printArgument_ne c (a :: as))
      have hne := joinSep_ne_nil [44, 32] ((a :: as).map (printArgument c)) (by simp) (printArgument_ne c (a :: as))
      rw [printArguments, hj]
      unfold wrap
      cases hh : joinSep [44, 32] ((a :: as).map (printArgument c)) with
      | nil => exact absurd hh hne
      | cons x y => exact safe_cons (by decide)
  have h2 := lexesTo_atSign (lexesTo_name h.1 hs h1)
  simpa [printDirective, directiveV, nameV, Item.yield, Item.yieldAll, yieldAll_append] using h2

theorem printDirective_ne (c : Cfg) (ds : List Directive) : ∀ x ∈ ds.map (printDirective c), x ≠ [] := by
  intro x hx
  simp only [List.mem_map] at hx
  obtain ⟨a, _, rfl⟩ := hx
  simp [printDirective]

theorem lexesTo_directiveList (c : Cfg) : ∀ (ds : List Directive), lexOkDirectives c.indent ds →
    ∀ (r : Text) (cs : List TokClass), Safe r → LexesTo r cs →
    LexesTo (joinSep [32] (ds.map (printDirective c)) ++ r) (Item.yieldAll (directivesV ds) ++ cs)
  | [], _, r, cs, _, hl => by simpa [joinSep, directivesV, Item.yieldAll] using hl
  | [d], h, r, cs, hr, hl => by
    simpa [joinSep, directivesV, Item.yieldAll] using lexesTo_directive c d h.1 r cs hr hl
  | d :: d' :: ds, h, r, cs, hr, hl => by
    have ih := lexesTo_directiveList c (d' :: ds) h.2 r cs hr hl
    have h1 := lexesTo_directive c d h.1 _ _ (safe_cons (c := 32) (by decide)) (lexesTo_space ih)
    simpa [joinSep, directivesV, Item.yieldAll] using h1

/-- `print_directives` lexes to `Directives? = Directive+` -/
theorem lexesTo_directives (c : Cfg) (ds : List Directive) (h : lexOkDirectives c.indent ds) (r : Text)
    (cs : List TokClass) (hr : Safe r) (hl : LexesTo r cs) :
    LexesTo (printDirectives c ds ++ r) (Item.yieldAll (directivesV ds) ++ cs) := by
  rw [printDirectives, join_eq_joinSep _ _ (printDirective_ne c ds)]
  exact lexesTo_directiveList c ds h r cs hr hl

end PyGql.PrintTokens

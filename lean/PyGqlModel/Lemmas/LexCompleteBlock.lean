/-
  Completeness of `_read_block_string` against `Spec.Lexical.blockStringRaw`.
-/
import PyGqlModel.Lemmas.LexCompleteNum

namespace PyGql.Lex
open PyGql.Spec.Lexical

theorem bsc_len3 (k : Nat) (body raw : Text) (h : blockStringCharacters k body = some raw) : k + 3 ≤ body.length := by
  fun_induction blockStringCharacters k body generalizing raw with
  | case1 => cases h
  | case2 k c t ih =>
    simp only [Option.map_eq_some_iff] at h
    obtain ⟨w, hw, _⟩ := h
    have := ih w hw
    simp; omega
  | case3 c t hp hl => simp [hl]
  | case4 => cases h
  | case5 c t hnp hesc ih => have := ih raw h; simp; omega
  | case6 => cases h
  | case7 c t hnp hesc hsrc ih =>
    simp only [Option.map_eq_some_iff] at h
    obtain ⟨w, hw, _⟩ := h
    have := ih w hw
    simp; omega

theorem blockChar_of_source (c : Nat) (h : ¬ (!isSourceChar c) = true) :
    (!(Lex.isPrintable c || c == 10 || c == 13)) = false := by
  simp [Lex.isPrintable, isSourceChar] at h ⊢
  omega

theorem readBlockBody_complete (n k : Nat) (body raw r : Text) (h : blockStringCharacters k body = some raw) :
    readBlockBody n k (body ++ r) = .ok (raw, r) := by
  fun_induction blockStringCharacters k body generalizing raw with
  | case1 => cases h
  | case2 k c t ih =>
    simp only [Option.map_eq_some_iff] at h
    obtain ⟨w, hw, rfl⟩ := h
    simp [readBlockBody, ih w hw]
  | case3 c t hp hl =>
    simp only [Option.some.injEq] at h; subst h
    obtain ⟨u, hu⟩ := tq_prefix_eq (c :: t) hp
    simp only [List.cons.injEq] at hu
    obtain ⟨rfl, rfl⟩ := hu
    have hu0 : u = [] := by simpa using hl
    subst hu0
    simp [readBlockBody, tq, List.isPrefixOf]
  | case4 => cases h
  | case5 c t hnp hesc ih =>
    obtain ⟨rfl, hq⟩ := hesc
    have := ih raw h
    have hq' : tq.isPrefixOf (t ++ r) = true := tq_prefix_append t r hq
    rw [List.cons_append, readBlockBody]
    simp only [tq, List.isPrefixOf, Nat.reduceBEq, Bool.false_and, Bool.false_eq_true, ↓reduceIte, decide_true,
      Bool.true_and]
    have hq'' : ([34, 34, 34] : Text).isPrefixOf (t ++ r) = true := hq'
    simp only [hq'', ↓reduceIte]
    exact this
  | case6 => cases h
  | case7 c t hnp hesc hsrc ih =>
    simp only [Option.map_eq_some_iff] at h
    obtain ⟨w, hw, rfl⟩ := h
    have hlen := bsc_len3 0 t w hw
    have h1 : tq.isPrefixOf (c :: (t ++ r)) = false := by
      have := tq_prefix_append_len (c :: t) r (by simp; omega)
      rw [List.cons_append] at this
      rw [this]; exact (Bool.not_eq_true _).mp hnp
    have h2 : (decide (c = 92) && tq.isPrefixOf (t ++ r)) = false := by
      rw [tq_prefix_append_len t r (by omega)]
      cases hd : decide (c = 92) with
      | false => rfl
      | true =>
        have hc : c = 92 := of_decide_eq_true hd
        cases hq : tq.isPrefixOf t with
        | false => rfl
        | true => exact absurd ⟨hc, hq⟩ hesc
    have h3 := blockChar_of_source c hsrc
    rw [List.cons_append, readBlockBody]
    simp only [h1, h2, h3, Bool.false_eq_true, ↓reduceIte, ih w hw]

/-- `next` on a complete block-string lexeme -/
theorem next_block_lexeme (n : Nat) (lex r raw : Text) (h : blockStringRaw lex = some raw) :
    next n (lex ++ r) = .ok (⟨.blockString, posAt n (lex ++ r), posAt n r, BlockString.parseBlockString raw⟩, some r) := by
  unfold blockStringRaw at h
  split at h
  · rename_i hp
    obtain ⟨body, rfl⟩ := tq_prefix_eq lex hp
    simp only [List.drop_succ_cons, List.drop_zero] at h
    have hbody := readBlockBody_complete n 0 body raw r h
    have hi : Lex.isIgnored 34 = false := by decide
    have hpr : Lex.isPrintable 34 = true := by decide
    have hs : symbolKind 34 = none := by decide
    have hX : readOverWhitespace false (34 :: 34 :: 34 :: body ++ r) = 34 :: 34 :: 34 :: body ++ r :=
      row_stop _ (by simp [tokenStart, startsWith, hi])
    unfold next
    rw [hX]
    simp [hpr, hs, tq, List.isPrefixOf, readBlockString, hbody, Except.map]
  · cases h

end PyGql.Lex

/-
  `OverlappingFieldsCanBeMergedChecker`, soundness half with fragment spreads, part 3: chasing fragment pairs through
  the memo (at a fixed height of the conflict derivation), selection sets, and the conclusion: certificates for
  every selection set + a closed memo ⇒ the clause.
-/
import PyGqlModel.Lemmas.ValidateOverlapCertUse
namespace PyGql.Validate
open PyGql PyGql.Validate.Spec

section
variable {s : SchemaD} {d : Doc} {M : Memo}
variable (hpa : ParentsAgree s d) (hne : AL.get? (fragTable d) "" = none)
  (hK : ∀ k, M k → KeyObl s d M k)
  (hW : ∀ i sels, SelSet d i sels → ∀ p, Adm s d i p → WithinCert s d M p sels)

def BfP (s : SchemaD) (d : Doc) (n k1 k2 : Nat) : Prop :=
  ∀ g rn e1 e2 me, CollFH s d k1 g rn e1 → CollFH s d k2 g rn e2 → ¬ ConfH s d n me e1 e2
def ChP (s : SchemaD) (d : Doc) (M : Memo) (n k1 k2 : Nat) : Prop :=
  ∀ g1 g2 me rn e1 e2, CovS M me g1 g2 → CollFH s d k1 g1 rn e1 → CollFH s d k2 g2 rn e2 → ¬ ConfH s d n me e1 e2

theorem relaxF {n : Nat} {me : Bool} {e1 e2 : FEntry} (h : ConfH s d n me e1 e2) : ConfH s d n false e1 e2 :=
  h.relax false (fun h => by cases h)

include hpa hW in
/-- two fields of one fragment -/
theorem bfP_of (n : Nat) (hA : LvA s d M n) (hSelf : LvSelf s d n) (k1 k2 : Nat)
    (hC : ∀ a b, a + b + 2 ≤ k1 + k2 → ChP s d M n a b) : BfP s d n k1 k2 := by
  intro g rn e1 e2 me h1 h2 hconf
  have hconf := relaxF hconf
  cases h1 with
  | here t1 a1 c1 =>
    cases h2 with
    | here t2 a2 c2 =>
      rw [t1] at t2; cases t2
      rw [hpa _ _ _ a2 a1] at c2
      have hs := fragTable_selSet t1
      by_cases he : e1 = e2
      · subst he; exact hSelf _ (ent_of_collD hs a1 c1) hconf
      · rcases (hW _ _ hs _ a1).direct _ _ _ c1 c2 he with hc | hc
        · exact hA _ _ _ (ent_of_collD hs a1 c1) (ent_of_collD hs a1 c2) hc hconf
        · exact hA _ _ _ (ent_of_collD hs a1 c2) (ent_of_collD hs a1 c1) hc hconf.symm
    | there t2 sp2 r2 =>
      rw [t1] at t2; cases t2
      have hs := fragTable_selSet t1
      exact hA _ _ _ (ent_of_collD hs a1 c1) (ent_of_collFH r2)
        ((hW _ _ hs _ a1).frag _ sp2 _ _ _ c1 (collFH_collF r2)) hconf
  | @there k1' _ _ g1' _ _ _ _ t1 sp1 r1 =>
    cases h2 with
    | here t2 a2 c2 =>
      rw [t1] at t2; cases t2
      have hs := fragTable_selSet t1
      exact hA _ _ _ (ent_of_collD hs a2 c2) (ent_of_collFH r1)
        ((hW _ _ hs _ a2).frag _ sp1 _ _ _ c2 (collFH_collF r1)) hconf.symm
    | @there k2' _ _ g2' _ _ _ _ t2 sp2 r2 =>
      rw [t1] at t2; cases t2
      have hs := fragTable_selSet t1
      obtain ⟨p, hp⟩ : ∃ p, Adm s d _ p := ⟨_, Adm.frag t1⟩
      exact hC k1' k2' (by omega) _ _ _ _ _ _ ((hW _ _ hs _ hp).frags _ _ sp1 sp2) r1 r2 hconf

theorem collFH_defined {k : Nat} {g rn : String} {e : FEntry} (h : CollFH s d k g rn e) :
    (AL.get? (fragTable d) g).isSome = true := by
  cases h with
  | here t _ _ => rw [t]; rfl
  | there t _ _ => rw [t]; rfl

theorem sortedPair_cases (a b : String) : sortedPair a b = (a, b) ∨ sortedPair a b = (b, a) := by
  unfold sortedPair; split <;> simp

include hne hK in
/-- two fields of a covered pair of fragments, first orientation of `Cov` -/
theorem chP_oriented (n : Nat) (hA : LvA s d M n) (k1 k2 : Nat) (hB : BfP s d n k1 k2)
    (hC : ∀ a b, a + b < k1 + k2 → ChP s d M n a b)
    (g1 g2 : String) (me : Bool) (rn : String) (e1 e2 : FEntry) (hcov : Cov M me g1 g2)
    (h1 : CollFH s d k1 g1 rn e1) (h2 : CollFH s d k2 g2 rn e2) : ¬ ConfH s d n me e1 e2 := by
  intro hconf
  rcases hcov with rfl | rfl | rfl | hm
  · have := collFH_defined h1; rw [hne] at this; cases this
  · have := collFH_defined h2; rw [hne] at this; cases this
  · exact hB _ _ _ _ _ h1 h2 hconf
  · have ko := hK _ hm
    -- the obligations of the key, with the two fragments in the order (g1, g2)
    have obl : (∀ rn e1 e2, DirF s d g1 rn e1 → DirF s d g2 rn e2 → Cert s d M me e1 e2 ∨ Cert s d M me e2 e1) ∧
        (∀ h, SprF d g1 h → CovS M me h g2) ∧ (∀ h, SprF d g2 h → CovS M me g1 h) := by
      rcases sortedPair_cases g1 g2 with hsp | hsp
      · simp only [keyOf, hsp] at ko
        exact ko (collFH_defined h1) (collFH_defined h2)
      · simp only [keyOf, hsp] at ko
        obtain ⟨o1, o2, o3⟩ := ko (collFH_defined h2) (collFH_defined h1)
        exact ⟨fun rn e1 e2 d1 d2 => (o1 rn e2 e1 d2 d1).symm, fun h hh => (o3 h hh).symm, fun h hh => (o2 h hh).symm⟩
    obtain ⟨o1, o2, o3⟩ := obl
    cases h1 with
    | here t1 a1 c1 =>
      cases h2 with
      | here t2 a2 c2 =>
        have en1 := ent_of_collD (fragTable_selSet t1) a1 c1
        have en2 := ent_of_collD (fragTable_selSet t2) a2 c2
        rcases o1 _ _ _ ⟨_, _, _, _, t1, a1, c1⟩ ⟨_, _, _, _, t2, a2, c2⟩ with hc | hc
        · exact hA _ _ _ en1 en2 hc hconf
        · exact hA _ _ _ en2 en1 hc hconf.symm
      | @there k2' _ _ h _ _ _ _ t2 sp2 r2 =>
        exact hC k1 k2' (by omega) _ _ _ _ _ _ (o3 h ⟨_, _, _, t2, sp2⟩) (.here t1 a1 c1) r2 hconf
    | @there k1' _ _ h _ _ _ _ t1 sp1 r1 =>
      exact hC k1' k2 (by omega) _ _ _ _ _ _ (o2 h ⟨_, _, _, t1, sp1⟩) r1 h2 hconf

include hpa hne hK hW in
/-- **fragment pairs chased through the memo**, all path lengths -/
theorem lvChase_of (n : Nat) (hA : LvA s d M n) (hSelf : LvSelf s d n) : LvChase s d M n := by
  have key : ∀ m k1 k2, k1 + k2 ≤ m → BfP s d n k1 k2 ∧ ChP s d M n k1 k2 := by
    intro m
    induction m using Nat.strongRecOn with
    | _ m ih =>
      have hCh : ∀ a b, a + b < m → ChP s d M n a b := fun a b hab => (ih (a + b) hab a b (Nat.le_refl _)).2
      have hBf : ∀ k1 k2, k1 + k2 ≤ m → BfP s d n k1 k2 := fun k1 k2 hk =>
        bfP_of hpa hW n hA hSelf k1 k2 (fun a b hab => hCh a b (by omega))
      intro k1 k2 hk
      refine ⟨hBf k1 k2 hk, ?_⟩
      intro g1 g2 me rn e1 e2 hcov h1 h2
      rcases hcov with hcov | hcov
      · exact chP_oriented hne hK n hA k1 k2 (hBf k1 k2 hk) (fun a b hab => hCh a b (by omega)) g1 g2 me rn e1 e2 hcov h1 h2
      · intro hconf
        exact chP_oriented hne hK n hA k2 k1 (hBf k2 k1 (by omega)) (fun a b hab => hCh a b (by omega))
          g2 g1 me rn e2 e1 hcov h2 h1 hconf.symm
  intro k1 k2 g1 g2 me rn e1 e2 hcov h1 h2
  exact (key (k1 + k2) k1 k2 (Nat.le_refl _)).2 g1 g2 me rn e1 e2 hcov h1 h2

include hW in
/-- two fields of one selection set of the document -/
theorem lvSet_of (n : Nat) (hA : LvA s d M n) (hSelf : LvSelf s d n) (hC : LvChase s d M n) : LvSet s d n := by
  intro i sels p rn e1 e2 me hs ha c1 c2 hconf
  have hconf := relaxF hconf
  have W := hW i sels hs p ha
  rcases c1 with c1 | ⟨g1, sp1, y1⟩ <;> rcases c2 with c2 | ⟨g2, sp2, y2⟩
  · by_cases he : e1 = e2
    · subst he; exact hSelf _ (ent_of_collD hs ha c1) hconf
    · rcases W.direct _ _ _ c1 c2 he with hc | hc
      · exact hA _ _ _ (ent_of_collD hs ha c1) (ent_of_collD hs ha c2) hc hconf
      · exact hA _ _ _ (ent_of_collD hs ha c2) (ent_of_collD hs ha c1) hc hconf.symm
  · exact hA _ _ _ (ent_of_collD hs ha c1) (ent_of_collF y2) (W.frag _ sp2 _ _ _ c1 y2) hconf
  · exact hA _ _ _ (ent_of_collD hs ha c2) (ent_of_collF y1) (W.frag _ sp1 _ _ _ c2 y1) hconf.symm
  · obtain ⟨k1, z1⟩ := collF_collFH y1
    obtain ⟨k2, z2⟩ := collF_collFH y2
    exact hC k1 k2 _ _ _ _ _ _ (W.frags _ _ sp1 sp2) z1 z2 hconf

include hpa hne hK hW in
theorem levels (n : Nat) : LvA s d M n ∧ LvSelf s d n ∧ LvChase s d M n ∧ LvSet s d n := by
  induction n with
  | zero =>
    have a := lvA_zero (s := s) (d := d) (M := M)
    have b := lvSelf_zero (s := s) (d := d)
    have c := lvChase_of hpa hne hK hW 0 a b
    exact ⟨a, b, c, lvSet_of hW 0 a b c⟩
  | succ n ih =>
    obtain ⟨a0, _, c0, s0⟩ := ih
    have a := lvA_step hpa n a0 c0
    have b := lvSelf_step hpa n s0
    have c := lvChase_of hpa hne hK hW (n + 1) a b
    exact ⟨a, b, c, lvSet_of hW (n + 1) a b c⟩

include hpa hne hK hW in
/-- **certificates suffice** -/
theorem clause_of_certs : Spec.overlappingFieldsCanBeMerged s d := by
  intro i sels hs p ha rn e1 e2 c1 c2 hconf
  obtain ⟨n, hn⟩ := conf_confH hconf
  exact (levels hpa hne hK hW n).2.2.2 i sels p rn e1 e2 false hs ha c1 c2 hn

end
end PyGql.Validate

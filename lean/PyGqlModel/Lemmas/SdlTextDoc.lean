/-
  C12 text level — directive definitions, the schema block, and the whole printed text.
-/
import PyGqlModel.Lemmas.SdlTextDefs
namespace PyGql.SdlText
open PyGql PyGql.Ast PyGql.Sdl PyGql.Spec PyGql.PrintLex PyGql.PrintTokens PyGql.PrintMatch PyGql.PrintString PyGql.SdlPrint PyGql.Parse

private theorem e_directive : T "directive @" = K.directive ++ [32, 64] := by decide
private theorem e_on : T " on " = 32 :: (K.on ++ [32]) := by decide
private theorem e_schema : T "schema" = K.schema := by decide

theorem lay_locations (ns : List String) (h : ∀ n ∈ ns, nameOK n = true) :
    Lay (SdlPrintT.joinSep [32, 124, 32] (ns.map T)) (Item.yieldAll (sepV .pipe nameV (ns.map nameOf))) := by
  let ps : List LP := ns.map fun n => (T n, (nameV (nameOf n)).yield)
  have hps : ∀ p ∈ ps, Lay p.1 p.2 := by
    intro p hp; simp only [ps, List.mem_map] at hp; obtain ⟨n, hn, rfl⟩ := hp
    exact lay_nameOf n (h n hn)
  have l1 := lay_joinSep [32, 124, 32] [(.pipe, [])] sep_pipe' (fun b => delimHead_cons (by decide)) ps hps
  have ef : ps.map Prod.fst = ns.map T := by simp [ps, List.map_map, Function.comp_def]
  have ey : joinCls [(.pipe, [])] ps = Item.yieldAll (sepV .pipe nameV (ns.map nameOf)) := by
    rw [yieldAll_sepV_gen .pipe nameV (fun n => n.value) (ns.map nameOf)]
    simp [ps, List.map_map, Function.comp_def, nameOf]
  rw [ef, ey, ← joinSep_eq] at l1
  exact l1

theorem lay_printDirectiveDefinition (s : SchemaD) (o : SdlPrintT.OptsT) (d : DirectiveD) (hn : nameOK d.name = true)
    (hdesc : DescPart (SdlPrintT.printDescription o d.desc) (Item.yieldAll (descV (descOf (descToDoc d.desc)))))
    (hargs : ArgsPart s o d.args 0) (hl : ∀ n ∈ d.locations, nameOK n = true) :
    Lay (SdlPrintT.printDirectiveDefinition s o d)
      (definitionV (.directiveDefinition (descOf (descToDoc d.desc)) (nameOf d.name)
        (d.args.map fun a => inputValOf (argToDef s a)) (d.locations.map nameOf) none)).yield := by
  have kD : Spec.Lexical.isName K.directive = true := by decide
  have kO : Spec.Lexical.isName K.on = true := by decide
  have l1 := lay_space_cons (lay_append (lay_name kO) (lay_space_cons (lay_locations d.locations hl)) (delimHead_cons (by decide)))
  have l2 := lay_append (lay_nameOf d.name hn) (lay_append hargs.1 l1 (delimHead_cons (by decide)))
    (delimHead_append hargs.2 (delimHead_cons (by decide)))
  have l3 := lay_append (lay_name kD) (lay_space_cons (lay_atSign l2)) (delimHead_cons (by decide))
  have l := lay_desc_then hdesc l3
  simpa [SdlPrintT.printDirectiveDefinition, e_directive, e_on, definitionV, kw, nameV, Item.yield, Item.yieldAll,
    PrintMatch.yieldAll_append, List.append_assoc] using l

/-! ### the schema block -/

theorem rootLines_eq (o : SdlPrintT.OptsT) (s : SchemaD) :
    SdlPrintT.rootLines o s = (rootOps s).map fun p => o.indent ++ (T p.1 ++ 58 :: 32 :: T p.2) := by
  have e1 : T "query: " = T "query" ++ [58, 32] := by decide
  have e2 : T "mutation: " = T "mutation" ++ [58, 32] := by decide
  have e3 : T "subscription: " = T "subscription" ++ [58, 32] := by decide
  unfold SdlPrintT.rootLines rootOps
  cases s.query <;> cases s.mutation <;> cases s.subscription <;> simp [e1, e2, e3, List.append_assoc]

theorem mem_rootOps (s : SchemaD) (p : String × String) : p ∈ rootOps s →
    (∃ q, s.query = some q ∧ p = ("query", q)) ∨ (∃ q, s.mutation = some q ∧ p = ("mutation", q)) ∨
    (∃ q, s.subscription = some q ∧ p = ("subscription", q)) := by
  intro hp
  unfold rootOps at hp
  simp only [List.mem_append] at hp
  rcases hp with (hp | hp) | hp
  · cases hq : s.query with
    | none => rw [hq] at hp; cases hp
    | some q => rw [hq] at hp; simp at hp; exact Or.inl ⟨q, rfl, hp⟩
  · cases hq : s.mutation with
    | none => rw [hq] at hp; cases hp
    | some q => rw [hq] at hp; simp at hp; exact Or.inr (Or.inl ⟨q, rfl, hp⟩)
  · cases hq : s.subscription with
    | none => rw [hq] at hp; cases hp
    | some q => rw [hq] at hp; simp at hp; exact Or.inr (Or.inr ⟨q, rfl, hp⟩)

theorem rootOps_ops (s : SchemaD) : ∀ p ∈ rootOps s, p.1 = "query" ∨ p.1 = "mutation" ∨ p.1 = "subscription" := by
  intro p hp
  rcases mem_rootOps s p hp with ⟨q, _, rfl⟩ | ⟨q, _, rfl⟩ | ⟨q, _, rfl⟩ <;> simp

theorem rootOps_names (s : SchemaD) (hq : rootOKT s.query = true) (hm : rootOKT s.mutation = true)
    (hs : rootOKT s.subscription = true) : ∀ p ∈ rootOps s, nameOK p.2 = true := by
  intro p hp
  rcases mem_rootOps s p hp with ⟨q, h, rfl⟩ | ⟨q, h, rfl⟩ | ⟨q, h, rfl⟩
  · rw [h] at hq; exact hq
  · rw [h] at hm; exact hm
  · rw [h] at hs; exact hs

theorem lay_printSchemaDefinition (o : SdlPrintT.OptsT) (hind : Blank o.indent) (s : SchemaD)
    (hq : rootOKT s.query = true) (hm : rootOKT s.mutation = true) (hs : rootOKT s.subscription = true)
    (hne : rootOps s ≠ []) :
    Lay (T "schema" ++ SdlPrintT.braces (SdlPrintT.rootLines o s))
      (definitionV (.schemaDefinition [] ((rootOps s).map opTypeOf) none)).yield := by
  have kS : Spec.Lexical.isName K.schema = true := by decide
  have hops := rootOps_ops s
  have hnames := rootOps_names s hq hm hs
  have hline : ∀ i : Nat, ∀ p ∈ rootOps s, Lay (o.indent ++ (T p.1 ++ 58 :: 32 :: T p.2)) (operationTypeV (opTypeOf p)).yield := by
    intro _ p hp
    have hop : Spec.Lexical.isName (T p.1) = true := by
      rcases hops p hp with h | h | h <;> rw [h] <;> decide
    have l := lay_blank_prefix hind (lay_append (lay_name hop) (lay_colon (lay_space_cons (lay_nameOf p.2 (hnames p hp))))
      (delimHead_cons (by decide)))
    simpa [operationTypeV, opTypeOf, namedOf, namedTypeV, nameOf, nameV, kw, Item.yield, Item.yieldAll] using l
  have lb := lay_braces (fun (_ : Nat) (p : String × String) => o.indent ++ (T p.1 ++ 58 :: 32 :: T p.2))
    (fun p => operationTypeV (opTypeOf p)) (fun _ l => l.map fun p => o.indent ++ (T p.1 ++ 58 :: 32 :: T p.2))
    (fun _ => rfl) (fun _ _ _ => rfl) (rootOps s) hne hline
  have hemp : (rootOps s).isEmpty = false := by cases h : rootOps s with | nil => exact absurd h hne | cons _ _ => rfl
  have l := lay_append (lay_name kS) lb (delimHead_braces _)
  rw [rootLines_eq, e_schema]
  simpa [definitionV, kw, directivesV, blockV, hemp, Item.yield, Item.yieldAll, PrintMatch.yieldAll_append, List.map_map,
    Function.comp_def] using l


theorem printDirectiveDefinition_ne (s : SchemaD) (o : SdlPrintT.OptsT) (d : DirectiveD) :
    SdlPrintT.printDirectiveDefinition s o d ≠ [] := by
  unfold SdlPrintT.printDirectiveDefinition
  simp [e_directive, K.directive]

/-! ### the whole text -/

/-- the schema is in the order the printer writes it -/
def InPrintOrder (s : SchemaD) : Prop :=
  sortBy (·.name) s.directives = s.directives ∧ sortBy (·.name) s.types = s.types

/-- the tree of one definition of the denoted document (total on what `schemaToDoc` produces) -/
def defTree : Def → Definition
  | .type t => typeDefOf t
  | .ext t => typeExtOf t
  | .directive d => .directiveDefinition (descOf d.desc) (nameOf d.name) (d.args.map inputValOf) (d.locations.map nameOf) none
  | .schema s => .schemaDefinition (s.dirs.map dirOf) (s.ops.map opTypeOf) none
  | .schemaExt s => .schemaExtension (s.dirs.map dirOf) (s.ops.map opTypeOf) none
  | .other => .schemaExtension [] [] none

theorem docToAst_schemaToDoc (s : SchemaD) : docToAst (schemaToDoc s) = some ⟨(schemaToDoc s).map defTree, none⟩ := by
  have h : ∀ doc : Doc, (∀ x ∈ doc, defOf x = some (defTree x)) → doc.mapM defOf = some (doc.map defTree) := by
    intro doc
    induction doc with
    | nil => intro _; rfl
    | cons x xs ih =>
      intro hx
      simp [List.mapM_cons, hx x (by simp), ih (fun y hy => hx y (by simp [hy]))]
  have hall : ∀ x ∈ schemaToDoc s, defOf x = some (defTree x) := by
    intro x hx
    simp only [schemaToDoc, List.mem_append, List.mem_map] at hx
    rcases hx with (hx | ⟨d, _, rfl⟩) | ⟨t, _, rfl⟩
    · split at hx
      · simp only [List.mem_singleton] at hx; subst hx; rfl
      · cases hx
    · rfl
    · rfl
  simp [docToAst, h _ hall]

/-- the text parts and token classes of the printed schema, in order -/
def schemaPairs (o : SdlPrintT.OptsT) (s : SchemaD) : List LP :=
  (if needsSchemaBlock s then [(T "schema" ++ SdlPrintT.braces (SdlPrintT.rootLines o s),
      (definitionV (defTree (.schema { ops := rootOps s }))).yield)] else []) ++
  s.directives.map (fun d => (SdlPrintT.printDirectiveDefinition s o d, (definitionV (defTree (.directive (directiveToDef s d)))).yield)) ++
  s.types.map (fun t => (SdlPrintT.printType s o t, (definitionV (defTree (.type (typeToDef s t)))).yield))

theorem schemaPairs_snd (o : SdlPrintT.OptsT) (s : SchemaD) :
    (schemaPairs o s).flatMap Prod.snd = Item.yieldAll (((schemaToDoc s).map defTree).map definitionV) := by
  rw [yieldAll_map]
  unfold schemaPairs schemaToDoc
  split <;> simp [List.flatMap_append, List.flatMap_map, List.map_append, List.map_map, Function.comp_def]

theorem printSchemaT_eq (o : SdlPrintT.OptsT) (s : SchemaD) (hs : InPrintOrder s)
    (hne : schemaPairs o s ≠ []) :
    SdlPrintT.printSchemaT o s = Print.joinSep [10, 10] ((schemaPairs o s).map Prod.fst) ++ [10] := by
  have hfilter : (SdlPrintT.printSchemaDefinition o s ::
      (s.directives.map (SdlPrintT.printDirectiveDefinition s o) ++ s.types.map (SdlPrintT.printType s o))).filter
        (fun p => !p.isEmpty) = (schemaPairs o s).map Prod.fst := by
    have hd : (s.directives.map (SdlPrintT.printDirectiveDefinition s o)).filter (fun p => !p.isEmpty) =
        s.directives.map (SdlPrintT.printDirectiveDefinition s o) := by
      rw [List.filter_eq_self]; intro x hx; simp only [List.mem_map] at hx; obtain ⟨d, _, rfl⟩ := hx
      have := printDirectiveDefinition_ne s o d
      cases h : SdlPrintT.printDirectiveDefinition s o d with | nil => exact absurd h this | cons _ _ => rfl
    have ht : (s.types.map (SdlPrintT.printType s o)).filter (fun p => !p.isEmpty) = s.types.map (SdlPrintT.printType s o) := by
      rw [List.filter_eq_self]; intro x hx; simp only [List.mem_map] at hx; obtain ⟨d, _, rfl⟩ := hx
      have := printType_ne s o d
      cases h : SdlPrintT.printType s o d with | nil => exact absurd h this | cons _ _ => rfl
    unfold schemaPairs SdlPrintT.printSchemaDefinition
    split
    · simp [List.filter_cons, List.filter_append, hd, ht, e_schema, K.schema, List.map_map, Function.comp_def]
    · simp [List.filter_cons, List.filter_append, hd, ht, List.map_map, Function.comp_def]
  have : ((schemaPairs o s).map Prod.fst).isEmpty = false := by
    cases h : schemaPairs o s with | nil => exact absurd h hne | cons _ _ => rfl
  unfold SdlPrintT.printSchemaT
  simp only [hs.1, hs.2, joinSep_eq, List.cons_append]
  rw [hfilter]
  simp [this]

/-- the printed schema lexes to the token classes of its definitions -/
theorem lexesTo_printSchemaT (o : SdlPrintT.OptsT) (s : SchemaD) (hs : InPrintOrder s) (hne : schemaPairs o s ≠ [])
    (h : ∀ p ∈ schemaPairs o s, Lay p.1 p.2) :
    LexesTo (SdlPrintT.printSchemaT o s) (Item.yieldAll (((schemaToDoc s).map defTree).map definitionV)) := by
  have l1 := lay_joinSep [10, 10] [] (fun b cb hb => by simpa using lay_lf_cons (lay_lf_cons hb))
    (fun b => delimHead_cons (by decide)) _ h
  rw [joinCls_nil, schemaPairs_snd] at l1
  have l2 := lay_append l1 (lay_lf_cons lay_nil) (delimHead_cons (by decide))
  have := lexesTo_of_lay l2 [] [] safe_nil lexesTo_nil
  rw [printSchemaT_eq o s hs hne]
  simpa using this

end PyGql.SdlText

/-
  `OverlappingFieldsCanBeMergedChecker`, soundness half with fragment spreads, part 5: the set of compared fragments
  (`cmp`) is left as found by every search function except `_conflicts_between_fields_and_fragment`, which only adds
  to it. Unconditional (crash or not), by induction on the fuel.
-/
import PyGqlModel.Lemmas.ValidateOverlapPost
namespace PyGql.Validate
open PyGql PyGql.Validate.Spec

theorem sumLoop_inv {α} (xs : List α) (f : α → OCtx → Nat × OCtx) (R : OCtx → OCtx → Prop)
    (hrefl : ∀ c, R c c) (htrans : ∀ a b c, R a b → R b c → R a c)
    (hf : ∀ x ∈ xs, ∀ c, R c (f x c).2) (c : OCtx) : R c (sumLoop xs f c).2 := by
  unfold sumLoop
  have key : ∀ (ys : List α) (acc : Nat × OCtx), (∀ x ∈ ys, x ∈ xs) →
      R acc.2 (ys.foldl (fun (acc : Nat × OCtx) x =>
        if acc.2.crash.isSome then acc else ((acc.1 + (f x acc.2).1, (f x acc.2).2) : Nat × OCtx)) acc).2 := by
    intro ys
    induction ys with
    | nil => intro acc _; exact hrefl _
    | cons y ys ih =>
      intro acc hsub
      rw [List.foldl_cons]
      have hys : ∀ x ∈ ys, x ∈ xs := fun x hx => hsub x (List.mem_cons_of_mem _ hx)
      by_cases hcr : acc.2.crash.isSome = true
      · rw [if_pos hcr]; exact ih acc hys
      · rw [if_neg hcr]
        exact htrans _ _ _ (hf y (hsub y (List.mem_cons_self ..)) acc.2) (ih (acc.1 + (f y acc.2).1, (f y acc.2).2) hys)
  exact key xs (0, c) (fun _ h => h)

theorem sumLoop_cmp_eq {α} (xs : List α) (f : α → OCtx → Nat × OCtx) (hf : ∀ x ∈ xs, ∀ c, (f x c).2.cmp = c.cmp)
    (c : OCtx) : (sumLoop xs f c).2.cmp = c.cmp :=
  sumLoop_inv xs f (fun a b => b.cmp = a.cmp) (fun _ => rfl) (fun _ _ _ h1 h2 => h2.trans h1) hf c

theorem sumLoop_cmp_mono {α} (xs : List α) (f : α → OCtx → Nat × OCtx)
    (hf : ∀ x ∈ xs, ∀ c, ∀ n ∈ c.cmp, n ∈ (f x c).2.cmp) (c : OCtx) : ∀ n ∈ c.cmp, n ∈ (sumLoop xs f c).2.cmp :=
  sumLoop_inv xs f (fun a b => ∀ n ∈ a.cmp, n ∈ b.cmp) (fun _ _ h => h) (fun _ _ _ h1 h2 n hn => h2 n (h1 n hn)) hf c

theorem withFreshCmp_cmp (f : OCtx → Nat × OCtx) (c : OCtx) : (withFreshCmp f c).2.cmp = c.cmp := rfl

section
variable (s : SchemaD) (fx : Fixes)

def KFind (fuel : Nat) : Prop := ∀ pme f1 f2 c, (findConflict s fx fuel pme f1 f2 c).2.cmp = c.cmp
def KCb (fuel : Nat) : Prop := ∀ me fm1 fm2 c, (conflictsBetween s fx fuel me fm1 fm2 c).2.cmp = c.cmp
def KFr (fuel : Nat) : Prop := ∀ me of1 of2 c, (betweenFragments s fx fuel me of1 of2 c).2.cmp = c.cmp
def KSs (fuel : Nat) : Prop :=
  ∀ me p1 id1 sels1 p2 id2 sels2 c, (betweenSubselections s fx fuel me p1 id1 sels1 p2 id2 sels2 c).2.cmp = c.cmp
def KFf (fuel : Nat) : Prop :=
  ∀ me ssid fm name c, ∀ n ∈ c.cmp, n ∈ (betweenFieldsAndFragment s fx fuel me ssid fm name c).2.cmp

theorem cmp_frames (h7 : fx.v7 = true) : ∀ fuel, KFind s fx fuel ∧ KCb s fx fuel ∧ KFr s fx fuel ∧ KSs s fx fuel ∧ KFf s fx fuel := by
  intro fuel
  induction fuel with
  | zero =>
    refine ⟨?_, ?_, ?_, ?_, ?_⟩
    · intro pme f1 f2 c; simp only [findConflict]
    · intro me fm1 fm2 c; simp only [conflictsBetween]
    · intro me of1 of2 c; simp only [betweenFragments]
    · intro me p1 id1 sels1 p2 id2 sels2 c; simp only [betweenSubselections]
    · intro me ssid fm name c n hn; simp only [betweenFieldsAndFragment]; exact hn
  | succ fuel ih =>
    obtain ⟨i1, i2, i3, i4, i5⟩ := ih
    refine ⟨?_, ?_, ?_, ?_, ?_⟩
    · intro pme f1 f2 c
      simp only [findConflict]
      repeat' split
      all_goals first | rfl | exact i4 _ _ _ _ _ _ _ c
    · intro me fm1 fm2 c
      simp only [conflictsBetween]
      apply sumLoop_cmp_eq
      intro q _ c
      split
      · rfl
      · apply sumLoop_cmp_eq
        intro f1 _ c
        apply sumLoop_cmp_eq
        intro f2 _ c
        exact i1 me f1 f2 c
    · intro me of1 of2 c
      cases of1 with
      | none => simp only [betweenFragments]
      | some f1 =>
        cases of2 with
        | none => simp only [betweenFragments]
        | some f2 =>
          simp only [betweenFragments, h7, ↓reduceIte]
          split
          · rfl
          · split
            · rfl
            · split
              · rename_i on1 id1 sels1 on2 id2 sels2 _ _
                rw [sumLoop_cmp_eq _ _ (fun fr _ c => i3 me (some f1) (some fr) c),
                  sumLoop_cmp_eq _ _ (fun fr _ c => i3 me (some fr) (some f2) c), i2,
                  (ff_frame s _ id2 sels2 _).2.1, (ff_frame s _ id1 sels1 _).2.1]
              · rfl
    · intro me p1 id1 sels1 p2 id2 sels2 c
      simp only [betweenSubselections]
      rw [sumLoop_cmp_eq _ _ (fun f1 _ c => sumLoop_cmp_eq _ _ (fun f2 _ c => i3 me (some f1) (some f2) c) c),
        sumLoop_cmp_eq _ _ (fun fr _ c => withFreshCmp_cmp _ c),
        sumLoop_cmp_eq _ _ (fun fr _ c => withFreshCmp_cmp _ c), i2,
        (ff_frame s p2 id2 sels2 _).2.1, (ff_frame s p1 id1 sels1 _).2.1]
    · intro me ssid fm name c n hn
      simp only [betweenFieldsAndFragment]
      split
      · exact hn
      · split
        · exact List.mem_cons_of_mem _ hn
        · rename_i on fid fsels _
          split
          · rw [(ff_frame s _ fid fsels _).2.1]; exact List.mem_cons_of_mem _ hn
          · apply sumLoop_cmp_mono _ _ (fun fr _ c => i5 me ssid fm fr c)
            rw [i2, (ff_frame s _ fid fsels _).2.1]
            exact List.mem_cons_of_mem _ hn

end
end PyGql.Validate

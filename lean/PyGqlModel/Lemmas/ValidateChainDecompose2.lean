/-
  THE VERDICT OF A CHAIN IS THE CONJUNCTION OF ITS MEMBERS RUN ALONE, part 2: one node of the traversal, and the
  combinators the visit functions are made of (`GoodW`: monotone in the error count, keeps the errors among the members'
  names, and keeps every member's lone run related to the chain as long as one side adds no error).
-/
import PyGqlModel.Lemmas.ValidateChainDecompose
import PyGqlModel.Lemmas.ValidateWalk
namespace PyGql.Validate
open PyGql

/-- the chain made of rule `r` alone (same schema, same variant of the fixes) -/
def Cfg.only (c : Cfg) (r : Rule) : Cfg := { schema := c.schema, fixes := c.fixes, rules := [r] }

/-- the state of the chain and the state of rule `r` run alone -/
def Rel (r : Rule) (st st' : St) : Prop := st.ti = st'.ti ∧ RelRS r st.rs st'.rs

/-- every recorded error belongs to a member of the chain -/
def ErrsIn (c : Cfg) (st : St) : Prop := ∀ x ∈ st.rs.errs, x ∈ c.rules

theorem enterPar_unfold (er : ER) (c : Cfg) (n : Node) (st : St) :
    enterPar er c n st =
      ({ ti := tiEnter c.schema n st.ti, rs := (enterRulesPar er c n (tiEnter c.schema n st.ti) c.rules st.rs).1 },
       (enterRulesPar er c n (tiEnter c.schema n st.ti) c.rules st.rs).2) := by
  simp only [enterPar]

theorem enterRulesPar_only (er : ER) (c : Cfg) (r : Rule) (n : Node) (ti : TI) (b : RS) :
    enterRulesPar er (c.only r) n ti [r] b = ((er c.schema c.fixes r n ti b).1, (er c.schema c.fixes r n ti b).2) := by
  rw [enterRulesPar_cons]
  simp [enterRulesPar, Cfg.only]

theorem visitNodePar_noSkip {er : ER} {c : Cfg} {n : Node} {body : St → St} {st : St} (h : (enterPar er c n st).2 = false) :
    visitNodePar er c n body st = leavePar er c n (body (enterPar er c n st).1) := by
  unfold visitNodePar
  revert h
  generalize enterPar er c n st = p
  obtain ⟨a, b⟩ := p
  intro h
  simp only at h
  subst h
  simp

theorem visitNodePar_skip {er : ER} {c : Cfg} {n : Node} {body : St → St} {st : St} (h : (enterPar er c n st).2 = true) :
    visitNodePar er c n body st = leaveSkippedPar er c n st (enterPar er c n st).1 := by
  unfold visitNodePar
  revert h
  generalize enterPar er c n st = p
  obtain ⟨a, b⟩ := p
  intro h
  simp only at h
  subst h
  simp

section
variable {er : ER} (F : Framed er) (c : Cfg) (n : Node)
include F

theorem enterPar_mono (st : St) : E st ≤ E (enterPar er c n st).1 := by
  rw [enterPar_unfold]; exact enterRulesPar_mono F c n _ c.rules st.rs

theorem enterPar_skip_lt (st : St) (h : (enterPar er c n st).2 = true) : E st < E (enterPar er c n st).1 := by
  rw [enterPar_unfold] at h ⊢; exact enterRulesPar_skip_lt F c n _ c.rules st.rs h

theorem enterPar_errsIn (st : St) (h : ErrsIn c st) : ErrsIn c (enterPar er c n st).1 := by
  rw [enterPar_unfold]; exact enterRulesPar_errsIn F c n _ c.rules c.rules st.rs (fun _ h => h) h

omit F in
theorem leavePar_mono (st : St) : E st ≤ E (leavePar er c n st) := by
  unfold leavePar E; exact leaveFold_mono _ _ _ _ _ _

omit F in
theorem leaveSkippedPar_mono (st0 st1 : St) : E st1 ≤ E (leaveSkippedPar er c n st0 st1) := by
  unfold leaveSkippedPar E; exact leaveFold_mono _ _ _ _ _ _

omit F in
theorem leavePar_errsIn (st : St) (h : ErrsIn c st) : ErrsIn c (leavePar er c n st) := by
  unfold leavePar ErrsIn
  exact leaveFold_errsIn _ _ _ _ c.rules _ _ (fun r hr => List.mem_reverse.mp hr) h

omit F in
theorem leaveSkippedPar_errsIn (st0 st1 : St) (h : ErrsIn c st1) : ErrsIn c (leaveSkippedPar er c n st0 st1) := by
  unfold leaveSkippedPar ErrsIn
  exact leaveFold_errsIn _ _ _ _ c.rules _ _
    (fun r hr => (List.mem_filter.mp (List.mem_reverse.mp hr)).1) h

/-- a node over which the chain adds no error is skipped by no member -/
theorem quiet_not_skipped (body : St → St) (st : St) (h : E (visitNodePar er c n body st) = E st) :
    (enterPar er c n st).2 = false := by
  cases hs : (enterPar er c n st).2
  · rfl
  · exfalso
    rw [visitNodePar_skip hs] at h
    have := enterPar_skip_lt F c n st hs
    have := leaveSkippedPar_mono (er := er) c n st (enterPar er c n st).1
    omega

theorem enterPar_rel (hnd : c.rules.Nodup) {r : Rule} (hr : r ∈ c.rules) {st st' : St} (h : Rel r st st') :
    Rel r (enterPar er c n st).1 (enterPar er (c.only r) n st').1 := by
  rw [enterPar_unfold, enterPar_unfold]
  refine ⟨by simp only [Cfg.only]; rw [h.1], ?_⟩
  simp only
  have : (c.only r).rules = [r] := rfl
  rw [this, enterRulesPar_only, ← h.1]
  exact (enterRulesPar_rel F c n _ r c.rules _ _ hnd h.2).1 hr

theorem enterPar_flag_iff (hnd : c.rules.Nodup) (st : St) (f : Rule → St) (h : ∀ r ∈ c.rules, Rel r st (f r)) :
    (enterPar er c n st).2 = true ↔ ∃ r ∈ c.rules, (enterPar er (c.only r) n (f r)).2 = true := by
  rw [enterPar_unfold]
  simp only
  rw [enterRulesPar_flag_iff F c n _ c.rules st.rs (fun r => (f r).rs) hnd (fun r hr => (h r hr).2.1)]
  constructor
  · rintro ⟨r, hr, hf⟩
    refine ⟨r, hr, ?_⟩
    rw [enterPar_unfold]
    have : (c.only r).rules = [r] := rfl
    simp only [this, enterRulesPar_only]
    rw [← (h r hr).1]
    exact hf
  · rintro ⟨r, hr, hf⟩
    refine ⟨r, hr, ?_⟩
    rw [enterPar_unfold] at hf
    have : (c.only r).rules = [r] := rfl
    simp only [this, enterRulesPar_only] at hf
    rw [← (h r hr).1] at hf
    exact hf

omit F in
theorem leavePar_rel (hnd : c.rules.Nodup) {r : Rule} (hr : r ∈ c.rules) {st st' : St} (h : Rel r st st') :
    Rel r (leavePar er c n st) (leavePar er (c.only r) n st') := by
  unfold leavePar
  refine ⟨by simp only; rw [h.1], ?_⟩
  simp only
  have : (c.only r).rules = [r] := rfl
  rw [this]
  simp only [List.reverse_cons, List.reverse_nil, List.nil_append, List.foldl_cons, List.foldl_nil, Cfg.only]
  rw [← h.1]
  exact (leaveFold_rel c.schema c.fixes n st.ti r c.rules.reverse _ _ ((List.reverse_perm c.rules).nodup_iff.mpr hnd) h.2).1
    (List.mem_reverse.mpr hr)

end

/-! ### walkers -/

/-- a visit function, for every configuration -/
abbrev Walker := Cfg → St → St

/-- `c st f`: the chain state `st` and the family `f` of lone states are related -/
def RelAll (c : Cfg) (st : St) (f : Rule → St) : Prop := ∀ r ∈ c.rules, Rel r st (f r)

/-- one side adds no error over the visit -/
def Quiet (W : Walker) (c : Cfg) (st : St) (f : Rule → St) : Prop :=
  E (W c st) = E st ∨ ∀ r ∈ c.rules, E (W (c.only r) (f r)) = E (f r)

structure GoodW (W : Walker) : Prop where
  mono : ∀ c st, E st ≤ E (W c st)
  errsIn : ∀ c st, ErrsIn c st → ErrsIn c (W c st)
  sim : ∀ (c : Cfg), c.rules.Nodup → ∀ (st : St) (f : Rule → St), RelAll c st f → Quiet W c st f →
    RelAll c (W c st) (fun r => W (c.only r) (f r))

theorem GoodW.id : GoodW (fun _ st => st) :=
  ⟨fun _ _ => Nat.le_refl _, fun _ _ h => h, fun _ _ _ _ h _ => h⟩

theorem GoodW.comp {W1 W2 : Walker} (h1 : GoodW W1) (h2 : GoodW W2) : GoodW (fun c st => W2 c (W1 c st)) where
  mono c st := Nat.le_trans (h1.mono c st) (h2.mono c _)
  errsIn c st h := h2.errsIn c _ (h1.errsIn c st h)
  sim c hnd st f hrel hq := by
    have q1 : Quiet W1 c st f := by
      rcases hq with hq | hq
      · left
        have a := h1.mono c st
        have b := h2.mono c (W1 c st)
        simp only at hq
        omega
      · right
        intro r hr
        have a := h1.mono (c.only r) (f r)
        have b := h2.mono (c.only r) (W1 (c.only r) (f r))
        have := hq r hr
        simp only at this
        omega
    have r1 := h1.sim c hnd st f hrel q1
    have q2 : Quiet W2 c (W1 c st) (fun r => W1 (c.only r) (f r)) := by
      rcases hq with hq | hq
      · left
        have a := h1.mono c st
        have b := h2.mono c (W1 c st)
        simp only at hq
        omega
      · right
        intro r hr
        have a := h1.mono (c.only r) (f r)
        have b := h2.mono (c.only r) (W1 (c.only r) (f r))
        have := hq r hr
        simp only at this ⊢
        omega
    exact h2.sim c hnd _ _ r1 q2

theorem GoodW.foldl {α : Type} (W : α → Walker) : ∀ (l : List α), (∀ x ∈ l, GoodW (W x)) →
    GoodW (fun c st => l.foldl (fun st x => W x c st) st)
  | [], _ => GoodW.id
  | x :: xs, h => by
    have hx := h x (List.mem_cons_self ..)
    have hxs := GoodW.foldl W xs (fun y hy => h y (List.mem_cons_of_mem _ hy))
    exact GoodW.comp hx hxs

theorem GoodW.ite (b : Bool) {W : Walker} (h : GoodW W) : GoodW (fun c st => if b then W c st else st) := by
  cases b
  · exact GoodW.id
  · exact h

theorem GoodW.node {er : ER} (F : Framed er) (n : Node) {B : Walker} (hB : GoodW B) :
    GoodW (fun c st => visitNodePar er c n (B c) st) where
  mono c st := by
    cases hs : (enterPar er c n st).2
    · simp only [visitNodePar_noSkip hs]
      exact Nat.le_trans (enterPar_mono F c n st) (Nat.le_trans (hB.mono c _) (leavePar_mono c n _))
    · simp only [visitNodePar_skip hs]
      exact Nat.le_trans (enterPar_mono F c n st) (leaveSkippedPar_mono c n st _)
  errsIn c st h := by
    cases hs : (enterPar er c n st).2
    · simp only [visitNodePar_noSkip hs]
      exact leavePar_errsIn c n _ (hB.errsIn c _ (enterPar_errsIn F c n st h))
    · simp only [visitNodePar_skip hs]
      exact leaveSkippedPar_errsIn c n st _ (enterPar_errsIn F c n st h)
  sim c hnd st f hrel hq := by
    -- nobody skips
    have hall : (enterPar er c n st).2 = false ∧ ∀ r ∈ c.rules, (enterPar er (c.only r) n (f r)).2 = false := by
      have hiff := enterPar_flag_iff F c n hnd st f hrel
      rcases hq with hq | hq
      · have h0 := quiet_not_skipped F c n (B c) st hq
        refine ⟨h0, fun r hr => ?_⟩
        cases hk : (enterPar er (c.only r) n (f r)).2
        · rfl
        · rw [hiff.mpr ⟨r, hr, hk⟩] at h0; cases h0
      · have hr0 : ∀ r ∈ c.rules, (enterPar er (c.only r) n (f r)).2 = false := fun r hr =>
          quiet_not_skipped F (c.only r) n (B (c.only r)) (f r) (hq r hr)
        refine ⟨?_, hr0⟩
        cases hk : (enterPar er c n st).2
        · rfl
        · obtain ⟨r, hr, h1⟩ := hiff.mp hk
          rw [hr0 r hr] at h1; cases h1
    obtain ⟨h0, hr0⟩ := hall
    have hrel1 : RelAll c (enterPar er c n st).1 (fun r => (enterPar er (c.only r) n (f r)).1) :=
      fun r hr => enterPar_rel F c n hnd hr (hrel r hr)
    have hq1 : Quiet B c (enterPar er c n st).1 (fun r => (enterPar er (c.only r) n (f r)).1) := by
      rcases hq with hq | hq
      · left
        simp only [visitNodePar_noSkip h0] at hq
        have a := enterPar_mono F c n st
        have b := hB.mono c (enterPar er c n st).1
        have d := leavePar_mono (er := er) c n (B c (enterPar er c n st).1)
        omega
      · right
        intro r hr
        have := hq r hr
        simp only [visitNodePar_noSkip (hr0 r hr)] at this
        have a := enterPar_mono F (c.only r) n (f r)
        have b := hB.mono (c.only r) (enterPar er (c.only r) n (f r)).1
        have d := leavePar_mono (er := er) (c.only r) n (B (c.only r) (enterPar er (c.only r) n (f r)).1)
        simp only
        omega
    have hrel2 := hB.sim c hnd _ _ hrel1 hq1
    intro r hr
    simp only [visitNodePar_noSkip h0, visitNodePar_noSkip (hr0 r hr)]
    exact leavePar_rel c n hnd hr (hrel2 r hr)

end PyGql.Validate

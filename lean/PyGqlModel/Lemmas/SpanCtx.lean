/-
  Re-parsing a spanned text INSIDE A MINIMAL CONTEXT: the tilings of `{ σ⏎}`, `{ a σ⏎}` and `σ⏎scalar A` obtained from the
  tiling of `σ`, and the matcher on a plain solid node followed by anything (moved up by the length of the prefix).
-/
import PyGqlModel.Lemmas.LexWrap
import PyGqlModel.Lemmas.SpanShiftUp
import PyGqlModel.Lemmas.SpanSlice
namespace PyGql.Ast
/-- the span of a selection / of a selection set -/
def Selection.loc : Selection → Loc
  | .field _ _ _ _ _ loc => loc
  | .fragmentSpread _ _ loc => loc
  | .inlineFragment _ _ _ loc => loc
def SelectionSet.loc : SelectionSet → Loc
  | .mk _ loc => loc
end PyGql.Ast

namespace PyGql.Spec
open PyGql PyGql.Ast PyGql.Parse PyGql.Spec.Lexical

/-! ### `up` keeps the shape of an item -/

mutual
theorem lead_up (d : Nat) : ∀ i : Item, (i.up d).lead = i.lead
  | .tok _ _ => rfl
  | .optTok _ _ => rfl
  | .nla _ => rfl
  | .node _ is => by simp only [Item.up, Item.lead]; exact leadAll_up d is
theorem leadAll_up (d : Nat) : ∀ is : List Item, Item.leadAll (Item.upAll d is) = Item.leadAll is
  | [] => rfl
  | i :: is => by simp only [Item.upAll, Item.leadAll, lead_up d i, leadAll_up d is]
end

mutual
theorem solid_up (d : Nat) : ∀ i : Item, (i.up d).solid = i.solid
  | .tok _ _ => rfl
  | .optTok _ _ => rfl
  | .nla _ => rfl
  | .node _ is => by simp only [Item.up, Item.solid, leadAll_up, solidAll_up d is]
theorem solidAll_up (d : Nat) : ∀ is : List Item, Item.solidAll (Item.upAll d is) = Item.solidAll is
  | [] => rfl
  | i :: is => by simp only [Item.upAll, Item.solidAll, solid_up d i, solidAll_up d is]
end

mutual
theorem plain_up (d : Nat) : ∀ i : Item, (i.up d).plain = i.plain
  | .tok _ _ => rfl
  | .optTok _ _ => rfl
  | .nla _ => rfl
  | .node _ is => by simp only [Item.up, Item.plain, plainAll_up d is]
theorem plainAll_up (d : Nat) : ∀ is : List Item, Item.plainAll (Item.upAll d is) = Item.plainAll is
  | [] => rfl
  | i :: is => by simp only [Item.upAll, Item.plainAll, plain_up d i, plainAll_up d is]
end

/-! ### the matcher: a plain solid node, moved up, followed by anything -/

/-- `SOF j0 EOF` matches `SOF seg EOF` (what `item_slice` gives for the spanned text of a node). Then, for a plain node,
    `j0` moved up by `d` matches `seg` moved up by `d` whatever precedes and follows; the last token consumed is the
    last token of `seg`, and the node's own span is (start of the first, end of the last token of `seg`). -/
theorem ctx_check (fl : Flags) (loc : Loc) (is : List Item) (seg : List Tok) (n : Nat)
    (hs : (Item.node loc is).solid = true) (hp : (Item.node loc is).plain = true)
    (hc : Item.checkAll fl [p .sof, .node loc is, p .eof] default (Lex.sofTok :: (seg ++ [eofT n])) = some (eofT n, [])) :
    ∃ f tl l1, seg = f :: tl ∧ loc = locOf fl f l1 ∧
      ∀ d l rest2, ((Item.node loc is).up d).check fl l (seg.map (Tok.up d) ++ rest2) = some (l1.up d, rest2) := by
  rw [checkAll_cons] at hc
  obtain ⟨l0, ts0, h0, hc⟩ := hc
  rw [check_tok] at h0
  obtain ⟨t0, e0, _, rfl⟩ := h0
  simp only [List.cons.injEq] at e0
  obtain ⟨rfl, rfl⟩ := e0
  rw [checkAll_cons] at hc
  obtain ⟨l1, ts1, h1, hc⟩ := hc
  rw [checkAll_cons] at hc
  obtain ⟨l2, ts2, h2, hc⟩ := hc
  rw [checkAll_nil] at hc
  rw [check_tok] at h2
  obtain ⟨te, rfl, hte, rfl⟩ := h2
  simp only [Prod.mk.injEq] at hc
  obtain ⟨rfl, rfl⟩ := hc
  -- `j0` consumes exactly `seg`
  obtain ⟨pre, hpre, _⟩ := check_free fl _ _ _ _ _ hs hp h1
  have hseg : pre = seg := (List.append_cancel_right hpre).symm
  subst hseg
  have hld : (Item.node loc is).lead = true := by
    simp only [Item.solid, Bool.and_eq_true] at hs; simpa [Item.lead] using hs.1
  have hlt := check_lead fl _ _ _ _ _ hld h1
  have h1' := h1
  rw [check_node] at h1'
  obtain ⟨f, tl, e, _, hloc⟩ := h1'
  cases pre with
  | nil => simp at hlt
  | cons f' tl' =>
    simp only [List.cons_append, List.cons.injEq] at e
    obtain ⟨rfl, _⟩ := e
    refine ⟨f', tl', l1, rfl, hloc, ?_⟩
    intro d l rest2
    have hu := check_up fl d _ _ _ _ _ h1
    have hs' : ((Item.node loc is).up d).solid = true := by rw [solid_up]; exact hs
    have hp' : ((Item.node loc is).up d).plain = true := by rw [plain_up]; exact hp
    obtain ⟨pre2, hpre2, hfree⟩ := check_free fl _ _ _ _ _ hs' hp' hu
    rw [List.map_append] at hpre2
    have : pre2 = (f' :: tl').map (Tok.up d) := (List.append_cancel_right hpre2).symm
    subst this
    have h3 := hfree rest2
    have h4 := check_last_indep fl _ _ _ _ _ hs' h3 l
    rw [if_neg (by simp; omega)] at h4
    exact h4

/-! ### small facts about the views used by the context theorems -/

theorem selectionV_node (sel : Selection) : ∃ is, selectionV sel = .node sel.loc is := by
  cases sel <;> exact ⟨_, rfl⟩

theorem selectionSetV_node (ss : SelectionSet) : ∃ is, selectionSetV ss = .node ss.loc is := by
  cases ss; exact ⟨_, rfl⟩

theorem wfDirective_weaken (c : Bool) (dir : Directive) (h : wfDirective c dir = true) : wfDirective false dir = true := by
  simp only [wfDirective, List.all_eq_true] at h ⊢
  intro x hx
  exact wfValue_of_const c _ (h x hx)

theorem wfArgument_weaken (c : Bool) (arg : Argument) (h : wfArgument c arg = true) : wfArgument false arg = true :=
  wfValue_of_const c _ h

/-! ### tilings of the contexts -/

private theorem lexeme_curlyL : Lexeme .curlyL [123] [123] := ⟨rfl, rfl⟩
private theorem lexeme_curlyR : Lexeme .curlyR [125] [125] := ⟨rfl, rfl⟩

/-- `}` as a text of its own -/
theorem tiles_close : Tiles 1 [125] [⟨.curlyR, 0, 1, [125]⟩, eofT 1] :=
  Tiles.tok [] [125] [] .curlyR [125] [eofT 1] .nil lexeme_curlyR trivial (.eof [] .nil)

theorem Tiles.cast {n n' : Nat} {s s' : Text} {toks toks' : List Tok} (h : Tiles n s toks) (hn : n = n') (hs : s = s')
    (ht : toks = toks') : Tiles n' s' toks' := by subst hn hs ht; exact h

theorem tok_eq {k : TokKind} {v : Text} {a b a' b' : Nat} (ha : a = a') (hb : b = b') :
    (⟨k, a, b, v⟩ : Tok) = ⟨k, a', b', v⟩ := by subst ha hb; rfl

/-- `{ σ⏎}` -/
theorem tiles_braces {n : Nat} {σ : Text} {seg : List Tok} (hn : σ.length = n) (h : Tiles n σ (seg ++ [eofT n])) :
    Tiles ([123, 32] ++ σ ++ [10, 125]).length ([123, 32] ++ σ ++ [10, 125])
      (⟨.curlyL, 0, 1, [123]⟩ :: (seg.map (Tok.up 2) ++ [⟨.curlyR, n + 3, n + 4, [125]⟩, eofT (n + 4)])) := by
  have h1 := Tiles.append_after [125] _ tiles_close seg h
  have h2 := h1.up 2 (by simp [hn])
  have h3 := h2.prepend_ign [32] (by decide)
  refine Tiles.cast (Tiles.tok [] [123] _ .curlyL [123] _ .nil lexeme_curlyL trivial h3) ?_ ?_ ?_
  · simp [hn]
  · simp
  · rw [List.map_append]
    refine List.cons_eq_cons.2 ⟨tok_eq (by simp [hn]) (by simp [hn]), ?_⟩
    refine congrArg (List.map (Tok.up 2) seg ++ ·) ?_
    simp only [List.map_cons, List.map_nil, Tok.up, eofT]
    exact List.cons_eq_cons.2 ⟨tok_eq (by omega) (by omega), List.cons_eq_cons.2 ⟨tok_eq (by omega) (by omega), rfl⟩⟩

private theorem lexeme_a : Lexeme .name [97] [97] := ⟨rfl, rfl⟩

/-- `{ a σ⏎}` -/
theorem tiles_field {n : Nat} {σ : Text} {seg : List Tok} (hn : σ.length = n) (h : Tiles n σ (seg ++ [eofT n])) :
    Tiles ([123, 32, 97, 32] ++ σ ++ [10, 125]).length ([123, 32, 97, 32] ++ σ ++ [10, 125])
      (⟨.curlyL, 0, 1, [123]⟩ :: ⟨.name, 2, 3, [97]⟩ ::
        (seg.map (Tok.up 4) ++ [⟨.curlyR, n + 5, n + 6, [125]⟩, eofT (n + 6)])) := by
  have h1 := Tiles.append_after [125] _ tiles_close seg h
  have h2 := h1.up 4 (by simp [hn])
  have h3 := h2.prepend_ign [32] (by decide)
  have h4 := Tiles.tok [32] [97] _ .name [97] _ (.char 32 [] (by decide) .nil) lexeme_a (by rfl) h3
  refine Tiles.cast (Tiles.tok [] [123] _ .curlyL [123] _ .nil lexeme_curlyL trivial h4) ?_ ?_ ?_
  · simp [hn]
  · simp
  · rw [List.map_append]
    refine List.cons_eq_cons.2 ⟨tok_eq (by simp [hn]) (by simp [hn]), ?_⟩
    refine List.cons_eq_cons.2 ⟨tok_eq (by simp [hn]) (by simp [hn]), ?_⟩
    refine congrArg (List.map (Tok.up 4) seg ++ ·) ?_
    simp only [List.map_cons, List.map_nil, Tok.up, eofT]
    exact List.cons_eq_cons.2 ⟨tok_eq (by omega) (by omega), List.cons_eq_cons.2 ⟨tok_eq (by omega) (by omega), rfl⟩⟩

/-- `)}` as a text of its own -/
theorem tiles_close2 : Tiles 2 [41, 125] [⟨.parenR, 0, 1, [41]⟩, ⟨.curlyR, 1, 2, [125]⟩, eofT 2] :=
  Tiles.tok [] [41] [125] .parenR [41] _ .nil ⟨rfl, rfl⟩ trivial
    (Tiles.tok [] [125] [] .curlyR [125] [eofT 2] .nil lexeme_curlyR trivial (.eof [] .nil))

/-- `{ a(σ⏎)}` -/
theorem tiles_args {n : Nat} {σ : Text} {seg : List Tok} (hn : σ.length = n) (h : Tiles n σ (seg ++ [eofT n])) :
    Tiles ([123, 32, 97, 40] ++ σ ++ [10, 41, 125]).length ([123, 32, 97, 40] ++ σ ++ [10, 41, 125])
      (⟨.curlyL, 0, 1, [123]⟩ :: ⟨.name, 2, 3, [97]⟩ :: ⟨.parenL, 3, 4, [40]⟩ ::
        (seg.map (Tok.up 4) ++ [⟨.parenR, n + 5, n + 6, [41]⟩, ⟨.curlyR, n + 6, n + 7, [125]⟩, eofT (n + 7)])) := by
  have h1 := Tiles.append_after [41, 125] _ tiles_close2 seg h
  have h2 := h1.up 4 (by simp [hn])
  have h3 := Tiles.tok [] [40] _ .parenL [40] _ .nil ⟨rfl, rfl⟩ trivial h2
  have h4 := Tiles.tok [32] [97] _ .name [97] _ (.char 32 [] (by decide) .nil) lexeme_a (by rfl) h3
  refine Tiles.cast (Tiles.tok [] [123] _ .curlyL [123] _ .nil lexeme_curlyL trivial h4) ?_ ?_ ?_
  · simp [hn]
  · simp
  · rw [List.map_append]
    refine List.cons_eq_cons.2 ⟨tok_eq (by simp [hn]) (by simp [hn]), ?_⟩
    refine List.cons_eq_cons.2 ⟨tok_eq (by simp [hn]) (by simp [hn]), ?_⟩
    refine List.cons_eq_cons.2 ⟨tok_eq (by simp [hn]) (by simp [hn]), ?_⟩
    refine congrArg (List.map (Tok.up 4) seg ++ ·) ?_
    simp only [List.map_cons, List.map_nil, Tok.up, eofT]
    exact List.cons_eq_cons.2 ⟨tok_eq (by omega) (by omega), List.cons_eq_cons.2 ⟨tok_eq (by omega) (by omega),
      List.cons_eq_cons.2 ⟨tok_eq (by omega) (by omega), rfl⟩⟩⟩

/-- `scalar A` as a text of its own -/
theorem tiles_scalarA : Tiles 8 [115, 99, 97, 108, 97, 114, 32, 65]
    [⟨.name, 0, 6, [115, 99, 97, 108, 97, 114]⟩, ⟨.name, 7, 8, [65]⟩, eofT 8] :=
  Tiles.tok [] [115, 99, 97, 108, 97, 114] [32, 65] .name _ _ .nil ⟨rfl, rfl⟩ (by rfl)
    (Tiles.tok [32] [65] [] .name [65] [eofT 8] (.char 32 [] (by decide) .nil) ⟨rfl, rfl⟩ (by rfl) (.eof [] .nil))

/-- `σ⏎scalar A` -/
theorem tiles_scalar {n : Nat} {σ : Text} {seg : List Tok} (hn : σ.length = n) (h : Tiles n σ (seg ++ [eofT n])) :
    Tiles (σ ++ 10 :: [115, 99, 97, 108, 97, 114, 32, 65]).length (σ ++ 10 :: [115, 99, 97, 108, 97, 114, 32, 65])
      (seg ++ [⟨.name, n + 1, n + 7, [115, 99, 97, 108, 97, 114]⟩, ⟨.name, n + 8, n + 9, [65]⟩, eofT (n + 9)]) := by
  refine Tiles.cast (Tiles.append_after [115, 99, 97, 108, 97, 114, 32, 65] _ tiles_scalarA seg h) ?_ rfl ?_
  · simp [hn]
  · refine congrArg (seg ++ ·) ?_
    simp only [List.map_cons, List.map_nil, Tok.up, eofT]
    exact List.cons_eq_cons.2 ⟨tok_eq (by omega) (by omega), List.cons_eq_cons.2 ⟨tok_eq (by omega) (by omega),
      List.cons_eq_cons.2 ⟨tok_eq (by omega) (by omega), rfl⟩⟩⟩

/-- `){a}` as a text of its own -/
theorem tiles_close_op : Tiles 4 [41, 123, 97, 125]
    [⟨.parenR, 0, 1, [41]⟩, ⟨.curlyL, 1, 2, [123]⟩, ⟨.name, 2, 3, [97]⟩, ⟨.curlyR, 3, 4, [125]⟩, eofT 4] :=
  Tiles.tok [] [41] [123, 97, 125] .parenR [41] _ .nil ⟨rfl, rfl⟩ trivial
    (Tiles.tok [] [123] [97, 125] .curlyL [123] _ .nil lexeme_curlyL trivial
      (Tiles.tok [] [97] [125] .name [97] _ .nil lexeme_a (by rfl)
        (Tiles.tok [] [125] [] .curlyR [125] [eofT 4] .nil lexeme_curlyR trivial (.eof [] .nil))))

/-- `query(σ⏎){a}` -/
theorem tiles_query {n : Nat} {σ : Text} {seg : List Tok} (hn : σ.length = n) (h : Tiles n σ (seg ++ [eofT n])) :
    Tiles ([113, 117, 101, 114, 121, 40] ++ σ ++ [10, 41, 123, 97, 125]).length
      ([113, 117, 101, 114, 121, 40] ++ σ ++ [10, 41, 123, 97, 125])
      (⟨.name, 0, 5, [113, 117, 101, 114, 121]⟩ :: ⟨.parenL, 5, 6, [40]⟩ ::
        (seg.map (Tok.up 6) ++ [⟨.parenR, n + 7, n + 8, [41]⟩, ⟨.curlyL, n + 8, n + 9, [123]⟩, ⟨.name, n + 9, n + 10, [97]⟩,
          ⟨.curlyR, n + 10, n + 11, [125]⟩, eofT (n + 11)])) := by
  have h1 := Tiles.append_after [41, 123, 97, 125] _ tiles_close_op seg h
  have h2 := h1.up 6 (by simp [hn])
  have h3 := Tiles.tok [] [40] _ .parenL [40] _ .nil ⟨rfl, rfl⟩ trivial h2
  refine Tiles.cast (Tiles.tok [] [113, 117, 101, 114, 121] _ .name [113, 117, 101, 114, 121] _ .nil ⟨rfl, rfl⟩ (by rfl) h3)
    ?_ ?_ ?_
  · simp [hn]
  · simp
  · rw [List.map_append]
    refine List.cons_eq_cons.2 ⟨tok_eq (by simp [hn]) (by simp [hn]), ?_⟩
    refine List.cons_eq_cons.2 ⟨tok_eq (by simp [hn]) (by simp [hn]), ?_⟩
    refine congrArg (List.map (Tok.up 6) seg ++ ·) ?_
    simp only [List.map_cons, List.map_nil, Tok.up, eofT]
    exact List.cons_eq_cons.2 ⟨tok_eq (by omega) (by omega), List.cons_eq_cons.2 ⟨tok_eq (by omega) (by omega),
      List.cons_eq_cons.2 ⟨tok_eq (by omega) (by omega), List.cons_eq_cons.2 ⟨tok_eq (by omega) (by omega),
        List.cons_eq_cons.2 ⟨tok_eq (by omega) (by omega), rfl⟩⟩⟩⟩⟩

/-- `k A {σ⏎}` for a keyword `k` (`type`, `input`, `enum`, …) -/
theorem tiles_kwA_block {n : Nat} {σ : Text} {seg : List Tok} (k : Text) (kl : Nat) (hkl : k.length = kl) (hk : isName k = true) (hn : σ.length = n)
    (h : Tiles n σ (seg ++ [eofT n])) :
    Tiles (k ++ [32, 65, 32, 123] ++ σ ++ [10, 125]).length (k ++ [32, 65, 32, 123] ++ σ ++ [10, 125])
      (⟨.name, 0, kl, k⟩ :: ⟨.name, kl + 1, kl + 2, [65]⟩ :: ⟨.curlyL, kl + 3, kl + 4, [123]⟩ ::
        (seg.map (Tok.up (kl + 4)) ++
          [⟨.curlyR, n + kl + 5, n + kl + 6, [125]⟩, eofT (n + kl + 6)])) := by
  subst hkl
  have h1 := Tiles.append_after [125] _ tiles_close seg h
  have h2 := h1.up (k.length + 4) (by simp [hn])
  have h3 := Tiles.tok [32] [123] _ .curlyL [123] _ (.char 32 [] (by decide) .nil) lexeme_curlyL trivial h2
  have h4 := Tiles.tok [32] [65] _ .name [65] _ (.char 32 [] (by decide) .nil) ⟨rfl, rfl⟩ (by rfl) h3
  refine Tiles.cast (Tiles.tok [] k _ .name k _ .nil ⟨hk, rfl⟩ (by rfl) h4) ?_ ?_ ?_
  · first | (simp [hn]; done) | (simp [hn]; omega)
  · simp
  · rw [List.map_append]
    refine List.cons_eq_cons.2 ⟨tok_eq (by first | (simp [hn]; done) | (simp [hn]; omega)) (by first | (simp [hn]; done) | (simp [hn]; omega)), ?_⟩
    refine List.cons_eq_cons.2 ⟨tok_eq (by first | (simp [hn]; done) | (simp [hn]; omega)) (by first | (simp [hn]; done) | (simp [hn]; omega)), ?_⟩
    refine List.cons_eq_cons.2 ⟨tok_eq (by first | (simp [hn]; done) | (simp [hn]; omega)) (by first | (simp [hn]; done) | (simp [hn]; omega)), ?_⟩
    refine congrArg (List.map (Tok.up (k.length + 4)) seg ++ ·) ?_
    simp only [List.map_cons, List.map_nil, Tok.up, eofT]
    exact List.cons_eq_cons.2 ⟨tok_eq (by omega) (by omega), List.cons_eq_cons.2 ⟨tok_eq (by omega) (by omega), rfl⟩⟩

/-- `schema {σ⏎}` -/
theorem tiles_schema_block {n : Nat} {σ : Text} {seg : List Tok} (hn : σ.length = n) (h : Tiles n σ (seg ++ [eofT n])) :
    Tiles ([115, 99, 104, 101, 109, 97, 32, 123] ++ σ ++ [10, 125]).length ([115, 99, 104, 101, 109, 97, 32, 123] ++ σ ++ [10, 125])
      (⟨.name, 0, 6, [115, 99, 104, 101, 109, 97]⟩ :: ⟨.curlyL, 7, 8, [123]⟩ ::
        (seg.map (Tok.up 8) ++ [⟨.curlyR, n + 9, n + 10, [125]⟩, eofT (n + 10)])) := by
  have h1 := Tiles.append_after [125] _ tiles_close seg h
  have h2 := h1.up 8 (by simp [hn])
  have h3 := Tiles.tok [32] [123] _ .curlyL [123] _ (.char 32 [] (by decide) .nil) lexeme_curlyL trivial h2
  refine Tiles.cast (Tiles.tok [] [115, 99, 104, 101, 109, 97] _ .name _ _ .nil ⟨rfl, rfl⟩ (by rfl) h3) ?_ ?_ ?_
  · simp [hn]
  · simp
  · rw [List.map_append]
    refine List.cons_eq_cons.2 ⟨tok_eq (by simp [hn]) (by simp [hn]), ?_⟩
    refine List.cons_eq_cons.2 ⟨tok_eq (by simp [hn]) (by simp [hn]), ?_⟩
    refine congrArg (List.map (Tok.up 8) seg ++ ·) ?_
    simp only [List.map_cons, List.map_nil, Tok.up, eofT]
    exact List.cons_eq_cons.2 ⟨tok_eq (by omega) (by omega), List.cons_eq_cons.2 ⟨tok_eq (by omega) (by omega), rfl⟩⟩

end PyGql.Spec

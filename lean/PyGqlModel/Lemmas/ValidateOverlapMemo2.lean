/-
  The memoised overlap search needs only a bounded recursion depth, part 2: fields against a fragment (the memoised
  call), fragment against fragment, sub-selections; all five by induction on the fuel; the entry point.
-/
import PyGqlModel.Lemmas.ValidateOverlapMemo
import PyGqlModel.Lemmas.ValidateOverlapWalk
namespace PyGql.Validate
open PyGql PyGql.Validate.Spec

section
variable (s : SchemaD) (fx : Fixes) (d : Doc) (ρ : Nat → Nat) (R : Nat)

/-- `_fields_and_fragments` on the body of a fragment of the table -/
theorem ff_syn_frag (hR : RankSyn s d ρ R) {c : OCtx} (hc : c.frags = fragTable d) {name on : String} {fid : Nat}
    {fsels : List Sel} (hg : AL.get? c.frags name = some (on, fid, fsels)) (p : Option String) :
    Good c (fieldsAndFragments s p fid fsels c).2 ∧
    EntOK (fun _ e => EntS s d e) (fieldsAndFragments s p fid fsels c).1.1 ∧
    RkB ρ (R - 2) (fieldsAndFragments s p fid fsels c).1.1 ∧ 2 ≤ R := by
  have hg' : AL.get? (fragTable d) name = some (on, fid, fsels) := by rw [← hc]; exact hg
  have hs := fragTable_selSet hg'
  obtain ⟨a, b, c'⟩ := ff_syn hR p hs c
  have h2 := hR.two _ _ hs
  have hl := hR.le _ _ hs
  refine ⟨a, b, fun q hq e he => ?_, by omega⟩
  have : entryRank ρ e ≤ ρ fid - 2 := c' q hq e he
  show entryRank ρ e ≤ R - 2
  omega

theorem tstep_ff (hR : RankSyn s d ρ R) (fuel : Nat) (hcb : TCb s fx d ρ R fuel) (hff : TFf s fx d ρ R fuel) :
    TFf s fx d ρ R (fuel + 1) := by
  intro me ssid ssels fm name c m hc hs h1 hm hmR hr
  simp only [betweenFieldsAndFragmentM]
  by_cases hcm : c.cmp.contains name = true
  · rw [if_pos hcm]; exact Good.refl c
  · rw [if_neg hcm]
    have g1 : Good c { c with cmp := name :: c.cmp } := ⟨rfl, fun _ h => h, fun _ h => h, rfl⟩
    cases hg : c.frags.get? name with
    | none => exact g1
    | some v =>
      obtain ⟨on, fid, fsels⟩ := v
      simp only
      by_cases hmemo : (ssid, name, me) ∈ c.ffp
      · rw [if_pos hmemo]; exact g1
      · rw [if_neg hmemo]
        have hkey : (ssid, name, me) ∈ keysFF d := mem_keysFF me hs (by rw [← hc]; exact hg)
        have hmu : mu d { c with cmp := name :: c.cmp, ffp := (ssid, name, me) :: c.ffp } + 1 ≤ mu d c :=
          mu_ffp (c := { c with cmp := name :: c.cmp }) hkey hmemo
        have g2 : Good c { c with cmp := name :: c.cmp, ffp := (ssid, name, me) :: c.ffp } :=
          ⟨rfl, fun _ h => List.mem_cons_of_mem _ h, fun _ h => h, rfl⟩
        have hstep := mul_step (W := 2 * R + 7) hmu
        obtain ⟨b1, b2, b3, b4⟩ := ff_syn_frag s d ρ R hR
          (c := { c with cmp := name :: c.cmp, ffp := (ssid, name, me) :: c.ffp }) hc (name := name) hg
          ((typeFromAst s (.named on)).map (·.base))
        generalize fieldsAndFragments s ((typeFromAst s (.named on)).map (·.base)) fid fsels
          { c with cmp := name :: c.cmp, ffp := (ssid, name, me) :: c.ffp } = r at b1 b2 b3 ⊢
        obtain ⟨⟨fm2, fr2⟩, c2⟩ := r
        simp only at b1 b2 b3 ⊢
        by_cases hid : (ssid == fid) = true
        · rw [if_pos hid]; exact g2.trans b1
        · rw [if_neg hid]
          have hm2 := Nat.mul_le_mul_right (2 * R + 7) (b1.mu (d := d))
          have k0 := hcb me fm fm2 c2 m (R - 2) (b1.1.trans hc) h1 b2 hm b3 (by omega)
          have k1 := sumLoop_good fr2 (fun fr c => betweenFieldsAndFragmentM s fx fuel me ssid fm fr c) _
            (fun fr _ c3 g3 => by
              have g : Good c2 c3 := k0.trans g3
              have hm3 := Nat.mul_le_mul_right (2 * R + 7) (g.mu (d := d))
              exact hff me ssid ssels fm fr c3 m ((g.1.trans b1.1).trans hc) hs h1 hm hmR (by omega))
          exact ((g2.trans b1).trans k0).trans k1

theorem tstep_fr (hR : RankSyn s d ρ R) (h7 : fx.v7 = true) (fuel : Nat) (hcb : TCb s fx d ρ R fuel)
    (hfr : TFr s fx d R fuel) : TFr s fx d R (fuel + 1) := by
  intro me f1 f2 c hc hr
  simp only [betweenFragmentsM, h7, ↓reduceIte]
  split
  · exact Good.refl c
  · split
    · exact Good.refl c
    · rename_i hany
      generalize hkey : (sortedPair f1 f2) = key at hany
      have g1 : Good c { c with pairs := (key.1, key.2, me) :: c.pairs } :=
        ⟨rfl, fun _ h => h, fun _ h => List.mem_cons_of_mem _ h, rfl⟩
      cases hg1 : c.frags.get? f1 with
      | none => exact g1
      | some v1 =>
        cases hg2 : c.frags.get? f2 with
        | none => exact g1
        | some v2 =>
          obtain ⟨on1, id1, sels1⟩ := v1
          obtain ⟨on2, id2, sels2⟩ := v2
          simp only
          have hnew : (key.1, key.2, me) ∉ c.pairs := by
            intro hin
            apply hany
            rw [List.any_eq_true]
            exact ⟨_, hin, by simp⟩
          have hk : (key.1, key.2, me) ∈ keysFR d := by
            have e1 : AL.get? (fragTable d) f1 = some (on1, id1, sels1) := by rw [← hc]; exact hg1
            have e2 : AL.get? (fragTable d) f2 = some (on2, id2, sels2) := by rw [← hc]; exact hg2
            rw [← hkey]
            unfold sortedPair
            split
            · exact mem_keysFR me e1 e2
            · exact mem_keysFR me e2 e1
          have hmu := mu_pairs (d := d) (c := c) hk hnew
          have hstep := mul_step (W := 2 * R + 7) hmu
          obtain ⟨a1, a2, a3, a4⟩ := ff_syn_frag s d ρ R hR
            (c := { c with pairs := (key.1, key.2, me) :: c.pairs }) hc (name := f1) hg1
            ((typeFromAst s (.named on1)).map (·.base))
          generalize fieldsAndFragments s ((typeFromAst s (.named on1)).map (·.base)) id1 sels1
            { c with pairs := (key.1, key.2, me) :: c.pairs } = ra at a1 a2 a3 ⊢
          obtain ⟨⟨fma, fra⟩, ca⟩ := ra
          simp only at a1 a2 a3 ⊢
          have hca : ca.frags = fragTable d := a1.1.trans hc
          have hg2' : ca.frags.get? f2 = some (on2, id2, sels2) := by rw [a1.1]; exact hg2
          obtain ⟨b1, b2, b3, _⟩ := ff_syn_frag s d ρ R hR (c := ca) hca (name := f2) hg2'
            ((typeFromAst s (.named on2)).map (·.base))
          generalize fieldsAndFragments s ((typeFromAst s (.named on2)).map (·.base)) id2 sels2 ca = rb at b1 b2 b3 ⊢
          obtain ⟨⟨fmb, frb⟩, cb⟩ := rb
          simp only at b1 b2 b3 ⊢
          have gab : Good { c with pairs := (key.1, key.2, me) :: c.pairs } cb := a1.trans b1
          have hm2 := Nat.mul_le_mul_right (2 * R + 7) (gab.mu (d := d))
          have k0 := hcb me fma fmb cb (R - 2) (R - 2) (gab.1.trans hc) a2 b2 a3 b3 (by omega)
          have k1 := sumLoop_good fra (fun fr c => betweenFragmentsM s fx fuel me (some fr) (some f2) c) _
            (fun fr _ c3 g3 => by
              have g : Good cb c3 := k0.trans g3
              have hm3 := Nat.mul_le_mul_right (2 * R + 7) (g.mu (d := d))
              exact hfr me fr f2 c3 ((g.1.trans gab.1).trans hc) (by omega))
          have k2 := sumLoop_good frb (fun fr c => betweenFragmentsM s fx fuel me (some f1) (some fr) c) _
            (fun fr _ c3 g3 => by
              have g : Good cb c3 := (k0.trans k1).trans g3
              have hm3 := Nat.mul_le_mul_right (2 * R + 7) (g.mu (d := d))
              exact hfr me f1 fr c3 ((g.1.trans gab.1).trans hc) (by omega))
          exact (((g1.trans gab).trans k0).trans k1).trans k2

theorem tstep_ss (hR : RankSyn s d ρ R) (fuel : Nat) (hcb : TCb s fx d ρ R fuel) (hff : TFf s fx d ρ R fuel)
    (hfr : TFr s fx d R fuel) : TSs s fx d ρ R (fuel + 1) := by
  intro me p1 id1 sels1 p2 id2 sels2 c hc s1 s2 hr
  simp only [betweenSubselectionsM]
  have t1 := hR.two _ _ s1
  have t2 := hR.two _ _ s2
  have l1 := hR.le _ _ s1
  have l2 := hR.le _ _ s2
  obtain ⟨x1, x2, x3⟩ := ff_syn hR p1 s1 c
  generalize fieldsAndFragments s p1 id1 sels1 c = ra at x1 x2 x3 ⊢
  obtain ⟨⟨fma, fra⟩, ca⟩ := ra
  simp only at x1 x2 x3 ⊢
  obtain ⟨y1, y2, y3⟩ := ff_syn hR p2 s2 ca
  generalize fieldsAndFragments s p2 id2 sels2 ca = rb at y1 y2 y3 ⊢
  obtain ⟨⟨fmb, frb⟩, cb⟩ := rb
  simp only at y1 y2 y3 ⊢
  have gab : Good c cb := x1.trans y1
  have hm0 := Nat.mul_le_mul_right (2 * R + 7) (gab.mu (d := d))
  have k0 := hcb me fma fmb cb _ _ (gab.1.trans hc) x2 y2 x3 y3 (by omega)
  have k1 := sumLoop_good frb (fun fr c => withFreshCmp (betweenFieldsAndFragmentM s fx fuel me id1 fma fr) c) _
    (fun fr _ c3 g3 => withFreshCmp_good _ c3 (by
      have g : Good cb c3 := k0.trans g3
      have hm3 := Nat.mul_le_mul_right (2 * R + 7) (g.mu (d := d))
      have hmu : mu d { c3 with cmp := [] } = mu d c3 := rfl
      exact hff me id1 sels1 fma fr { c3 with cmp := [] } _ ((g.1.trans gab.1).trans hc) s1 x2 x3 (by omega)
        (by rw [hmu]; omega)))
  have k2 := sumLoop_good fra (fun fr c => withFreshCmp (betweenFieldsAndFragmentM s fx fuel me id2 fmb fr) c) _
    (fun fr _ c3 g3 => withFreshCmp_good _ c3 (by
      have g : Good cb c3 := (k0.trans k1).trans g3
      have hm3 := Nat.mul_le_mul_right (2 * R + 7) (g.mu (d := d))
      have hmu : mu d { c3 with cmp := [] } = mu d c3 := rfl
      exact hff me id2 sels2 fmb fr { c3 with cmp := [] } _ ((g.1.trans gab.1).trans hc) s2 y2 y3 (by omega)
        (by rw [hmu]; omega)))
  have k3 := sumLoop_good fra
    (fun f1 c => sumLoop frb (fun f2 c => betweenFragmentsM s fx fuel me (some f1) (some f2) c) c) _
    (fun f1 _ c3 g3 => sumLoop_good frb (fun f2 c => betweenFragmentsM s fx fuel me (some f1) (some f2) c) c3
      (fun f2 _ c4 g4 => by
        have g : Good cb c4 := (((k0.trans k1).trans k2).trans g3).trans g4
        have hm3 := Nat.mul_le_mul_right (2 * R + 7) (g.mu (d := d))
        exact hfr me f1 f2 c4 ((g.1.trans gab.1).trans hc) (by omega)))
  exact (((gab.trans k0).trans k1).trans k2).trans k3

/-- **the memoised search never exhausts a fuel that covers its potential** - no hypothesis on fragment spreads -/
theorem searchM_fuel (hR : RankSyn s d ρ R) (h7 : fx.v7 = true) : ∀ fuel,
    TFind s fx d ρ R fuel ∧ TCb s fx d ρ R fuel ∧ TFf s fx d ρ R fuel ∧ TFr s fx d R fuel ∧ TSs s fx d ρ R fuel := by
  intro fuel
  induction fuel with
  | zero =>
    refine ⟨?_, ?_, ?_, ?_, ?_⟩
    · intro _ _ _ _ _ _ _ h; omega
    · intro _ _ _ _ _ _ _ _ _ _ _ h; omega
    · intro _ _ _ _ _ _ _ _ _ _ _ _ h; omega
    · intro _ _ _ _ _ h; omega
    · intro _ _ _ _ _ _ _ _ _ _ _ h; omega
  | succ fuel ih =>
    obtain ⟨i1, i2, i3, i4, i5⟩ := ih
    exact ⟨tstep_find s fx d ρ R fuel i5, tstep_cb s fx d ρ R fuel i1, tstep_ff s fx d ρ R hR fuel i2 i3,
      tstep_fr s fx d ρ R hR h7 fuel i2 i4, tstep_ss s fx d ρ R hR fuel i2 i3 i4⟩

/-- **`find_conflicts_within_selection_set`, memoised**: a recursion budget of `fuelBound d R` frames suffices, whatever
    the fragment graph; the exception flag comes back unchanged -/
theorem withinM_terminates (hR : RankSyn s d ρ R) (h7 : fx.v7 = true) (fuel : Nat) (hfuel : fuelBound d R ≤ fuel)
    (p : Option String) (i : Nat) (sels : List Sel) (c : OCtx) (hc : c.frags = fragTable d) (h1 : SelSet d i sels) :
    Good c (withinSelectionSetM s fx fuel p i sels c).2 := by
  obtain ⟨nf, _, nff, nfr, _⟩ := searchM_fuel s fx d ρ R hR h7 fuel
  have t0 := hR.two _ _ h1
  have tl := hR.le _ _ h1
  simp only [withinSelectionSetM]
  obtain ⟨x1, x2, x3⟩ := ff_syn hR p h1 c
  generalize fieldsAndFragments s p i sels c = ra at x1 x2 x3 ⊢
  obtain ⟨⟨fm, fr⟩, ca⟩ := ra
  simp only at x1 x2 x3 ⊢
  have bound : ∀ c', mu d c' * (2 * R + 7) + 2 * R + 7 ≤ fuel := fun c' => by
    have := Nat.mul_le_mul_right (2 * R + 7) (mu_le_bound d c')
    unfold fuelBound at hfuel
    omega
  have k0 := sumLoop_good fm
    (fun x c => sumLoop (pairsOf x.2) (fun y c =>
      (if (findConflictM s fx fuel false y.1 y.2 c).1 = true then 1 else 0,
       (findConflictM s fx fuel false y.1 y.2 c).2)) c) ca
    (fun q hq c1 g1 => sumLoop_good (pairsOf q.2) _ c1
      (fun y hy c2 g2 => by
        obtain ⟨m1, m2⟩ := mem_pairsOf hy
        have r1 : entryRank ρ y.1 ≤ ρ i - 2 := x3 q hq _ m1
        have r2 : entryRank ρ y.2 ≤ ρ i - 2 := x3 q hq _ m2
        have g : Good ca c2 := g1.trans g2
        have := bound c2
        exact nf false y.1 y.2 c2 ((g.1.trans x1.1).trans hc) (x2 q hq _ m1) (x2 q hq _ m2) (by omega)))
  have k1 := withFreshCmp_good
    (fun c => sumLoop fr (fun g c => betweenFieldsAndFragmentM s fx fuel false i fm g c) c) _
    (sumLoop_good fr _ _ (fun g _ c2 g2 => by
      have gg : Good ca c2 := (k0.trans ⟨rfl, fun _ h => h, fun _ h => h, rfl⟩).trans g2
      have := bound c2
      exact nff false i sels fm g c2 _ ((gg.1.trans x1.1).trans hc) h1 x2 x3 (by omega) (by omega)))
  have k2 := sumLoop_good (pairsOf fr)
    (fun y c => betweenFragmentsM s fx fuel false (some y.1) (some y.2) c) _
    (fun y _ c2 g2 => by
      have gg : Good ca c2 := (k0.trans k1).trans g2
      have := bound c2
      exact nfr false y.1 y.2 c2 ((gg.1.trans x1.1).trans hc) (by omega))
  exact ((x1.trans k0).trans k1).trans k2

end
end PyGql.Validate

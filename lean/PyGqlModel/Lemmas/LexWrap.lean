/-
  Tilings under CONTEXT: a tiled text keeps its tiling (positions moved) when
    * the enclosing text gets longer (`Tiles.up`),
    * ignored characters are put in front of it (`Tiles.prepend_ign`),
    * a line feed and another tiled text are put BEHIND it (`Tiles.append_after`: the line feed ends a possible trailing
      comment, and satisfies every follow restriction).
  These give the tiling of `prefix ++ spanned text ++ LF ++ suffix` used by the re-parse-in-context theorems of C02.
-/
import PyGqlModel.Lemmas.LexSlice
namespace PyGql.Spec.Lexical

theorem Lexeme.ne_nil {k : TokKind} {lex v : Text} (hl : Lexeme k lex v) : lex ≠ [] := by
  intro h; subst h
  cases k <;> simp [Lexeme, punctuator, TokKind.constText, isName, stringValue, isIntValue, isFloatValue, isIntegerPart,
    stripNegativeSign, blockStringRaw, List.isPrefixOf] at hl

theorem startsWith_append_of_ne {p : Nat → Bool} {a : Text} (b : Text) (h : a ≠ []) :
    startsWith p (a ++ b) = startsWith p a := by
  cases a with
  | nil => exact absurd rfl h
  | cons c t => rfl

/-- an ignored run only looks at the next character: a non-empty continuation may be extended -/
theorem IgnRun.extend {a ign : Text} (b : Text) (ha : a ≠ []) (h : IgnRun a ign) : IgnRun (a ++ b) ign := by
  induction h with
  | nil => exact .nil
  | char c t hc _ ih => exact .char c t hc ih
  | comment body t hb hs _ ih =>
    refine .comment body t hb ?_ ih
    rw [← List.append_assoc, startsWith_append_of_ne b (by simp [ha])]
    exact hs

theorem Follow.extend {k : TokKind} {lex a : Text} (b : Text) (ha : a ≠ []) (h : Follow k lex a) : Follow k lex (a ++ b) := by
  cases k <;> simp only [Follow] at h ⊢
  all_goals first
    | (rw [startsWith_append_of_ne b ha]; exact h)
    | (intro e; rw [startsWith_append_of_ne b ha]; exact h e)
    | trivial

/-- a line feed satisfies every follow restriction -/
theorem Follow.lf (k : TokKind) (lex b : Text) : Follow k lex (10 :: b) := by
  cases k <;> simp [Follow, startsWith, isNameCont, isNameStart, isLetter, isDigit]

/-- a run that ends the text, then a line feed, then a run standing before `next` -/
theorem IgnRun.append_lf {next ign ign0 : Text} (h : IgnRun [] ign) (h0 : IgnRun next ign0) :
    IgnRun next (ign ++ 10 :: ign0) := by
  induction h with
  | nil => exact .char 10 ign0 (by decide) h0
  | char c t hc _ ih => exact .char c _ hc ih
  | comment body t hb hs _ ih =>
    have := IgnRun.comment (next := next) body (t ++ 10 :: ign0) hb ?_ ih
    · simpa using this
    · cases t with
      | nil => simp [startsWith, isCommentChar, isLineTerm]
      | cons c t' => simpa [startsWith] using hs

/-- ignored characters in front of a run -/
theorem IgnRun.prepend_chars {next ign : Text} (ws : Text) (hw : ∀ c ∈ ws, isIgnoredChar c = true) (h : IgnRun next ign) :
    IgnRun next (ws ++ ign) := by
  induction ws with
  | nil => exact h
  | cons c t ih => exact .char c _ (hw c (by simp)) (ih (fun x hx => hw x (by simp [hx])))

/-- the enclosing text gets `d` characters longer at the front: every token moves up by `d` -/
theorem Tiles.up {n : Nat} {s : Text} {toks : List Tok} (d : Nat) (h : Tiles n s toks) (hn : s.length ≤ n) :
    Tiles (n + d) s (toks.map (Tok.up d)) := by
  induction h with
  | eof ign hi => exact .eof ign hi
  | tok ign lex rest k v toks hi hl hf _ ih =>
    have e : Tok.up d ⟨k, n - (lex ++ rest).length, n - rest.length, v⟩ =
        ⟨k, n + d - (lex ++ rest).length, n + d - rest.length, v⟩ := by
      simp only [Tok.up, List.length_append] at hn ⊢
      congr 1 <;> omega
    rw [List.map_cons, e]
    exact .tok ign lex rest k v _ hi hl hf (ih (by simp at hn; omega))

/-- ignored characters (no comment) in front of a tiled text -/
theorem Tiles.prepend_ign {n : Nat} {s : Text} {toks : List Tok} (ws : Text) (hw : ∀ c ∈ ws, isIgnoredChar c = true)
    (h : Tiles n s toks) : Tiles n (ws ++ s) toks := by
  cases h with
  | eof ign hi => exact .eof _ (hi.prepend_chars ws hw)
  | tok ign lex rest k v toks hi hl hf ht =>
    rw [← List.append_assoc]
    exact .tok _ lex rest k v toks (hi.prepend_chars ws hw) hl hf ht

/-- a run that ended the text, a line feed, and a tiled continuation -/
theorem Tiles.prepend_run_lf {n : Nat} {q ign : Text} {toks : List Tok} (hi : IgnRun [] ign) (h : Tiles n q toks) :
    Tiles n (ign ++ 10 :: q) toks := by
  cases h with
  | eof ign0 hi0 => exact .eof _ (hi.append_lf hi0)
  | tok ign0 lex rest k v toks hi0 hl hf ht =>
    have e : ign ++ 10 :: (ign0 ++ (lex ++ rest)) = (ign ++ 10 :: ign0) ++ (lex ++ rest) := by simp
    rw [e]
    exact .tok _ lex rest k v toks (hi.append_lf hi0) hl hf ht

theorem Tiles.single_inv {n : Nat} {s : Text} {t : Tok} (h : Tiles n s [t]) : IgnRun [] s := by
  generalize e : [t] = l at h
  cases h with
  | eof ign hi => exact hi
  | tok ign lex rest k v toks hi hl hf ht =>
    simp only [List.cons.injEq] at e
    obtain ⟨_, rfl⟩ := e
    cases ht

/-- `s` tiled by `toks` then `<EOF>`; `q` tiled by `qt`: then `s ++ LF ++ q` is tiled by `toks` (unmoved) and `qt` moved
    up behind them. -/
theorem Tiles.append_after {n : Nat} (q : Text) (qt : List Tok) (hq : Tiles q.length q qt) :
    ∀ (toks : List Tok) {s : Text}, Tiles n s (toks ++ [eofT n]) →
      Tiles (n + 1 + q.length) (s ++ 10 :: q) (toks ++ qt.map (Tok.up (n + 1)))
  | [], s, h => by
    have hi := Tiles.single_inv h
    have := (hq.up (n + 1) (Nat.le_refl _))
    rw [Nat.add_comm] at this
    exact this.prepend_run_lf hi
  | t :: toks, s, h => by
    obtain ⟨ign, lex, rest, rfl, hi, hl, hf, ht, et⟩ := Tiles.cons_inv (toks := toks ++ [eofT n]) h (by simp)
    have ih := Tiles.append_after q qt hq toks ht
    have e : ign ++ (lex ++ rest) ++ 10 :: q = ign ++ (lex ++ (rest ++ 10 :: q)) := by simp
    have et' : t = ⟨t.kind, n + 1 + q.length - (lex ++ (rest ++ 10 :: q)).length,
        n + 1 + q.length - (rest ++ 10 :: q).length, t.value⟩ := by
      rw [et]; simp only [List.length_append, List.length_cons]; congr 1 <;> omega
    rw [e, List.cons_append, et']
    refine .tok ign lex _ t.kind t.value _ ?_ hl ?_ ih
    · rw [← List.append_assoc]; exact hi.extend _ (by simp [hl.ne_nil])
    · cases rest with
      | nil => exact Follow.lf _ _ _
      | cons c r => exact hf.extend _ (by simp)

end PyGql.Spec.Lexical

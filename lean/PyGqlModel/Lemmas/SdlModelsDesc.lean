/-
  C12 — the two printer models print the same text, part 2: `print_description`, literals, default values, type
  references, `print_deprecated`.
-/
import PyGqlModel.Lemmas.SdlModelsStr
namespace PyGql.SdlModels
open PyGql PyGql.Sdl PyGql.SdlPrintT

/-- the options of the Text models that correspond to the options of the String model -/
def optsT (o : SdlPrint.Opts) : OptsT := { indent := T o.indent, descriptions := o.descriptions }

theorem ceq (c d : Char) : (c == d) = (c.toNat == d.toNat) := by
  rw [Bool.eq_iff_iff]; simp [Char.toNat_inj]

theorem startsWs_T (l : String) :
    (match l.toList with | c :: _ => c == ' ' || c == '\t' | [] => false) = startsWs (T l) := by
  rw [T_def]
  cases l.toList with
  | nil => rfl
  | cons c t => simp only [List.map_cons, startsWs, ceq]; rfl

theorem blank_T (l : String) : (l.toList.all fun c => c == ' ' || c == '\t') = isBlankLine (T l) := by
  simp only [isBlankLine, T_def, List.all_map, Function.comp_def, ceq]
  rfl

theorem contains_cr (d : String) : d.toList.contains '\r' = (T d).contains 13 := by
  rw [T_def, List.contains_map, List.contains_eq_any_beq]
  congr 1
  funext c
  have h13 : ('\r' : Char).toNat = 13 := rfl
  rw [ceq, h13, Bool.eq_iff_iff]

theorem headD_T (L : List String) : T (L.headD "") = (L.map T).headD [] := by
  cases L <;> simp [T_nil]

theorem getLast_quote (l : String) : (l.toList.getLast? == some '"') = ((T l).getLast? == some 34) := by
  rw [T_def, List.getLast?_map]
  cases l.toList.getLast? with
  | none => rfl
  | some c =>
    show (c == '"') = (c.toNat == 34)
    rw [ceq]; rfl

theorem go_map (ind first : String) : ∀ (i : Nat) (ls : List String),
    (SdlPrint.printDescription.go ind first i ls).map T =
      descLines (T ind) (decide ((T first).length > (lstrip (T first)).length)) i (ls.map T)
  | _, [] => rfl
  | i, l :: ls => by
    have hlf : T "\n" = [10] := by decide
    simp only [SdlPrint.printDescription.go, descLines, List.map_cons, T_append, T_escTriple, go_map ind first (i + 1) ls,
      T_length, ← T_lstrip]
    congr 1
    congr 1
    congr 1
    · split <;> simp_all [T_nil]
    · split <;> simp_all [T_nil]

theorem T_ite {c : Prop} [Decidable c] (a b : String) : T (if c then a else b) = if c then T a else T b := by
  split <;> rfl

theorem T_printDescription (o : SdlPrint.Opts) (desc : Option String) (depth : Nat) (fib : Bool) :
    T (SdlPrint.printDescription o desc depth fib) = printDescription (optsT o) desc depth fib := by
  cases desc with
  | none => exact T_nil
  | some d =>
    cases h0 : (!o.descriptions || d.isEmpty) with
    | true => simp [SdlPrint.printDescription, printDescription, optsT, h0, T_nil]
    | false =>
      have hind : repeatText (T o.indent) depth = T (SdlPrint.repeatStr o.indent depth) := (T_repeatStr _ _).symm
      have hL : wrappedLines (splitLF (T d)) (120 - (T (SdlPrint.repeatStr o.indent depth)).length) =
          (SdlPrint.wrappedLines (SdlPrint.splitLines d) (120 - (SdlPrint.repeatStr o.indent depth).length)).map T := by
        rw [wrappedLines_map, splitLines_map, T_length]
      simp only [SdlPrint.printDescription, printDescription, optsT, h0, hind, hL]
      generalize SdlPrint.wrappedLines (SdlPrint.splitLines d) (120 - (SdlPrint.repeatStr o.indent depth).length) = L
      generalize SdlPrint.repeatStr o.indent depth = ind
      have hrest : (List.filter (fun l => !isBlankLine l) (List.drop 1 (L.map T))) =
          (List.filter (fun l : String => !l.toList.all fun c => c == ' ' || c == '\t') (List.drop 1 L)).map T := by
        rw [← List.map_drop, List.filter_map]
        congr 1
        congr 1
        funext l
        simp only [Function.comp_def, blank_T]
      have hq : needsQuoted (L.map T) =
          ((match (L.headD "").toList with | c :: _ => c == ' ' || c == '\t' | [] => false) &&
            !(List.filter (fun l : String => !l.toList.all fun c => c == ' ' || c == '\t') (List.drop 1 L)).isEmpty &&
            (List.filter (fun l : String => !l.toList.all fun c => c == ' ' || c == '\t') (List.drop 1 L)).all fun l =>
              match l.toList with | c :: _ => c == ' ' || c == '\t' | [] => false) := by
        simp only [needsQuoted, hrest, ← headD_T, startsWs_T, List.isEmpty_map, List.all_map, Function.comp_def]
      have hlf : T "\n" = [10] := by decide
      have htq : T "\"\"\"" = [34, 34, 34] := by decide
      have htqn : T "\"\"\"\n" = [34, 34, 34, 10] := by decide
      have hbody : descBody (T ind) (L.map T) =
          T (if (L.length == 1 && decide ((L.headD "").length < 70) && !(L.headD "").toList.getLast? == some '"') = true then
               SdlPrint.escTriple (L.headD "")
             else "\n".intercalate (SdlPrint.printDescription.go ind (L.headD "") 0 L) ++ "\n" ++ ind) := by
        simp only [descBody, T_ite, T_escTriple, T_append, T_intercalate, go_map, hlf, ← headD_T, List.length_map, T_length,
          getLast_quote]
      rw [hq, hbody, ← contains_cr]
      simp only [Bool.false_eq_true, if_false, T_ite, T_append, T_jsonDumps, hlf, htq, htqn, T_nil, T_isEmpty,
        List.append_assoc]
      rfl

/-! ### literals -/

mutual
theorem T_litText : ∀ l : Lit, T (SdlPrint.litText l) = litText l
  | .null => rfl
  | .int v _ => rfl
  | .float v _ => rfl
  | .str x => by simp only [SdlPrint.litText, litText, T_jsonDumps]
  | .bool b => by cases b <;> rfl
  | .enum v => rfl
  | .list l => by
    have h1 : T "[" = [91] := by decide
    have h2 : T "]" = [93] := by decide
    have h3 : T ", " = [44, 32] := by decide
    simp only [SdlPrint.litText, litText, T_append, T_intercalate, T_litTexts l, h1, h2, h3]
    simp
  | .obj fs => by
    have h1 : T "{" = [123] := by decide
    have h2 : T "}" = [125] := by decide
    have h3 : T ", " = [44, 32] := by decide
    simp only [SdlPrint.litText, litText, T_append, T_intercalate, T_fieldTexts fs, h1, h2, h3]
    simp
theorem T_litTexts : ∀ l : List Lit, (SdlPrint.litTexts l).map T = litTexts l
  | [] => rfl
  | v :: vs => by simp only [SdlPrint.litTexts, litTexts, List.map_cons, T_litText v, T_litTexts vs]
theorem T_fieldTexts : ∀ fs : List (String × Lit), (SdlPrint.fieldTexts fs).map T = fieldTexts fs
  | [] => rfl
  | (k, v) :: fs => by
    have h : T ": " = [58, 32] := by decide
    simp only [SdlPrint.fieldTexts, fieldTexts, List.map_cons, T_append, T_litText v, T_fieldTexts fs, h]
end

theorem T_valueText (s : SchemaD) (v : J) (ty : Ty) :
    T ((SdlPrint.valueText s SdlPrint.valueFuel v ty).getD "<ValueError>") = valueText s v ty := by
  simp only [SdlPrint.valueText, valueText]
  cases SdlPrint.valueLit s SdlPrint.valueFuel v ty with
  | none => rfl
  | some l => exact T_litText l

theorem T_render : ∀ ty : Ty, T ty.render = renderTy ty
  | .named n => rfl
  | .list t => by
    have h1 : T "[" = [91] := by decide
    have h2 : T "]" = [93] := by decide
    simp only [Ty.render, renderTy, T_append, T_render t, h1, h2]; rfl
  | .nonNull t => by
    have h : T "!" = [33] := by decide
    simp only [Ty.render, renderTy, T_append, T_render t, h]

theorem T_printDeprecated (r : Option String) : T (SdlPrint.printDeprecated r) = printDeprecated r := by
  cases r with
  | none => rfl
  | some x =>
    have h : T ")" = [41] := by decide
    simp only [SdlPrint.printDeprecated, printDeprecated, T_ite, T_append, T_jsonDumps, h]

end PyGql.SdlModels

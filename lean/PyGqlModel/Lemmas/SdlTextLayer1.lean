/-
  C12 text level — layer (i): schemas without printed descriptions and without default values.
-/
import PyGqlModel.Lemmas.SdlTextMain
namespace PyGql.SdlText
open PyGql PyGql.Ast PyGql.Sdl PyGql.Spec PyGql.PrintLex PyGql.PrintTokens PyGql.PrintMatch PyGql.SdlPrint PyGql.Parse

/-- an argument / input field without a printed description and without a default value -/
def argPlain (a : ArgD) : Prop := descToDoc a.desc = none ∧ a.hasDefault = false

/-- LAYER (i): no description is printed anywhere and no argument / input field has a default value -/
def NoDescNoDefault (s : SchemaD) : Prop :=
  (∀ t ∈ s.types, descToDoc t.desc = none ∧ (∀ f ∈ t.fields, descToDoc f.desc = none ∧ ∀ a ∈ f.args, argPlain a) ∧
    (∀ v ∈ t.values, descToDoc v.desc = none) ∧ (∀ a ∈ t.inputFields, argPlain a)) ∧
  (∀ d ∈ s.directives, descToDoc d.desc = none ∧ ∀ a ∈ d.args, argPlain a)

theorem descPart_noDoc (o : SdlPrintT.OptsT) (d : Option String) (depth : Nat) (first : Bool) (h : descToDoc d = none) :
    DescPart (SdlPrintT.printDescription o d depth first) (Item.yieldAll (descV (descOf (descToDoc d)))) := by
  rw [h]
  cases d with
  | none => exact Or.inl ⟨rfl, rfl⟩
  | some x =>
    have hx : x.isEmpty = true := by
      unfold descToDoc at h
      by_cases he : x.isEmpty = true
      · exact he
      · simp [he] at h
    exact Or.inl ⟨by simp [SdlPrintT.printDescription, hx], rfl⟩

theorem multiArgs_false (o : SdlPrintT.OptsT) (args : List ArgD) (h : ∀ a ∈ args, descToDoc a.desc = none) :
    SdlPrintT.multiArgs o args = false := by
  unfold SdlPrintT.multiArgs
  rw [Bool.and_eq_false_iff]
  right
  rw [List.any_eq_false]
  intro a ha
  have := h a ha
  cases hd : a.desc with
  | none => simp
  | some x =>
    rw [hd] at this
    unfold descToDoc at this
    by_cases he : x.isEmpty = true
    · simp [he]
    · simp [he] at this

theorem argCore_plain (s : SchemaD) (w : Nat) (a : ArgD) (h : argOKT s w a = true) (hp : argPlain a) : ArgCore s a := by
  simp only [argOKT, Bool.and_eq_true] at h
  exact ⟨h.1.1.1, h.1.1.2, defaultPart_none s a hp.2⟩

theorem argsPart_plain (s : SchemaD) (o : SdlPrintT.OptsT) (w : Nat) (args : List ArgD) (depth : Nat)
    (h : ∀ a ∈ args, argOKT s w a = true) (hp : ∀ a ∈ args, argPlain a) : ArgsPart s o args depth :=
  lay_arguments_oneline s o args depth (multiArgs_false o args (fun a ha => (hp a ha).1)) (fun a ha => (hp a ha).1)
    (fun a ha => argCore_plain s w a (h a ha) (hp a ha))

theorem membersPart_plain (s : SchemaD) (o : SdlPrintT.OptsT) (hind : Blank o.indent) (t : TypeD)
    (h : typeOKT s o.indent.length t = true)
    (hp : (∀ f ∈ t.fields, descToDoc f.desc = none ∧ ∀ a ∈ f.args, argPlain a) ∧
      (∀ v ∈ t.values, descToDoc v.desc = none) ∧ (∀ a ∈ t.inputFields, argPlain a)) : MembersPart s o t := by
  simp only [typeOKT, Bool.and_eq_true] at h
  obtain ⟨_, hk⟩ := h
  obtain ⟨hpf, hpv, hpi⟩ := hp
  have hfield : ∀ i, ∀ f ∈ t.fields, fieldOKT s o.indent.length f = true →
      Lay (SdlPrintT.printField s o i f) (fieldDefinitionV (fieldOf (fieldToDef s f))).yield := by
    intro i f hf hok
    simp only [fieldOKT, Bool.and_eq_true, List.all_eq_true] at hok
    exact (lay_field s o hind i f hok.1.1.1 hok.1.1.2 (descPart_noDoc o f.desc 1 _ (hpf f hf).1)
      (argsPart_plain s o _ f.args 1 hok.2 (hpf f hf).2)).1
  unfold MembersPart
  cases hkind : t.kind <;> rw [hkind] at hk <;> simp only [] <;>
    simp only [Bool.and_eq_true, List.all_eq_true, Bool.not_eq_true', List.isEmpty_eq_false_iff] at hk
  · exact ⟨hk.1.1, hk.2, fun i f hf => hfield i f hf (hk.1.2 f hf)⟩
  · exact ⟨hk.1, fun i f hf => hfield i f hf (hk.2 f hf)⟩
  · exact ⟨hk.1, hk.2⟩
  · refine ⟨hk.1, fun i v hv => ?_⟩
    have hok := hk.2 v hv
    simp only [enumValOKT, Bool.and_eq_true] at hok
    exact (lay_enumValue o hind i v hok.1.1 (descPart_noDoc o v.desc 1 _ (hpv v hv))).1
  · refine ⟨hk.1, fun i a ha => ?_⟩
    exact (lay_inputField s o hind i a (argCore_plain s _ a (hk.2 a ha) (hpi a ha))
      (descPart_noDoc o a.desc 1 _ (hpi a ha).1)).1

theorem membersNonEmpty_of_ok (s : SchemaD) (w : Nat) (t : TypeD) (h : typeOKT s w t = true) :
    membersNonEmpty (typeToDef s t) := by
  simp only [typeOKT, Bool.and_eq_true] at h
  obtain ⟨_, hk⟩ := h
  unfold membersNonEmpty
  cases hkind : t.kind <;> rw [hkind] at hk <;> simp only [typeToDef, hkind] <;>
    simp only [Bool.and_eq_true, Bool.not_eq_true', List.isEmpty_eq_false_iff] at hk <;>
    first | trivial | (simp only [ne_eq, List.map_eq_nil_iff]; first | exact hk.1.1 | exact hk.1)

/-- the description of a definition at depth 0 -/
abbrev TopDesc (o : SdlPrintT.OptsT) (d : Option String) : Prop :=
  DescPart (SdlPrintT.printDescription o d 0 true) (Item.yieldAll (descV (descOf (descToDoc d))))

/-- the assembly: `printTextWF` plus the layouts of descriptions, arguments and members give the statement -/
theorem parse_printSchemaT_core (o : SdlPrintT.OptsT) (s : SchemaD) (hs : InPrintOrder s)
    (hwf : printTextWF o s = true)
    (hD : ∀ d ∈ s.directives, TopDesc o d.desc ∧ ArgsPart s o d.args 0)
    (hT : ∀ t ∈ s.types, TopDesc o t.desc ∧ MembersPart s o t) :
    parseSdlTextT (SdlPrintT.printSchemaT o s) = docToAst (schemaToDoc s) := by
  simp only [printTextWF, Bool.and_eq_true, List.all_eq_true, Bool.or_eq_true, Bool.not_eq_true', List.isEmpty_eq_false_iff] at hwf
  obtain ⟨⟨⟨⟨⟨⟨⟨⟨⟨_, hind0⟩, htypes⟩, hdirs⟩, hq⟩, hm⟩, hsub⟩, hnonempty⟩, hroots⟩, _⟩ := hwf
  have hind : Blank o.indent := by
    intro c hc; have := hind0 c hc; simpa using this
  have hrootsne : needsSchemaBlock s = true → rootOps s ≠ [] := by
    intro hn
    rcases hroots with h | h
    · rw [hn] at h; cases h
    · exact h
  apply parse_printSchemaT o s hs
  · -- the text is not empty
    unfold schemaPairs
    rcases hnonempty with (h | h) | h
    · cases ht : s.types with | nil => exact absurd ht h | cons _ _ => simp
    · cases hd : s.directives with | nil => exact absurd hd h | cons _ _ => simp
    · simp [h]
  · intro p hpm
    unfold schemaPairs at hpm
    simp only [List.mem_append, List.mem_map] at hpm
    rcases hpm with (hpm | ⟨d, hd, rfl⟩) | ⟨t, ht, rfl⟩
    · split at hpm
      · rename_i hn
        simp only [List.mem_singleton] at hpm
        subst hpm
        exact lay_printSchemaDefinition o hind s hq hm hsub (hrootsne hn)
      · cases hpm
    · have hok := hdirs d hd
      simp only [directiveOKT, Bool.and_eq_true, List.all_eq_true] at hok
      have hpd := hD d hd
      have := lay_printDirectiveDefinition s o d hok.1.1.1.1 hpd.1 hpd.2 (fun n hn => (hok.2 n hn).1)
      simpa [defTree, directiveToDef, List.map_map, Function.comp_def] using this
    · have hok := htypes t ht
      have hpt := hT t ht
      have hn : nameOK t.name = true := by simp only [typeOKT, Bool.and_eq_true] at hok; exact hok.1.1
      exact lay_printType s o t hn hpt.1 hpt.2
  · intro d hd fol
    simp only [schemaToDoc, List.map_append, List.map_map, List.mem_append, List.mem_map, Function.comp_apply] at hd
    rcases hd with (hd | ⟨x, _, rfl⟩) | ⟨t, ht, rfl⟩
    · split at hd
      · obtain ⟨a, ha, rfl⟩ := hd; simp only [List.mem_singleton] at ha; subst ha; exact plainF_schemaDef _ fol
      · simp at hd
    · exact plainF_directiveDef _ fol
    · exact plainF_typeDefOf _ (membersNonEmpty_of_ok s _ t (htypes t ht)) fol
  · simp only [wfDocument, Bool.and_eq_true, Bool.not_eq_true', List.isEmpty_eq_false_iff, List.all_eq_true, Bool.true_or,
      and_true]
    constructor
    · intro e
      have : schemaPairs o s = [] := by
        unfold schemaPairs
        unfold schemaToDoc at e
        simp only [List.map_append, List.append_eq_nil_iff, List.map_eq_nil_iff] at e
        obtain ⟨⟨e1, e2⟩, e3⟩ := e
        split at e1
        · simp at e1
        · simp [e2, e3, *]
      rcases hnonempty with (h | h) | h
      · unfold schemaToDoc at e; simp [h] at e
      · unfold schemaToDoc at e; simp [h] at e
      · unfold schemaToDoc at e; simp [h] at e
    · intro d hd
      simp only [schemaToDoc, List.map_append, List.map_map, List.mem_append, List.mem_map, Function.comp_apply] at hd
      rcases hd with (hd | ⟨x, hx, rfl⟩) | ⟨t, ht, rfl⟩
      · split at hd
        · rename_i hn
          obtain ⟨a, ha, rfl⟩ := hd
          simp only [List.mem_singleton] at ha; subst ha
          exact wfDefinition_schema _ s (hrootsne hn)
        · simp at hd
      · exact wfDefinition_directive _ s _ x (hdirs x hx)
      · exact wfDefinition_type _ s _ t (htypes t ht)

theorem blank_of_wf (o : SdlPrintT.OptsT) (s : SchemaD) (hwf : printTextWF o s = true) : Blank o.indent := by
  simp only [printTextWF, Bool.and_eq_true, List.all_eq_true] at hwf
  intro c hc; have := hwf.1.1.1.1.1.1.1.1.2 c hc; simpa using this

/-- LAYER (i) of `print_schema_text_parses` -/
theorem parse_printSchemaT_layer1 (o : SdlPrintT.OptsT) (s : SchemaD) (hs : InPrintOrder s)
    (hwf : printTextWF o s = true) (hp : NoDescNoDefault s) :
    parseSdlTextT (SdlPrintT.printSchemaT o s) = docToAst (schemaToDoc s) := by
  have hind := blank_of_wf o s hwf
  have hwf0 := hwf
  simp only [printTextWF, Bool.and_eq_true, List.all_eq_true] at hwf0
  apply parse_printSchemaT_core o s hs hwf
  · intro d hd
    have hok := hwf0.1.1.1.1.1.1.2 d hd
    simp only [directiveOKT, Bool.and_eq_true, List.all_eq_true] at hok
    have hpd := hp.2 d hd
    exact ⟨descPart_noDoc o d.desc 0 true hpd.1, argsPart_plain s o _ d.args 0 hok.1.1.2 hpd.2⟩
  · intro t ht
    have hpt := hp.1 t ht
    exact ⟨descPart_noDoc o t.desc 0 true hpt.1, membersPart_plain s o hind t (hwf0.1.1.1.1.1.1.1.2 t ht) hpt.2⟩

end PyGql.SdlText

/-
  `Lay` for type-system definitions and extensions (modulo member descriptions, R4), with the facts the document loop
  needs about the first and last character of the printed definition (R6 guard).
-/
import PyGqlModel.Lemmas.PrintLayTS
namespace PyGql.PrintTokens
open PyGql PyGql.Ast PyGql.Parse PyGql.Spec PyGql.Print PyGql.PrintLex PyGql.PrintMatch PyGql.PrintString PyGql.Lex

/-! ### "does not end with `}`" -/

/-- the text does not end with `}` (true for the empty text) -/
def NB (w : Text) : Prop := w.getLast? ≠ some 125

theorem nb_nil : NB [] := by simp [NB]
theorem nb_append {a b : Text} (ha : NB a) (hb : NB b) : NB (a ++ b) := by
  unfold NB at *
  rw [List.getLast?_append]
  cases h : b.getLast? with
  | none => simpa using ha
  | some x => rw [h] at hb; simpa using hb
theorem nb_append_right {a b : Text} (hb : NB b) (hne : b ≠ []) : NB (a ++ b) := by
  unfold NB at *
  rw [List.getLast?_append]
  cases h : b.getLast? with
  | none => exact absurd (List.getLast?_eq_none_iff.1 h) hne
  | some x => rw [h] at hb; simpa using hb
theorem nb_of_all {w : Text} (h : ∀ c ∈ w, c ≠ 125) : NB w := by
  unfold NB; intro e
  exact h 125 (List.mem_of_getLast? e) rfl
theorem nb_name {w : Text} (h : Spec.Lexical.isName w = true) : NB w := by
  apply nb_of_all
  cases w with
  | nil => simp
  | cons a t =>
    simp only [Spec.Lexical.isName, Bool.and_eq_true, List.all_eq_true] at h
    intro c hc e; subst e
    simp only [List.mem_cons] at hc
    rcases hc with rfl | hc
    · simp [Spec.Lexical.isNameStart, Spec.Lexical.isLetter] at h
    · have := h.2 125 hc
      simp [Spec.Lexical.isNameCont, Spec.Lexical.isNameStart, Spec.Lexical.isLetter, Spec.Lexical.isDigit] at this
theorem nb_cons {c : Nat} {t : Text} (h : NB t) (hc : c ≠ 125) : NB (c :: t) := by
  have : NB ([c] ++ t) := nb_append (by simp [NB, hc]) h
  simpa using this
theorem nb_wrapS {x : Text} (h : NB x) : NB (wrapS x) := by
  unfold wrapS; split
  · exact nb_nil
  · exact nb_cons h (by decide)
theorem nb_joinSep (sep : Text) (hs : NB sep) : ∀ (xs : List Text), (∀ x ∈ xs, NB x) → NB (joinSep sep xs)
  | [], _ => nb_nil
  | [x], h => by simpa [joinSep] using h x (by simp)
  | x :: y :: ys, h => by
    have := nb_joinSep sep hs (y :: ys) (fun z hz => h z (by simp [hz]))
    simpa [joinSep, List.append_assoc] using nb_append (h x (by simp)) (nb_append hs this)

theorem nb_printArguments (c : Cfg) (as : List Argument) : NB (printArguments c as) := by
  cases as with
  | nil => simpa [printArguments, join, joinSep, wrap] using nb_nil
  | cons a as =>
    rw [printArguments_eq]
    have : NB ((40 :: joinSep [44, 32] ((a :: as).map (printArgument c))) ++ [41]) := nb_append_right (by simp [NB]) (by simp)
    simpa using this

theorem nb_printDirectives (c : Cfg) (ds : List Directive) (h : okDirectives c.indent ds) : NB (printDirectives c ds) := by
  rw [printDirectives, join_eq_joinSep _ _ (printDirective_ne c ds)]
  apply nb_joinSep _ (by simp [NB])
  intro x hx
  simp only [List.mem_map] at hx
  obtain ⟨d, hd, rfl⟩ := hx
  have hok : okDirective c.indent d := by
    induction ds with
    | nil => cases hd
    | cons e es ih =>
      simp only [List.mem_cons] at hd
      rcases hd with rfl | hd
      · exact h.1
      · exact ih h.2 hd
  exact nb_cons (nb_append (nb_name hok.1) (nb_printArguments c d.arguments)) (by decide)

/-! ### descriptions -/

/-- a block description is ONE BlockString token with the same value (string part; discharged in PrintBlockForms) -/
def DescLay (ind v : Text) : Prop := Lay (blockString v ind true) [(.blockString, v)]

def okDesc (ind : Text) : Option StringValue → Prop
  | none => True
  | some d => d.block = true → DescLay ind d.value

theorem descStr_ne (c : Cfg) (d : StringValue) :
    (if d.block then blockString d.value c.indent true else jsonDumps d.value) ≠ [] := by
  split
  · exact blockString_ne_nil _ _ _
  · simp [jsonDumps]

theorem descStr_head (c : Cfg) (d : StringValue) :
    (if d.block then blockString d.value c.indent true else jsonDumps d.value).head? = some 34 := by
  split
  · unfold blockString; simp only; split <;> (split <;> simp)
  · simp [jsonDumps]

theorem head?_append_ne {a b : Text} (h : a ≠ []) : (a ++ b).head? = a.head? := by
  cases a with
  | nil => exact absurd rfl h
  | cons x y => rfl

/-- `_with_desc` -/
theorem lay_withDesc (c : Cfg) (hdesc : c.includeDescriptions = true) (desc : Option StringValue)
    (hd : okDesc c.indent desc) (body : Text) (cb : List TokClass) (hb : Lay body cb) (hne : body ≠ [])
    (hhead : body.head? ≠ some 123) :
    Lay (withDesc c body desc) (Item.yieldAll (descV desc) ++ cb) ∧ (withDesc c body desc).head? ≠ some 123 ∧
    withDesc c body desc ≠ [] ∧ (NB body → NB (withDesc c body desc)) := by
  cases desc with
  | none => exact ⟨by simpa [withDesc, descV, optV, Item.yieldAll] using hb, by simpa [withDesc] using hhead,
      by simpa [withDesc] using hne, by simp [withDesc]⟩
  | some d =>
    have hsne := descStr_ne c d
    have e : withDesc c body (some d) =
        (if d.block then blockString d.value c.indent true else jsonDumps d.value) ++ 10 :: body := by
      simp only [withDesc, hdesc, Bool.not_true, Bool.false_eq_true, ↓reduceIte]
      rw [join_cons_ne _ _ _ hsne]
      cases body with
      | nil => exact absurd rfl hne
      | cons x y => simp [tailJoin]
    rw [e]
    have ld : Lay (if d.block then blockString d.value c.indent true else jsonDumps d.value)
        [(if d.block then TokKind.blockString else TokKind.string, d.value)] := by
      cases hbk : d.block with
      | true => have := hd hbk; unfold DescLay at this; simpa [hbk] using this
      | false => simpa [hbk] using lay_string d.value
    refine ⟨?_, ?_, by simp, fun hnb => nb_append_right (nb_cons hnb (by decide)) (by simp)⟩
    · have := lay_append ld (lay_lf_cons hb) (delimHead_cons (by decide))
      simpa [descV, optV, stringV, Item.yieldAll, Item.yield] using this
    · rw [head?_append_ne hsne, descStr_head]; simp

/-! ### `implements`, union members, `_block` of members -/

def okNamedTypes (ts : List NamedType) : Prop := ∀ t ∈ ts, Spec.Lexical.isName t.name.value = true

def ntPairs (ts : List NamedType) : List LP := ts.map fun t => (printNamedType t, (namedTypeV t).yield)

theorem ntPairs_lay (ts : List NamedType) (h : okNamedTypes ts) : ∀ p ∈ ntPairs ts, Lay p.1 p.2 := by
  intro p hp
  simp only [ntPairs, List.mem_map] at hp
  obtain ⟨t, ht, rfl⟩ := hp
  simpa [printNamedType, namedTypeV, nameV, Item.yield, Item.yieldAll] using lay_name (h t ht)

theorem printNamedType_ne (ts : List NamedType) (h : okNamedTypes ts) : ∀ x ∈ ts.map printNamedType, x ≠ [] := by
  intro x hx
  simp only [List.mem_map] at hx
  obtain ⟨t, ht, rfl⟩ := hx
  exact isName_ne_nil (h t ht)

theorem yieldAll_sepV (sep : TokKind) (ts : List NamedType) :
    Item.yieldAll (sepV sep namedTypeV ts) = joinCls [(sep, [])] (ntPairs ts) := by
  cases ts with
  | nil => rfl
  | cons t ts =>
    simp only [sepV, Item.yieldAll, Item.yield, List.nil_append, ntPairs, List.map_cons, joinCls]
    congr 1
    induction ts with
    | nil => rfl
    | cons u us ih => simp [Item.yieldAll, Item.yield, yieldAll_append, ih]

theorem nb_namedTypes (sep : Text) (hs : NB sep) (ts : List NamedType) (h : okNamedTypes ts) :
    NB (joinSep sep (ts.map printNamedType)) := by
  apply nb_joinSep _ hs
  intro x hx
  simp only [List.mem_map] at hx
  obtain ⟨t, ht, rfl⟩ := hx
  exact nb_name (h t ht)

theorem lay_implements (ifs : List NamedType) (h : okNamedTypes ifs) :
    Lay (printImplements ifs) (Item.yieldAll (implementsV ifs)) ∧ NB (printImplements ifs) := by
  cases ifs with
  | nil => exact ⟨by simpa [printImplements, join, joinSep, wrap, implementsV, Item.yieldAll] using lay_nil,
      by simpa [printImplements, join, joinSep, wrap] using nb_nil⟩
  | cons t ts =>
    have hne := printNamedType_ne (t :: ts) h
    have hj := joinSep_ne_nil [32, 38, 32] _ (by simp) hne
    have e : printImplements (t :: ts) = K.implements ++ 32 :: joinSep [32, 38, 32] ((t :: ts).map printNamedType) := by
      unfold printImplements; rw [join_eq_joinSep _ _ hne]; unfold wrap
      have el : lit "implements " = K.implements ++ [32] := by decide
      cases hh : joinSep [32, 38, 32] ((t :: ts).map printNamedType) with
      | nil => exact absurd hh hj
      | cons x y => simp [el]
    rw [e]
    have l1 := lay_joinSep [32, 38, 32] [(.amp, [])] sep_amp (fun b => delimHead_cons (by decide)) (ntPairs (t :: ts))
      (ntPairs_lay _ h)
    have ef : (ntPairs (t :: ts)).map Prod.fst = (t :: ts).map printNamedType := by simp [ntPairs, List.map_map, Function.comp_def]
    rw [ef] at l1
    have himp : Spec.Lexical.isName K.implements = true := by decide
    refine ⟨?_, nb_append_right (nb_cons (nb_namedTypes _ (by simp [NB]) _ h) (by decide)) (by simp)⟩
    have := lay_append (lay_name himp) (lay_space_cons l1) (delimHead_cons (by decide))
    simpa [implementsV, kw, Item.yieldAll, Item.yield, yieldAll_sepV] using this

theorem lay_unionMembers (ts : List NamedType) (h : okNamedTypes ts) :
    Lay (printUnionMembers ts) (Item.yieldAll (unionMembersV ts)) := by
  cases ts with
  | nil => simpa [printUnionMembers, join, joinSep, wrap, unionMembersV, Item.yieldAll] using lay_nil
  | cons t ts =>
    have hne := printNamedType_ne (t :: ts) h
    have hj := joinSep_ne_nil [32, 124, 32] _ (by simp) hne
    have e : printUnionMembers (t :: ts) = 61 :: 32 :: joinSep [32, 124, 32] ((t :: ts).map printNamedType) := by
      unfold printUnionMembers; rw [join_eq_joinSep _ _ hne]; unfold wrap
      cases hh : joinSep [32, 124, 32] ((t :: ts).map printNamedType) with
      | nil => exact absurd hh hj
      | cons x y => simp
    rw [e]
    have l1 := lay_joinSep [32, 124, 32] [(.pipe, [])] sep_pipe (fun b => delimHead_cons (by decide)) (ntPairs (t :: ts))
      (ntPairs_lay _ h)
    have ef : (ntPairs (t :: ts)).map Prod.fst = (t :: ts).map printNamedType := by simp [ntPairs, List.map_map, Function.comp_def]
    rw [ef] at l1
    have := lay_equals (lay_space_cons l1)
    simpa [unionMembersV, Item.yieldAll, Item.yield, yieldAll_sepV] using this

/-- `_block(map(self, members))` against the optional block `{ X+ }` of the view (absent: `[lookahead ≠ {]`) -/
theorem lay_blockV {α} (ind : Text) (hind : Blank ind) (f : α → Text) (s : α → α) (V : α → Item) (xs : List α)
    (h : ∀ x ∈ xs, Lay (f x) (V (s x)).yield ∧ f x ≠ []) :
    Lay (block (xs.map f) ind) (Item.yieldAll (blockV V (xs.map s))) ∧
    (xs = [] → block (xs.map f) ind = []) ∧ (xs ≠ [] → ∃ pre, block (xs.map f) ind = 123 :: (pre ++ [125])) := by
  cases xs with
  | nil => exact ⟨by simpa [block, blockV, Item.yieldAll, Item.yield] using lay_nil, fun _ => by simp [block], fun h => absurd rfl h⟩
  | cons x xs =>
    let ps : List LP := (x :: xs).map fun y => (f y, (V (s y)).yield)
    have hps : ∀ p ∈ ps, Lay p.1 p.2 := by
      intro p hp; simp only [ps, List.mem_map] at hp; obtain ⟨y, hy, rfl⟩ := hp; exact (h y hy).1
    have hnn : ∀ p ∈ ps, p.1 ≠ [] := by
      intro p hp; simp only [ps, List.mem_map] at hp; obtain ⟨y, hy, rfl⟩ := hp; exact (h y hy).2
    obtain ⟨l, pre, hpre⟩ := lay_block ind hind ps (by simp [ps]) hps hnn
    have e1 : ps.map Prod.fst = (x :: xs).map f := by simp [ps, List.map_map, Function.comp_def]
    have e2 : ps.flatMap Prod.snd = Item.yieldAll (((x :: xs).map s).map V) := by
      rw [yieldAll_map]; simp [ps, List.flatMap_map]
    rw [e1] at l hpre
    rw [e2] at l
    refine ⟨?_, (fun h => by cases h), (fun _ => ⟨pre, hpre⟩)⟩
    simpa [blockV, Item.yieldAll, Item.yield, yieldAll_append] using l

end PyGql.PrintTokens

/-
  Under `no_location` the matcher of `Spec/Grammar.lean` only looks at token CLASSES (kind and, where the kind carries one,
  the text): two token lists with the same classes are matched by the same items.  (Positions enter `check` only through
  `locOf`, which is `none` under `no_location`.)
-/
import PyGqlModel.Lemmas.ParseCore
namespace PyGql.Spec
open PyGql PyGql.Ast PyGql.Parse

theorem kind_of_cls {t t2 : Tok} (h : cls t2 = cls t) : t2.kind = t.kind := congrArg Prod.fst h

mutual
theorem check_cls (fl : Flags) (hf : fl.noLocation = true) : ∀ (i : Item) (l l' : Tok) (ts rest : List Tok),
    i.check fl l ts = some (l', rest) → ∀ (l2 : Tok) (ts2 : List Tok), ts2.map cls = ts.map cls →
    ∃ l2' rest2, i.check fl l2 ts2 = some (l2', rest2) ∧ rest2.map cls = rest.map cls
  | .tok k v, l, l', ts, rest, h, l2, ts2, e => by
    rw [check_tok] at h
    obtain ⟨t, rfl, hc, _⟩ := h
    cases ts2 with
    | nil => simp at e
    | cons t2 r2 =>
      simp only [List.map_cons, List.cons.injEq] at e
      exact ⟨t2, r2, (check_tok ..).2 ⟨t2, rfl, e.1.trans hc, rfl⟩, e.2⟩
  | .optTok k v, l, l', ts, rest, h, l2, ts2, e => by
    rw [check_optTok] at h
    rcases h with ⟨t, rfl, hc, _⟩ | ⟨_, rfl, hn⟩
    · cases ts2 with
      | nil => simp at e
      | cons t2 r2 =>
        simp only [List.map_cons, List.cons.injEq] at e
        exact ⟨t2, r2, (check_optTok ..).2 (.inl ⟨t2, rfl, e.1.trans hc, rfl⟩), e.2⟩
    · refine ⟨l2, ts2, (check_optTok ..).2 (.inr ⟨rfl, rfl, ?_⟩), e⟩
      intro t2 tl2 e2
      subst e2
      cases rest with
      | nil => simp at e
      | cons t tl =>
        simp only [List.map_cons, List.cons.injEq] at e
        rw [e.1]; exact hn t tl rfl
  | .nla k, l, l', ts, rest, h, l2, ts2, e => by
    rw [check_nla] at h
    obtain ⟨_, rfl, hn⟩ := h
    refine ⟨l2, ts2, (check_nla ..).2 ⟨rfl, rfl, ?_⟩, e⟩
    intro t2 tl2 e2
    subst e2
    cases rest with
    | nil => simp at e
    | cons t tl =>
      simp only [List.map_cons, List.cons.injEq] at e
      rw [kind_of_cls e.1]; exact hn t tl rfl
  | .node loc is, l, l', ts, rest, h, l2, ts2, e => by
    rw [check_node] at h
    obtain ⟨f, tl, rfl, hall, hloc⟩ := h
    obtain ⟨l2', rest2, h2, e2⟩ := checkAll_cls fl hf is l l' (f :: tl) rest hall l2 ts2 e
    cases ts2 with
    | nil => simp at e
    | cons f2 tl2 =>
      refine ⟨l2', rest2, (check_node ..).2 ⟨f2, tl2, rfl, h2, ?_⟩, e2⟩
      rw [hloc]; simp [locOf, hf]
theorem checkAll_cls (fl : Flags) (hf : fl.noLocation = true) : ∀ (is : List Item) (l l' : Tok) (ts rest : List Tok),
    Item.checkAll fl is l ts = some (l', rest) → ∀ (l2 : Tok) (ts2 : List Tok), ts2.map cls = ts.map cls →
    ∃ l2' rest2, Item.checkAll fl is l2 ts2 = some (l2', rest2) ∧ rest2.map cls = rest.map cls
  | [], l, l', ts, rest, h, l2, ts2, e => by
    rw [checkAll_nil] at h
    cases h
    exact ⟨l2, ts2, by simp [Item.checkAll], e⟩
  | i :: is, l, l', ts, rest, h, l2, ts2, e => by
    rw [checkAll_cons] at h
    obtain ⟨l1, ts1, h1, h2⟩ := h
    obtain ⟨m1, r1, a1, e1⟩ := check_cls fl hf i l l1 ts ts1 h1 l2 ts2 e
    obtain ⟨m2, r2, a2, e2⟩ := checkAll_cls fl hf is l1 l' ts1 rest h2 m1 r1 e1
    exact ⟨m2, r2, (checkAll_cons ..).2 ⟨m1, r1, a1, a2⟩, e2⟩
end

end PyGql.Spec

/-
  `no_location` only erases positions: every parser function under `{fl with noLocation := true}` is the same
  function followed by `erase` (simulation; the control flow never looks at a `loc`).
-/
import PyGqlModel.Erase
import PyGqlModel.Lemmas.ParseExecL
namespace PyGql.Parse
open PyGql PyGql.Ast PyGql.Spec

/-- the flags with `no_location` switched on -/
def E (fl : Flags) : Flags := { fl with noLocation := true }

theorem mkLoc_E (fl : Flags) (st : Tok) : mkLoc (E fl) st = (mkLoc fl st >>= fun _ => pure none) := by
  funext s; simp [mkLoc, bind_eq, pure_eq, locOf, E]

theorem ite_bind {α β} (c : Prop) [Decidable c] (p q : P α) (f : α → P β) :
    (if c then p else q) >>= f = if c then p >>= f else q >>= f := by
  split <;> rfl

theorem fail_bind {α β} (msg : String) (f : α → P β) : (fail msg : P α) >>= f = fail msg := by
  funext s
  rcases s with ⟨_ | ⟨t, ts⟩, l⟩ <;> rfl

theorem failAt_bind {α β} (t : Tok) (msg : String) (f : α → P β) : (failAt t msg : P α) >>= f = failAt t msg := by
  funext s; rfl

theorem failTokAt_bind {α β} (t : Tok) (msg : String) (f : α → P β) :
    (failTokAt t msg : P α) >>= f = failTokAt t msg := by
  funext s; rfl

theorem bind_pure'' {α} (p : P α) : (p >>= fun a => pure a) = p := by
  funext s; simp only [bind_eq]
  cases h : p s with
  | error e => rfl
  | ok r => rcases r with ⟨a, s1⟩; rfl

theorem parseName_E (fl : Flags) : parseName (E fl) = parseName fl >>= fun n => pure n.erase := by
  simp only [parseName, mkLoc_E, bind_assoc', pure_bind', Name.erase]

theorem parseNamedType_E (fl : Flags) : parseNamedType (E fl) = parseNamedType fl >>= fun n => pure n.erase := by
  simp only [parseNamedType, parseName_E, mkLoc_E, bind_assoc', pure_bind', NamedType.erase]

theorem parseVariable_E (fl : Flags) : parseVariable (E fl) = parseVariable fl >>= fun n => pure n.erase := by
  simp only [parseVariable, parseName_E, mkLoc_E, bind_assoc', pure_bind', Variable.erase]

theorem parseStringLiteral_E (fl : Flags) :
    parseStringLiteral (E fl) = parseStringLiteral fl >>= fun n => pure n.erase := by
  simp only [parseStringLiteral, mkLoc_E, bind_assoc', pure_bind', StringValue.erase]

theorem parseTypeReference_E (fl : Flags) : ∀ n,
    parseTypeReference (E fl) n = parseTypeReference fl n >>= fun t => pure t.erase := by
  intro n
  induction n with
  | zero => simp only [parseTypeReference, fail_bind]
  | succ n ih =>
    simp only [parseTypeReference, parseTypeInner, ih, parseNamedType_E, mkLoc_E, bind_assoc', pure_bind', ite_bind,
      TypeRef.erase]


/-! ### loops -/

theorem manyLoop_E {α β} (p : P α) (e : α → β) (close : TokKind) : ∀ n,
    manyLoop (p >>= fun a => pure (e a)) close n = manyLoop p close n >>= fun xs => pure (xs.map e) := by
  intro n
  induction n with
  | zero => simp only [manyLoop, fail_bind]
  | succ n ih => simp only [manyLoop, ih, bind_assoc', pure_bind', ite_bind, List.map]

theorem many_E {α β} (p : P α) (e : α → β) (n : Nat) (opn close : TokKind) :
    many n opn (p >>= fun a => pure (e a)) close = many n opn p close >>= fun xs => pure (xs.map e) := by
  simp only [many, manyLoop_E, bind_assoc']

theorem optMany_E {α β} (p : P α) (e : α → β) (n : Nat) (opn close : TokKind) :
    optMany n opn (p >>= fun a => pure (e a)) close = optMany n opn p close >>= fun xs => pure (xs.map e) := by
  simp only [optMany, many_E, bind_assoc', pure_bind', ite_bind, List.map]

theorem anyLoop_E {α β} (p : P α) (e : α → β) (close : TokKind) : ∀ n,
    anyLoop (p >>= fun a => pure (e a)) close n = anyLoop p close n >>= fun xs => pure (xs.map e) := by
  intro n
  induction n with
  | zero => simp only [anyLoop, fail_bind]
  | succ n ih => simp only [anyLoop, ih, bind_assoc', pure_bind', ite_bind, List.map]

theorem any_E {α β} (p : P α) (e : α → β) (n : Nat) (opn close : TokKind) :
    any_ n opn (p >>= fun a => pure (e a)) close = any_ n opn p close >>= fun xs => pure (xs.map e) := by
  simp only [any_, anyLoop_E, bind_assoc']

theorem delimLoop_E {α β} (p : P α) (e : α → β) (sep : TokKind) : ∀ n,
    delimLoop (p >>= fun a => pure (e a)) sep n = delimLoop p sep n >>= fun xs => pure (xs.map e) := by
  intro n
  induction n with
  | zero => simp only [delimLoop, fail_bind]
  | succ n ih => simp only [delimLoop, ih, bind_assoc', pure_bind', ite_bind, List.map]

theorem delimitedList_E {α β} (p : P α) (e : α → β) (n : Nat) (sep : TokKind) :
    delimitedList n sep (p >>= fun a => pure (e a)) = delimitedList n sep p >>= fun xs => pure (xs.map e) := by
  simp only [delimitedList, delimLoop_E, bind_assoc']

/-! ### values -/

theorem eraseValues_eq (vs : List Value) : eraseValues vs = vs.map Value.erase := by
  induction vs with
  | nil => simp [eraseValues]
  | cons v vs ih => simp [eraseValues, ih]

theorem eraseFields_eq (fs : List ObjectField) : eraseFields fs = fs.map ObjectField.erase := by
  induction fs with
  | nil => simp [eraseFields]
  | cons v vs ih => simp [eraseFields, ih]

theorem parseObjectFieldWith_E (fl : Flags) (pv : P Value) :
    parseObjectFieldWith (E fl) (pv >>= fun v => pure v.erase) =
      parseObjectFieldWith fl pv >>= fun f => pure f.erase := by
  simp only [parseObjectFieldWith, parseName_E, mkLoc_E, bind_assoc', pure_bind', ObjectField.erase]

theorem parseValueLiteral_E (fl : Flags) : ∀ n c,
    parseValueLiteral (E fl) n c = parseValueLiteral fl n c >>= fun v => pure v.erase := by
  intro n
  induction n with
  | zero => intro c; simp only [parseValueLiteral, fail_bind]
  | succ n ih =>
    intro c
    simp only [parseValueLiteral, bind_assoc']
    congr 1
    funext token
    cases hk : token.kind <;>
      simp only [ih, any_E, anyLoop_E, parseObjectFieldWith_E, parseStringLiteral_E, parseVariable_E, mkLoc_E,
        bind_assoc', pure_bind', ite_bind, fail_bind, Value.erase, eraseValues_eq, eraseFields_eq]

end PyGql.Parse

/-
  C12 text level — LAYER (ii), basics: lines of a description, no wrapping under the width condition, escaping per line.
-/
import PyGqlModel.Lemmas.SdlTextBase
import PyGqlModel.Lemmas.PrintBlockForms
namespace PyGql.SdlText
open PyGql PyGql.Spec PyGql.PrintLex PyGql.PrintTokens PyGql.PrintString PyGql.BlockString PyGql.Lex

theorem splitLF_ne_nil (t : Text) : SdlPrintT.splitLF t ≠ [] := by
  induction t with
  | nil => simp [SdlPrintT.splitLF]
  | cons c t ih =>
    simp only [SdlPrintT.splitLF]
    split
    · simp
    · cases h : SdlPrintT.splitLF t with
      | nil => exact absurd h ih
      | cons l ls => simp

/-- `"\n".join(t.split("\n")) = t` -/
theorem joinLF_splitLF (t : Text) : joinLF (SdlPrintT.splitLF t) = t := by
  induction t with
  | nil => simp [SdlPrintT.splitLF, joinLF]
  | cons c t ih =>
    simp only [SdlPrintT.splitLF]
    split
    · rename_i hc; subst hc
      cases h : SdlPrintT.splitLF t with
      | nil => exact absurd h (splitLF_ne_nil t)
      | cons l ls => rw [h] at ih; rw [joinLF_cons_cons, ih]; simp
    · cases h : SdlPrintT.splitLF t with
      | nil => exact absurd h (splitLF_ne_nil t)
      | cons l ls =>
        rw [h] at ih
        cases ls with
        | nil => simp [joinLF] at ih ⊢; exact ih
        | cons m ms => rw [joinLF_cons_cons] at ih ⊢; simp [ih]

theorem splitLF_noLF (t : Text) : ∀ l ∈ SdlPrintT.splitLF t, ∀ c ∈ l, c ≠ 10 := by
  induction t with
  | nil => intro l hl c hc; simp [SdlPrintT.splitLF] at hl; subst hl; cases hc
  | cons a t ih =>
    intro l hl c hc
    simp only [SdlPrintT.splitLF] at hl
    split at hl
    · simp only [List.mem_cons] at hl
      rcases hl with rfl | hl
      · cases hc
      · exact ih l hl c hc
    · rename_i ha
      cases h : SdlPrintT.splitLF t with
      | nil => exact absurd h (splitLF_ne_nil t)
      | cons m ms =>
        rw [h] at hl ih
        simp only [List.mem_cons] at hl
        rcases hl with rfl | hl
        · simp only [List.mem_cons] at hc
          rcases hc with rfl | hc
          · exact ha
          · exact ih m (by simp) c hc
        · exact ih l (by simp [hl]) c hc

theorem splitLF_mem (t : Text) : ∀ l ∈ SdlPrintT.splitLF t, ∀ c ∈ l, c ∈ t := by
  induction t with
  | nil => intro l hl c hc; simp [SdlPrintT.splitLF] at hl; subst hl; cases hc
  | cons a t ih =>
    intro l hl c hc
    simp only [SdlPrintT.splitLF] at hl
    split at hl
    · simp only [List.mem_cons] at hl
      rcases hl with rfl | hl
      · cases hc
      · exact List.mem_cons_of_mem _ (ih l hl c hc)
    · cases h : SdlPrintT.splitLF t with
      | nil => exact absurd h (splitLF_ne_nil t)
      | cons m ms =>
        rw [h] at hl ih
        simp only [List.mem_cons] at hl
        rcases hl with rfl | hl
        · simp only [List.mem_cons] at hc
          rcases hc with rfl | hc
          · simp
          · exact List.mem_cons_of_mem _ (ih m (by simp) c hc)
        · exact List.mem_cons_of_mem _ (ih l (by simp [hl]) c hc)

/-- no line is wrapped when every line fits -/
theorem wrappedLines_id (ls : List Text) (w : Nat) (h : ∀ l ∈ ls, l.length ≤ w) : SdlPrintT.wrappedLines ls w = ls := by
  unfold SdlPrintT.wrappedLines
  induction ls with
  | nil => rfl
  | cons l ls ih =>
    have hl := h l (by simp)
    simp [List.flatMap_cons, hl, ih (fun x hx => h x (by simp [hx]))]

theorem blank_repeatText (ind : Text) (h : Blank ind) (n : Nat) : Blank (SdlPrintT.repeatText ind n) := by
  induction n with
  | zero => exact blank_nil
  | succ k ih => exact blank_append h ih

theorem length_repeatText (ind : Text) (n : Nat) : (SdlPrintT.repeatText ind n).length = n * ind.length := by
  induction n with
  | zero => simp [SdlPrintT.repeatText]
  | succ k ih => simp [SdlPrintT.repeatText, ih, Nat.succ_mul, Nat.add_comm]

/-! ### escaping line by line = escaping the whole text -/

theorem leadQ_append_lf (l rest : Text) : leadQ (l ++ 10 :: rest) = leadQ l := by
  induction l with
  | nil => simp [leadQ]
  | cons c t ih => by_cases hc : c = 34 <;> simp [leadQ, hc, ih]

theorem escape_append_lf : ∀ (l : Text) (rest : Text) (k : Nat), k ≤ leadQ l →
    escapeTQAux k (l ++ 10 :: rest) = escapeTQAux k l ++ 10 :: escapeTQAux 0 rest
  | [], rest, k, hk => by
    have : k = 0 := by simpa [leadQ] using hk
    subst this
    have hp : ([34, 34, 34] : Text).isPrefixOf (10 :: rest) = false := by simp [List.isPrefixOf]
    simp [escapeTQAux, hp]
  | c :: t, rest, k + 1, hk => by
    have hc : c = 34 := by
      by_cases h : c = 34
      · exact h
      · simp [leadQ, h] at hk
    subst hc
    have hk' : k ≤ leadQ t := by simp [leadQ] at hk; omega
    simp [escapeTQAux, escape_append_lf t rest k hk']
  | c :: t, rest, 0, _ => by
    have hpre : ([34, 34, 34] : Text).isPrefixOf (c :: (t ++ 10 :: rest)) = ([34, 34, 34] : Text).isPrefixOf (c :: t) := by
      rw [Bool.eq_iff_iff]
      have a := tq_prefix_iff (c :: (t ++ 10 :: rest))
      have b := tq_prefix_iff (c :: t)
      simp only [tq] at a b
      rw [a, b]
      have := leadQ_append_lf (c :: t) rest
      simp only [List.cons_append] at this
      rw [this]
    simp only [List.cons_append, escapeTQAux, hpre]
    split
    · rename_i hp
      have h3 : 3 ≤ leadQ (c :: t) := (tq_prefix_iff _).mp (by simpa [tq] using hp)
      have hc : c = 34 := by
        by_cases h : c = 34
        · exact h
        · simp [leadQ, h] at h3
      have h2 : 2 ≤ leadQ t := by subst hc; simp [leadQ] at h3; omega
      simp [escape_append_lf t rest 2 h2]
    · simp [escape_append_lf t rest 0 (Nat.zero_le _)]

theorem escape_joinLF : ∀ (l : Text) (ls : List Text),
    escapeTQAux 0 (joinLF (l :: ls)) = joinLF ((l :: ls).map (escapeTQAux 0))
  | l, [] => by simp [joinLF]
  | l, m :: ms => by
    rw [joinLF_cons_cons, escape_append_lf l _ 0 (Nat.zero_le _), escape_joinLF m ms]
    simp only [List.map_cons]
    rw [joinLF_cons_cons]

end PyGql.SdlText

/-
  Frame / congruence facts of `leaveRule` (see `Lemmas/ValidateChainFrame.lean`), part 2: proved case by case over the
  26 rules and the 14 node kinds.
-/
import PyGqlModel.Lemmas.ValidateChainFrame
namespace PyGql.Validate
open PyGql

set_option maxHeartbeats 2000000 in
/-- a rule only writes its own part, the error list and the exception flag -/
theorem leaveRule_put (s : SchemaD) (fx : Fixes) (r : Rule) (n : Node) (ti : TI) (a : RS) :
    leaveRule s fx r n ti a = RS.put r a (leaveRule s fx r n ti a) := by
  cases r <;> cases n <;> rs_pcases

end PyGql.Validate

/-
  THE BRIDGE, part 4: an erased tree (`no_location=True`, `noloc_erasure` of C02) carries no positions.
-/
import PyGqlModel.Erase
import PyGqlModel.Lemmas.PrintDocMatch
namespace PyGql.PrintTokens
open PyGql PyGql.Ast PyGql.Parse PyGql.Spec PyGql.Print PyGql.PrintLex PyGql.PrintMatch

theorem noLocType_erase (t : TypeRef) : noLocType t.erase = true := by
  induction t with
  | named t => simp [TypeRef.erase, NamedType.erase, Name.erase, noLocType]
  | list t loc ih => simp [TypeRef.erase, noLocType, ih]
  | nonNull t loc ih => simp [TypeRef.erase, noLocType, ih]

mutual
theorem noLocValue_erase : ∀ (v : Value), noLocValue v.erase = true
  | .var v => by simp [Value.erase, Variable.erase, Name.erase, noLocValue]
  | .int _ _ => by simp [Value.erase, noLocValue]
  | .float _ _ => by simp [Value.erase, noLocValue]
  | .string s => by simp [Value.erase, StringValue.erase, noLocValue]
  | .boolean _ _ => by simp [Value.erase, noLocValue]
  | .null _ => by simp [Value.erase, noLocValue]
  | .enum _ _ => by simp [Value.erase, noLocValue]
  | .list vs _ => by simp [Value.erase, noLocValue, noLocValues_erase vs]
  | .object fs _ => by simp [Value.erase, noLocValue, noLocFields_erase fs]
theorem noLocValues_erase : ∀ (vs : List Value), noLocValues (eraseValues vs) = true
  | [] => by simp [eraseValues, noLocValues]
  | v :: vs => by simp [eraseValues, noLocValues, noLocValue_erase v, noLocValues_erase vs]
theorem noLocField_erase : ∀ (f : ObjectField), noLocField f.erase = true
  | .mk name value _ => by simp [ObjectField.erase, Name.erase, noLocField, noLocValue_erase value]
theorem noLocFields_erase : ∀ (fs : List ObjectField), noLocFields (eraseFields fs) = true
  | [] => by simp [eraseFields, noLocFields]
  | f :: fs => by simp [eraseFields, noLocFields, noLocField_erase f, noLocFields_erase fs]
end

theorem noLocArgument_erase (a : Argument) : noLocArgument a.erase = true := by
  simp [Argument.erase, Name.erase, noLocArgument, noLocValue_erase]

theorem all_map_true {α β} (f : α → β) (p : β → Bool) (xs : List α) (h : ∀ x, p (f x) = true) : (xs.map f).all p = true := by
  simp [List.all_map, h]

theorem noLocDirective_erase (d : Directive) : noLocDirective d.erase = true := by
  simp [Directive.erase, Name.erase, noLocDirective, all_map_true _ _ _ noLocArgument_erase]

theorem noLocDirs_erase (ds : List Directive) : (ds.map Directive.erase).all noLocDirective = true :=
  all_map_true _ _ _ noLocDirective_erase

theorem noLocVarDef_erase (d : VariableDefinition) : noLocVarDef d.erase = true := by
  simp only [VariableDefinition.erase, Variable.erase, Name.erase, noLocVarDef, noLocType_erase, noLocDirs_erase,
    Option.isNone_none, Bool.and_self, Bool.true_and, Bool.and_true]
  cases d.defaultValue <;> simp [noLocValue_erase]

mutual
theorem noLocSelection_erase : ∀ (s : Selection), noLocSelection s.erase = true
  | .field alias_ name args dirs ss _ => by
    simp only [Selection.erase, Name.erase, noLocSelection, noLocDirs_erase, all_map_true _ _ _ noLocArgument_erase,
      noLocOptSS_erase ss, Option.isNone_none, Bool.and_true, Bool.true_and]
    cases alias_ <;> simp [Name.erase]
  | .fragmentSpread name dirs _ => by simp [Selection.erase, Name.erase, noLocSelection, noLocDirective_erase]
  | .inlineFragment tc dirs ss _ => by
    simp only [Selection.erase, noLocSelection, noLocDirs_erase, noLocSS_erase ss, Option.isNone_none, Bool.and_true, Bool.true_and]
    cases tc <;> simp [NamedType.erase, Name.erase]
theorem noLocSS_erase : ∀ (ss : SelectionSet), noLocSS ss.erase = true
  | .mk sels _ => by simp [SelectionSet.erase, noLocSS, noLocSelections_erase sels]
theorem noLocOptSS_erase : ∀ (o : Option SelectionSet), noLocOptSS (eraseOptSS o) = true
  | none => by simp [eraseOptSS, noLocOptSS]
  | some ss => by simp [eraseOptSS, noLocOptSS, noLocSS_erase ss]
theorem noLocSelections_erase : ∀ (sels : List Selection), noLocSelections (eraseSelections sels) = true
  | [] => by simp [eraseSelections, noLocSelections]
  | s :: ss => by simp [eraseSelections, noLocSelections, noLocSelection_erase s, noLocSelections_erase ss]
end

theorem noLocInputValue_erase (d : InputValueDefinition) : noLocInputValue d.erase = true := by
  simp only [InputValueDefinition.erase, Name.erase, noLocInputValue, noLocType_erase, noLocDirs_erase, Option.isNone_none,
    Bool.and_self, Bool.true_and, Bool.and_true]
  cases d.defaultValue <;> simp [noLocValue_erase]

theorem noLocFieldDef_erase (d : FieldDefinition) : noLocFieldDef d.erase = true := by
  simp [FieldDefinition.erase, Name.erase, noLocFieldDef, noLocType_erase, noLocDirective_erase, noLocInputValue_erase]

theorem noLocEnumValue_erase (d : EnumValueDefinition) : noLocEnumValue d.erase = true := by
  simp [EnumValueDefinition.erase, Name.erase, noLocEnumValue, noLocDirective_erase]

theorem noLocNamedType_erase (t : NamedType) : noLocNamedType t.erase = true := by
  simp [NamedType.erase, Name.erase, noLocNamedType]

theorem noLocOpType_erase (d : OperationTypeDefinition) : noLocOpType d.erase = true := by
  simp [OperationTypeDefinition.erase, noLocOpType, noLocNamedType_erase]

theorem noLocDesc_erase (o : Option StringValue) : noLocDesc (o.map StringValue.erase) = true := by
  cases o <;> simp [noLocDesc, StringValue.erase]

theorem noLocDefinition_erase (d : Definition) : noLocDefinition d.erase = true := by
  cases d with
  | operation o =>
    simp only [Definition.erase, noLocDefinition, isExecDef, ↓reduceIte, noLocExecDefinition, noLocOperation,
      OperationDefinition.erase, noLocDirs_erase, all_map_true _ _ _ noLocVarDef_erase, noLocSS_erase, Option.isNone_none,
      Bool.and_true, Bool.true_and]
    cases o.name <;> simp [Name.erase]
  | fragment f =>
    simp [Definition.erase, noLocDefinition, isExecDef, noLocExecDefinition, noLocFragment, FragmentDefinition.erase,
      NamedType.erase, Name.erase, noLocDirective_erase, noLocVarDef_erase, noLocSS_erase]
  | _ =>
    simp [Definition.erase, noLocDefinition, isExecDef, noLocTSDefinition, Name.erase, noLocDirective_erase, noLocDesc_erase,
      noLocOpType_erase, noLocFieldDef_erase, noLocEnumValue_erase, noLocInputValue_erase, noLocNamedType_erase]

theorem noLocDocument_erase (d : Document) : noLocDocument d.erase = true := by
  simp [Document.erase, noLocDocument, noLocDefinition_erase]

end PyGql.PrintTokens

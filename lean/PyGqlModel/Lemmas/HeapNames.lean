/-
  C14 — intactness of the registry: which names stay registered (T1).
-/
import PyGqlModel.Lemmas.HeapReach

set_option linter.unusedSimpArgs false
set_option linter.unusedVariables false

namespace PyGql.Heap.Own
open PyGql.Heap

def regNames (reg : List (String × Addr)) : List String := reg.map (·.1)

theorem regSet_names (reg : List (String × Addr)) (nm : String) (a : Addr) (x : String) (hx : x ∈ regNames reg) :
    x ∈ regNames (regSet reg nm a) := by
  simp only [regNames, regSet, List.mem_map] at hx ⊢
  obtain ⟨e, he, rfl⟩ := hx
  split
  · by_cases hq : (e.1 == nm) = true
    · exact ⟨(nm, a), List.mem_map.mpr ⟨e, he, by simp [hq]⟩, by simpa using (beq_iff_eq.mp hq).symm⟩
    · exact ⟨e, List.mem_map.mpr ⟨e, he, by simp [hq]⟩, rfl⟩
  · exact ⟨e, by simp [he], rfl⟩

/-- replacing types by other objects (never `None`) keeps every registered name -/
theorem replaceTypes_names (cfg : Cfg) : ∀ (ut : List (String × Option Addr)) (reg : List (String × Addr)) (b : Bool),
    (∀ x, x ∈ ut → x.2 ≠ none) → ∀ n, n ∈ regNames reg → n ∈ regNames (replaceTypes cfg reg b ut).1 := by
  intro ut
  induction ut with
  | nil => intro reg b _ n hn; simpa [replaceTypes] using hn
  | cons x rest ih =>
    intro reg b hs n hn
    obtain ⟨nm, new⟩ := x
    have hr : ∀ x, x ∈ rest → x.2 ≠ none := fun x hx => hs x (by simp [hx])
    simp only [replaceTypes]
    split
    · exact ih reg b hr n hn
    · cases new with
      | none => exact absurd rfl (hs (nm, none) (by simp))
      | some a' => exact ih _ _ hr n (regSet_names reg nm a' n hn)

theorem mapFilter_snd_irrel : True := trivial

theorem onType_heal_some (reg : List (String × Addr)) (h : Heap) (a : Addr) : (onType .heal reg h a).2 ≠ none := by
  simp only [onType]
  split
  · simp
  · rename_i t _
    split <;> simp only [onComposite, compositeRest, rebuiltOrSame, onInputObject, inputRest, onUnion, onLeaf]
    all_goals (try split) <;> (try split) <;> simp

theorem visitTypes_heal_some (reg : List (String × Addr)) : ∀ (l : List (String × Addr)) (h : Heap),
    ∀ x, x ∈ (visitTypes .heal reg h l).2 → x.2 ≠ none := by
  intro l
  induction l with
  | nil => intro h x hx; simp [visitTypes] at hx
  | cons e rest ih =>
    intro h x hx
    obtain ⟨nm, a⟩ := e
    simp only [visitTypes] at hx
    split at hx
    · exact ih h x hx
    · split at hx
      · simp only [List.mem_cons] at hx
        rcases hx with rfl | hx
        · exact onType_heal_some reg h a
        · exact ih _ x hx
      · exact ih _ x hx

/-- `fix_type_references` never unregisters a name -/
theorem healLoop_names (cfg : Cfg) : ∀ (fuel : Nat) (s : Schema) (h h' : Heap) (s' : Schema),
    healLoop cfg fuel s h = some (h', s') → ∀ n, n ∈ regNames s.types → n ∈ regNames s'.types := by
  intro fuel
  induction fuel with
  | zero => intro s h h' s' e; simp [healLoop] at e
  | succ fuel ih =>
    intro s h h' s' e n hn
    simp only [healLoop] at e
    have h1 : n ∈ regNames (replaceCore cfg s (visitAll .heal s h).2.1 (visitAll .heal s h).2.2).1.types := by
      simp only [replaceCore, visitAll]
      exact replaceTypes_names cfg _ _ _ (visitTypes_heal_some s.types s.types h) n hn
    split at e
    · exact ih _ _ _ _ e n h1
    · cases e; exact h1

theorem replaceTD_names (cfg : Cfg) (fuel : Nat) (s : Schema) (h h' : Heap) (s' : Schema) (ut ud : List (String × Option Addr))
    (hs : ∀ x, x ∈ ut → x.2 ≠ none) (e : replaceTD cfg fuel s h ut ud = some (h', s')) :
    ∀ n, n ∈ regNames s.types → n ∈ regNames s'.types := by
  intro n hn
  have h1 : n ∈ regNames (replaceCore cfg s ut ud).1.types := by
    simp only [replaceCore]; exact replaceTypes_names cfg _ _ _ hs n hn
  simp only [replaceTD] at e
  split at e
  · exact healLoop_names cfg fuel _ _ _ _ e n h1
  · cases e; exact h1

theorem foldl_setdefault_names (l : List (String × Addr)) : ∀ (acc : List (String × Addr)),
    (∀ n, n ∈ regNames acc → n ∈ regNames (l.foldl (fun reg e => if (lookup reg e.1).isSome then reg else reg ++ [e]) acc)) ∧
    (∀ e, e ∈ l → e.1 ∈ regNames (l.foldl (fun reg e => if (lookup reg e.1).isSome then reg else reg ++ [e]) acc)) := by
  induction l with
  | nil => intro acc; exact ⟨fun n hn => hn, by simp⟩
  | cons x l ih =>
    intro acc
    simp only [List.foldl_cons]
    obtain ⟨k1, k2⟩ := ih (if (lookup acc x.1).isSome then acc else acc ++ [x])
    have hx : x.1 ∈ regNames (if (lookup acc x.1).isSome then acc else acc ++ [x]) := by
      split
      · rename_i hl
        cases hq : lookup acc x.1 with
        | none => simp [hq] at hl
        | some a => exact List.mem_map.mpr ⟨(x.1, a), lookup_mem' hq, rfl⟩
      · simp [regNames]
    refine ⟨fun n hn => k1 n ?_, ?_⟩
    · split
      · exact hn
      · simp only [regNames, List.map_append, List.mem_append]; exact Or.inl hn
    · intro e he
      simp only [List.mem_cons] at he
      rcases he with rfl | he
      · exact k1 _ hx
      · exact k2 e he

/-- T1 (fixed variant): a clone registers every name its source registers -/
theorem clone_names (cfg : Cfg) (hd : cfg.deepClone = true) (hk : cfg.keepAllTypes = true) (fuel : Nat) (s : Schema) (h h' : Heap) (s' : Schema)
    (e : clone cfg fuel s h = some (h', s')) : ∀ n, n ∈ regNames s.types → n ∈ regNames s'.types := by
  intro n hn
  simp only [clone] at e
  split at e
  · cases e
  · rename_i h1 s1 hr
    cases e
    have i0 := inv_self h
    obtain ⟨_, _, st, _⟩ := cloneTypes_ok h.size cfg hd s.types h i0
    apply replaceTD_names cfg fuel _ _ _ _ _ _ st hr n
    simp only [cloneRegistry, hk, if_true]
    simp only [regNames, List.mem_map] at hn
    obtain ⟨e0, he0, rfl⟩ := hn
    exact (foldl_setdefault_names s.types _).2 e0 he0


/-- visitors that never return `None` for a type: heal, camel-case, the drop/wrap FIELD directive visitor -/
def NoTypeDelete : Visitor → Prop
  | .vis _ => False
  | _ => True

theorem onType_some (v : Visitor) (hv : NoTypeDelete v) (reg : List (String × Addr)) (h : Heap) (a : Addr) : (onType v reg h a).2 ≠ none := by
  cases v with
  | vis p => exact absurd hv (by simp [NoTypeDelete])
  | heal => exact onType_heal_some reg h a
  | camel r =>
    simp only [onType]
    split
    · simp
    · split <;> simp [onComposite, compositeRest, rebuiltOrSame, onInputObject, inputRest, onUnion, onLeaf]
  | sdir d w =>
    simp only [onType]
    split
    · simp
    · split <;> simp [onComposite, compositeRest, rebuiltOrSame, onInputObject, inputRest, onUnion, onLeaf]

theorem visitTypes_some (v : Visitor) (hv : NoTypeDelete v) (reg : List (String × Addr)) : ∀ (l : List (String × Addr)) (h : Heap),
    ∀ x, x ∈ (visitTypes v reg h l).2 → x.2 ≠ none := by
  intro l
  induction l with
  | nil => intro h x hx; simp [visitTypes] at hx
  | cons e rest ih =>
    intro h x hx
    obtain ⟨nm, a⟩ := e
    simp only [visitTypes] at hx
    split at hx
    · exact ih h x hx
    · split at hx
      · simp only [List.mem_cons] at hx
        rcases hx with rfl | hx
        · exact onType_some v hv reg h a
        · exact ih _ x hx
      · exact ih _ x hx

theorem onSchema_names (cfg : Cfg) (fuel : Nat) (v : Visitor) (hv : NoTypeDelete v) (s : Schema) (h h' : Heap) (s' : Schema)
    (e : onSchema cfg fuel v s h = some (h', s')) : ∀ n, n ∈ regNames s.types → n ∈ regNames s'.types := by
  simp only [onSchema, visitAll] at e
  exact replaceTD_names cfg fuel s _ _ _ _ _ (visitTypes_some v hv s.types s.types h) e

theorem transformFrom_names (cfg : Cfg) (fuel : Nat) : ∀ (vs : List Visitor), (∀ v, v ∈ vs → NoTypeDelete v) →
    ∀ (h : Heap) (s : Schema) (h' : Heap) (s' : Schema), transformFrom cfg fuel vs (h, s) = some (h', s') →
      ∀ n, n ∈ regNames s.types → n ∈ regNames s'.types := by
  intro vs
  induction vs with
  | nil => intro _ h s h' s' e n hn; simp only [transformFrom] at e; cases e; exact hn
  | cons v vs ih =>
    intro hv h s h' s' e n hn
    simp only [transformFrom] at e
    split at e
    · cases e
    · rename_i r hr
      obtain ⟨h1, s1⟩ := r
      exact ih (fun v' hv' => hv v' (by simp [hv'])) h1 s1 h' s' e n (onSchema_names cfg fuel v (hv v (by simp)) s h h1 s1 hr n hn)

end PyGql.Heap.Own

/-
  Layout half of `block_roundtrip`: the three lemmas of DESIGN §5 C03.
-/
import PyGqlModel.Lemmas.LexBlockString

namespace PyGql.BlockString
open PyGql.Spec

/-- a line: no LF, no CR -/
def IsLine (l : Text) : Prop := ∀ c ∈ l, c ≠ 10 ∧ c ≠ 13

theorem splitLinesAux_line_append (l rest : Text) (hl : IsLine l) :
    splitLinesAux false (l ++ rest) = prependLine l (splitLinesAux false rest) := by
  induction l with
  | nil =>
    cases h : splitLinesAux false rest with
    | nil => exact absurd h (splitLinesAux_ne_nil _ _)
    | cons x xs => simp [prependLine, h]
  | cons c t ih =>
    have hc := hl c (by simp)
    have ht : IsLine t := fun x hx => hl x (by simp [hx])
    rw [List.cons_append, splitLinesAux]
    simp only [hc.1, hc.2, ↓reduceIte, ih ht]
    cases h : splitLinesAux false rest with
    | nil => exact absurd h (splitLinesAux_ne_nil _ _)
    | cons x xs => simp [prependLine]

/-- `splitLines (joinLF ls) = ls` for a non-empty list of lines -/
theorem splitLines_joinLF (l : Text) (ls : List Text) (h : ∀ x ∈ l :: ls, IsLine x) :
    splitLines (joinLF (l :: ls)) = l :: ls := by
  unfold splitLines
  induction ls generalizing l with
  | nil =>
    have := splitLinesAux_line_append l [] (h l (by simp))
    simpa [joinLF, splitLinesAux, prependLine] using this
  | cons l2 ls ih =>
    have hj : joinLF (l :: l2 :: ls) = l ++ 10 :: joinLF (l2 :: ls) := by rw [joinLF]; simp
    rw [hj, splitLinesAux_line_append l _ (h l (by simp))]
    have : splitLinesAux false (10 :: joinLF (l2 :: ls)) = [] :: splitLinesAux false (joinLF (l2 :: ls)) := by
      simp [splitLinesAux]
    rw [this, ih l2 (fun x hx => h x (by simp [List.mem_cons] at hx ⊢; right; exact hx))]
    simp [prependLine]

/-- a layout prefix: spaces and tabs only -/
def IsBlank (p : Text) : Prop := ∀ c ∈ p, isWhiteSpace c = true

theorem indentOf_prefix (p l : Text) (hp : IsBlank p) : indentOf (p ++ l) = p.length + indentOf l := by
  induction p with
  | nil => simp
  | cons c t ih =>
    have hc := hp c (by simp)
    have := ih (fun x hx => hp x (by simp [hx]))
    simp only [indentOf, List.cons_append, List.takeWhile_cons, hc, ↓reduceIte, List.length_cons] at this ⊢
    omega

theorem indentStep_prefix (p l : Text) (hp : IsBlank p) (acc : Option Nat) :
    indentStep (acc.map (p.length + ·)) (p ++ l) = (indentStep acc l).map (p.length + ·) := by
  rw [indentStep_eq, indentStep_eq, indentOf_prefix p l hp, List.length_append]
  by_cases h : indentOf l < l.length
  · have h' : p.length + indentOf l < p.length + l.length := by omega
    simp only [h, h', ↓reduceIte]
    cases acc with
    | none => simp [optMin]
    | some a => simp [optMin, Nat.add_min_add_left]
  · have h' : ¬ p.length + indentOf l < p.length + l.length := by omega
    simp [h, h']

/-- `commonIndent (map (P ++ ·) ls) = |P| + commonIndent ls` (over the lines the loop looks at) -/
theorem foldl_indentStep_prefix (p : Text) (hp : IsBlank p) (ls : List Text) (acc : Option Nat) :
    (ls.map (p ++ ·)).foldl indentStep (acc.map (p.length + ·)) = (ls.foldl indentStep acc).map (p.length + ·) := by
  induction ls generalizing acc with
  | nil => rfl
  | cons l ls ih =>
    simp only [List.map_cons, List.foldl_cons]
    rw [indentStep_prefix p l hp acc, ih]

/-- stripBlank: leading / trailing blank lines are removed, a non-blank line stops the removal -/
theorem popLeading_blank (b : Text) (ls : List Text) (hb : IsBlank b) : popLeading (b :: ls) = popLeading ls := by
  have : (lstrip b).isEmpty = true := by
    rw [lstrip_isEmpty]; exact List.all_eq_true.mpr hb
  simp [popLeading, this]

theorem popLeading_nonblank (l : Text) (ls : List Text) (hl : onlyWhiteSpace l = false) :
    popLeading (l :: ls) = l :: ls := by
  simp [popLeading, lstrip_isEmpty, hl]

theorem popTrailing_blank (ls : List Text) (b : Text) (hb : IsBlank b) : popTrailing (ls ++ [b]) = popTrailing ls := by
  have hbb : onlyWhiteSpace b = true := List.all_eq_true.mpr hb
  rw [popTrailing_spec, popTrailing_spec]
  simp [List.dropWhile_cons, hbb]

theorem popTrailing_nonblank (ls : List Text) (l : Text) (hl : onlyWhiteSpace l = false) :
    popTrailing (ls ++ [l]) = ls ++ [l] := by
  rw [popTrailing_spec]
  simp [List.dropWhile_cons, hl]

end PyGql.BlockString

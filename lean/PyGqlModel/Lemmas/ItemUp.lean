/-
  The matcher of `Spec/Grammar.lean` (1) under moving every position UP by an offset (mirror of `check_down`), and
  (2) for PLAIN items — no optional token, no look-ahead restriction anywhere below — independent of what FOLLOWS the
  matched tokens.  Used by the re-parse-in-context theorems of C02 (`Props/C02_reparse_ctx.lean`).
-/
import PyGqlModel.Lemmas.ItemSlice
namespace PyGql.Spec
open PyGql PyGql.Ast PyGql.Parse

/-- move a span up by `d` -/
def locUp (d : Nat) : Loc → Loc
  | none => none
  | some (a, b) => some (a + d, b + d)

namespace Item

mutual
/-- move every `loc` of the item up by `d` -/
def up (d : Nat) : Item → Item
  | .node loc is => .node (locUp d loc) (upAll d is)
  | .tok k v => .tok k v
  | .optTok k v => .optTok k v
  | .nla k => .nla k
def upAll (d : Nat) : List Item → List Item
  | [] => []
  | i :: is => i.up d :: upAll d is
end

mutual
/-- no optional token and no look-ahead restriction anywhere below -/
def plain : Item → Bool
  | .tok _ _ => true
  | .optTok _ _ => false
  | .nla _ => false
  | .node _ is => plainAll is
def plainAll : List Item → Bool
  | [] => true
  | i :: is => i.plain && plainAll is
end

end Item

theorem cls_up (d : Nat) (t : Tok) : cls (t.up d) = cls t := rfl
theorem kind_up (d : Nat) (t : Tok) : (t.up d).kind = t.kind := rfl

theorem locOf_up (fl : Flags) (d : Nat) (f l : Tok) : locOf fl (f.up d) (l.up d) = locUp d (locOf fl f l) := by
  unfold locOf; split <;> rfl

mutual
theorem check_up (fl : Flags) (d : Nat) : ∀ (i : Item) (l l' : Tok) (ts rest : List Tok),
    i.check fl l ts = some (l', rest) →
    (i.up d).check fl (l.up d) (ts.map (Tok.up d)) = some (l'.up d, rest.map (Tok.up d))
  | .tok k v, l, l', ts, rest, h => by
    rw [check_tok] at h
    obtain ⟨t, rfl, hc, rfl⟩ := h
    simp only [Item.up, List.map_cons]
    rw [check_tok]
    exact ⟨_, rfl, hc, rfl⟩
  | .optTok k v, l, l', ts, rest, h => by
    rw [check_optTok] at h
    simp only [Item.up]
    rw [check_optTok]
    rcases h with ⟨t, rfl, hc, rfl⟩ | ⟨rfl, rfl, hn⟩
    · exact .inl ⟨_, rfl, hc, rfl⟩
    · refine .inr ⟨rfl, rfl, ?_⟩
      intro t tl e
      cases rest with
      | nil => simp at e
      | cons t0 tl0 =>
        simp only [List.map_cons, List.cons.injEq] at e
        rw [← e.1, cls_up]; exact hn t0 tl0 rfl
  | .nla k, l, l', ts, rest, h => by
    rw [check_nla] at h
    simp only [Item.up]
    rw [check_nla]
    obtain ⟨rfl, rfl, hn⟩ := h
    refine ⟨rfl, rfl, ?_⟩
    intro t tl e
    cases rest with
    | nil => simp at e
    | cons t0 tl0 =>
      simp only [List.map_cons, List.cons.injEq] at e
      rw [← e.1, kind_up]; exact hn t0 tl0 rfl
  | .node loc is, l, l', ts, rest, h => by
    rw [check_node] at h
    obtain ⟨f, tl, rfl, hall, hloc⟩ := h
    simp only [Item.up]
    rw [check_node]
    refine ⟨f.up d, tl.map (Tok.up d), by simp, ?_, ?_⟩
    · simpa using checkAll_up fl d is l l' (f :: tl) rest hall
    · rw [hloc, locOf_up]
theorem checkAll_up (fl : Flags) (d : Nat) : ∀ (is : List Item) (l l' : Tok) (ts rest : List Tok),
    Item.checkAll fl is l ts = some (l', rest) →
    Item.checkAll fl (Item.upAll d is) (l.up d) (ts.map (Tok.up d)) = some (l'.up d, rest.map (Tok.up d))
  | [], l, l', ts, rest, h => by
    rw [checkAll_nil] at h
    cases h
    simp [Item.upAll, Item.checkAll]
  | i :: is, l, l', ts, rest, h => by
    rw [checkAll_cons] at h
    obtain ⟨l1, ts1, h1, h2⟩ := h
    simp only [Item.upAll]
    rw [checkAll_cons]
    exact ⟨_, _, check_up fl d i l l1 ts ts1 h1, checkAll_up fl d is l1 l' ts1 rest h2⟩
end

/-! ### plain items do not look at what follows -/

mutual
theorem check_free (fl : Flags) : ∀ (i : Item) (l l' : Tok) (ts rest : List Tok), i.solid = true → i.plain = true →
    i.check fl l ts = some (l', rest) →
    ∃ pre, ts = pre ++ rest ∧ ∀ rest2, i.check fl l (pre ++ rest2) = some (l', rest2)
  | .tok k v, l, l', ts, rest, _, _, h => by
    rw [check_tok] at h
    obtain ⟨t, rfl, hc, rfl⟩ := h
    refine ⟨[l'], rfl, fun rest2 => ?_⟩
    rw [check_tok]; exact ⟨_, rfl, hc, rfl⟩
  | .optTok k v, _, _, _, _, _, hp, _ => by simp [Item.plain] at hp
  | .nla k, _, _, _, _, _, hp, _ => by simp [Item.plain] at hp
  | .node loc is, l, l', ts, rest, hs, hp, h => by
    rw [check_node] at h
    obtain ⟨f, tl, rfl, hall, hloc⟩ := h
    simp only [Item.solid, Bool.and_eq_true] at hs
    simp only [Item.plain] at hp
    obtain ⟨pre, hpre, hr⟩ := checkAll_free fl is l l' (f :: tl) rest hs.2 hp hall
    have hlt := checkAll_lead fl is l l' (f :: tl) rest hs.1 hall
    cases pre with
    | nil => simp at hpre; subst hpre; simp at hlt
    | cons f' tl' =>
      simp only [List.cons_append, List.cons.injEq] at hpre
      obtain ⟨rfl, rfl⟩ := hpre
      refine ⟨f :: tl', rfl, fun rest2 => ?_⟩
      rw [check_node]
      exact ⟨f, tl' ++ rest2, rfl, hr rest2, hloc⟩
theorem checkAll_free (fl : Flags) : ∀ (is : List Item) (l l' : Tok) (ts rest : List Tok),
    Item.solidAll is = true → Item.plainAll is = true → Item.checkAll fl is l ts = some (l', rest) →
    ∃ pre, ts = pre ++ rest ∧ ∀ rest2, Item.checkAll fl is l (pre ++ rest2) = some (l', rest2)
  | [], l, l', ts, rest, _, _, h => by
    rw [checkAll_nil] at h
    cases h
    exact ⟨[], rfl, fun rest2 => by simp [Item.checkAll]⟩
  | i :: is, l, l', ts, rest, hs, hp, h => by
    rw [checkAll_cons] at h
    obtain ⟨l1, ts1, h1, h2⟩ := h
    simp only [Item.solidAll, Bool.and_eq_true] at hs
    simp only [Item.plainAll, Bool.and_eq_true] at hp
    obtain ⟨p1, rfl, r1⟩ := check_free fl i l l1 ts ts1 hs.1 hp.1 h1
    obtain ⟨p2, rfl, r2⟩ := checkAll_free fl is l1 l' ts1 rest hs.2 hp.2 h2
    refine ⟨p1 ++ p2, by simp, fun rest2 => ?_⟩
    rw [checkAll_cons]
    refine ⟨l1, p2 ++ rest2, ?_, r2 rest2⟩
    rw [List.append_assoc]
    exact r1 _
end

end PyGql.Spec

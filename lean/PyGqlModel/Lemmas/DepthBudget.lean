/-
  C19 — the nesting budget of C19-Q2.patch: (1) with the tolerant directive evaluation the traversal can
  fail ONLY by exhausting its budget; (2) the budget `(fragments + 2) * (1 + deepest written nesting)`
  is at least the fuel that suffices on acyclic documents.
-/
import PyGqlModel.Lemmas.DepthTolerant

set_option linter.unusedVariables false
set_option linter.unusedSimpArgs false

namespace PyGql.Depth.Lemmas
open PyGql.Depth PyGql.DepthSpec

/-! ### the only failure is budget exhaustion -/

theorem skipT_total (d : Dirs) (vars : Vars) : ∃ b, skipSelectionT d vars = .ok b := by
  unfold skipSelectionT
  cases skipSelection d vars with
  | ok b => exact ⟨b, rfl⟩
  | error e => exact ⟨false, rfl⟩

theorem stepG_err (frags : List Frag) (vars : Vars) (rec : List Sel → List String → Except Err CState)
    (hrec : ∀ ss sn e, rec ss sn = .error e → e = .recursion)
    (st : CState) (s : Sel) (e : Err) (h : collectStepG skipSelectionT rec frags vars st s = .error e) :
    e = .recursion := by
  cases s with
  | field a n d sub =>
    obtain ⟨b, hb⟩ := skipT_total d vars
    cases b <;> simp [collectStepG, hb] at h
  | inline d ss =>
    obtain ⟨b, hb⟩ := skipT_total d vars
    cases b with
    | true => simp [collectStepG, hb] at h
    | false =>
      simp only [collectStepG, hb] at h
      cases hr : rec ss st.2 with
      | error e' => simp [hr] at h; subst h; exact hrec _ _ _ hr
      | ok r => obtain ⟨g, s'⟩ := r; simp [hr] at h
  | spread n d =>
    obtain ⟨b, hb⟩ := skipT_total d vars
    cases b with
    | true => simp [collectStepG, hb] at h
    | false =>
      simp only [collectStepG, hb] at h
      by_cases hc : st.2.contains n = true
      · rw [if_pos hc] at h; cases h
      · rw [if_neg hc] at h
        cases hl : lookupFrag frags n with
        | none => simp [hl] at h
        | some fr =>
          simp only [hl] at h
          cases hr : rec fr.sels st.2 with
          | error e' => simp [hr] at h; subst h; exact hrec _ _ _ hr
          | ok r => obtain ⟨g, s'⟩ := r; simp [hr] at h

theorem loopG_err (frags : List Frag) (vars : Vars) (rec : List Sel → List String → Except Err CState)
    (hrec : ∀ ss sn e, rec ss sn = .error e → e = .recursion) :
    ∀ (sels : List Sel) (st : CState) (e : Err),
      loopM (collectStepG skipSelectionT rec frags vars) st sels = .error e → e = .recursion := by
  intro sels
  induction sels with
  | nil => intro st e h; simp [loopM] at h
  | cons s ss ih =>
    intro st e h
    simp only [loopM] at h
    cases hs : collectStepG skipSelectionT rec frags vars st s with
    | error e' => simp [hs] at h; subst h; exact stepG_err frags vars rec hrec st s _ hs
    | ok st' => simp only [hs] at h; exact ih st' e h

theorem collectG_err (frags : List Frag) (vars : Vars) :
    ∀ (k : Nat) (sels : List Sel) (seen : List String) (e : Err),
      collectFieldsUntypedG skipSelectionT k sels frags vars seen = .error e → e = .recursion := by
  intro k
  induction k with
  | zero => intro sels seen e h; simp [collectFieldsUntypedG] at h; exact h.symm
  | succ k ih =>
    intro sels seen e h
    have hun : collectFieldsUntypedG skipSelectionT (k + 1) sels frags vars seen =
        loopM (collectStepG skipSelectionT (fun ss sn => collectFieldsUntypedG skipSelectionT k ss frags vars sn)
          frags vars) ([], seen) sels := rfl
    rw [hun] at h
    exact loopG_err frags vars _ (fun ss sn e' he => ih ss sn e' he) sels _ e h

theorem levelsLoop_err (rec : List Sel → Except Err Nat) (hrec : ∀ ss e, rec ss = .error e → e = .recursion) :
    ∀ (G : Grouped) (lv : Nat) (e : Err), levelsLoop rec lv G = .error e → e = .recursion := by
  intro G
  induction G with
  | nil => intro lv e h; simp [levelsLoop] at h
  | cons kv rest ih =>
    intro lv e h
    obtain ⟨k, fs⟩ := kv
    simp only [levelsLoop] at h
    cases hr : rec (fs.flatMap (·.sub)) with
    | error e' => simp [hr] at h; subst h; exact hrec _ _ hr
    | ok n => simp only [hr] at h; exact ih _ e h

theorem nestingG_err (frags : List Frag) (vars : Vars) :
    ∀ (k : Nat) (sels : List Sel) (e : Err),
      nestingLevelsG skipSelectionT k sels frags vars = .error e → e = .recursion := by
  intro k
  induction k with
  | zero => intro sels e h; simp [nestingLevelsG] at h; exact h.symm
  | succ k ih =>
    intro sels e h
    have hun : nestingLevelsG skipSelectionT (k + 1) sels frags vars =
        (match collectFieldsUntypedG skipSelectionT (k + 1) sels frags vars [] with
         | .error e => .error e
         | .ok (collected, _) => levelsLoop (fun ss => nestingLevelsG skipSelectionT k ss frags vars) 0 collected) := rfl
    rw [hun] at h
    cases hc : collectFieldsUntypedG skipSelectionT (k + 1) sels frags vars [] with
    | error e' => simp [hc] at h; subst h; exact collectG_err frags vars _ _ _ _ hc
    | ok r =>
      obtain ⟨G, S'⟩ := r
      simp only [hc] at h
      exact levelsLoop_err _ (fun ss e' he => ih ss e' he) G 0 e h

/-- `depthFixedB` never fails: a depth, or "unbounded" -/
theorem depthFixedB_total (fuel : Nat) (op : Op) (frags : List Frag) (vars : Vars) :
    ∃ r, depthFixedB fuel op frags vars = .ok r := by
  unfold depthFixedB
  cases hd : depthFixedG skipSelectionT fuel op frags vars with
  | ok d => exact ⟨some d, rfl⟩
  | error e =>
    have : e = .recursion := by
      unfold depthFixedG at hd
      cases hn : nestingLevelsG skipSelectionT fuel op.sels frags vars with
      | error e' => simp [hn] at hd; subst hd; exact nestingG_err frags vars _ _ _ hn
      | ok n => simp [hn] at hd
    subst this
    exact ⟨none, rfl⟩

theorem ruleLoopB_total (depthOf : Nat → Op → Except Err (Option Nat)) (h : ∀ i op, ∃ r, depthOf i op = .ok r)
    (limit : Nat) (filter : Option String) :
    ∀ (ops : List Op) (i : Nat), ∃ errs, ruleLoopB depthOf limit filter i ops = .ok errs := by
  intro ops
  induction ops with
  | nil => intro i; exact ⟨[], rfl⟩
  | cons op rest ih =>
    intro i
    obtain ⟨errs, he⟩ := ih (i + 1)
    obtain ⟨r, hr⟩ := h i op
    simp only [ruleLoopB, hr, he]
    split <;> exact ⟨_, rfl⟩

/-! ### the budget covers the fuel of acyclic documents -/

theorem maxList_le {l : List Nat} {b : Nat} (h : ∀ x ∈ l, x ≤ b) : maxList l ≤ b := by
  induction l with
  | nil => simp [maxList]
  | cons y ys ih =>
    simp only [maxList]
    have h1 := h y (by simp)
    have h2 := ih (fun x hx => h x (by simp [hx]))
    omega

theorem le_maxList' {l : List Nat} {x : Nat} (h : x ∈ l) : x ≤ maxList l := by
  induction l with
  | nil => cases h
  | cons y ys ih =>
    simp only [maxList]
    cases h with
    | head => omega
    | tail _ h => have := ih h; omega

mutual
theorem pot_le_nest_add (w : String → Nat) (M : Nat) (hw : ∀ g, w g ≤ M) :
    ∀ s : Sel, pot w s ≤ pot (fun _ => 0) s + M
  | .field a n d sub => by rw [pot_field, pot_field]; have := potL_le_nest_add w M hw sub; omega
  | .inline d ss => by rw [pot_inline, pot_inline]; have := potL_le_nest_add w M hw ss; omega
  | .spread n d => by rw [pot_spread, pot_spread]; have := hw n; omega
theorem potL_le_nest_add (w : String → Nat) (M : Nat) (hw : ∀ g, w g ≤ M) :
    ∀ l : List Sel, potL w l ≤ potL (fun _ => 0) l + M
  | [] => by rw [potL_nil, potL_nil]; omega
  | s :: ss => by
    rw [potL_cons, potL_cons]
    have := pot_le_nest_add w M hw s
    have := potL_le_nest_add w M hw ss
    omega
end

theorem firstW_le_bound (w : String → Nat) (M Dm : Nat) (hw : ∀ g, w g ≤ M) (n : String) :
    ∀ frags : List Frag, (∀ f ∈ frags, nestOf f.sels ≤ Dm) → firstW w n frags ≤ Dm + M := by
  intro frags
  induction frags with
  | nil => intro _; simp [firstW]
  | cons f fs ih =>
    intro h
    simp only [firstW]
    split
    · have h1 := potL_le_nest_add w M hw f.sels
      have h2 := h f (by simp)
      unfold nestOf at h2
      omega
    · exact ih (fun g hg => h g (by simp [hg]))

theorem W_le (frags : List Frag) (Dm : Nat) (hD : ∀ f ∈ frags, nestOf f.sels ≤ Dm) :
    ∀ (k : Nat) (n : String), W frags k n ≤ k * (Dm + 1) := by
  intro k
  induction k with
  | zero => intro n; simp [W, iter, wOf, List.lookup]
  | succ k ih =>
    intro n
    rw [W_succ]
    have := firstW_le_bound (W frags k) (k * (Dm + 1)) Dm ih n frags hD
    rw [Nat.succ_mul]
    omega

/-- **fuel_le_budget** — the budget the repaired rule starts with is at least the fuel that suffices on an
    acyclic document (so the budget changes nothing there) -/
theorem fuel_le_budget (doc : Doc) : doc.fuel ≤ doc.budget := by
  let Dall := maxList (doc.ops.map (fun o => nestOf o.sels) ++ doc.frags.map (fun f => nestOf f.sels))
  have hDf : ∀ f ∈ doc.frags, nestOf f.sels ≤ Dall := by
    intro f hf
    apply le_maxList'
    simp only [List.mem_append, List.mem_map]
    exact Or.inr ⟨f, hf, rfl⟩
  have hDo : ∀ o ∈ doc.ops, nestOf o.sels ≤ Dall := by
    intro o ho
    apply le_maxList'
    simp only [List.mem_append, List.mem_map]
    exact Or.inl ⟨o, ho, rfl⟩
  have hW := W_le doc.frags Dall hDf (doc.frags.length + 1)
  have hops : maxList (doc.ops.map fun op => potL (wOf (weights doc.frags)) op.sels) ≤
      Dall + (doc.frags.length + 1) * (Dall + 1) := by
    apply maxList_le
    intro x hx
    simp only [List.mem_map] at hx
    obtain ⟨o, ho, rfl⟩ := hx
    have h1 := potL_le_nest_add (wOf (weights doc.frags)) ((doc.frags.length + 1) * (Dall + 1)) hW o.sels
    have h2 := hDo o ho
    unfold nestOf at h2
    omega
  show maxList (doc.ops.map fun op => potL (wOf (weights doc.frags)) op.sels) + 1 ≤
    (doc.frags.length + 2) * (1 + Dall)
  have e : (doc.frags.length + 2) * (1 + Dall) = (doc.frags.length + 1) * (Dall + 1) + (Dall + 1) := by
    rw [show doc.frags.length + 2 = (doc.frags.length + 1) + 1 by omega, Nat.succ_mul, Nat.add_comm 1 Dall]
  rw [e]
  omega

end PyGql.Depth.Lemmas

/-
  THE VERDICT OF A CHAIN IS THE CONJUNCTION OF ITS MEMBERS RUN ALONE, part 1: one node.

  For any rule-enter function `er` with the frame properties of `Lemmas/ValidateChainFrame*.lean` (`Framed`; instances:
  `enterRule`, and `enterRuleM` = the memoised overlap search /repo runs), the state of the chain and the state of rule
  `r` run alone (`c.only r`) stay related (`Rel`: same TypeInfo, same own part, the errors of the lone run are the
  errors of `r` in the chain) across `enter` and `leave` of a node - as long as nobody raises `SkipNode`; and whether
  the chain skips is the disjunction of the members' flags (`enterRulesPar_flag_iff`).
-/
import PyGqlModel.Validate.ChainPar
import PyGqlModel.Lemmas.ValidateChainFrameL1
import PyGqlModel.Lemmas.ValidateChainFrameL2
namespace PyGql.Validate
open PyGql

/-- what the decomposition needs of a rule-enter function -/
structure Framed (er : ER) : Prop where
  flag : ∀ (s : SchemaD) (fx : Fixes) (r : Rule) (n : Node) (ti : TI) (a : RS), (er s fx r n ti a).2 = (er s fx r n ti (a.own r)).2
  own : ∀ (s : SchemaD) (fx : Fixes) (r : Rule) (n : Node) (ti : TI) (a : RS), ((er s fx r n ti a).1).own r = ((er s fx r n ti (a.own r)).1).own r
  errs : ∀ (s : SchemaD) (fx : Fixes) (r : Rule) (n : Node) (ti : TI) (a : RS), (er s fx r n ti a).1.errs = (er s fx r n ti (a.own r)).1.errs ++ a.errs
  mine : ∀ (s : SchemaD) (fx : Fixes) (r : Rule) (n : Node) (ti : TI) (a : RS), ∀ x ∈ (er s fx r n ti (a.own r)).1.errs, x = r
  put : ∀ (s : SchemaD) (fx : Fixes) (r : Rule) (n : Node) (ti : TI) (a : RS), (er s fx r n ti a).1 = RS.put r a (er s fx r n ti a).1
  skip : ∀ (s : SchemaD) (fx : Fixes) (r : Rule) (n : Node) (ti : TI) (a : RS), (er s fx r n ti a).2 = true → a.errs.length < (er s fx r n ti a).1.errs.length

/-- the chain state `a` and the state `b` of rule `r` run alone: same own part; the errors of the lone run are the
    errors of `r` in the chain -/
def RelRS (r : Rule) (a b : RS) : Prop := a.own r = b.own r ∧ b.errs = a.errs.filter (· == r)

theorem filter_mine (r : Rule) (X : List Rule) (h : ∀ x ∈ X, x = r) : X.filter (· == r) = X :=
  List.filter_eq_self.mpr fun x hx => by simp [h x hx]

theorem filter_other (r r' : Rule) (hne : r' ≠ r) (X : List Rule) (h : ∀ x ∈ X, x = r') : X.filter (· == r) = [] :=
  List.filter_eq_nil_iff.mpr fun x hx => by simp [h x hx, hne]

section
variable {er : ER} (F : Framed er) (s : SchemaD) (fx : Fixes) (n : Node) (ti : TI)
include F

theorem er_self {r : Rule} {a b : RS} (h : RelRS r a b) :
    RelRS r (er s fx r n ti a).1 (er s fx r n ti b).1 ∧ (er s fx r n ti a).2 = (er s fx r n ti b).2 := by
  refine ⟨⟨?_, ?_⟩, ?_⟩
  · rw [F.own, F.own s fx r n ti b, h.1]
  · rw [F.errs s fx r n ti b, F.errs s fx r n ti a, List.filter_append, h.2, h.1,
      filter_mine r _ (F.mine s fx r n ti b)]
  · rw [F.flag, F.flag s fx r n ti b, h.1]

theorem er_other {r r' : Rule} (hne : r' ≠ r) {a b : RS} (h : RelRS r a b) : RelRS r (er s fx r' n ti a).1 b := by
  refine ⟨?_, ?_⟩
  · rw [F.put, RS.own_put_ne r r' (Ne.symm hne)]; exact h.1
  · rw [F.errs s fx r' n ti a, List.filter_append, filter_other r r' hne _ (F.mine s fx r' n ti a), List.nil_append]
    exact h.2

theorem er_mono (r : Rule) (a : RS) : a.errs.length ≤ (er s fx r n ti a).1.errs.length := by
  rw [F.errs]; simp

theorem er_errsIn (L : List Rule) (r : Rule) (hr : r ∈ L) (a : RS) (h : ∀ x ∈ a.errs, x ∈ L) :
    ∀ x ∈ (er s fx r n ti a).1.errs, x ∈ L := by
  intro x hx
  rw [F.errs] at hx
  rcases List.mem_append.mp hx with hx | hx
  · rw [F.mine s fx r n ti a x hx]; exact hr
  · exact h x hx

end

/-! the same for `leaveRule` -/

theorem lr_self (s : SchemaD) (fx : Fixes) (n : Node) (ti : TI) {r : Rule} {a b : RS} (h : RelRS r a b) :
    RelRS r (leaveRule s fx r n ti a) (leaveRule s fx r n ti b) := by
  refine ⟨?_, ?_⟩
  · rw [leaveRule_own, leaveRule_own s fx r n ti b, h.1]
  · rw [leaveRule_errs s fx r n ti b, leaveRule_errs s fx r n ti a, List.filter_append, h.2, h.1,
      filter_mine r _ (leaveRule_errs_mine s fx r n ti b)]

theorem lr_other (s : SchemaD) (fx : Fixes) (n : Node) (ti : TI) {r r' : Rule} (hne : r' ≠ r) {a b : RS}
    (h : RelRS r a b) : RelRS r (leaveRule s fx r' n ti a) b := by
  refine ⟨?_, ?_⟩
  · rw [leaveRule_put, RS.own_put_ne r r' (Ne.symm hne)]; exact h.1
  · rw [leaveRule_errs s fx r' n ti a, List.filter_append,
      filter_other r r' hne _ (leaveRule_errs_mine s fx r' n ti a), List.nil_append]
    exact h.2

theorem lr_mono (s : SchemaD) (fx : Fixes) (n : Node) (ti : TI) (r : Rule) (a : RS) :
    a.errs.length ≤ (leaveRule s fx r n ti a).errs.length := by
  rw [leaveRule_errs]; simp

theorem lr_errsIn (s : SchemaD) (fx : Fixes) (n : Node) (ti : TI) (L : List Rule) (r : Rule) (hr : r ∈ L) (a : RS)
    (h : ∀ x ∈ a.errs, x ∈ L) : ∀ x ∈ (leaveRule s fx r n ti a).errs, x ∈ L := by
  intro x hx
  rw [leaveRule_errs] at hx
  rcases List.mem_append.mp hx with hx | hx
  · rw [leaveRule_errs_mine s fx r n ti a x hx]; exact hr
  · exact h x hx

/-! ### the list of rules -/

theorem enterRulesPar_cons (er : ER) (c : Cfg) (n : Node) (ti : TI) (r : Rule) (rest : List Rule) (a : RS) :
    enterRulesPar er c n ti (r :: rest) a =
      ((enterRulesPar er c n ti rest (er c.schema c.fixes r n ti a).1).1,
       (er c.schema c.fixes r n ti a).2 || (enterRulesPar er c n ti rest (er c.schema c.fixes r n ti a).1).2) := by
  simp only [enterRulesPar]

section
variable {er : ER} (F : Framed er) (c : Cfg) (n : Node) (ti : TI)
include F

theorem enterRulesPar_rel (r : Rule) : ∀ (rules : List Rule) (a b : RS), rules.Nodup → RelRS r a b →
    (r ∈ rules → RelRS r (enterRulesPar er c n ti rules a).1 (er c.schema c.fixes r n ti b).1) ∧
    (r ∉ rules → RelRS r (enterRulesPar er c n ti rules a).1 b)
  | [], a, b, _, h => ⟨fun hm => absurd hm (by simp), fun _ => h⟩
  | r1 :: rest, a, b, hnd, h => by
    rw [enterRulesPar_cons]
    simp only
    have hnd' := List.nodup_cons.mp hnd
    by_cases e : r1 = r
    · subst e
      have h1 := (er_self F c.schema c.fixes n ti h).1
      exact ⟨fun _ => (enterRulesPar_rel r1 rest _ _ hnd'.2 h1).2 hnd'.1, fun hm => absurd (List.mem_cons_self ..) hm⟩
    · have h1 := er_other F c.schema c.fixes n ti e h
      have ih := enterRulesPar_rel r rest _ b hnd'.2 h1
      refine ⟨fun hm => ih.1 ?_, fun hm => ih.2 fun hm' => hm (List.mem_cons_of_mem _ hm')⟩
      rcases List.mem_cons.mp hm with e' | hm'
      · exact absurd e'.symm e
      · exact hm'

theorem enterRulesPar_flag_iff : ∀ (rules : List Rule) (a : RS) (g : Rule → RS), rules.Nodup →
    (∀ r ∈ rules, a.own r = (g r).own r) →
    ((enterRulesPar er c n ti rules a).2 = true ↔ ∃ r ∈ rules, (er c.schema c.fixes r n ti (g r)).2 = true)
  | [], a, g, _, _ => by simp [enterRulesPar]
  | r1 :: rest, a, g, hnd, h => by
    rw [enterRulesPar_cons]
    simp only [Bool.or_eq_true]
    have hnd' := List.nodup_cons.mp hnd
    have hflag : (er c.schema c.fixes r1 n ti a).2 = (er c.schema c.fixes r1 n ti (g r1)).2 := by
      rw [F.flag, F.flag c.schema c.fixes r1 n ti (g r1), h r1 (List.mem_cons_self ..)]
    have hrest : ∀ r ∈ rest, ((er c.schema c.fixes r1 n ti a).1).own r = (g r).own r := by
      intro r hr
      have hne : r ≠ r1 := fun e => hnd'.1 (e ▸ hr)
      rw [F.put, RS.own_put_ne r r1 hne]
      exact h r (List.mem_cons_of_mem _ hr)
    rw [enterRulesPar_flag_iff rest _ g hnd'.2 hrest, hflag]
    constructor
    · rintro (h1 | ⟨r, hr, h2⟩)
      · exact ⟨r1, List.mem_cons_self .., h1⟩
      · exact ⟨r, List.mem_cons_of_mem _ hr, h2⟩
    · rintro ⟨r, hr, h2⟩
      rcases List.mem_cons.mp hr with rfl | hr'
      · exact Or.inl h2
      · exact Or.inr ⟨r, hr', h2⟩

theorem enterRulesPar_mono : ∀ (rules : List Rule) (a : RS), a.errs.length ≤ (enterRulesPar er c n ti rules a).1.errs.length
  | [], a => Nat.le_refl _
  | r1 :: rest, a => by
    rw [enterRulesPar_cons]
    exact Nat.le_trans (er_mono F c.schema c.fixes n ti r1 a) (enterRulesPar_mono rest _)

theorem enterRulesPar_skip_lt : ∀ (rules : List Rule) (a : RS), (enterRulesPar er c n ti rules a).2 = true →
    a.errs.length < (enterRulesPar er c n ti rules a).1.errs.length
  | [], a, h => by simp [enterRulesPar] at h
  | r1 :: rest, a, h => by
    rw [enterRulesPar_cons] at h ⊢
    simp only [Bool.or_eq_true] at h
    rcases h with h | h
    · exact Nat.lt_of_lt_of_le (F.skip _ _ _ _ _ _ h) (enterRulesPar_mono F c n ti rest _)
    · exact Nat.lt_of_le_of_lt (er_mono F c.schema c.fixes n ti r1 a) (enterRulesPar_skip_lt rest _ h)

theorem enterRulesPar_errsIn (L : List Rule) : ∀ (rules : List Rule) (a : RS), (∀ r ∈ rules, r ∈ L) →
    (∀ x ∈ a.errs, x ∈ L) → ∀ x ∈ (enterRulesPar er c n ti rules a).1.errs, x ∈ L
  | [], a, _, h => h
  | r1 :: rest, a, hsub, h => by
    rw [enterRulesPar_cons]
    exact enterRulesPar_errsIn L rest _ (fun r hr => hsub r (List.mem_cons_of_mem _ hr))
      (er_errsIn F c.schema c.fixes n ti L r1 (hsub r1 (List.mem_cons_self ..)) a h)

end

/-! folds of `leaveRule` -/

section
variable (s : SchemaD) (fx : Fixes) (n : Node) (ti : TI)

theorem leaveFold_rel (r : Rule) : ∀ (l : List Rule) (a b : RS), l.Nodup → RelRS r a b →
    (r ∈ l → RelRS r (l.foldl (fun rs r => leaveRule s fx r n ti rs) a) (leaveRule s fx r n ti b)) ∧
    (r ∉ l → RelRS r (l.foldl (fun rs r => leaveRule s fx r n ti rs) a) b)
  | [], a, b, _, h => ⟨fun hm => absurd hm (by simp), fun _ => h⟩
  | r1 :: rest, a, b, hnd, h => by
    simp only [List.foldl_cons]
    have hnd' := List.nodup_cons.mp hnd
    by_cases e : r1 = r
    · subst e
      have h1 := lr_self s fx n ti h
      exact ⟨fun _ => (leaveFold_rel r1 rest _ _ hnd'.2 h1).2 hnd'.1, fun hm => absurd (List.mem_cons_self ..) hm⟩
    · have h1 := lr_other s fx n ti e h
      have ih := leaveFold_rel r rest _ b hnd'.2 h1
      refine ⟨fun hm => ih.1 ?_, fun hm => ih.2 fun hm' => hm (List.mem_cons_of_mem _ hm')⟩
      rcases List.mem_cons.mp hm with e' | hm'
      · exact absurd e'.symm e
      · exact hm'

theorem leaveFold_mono : ∀ (l : List Rule) (a : RS),
    a.errs.length ≤ (l.foldl (fun rs r => leaveRule s fx r n ti rs) a).errs.length
  | [], a => Nat.le_refl _
  | r1 :: rest, a => by
    simp only [List.foldl_cons]
    exact Nat.le_trans (lr_mono s fx n ti r1 a) (leaveFold_mono rest _)

theorem leaveFold_errsIn (L : List Rule) : ∀ (l : List Rule) (a : RS), (∀ r ∈ l, r ∈ L) → (∀ x ∈ a.errs, x ∈ L) →
    ∀ x ∈ (l.foldl (fun rs r => leaveRule s fx r n ti rs) a).errs, x ∈ L
  | [], a, _, h => h
  | r1 :: rest, a, hsub, h => by
    simp only [List.foldl_cons]
    exact leaveFold_errsIn L rest _ (fun r hr => hsub r (List.mem_cons_of_mem _ hr))
      (lr_errsIn s fx n ti L r1 (hsub r1 (List.mem_cons_self ..)) a h)

end

end PyGql.Validate

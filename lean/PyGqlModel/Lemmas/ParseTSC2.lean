/-
  Layer 4 (completeness, building blocks continued): what follows a definition; field / enum-value definitions and
  their blocks; `implements`; union members; directive locations.
-/
import PyGqlModel.Lemmas.ParseTSC
namespace PyGql.Parse
open PyGql PyGql.Ast PyGql.Spec

/-! ### consequences of `FollowDef` -/

theorem DefStart.kind {t : Tok} (h : DefStart t) :
    t.kind = .eof ∨ t.kind = .curlyL ∨ t.kind = .string ∨ t.kind = .blockString ∨ t.kind = .name := by
  rcases h with h | h | h | h | ⟨h, _⟩ <;> simp [h]

theorem FollowDef.notK {rest : List Tok} (h : FollowDef rest) (ks : List TokKind)
    (hks : ∀ k ∈ ks, k ≠ .eof ∧ k ≠ .curlyL ∧ k ≠ .string ∧ k ≠ .blockString ∧ k ≠ .name) : NotK ks rest := by
  obtain ⟨t, tl, rfl, hs⟩ := h
  refine NotK.cons (fun hm => ?_)
  have := hks _ hm
  rcases hs.kind with e | e | e | e | e <;> simp [e] at this

theorem FollowDef.ne {rest : List Tok} (h : FollowDef rest) : rest ≠ [] := by
  obtain ⟨t, tl, rfl, _⟩ := h; simp

/-- the next token is not the keyword `implements` -/
def NotImpl (ts : List Tok) : Prop := ∃ t tl, ts = t :: tl ∧ ¬(t.kind = .name ∧ t.value = K.implements)

theorem implements_not_def : K.implements ∉ defKeywords := by decide

theorem FollowDef.notImpl {rest : List Tok} (h : FollowDef rest) : NotImpl rest := by
  obtain ⟨t, tl, rfl, hs⟩ := h
  refine ⟨t, tl, rfl, fun ⟨hk, hv⟩ => ?_⟩
  rcases hs with e | e | e | e | ⟨_, hm⟩
  · simp [e] at hk
  · simp [e] at hk
  · simp [e] at hk
  · simp [e] at hk
  · rw [hv] at hm; exact implements_not_def hm

theorem firstIn_blockV {α} (fl : Flags) (V : α → Item) (xs : List α) : FirstIn fl [.curlyL] (blockV V xs) := by
  cases xs with
  | nil =>
    intro l ts l' rest h
    simp only [blockV, List.isEmpty_nil, if_true, checkAll_cons, checkAll_nil, check_nla] at h
    obtain ⟨l1, ts1, ⟨rfl, rfl, _⟩, hfin⟩ := h
    cases hfin; exact Or.inl ⟨rfl, rfl⟩
  | cons x xs => simpa [blockV] using FirstIn.tok fl .curlyL [] _

/-- `NotImpl` through optional parts whose first tokens are not names -/
theorem FirstIn.useImpl {fl : Flags} {F : List TokKind} {is : List Item} (hF : FirstIn fl F is)
    {l l' : Tok} {ts rest : List Tok} (h : Item.checkAll fl is l ts = some (l', rest))
    (hr : NotImpl rest) (hd : TokKind.name ∉ F) : NotImpl ts := by
  rcases hF _ _ _ _ h with ⟨rfl, _⟩ | ⟨t, tl, rfl, hk⟩
  · exact hr
  · exact ⟨t, tl, rfl, fun ⟨hn, _⟩ => hd (hn ▸ hk)⟩

/-! ### field definitions -/

abbrev FollowFD (rest : List Tok) : Prop := NotK [.bang, .atSign, .parenL] rest

theorem parseFieldDefinition_complete (fl : Flags) (fuel : Nat) (d : FieldDefinition) (l l' : Tok)
    (ts rest : List Tok) (w : wfFieldDefinition d = true) (hf : ts.length ≤ fuel) (hfol : FollowFD rest)
    (h : (fieldDefinitionV d).check fl l ts = some (l', rest)) :
    parseFieldDefinition fl fuel ⟨ts, l⟩ = .ok (d, ⟨rest, l'⟩) := by
  rcases d with ⟨desc, nm, args, ty, ds, loc⟩
  simp only [fieldDefinitionV, check_node] at h
  obtain ⟨f, tl, rfl, hall, rfl⟩ := h
  rw [checkAll_append] at hall
  obtain ⟨l1, ts1, hdesc, hall⟩ := hall
  rw [checkAll_cons] at hall
  obtain ⟨l2, ts2, hn, hall⟩ := hall
  rw [checkAll_append] at hall
  obtain ⟨l3, ts3, ha, hall⟩ := hall
  simp only [checkAll_cons, check_tok] at hall
  obtain ⟨l4, ts4, ⟨col, rfl, hc, rfl⟩, l5, ts5, hty, hd⟩ := hall
  simp only [wfFieldDefinition, Bool.and_eq_true, List.all_eq_true] at w
  obtain ⟨⟨wa, wt⟩, wd⟩ := w
  obtain ⟨t1, tl1, rfl, hk1⟩ := nameV_first hn
  have len1 : (t1 :: tl1).length ≤ (f :: tl).length := checkAll_len hdesc
  have len2 : ts2.length ≤ (t1 :: tl1).length := check_len hn
  have len3 : (l4 :: ts4).length ≤ ts2.length := checkAll_len ha
  have len5 : ts5.length ≤ ts4.length := check_len hty
  simp at len1 len2 len3 hf
  have cdesc := parseDescription_complete fl desc l l1 (f :: tl) (t1 :: tl1) (fun _ => NotK.cons (by simp [hk1])) hdesc
  have cn := parseName_complete fl _ _ _ _ _ hn
  have ca := parseArgumentDefinitions_complete fl fuel args l2 l3 ts2 (l4 :: ts4) wa (by omega)
    (fun _ => NotK.cons (by simp [cls_kind hc])) ha
  have f5 : NotK [.bang] ts5 := (firstIn_directivesV fl ds).use hd (hfol.mono (by simp)) (by simp)
  have hwt : width (typeV ty) ≤ fuel := by
    have := check_width fl _ _ _ _ _ hty
    simp [width] at *; omega
  have ct := parseTypeReference_complete fl fuel ty l4 l5 ts4 ts5 wt hwt hty (followType_of_notK f5)
  have cd := parseDirectives_complete fl fuel true ds l5 l' ts5 rest wd (by omega)
    (hfol.mono (ks' := [.atSign, .parenL]) (by simp)) hd
  simp [parseFieldDefinition, bind_eq, peek_cons, cdesc, cn, ca, expect_pos (cls_kind hc), ct, cd, mkLoc_eq, pure_eq]

theorem fieldDefinitionV_width (d : FieldDefinition) : 1 ≤ (fieldDefinitionV d).yield.length := by
  simp [fieldDefinitionV, nameV, Item.yield, Item.yieldAll, yieldAll_append]; omega

theorem descName_follow {t : Tok} {tl : List Tok}
    (hk : t.kind = .string ∨ t.kind = .blockString ∨ t.kind = .name) (ks : List TokKind)
    (hks : ∀ k ∈ ks, k ≠ .string ∧ k ≠ .blockString ∧ k ≠ .name) : NotK ks (t :: tl) := by
  refine NotK.cons (fun hm => ?_)
  have := hks _ hm
  rcases hk with e | e | e <;> simp [e] at this

theorem parseFieldsDefinition_complete (fl : Flags) (fuel : Nat) (ds : List FieldDefinition) (l l' : Tok)
    (ts rest : List Tok) (w : ∀ d ∈ ds, wfFieldDefinition d = true) (hf : ts.length ≤ fuel)
    (hne : ds = [] → rest ≠ [])
    (h : Item.checkAll fl (blockV fieldDefinitionV ds) l ts = some (l', rest)) :
    parseFieldsDefinition fl fuel ⟨ts, l⟩ = .ok (ds, ⟨rest, l'⟩) := by
  rw [parseFieldsDefinition_eq]
  apply block_complete fl _ fieldDefinitionV FollowFD fuel ds l l' ts rest fieldDefinitionV_width hf
  · intro d hd l ts' l' rest hl hc hfo
    exact parseFieldDefinition_complete fl fuel d l l' ts' rest (w d hd) (by omega) hfo hc
  · intro d _ l ts r hc
    rcases r with ⟨l', rest⟩
    simp only [fieldDefinitionV, check_node] at hc
    obtain ⟨f, tl, rfl, hall, _⟩ := hc
    obtain ⟨t, tl', e, hk⟩ := descName_first hall
    cases e
    exact ⟨descName_follow hk _ (by simp), descName_follow hk _ (by simp)⟩
  · intro t tl hk; exact NotK.cons (by simp [hk])
  · exact hne
  · exact h

theorem parseInputFieldsDefinition_complete (fl : Flags) (fuel : Nat) (ds : List InputValueDefinition) (l l' : Tok)
    (ts rest : List Tok) (w : ∀ d ∈ ds, wfInputValue d = true) (hf : ts.length ≤ fuel)
    (hne : ds = [] → rest ≠ [])
    (h : Item.checkAll fl (blockV inputValueV ds) l ts = some (l', rest)) :
    parseInputFieldsDefinition fl fuel ⟨ts, l⟩ = .ok (ds, ⟨rest, l'⟩) := by
  rw [parseInputFieldsDefinition_eq]
  apply block_complete fl _ inputValueV FollowTDD fuel ds l l' ts rest inputValueV_width hf
  · intro d hd l ts' l' rest hl hc hfo
    exact parseInputValueDefinition_complete fl fuel d l l' ts' rest (w d hd) (by omega) hfo hc
  · intro d _ l ts r hc
    rcases r with ⟨l', rest⟩
    simp only [inputValueV, check_node] at hc
    obtain ⟨f, tl, rfl, hall, _⟩ := hc
    obtain ⟨t, tl', e, hk⟩ := descName_first hall
    cases e
    exact ⟨descName_follow hk _ (by simp), descName_follow hk _ (by simp)⟩
  · intro t tl hk; exact NotK.cons (by simp [hk])
  · exact hne
  · exact h

/-! ### enum values -/

theorem parseEnumValueDefinition_complete (fl : Flags) (fuel : Nat) (d : EnumValueDefinition) (l l' : Tok)
    (ts rest : List Tok) (w : wfEnumValueDefinition d = true) (hf : ts.length ≤ fuel) (hfol : FollowDirs rest)
    (h : (enumValueDefinitionV d).check fl l ts = some (l', rest)) :
    parseEnumValueDefinition fl fuel ⟨ts, l⟩ = .ok (d, ⟨rest, l'⟩) := by
  rcases d with ⟨desc, nm, ds, loc⟩
  simp only [enumValueDefinitionV, check_node] at h
  obtain ⟨f, tl, rfl, hall, rfl⟩ := h
  rw [checkAll_append] at hall
  obtain ⟨l1, ts1, hdesc, hall⟩ := hall
  rw [checkAll_cons] at hall
  obtain ⟨l2, ts2, hn, hd⟩ := hall
  simp only [wfEnumValueDefinition, Bool.and_eq_true, notBoolNull, decide_eq_true_eq] at w
  obtain ⟨wn, wd⟩ := w
  obtain ⟨t1, tl1, rfl, hk1⟩ := nameV_first hn
  have len1 : (t1 :: tl1).length ≤ (f :: tl).length := checkAll_len hdesc
  have len2 : ts2.length ≤ (t1 :: tl1).length := check_len hn
  simp at len1 len2 hf
  have cdesc := parseDescription_complete fl desc l l1 (f :: tl) (t1 :: tl1) (fun _ => NotK.cons (by simp [hk1])) hdesc
  have cn := parseName_complete fl _ _ _ _ _ hn
  have cd := parseDirectives_complete fl fuel true ds l2 l' ts2 rest wd (by omega) hfol hd
  have hv : t1.value = nm.value := by
    rcases nm with ⟨v, nloc⟩
    simp only [nameV, check_node, checkAll_cons, check_tok] at hn
    obtain ⟨_, _, e, ⟨_, _, ⟨t, e2, hc, _⟩, _⟩, _⟩ := hn
    cases e; cases e2
    exact (cls_kw_inv hc).2
  have hcond : ¬(t1.kind = .name ∧ (t1.value = K.true_ ∨ t1.value = K.false_ ∨ t1.value = K.null_)) := by
    rw [hv]; intro ⟨_, h⟩; rcases h with h | h | h
    · exact wn.1 h
    · exact wn.2.1 h
    · exact wn.2.2 h
  simp [parseEnumValueDefinition, bind_eq, peek_cons, cdesc, ite_app, hcond, fail, cn, cd, mkLoc_eq, pure_eq]

theorem enumValueDefinitionV_width (d : EnumValueDefinition) : 1 ≤ (enumValueDefinitionV d).yield.length := by
  simp [enumValueDefinitionV, nameV, Item.yield, Item.yieldAll, yieldAll_append]; omega

theorem parseEnumValuesDefinition_complete (fl : Flags) (fuel : Nat) (ds : List EnumValueDefinition) (l l' : Tok)
    (ts rest : List Tok) (w : ∀ d ∈ ds, wfEnumValueDefinition d = true) (hf : ts.length ≤ fuel)
    (hne : ds = [] → rest ≠ [])
    (h : Item.checkAll fl (blockV enumValueDefinitionV ds) l ts = some (l', rest)) :
    parseEnumValuesDefinition fl fuel ⟨ts, l⟩ = .ok (ds, ⟨rest, l'⟩) := by
  rw [parseEnumValuesDefinition_eq]
  apply block_complete fl _ enumValueDefinitionV FollowDirs fuel ds l l' ts rest enumValueDefinitionV_width hf
  · intro d hd l ts' l' rest hl hc hfo
    exact parseEnumValueDefinition_complete fl fuel d l l' ts' rest (w d hd) (by omega) hfo hc
  · intro d _ l ts r hc
    rcases r with ⟨l', rest⟩
    simp only [enumValueDefinitionV, check_node] at hc
    obtain ⟨f, tl, rfl, hall, _⟩ := hc
    obtain ⟨t, tl', e, hk⟩ := descName_first hall
    cases e
    exact ⟨descName_follow hk _ (by simp), descName_follow hk _ (by simp)⟩
  · intro t tl hk; exact NotK.cons (by simp [hk])
  · exact hne
  · exact h

end PyGql.Parse

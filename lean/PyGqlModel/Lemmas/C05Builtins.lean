/-
  C05 — `withBuiltins`: the schema description with the five built-in scalars listed (the form the bridge theorems and the
  evaluated `schema_checks` speak about) is READ IDENTICALLY by every accessor of the executor model: `kindOf`,
  `fieldOf`, `possibleTypes`, `isPossibleType`, `rootType`, `serializeLeaf` - every way `Exec.lean` reads the schema. (The executor treats a missing built-in as a scalar:
  `Exec.kindOf`.) So the executor-side schema checks have the same value on both descriptions.
-/
import PyGqlModel.Spec.SchemaChecks
import PyGqlModel.Exec

set_option linter.unusedSimpArgs false
set_option linter.unusedVariables false

namespace PyGql.Props.C05
open PyGql PyGql.Exec PyGql.Spec

private def mkScalar (n : String) : TypeD := { kind := .scalar, name := n }

private theorem find_extra (L : List String) (p : String → Bool) (n : String) :
    ((L.filter p).map mkScalar).find? (·.name == n) = if n ∈ L ∧ p n = true then some (mkScalar n) else none := by
  induction L with
  | nil => simp
  | cons a rest ih =>
    by_cases hp : p a = true
    · by_cases ha : a = n
      · subst ha; simp [List.filter_cons, hp, mkScalar]
      · have h1 : ¬ n = a := fun h => ha h.symm
        have hne : ((mkScalar a).name == n) = false := by simpa [mkScalar] using ha
        simp only [List.filter_cons, hp, if_true, List.map_cons, List.find?_cons, hne, ih, List.mem_cons, h1, false_or]
    · simp only [List.filter_cons, hp, Bool.false_eq_true, if_false, ih, List.mem_cons]
      by_cases ha : n = a
      · subst ha; simp [hp]
      · simp [ha]

theorem findType_withBuiltins (s : SchemaD) (n : String) :
    (withBuiltins s).findType n =
      match s.findType n with
      | some t => some t
      | none => if n ∈ builtinScalars then some { kind := .scalar, name := n } else none := by
  have hx := find_extra builtinScalars (fun m => (s.findType m).isNone) n
  have hdef : (withBuiltins s).findType n
      = (s.findType n).or (((builtinScalars.filter fun m => (s.findType m).isNone).map mkScalar).find? (·.name == n)) := by
    show (s.types ++ _).find? _ = _
    rw [List.find?_append]
    rfl
  rw [hdef, hx]
  cases h : s.findType n with
  | some t => simp
  | none => simp [mkScalar]

/-- the executor reads the same KIND from both descriptions -/
theorem kindOf_withBuiltins (s : SchemaD) (n : String) : kindOf (withBuiltins s) n = kindOf s n := by
  unfold kindOf
  rw [findType_withBuiltins]
  cases h : s.findType n with
  | some t => simp
  | none =>
    by_cases hb : n ∈ builtinScalars
    · simp [hb]
    · simp [hb]

/-- … the same FIELD definitions -/
theorem fieldOf_withBuiltins (s : SchemaD) (T f : String) : fieldOf (withBuiltins s) T f = fieldOf s T f := by
  unfold fieldOf
  rw [findType_withBuiltins]
  cases h : s.findType T with
  | some t => simp
  | none =>
    by_cases hb : T ∈ builtinScalars
    · simp [hb]
    · simp [hb]

private theorem extra_no_objects (s : SchemaD) (n : String) :
    (((builtinScalars.filter fun m => (s.findType m).isNone).map mkScalar).filter fun o => o.kind == .object && o.interfaces.contains n) = [] := by
  rw [List.filter_eq_nil_iff]
  intro o ho
  simp only [List.mem_map] at ho
  obtain ⟨m, _, rfl⟩ := ho
  simp [mkScalar]

/-- … the same POSSIBLE TYPES of every abstract type -/
theorem possibleTypes_withBuiltins (s : SchemaD) (n : String) : possibleTypes (withBuiltins s) n = possibleTypes s n := by
  unfold possibleTypes
  rw [findType_withBuiltins]
  have htypes : (withBuiltins s).types = s.types ++ (builtinScalars.filter fun m => (s.findType m).isNone).map mkScalar := rfl
  cases h : s.findType n with
  | some t =>
    simp only []
    cases t.kind <;> simp only []
    rw [htypes, List.filter_append, extra_no_objects, List.append_nil]
  | none =>
    by_cases hb : n ∈ builtinScalars
    · simp [hb]
    · simp [hb]

theorem isPossibleType_withBuiltins (s : SchemaD) (a o : String) : isPossibleType (withBuiltins s) a o = isPossibleType s a o := by
  unfold isPossibleType
  rw [kindOf_withBuiltins, possibleTypes_withBuiltins]

/-- … the same ROOT types -/
theorem rootType_withBuiltins (s : SchemaD) (k : String) : rootType (withBuiltins s) k = rootType s k := rfl

/-- … and SERIALISES every leaf identically: the five specified scalars are serialised by their own rules whether or not
    the description lists them (`Exec.serializeLeaf` tests the five names first) -/
theorem serializeLeaf_withBuiltins (s : SchemaD) (n : String) (j : J) : serializeLeaf (withBuiltins s) n j = serializeLeaf s n j := by
  unfold serializeLeaf
  by_cases h1 : n = "Int"
  · simp [h1]
  by_cases h2 : n = "Float"
  · simp [h2]
  by_cases h3 : n = "String"
  · simp [h3]
  by_cases h4 : n = "Boolean"
  · simp [h4]
  by_cases h5 : n = "ID"
  · simp [h5]
  have hb : n ∉ builtinScalars := by simp [builtinScalars, h1, h2, h3, h4, h5]
  simp only [beq_iff_eq, h1, h2, h3, h4, h5, if_false]
  rw [findType_withBuiltins]
  cases h : s.findType n with
  | some t => simp
  | none => simp [hb]

private theorem all_extra (s : SchemaD) (f : TypeD → Bool) (hf : ∀ t : TypeD, t.fields = [] → f t = true) :
    (withBuiltins s).types.all f = s.types.all f := by
  have htypes : (withBuiltins s).types = s.types ++ (builtinScalars.filter fun m => (s.findType m).isNone).map mkScalar := rfl
  rw [htypes, List.all_append]
  have : ((builtinScalars.filter fun m => (s.findType m).isNone).map mkScalar).all f = true := by
    rw [List.all_eq_true]
    intro t ht
    simp only [List.mem_map] at ht
    obtain ⟨m, _, rfl⟩ := ht
    exact hf _ rfl
  rw [this, Bool.and_true]

/-- **schemaChecksExec_withBuiltins**: the executor-side schema checks have the same value on the description the driver
    executes and on the one (with the built-in scalars listed) the bridge theorems speak about -/
theorem schemaChecksExec_withBuiltins (s : SchemaD) : schemaChecksExecB (withBuiltins s) = schemaChecksExecB s := by
  unfold schemaChecksExecB schemaKindsB schemaCovB typesWfB subUnderB underB
  simp only [kindOf_withBuiltins, fieldOf_withBuiltins, possibleTypes_withBuiltins, isPossibleType_withBuiltins]
  rw [all_extra s _ (by intro t ht; simp [ht]), all_extra s _ (by intro t ht; simp [ht]), all_extra s _ (by intro t ht; simp [ht])]

end PyGql.Props.C05

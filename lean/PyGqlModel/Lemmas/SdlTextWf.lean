/-
  C12 text level — the trees `docToAst` constructs from a `printTextWF` schema are well-formed documents of the grammar,
  and the whole-document matcher statement.
-/
import PyGqlModel.Lemmas.SdlTextMatch
import PyGqlModel.Props.C01_parse
namespace PyGql.SdlText
open PyGql PyGql.Ast PyGql.Sdl PyGql.Spec PyGql.PrintLex PyGql.PrintTokens PyGql.PrintMatch PyGql.SdlPrint PyGql.Parse

mutual
theorem wfValue_valueOf : ∀ (l : Lit), litOK l = true → wfValue true (valueOf l) = true
  | .null, _ => rfl
  | .int _ _, _ => rfl
  | .float _ _, _ => rfl
  | .str _, _ => rfl
  | .bool _, _ => rfl
  | .enum v, h => by simp only [litOK, Bool.and_eq_true] at h; simpa [valueOf, wfValue] using h.2
  | .list l, h => by simp only [litOK] at h; simpa [valueOf, wfValue] using wfValues_valuesOf l h
  | .obj fs, h => by simp only [litOK] at h; simpa [valueOf, wfValue] using wfFields_fieldsOf fs h
theorem wfValues_valuesOf : ∀ (l : List Lit), litsOK l = true → wfValues true (valuesOf l) = true
  | [], _ => rfl
  | v :: vs, h => by
    simp only [litsOK, Bool.and_eq_true] at h
    simp [valuesOf, wfValues, wfValue_valueOf v h.1, wfValues_valuesOf vs h.2]
theorem wfFields_fieldsOf : ∀ (fs : List (String × Lit)), fieldsOK fs = true → wfFields true (fieldsOf fs) = true
  | [], _ => rfl
  | (k, v) :: fs, h => by
    simp only [fieldsOK, Bool.and_eq_true] at h
    simp [fieldsOf, wfFields, wfField, wfValue_valueOf v h.1.2, wfFields_fieldsOf fs h.2]
end

theorem wfDirectives_depr (r : Option String) : wfDirectives true ((deprDirs r).map dirOf) = true := by
  cases r with
  | none => rfl
  | some x =>
    by_cases hx : (x.isEmpty || x == DEFAULT_DEPRECATION) = true
    · have : deprDirs (some x) = [{ name := "deprecated" }] := by simp [deprDirs, hx]
      rw [this]; rfl
    · have hx' : (x.isEmpty || x == DEFAULT_DEPRECATION) = false := by simpa using hx
      have : deprDirs (some x) = [{ name := "deprecated", args := [("reason", .str x)] }] := by simp [deprDirs, hx']
      rw [this]; rfl

theorem wfInputValue_arg (s : SchemaD) (w : Nat) (a : ArgD) (h : argOKT s w a = true) :
    wfInputValue (inputValOf (argToDef s a)) = true := by
  simp only [argOKT, Bool.and_eq_true] at h
  obtain ⟨⟨⟨_, ht⟩, _⟩, hd⟩ := h
  have hdef : wfDefault ((argToDef s a).default.map valueOf) = true := by
    unfold argToDef
    by_cases hh : a.hasDefault = true
    · simp only [hh, ↓reduceIte] at hd ⊢
      cases hv : valueLit s valueFuel a.default a.type with
      | none => rw [hv] at hd; cases hd
      | some l => rw [hv] at hd; simpa [wfDefault] using wfValue_valueOf l hd
    · have hh' : a.hasDefault = false := by simpa using hh
      simp [hh', wfDefault]
  simp only [wfInputValue, inputValOf, Bool.and_eq_true]
  exact ⟨⟨by simpa [argToDef] using wfType_typeOf a.type ht, hdef⟩, by simp [argToDef, wfDirectives]⟩

theorem wfFieldDefinition_field (s : SchemaD) (w : Nat) (f : FieldD) (h : fieldOKT s w f = true) :
    wfFieldDefinition (fieldOf (fieldToDef s f)) = true := by
  simp only [fieldOKT, Bool.and_eq_true, List.all_eq_true] at h
  obtain ⟨⟨⟨_, ht⟩, _⟩, ha⟩ := h
  simp only [wfFieldDefinition, fieldOf, fieldToDef, Bool.and_eq_true, List.all_eq_true]
  refine ⟨⟨?_, wfType_typeOf f.type ht⟩, wfDirectives_depr f.deprecated⟩
  intro x hx
  simp only [List.map_map, List.mem_map, Function.comp_apply] at hx
  obtain ⟨a, ha', rfl⟩ := hx
  exact wfInputValue_arg s _ a (ha a ha')

theorem wfEnumValue_val (w : Nat) (v : EnumValD) (h : enumValOKT w v = true) :
    wfEnumValueDefinition (enumValOf (enumValToDef v)) = true := by
  simp only [enumValOKT, Bool.and_eq_true] at h
  simp only [wfEnumValueDefinition, enumValOf, enumValToDef, nameOf, Bool.and_eq_true]
  exact ⟨h.1.2, wfDirectives_depr v.deprecated⟩

theorem wfDefinition_type (fl : Flags) (s : SchemaD) (w : Nat) (t : TypeD) (h : typeOKT s w t = true) :
    wfDefinition fl (defTree (.type (typeToDef s t))) = true := by
  simp only [typeOKT, Bool.and_eq_true] at h
  obtain ⟨_, hk⟩ := h
  have hfields : ∀ (fs : List FieldD), (∀ f ∈ fs, fieldOKT s w f = true) →
      ∀ x ∈ (fs.map (fieldToDef s)).map fieldOf, wfFieldDefinition x = true := by
    intro fs hfs x hx
    simp only [List.map_map, List.mem_map, Function.comp_apply] at hx
    obtain ⟨f, hf, rfl⟩ := hx
    exact wfFieldDefinition_field s w f (hfs f hf)
  cases hkind : t.kind with
  | scalar => simp [defTree, typeDefOf, typeToDef, hkind, wfDefinition, wfDirectives]
  | union => simp [defTree, typeDefOf, typeToDef, hkind, wfDefinition, wfDirectives]
  | object =>
    rw [hkind] at hk
    simp only [Bool.and_eq_true, List.all_eq_true] at hk
    simp only [defTree, typeDefOf, typeToDef, hkind, wfDefinition, List.map_nil, wfDirectives, List.all_nil, Bool.true_and,
      List.all_eq_true]
    exact hfields t.fields hk.1.2
  | interface =>
    rw [hkind] at hk
    simp only [Bool.and_eq_true, List.all_eq_true] at hk
    simp only [defTree, typeDefOf, typeToDef, hkind, wfDefinition, List.map_nil, wfDirectives, List.all_nil, Bool.true_and,
      List.all_eq_true]
    exact hfields t.fields hk.2
  | enum =>
    rw [hkind] at hk
    simp only [Bool.and_eq_true, List.all_eq_true] at hk
    simp only [defTree, typeDefOf, typeToDef, hkind, wfDefinition, List.map_nil, wfDirectives, List.all_nil, Bool.true_and,
      List.all_eq_true]
    intro x hx
    simp only [List.map_map, List.mem_map, Function.comp_apply] at hx
    obtain ⟨f, hf, rfl⟩ := hx
    exact wfEnumValue_val w f (hk.2 f hf)
  | input =>
    rw [hkind] at hk
    simp only [Bool.and_eq_true, List.all_eq_true] at hk
    simp only [defTree, typeDefOf, typeToDef, hkind, wfDefinition, List.map_nil, wfDirectives, List.all_nil, Bool.true_and,
      List.all_eq_true]
    intro x hx
    simp only [List.map_map, List.mem_map, Function.comp_apply] at hx
    obtain ⟨f, hf, rfl⟩ := hx
    exact wfInputValue_arg s w f (hk.2 f hf)

theorem wfDefinition_directive (fl : Flags) (s : SchemaD) (w : Nat) (d : DirectiveD) (h : directiveOKT s w d = true) :
    wfDefinition fl (defTree (.directive (directiveToDef s d))) = true := by
  simp only [directiveOKT, Bool.and_eq_true, List.all_eq_true, Bool.not_eq_true', List.isEmpty_eq_false_iff] at h
  obtain ⟨⟨⟨_, ha⟩, hne⟩, hl⟩ := h
  simp only [defTree, directiveToDef, wfDefinition, Bool.and_eq_true, List.all_eq_true, Bool.not_eq_true',
    List.isEmpty_eq_false_iff, decide_eq_true_eq]
  refine ⟨⟨?_, by simpa using hne⟩, ?_⟩
  · intro x hx
    simp only [List.map_map, List.mem_map, Function.comp_apply] at hx
    obtain ⟨a, ha', rfl⟩ := hx
    exact wfInputValue_arg s w a (ha a ha')
  · intro x hx
    simp only [List.mem_map] at hx
    obtain ⟨n, hn, rfl⟩ := hx
    have := (hl n hn).2
    simpa [nameOf] using this

theorem wfDefinition_schema (fl : Flags) (s : SchemaD) (hne : rootOps s ≠ []) :
    wfDefinition fl (defTree (.schema { ops := rootOps s })) = true := by
  simp only [defTree, wfDefinition, List.map_nil, wfDirectives, List.all_nil, Bool.true_and, Bool.and_eq_true,
    Bool.not_eq_true', List.isEmpty_eq_false_iff, List.all_eq_true]
  refine ⟨by simpa using hne, ?_⟩
  intro x hx
  simp only [List.mem_map] at hx
  obtain ⟨p, hp, rfl⟩ := hx
  have e1 : T "query" = K.query := by decide
  have e2 : T "mutation" = K.mutation := by decide
  have e3 : T "subscription" = K.subscription := by decide
  rcases mem_rootOps s p hp with ⟨q, _, rfl⟩ | ⟨q, _, rfl⟩ | ⟨q, _, rfl⟩ <;>
    simp [wfOperationType, opTypeOf, Props.C01.operationTypeTuple_spec, e1, e2, e3]

end PyGql.SdlText

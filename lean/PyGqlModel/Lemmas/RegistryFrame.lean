/-
  C14 — registries: registrations on a deep clone never touch an inner dict of the source.
-/
import PyGqlModel.Registry

set_option linter.unusedSimpArgs false
set_option linter.unusedVariables false

namespace PyGql.Heap.Reg
open PyGql.Heap

theorem size_alloc (h : RHeap) (d : RDict) : (h.alloc d).1.size = h.size + 1 := by simp [RHeap.alloc, RHeap.size]
theorem size_write (h : RHeap) (a : Addr) (d : RDict) : (h.write a d).size = h.size := by simp [RHeap.write, RHeap.size]
theorem read_alloc_old (h : RHeap) (d : RDict) (a : Addr) (ha : a < h.size) : (h.alloc d).1.read a = h.read a := by
  simp only [RHeap.alloc, RHeap.read, RHeap.size] at *
  exact List.getElem?_append_left ha
theorem read_write_other (h : RHeap) (a b : Addr) (d : RDict) (hne : a ≠ b) : (h.write a d).read b = h.read b := by
  simp only [RHeap.write, RHeap.read]
  exact List.getElem?_set_ne hne

/-- no inner dict below `n` was written -/
def RFrame (n : Nat) (h h' : RHeap) : Prop := h.size ≤ h'.size ∧ ∀ a, a < n → h'.read a = h.read a

theorem RFrame.refl (n : Nat) (h : RHeap) : RFrame n h h := ⟨Nat.le_refl _, fun _ _ => rfl⟩
theorem RFrame.trans {n : Nat} {h1 h2 h3 : RHeap} (a : RFrame n h1 h2) (b : RFrame n h2 h3) : RFrame n h1 h3 :=
  ⟨Nat.le_trans a.1 b.1, fun x hx => by rw [b.2 x hx, a.2 x hx]⟩

/-- every inner dict the outer map points to is owned: it lives at an address `≥ n` -/
def RFresh (n : Nat) (outer : List (String × Addr)) : Prop := ∀ e, e ∈ outer → n ≤ e.2

theorem lookup_mem {outer : List (String × Addr)} {t : String} {a : Addr} (hl : lookup outer t = some a) : ∃ e, e ∈ outer ∧ e.2 = a := by
  simp only [lookup, Option.map_eq_some_iff] at hl
  obtain ⟨e, he, rfl⟩ := hl
  exact ⟨e, List.mem_of_find?_eq_some he, rfl⟩

theorem registerIn_ok (n : Nat) (h : RHeap) (outer : List (String × Addr)) (t f : String) (fn : Nat) (hn : n ≤ h.size) (hf : RFresh n outer) :
    RFrame n h (registerIn h outer t f fn).1 ∧ RFresh n (registerIn h outer t f fn).2 := by
  simp only [registerIn, getOrCreate]
  cases hl : lookup outer t with
  | some a =>
    obtain ⟨e, he, rfl⟩ := lookup_mem hl
    have ha := hf e he
    simp only
    split
    · refine ⟨⟨by rw [size_write]; exact Nat.le_refl _, fun x hx => ?_⟩, hf⟩
      exact read_write_other h e.2 x _ (Nat.ne_of_gt (Nat.lt_of_lt_of_le hx ha))
    · exact ⟨RFrame.refl n h, hf⟩
  | none =>
    simp only
    have hfr : RFrame n h (h.alloc []).1 := ⟨by rw [size_alloc]; omega, fun x hx => read_alloc_old h [] x (Nat.lt_of_lt_of_le hx hn)⟩
    have hf' : RFresh n (outer ++ [(t, (h.alloc []).2)]) := by
      intro e he
      simp only [List.mem_append, List.mem_singleton] at he
      rcases he with he | rfl
      · exact hf e he
      · exact hn
    split
    · refine ⟨hfr.trans ⟨by rw [size_write]; exact Nat.le_refl _, fun x hx => ?_⟩, hf'⟩
      exact read_write_other _ _ x _ (Nat.ne_of_gt (Nat.lt_of_lt_of_le hx hn))
    · exact ⟨hfr, hf'⟩

/-- the clone's registries own all their inner dicts -/
def RegsFresh (n : Nat) (r : Registries) : Prop := RFresh n r.resolvers ∧ RFresh n r.subscriptions

theorem applyOp_ok (n : Nat) (s : RHeap × Registries) (op : RegOp) (hn : n ≤ s.1.size) (hf : RegsFresh n s.2) :
    RFrame n s.1 (applyOp s op).1 ∧ RegsFresh n (applyOp s op).2 := by
  cases op with
  | resolver t f fn =>
    obtain ⟨a, b⟩ := registerIn_ok n s.1 s.2.resolvers t f fn hn hf.1
    exact ⟨a, b, hf.2⟩
  | subscription t f fn =>
    obtain ⟨a, b⟩ := registerIn_ok n s.1 s.2.subscriptions t f fn hn hf.2
    exact ⟨a, hf.1, b⟩
  | default t fn => exact ⟨RFrame.refl n s.1, hf⟩

theorem applyOps_ok (n : Nat) : ∀ (ops : List RegOp) (s : RHeap × Registries), n ≤ s.1.size → RegsFresh n s.2 →
    RFrame n s.1 (applyOps ops s).1 ∧ RegsFresh n (applyOps ops s).2 := by
  intro ops
  induction ops with
  | nil => intro s _ hf; exact ⟨RFrame.refl n s.1, hf⟩
  | cons op ops ih =>
    intro s hn hf
    obtain ⟨a, b⟩ := applyOp_ok n s op hn hf
    obtain ⟨c, d⟩ := ih (applyOp s op) (Nat.le_trans hn a.1) b
    exact ⟨a.trans c, d⟩

theorem mergeDict_ok (n : Nat) (keep : String → String → Bool) (t : String) : ∀ (d : RDict) (h : RHeap) (outer : List (String × Addr)),
    n ≤ h.size → RFresh n outer → RFrame n h (mergeDict keep t d h outer).1 ∧ RFresh n (mergeDict keep t d h outer).2 := by
  intro d
  induction d with
  | nil => intro h outer _ hf; exact ⟨RFrame.refl n h, hf⟩
  | cons e rest ih =>
    intro h outer hn hf
    obtain ⟨f, fn⟩ := e
    simp only [mergeDict]
    split
    · obtain ⟨a, b⟩ := registerIn_ok n h outer t f fn hn hf
      obtain ⟨c, d⟩ := ih _ _ (Nat.le_trans hn a.1) b
      exact ⟨a.trans c, d⟩
    · exact ih h outer hn hf

theorem mergeOuter_ok (n : Nat) (keep : String → String → Bool) : ∀ (other : List (String × Addr)) (h : RHeap) (outer : List (String × Addr)),
    n ≤ h.size → RFresh n outer → RFrame n h (mergeOuter keep other h outer).1 ∧ RFresh n (mergeOuter keep other h outer).2 := by
  intro other
  induction other with
  | nil => intro h outer _ hf; exact ⟨RFrame.refl n h, hf⟩
  | cons e rest ih =>
    intro h outer hn hf
    obtain ⟨t, a⟩ := e
    simp only [mergeOuter]
    split
    · rename_i d _
      obtain ⟨p, q⟩ := mergeDict_ok n keep t d h outer hn hf
      obtain ⟨c, d'⟩ := ih _ _ (Nat.le_trans hn p.1) q
      exact ⟨p.trans c, d'⟩
    · exact ih h outer hn hf

/-- `Schema.clone` with `merge_resolvers` (filtered or not): no inner dict of the heap is written; the clone owns all its inner dicts -/
theorem cloneRegs_deep_ok (filtered : Bool) (exists_ : String → String → Bool) (h : RHeap) (src : Registries) (r : RHeap × Registries)
    (e : cloneRegs true filtered exists_ h src = some r) : RFrame h.size h r.1 ∧ RegsFresh h.size r.2 := by
  simp only [cloneRegs, if_true] at e
  split at e
  · cases e
  · simp only [Option.some.injEq] at e
    subst e
    obtain ⟨a, b⟩ := mergeOuter_ok h.size (if filtered then exists_ else fun _ _ => true) src.resolvers h [] (Nat.le_refl _) (by intro e he; simp at he)
    obtain ⟨c, d⟩ := mergeOuter_ok h.size (if filtered then exists_ else fun _ _ => true) src.subscriptions _ [] a.1 (by intro e he; simp at he)
    exact ⟨a.trans c, b, d⟩

/-! ### the clone's registry ⊆ the source's registry restricted to the fields that exist -/

/-- `(t, f ↦ fn)` is an entry of the registry -/
def Entry (h : RHeap) (outer : List (String × Addr)) (t f : String) (fn : Nat) : Prop :=
  ∃ a d, (t, a) ∈ outer ∧ h.read a = some d ∧ (f, fn) ∈ d

/-- the map under construction: valid, address determines name, every entry satisfies `P` -/
def Built (P : String → String → Nat → Prop) (h : RHeap) (outer : List (String × Addr)) : Prop :=
  (∀ e, e ∈ outer → e.2 < h.size) ∧ (∀ e1 e2, e1 ∈ outer → e2 ∈ outer → e1.2 = e2.2 → e1.1 = e2.1) ∧
  ∀ t f fn, Entry h outer t f fn → P t f fn

theorem read_alloc_new (h : RHeap) (d : RDict) : (h.alloc d).1.read h.size = some d := by
  simp [RHeap.alloc, RHeap.read, RHeap.size]

theorem read_write_same (h : RHeap) (a : Addr) (d : RDict) (ha : a < h.size) : (h.write a d).read a = some d := by
  simp only [RHeap.write, RHeap.read, RHeap.size] at *
  simp [List.getElem?_set, ha]

theorem mem_dictSet {d : RDict} {f : String} {fn : Nat} {x : String × Nat} (hx : x ∈ dictSet d f fn) : x = (f, fn) ∨ x ∈ d := by
  simp only [dictSet] at hx
  split at hx
  · simp only [List.mem_map] at hx
    obtain ⟨e, he, rfl⟩ := hx
    split
    · exact Or.inl rfl
    · exact Or.inr he
  · simp only [List.mem_append, List.mem_singleton] at hx
    rcases hx with hx | hx
    · exact Or.inr hx
    · exact Or.inl hx

theorem lookup_mem_name {outer : List (String × Addr)} {t : String} {a : Addr} (hl : lookup outer t = some a) : (t, a) ∈ outer := by
  simp only [lookup, Option.map_eq_some_iff] at hl
  obtain ⟨e, he, rfl⟩ := hl
  have hm := List.mem_of_find?_eq_some he
  have hp := List.find?_some he
  simp only [beq_iff_eq] at hp
  subst hp
  exact hm

theorem lookup_none_name {outer : List (String × Addr)} {t : String} (hl : lookup outer t = none) : ∀ e, e ∈ outer → e.1 ≠ t := by
  intro e he heq
  simp only [lookup, Option.map_eq_none_iff, List.find?_eq_none] at hl
  have := hl e he
  simp [heq] at this

theorem registerIn_built (P : String → String → Nat → Prop) (h : RHeap) (outer : List (String × Addr)) (t f : String) (fn : Nat)
    (hb : Built P h outer) (hp : P t f fn) : Built P (registerIn h outer t f fn).1 (registerIn h outer t f fn).2 := by
  obtain ⟨hv, hinj, hent⟩ := hb
  simp only [registerIn, getOrCreate]
  cases hl : lookup outer t with
  | some a =>
    have hm := lookup_mem_name hl
    have ha := hv _ hm
    simp only
    cases hd : h.read a with
    | none => simp only [hd]; exact ⟨hv, hinj, hent⟩
    | some d =>
      simp only [hd]
      refine ⟨fun e he => by rw [size_write]; exact hv e he, hinj, ?_⟩
      rintro t' f' fn' ⟨a', d', hm', hr', hx'⟩
      by_cases haa : a = a'
      · subst haa
        rw [read_write_same h a _ ha] at hr'
        simp only [Option.some.injEq] at hr'
        subst hr'
        have ht' : t' = t := hinj _ _ hm' hm rfl
        subst ht'
        rcases mem_dictSet hx' with hx' | hx'
        · cases hx'; exact hp
        · exact hent t' f' fn' ⟨a, d, hm, hd, hx'⟩
      · rw [read_write_other h a a' _ haa] at hr'
        exact hent t' f' fn' ⟨a', d', hm', hr', hx'⟩
  | none =>
    have hne := lookup_none_name hl
    simp only
    have hrn : (h.alloc []).1.read (h.alloc []).2 = some [] := read_alloc_new h []
    simp only [hrn]
    have hsz : (h.alloc []).2 = h.size := rfl
    refine ⟨?_, ?_, ?_⟩
    · intro e he
      simp only [List.mem_append, List.mem_singleton] at he
      rw [size_write, size_alloc]
      rcases he with he | rfl
      · exact Nat.lt_succ_of_lt (hv e he)
      · exact Nat.lt_succ_self _
    · intro e1 e2 h1 h2 heq
      simp only [List.mem_append, List.mem_singleton] at h1 h2
      rcases h1 with h1 | rfl <;> rcases h2 with h2 | rfl
      · exact hinj e1 e2 h1 h2 heq
      · have := hv e1 h1; rw [heq] at this; exact absurd this (Nat.lt_irrefl _)
      · have := hv e2 h2; rw [← heq] at this; exact absurd this (Nat.lt_irrefl _)
      · rfl
    · rintro t' f' fn' ⟨a', d', hm', hr', hx'⟩
      simp only [List.mem_append, List.mem_singleton] at hm'
      by_cases haa : h.size = a'
      · subst haa
        rw [hsz, read_write_same _ _ _ (by rw [size_alloc]; exact Nat.lt_succ_self _)] at hr'
        simp only [Option.some.injEq] at hr'
        subst hr'
        rcases hm' with hm' | hm'
        · exact absurd (hv _ hm') (Nat.lt_irrefl _)
        · simp only [Prod.mk.injEq] at hm'
          obtain ⟨rfl, _⟩ := hm'
          rcases mem_dictSet hx' with hx' | hx'
          · cases hx'; exact hp
          · simp at hx'
      · rw [hsz, read_write_other _ _ a' _ haa] at hr'
        rcases hm' with hm' | hm'
        · rw [read_alloc_old h [] a' (hv _ hm')] at hr'
          exact hent t' f' fn' ⟨a', d', hm', hr', hx'⟩
        · simp only [Prod.mk.injEq] at hm'
          exact absurd hm'.2.symm haa

theorem mergeDict_built (P : String → String → Nat → Prop) (keep : String → String → Bool) (t : String) : ∀ (d : RDict) (h : RHeap)
    (outer : List (String × Addr)), Built P h outer → (∀ x, x ∈ d → keep t x.1 = true → P t x.1 x.2) →
      Built P (mergeDict keep t d h outer).1 (mergeDict keep t d h outer).2 := by
  intro d
  induction d with
  | nil => intro h outer hb _; exact hb
  | cons e rest ih =>
    intro h outer hb hp
    obtain ⟨f, fn⟩ := e
    simp only [mergeDict]
    split
    · rename_i hk
      exact ih _ _ (registerIn_built P h outer t f fn hb (hp (f, fn) (by simp) hk)) (fun x hx => hp x (by simp [hx]))
    · exact ih h outer hb (fun x hx => hp x (by simp [hx]))

theorem Built.empty (P : String → String → Nat → Prop) (h : RHeap) : Built P h [] :=
  ⟨fun e he => by simp at he, fun e1 _ he => by simp at he, fun t f fn ⟨a, d, hm, _⟩ => by simp at hm⟩

theorem mergeOuter_built (P : String → String → Nat → Prop) (keep : String → String → Bool) (n : Nat) : ∀ (other : List (String × Addr)) (h : RHeap)
    (outer : List (String × Addr)), n ≤ h.size → RFresh n outer → Built P h outer → (∀ e, e ∈ other → e.2 < n) →
      (∀ e d x, e ∈ other → h.read e.2 = some d → x ∈ d → keep e.1 x.1 = true → P e.1 x.1 x.2) →
      Built P (mergeOuter keep other h outer).1 (mergeOuter keep other h outer).2 := by
  intro other
  induction other with
  | nil => intro h outer _ _ hb _ _; exact hb
  | cons e rest ih =>
    intro h outer hn hf hb hlt hp
    obtain ⟨t, a⟩ := e
    simp only [mergeOuter]
    split
    · rename_i d hd
      obtain ⟨p, q⟩ := mergeDict_ok n keep t d h outer hn hf
      refine ih _ _ (Nat.le_trans hn p.1) q
        (mergeDict_built P keep t d h outer hb (fun x hx hk => hp (t, a) d x (by simp) hd hx hk)) (fun e he => hlt e (by simp [he])) ?_
      intro e d' x he hr hx hk
      rw [p.2 e.2 (hlt e (by simp [he]))] at hr
      exact hp e d' x (by simp [he]) hr hx hk
    · exact ih h outer hn hf hb (fun e he => hlt e (by simp [he])) (fun e d x he => hp e d x (by simp [he]))

end PyGql.Heap.Reg

/-
  C14 — registries: registrations on a deep clone never touch an inner dict of the source.
-/
import PyGqlModel.Registry

set_option linter.unusedSimpArgs false
set_option linter.unusedVariables false

namespace PyGql.Heap.Reg
open PyGql.Heap

theorem size_alloc (h : RHeap) (d : RDict) : (h.alloc d).1.size = h.size + 1 := by simp [RHeap.alloc, RHeap.size]
theorem size_write (h : RHeap) (a : Addr) (d : RDict) : (h.write a d).size = h.size := by simp [RHeap.write, RHeap.size]
theorem read_alloc_old (h : RHeap) (d : RDict) (a : Addr) (ha : a < h.size) : (h.alloc d).1.read a = h.read a := by
  simp only [RHeap.alloc, RHeap.read, RHeap.size] at *
  exact List.getElem?_append_left ha
theorem read_write_other (h : RHeap) (a b : Addr) (d : RDict) (hne : a ≠ b) : (h.write a d).read b = h.read b := by
  simp only [RHeap.write, RHeap.read]
  exact List.getElem?_set_ne hne

/-- no inner dict below `n` was written -/
def RFrame (n : Nat) (h h' : RHeap) : Prop := h.size ≤ h'.size ∧ ∀ a, a < n → h'.read a = h.read a

theorem RFrame.refl (n : Nat) (h : RHeap) : RFrame n h h := ⟨Nat.le_refl _, fun _ _ => rfl⟩
theorem RFrame.trans {n : Nat} {h1 h2 h3 : RHeap} (a : RFrame n h1 h2) (b : RFrame n h2 h3) : RFrame n h1 h3 :=
  ⟨Nat.le_trans a.1 b.1, fun x hx => by rw [b.2 x hx, a.2 x hx]⟩

/-- every inner dict the outer map points to is owned: it lives at an address `≥ n` -/
def RFresh (n : Nat) (outer : List (String × Addr)) : Prop := ∀ e, e ∈ outer → n ≤ e.2

theorem lookup_mem {outer : List (String × Addr)} {t : String} {a : Addr} (hl : lookup outer t = some a) : ∃ e, e ∈ outer ∧ e.2 = a := by
  simp only [lookup, Option.map_eq_some_iff] at hl
  obtain ⟨e, he, rfl⟩ := hl
  exact ⟨e, List.mem_of_find?_eq_some he, rfl⟩

theorem registerIn_ok (n : Nat) (h : RHeap) (outer : List (String × Addr)) (t f : String) (fn : Nat) (hn : n ≤ h.size) (hf : RFresh n outer) :
    RFrame n h (registerIn h outer t f fn).1 ∧ RFresh n (registerIn h outer t f fn).2 := by
  simp only [registerIn, getOrCreate]
  cases hl : lookup outer t with
  | some a =>
    obtain ⟨e, he, rfl⟩ := lookup_mem hl
    have ha := hf e he
    simp only
    split
    · refine ⟨⟨by rw [size_write]; exact Nat.le_refl _, fun x hx => ?_⟩, hf⟩
      exact read_write_other h e.2 x _ (Nat.ne_of_gt (Nat.lt_of_lt_of_le hx ha))
    · exact ⟨RFrame.refl n h, hf⟩
  | none =>
    simp only
    have hfr : RFrame n h (h.alloc []).1 := ⟨by rw [size_alloc]; omega, fun x hx => read_alloc_old h [] x (Nat.lt_of_lt_of_le hx hn)⟩
    have hf' : RFresh n (outer ++ [(t, (h.alloc []).2)]) := by
      intro e he
      simp only [List.mem_append, List.mem_singleton] at he
      rcases he with he | rfl
      · exact hf e he
      · exact hn
    split
    · refine ⟨hfr.trans ⟨by rw [size_write]; exact Nat.le_refl _, fun x hx => ?_⟩, hf'⟩
      exact read_write_other _ _ x _ (Nat.ne_of_gt (Nat.lt_of_lt_of_le hx hn))
    · exact ⟨hfr, hf'⟩

/-- the clone's registries own all their inner dicts -/
def RegsFresh (n : Nat) (r : Registries) : Prop := RFresh n r.resolvers ∧ RFresh n r.subscriptions

theorem applyOp_ok (n : Nat) (s : RHeap × Registries) (op : RegOp) (hn : n ≤ s.1.size) (hf : RegsFresh n s.2) :
    RFrame n s.1 (applyOp s op).1 ∧ RegsFresh n (applyOp s op).2 := by
  cases op with
  | resolver t f fn =>
    obtain ⟨a, b⟩ := registerIn_ok n s.1 s.2.resolvers t f fn hn hf.1
    exact ⟨a, b, hf.2⟩
  | subscription t f fn =>
    obtain ⟨a, b⟩ := registerIn_ok n s.1 s.2.subscriptions t f fn hn hf.2
    exact ⟨a, hf.1, b⟩
  | default t fn => exact ⟨RFrame.refl n s.1, hf⟩

theorem applyOps_ok (n : Nat) : ∀ (ops : List RegOp) (s : RHeap × Registries), n ≤ s.1.size → RegsFresh n s.2 →
    RFrame n s.1 (applyOps ops s).1 ∧ RegsFresh n (applyOps ops s).2 := by
  intro ops
  induction ops with
  | nil => intro s _ hf; exact ⟨RFrame.refl n s.1, hf⟩
  | cons op ops ih =>
    intro s hn hf
    obtain ⟨a, b⟩ := applyOp_ok n s op hn hf
    obtain ⟨c, d⟩ := ih (applyOp s op) (Nat.le_trans hn a.1) b
    exact ⟨a.trans c, d⟩

theorem mergeDict_ok (n : Nat) (t : String) : ∀ (d : RDict) (h : RHeap) (outer : List (String × Addr)), n ≤ h.size → RFresh n outer →
    RFrame n h (mergeDict t d h outer).1 ∧ RFresh n (mergeDict t d h outer).2 := by
  intro d
  induction d with
  | nil => intro h outer _ hf; exact ⟨RFrame.refl n h, hf⟩
  | cons e rest ih =>
    intro h outer hn hf
    obtain ⟨f, fn⟩ := e
    obtain ⟨a, b⟩ := registerIn_ok n h outer t f fn hn hf
    obtain ⟨c, d⟩ := ih _ _ (Nat.le_trans hn a.1) b
    exact ⟨a.trans c, d⟩

theorem mergeOuter_ok (n : Nat) : ∀ (other : List (String × Addr)) (h : RHeap) (outer : List (String × Addr)), n ≤ h.size → RFresh n outer →
    RFrame n h (mergeOuter other h outer).1 ∧ RFresh n (mergeOuter other h outer).2 := by
  intro other
  induction other with
  | nil => intro h outer _ hf; exact ⟨RFrame.refl n h, hf⟩
  | cons e rest ih =>
    intro h outer hn hf
    obtain ⟨t, a⟩ := e
    simp only [mergeOuter]
    split
    · rename_i d _
      obtain ⟨p, q⟩ := mergeDict_ok n t d h outer hn hf
      obtain ⟨c, d'⟩ := ih _ _ (Nat.le_trans hn p.1) q
      exact ⟨p.trans c, d'⟩
    · exact ih h outer hn hf

/-- `Schema.clone` with `merge_resolvers`: no inner dict of the heap is written; the clone owns all its inner dicts -/
theorem cloneRegs_deep_ok (h : RHeap) (src : Registries) :
    RFrame h.size h (cloneRegs true h src).1 ∧ RegsFresh h.size (cloneRegs true h src).2 := by
  simp only [cloneRegs, if_true]
  obtain ⟨a, b⟩ := mergeOuter_ok h.size src.resolvers h [] (Nat.le_refl _) (by intro e he; simp at he)
  obtain ⟨c, d⟩ := mergeOuter_ok h.size src.subscriptions _ [] a.1 (by intro e he; simp at he)
  exact ⟨a.trans c, b, d⟩

end PyGql.Heap.Reg

/-
  C14 — closedness: "a step only re-points references to registered objects".

  `StepImp chk h h'`: every object of `h` is still there in `h'`, of the same sort (and, for types, the same kind
  and name), owning a sub-list of its members, and if its own references passed `chk` they still do.
  Shapes (`argShape` / `fieldShape` / `typeShape` / `dirShape`) are kept by such steps; every visitor hook is
  such a step for every `chk` compatible with the visitor, and ESTABLISHES the shape of what it returns:
  `refOK reg` for the heal visitor, the incoming `chk0` for the others.
-/
import PyGqlModel.Lemmas.HeapOwn

set_option linter.unusedSimpArgs false
set_option linter.unusedVariables false

namespace PyGql.Heap.Own
open PyGql.Heap

def refsOf : Obj → List Ref
  | .type t => typeRefs t
  | .field f => [f.ty.base]
  | .arg g => [g.ty.base]
  | .dir _ => []

/-- two type expressions have the same shape and the same NAME at their base (the address may differ) -/
def sameNames : TRef → TRef → Prop
  | .named r, .named r' => r'.name = r.name
  | .list t, .list t' => sameNames t t'
  | .nonNull t, .nonNull t' => sameNames t t'
  | _, _ => False

theorem sameNames_refl : ∀ t : TRef, sameNames t t
  | .named _ => rfl
  | .list t => sameNames_refl t
  | .nonNull t => sameNames_refl t

theorem sameNames_trans : ∀ {t1 t2 t3 : TRef}, sameNames t1 t2 → sameNames t2 t3 → sameNames t1 t3
  | .named _, .named _, .named _, a, b => by simp only [sameNames] at *; rw [b, a]
  | .list t1, .list t2, .list t3, a, b => sameNames_trans (t1 := t1) (t2 := t2) (t3 := t3) a b
  | .nonNull t1, .nonNull t2, .nonNull t3, a, b => sameNames_trans (t1 := t1) (t2 := t2) (t3 := t3) a b
  | .named _, .list _, _, a, _ => by simp [sameNames] at a
  | .named _, .nonNull _, _, a, _ => by simp [sameNames] at a
  | .list _, .named _, _, a, _ => by simp [sameNames] at a
  | .list _, .nonNull _, _, a, _ => by simp [sameNames] at a
  | .nonNull _, .named _, _, a, _ => by simp [sameNames] at a
  | .nonNull _, .list _, _, a, _ => by simp [sameNames] at a
  | .named _, .named _, .list _, _, b => by simp [sameNames] at b
  | .named _, .named _, .nonNull _, _, b => by simp [sameNames] at b
  | .list _, .list _, .named _, _, b => by simp [sameNames] at b
  | .list _, .list _, .nonNull _, _, b => by simp [sameNames] at b
  | .nonNull _, .nonNull _, .named _, _, b => by simp [sameNames] at b
  | .nonNull _, .nonNull _, .list _, _, b => by simp [sameNames] at b

/-- the same sort of object with ALL its non-reference attributes: for a type kind, name, description, default resolver,
    type resolver, enum values, protected flag; for a field name, description, deprecation, resolver, subscription resolver,
    python name; for an argument / input field name, python name, default, description; for a directive name, locations,
    description. Type references keep their shape and the name at their base. -/
def SameHead : Obj → Obj → Prop
  | .type t, .type t' => t'.kind = t.kind ∧ t'.name = t.name ∧ t'.desc = t.desc ∧ t'.dres = t.dres ∧ t'.rtype = t.rtype ∧
      t'.values = t.values ∧ t'.prot = t.prot ∧ t'.cls = t.cls
  | .field f, .field f' => f'.name = f.name ∧ f'.desc = f.desc ∧ f'.depr = f.depr ∧ f'.res = f.res ∧ f'.sub = f.sub ∧ f'.py = f.py ∧
      sameNames f.ty f'.ty
  | .arg g, .arg g' => g'.name = g.name ∧ g'.py = g.py ∧ g'.dflt = g.dflt ∧ g'.desc = g.desc ∧ sameNames g.ty g'.ty
  | .dir d, .dir d' => d'.name = d.name ∧ d'.locs = d.locs ∧ d'.desc = d.desc
  | _, _ => False

def Evolves (chk : Ref → Bool) (o o' : Obj) : Prop :=
  SameHead o o' ∧ List.Sublist (kids o') (kids o) ∧ ((refsOf o).all chk = true → (refsOf o').all chk = true)

def StepImp (chk : Ref → Bool) (h h' : Heap) : Prop :=
  ∀ a o, h.read a = some o → ∃ o', h'.read a = some o' ∧ Evolves chk o o'

theorem SameHead.refl (o : Obj) : SameHead o o := by cases o <;> simp [SameHead, sameNames_refl]

theorem SameHead.trans {o1 o2 o3 : Obj} (a : SameHead o1 o2) (b : SameHead o2 o3) : SameHead o1 o3 := by
  cases o1 <;> cases o2 <;> cases o3 <;> simp only [SameHead] at a b ⊢ <;> try exact a.elim
  · obtain ⟨a1, a2, a3, a4, a5, a6, a7, a8⟩ := a
    obtain ⟨b1, b2, b3, b4, b5, b6, b7, b8⟩ := b
    exact ⟨b1.trans a1, b2.trans a2, b3.trans a3, b4.trans a4, b5.trans a5, b6.trans a6, b7.trans a7, b8.trans a8⟩
  · obtain ⟨a1, a2, a3, a4, a5, a6, a7⟩ := a
    obtain ⟨b1, b2, b3, b4, b5, b6, b7⟩ := b
    exact ⟨b1.trans a1, b2.trans a2, b3.trans a3, b4.trans a4, b5.trans a5, b6.trans a6, sameNames_trans a7 b7⟩
  · obtain ⟨a1, a2, a3, a4, a5⟩ := a
    obtain ⟨b1, b2, b3, b4, b5⟩ := b
    exact ⟨b1.trans a1, b2.trans a2, b3.trans a3, b4.trans a4, sameNames_trans a5 b5⟩
  · obtain ⟨a1, a2, a3⟩ := a
    obtain ⟨b1, b2, b3⟩ := b
    exact ⟨b1.trans a1, b2.trans a2, b3.trans a3⟩

theorem Evolves.refl (chk : Ref → Bool) (o : Obj) : Evolves chk o o := ⟨SameHead.refl o, List.Sublist.refl _, fun h => h⟩

theorem Evolves.trans {chk : Ref → Bool} {o1 o2 o3 : Obj} (a : Evolves chk o1 o2) (b : Evolves chk o2 o3) : Evolves chk o1 o3 :=
  ⟨a.1.trans b.1, b.2.1.trans a.2.1, fun h => b.2.2 (a.2.2 h)⟩

theorem StepImp.refl (chk : Ref → Bool) (h : Heap) : StepImp chk h h := fun a o hr => ⟨o, hr, Evolves.refl chk o⟩

theorem StepImp.trans {chk : Ref → Bool} {h1 h2 h3 : Heap} (a : StepImp chk h1 h2) (b : StepImp chk h2 h3) : StepImp chk h1 h3 := by
  intro x o hr
  obtain ⟨o2, h2r, e2⟩ := a x o hr
  obtain ⟨o3, h3r, e3⟩ := b x o2 h2r
  exact ⟨o3, h3r, e2.trans e3⟩

theorem step_alloc (chk : Ref → Bool) (h : Heap) (o : Obj) : StepImp chk h (h.alloc o).1 := by
  intro a o' hr
  exact ⟨o', by rw [read_alloc_old h o a (read_lt h a o' hr)]; exact hr, Evolves.refl chk o'⟩

theorem step_write (chk : Ref → Bool) (h : Heap) (a : Addr) (o o' : Obj) (hr : h.read a = some o) (e : Evolves chk o o') :
    StepImp chk h (h.write a o') := by
  intro b ob hb
  by_cases hab : a = b
  · subst hab
    rw [hr] at hb; cases hb
    exact ⟨o', read_write_same' h a o' (read_lt h a _ hr), e⟩
  · exact ⟨ob, by rw [read_write_other h a b o' hab]; exact hb, Evolves.refl chk ob⟩
where
  read_write_same' (h : Heap) (a : Addr) (o : Obj) (ha : a < h.size) : (h.write a o).read a = some o := by
    simp only [Heap.write, Heap.read, Heap.size] at *
    simp [List.getElem?_set, ha]

theorem read_write_self (h : Heap) (a : Addr) (o : Obj) (ha : a < h.size) : (h.write a o).read a = some o := by
  simp only [Heap.write, Heap.read, Heap.size] at *
  simp [List.getElem?_set, ha]

/-! ### shapes are kept -/

theorem readArg_of_read {h : Heap} {a : Addr} {g : ArgO} (hr : h.read a = some (.arg g)) : h.readArg a = some g := by
  simp [Heap.readArg, hr]
theorem readField_of_read {h : Heap} {a : Addr} {g : FieldO} (hr : h.read a = some (.field g)) : h.readField a = some g := by
  simp [Heap.readField, hr]
theorem readType_of_read {h : Heap} {a : Addr} {g : TypeO} (hr : h.read a = some (.type g)) : h.readType a = some g := by
  simp [Heap.readType, hr]
theorem readDir_of_read {h : Heap} {a : Addr} {g : DirO} (hr : h.read a = some (.dir g)) : h.readDir a = some g := by
  simp [Heap.readDir, hr]

theorem argShape_keep {chk : Ref → Bool} {h h' : Heap} (st : StepImp chk h h') (a : Addr) (hs : argShape chk h a = true) :
    argShape chk h' a = true := by
  simp only [argShape] at hs
  split at hs
  · rename_i g hg
    obtain ⟨o', hr', hd, _, hrefs⟩ := st a _ (readArg_read hg)
    cases o' with
    | arg g' =>
      have := hrefs (by simpa [refsOf] using hs)
      simp only [argShape, readArg_of_read hr']
      simpa [refsOf] using this
    | type _ => simp [SameHead] at hd
    | field _ => simp [SameHead] at hd
    | dir _ => simp [SameHead] at hd
  · cases hs

theorem fieldShape_keep {chk : Ref → Bool} {h h' : Heap} (st : StepImp chk h h') (a : Addr) (hs : fieldShape chk h a = true) :
    fieldShape chk h' a = true := by
  simp only [fieldShape] at hs
  split at hs
  · rename_i f hf
    simp only [Bool.and_eq_true, List.all_eq_true] at hs
    obtain ⟨o', hr', hd, hk, hrefs⟩ := st a _ (readField_read hf)
    cases o' with
    | field f' =>
      have := hrefs (by simpa [refsOf] using hs.1)
      simp only [fieldShape, readField_of_read hr', Bool.and_eq_true, List.all_eq_true]
      exact ⟨by simpa [refsOf] using this, fun c hc => argShape_keep st c (hs.2 c (hk.subset (by simpa [kids] using hc)))⟩
    | type _ => simp [SameHead] at hd
    | arg _ => simp [SameHead] at hd
    | dir _ => simp [SameHead] at hd
  · cases hs

theorem dirShape_keep {chk : Ref → Bool} {h h' : Heap} (st : StepImp chk h h') (a : Addr) (hs : dirShape chk h a = true) :
    dirShape chk h' a = true := by
  simp only [dirShape] at hs
  split at hs
  · rename_i d hd0
    simp only [List.all_eq_true] at hs
    obtain ⟨o', hr', hd, hk, _⟩ := st a _ (readDir_read hd0)
    cases o' with
    | dir d' =>
      simp only [dirShape, readDir_of_read hr', List.all_eq_true]
      exact fun c hc => argShape_keep st c (hs c (hk.subset (by simpa [kids] using hc)))
    | type _ => simp [SameHead] at hd
    | arg _ => simp [SameHead] at hd
    | field _ => simp [SameHead] at hd
  · cases hs

theorem typeShape_eq (chk : Ref → Bool) (h : Heap) (a : Addr) (t : TypeO) (ht : h.readType a = some t) :
    typeShape chk h a = ((typeRefs t).all chk && typeMembersOK chk h t) := by
  simp only [typeShape, ht]

theorem typeMembersOK_sub {chk : Ref → Bool} {h h' : Heap} (st : StepImp chk h h') (t t' : TypeO) (hk : t'.kind = t.kind)
    (hsub : ∀ c, c ∈ t'.fields → c ∈ t.fields) (hm : typeMembersOK chk h t = true) : typeMembersOK chk h' t' = true := by
  simp only [typeMembersOK, hk] at hm ⊢
  cases hkk : t.kind <;> simp only [hkk, List.all_eq_true] at hm ⊢ <;>
    first
      | exact fun c hc => fieldShape_keep st c (hm c (hsub c hc))
      | exact fun c hc => argShape_keep st c (hm c (hsub c hc))

theorem typeShape_keep {chk : Ref → Bool} {h h' : Heap} (st : StepImp chk h h') (a : Addr) (hs : typeShape chk h a = true) :
    typeShape chk h' a = true := by
  cases ht : h.readType a with
  | none => simp [typeShape, ht] at hs
  | some t =>
    rw [typeShape_eq chk h a t ht, Bool.and_eq_true] at hs
    obtain ⟨o', hr', hd, hk, hrefs⟩ := st a _ (readType_read ht)
    cases o' with
    | type t' =>
      simp only [SameHead] at hd
      rw [typeShape_eq chk h' a t' (readType_of_read hr'), Bool.and_eq_true]
      exact ⟨by simpa [refsOf] using hrefs (by simpa [refsOf] using hs.1),
             typeMembersOK_sub st t t' hd.1 (fun c hc => hk.subset (by simpa [kids] using hc)) hs.2⟩
    | field _ => simp [SameHead] at hd
    | arg _ => simp [SameHead] at hd
    | dir _ => simp [SameHead] at hd

/-- a type object keeps ALL its non-reference attributes -/
theorem readType_keep_attrs {chk : Ref → Bool} {h h' : Heap} (st : StepImp chk h h') (a : Addr) (t : TypeO) (ht : h.readType a = some t) :
    ∃ t', h'.readType a = some t' ∧ SameHead (.type t) (.type t') := by
  obtain ⟨o', hr', hd, _, _⟩ := st a _ (readType_read ht)
  cases o' with
  | type t' => exact ⟨t', readType_of_read hr', hd⟩
  | field _ => simp [SameHead] at hd
  | arg _ => simp [SameHead] at hd
  | dir _ => simp [SameHead] at hd

/-- name and kind of a type object never change -/
theorem readType_keep {chk : Ref → Bool} {h h' : Heap} (st : StepImp chk h h') (a : Addr) (t : TypeO) (ht : h.readType a = some t) :
    ∃ t', h'.readType a = some t' ∧ t'.kind = t.kind ∧ t'.name = t.name := by
  obtain ⟨o', hr', hd, _, _⟩ := st a _ (readType_read ht)
  cases o' with
  | type t' => exact ⟨t', readType_of_read hr', hd.1, hd.2.1⟩
  | field _ => simp [SameHead] at hd
  | arg _ => simp [SameHead] at hd
  | dir _ => simp [SameHead] at hd

/-! ### write patterns of the visitors -/

theorem healed_ok (reg : List (String × Addr)) (t t' : TRef) (ht : healed reg t = some t') : refOK reg t'.base = true := by
  induction t generalizing t' with
  | named r =>
    simp only [healed, Option.map_eq_some_iff] at ht
    obtain ⟨a, ha, rfl⟩ := ht
    simp [TRef.base, refOK, ha]
  | list t ih =>
    simp only [healed, Option.map_eq_some_iff] at ht
    obtain ⟨u, hu, rfl⟩ := ht
    simpa [TRef.base] using ih u hu
  | nonNull t ih =>
    simp only [healed, Option.map_eq_some_iff] at ht
    obtain ⟨u, hu, rfl⟩ := ht
    simpa [TRef.base] using ih u hu

theorem healed_sameNames (reg : List (String × Addr)) (t t' : TRef) (ht : healed reg t = some t') : sameNames t t' := by
  induction t generalizing t' with
  | named r =>
    simp only [healed, Option.map_eq_some_iff] at ht
    obtain ⟨a, _, rfl⟩ := ht
    simp [sameNames]
  | list t ih =>
    simp only [healed, Option.map_eq_some_iff] at ht
    obtain ⟨u, hu, rfl⟩ := ht
    simpa [sameNames] using ih u hu
  | nonNull t ih =>
    simp only [healed, Option.map_eq_some_iff] at ht
    obtain ⟨u, hu, rfl⟩ := ht
    simpa [sameNames] using ih u hu

theorem healedRefs_ok (reg : List (String × Addr)) (rs : List Ref) : (healedRefs reg rs).all (refOK reg) = true := by
  simp only [List.all_eq_true, healedRefs, List.mem_filterMap, Option.map_eq_some_iff]
  rintro r ⟨r0, _, a, ha, rfl⟩
  simp [refOK, ha]

theorem write_arg_ty (chk : Ref → Bool) (h : Heap) (a : Addr) (g : ArgO) (t : TRef) (hg : h.readArg a = some g) (ht : chk t.base = true)
    (hsn : sameNames g.ty t) : StepImp chk h (h.write a (.arg { g with ty := t })) :=
  step_write chk h a _ _ (readArg_read hg) ⟨⟨rfl, rfl, rfl, rfl, hsn⟩, List.Sublist.refl _, fun _ => by simpa [refsOf] using ht⟩

theorem write_field_ty (chk : Ref → Bool) (h : Heap) (a : Addr) (f : FieldO) (t : TRef) (hf : h.readField a = some f) (ht : chk t.base = true)
    (hsn : sameNames f.ty t) : StepImp chk h (h.write a (.field { f with ty := t })) :=
  step_write chk h a _ _ (readField_read hf) ⟨⟨rfl, rfl, rfl, rfl, rfl, rfl, hsn⟩, List.Sublist.refl _, fun _ => by simpa [refsOf] using ht⟩

theorem write_type_fields (chk : Ref → Bool) (h : Heap) (a : Addr) (t : TypeO) (kept : List Addr) (ht : h.readType a = some t)
    (hk : List.Sublist kept t.fields) : StepImp chk h (h.write a (.type { t with fields := kept })) :=
  step_write chk h a _ _ (readType_read ht) ⟨⟨rfl, rfl, rfl, rfl, rfl, rfl, rfl, rfl⟩, by simpa [kids] using hk,
    fun hr => by simpa [refsOf, typeRefs] using hr⟩

theorem write_type_ifaces (chk : Ref → Bool) (h : Heap) (a : Addr) (t : TypeO) (new : List Ref) (ht : h.readType a = some t)
    (hn : new.all chk = true) : StepImp chk h (h.write a (.type { t with ifaces := new })) :=
  step_write chk h a _ _ (readType_read ht) ⟨⟨rfl, rfl, rfl, rfl, rfl, rfl, rfl, rfl⟩, List.Sublist.refl _, fun hr => by
    cases hk : t.kind <;> simp_all [refsOf, typeRefs]⟩

theorem write_type_members (chk : Ref → Bool) (h : Heap) (a : Addr) (t : TypeO) (new : List Ref) (ht : h.readType a = some t)
    (hn : new.all chk = true) : StepImp chk h (h.write a (.type { t with members := new })) :=
  step_write chk h a _ _ (readType_read ht) ⟨⟨rfl, rfl, rfl, rfl, rfl, rfl, rfl, rfl⟩, List.Sublist.refl _, fun hr => by
    cases hk : t.kind <;> simp_all [refsOf, typeRefs]⟩

/-! ### visitors as steps -/

/-- `chk` is compatible with a visitor: the heal visitor re-points references to registered objects, so `chk` has to accept those -/
def Compat (v : Visitor) (reg : List (String × Addr)) (chk : Ref → Bool) : Prop :=
  match v with
  | .heal => ∀ r, refOK reg r = true → chk r = true
  | _ => True

def StepAll (v : Visitor) (reg : List (String × Addr)) (h h' : Heap) : Prop := ∀ chk, Compat v reg chk → StepImp chk h h'

theorem StepAll.refl (v : Visitor) (reg : List (String × Addr)) (h : Heap) : StepAll v reg h h := fun chk _ => StepImp.refl chk h
theorem StepAll.trans {v : Visitor} {reg : List (String × Addr)} {h1 h2 h3 : Heap} (a : StepAll v reg h1 h2) (b : StepAll v reg h2 h3) :
    StepAll v reg h1 h3 := fun chk hc => (a chk hc).trans (b chk hc)
theorem stepAll_alloc (v : Visitor) (reg : List (String × Addr)) (h : Heap) (o : Obj) : StepAll v reg h (h.alloc o).1 :=
  fun chk _ => step_alloc chk h o

/-- what the visitor establishes for the objects it returns -/
def outChk (v : Visitor) (reg : List (String × Addr)) (chk0 : Ref → Bool) : Ref → Bool :=
  match v with
  | .heal => refOK reg
  | _ => chk0

theorem compat_out (v : Visitor) (reg : List (String × Addr)) (chk0 : Ref → Bool) (hc : Compat v reg chk0) : Compat v reg (outChk v reg chk0) := by
  cases v <;> simp_all [Compat, outChk]

theorem mapFilter_step {v : Visitor} {reg : List (String × Addr)} {f : Heap → Addr → Heap × Option Addr}
    (hf : ∀ h a, StepAll v reg h (f h a).1) : ∀ (as : List Addr) (h : Heap), StepAll v reg h (mapFilter f h as).1 := by
  intro as
  induction as with
  | nil => intro h; exact StepAll.refl v reg h
  | cons a as ih => intro h; simp only [mapFilter]; exact (hf h a).trans (ih _)

/-- `map_and_filter` over members: every returned member has the established shape in the final heap -/
theorem mapFilter_est {S : (Ref → Bool) → Heap → Addr → Bool}
    (keep : ∀ (chk : Ref → Bool) (h h' : Heap) (a : Addr), StepImp chk h h' → S chk h a = true → S chk h' a = true)
    {v : Visitor} {reg : List (String × Addr)} {chk0 : Ref → Bool} (hc : Compat v reg chk0)
    {f : Heap → Addr → Heap × Option Addr} (hstep : ∀ h a, StepAll v reg h (f h a).1)
    (hest : ∀ h a, S chk0 h a = true → ∀ a', (f h a).2 = some a' → S (outChk v reg chk0) (f h a).1 a' = true) :
    ∀ (as : List Addr) (h : Heap), (∀ c, c ∈ as → S chk0 h c = true) →
      ∀ c, c ∈ (mapFilter f h as).2 → S (outChk v reg chk0) (mapFilter f h as).1 c = true := by
  intro as
  induction as with
  | nil => intro h _ c hc'; simp [mapFilter] at hc'
  | cons a as ih =>
    intro h hin c hc'
    simp only [mapFilter] at hc' ⊢
    have hrest : ∀ c, c ∈ as → S chk0 (f h a).1 c = true := fun c hcm => keep chk0 _ _ c (hstep h a chk0 hc) (hin c (by simp [hcm]))
    have hlater := mapFilter_step hstep as (f h a).1 (outChk v reg chk0) (compat_out v reg chk0 hc)
    split at hc'
    · rename_i x hx
      simp only [List.mem_cons] at hc'
      rcases hc' with rfl | hc'
      · exact keep _ _ _ _ hlater (hest h a (hin a (by simp)) _ hx)
      · exact ih _ hrest c hc'
    · exact ih _ hrest c hc'

end PyGql.Heap.Own

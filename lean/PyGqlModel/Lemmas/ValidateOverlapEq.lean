/-
  `OverlappingFieldsCanBeMergedChecker`, soundness half, part 1: the comparisons are reflexive and symmetric
  (`_same_value`, `_same_arguments`, `_types_conflict`, mutual exclusivity of the parents), hence so is `Spec.Conf`.
-/
import PyGqlModel.Lemmas.ValidateOverlapWalk2
namespace PyGql.Validate
open PyGql PyGql.Validate.Spec

theorem beq_symm' {α} [BEq α] [LawfulBEq α] (a b : α) : (a == b) = (b == a) := BEq.comm

theorem bne_symm' {α} [BEq α] [LawfulBEq α] (a b : α) : (a != b) = (b != a) := by
  simp only [bne, beq_symm' a b]

mutual
theorem sameValue_refl : ∀ v : Value, sameValue v v = true
  | .var a => by simp [sameValue]
  | .int a => by simp [sameValue]
  | .float a => by simp [sameValue]
  | .str a => by simp [sameValue]
  | .bool a => by simp [sameValue]
  | .null => by simp [sameValue]
  | .enum a => by simp [sameValue]
  | .list vs => by rw [sameValue]; exact sameValues_refl vs
  | .obj fs => by rw [sameValue]; exact sameFields_refl fs
theorem sameValues_refl : ∀ vs : List Value, sameValues vs vs = true
  | [] => by simp [sameValues]
  | v :: vs => by rw [sameValues, sameValue_refl v, sameValues_refl vs]; rfl
theorem sameFields_refl : ∀ fs : List ObjField, sameFields fs fs = true
  | [] => by simp [sameFields]
  | .mk n v :: fs => by rw [sameFields, sameValue_refl v, sameFields_refl fs]; simp
end

mutual
theorem sameValue_symm : ∀ a b : Value, sameValue a b = sameValue b a
  | .list as, .list bs => by rw [sameValue, sameValue]; exact sameValues_symm as bs
  | .obj fs, .obj gs => by rw [sameValue, sameValue]; exact sameFields_symm fs gs
  | .var a, .var b => by simp only [sameValue]; exact beq_symm' a b
  | .int a, .int b => by simp only [sameValue]; exact beq_symm' a b
  | .float a, .float b => by simp only [sameValue]; exact beq_symm' a b
  | .str a, .str b => by simp only [sameValue]; exact beq_symm' a b
  | .bool a, .bool b => by simp only [sameValue]; exact beq_symm' a b
  | .enum a, .enum b => by simp only [sameValue]; exact beq_symm' a b
  | .null, .null => rfl
  | .var _, .int _ => rfl | .var _, .float _ => rfl | .var _, .str _ => rfl | .var _, .bool _ => rfl
  | .var _, .null => rfl | .var _, .enum _ => rfl | .var _, .list _ => rfl | .var _, .obj _ => rfl
  | .int _, .var _ => rfl | .int _, .float _ => rfl | .int _, .str _ => rfl | .int _, .bool _ => rfl
  | .int _, .null => rfl | .int _, .enum _ => rfl | .int _, .list _ => rfl | .int _, .obj _ => rfl
  | .float _, .var _ => rfl | .float _, .int _ => rfl | .float _, .str _ => rfl | .float _, .bool _ => rfl
  | .float _, .null => rfl | .float _, .enum _ => rfl | .float _, .list _ => rfl | .float _, .obj _ => rfl
  | .str _, .var _ => rfl | .str _, .int _ => rfl | .str _, .float _ => rfl | .str _, .bool _ => rfl
  | .str _, .null => rfl | .str _, .enum _ => rfl | .str _, .list _ => rfl | .str _, .obj _ => rfl
  | .bool _, .var _ => rfl | .bool _, .int _ => rfl | .bool _, .float _ => rfl | .bool _, .str _ => rfl
  | .bool _, .null => rfl | .bool _, .enum _ => rfl | .bool _, .list _ => rfl | .bool _, .obj _ => rfl
  | .null, .var _ => rfl | .null, .int _ => rfl | .null, .float _ => rfl | .null, .str _ => rfl
  | .null, .bool _ => rfl | .null, .enum _ => rfl | .null, .list _ => rfl | .null, .obj _ => rfl
  | .enum _, .var _ => rfl | .enum _, .int _ => rfl | .enum _, .float _ => rfl | .enum _, .str _ => rfl
  | .enum _, .bool _ => rfl | .enum _, .null => rfl | .enum _, .list _ => rfl | .enum _, .obj _ => rfl
  | .list _, .var _ => rfl | .list _, .int _ => rfl | .list _, .float _ => rfl | .list _, .str _ => rfl
  | .list _, .bool _ => rfl | .list _, .null => rfl | .list _, .enum _ => rfl | .list _, .obj _ => rfl
  | .obj _, .var _ => rfl | .obj _, .int _ => rfl | .obj _, .float _ => rfl | .obj _, .str _ => rfl
  | .obj _, .bool _ => rfl | .obj _, .null => rfl | .obj _, .enum _ => rfl | .obj _, .list _ => rfl
theorem sameValues_symm : ∀ as bs : List Value, sameValues as bs = sameValues bs as
  | [], [] => rfl
  | [], _ :: _ => rfl
  | _ :: _, [] => rfl
  | a :: as, b :: bs => by rw [sameValues, sameValues, sameValue_symm a b, sameValues_symm as bs]
theorem sameFields_symm : ∀ fs gs : List ObjField, sameFields fs gs = sameFields gs fs
  | [], [] => rfl
  | [], f :: _ => by cases f; rfl
  | f :: _, [] => by cases f; rfl
  | .mk n a :: fs, .mk m b :: gs => by
    rw [sameFields, sameFields, sameValue_symm a b, sameFields_symm fs gs, beq_symm' n m]
end

theorem sameArgsZip_symm : ∀ a b : List Arg, sameArgsZip a b = sameArgsZip b a
  | [], [] => rfl
  | [], _ :: _ => rfl
  | _ :: _, [] => rfl
  | x :: xs, y :: ys => by
    rw [sameArgsZip, sameArgsZip, sameValue_symm x.value y.value, sameArgsZip_symm xs ys]
    rw [bne_symm' x.name y.name]

theorem sameArgsZip_refl : ∀ a : List Arg, sameArgsZip a a = some true
  | [] => rfl
  | x :: xs => by rw [sameArgsZip]; simp [sameValue_refl, sameArgsZip_refl xs]

theorem sameArguments_symm (a b : List Arg) : sameArguments a b = sameArguments b a := by
  unfold sameArguments
  rw [bne_symm' a.length b.length, sameArgsZip_symm]

theorem sameArguments_refl (a : List Arg) : sameArguments a a = some true := by
  unfold sameArguments; simp [sameArgsZip_refl]

theorem typesConflict_symm (s : SchemaD) : ∀ a b : Ty, typesConflict s a b = typesConflict s b a
  | .named a, .named b => by
    simp only [typesConflict]
    have h1 : (isLeaf s a || isLeaf s b) = (isLeaf s b || isLeaf s a) := Bool.or_comm _ _
    rw [h1, bne_symm' a b]
  | .list a, .list b => by rw [typesConflict, typesConflict]; exact typesConflict_symm s a b
  | .nonNull a, .nonNull b => by rw [typesConflict, typesConflict]; exact typesConflict_symm s a b
  | .named _, .list _ => rfl | .named _, .nonNull _ => rfl
  | .list _, .named _ => rfl | .list _, .nonNull _ => rfl
  | .nonNull _, .named _ => rfl | .nonNull _, .list _ => rfl

theorem typesConflict_irrefl (s : SchemaD) : ∀ t : Ty, typesConflict s t t = false
  | .named a => by simp [typesConflict]
  | .list a => by rw [typesConflict]; exact typesConflict_irrefl s a
  | .nonNull a => by rw [typesConflict]; exact typesConflict_irrefl s a

theorem exclusiveParents_symm (s : SchemaD) (f1 f2 : FEntry) : exclusiveParents s f1 f2 = exclusiveParents s f2 f1 := by
  unfold exclusiveParents
  rw [bne_symm' f1.parent f2.parent]
  simp only [Bool.and_assoc]
  congr 1
  exact Bool.and_comm _ _

theorem exclusiveParents_self (s : SchemaD) (f : FEntry) : exclusiveParents s f f = false := by
  simp [exclusiveParents]

/-- **`Conf` is symmetric** -/
theorem Conf.symm {s : SchemaD} {d : Doc} {pme : Bool} {f1 f2 : FEntry} (h : Conf s d pme f1 f2) : Conf s d pme f2 f1 := by
  induction h with
  | args hme harg =>
    refine .args (by rw [exclusiveParents_symm]; exact hme) ?_
    rcases harg with h | h
    · exact Or.inl (fun e => h e.symm)
    · exact Or.inr (by rw [sameArguments_symm]; exact h)
  | types h1 h2 h3 => exact .types h2 h1 (by rw [typesConflict_symm]; exact h3)
  | sub s1 s2 a1 a2 c1 c2 _ ih =>
    exact .sub s2 s1 a2 a1 c2 c1 (by rw [exclusiveParents_symm]; exact ih)
  | subSwap s1 s2 a1 a2 c1 c2 _ ih =>
    exact .subSwap s2 s1 a2 a1 c2 c1 (by rw [exclusiveParents_symm]; exact ih)

end PyGql.Validate

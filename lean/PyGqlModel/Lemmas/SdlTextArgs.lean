/-
  C12 text level — `print_arguments` in its one-argument-per-line layout (some argument has a description), and the
  `ArgsPart` of an argument list from the `argOKT` conditions of `printTextWF` (layers (ii) and (iii) together).
-/
import PyGqlModel.Lemmas.SdlTextDesc
import PyGqlModel.Lemmas.SdlTextDefaults
namespace PyGql.SdlText
open PyGql PyGql.Ast PyGql.Sdl PyGql.Spec PyGql.PrintLex PyGql.PrintTokens PyGql.PrintMatch PyGql.PrintString PyGql.SdlPrint

/-- what is needed about the descriptions of the arguments at a depth -/
def ArgDescs (o : SdlPrintT.OptsT) (args : List ArgD) (depth : Nat) : Prop :=
  ∀ first, ∀ a ∈ args,
    DescPart (SdlPrintT.printDescription o a.desc depth first) (Item.yieldAll (descV (descOf (descToDoc a.desc))))

/-- `print_arguments`, one argument per line -/
theorem lay_arguments_multi (s : SchemaD) (o : SdlPrintT.OptsT) (hind : Blank o.indent) (args : List ArgD) (depth : Nat)
    (hm : SdlPrintT.multiArgs o args = true) (hd : ArgDescs o args (depth + 1)) (hc : ∀ a ∈ args, ArgCore s a) :
    ArgsPart s o args depth := by
  have hI := blank_repeatText o.indent hind depth
  have key : ∀ (l : List ArgD) (i : Nat), (∀ a ∈ l, a ∈ args) →
      Lay (Print.joinSep [10] (SdlPrintT.printArgs s o depth true i l))
        (Item.yieldAll (l.map fun a => inputValueV (inputValOf (argToDef s a)))) := by
    intro l
    induction l with
    | nil => intro i _; simpa [SdlPrintT.printArgs, Print.joinSep, Item.yieldAll] using lay_nil
    | cons x xs ih =>
      intro i hl
      obtain ⟨h1, h2, h3⟩ := hc x (hl x (by simp))
      have lx : Lay (SdlPrintT.printDescription o x.desc (depth + 1) (i == 0) ++ o.indent ++
          SdlPrintT.repeatText o.indent depth ++ SdlPrintT.printInputValue s x)
          (inputValueV (inputValOf (argToDef s x))).yield := by
        have := lay_desc_then (hd (i == 0) x (hl x (by simp)))
          (lay_blank_prefix hind (lay_blank_prefix hI (lay_inputValueCore s x h1 h2 h3)))
        rw [inputValueV_yield]
        simpa [List.append_assoc] using this
      cases xs with
      | nil => simpa [SdlPrintT.printArgs, Print.joinSep, Item.yieldAll] using lx
      | cons y ys =>
        have ih' := ih (i + 1) (fun z hz => hl z (by simp [hz]))
        have := lay_append lx (lay_lf_cons ih') (delimHead_cons (by decide))
        simp only [SdlPrintT.printArgs] at ih' this ⊢
        simpa [Print.joinSep, Item.yieldAll, List.append_assoc] using this
  have hne : args.isEmpty = false := by
    cases args with
    | nil => simp [SdlPrintT.multiArgs] at hm
    | cons _ _ => rfl
  have htxt : SdlPrintT.printArguments s o args depth =
      SdlPrintT.repeatText o.indent depth ++ 40 :: 10 :: (Print.joinSep [10] (SdlPrintT.printArgs s o depth true 0 args) ++
        10 :: (SdlPrintT.repeatText o.indent depth ++ [41])) := by
    simp [SdlPrintT.printArguments, hm, hne, joinSep_eq, List.append_assoc]
  rw [ArgsPart, htxt]
  constructor
  · have l1 := lay_blank_prefix hI (lay_parenL (lay_lf_cons (lay_append (key args 0 (fun a h => h))
      (lay_lf_cons (lay_blank_prefix hI (lay_parenR lay_nil))) (delimHead_cons (by decide)))))
    simpa [groupV, hne, Item.yieldAll, Item.yield, PrintMatch.yieldAll_append, List.map_map, Function.comp_def] using l1
  · intro c t e
    cases hr : SdlPrintT.repeatText o.indent depth with
    | nil => rw [hr] at e; cases e; decide
    | cons c' t' =>
      rw [hr] at e hI; cases e
      rcases hI c (by simp) with rfl | rfl <;> decide

/-- the conditions of `printTextWF` on an argument list give its `ArgsPart` -/
theorem argsPart_of_ok (s : SchemaD) (o : SdlPrintT.OptsT) (hind : Blank o.indent) (hdesc : o.descriptions = true)
    (args : List ArgD) (depth : Nat) (h : args.all (argOKT s ((depth + 1) * o.indent.length)) = true) :
    ArgsPart s o args depth := by
  rw [List.all_eq_true] at h
  have hc : ∀ a ∈ args, ArgCore s a := by
    intro a ha
    have h0 := h a ha
    have hd := defaultPart_of_ok s _ a h0
    simp only [argOKT, Bool.and_eq_true] at h0
    exact ⟨h0.1.1.1, h0.1.1.2, hd⟩
  have hds : ArgDescs o args (depth + 1) := by
    intro first a ha
    have h0 := h a ha
    simp only [argOKT, Bool.and_eq_true] at h0
    exact descPart_of_ok o hind hdesc a.desc (depth + 1) first h0.1.2
  by_cases hm : SdlPrintT.multiArgs o args = true
  · exact lay_arguments_multi s o hind args depth hm hds hc
  · have hm' : SdlPrintT.multiArgs o args = false := by simpa using hm
    refine lay_arguments_oneline s o args depth hm' ?_ hc
    intro a ha
    simp only [SdlPrintT.multiArgs, hdesc, Bool.true_and, List.any_eq_false] at hm'
    have := hm' a ha
    cases hda : a.desc with
    | none => rfl
    | some x =>
      rw [hda] at this
      have hx : x.isEmpty = true := by simpa using this
      simp [descToDoc, hx]

end PyGql.SdlText

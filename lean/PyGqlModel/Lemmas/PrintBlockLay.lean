/-
  Discharging `BlockLay` (block strings under every enclosing indentation) for the multi-line printed form:
  lexer scan (A), `replace('"""', …)` commutes with `_indent` (B), layout (C, from the three layout lemmas of the
  string part), assembly (D).
-/
import PyGqlModel.Lemmas.PrintLayValues
import PyGqlModel.Lemmas.LexBlockEscape
import PyGqlModel.Lemmas.LexBlockLayout
namespace PyGql.PrintTokens
open PyGql PyGql.Lex PyGql.Spec PyGql.PrintLex PyGql.PrintString PyGql.BlockString

/-! ### (A) the scan -/

/-- layout characters: LF, space, tab -/
def LayoutText (b : Text) : Prop := ∀ c ∈ b, c = 10 ∨ c = 32 ∨ c = 9

theorem escape_layout_prefix (b x : Text) (hb : LayoutText b) : escapeTQAux 0 (b ++ x) = b ++ escapeTQAux 0 x := by
  induction b with
  | nil => rfl
  | cons c t ih =>
    have hc := hb c (by simp)
    have hne : c ≠ 34 := by rcases hc with h | h | h <;> omega
    have hp : ([34, 34, 34] : Text).isPrefixOf (c :: (t ++ x)) = false := by
      simp [List.isPrefixOf]; intro e; exact absurd e.symm hne
    simp only [List.cons_append, escapeTQAux, hp, Bool.false_eq_true, ↓reduceIte, ih (fun y hy => hb y (by simp [hy]))]

theorem readBlockBody_close (n : Nat) (b r : Text) (hb : LayoutText b) :
    readBlockBody n 0 (b ++ tq ++ r) = .ok (b, r) := by
  induction b with
  | nil => simp [tq, readBlockBody, List.isPrefixOf]
  | cons c t ih =>
    have hc := hb c (by simp)
    have hne : c ≠ 34 := by rcases hc with h | h | h <;> omega
    have h92 : c ≠ 92 := by rcases hc with h | h | h <;> omega
    have hp : tq.isPrefixOf (c :: (t ++ tq ++ r)) = false := by
      simp [tq, List.isPrefixOf]; intro e; exact absurd e.symm hne
    have hbc : (isPrintable c || c == 10 || c == 13) = true := by
      rcases hc with h | h | h <;> subst h <;> decide
    have := ih (fun y hy => hb y (by simp [hy]))
    simp only [List.cons_append, List.append_assoc] at this hp ⊢
    rw [readBlockBody]
    simp [hp, h92, hbc, this]

theorem next_block_layout (n : Nat) (Q P X r : Text) (hQ : Blank Q) (hP : Blank P)
    (hX : ∀ c ∈ X, blockChar c = true) :
    next n (tq ++ 10 :: (Q ++ (escapeTQAux 0 X ++ 10 :: (P ++ (tq ++ r))))) =
      .ok (⟨.blockString, posAt n (tq ++ 10 :: (Q ++ (escapeTQAux 0 X ++ 10 :: (P ++ (tq ++ r))))), posAt n r,
            parseBlockString (10 :: (Q ++ X) ++ 10 :: P)⟩, some r) := by
  have hlay : LayoutText (10 :: Q) := by
    intro c hc; simp at hc; rcases hc with rfl | hc
    · exact Or.inl rfl
    · rcases hQ c hc with h | h <;> simp [h]
  have hlayP : LayoutText (10 :: P) := by
    intro c hc; simp at hc; rcases hc with rfl | hc
    · exact Or.inl rfl
    · rcases hP c hc with h | h <;> simp [h]
  have hv' : ∀ c ∈ (10 :: Q) ++ X, blockChar c = true := by
    intro c hc
    rcases List.mem_append.1 hc with h | h
    · rcases hlay c h with e | e | e <;> subst e <;> decide
    · exact hX c h
  have hesc := readBlockBody_escape n (P ++ (tq ++ r)) ((10 :: Q) ++ X) 0 (Nat.zero_le _) hv'
  rw [escape_layout_prefix _ _ hlay] at hesc
  have hclose := readBlockBody_close n (10 :: P) r hlayP
  simp only [List.cons_append, List.append_assoc, tq, List.nil_append] at hesc hclose
  rw [hclose] at hesc
  have h1 : isIgnored 34 = false := by decide
  have h3 : isPrintable 34 = true := by decide
  have h4 : symbolKind 34 = none := by decide
  simp [tq, next, readOverWhitespace, h1, h3, h4, List.isPrefixOf, readBlockString, hesc, hclose, Except.map]


/-! ### (B) `value.replace('"""', '\\"""')` commutes with `_indent` -/

theorem leadQ_replaceLF (Q s : Text) : leadQ (replaceLF Q s) = leadQ s := by
  induction s with
  | nil => rfl
  | cons c t ih =>
    simp only [replaceLF]
    split
    · rename_i h; subst h; simp [leadQ]
    · by_cases hc : c = 34 <;> simp [leadQ, hc, ih]

theorem escape_replaceLF (Q : Text) (hQ : Blank Q) : ∀ (s : Text) (k : Nat), k ≤ leadQ s →
    replaceLF Q (escapeTQAux k s) = escapeTQAux k (replaceLF Q s)
  | [], k, _ => by cases k <;> rfl
  | c :: t, k + 1, hk => by
    have hc : c = 34 := by
      by_cases h : c = 34
      · exact h
      · simp [leadQ, h] at hk
    subst hc
    have hk' : k ≤ leadQ t := by simp [leadQ] at hk; omega
    simp [escapeTQAux, replaceLF, escape_replaceLF Q hQ t k hk']
  | c :: t, 0, _ => by
    by_cases h10 : c = 10
    · subst h10
      have hp : ([34, 34, 34] : Text).isPrefixOf (10 :: t) = false := by simp [List.isPrefixOf]
      have hlay : LayoutText (10 :: Q) := by
        intro x hx; simp at hx; rcases hx with rfl | hx
        · exact Or.inl rfl
        · rcases hQ x hx with h | h <;> simp [h]
      have := escape_layout_prefix (10 :: Q) (replaceLF Q t) hlay
      simp only [List.cons_append] at this
      simp only [escapeTQAux, hp, Bool.false_eq_true, ↓reduceIte, replaceLF, this,
        escape_replaceLF Q hQ t 0 (Nat.zero_le _)]
    · have hrep : replaceLF Q (c :: t) = c :: replaceLF Q t := by simp [replaceLF, h10]
      have hpre : ([34, 34, 34] : Text).isPrefixOf (c :: replaceLF Q t) = ([34, 34, 34] : Text).isPrefixOf (c :: t) := by
        rw [Bool.eq_iff_iff]
        have a := tq_prefix_iff (c :: replaceLF Q t)
        have b := tq_prefix_iff (c :: t)
        simp only [tq] at a b
        rw [a, b]
        by_cases hc : c = 34 <;> simp [leadQ, hc, leadQ_replaceLF]
      rw [hrep]
      by_cases hp : ([34, 34, 34] : Text).isPrefixOf (c :: t) = true
      · have h3 : 3 ≤ leadQ (c :: t) := (tq_prefix_iff _).mp (by simpa [tq] using hp)
        have hc : c = 34 := by
          by_cases h : c = 34
          · exact h
          · simp [leadQ, h] at h3
        have h2 : 2 ≤ leadQ t := by subst hc; simp [leadQ] at h3; omega
        simp only [escapeTQAux, hp, hpre, ↓reduceIte]
        subst hc
        simp [replaceLF, escape_replaceLF Q hQ t 2 h2]
      · have hp' : ([34, 34, 34] : Text).isPrefixOf (c :: t) = false := (Bool.not_eq_true _).mp hp
        simp only [escapeTQAux, hp', hpre, Bool.false_eq_true, ↓reduceIte]
        simp [replaceLF, h10, escape_replaceLF Q hQ t 0 (Nat.zero_le _)]


/-! ### (C) layout -/

theorem isBlank_of_blank {P : Text} (h : Blank P) : IsBlank P := by
  intro c hc; rcases h c hc with e | e <;> subst e <;> decide

theorem isLine_noLF {l : Text} (h : IsLine l) : ∀ c ∈ l, c ≠ 10 := fun c hc => (h c hc).1

theorem isLine_blank_append {Q l : Text} (hQ : Blank Q) (hl : IsLine l) : IsLine (Q ++ l) := by
  intro c hc
  rcases List.mem_append.1 hc with h | h
  · rcases hQ c h with e | e <;> omega
  · exact hl c h

theorem joinLF_cons_cons (a b : Text) (xs : List Text) : joinLF (a :: b :: xs) = a ++ 10 :: joinLF (b :: xs) := by
  rw [joinLF]; simp

/-- C1: `_indent` of LF-joined lines = the lines, each prefixed, LF-joined -/
theorem indent_joinLF (Q : Text) : ∀ (l : Text) (ls : List Text), (∀ x ∈ l :: ls, IsLine x) →
    Q ++ replaceLF Q (joinLF (l :: ls)) = joinLF ((l :: ls).map (Q ++ ·))
  | l, [], h => by
    simp [joinLF, replaceLF_noLF Q l (isLine_noLF (h l (by simp)))]
  | l, l2 :: ls, h => by
    have ih := indent_joinLF Q l2 ls (fun x hx => h x (by simp [List.mem_cons] at hx ⊢; right; exact hx))
    rw [joinLF_cons_cons, replaceLF_append, replaceLF_noLF Q l (isLine_noLF (h l (by simp)))]
    simp only [replaceLF, ↓reduceIte, List.map_cons] at ih ⊢
    rw [joinLF_cons_cons, ← ih]
    simp

theorem joinLF_snoc (x : Text) (xs : List Text) (p : Text) : joinLF ((x :: xs) ++ [p]) = joinLF (x :: xs) ++ 10 :: p := by
  induction xs generalizing x with
  | nil => simp [joinLF]
  | cons y ys ih =>
    simp only [List.cons_append] at ih ⊢
    rw [joinLF_cons_cons, ih y, joinLF_cons_cons]; simp

theorem indentStep_blank (acc : Option Nat) (P : Text) (hP : IsBlank P) : indentStep acc P = acc := by
  have : (lstrip P) = [] := by
    have := lstrip_isEmpty P
    rw [show onlyWhiteSpace P = true from List.all_eq_true.mpr hP] at this
    simpa using this
  simp [indentStep, this]

theorem map_drop_prefix (Q : Text) (L : List Text) : (L.map (Q ++ ·)).map (fun l => l.drop Q.length) = L := by
  induction L with
  | nil => rfl
  | cons a t ih => simp [ih]

/-- C: the value's lines, each under the layout prefix `Q`, between an empty first line and a blank last line `P`,
    are decoded by `parse_block_string` to the value -/
theorem parseBlockString_layout (Q P l : Text) (ls : List Text) (hQ : Blank Q) (hP : Blank P)
    (hlines : ∀ x ∈ l :: ls, IsLine x) (hfirst : onlyWhiteSpace l = false)
    (hlast : onlyWhiteSpace ((l :: ls).getLast (by simp)) = false)
    (hmin : (l :: ls).foldl indentStep none = some 0) :
    parseBlockString (10 :: (Q ++ replaceLF Q (joinLF (l :: ls))) ++ 10 :: P) = joinLF (l :: ls) := by
  have hQb := isBlank_of_blank hQ
  have hPb := isBlank_of_blank hP
  -- the raw text as joined lines
  have hraw : 10 :: (Q ++ replaceLF Q (joinLF (l :: ls))) ++ 10 :: P =
      joinLF ([] :: ((l :: ls).map (Q ++ ·) ++ [P])) := by
    rw [indent_joinLF Q l ls hlines]
    have := joinLF_snoc (Q ++ l) (ls.map (Q ++ ·)) P
    simp only [List.map_cons, List.cons_append] at this ⊢
    rw [joinLF_cons_cons, this]; simp
  have hsplit : splitLines (joinLF ([] :: ((l :: ls).map (Q ++ ·) ++ [P]))) = [] :: ((l :: ls).map (Q ++ ·) ++ [P]) := by
    apply splitLines_joinLF
    intro x hx
    simp only [List.mem_cons, List.mem_append, List.mem_map, List.mem_singleton, List.not_mem_nil, or_false] at hx
    rcases hx with rfl | ⟨y, hy, rfl⟩ | rfl
    · intro c hc; cases hc
    · exact isLine_blank_append hQ (hlines y (by simpa using hy))
    · intro c hc; rcases hP c hc with e | e <;> omega
  have hci : BlockString.commonIndent ([] :: ((l :: ls).map (Q ++ ·) ++ [P])) = some Q.length := by
    unfold BlockString.commonIndent
    simp only [List.drop_succ_cons, List.drop_zero, List.foldl_append, List.foldl_cons, List.foldl_nil]
    have := foldl_indentStep_prefix Q hQb (l :: ls) none
    simp only [Option.map_none] at this
    rw [this, hmin, indentStep_blank _ P hPb]; simp
  rw [hraw]
  unfold parseBlockString
  rw [hsplit]
  simp only [hci]
  have hmd := map_drop_prefix Q ls
  have hd1 : List.drop Q.length (Q ++ l) = l := by simp
  simp only [List.take_succ_cons, List.take_zero, List.drop_succ_cons, List.drop_zero, List.map_append,
    List.map_cons, List.map_nil, hmd, hd1]
  have hP' : IsBlank (List.drop Q.length P) := fun c hc => hPb c (List.mem_of_mem_drop hc)
  have e1 : popLeading ([] :: (l :: ls ++ [List.drop Q.length P])) = l :: ls ++ [List.drop Q.length P] := by
    rw [popLeading_blank [] _ (by intro c hc; cases hc)]
    exact popLeading_nonblank l _ hfirst
  have e2 : popTrailing (l :: ls ++ [List.drop Q.length P]) = l :: ls := by
    rw [popTrailing_blank _ _ hP']
    have hsplit2 : l :: ls = (l :: ls).dropLast ++ [(l :: ls).getLast (by simp)] := (List.dropLast_concat_getLast (by simp)).symm
    rw [hsplit2]
    exact popTrailing_nonblank _ _ hlast
  simp only [List.nil_append, List.cons_append] at e1 e2 ⊢
  rw [e1, e2]


/-! ### (D) assembly: `BlockLay` for the multi-line printed form -/

theorem mem_replaceLF {Q s : Text} {c : Nat} (h : c ∈ replaceLF Q s) : c ∈ s ∨ c ∈ Q := by
  induction s with
  | nil => cases h
  | cons a t ih =>
    simp only [replaceLF] at h
    split at h
    · rename_i ha; subst ha
      simp only [List.mem_cons, List.mem_append] at h
      rcases h with rfl | h | h
      · exact Or.inl (by simp)
      · exact Or.inr h
      · rcases ih h with h' | h'
        · exact Or.inl (by simp [h'])
        · exact Or.inr h'
    · simp only [List.mem_cons] at h
      rcases h with rfl | h
      · exact Or.inl (by simp)
      · rcases ih h with h' | h'
        · exact Or.inl (by simp [h'])
        · exact Or.inr h'

theorem escape_ne_nil (v : Text) (h : v ≠ []) : escapeTQAux 0 v ≠ [] := by
  cases v with
  | nil => exact absurd rfl h
  | cons c t => simp only [escapeTQAux]; split <;> simp

/-- does `_block_string` choose the multi-line form `"""⏎ … ⏎"""` for this value? -/
def multiLineForm (v : Text) : Bool :=
  !((match v with | c :: _ => c == 32 || c == 9 | [] => false) && !(v.contains 10))

theorem blockString_multiline (v ind : Text) (hne : v ≠ []) (hml : multiLineForm v = true) :
    blockString v ind false = tq ++ 10 :: (ind ++ replaceLF ind (escapeTQAux 0 v) ++ 10 :: tq) := by
  cases v with
  | nil => exact absurd rfl hne
  | cons c t =>
    unfold multiLineForm at hml
    rw [Bool.not_eq_true'] at hml
    have he : (escapeTQAux 0 (c :: t)).isEmpty = false := by
      cases h : escapeTQAux 0 (c :: t) with
      | nil => exact absurd h (escape_ne_nil _ hne)
      | cons a b => rfl
    unfold blockString
    simp only at hml ⊢
    rw [if_neg (by rw [hml]; simp)]
    simp [escapeTripleQuotes, indentText, he, tq]

/-- `BlockLay` holds for every value given by its lines `l :: ls` (no CR/LF inside a line, block-string characters)
    whose first and last lines are not blank and whose smallest indentation over the non-blank lines is 0 — the
    shape `BlockStringValue` produces — when the printer uses the multi-line form: under EVERY enclosing indentation the
    printed block string is one BlockString token with the same value. -/
theorem blockLay_multiline (ind l : Text) (ls : List Text) (hind : Blank ind)
    (hlines : ∀ x ∈ l :: ls, IsLine x) (hchars : ∀ c ∈ joinLF (l :: ls), blockChar c = true)
    (hfirst : onlyWhiteSpace l = false) (hlast : onlyWhiteSpace ((l :: ls).getLast (by simp)) = false)
    (hmin : (l :: ls).foldl indentStep none = some 0) (hml : multiLineForm (joinLF (l :: ls)) = true) :
    BlockLay ind (joinLF (l :: ls)) := by
  intro P hP r cs' hr hl
  have hvne : joinLF (l :: ls) ≠ [] := by
    have hl0 : l ≠ [] := by intro e; subst e; simp [onlyWhiteSpace] at hfirst
    cases ls with
    | nil => simpa [joinLF] using hl0
    | cons b bs => rw [joinLF_cons_cons]; simp [hl0]
  have hQ : Blank (P ++ ind) := blank_append hP hind
  have hform := blockString_multiline (joinLF (l :: ls)) ind hvne hml
  have hrep : replaceLF P (blockString (joinLF (l :: ls)) ind false) =
      tq ++ 10 :: ((P ++ ind) ++ (escapeTQAux 0 (replaceLF (P ++ ind) (joinLF (l :: ls))) ++ 10 :: (P ++ (tq ++ [])))) := by
    rw [hform]
    simp only [replaceLF_append, replaceLF, ↓reduceIte, replaceLF_noLF P ind (blank_noLF hind),
      replaceLF_replaceLF P ind _ hind, escape_replaceLF (P ++ ind) hQ _ 0 (Nat.zero_le _)]
    simp [tq, replaceLF]
  have hX : ∀ c ∈ replaceLF (P ++ ind) (joinLF (l :: ls)), blockChar c = true := by
    intro c hc
    rcases mem_replaceLF hc with h | h
    · exact hchars c h
    · rcases hQ c h with e | e <;> subst e <;> decide
  have hnext : ∀ n, ∃ tok, next n (replaceLF P (blockString (joinLF (l :: ls)) ind false) ++ r) = .ok (tok, some r) ∧
      cls tok = (.blockString, joinLF (l :: ls)) := by
    intro n
    have := next_block_layout n (P ++ ind) P (replaceLF (P ++ ind) (joinLF (l :: ls))) r hQ hP hX
    rw [parseBlockString_layout (P ++ ind) P l ls hQ hP hlines hfirst hlast hmin] at this
    have htxt : replaceLF P (blockString (joinLF (l :: ls)) ind false) ++ r =
        tq ++ 10 :: (P ++ ind ++ (escapeTQAux 0 (replaceLF (P ++ ind) (joinLF (l :: ls))) ++ 10 :: (P ++ (tq ++ r)))) := by
      rw [hrep]; simp [List.append_assoc]
    rw [htxt]
    exact ⟨_, this, by simp [cls, hasValue]⟩
  refine lexesTo_step hnext ?_ hl
  rw [hrep]; simp [tq]; omega

end PyGql.PrintTokens

/-
  The lexer's block-string scanner inverts the printer's `value.replace('"""', '\\"""')`.
-/
import PyGqlModel.Lex
import PyGqlModel.PrintString

namespace PyGql.Lex
open PyGql.PrintString

/-- number of leading `"` -/
def leadQ : Text → Nat
  | [] => 0
  | c :: t => if c = 34 then leadQ t + 1 else 0

theorem tq_prefix_iff (s : Text) : tq.isPrefixOf s = true ↔ 3 ≤ leadQ s := by
  match s with
  | [] => simp [tq, leadQ]
  | [a] => by_cases ha : a = 34 <;> simp [tq, leadQ, List.isPrefixOf, ha]
  | [a, b] => by_cases ha : a = 34 <;> by_cases hb : b = 34 <;> simp [tq, leadQ, List.isPrefixOf, ha, hb]
  | a :: b :: c :: r =>
    simp only [tq, List.isPrefixOf, leadQ, Bool.and_eq_true, beq_iff_eq, Bool.and_true]
    by_cases ha : a = 34 <;> by_cases hb : b = 34 <;> by_cases hc : c = 34 <;> simp [ha, hb, hc, eq_comm]

theorem leadQ_escape (t w : Text) :
    leadQ (escapeTQAux 0 t ++ 10 :: w) = if 3 ≤ leadQ t then 0 else leadQ t := by
  induction t with
  | nil => simp [escapeTQAux, leadQ]
  | cons c t' ih =>
    by_cases hp : ([34, 34, 34] : Text).isPrefixOf (c :: t') = true
    · have h3 : 3 ≤ leadQ (c :: t') := (tq_prefix_iff _).mp hp
      simp only [leadQ] at h3
      simp [escapeTQAux, hp, leadQ, h3]
    · have h3 : ¬ 3 ≤ leadQ (c :: t') := fun h => hp ((tq_prefix_iff _).mpr h)
      have hp' : ([34, 34, 34] : Text).isPrefixOf (c :: t') = false := (Bool.not_eq_true _).mp hp
      simp only [escapeTQAux, hp', Bool.false_eq_true, ↓reduceIte, List.cons_append, leadQ] at h3 ⊢
      by_cases hc : c = 34
      · simp only [hc, ↓reduceIte] at h3 ⊢
        rw [ih]
        have : ¬ 3 ≤ leadQ t' := by omega
        simp [this, h3]
      · simp [hc]

/-- the characters a block string may contain verbatim -/
def blockChar (c : Nat) : Bool := isPrintable c || c == 10 || c == 13

private theorem map_cons_comp {v : Text} {c : Nat} (r : R (Text × Text)) :
    (match (r.map (fun p => (v ++ p.1, p.2)) : R (Text × Text)) with
      | .ok (x, y) => (.ok (c :: x, y) : R (Text × Text))
      | .error e => .error e) = r.map (fun p => ((c :: v) ++ p.1, p.2)) := by
  cases r with
  | ok p => obtain ⟨a, b⟩ := p; rfl
  | error e => rfl

/-- scanning the escaped value (followed by a line feed) yields the value: for every `k ≤ |v|` pending copied quotes -/
theorem readBlockBody_escape (n : Nat) (w : Text) (v : Text) (k : Nat) (hk : k ≤ v.length)
    (hv : ∀ c ∈ v, blockChar c = true) :
    readBlockBody n k (escapeTQAux k v ++ 10 :: w) =
      (readBlockBody n 0 (10 :: w)).map (fun p => (v ++ p.1, p.2)) := by
  induction v generalizing k with
  | nil =>
    have : k = 0 := by simpa using hk
    subst this
    simp only [escapeTQAux, List.nil_append]
    cases readBlockBody n 0 (10 :: w) with
    | ok p => obtain ⟨a, b⟩ := p; rfl
    | error e => rfl
  | cons c t ih =>
    have hvt : ∀ x ∈ t, blockChar x = true := fun x hx => hv x (by simp [hx])
    cases k with
    | succ k' =>
      have := ih k' (by simpa using hk) hvt
      simp only [escapeTQAux, List.cons_append, readBlockBody, this]
      exact map_cons_comp _
    | zero =>
      by_cases hp : ([34, 34, 34] : Text).isPrefixOf (c :: t) = true
      · -- an escaped triple quote
        have h3 : 3 ≤ leadQ (c :: t) := (tq_prefix_iff _).mp hp
        have hc : c = 34 := by
          by_cases hc : c = 34
          · exact hc
          · simp [leadQ, hc] at h3
        subst hc
        have ht2 : 2 ≤ leadQ t := by simpa [leadQ] using h3
        have hlen : 2 ≤ t.length := by
          match t, ht2 with
          | a :: b :: r, _ => simp
          | [a], h => simp [leadQ] at h; split at h <;> omega
          | [], h => simp [leadQ] at h
        have := ih 2 hlen hvt
        -- shape of the escaped tail: two copied quotes
        obtain ⟨a, b, r, rfl⟩ : ∃ a b r, t = a :: b :: r := by
          match t, hlen with
          | a :: b :: r, _ => exact ⟨a, b, r, rfl⟩
        have hab : a = 34 ∧ b = 34 := by
          simp only [leadQ] at ht2
          by_cases ha : a = 34
          · by_cases hb : b = 34
            · exact ⟨ha, hb⟩
            · simp [ha, hb] at ht2
          · simp [ha] at ht2
        obtain ⟨rfl, rfl⟩ := hab
        generalize readBlockBody n 0 (10 :: w) = R at this ⊢
        simp only [escapeTQAux, hp, ↓reduceIte, List.cons_append] at this ⊢
        rw [readBlockBody]
        simp only [tq, List.isPrefixOf, Bool.and_eq_true, beq_iff_eq, Nat.reduceEqDiff, false_and, Bool.false_eq_true,
          ↓reduceIte, BEq.rfl, Bool.true_and, Bool.and_self, decide_true]
        simp only [readBlockBody] at this ⊢
        rw [this]
        cases R with
        | ok p => obtain ⟨x, y⟩ := p; rfl
        | error e => rfl
      · -- an ordinary character
        have hp' : ([34, 34, 34] : Text).isPrefixOf (c :: t) = false := (Bool.not_eq_true _).mp hp
        have h3 : ¬ 3 ≤ leadQ (c :: t) := fun h => hp ((tq_prefix_iff _).mpr h)
        have hY := leadQ_escape t w
        have hrec := ih 0 (Nat.zero_le _) hvt
        have hc := hv c (by simp)
        simp only [escapeTQAux, hp', Bool.false_eq_true, ↓reduceIte, List.cons_append]
        rw [readBlockBody]
        -- the scanner does not see a closing or an escaped triple quote here
        have hn1 : tq.isPrefixOf (c :: (escapeTQAux 0 t ++ 10 :: w)) = false := by
          rw [Bool.eq_false_iff]; intro h
          have := (tq_prefix_iff _).mp h
          simp only [leadQ] at this h3
          by_cases hc34 : c = 34
          · simp only [hc34, ↓reduceIte] at this h3
            rw [hY] at this
            split at this <;> omega
          · simp [hc34] at this
        have hn2 : tq.isPrefixOf (escapeTQAux 0 t ++ 10 :: w) = false := by
          rw [Bool.eq_false_iff]; intro h
          have := (tq_prefix_iff _).mp h
          rw [hY] at this
          split at this <;> omega
        have hbad : (!(isPrintable c || c == 10 || c == 13)) = false := by
          unfold blockChar at hc; rw [hc]; rfl
        simp only [hn1, hn2, Bool.false_eq_true, ↓reduceIte, Bool.and_false, hbad, hrec]
        exact map_cons_comp _

end PyGql.Lex

namespace PyGql.Lex
open PyGql.PrintString

/-- the escaping never touches the last character -/
theorem escapeTQAux_getLast? (k : Nat) (v : Text) : (escapeTQAux k v).getLast? = v.getLast? := by
  induction v generalizing k with
  | nil => cases k <;> rfl
  | cons c t ih =>
    cases k with
    | succ k' =>
      simp only [escapeTQAux]
      cases t with
      | nil => cases k' <;> simp [escapeTQAux]
      | cons a b =>
        have := ih k'
        rw [List.getLast?_cons_cons] 
        cases h : escapeTQAux k' (a :: b) with
        | nil => rw [h] at this; exact absurd this.symm (by simp)
        | cons x y => rw [h] at this; rw [List.getLast?_cons_cons, this]
    | zero =>
      simp only [escapeTQAux]
      split
      · rename_i hp
        cases t with
        | nil => simp [List.isPrefixOf] at hp
        | cons a b =>
          have := ih 2
          cases h : escapeTQAux 2 (a :: b) with
          | nil => rw [h] at this; exact absurd this.symm (by simp)
          | cons x y => rw [h] at this; simp only [List.getLast?_cons_cons]; exact this
      · cases t with
        | nil => simp [escapeTQAux]
        | cons a b =>
          have := ih 0
          cases h : escapeTQAux 0 (a :: b) with
          | nil => rw [h] at this; exact absurd this.symm (by simp)
          | cons x y => rw [h] at this; simp only [List.getLast?_cons_cons]; exact this

theorem leadQ_escape_last (t Y : Text) (hne : t ≠ []) (hlast : t.getLast hne ≠ 34) :
    leadQ (escapeTQAux 0 t ++ Y) = if 3 ≤ leadQ t then 0 else leadQ t := by
  induction t with
  | nil => exact absurd rfl hne
  | cons c t' ih =>
    by_cases hp : ([34, 34, 34] : Text).isPrefixOf (c :: t') = true
    · have h3 : 3 ≤ leadQ (c :: t') := (tq_prefix_iff _).mp hp
      simp only [leadQ] at h3
      simp [escapeTQAux, hp, leadQ, h3]
    · have h3 : ¬ 3 ≤ leadQ (c :: t') := fun h => hp ((tq_prefix_iff _).mpr h)
      have hp' : ([34, 34, 34] : Text).isPrefixOf (c :: t') = false := (Bool.not_eq_true _).mp hp
      simp only [escapeTQAux, hp', Bool.false_eq_true, ↓reduceIte, List.cons_append, leadQ] at h3 ⊢
      by_cases hc : c = 34
      · simp only [hc, ↓reduceIte] at h3 ⊢
        cases t' with
        | nil => simp [hc] at hlast
        | cons a b =>
          have hl' : (a :: b).getLast (by simp) ≠ 34 := by
            rw [List.getLast_cons (by simp)] at hlast; exact hlast
          rw [ih (by simp) hl']
          have : ¬ 3 ≤ leadQ (a :: b) := by omega
          simp [this, h3]
      · simp [hc]

theorem readBlockBody_tq (n : Nat) (r : Text) : readBlockBody n 0 (tq ++ r) = .ok ([], r) := by
  simp [tq, readBlockBody, List.isPrefixOf]

/-- scanning the escaped value directly followed by the closing quotes yields the value, provided the value does not
    end in `"` or `\` (which would fuse with the closing quotes) -/
theorem readBlockBody_escape_close (n : Nat) (r : Text) (v : Text) (k : Nat) (hk : k ≤ v.length)
    (hne : v ≠ []) (hl34 : v.getLast hne ≠ 34) (hl92 : v.getLast hne ≠ 92)
    (hv : ∀ c ∈ v, blockChar c = true) :
    readBlockBody n k (escapeTQAux k v ++ (tq ++ r)) = .ok (v, r) := by
  induction v generalizing k with
  | nil => exact absurd rfl hne
  | cons c t ih =>
    have hvt : ∀ x ∈ t, blockChar x = true := fun x hx => hv x (by simp [hx])
    have hbad : (!(isPrintable c || c == 10 || c == 13)) = false := by
      have hc := hv c (by simp); unfold blockChar at hc; rw [hc]; rfl
    by_cases ht : t = []
    · -- `c` is the last character
      subst ht
      simp only [List.getLast_singleton] at hl34 hl92
      have hk1 : k ≤ 1 := by simpa using hk
      have hn1 : tq.isPrefixOf (c :: (tq ++ r)) = false := by
        simp [tq, List.isPrefixOf]; intro e; exact absurd e.symm hl34
      have hd : decide (c = 92) = false := by simpa using hl92
      cases k with
      | zero =>
        have hp' : ([34, 34, 34] : Text).isPrefixOf [c] = false := by simp [List.isPrefixOf]
        simp only [escapeTQAux, hp', Bool.false_eq_true, ↓reduceIte, List.cons_append, List.nil_append]
        rw [readBlockBody]
        simp only [hn1, hd, Bool.false_and, Bool.false_eq_true, ↓reduceIte, hbad, readBlockBody_tq]
      | succ k' =>
        have : k' = 0 := by omega
        subst this
        simp only [escapeTQAux, List.cons_append, List.nil_append, readBlockBody, readBlockBody_tq]
    · have hlt := List.getLast_cons (a := c) ht
      rw [hlt] at hl34 hl92
      cases k with
      | succ k' =>
        have := ih k' (by simpa using hk) ht hl34 hl92 hvt
        simp only [escapeTQAux, List.cons_append, readBlockBody, this]
      | zero =>
        by_cases hp : ([34, 34, 34] : Text).isPrefixOf (c :: t) = true
        · have h3 : 3 ≤ leadQ (c :: t) := (tq_prefix_iff _).mp hp
          have hc : c = 34 := by
            by_cases hc : c = 34
            · exact hc
            · simp [leadQ, hc] at h3
          subst hc
          have ht2 : 2 ≤ leadQ t := by simpa [leadQ] using h3
          obtain ⟨a, b, u, rfl⟩ : ∃ a b u, t = a :: b :: u := by
            match t, ht2 with
            | a :: b :: u, _ => exact ⟨a, b, u, rfl⟩
            | [a], h => simp [leadQ] at h; split at h <;> omega
            | [], h => simp [leadQ] at h
          have hab : a = 34 ∧ b = 34 := by
            simp only [leadQ] at ht2
            by_cases ha : a = 34
            · by_cases hb : b = 34
              · exact ⟨ha, hb⟩
              · simp [ha, hb] at ht2
            · simp [ha] at ht2
          obtain ⟨rfl, rfl⟩ := hab
          have := ih 2 (by simp) ht hl34 hl92 hvt
          simp only [escapeTQAux, hp, ↓reduceIte, List.cons_append] at this ⊢
          rw [readBlockBody]
          simp only [tq, List.isPrefixOf, Bool.and_eq_true, beq_iff_eq, Nat.reduceEqDiff, false_and, Bool.false_eq_true,
            ↓reduceIte, BEq.rfl, Bool.true_and, Bool.and_self, decide_true]
          simp only [readBlockBody] at this ⊢
          simp only [tq] at this
          rw [this]
        · have hp' : ([34, 34, 34] : Text).isPrefixOf (c :: t) = false := (Bool.not_eq_true _).mp hp
          have h3 : ¬ 3 ≤ leadQ (c :: t) := fun h => hp ((tq_prefix_iff _).mpr h)
          have hY := leadQ_escape_last t (tq ++ r) ht hl34
          have hrec := ih 0 (Nat.zero_le _) ht hl34 hl92 hvt
          simp only [escapeTQAux, hp', Bool.false_eq_true, ↓reduceIte, List.cons_append]
          rw [readBlockBody]
          have hn1 : tq.isPrefixOf (c :: (escapeTQAux 0 t ++ (tq ++ r))) = false := by
            rw [Bool.eq_false_iff]; intro h
            have := (tq_prefix_iff _).mp h
            simp only [leadQ] at this h3
            by_cases hc34 : c = 34
            · simp only [hc34, ↓reduceIte] at this h3
              rw [hY] at this
              split at this <;> omega
            · simp [hc34] at this
          have hn2 : tq.isPrefixOf (escapeTQAux 0 t ++ (tq ++ r)) = false := by
            rw [Bool.eq_false_iff]; intro h
            have := (tq_prefix_iff _).mp h
            rw [hY] at this
            split at this <;> omega
          simp only [hn1, hn2, Bool.false_eq_true, ↓reduceIte, Bool.and_false, hbad, hrec]

end PyGql.Lex

/-
  C14 — `_replace_types_and_directives` on the established facts; `heal_closed`, `onSchema_closed`.
-/
import PyGqlModel.Lemmas.HeapClosedRound
import PyGqlModel.Lemmas.HeapNames

set_option linter.unusedSimpArgs false
set_option linter.unusedVariables false
set_option linter.unnecessarySimpa false

namespace PyGql.Heap.Own
open PyGql.Heap

/-- every entry of the registry after the loop of `_replace_types_and_directives` satisfies `P`, if the kept ones and the new ones do -/
theorem replaceTypes_pred (cfg : Cfg) (P : String × Addr → Prop) :
    ∀ (ut : List (String × Option Addr)) (reg : List (String × Addr)) (b : Bool),
      (∀ x, x ∈ ut → ∀ a', x.2 = some a' → P (x.1, a')) →
      (∀ e, e ∈ reg → P e ∨ e.1 ∈ ut.map (·.1)) →
      ∀ e, e ∈ (replaceTypes cfg reg b ut).1 → P e := by
  intro ut
  induction ut with
  | nil =>
    intro reg b _ hreg e he
    rcases hreg e (by simpa [replaceTypes] using he) with h1 | h1
    · exact h1
    · simp at h1
  | cons x rest ih =>
    intro reg b hut hreg
    obtain ⟨nm, new⟩ := x
    have hutr : ∀ x, x ∈ rest → ∀ a', x.2 = some a' → P (x.1, a') := fun x hx => hut x (by simp [hx])
    simp only [replaceTypes]
    split
    · rename_i hl
      apply ih reg b hutr
      intro e he
      rcases hreg e he with h1 | h1
      · exact Or.inl h1
      · right
        have hne := lookup_none_ne hl e he
        simp only [List.map_cons, List.mem_cons] at h1
        rcases h1 with h1 | h1
        · simp [h1] at hne
        · exact h1
    · rename_i orig hl
      cases new with
      | none =>
        apply ih _ _ hutr
        intro e he
        have he0 := mem_regErase he
        have hne : (e.1 != nm) = true := (List.mem_filter.mp he).2
        rcases hreg e he0 with h1 | h1
        · exact Or.inl h1
        · right
          simp only [List.map_cons, List.mem_cons] at h1
          rcases h1 with h1 | h1
          · simp [h1] at hne
          · exact h1
      | some a' =>
        apply ih _ _ hutr
        intro e he
        rcases mem_regSet he with rfl | ⟨he0, hne⟩
        · exact Or.inl (hut (nm, some a') (by simp) a' rfl)
        · rcases hreg e he0 with h1 | h1
          · exact Or.inl h1
          · right
            simp only [List.map_cons, List.mem_cons] at h1
            rcases h1 with h1 | h1
            · simp [h1] at hne
            · exact h1

theorem replaceDirs_pred (P : String × Addr → Prop) :
    ∀ (ud : List (String × Option Addr)) (reg : List (String × Addr)),
      (∀ x, x ∈ ud → ∀ a', x.2 = some a' → P (x.1, a')) →
      (∀ e, e ∈ reg → P e ∨ e.1 ∈ ud.map (·.1)) →
      ∀ e, e ∈ replaceDirs reg ud → P e := by
  intro ud
  induction ud with
  | nil =>
    intro reg _ hreg e he
    rcases hreg e (by simpa [replaceDirs] using he) with h1 | h1
    · exact h1
    · simp at h1
  | cons x rest ih =>
    intro reg hud hreg
    obtain ⟨nm, new⟩ := x
    have hudr : ∀ x, x ∈ rest → ∀ a', x.2 = some a' → P (x.1, a') := fun x hx => hud x (by simp [hx])
    cases new with
    | none =>
      simp only [replaceDirs]
      apply ih _ hudr
      intro e he
      have he0 := mem_regErase he
      have hne : (e.1 != nm) = true := (List.mem_filter.mp he).2
      rcases hreg e he0 with h1 | h1
      · exact Or.inl h1
      · right
        simp only [List.map_cons, List.mem_cons] at h1
        rcases h1 with h1 | h1
        · simp [h1] at hne
        · exact h1
    | some a' =>
      simp only [replaceDirs]
      apply ih _ hudr
      intro e he
      rcases mem_regSet he with rfl | ⟨he0, hne⟩
      · exact Or.inl (hud (nm, some a') (by simp) a' rfl)
      · rcases hreg e he0 with h1 | h1
        · exact Or.inl h1
        · right
          simp only [List.map_cons, List.mem_cons] at h1
          rcases h1 with h1 | h1
          · simp [h1] at hne
          · exact h1

/-! ### names stay distinct -/

theorem regSet_names_eq (reg : List (String × Addr)) (nm : String) (a : Addr) (hl : (lookup reg nm).isSome = true) :
    (regSet reg nm a).map (·.1) = reg.map (·.1) := by
  simp only [regSet, hl, if_true, List.map_map]
  apply List.map_congr_left
  intro e _
  by_cases hq : e.1 = nm
  · simp [hq]
  · simp [hq]

theorem regErase_nodup (reg : List (String × Addr)) (nm : String) (hn : (reg.map (·.1)).Nodup) : ((regErase reg nm).map (·.1)).Nodup := by
  simp only [regErase]
  exact (List.Nodup.sublist (List.Sublist.map _ List.filter_sublist) hn)

theorem replaceTypes_nodup (cfg : Cfg) : ∀ (ut : List (String × Option Addr)) (reg : List (String × Addr)) (b : Bool),
    (reg.map (·.1)).Nodup → ((replaceTypes cfg reg b ut).1.map (·.1)).Nodup := by
  intro ut
  induction ut with
  | nil => intro reg b hn; simpa [replaceTypes] using hn
  | cons x rest ih =>
    intro reg b hn
    obtain ⟨nm, new⟩ := x
    simp only [replaceTypes]
    split
    · exact ih reg b hn
    · rename_i orig hl
      cases new with
      | none => exact ih _ _ (regErase_nodup reg nm hn)
      | some a' => exact ih _ _ (by rw [regSet_names_eq reg nm a' (by simp [hl])]; exact hn)

theorem lookup_of_mem_nodup {reg : List (String × Addr)} (hn : (reg.map (·.1)).Nodup) {e : String × Addr} (he : e ∈ reg) :
    lookup reg e.1 = some e.2 := by
  induction reg with
  | nil => simp at he
  | cons x rest ih =>
    simp only [List.map_cons, List.nodup_cons] at hn
    simp only [lookup, List.find?_cons]
    simp only [List.mem_cons] at he
    rcases he with rfl | he
    · simp
    · have hne : (x.1 == e.1) = false := by
        cases hq : (x.1 == e.1) with
        | false => rfl
        | true =>
          exfalso
          exact hn.1 (List.mem_map.mpr ⟨e, he, (beq_iff_eq.mp hq).symm⟩)
      simp only [hne]
      exact ih hn.2 he

/-- with the accumulated flag and distinct names: no busting means `on_schema` replaced no type at all -/
theorem not_busted_nil (cfg : Cfg) (hacc : cfg.accumulateBusted = true) (reg : List (String × Addr)) (hn : (reg.map (·.1)).Nodup)
    (ut : List (String × Option Addr)) (hut : ∀ x, x ∈ ut → ∃ e, e ∈ reg ∧ e.1 = x.1 ∧ x.2 ≠ some e.2)
    (hb : (replaceTypes cfg reg false ut).2 = false) : ut = [] := by
  cases ut with
  | nil => rfl
  | cons x rest =>
    exfalso
    obtain ⟨e, he, h1, h2⟩ := hut x (by simp)
    have hl := lookup_of_mem_nodup hn he
    have := busted_of_change' cfg hacc reg false x.1 x.2 e.2 rest (by rw [← h1]; exact hl) h2
    rw [this] at hb
    cases hb
where
  busted_acc' (cfg : Cfg) (hc : cfg.accumulateBusted = true) : ∀ (ut : List (String × Option Addr)) (reg : List (String × Addr)),
      (replaceTypes cfg reg true ut).2 = true := by
    intro ut
    induction ut with
    | nil => intro reg; simp [replaceTypes]
    | cons e rest ih =>
      intro reg
      obtain ⟨n, new⟩ := e
      simp only [replaceTypes]
      split
      · exact ih reg
      · cases new <;> simp [hc, ih]
  busted_of_change' (cfg : Cfg) (hc : cfg.accumulateBusted = true) (reg : List (String × Addr)) (b : Bool)
      (n : String) (new : Option Addr) (orig : Addr) (rest : List (String × Option Addr))
      (hl : lookup reg n = some orig) (hne : new ≠ some orig) : (replaceTypes cfg reg b ((n, new) :: rest)).2 = true := by
    simp only [replaceTypes, hl]
    have : (new != some orig) = true := by simpa using hne
    cases new <;> simp [hc, this, busted_acc' cfg hc]

theorem rootOK_reRoot (reg : List (String × Addr)) (r : Option Ref) : rootOK (refOK reg) (reRoot reg r) = true := by
  cases r with
  | none => simp [reRoot, rootOK]
  | some r =>
    simp only [reRoot, Option.bind_some]
    cases hl : lookup reg r.name with
    | none => simp [rootOK]
    | some a => simp [rootOK, refOK, hl]


/-! ### one round -/

theorem compat_true (v : Visitor) (reg : List (String × Addr)) : Compat v reg (fun _ => true) := by
  cases v <;> simp [Compat]

theorem compat_refOK (v : Visitor) (reg : List (String × Addr)) : Compat v reg (refOK reg) := by
  cases v <;> simp [Compat]

theorem out_refOK (v : Visitor) (reg : List (String × Addr)) : ∀ r, outChk v reg (refOK reg) r = true → refOK reg r = true := by
  cases v <;> simp [outChk]

/-- facts about one `on_schema` round of visitor `v` on a well-formed schema -/
theorem round_facts (v : Visitor) (s : Schema) (h : Heap) (chk0 : Ref → Bool) (hc : Compat v s.types chk0) (w : WFs chk0 h s) :
    StepAll v s.types h (visitAll v s h).1 ∧
    (∀ e, e ∈ s.types → isProtected e.1 = false →
      (∃ x, x ∈ (visitAll v s h).2.1 ∧ x.1 = e.1) ∨ typeShape (outChk v s.types chk0) (visitAll v s h).1 e.2 = true) ∧
    (∀ x, x ∈ (visitAll v s h).2.1 → ∃ e, e ∈ s.types ∧ e.1 = x.1 ∧ isProtected e.1 = false ∧ x.2 ≠ some e.2 ∧
      ∀ a', x.2 = some a' → typeShape (outChk v s.types chk0) (visitAll v s h).1 a' = true ∧ nameOK (visitAll v s h).1 (x.1, a') = true) ∧
    (∀ e, e ∈ s.dirs → (∃ x, x ∈ (visitAll v s h).2.2 ∧ x.1 = e.1) ∨ dirShape (outChk v s.types chk0) (visitAll v s h).1 e.2 = true) ∧
    (∀ x, x ∈ (visitAll v s h).2.2 → ∀ a', x.2 = some a' → dirShape (outChk v s.types chk0) (visitAll v s h).1 a' = true) := by
  obtain ⟨sT, f1, f2⟩ := visitTypes_est v s.types chk0 hc s.types h (fun e he _ => w.types e he)
  obtain ⟨sD, g1, g2⟩ := visitDirs_est v s.types chk0 hc s.dirs (visitTypes v s.types h s.types).1
    (fun e he => dirShape_keep (sT chk0 hc) e.2 (w.dirs e he))
  have sDo := sD _ (compat_out v s.types chk0 hc)
  simp only [visitAll]
  refine ⟨sT.trans sD, ?_, ?_, g1, g2⟩
  · intro e he hnp
    rcases f1 e he hnp with h1 | h1
    · exact Or.inl h1
    · exact Or.inr (typeShape_keep sDo e.2 h1)
  · intro x hx
    obtain ⟨e, he, h1, h2, h3, h4⟩ := f2 x hx
    refine ⟨e, he, h1, h2, h3, ?_⟩
    intro a' ea
    obtain ⟨hsh, t, t', ht, ht', hk, hn⟩ := h4 a' ea
    refine ⟨typeShape_keep sDo a' hsh, ?_⟩
    obtain ⟨t'', ht'', _, hn''⟩ := readType_keep sDo a' t' ht'
    have hne := w.names e he
    simp only [nameOK, ht] at hne
    simp only [nameOK, ht'', hn'', hn, ← h1]
    exact hne

theorem round_wf_out (cfg : Cfg) (v : Visitor) (s : Schema) (h : Heap) (chk0 : Ref → Bool) (hc : Compat v s.types chk0) (w : WFs chk0 h s) :
    WFs (outChk v s.types chk0) (visitAll v s h).1 (replaceCore cfg s (visitAll v s h).2.1 (visitAll v s h).2.2).1 := by
  obtain ⟨st, f1, f2, g1, g2⟩ := round_facts v s h chk0 hc w
  have stT := st _ (compat_true v s.types)
  have hP : ∀ e, e ∈ (replaceTypes cfg s.types false (visitAll v s h).2.1).1 →
      typeShape (outChk v s.types chk0) (visitAll v s h).1 e.2 = true ∧ nameOK (visitAll v s h).1 e = true ∧ protLeaf (visitAll v s h).1 e = true := by
    apply replaceTypes_pred cfg (fun e => typeShape (outChk v s.types chk0) (visitAll v s h).1 e.2 = true ∧ nameOK (visitAll v s h).1 e = true ∧
      protLeaf (visitAll v s h).1 e = true)
    · intro x hx a' ea
      obtain ⟨e, he, h1, h2, _, h4⟩ := f2 x hx
      obtain ⟨hsh, hnm⟩ := h4 a' ea
      refine ⟨hsh, hnm, ?_⟩
      simp [protLeaf, ← h1, h2]
    · intro e he
      by_cases hp : isProtected e.1 = true
      · left
        have hl := protLeaf_keep stT e (w.prot e he)
        exact ⟨typeShape_prot _ _ e hp hl, nameOK_keep stT e (w.names e he), hl⟩
      · have hnp : isProtected e.1 = false := by simpa using hp
        rcases f1 e he hnp with ⟨x, hx, hxe⟩ | h1
        · exact Or.inr (List.mem_map.mpr ⟨x, hx, hxe⟩)
        · exact Or.inl ⟨h1, nameOK_keep stT e (w.names e he), protLeaf_keep stT e (w.prot e he)⟩
  refine ⟨fun e he => (hP e he).1, ?_, fun e he => (hP e he).2.1, fun e he => (hP e he).2.2, replaceTypes_nodup cfg _ _ _ w.nodup⟩
  apply replaceDirs_pred (fun e => dirShape (outChk v s.types chk0) (visitAll v s h).1 e.2 = true)
  · intro x hx a' ea
    exact g2 x hx a' ea
  · intro e he
    rcases g1 e he with ⟨x, hx, hxe⟩ | h1
    · exact Or.inr (List.mem_map.mpr ⟨x, hx, hxe⟩)
    · exact Or.inl h1

theorem round_wf (cfg : Cfg) (v : Visitor) (s : Schema) (h : Heap) (chk0 : Ref → Bool) (hc : Compat v s.types chk0) (w : WFs chk0 h s) :
    WFs (fun _ => true) (visitAll v s h).1 (replaceCore cfg s (visitAll v s h).2.1 (visitAll v s h).2.2).1 :=
  (round_wf_out cfg v s h chk0 hc w).mono (fun _ _ => rfl)

theorem closedB_of_wfs (h : Heap) (s : Schema) (w : WFs (refOK s.types) h s) (hq : rootOK (refOK s.types) s.query = true)
    (hm : rootOK (refOK s.types) s.mutation = true) (hs : rootOK (refOK s.types) s.subscription = true) : closedB h s = true := by
  simp only [closedB, shapeB, Bool.and_eq_true, List.all_eq_true]
  exact ⟨⟨⟨⟨⟨w.types, w.dirs⟩, hq⟩, hm⟩, hs⟩, w.names⟩

/-- a round that busts nothing (accumulated flag): no type was replaced and the schema is closed -/
theorem round_closed (cfg : Cfg) (hacc : cfg.accumulateBusted = true) (v : Visitor) (s : Schema) (h : Heap) (chk0 : Ref → Bool)
    (hc : Compat v s.types chk0) (hout : ∀ r, outChk v s.types chk0 r = true → refOK s.types r = true) (w : WFs chk0 h s)
    (hb : (replaceCore cfg s (visitAll v s h).2.1 (visitAll v s h).2.2).2 = false) :
    (replaceCore cfg s (visitAll v s h).2.1 (visitAll v s h).2.2).1.types = s.types ∧
    WFs (refOK s.types) (visitAll v s h).1 (replaceCore cfg s (visitAll v s h).2.1 (visitAll v s h).2.2).1 ∧
    closedB (visitAll v s h).1 (replaceCore cfg s (visitAll v s h).2.1 (visitAll v s h).2.2).1 = true := by
  obtain ⟨st, f1, f2, g1, g2⟩ := round_facts v s h chk0 hc w
  have stT := st _ (compat_true v s.types)
  have hnil : (visitAll v s h).2.1 = [] := by
    apply not_busted_nil cfg hacc s.types w.nodup
    · intro x hx
      obtain ⟨e, he, h1, _, h3, _⟩ := f2 x hx
      exact ⟨e, he, h1, h3⟩
    · simpa [replaceCore] using hb
  have htypes : (replaceCore cfg s (visitAll v s h).2.1 (visitAll v s h).2.2).1.types = s.types := by
    simp [replaceCore, hnil, replaceTypes]
  have w' : WFs (refOK s.types) (visitAll v s h).1 (replaceCore cfg s (visitAll v s h).2.1 (visitAll v s h).2.2).1 := by
    refine ⟨?_, ?_, ?_, ?_, by rw [htypes]; exact w.nodup⟩
    · rw [htypes]
      intro e he
      by_cases hp : isProtected e.1 = true
      · exact typeShape_prot _ _ e hp (protLeaf_keep stT e (w.prot e he))
      · have hnp : isProtected e.1 = false := by simpa using hp
        rcases f1 e he hnp with ⟨x, hx, _⟩ | h1
        · rw [hnil] at hx; simp at hx
        · exact typeShape_mono hout _ _ h1
    · apply replaceDirs_pred (fun e => dirShape (refOK s.types) (visitAll v s h).1 e.2 = true)
      · intro x hx a' ea
        exact dirShape_mono hout _ _ (g2 x hx a' ea)
      · intro e he
        rcases g1 e he with ⟨x, hx, hxe⟩ | h1
        · exact Or.inr (List.mem_map.mpr ⟨x, hx, hxe⟩)
        · exact Or.inl (dirShape_mono hout _ _ h1)
    · rw [htypes]; exact fun e he => nameOK_keep stT e (w.names e he)
    · rw [htypes]; exact fun e he => protLeaf_keep stT e (w.prot e he)
  refine ⟨htypes, w', ?_⟩
  apply closedB_of_wfs _ _ (by rw [htypes]; exact w')
  · rw [htypes]; simp only [replaceCore, hnil, replaceTypes]; exact rootOK_reRoot s.types s.query
  · rw [htypes]; simp only [replaceCore, hnil, replaceTypes]; exact rootOK_reRoot s.types s.mutation
  · rw [htypes]; simp only [replaceCore, hnil, replaceTypes]; exact rootOK_reRoot s.types s.subscription

/-- `fix_type_references` on a well-formed schema ends (when it ends) in a closed schema -/
theorem healLoop_closed (cfg : Cfg) (hacc : cfg.accumulateBusted = true) : ∀ (fuel : Nat) (s : Schema) (h h' : Heap) (s' : Schema),
    WFs (fun _ => true) h s → healLoop cfg fuel s h = some (h', s') → closedB h' s' = true ∧ WFs (refOK s'.types) h' s' := by
  intro fuel
  induction fuel with
  | zero => intro s h h' s' _ e; simp [healLoop] at e
  | succ fuel ih =>
    intro s h h' s' w e
    rw [healLoop] at e
    split at e
    · exact ih _ _ _ _ (round_wf cfg .heal s h _ (compat_true .heal s.types) w) e
    · rename_i hb
      cases e
      obtain ⟨ht, w', hcl⟩ := round_closed cfg hacc .heal s h _ (compat_true .heal s.types) (fun r hr => by simpa [outChk] using hr) w
        (by simpa using hb)
      exact ⟨hcl, by rw [ht]; exact w'⟩

/-- `SchemaVisitor.on_schema` of any modelled visitor on a closed, well-formed schema gives a closed, well-formed schema -/
theorem onSchema_closed (cfg : Cfg) (hacc : cfg.accumulateBusted = true) (fuel : Nat) (v : Visitor) (s : Schema) (h h' : Heap) (s' : Schema)
    (w : WFs (refOK s.types) h s) (e : onSchema cfg fuel v s h = some (h', s')) : closedB h' s' = true ∧ WFs (refOK s'.types) h' s' := by
  simp only [onSchema, replaceTD] at e
  split at e
  · exact healLoop_closed cfg hacc fuel _ _ _ _ (round_wf cfg v s h _ (compat_refOK v s.types) w) e
  · rename_i hb
    cases e
    obtain ⟨ht, w', hcl⟩ := round_closed cfg hacc v s h _ (compat_refOK v s.types) (out_refOK v s.types) w (by simpa using hb)
    exact ⟨hcl, by rw [ht]; exact w'⟩

theorem transformFrom_closed (cfg : Cfg) (hacc : cfg.accumulateBusted = true) (fuel : Nat) : ∀ (vs : List Visitor) (h : Heap) (s : Schema)
    (h' : Heap) (s' : Schema), WFs (refOK s.types) h s → closedB h s = true → transformFrom cfg fuel vs (h, s) = some (h', s') →
      closedB h' s' = true ∧ WFs (refOK s'.types) h' s' := by
  intro vs
  induction vs with
  | nil => intro h s h' s' w hc e; simp only [transformFrom] at e; cases e; exact ⟨hc, w⟩
  | cons v vs ih =>
    intro h s h' s' w hc e
    simp only [transformFrom] at e
    split at e
    · cases e
    · rename_i r hr
      obtain ⟨h1, s1⟩ := r
      obtain ⟨c1, w1⟩ := onSchema_closed cfg hacc fuel v s h h1 s1 w hr
      exact ih h1 s1 h' s' w1 c1 e

end PyGql.Heap.Own

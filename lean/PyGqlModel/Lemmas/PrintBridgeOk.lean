/-
  THE BRIDGE, part 3: a tree all of whose leaves (the classes of its view's canonical yield) are valid, and that is
  well-formed, satisfies the leaf conditions `okDefinition` of the printer theorems.
-/
import PyGqlModel.Lemmas.PrintBridgeYield
import PyGqlModel.Lemmas.PrintDocMatch
import PyGqlModel.Props.C01_parse
namespace PyGql.PrintTokens
open PyGql PyGql.Ast PyGql.Parse PyGql.Spec PyGql.Print PyGql.PrintLex PyGql.PrintMatch

def LeafOK (cs : List TokClass) : Prop := ∀ c ∈ cs, ClassOK c

theorem leafOK_nil : LeafOK [] := by intro c hc; cases hc
theorem leafOK_nil_iff : LeafOK [] ↔ True := ⟨fun _ => trivial, fun _ => leafOK_nil⟩
theorem leafOK_cons (c : TokClass) (cs : List TokClass) : LeafOK (c :: cs) ↔ ClassOK c ∧ LeafOK cs := by
  simp [LeafOK]
theorem leafOK_append (a b : List TokClass) : LeafOK (a ++ b) ↔ LeafOK a ∧ LeafOK b := by
  simp only [LeafOK, List.mem_append]
  constructor
  · intro h; exact ⟨fun c hc => h c (Or.inl hc), fun c hc => h c (Or.inr hc)⟩
  · rintro ⟨h1, h2⟩ c (hc | hc); exact h1 c hc; exact h2 c hc
theorem leafOK_map {α} (f : α → Item) (xs : List α) :
    LeafOK (Item.yieldAll (xs.map f)) ↔ ∀ x ∈ xs, LeafOK (f x).yield := by
  rw [yieldAll_map]
  simp only [LeafOK, List.mem_flatMap]
  constructor
  · intro h x hx c hc; exact h c ⟨x, hx, hc⟩
  · rintro h c ⟨x, hx, hc⟩; exact h x hx c hc

theorem classOK_name (v : Text) : ClassOK (.name, v) ↔ Spec.Lexical.isName v = true := Iff.rfl
theorem classOK_int (v : Text) : ClassOK (.int, v) ↔ Spec.Lexical.isIntValue v = true := Iff.rfl
theorem classOK_float (v : Text) : ClassOK (.float, v) ↔ Spec.Lexical.isFloatValue v = true := Iff.rfl
theorem classOK_block (v : Text) : ClassOK (.blockString, v) ↔ CanonBlock v := Iff.rfl

/-! ### values, types -/

mutual
theorem specValue_of_leaf : ∀ (v : Value), LeafOK (valueV v).yield → specValue v
  | .var v, h => by
    simp only [valueV, variableV, nameV, Item.yield, Item.yieldAll, List.append_nil, List.singleton_append, leafOK_cons] at h
    exact h.2.1
  | .int w _, h => by simpa [valueV, Item.yield, Item.yieldAll, leafOK_cons, leafOK_nil_iff, specValue, classOK_int] using h
  | .float w _, h => by simpa [valueV, Item.yield, Item.yieldAll, leafOK_cons, leafOK_nil_iff, specValue, classOK_float] using h
  | .string s, h => by
    simp only [specValue]
    intro hb
    simp only [valueV, stringV, hb, ↓reduceIte, Item.yield, Item.yieldAll, List.append_nil, leafOK_cons] at h
    exact h.1
  | .boolean _ _, _ => by simp [specValue]
  | .null _, _ => by simp [specValue]
  | .enum w _, h => by simpa [valueV, Item.yield, Item.yieldAll, leafOK_cons, leafOK_nil_iff, specValue, classOK_name] using h
  | .list vs _, h => by
    simp only [valueV, Item.yield, Item.yieldAll, PrintMatch.yieldAll_append, List.singleton_append, leafOK_cons, leafOK_append] at h
    simp only [specValue]; exact specValues_of_leaf vs h.2.1
  | .object fs _, h => by
    simp only [valueV, Item.yield, Item.yieldAll, PrintMatch.yieldAll_append, List.singleton_append, leafOK_cons, leafOK_append] at h
    simp only [specValue]; exact specFields_of_leaf fs h.2.1
theorem specValues_of_leaf : ∀ (vs : List Value), LeafOK (Item.yieldAll (valuesV vs)) → specValues vs
  | [], _ => by simp [specValues]
  | v :: vs, h => by
    simp only [valuesV, Item.yieldAll, leafOK_append] at h
    simp only [specValues]; exact ⟨specValue_of_leaf v h.1, specValues_of_leaf vs h.2⟩
theorem specField_of_leaf : ∀ (f : ObjectField), LeafOK (objectFieldV f).yield → specField f
  | .mk name value _, h => by
    simp only [objectFieldV, nameV, Item.yield, Item.yieldAll, List.append_nil, List.singleton_append, List.cons_append,
      List.nil_append, leafOK_cons, leafOK_append] at h
    simp only [specField]; exact ⟨h.1, specValue_of_leaf value h.2.2⟩
theorem specFields_of_leaf : ∀ (fs : List ObjectField), LeafOK (Item.yieldAll (fieldsV fs)) → specFields fs
  | [], _ => by simp [specFields]
  | f :: fs, h => by
    simp only [fieldsV, Item.yieldAll, leafOK_append] at h
    simp only [specFields]; exact ⟨specField_of_leaf f h.1, specFields_of_leaf fs h.2⟩
end

theorem okValue_of_leaf (ind : Text) (hind : Blank ind) (v : Value) (h : LeafOK (valueV v).yield) : okValue ind v :=
  okValue_of_spec ind hind v (specValue_of_leaf v h)

theorem lexOkType_of_leaf (t : TypeRef) (h : LeafOK (typeV t).yield) : lexOkType t = true := by
  induction t with
  | named t => simpa [typeV, namedTypeV, nameV, Item.yield, Item.yieldAll, leafOK_cons, leafOK_nil_iff, lexOkType, classOK_name] using h
  | list t loc ih =>
    simp only [typeV, Item.yield, Item.yieldAll, List.append_nil, List.singleton_append, leafOK_cons, leafOK_append] at h
    simp only [lexOkType]; exact ih h.2.1
  | nonNull t loc ih =>
    simp only [typeV, Item.yield, Item.yieldAll, List.append_nil, leafOK_append] at h
    simp only [lexOkType]; exact ih h.1


/-! ### arguments, directives, variable definitions -/

theorem okArguments_iff (ind : Text) (as : List Argument) : okArguments ind as ↔ ∀ a ∈ as, okArgument ind a := by
  induction as with
  | nil => simp [okArguments]
  | cons a t ih => simp [okArguments, ih]
theorem okDirectives_iff (ind : Text) (ds : List Directive) : okDirectives ind ds ↔ ∀ d ∈ ds, okDirective ind d := by
  induction ds with
  | nil => simp [okDirectives]
  | cons a t ih => simp [okDirectives, ih]
theorem okVarDefs_iff (ind : Text) (ds : List VariableDefinition) : okVarDefs ind ds ↔ ∀ d ∈ ds, okVarDef ind d := by
  induction ds with
  | nil => simp [okVarDefs]
  | cons a t ih => simp [okVarDefs, ih]

theorem okArgument_of_leaf (ind : Text) (hind : Blank ind) (a : Argument) (h : LeafOK (argumentV a).yield) :
    okArgument ind a := by
  simp only [argumentV, nameV, Item.yield, Item.yieldAll, List.append_nil, List.cons_append, List.nil_append, leafOK_cons] at h
  exact ⟨h.1, okValue_of_leaf ind hind a.value h.2.2⟩

theorem leafOK_groupV {α} (o cl : TokKind) (f : α → Item) (xs : List α) (h : LeafOK (Item.yieldAll (groupV o cl f xs))) :
    ∀ x ∈ xs, LeafOK (f x).yield := by
  unfold groupV at h
  split at h
  · rename_i he; intro x hx; rw [List.isEmpty_iff.1 he] at hx; cases hx
  · simp only [Item.yieldAll, Item.yield, PrintMatch.yieldAll_append, List.singleton_append, leafOK_cons, leafOK_append] at h
    exact (leafOK_map f xs).1 h.2.1

theorem okArguments_of_leaf (ind : Text) (hind : Blank ind) (as : List Argument) (h : LeafOK (Item.yieldAll (argumentsV as))) :
    okArguments ind as :=
  (okArguments_iff ind as).2 fun a ha => okArgument_of_leaf ind hind a (leafOK_groupV _ _ _ _ h a ha)

theorem okDirective_of_leaf (ind : Text) (hind : Blank ind) (d : Directive) (h : LeafOK (directiveV d).yield) :
    okDirective ind d := by
  simp only [directiveV, nameV, Item.yield, Item.yieldAll, List.append_nil, List.cons_append, List.nil_append, leafOK_cons] at h
  exact ⟨h.2.1, okArguments_of_leaf ind hind d.arguments h.2.2⟩

theorem okDirectives_of_leaf (ind : Text) (hind : Blank ind) (ds : List Directive) (h : LeafOK (Item.yieldAll (directivesV ds))) :
    okDirectives ind ds :=
  (okDirectives_iff ind ds).2 fun d hd => okDirective_of_leaf ind hind d ((leafOK_map directiveV ds).1 h d hd)

theorem okDefault_of_leaf (ind : Text) (hind : Blank ind) (o : Option Value) (h : LeafOK (Item.yieldAll (defaultV o))) :
    ∀ v, o = some v → okValue ind v := by
  intro v hv; subst hv
  simp only [defaultV, Item.yieldAll, Item.yield, List.append_nil, List.singleton_append, leafOK_cons] at h
  exact okValue_of_leaf ind hind v h.2

theorem okVarDef_of_leaf (ind : Text) (hind : Blank ind) (d : VariableDefinition) (h : LeafOK (variableDefinitionV d).yield) :
    okVarDef ind d := by
  simp only [variableDefinitionV, variableV, nameV, Item.yield, Item.yieldAll, PrintMatch.yieldAll_append, List.append_nil, List.cons_append,
    List.nil_append, leafOK_cons, leafOK_append] at h
  refine ⟨h.2.1, lexOkType_of_leaf d.type h.2.2.2.1, ?_, okDirectives_of_leaf ind hind _ h.2.2.2.2.2⟩
  have key := okDefault_of_leaf ind hind _ h.2.2.2.2.1
  split
  · rename_i v hv; exact key v hv
  · trivial

theorem okVarDefs_of_leaf (ind : Text) (hind : Blank ind) (ds : List VariableDefinition)
    (h : LeafOK (Item.yieldAll (variableDefinitionsV ds))) : okVarDefs ind ds :=
  (okVarDefs_iff ind ds).2 fun d hd => okVarDef_of_leaf ind hind d (leafOK_groupV _ _ _ _ h d hd)


/-! ### selections, operations, fragments -/

mutual
theorem okSelection_of_leaf (ind : Text) (hind : Blank ind) : ∀ (s : Selection), LeafOK (selectionV s).yield →
    wfSelection s = true → okSelection ind s
  | .field alias_ name args dirs ss _, h, hw => by
    simp only [wfSelection, Bool.and_eq_true] at hw
    simp only [okSelection]
    cases alias_ with
    | none =>
      simp only [selectionV, nameV, Item.yield, Item.yieldAll, PrintMatch.yieldAll_append, List.append_nil, List.nil_append,
        List.cons_append, leafOK_cons, leafOK_append] at h
      exact ⟨trivial, h.1, okArguments_of_leaf ind hind args h.2.1.1, okDirectives_of_leaf ind hind dirs h.2.1.2,
        okOptSelectionSet_of_leaf ind hind ss h.2.2 hw.2⟩
    | some a =>
      simp only [selectionV, nameV, Item.yield, Item.yieldAll, PrintMatch.yieldAll_append, List.append_nil, List.nil_append,
        List.cons_append, leafOK_cons, leafOK_append] at h
      exact ⟨h.1, h.2.2.1, okArguments_of_leaf ind hind args h.2.2.2.1.1, okDirectives_of_leaf ind hind dirs h.2.2.2.1.2,
        okOptSelectionSet_of_leaf ind hind ss h.2.2.2.2 hw.2⟩
  | .fragmentSpread name dirs _, h, _ => by
    simp only [selectionV, nameV, Item.yield, Item.yieldAll, List.append_nil, List.cons_append, List.nil_append, leafOK_cons] at h
    simp only [okSelection]
    exact ⟨h.2.1, okDirectives_of_leaf ind hind dirs h.2.2⟩
  | .inlineFragment tc dirs ss _, h, hw => by
    simp only [wfSelection, Bool.and_eq_true] at hw
    simp only [okSelection]
    cases tc with
    | none =>
      simp only [selectionV, Item.yield, Item.yieldAll, PrintMatch.yieldAll_append, List.append_nil, List.nil_append, List.cons_append,
        leafOK_cons, leafOK_append] at h
      exact ⟨trivial, okDirectives_of_leaf ind hind dirs h.2.1, okSelectionSet_of_leaf ind hind ss h.2.2 hw.2⟩
    | some t =>
      simp only [selectionV, namedTypeV, nameV, kw, Item.yield, Item.yieldAll, PrintMatch.yieldAll_append, List.append_nil,
        List.nil_append, List.cons_append, leafOK_cons, leafOK_append] at h
      exact ⟨h.2.2.1, okDirectives_of_leaf ind hind dirs h.2.2.2.1, okSelectionSet_of_leaf ind hind ss h.2.2.2.2 hw.2⟩
theorem okSelectionSet_of_leaf (ind : Text) (hind : Blank ind) : ∀ (ss : SelectionSet), LeafOK (selectionSetV ss).yield →
    wfSelectionSet ss = true → okSelectionSet ind ss
  | .mk sels _, h, hw => by
    simp only [wfSelectionSet, Bool.and_eq_true, Bool.not_eq_true', List.isEmpty_eq_false_iff] at hw
    simp only [selectionSetV, Item.yield, Item.yieldAll, PrintMatch.yieldAll_append, List.singleton_append, leafOK_cons, leafOK_append] at h
    simp only [okSelectionSet]
    exact ⟨hw.1, okSelections_of_leaf ind hind sels h.2.1 hw.2⟩
theorem okOptSelectionSet_of_leaf (ind : Text) (hind : Blank ind) : ∀ (o : Option SelectionSet),
    LeafOK (Item.yieldAll (optSelectionSetV o)) → wfOptSelectionSet o = true → okOptSelectionSet ind o
  | none, _, _ => by simp [okOptSelectionSet]
  | some ss, h, hw => by
    simp only [optSelectionSetV, Item.yieldAll, List.append_nil] at h
    simp only [wfOptSelectionSet] at hw
    simp only [okOptSelectionSet]; exact okSelectionSet_of_leaf ind hind ss h hw
theorem okSelections_of_leaf (ind : Text) (hind : Blank ind) : ∀ (sels : List Selection),
    LeafOK (Item.yieldAll (selectionsV sels)) → wfSelections sels = true → okSelections ind sels
  | [], _, _ => by simp [okSelections]
  | s :: ss, h, hw => by
    simp only [selectionsV, Item.yieldAll, leafOK_append] at h
    simp only [wfSelections, Bool.and_eq_true] at hw
    simp only [okSelections]
    exact ⟨okSelection_of_leaf ind hind s h.1 hw.1, okSelections_of_leaf ind hind ss h.2 hw.2⟩
end

theorem operation_of_wf {op : Text} (h : op ∈ Generated.ParserTables.operationTypeTuple) :
    op = K.query ∨ op = K.mutation ∨ op = K.subscription := by
  rw [Props.C01.operationTypeTuple_spec] at h
  simpa using h

end PyGql.PrintTokens

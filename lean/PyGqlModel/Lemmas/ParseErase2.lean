/-
  Simulation (continued): arguments, directives, variable definitions, selections, operations, fragments.
-/
import PyGqlModel.Lemmas.ParseErase
namespace PyGql.Parse
open PyGql PyGql.Ast PyGql.Spec

theorem parseArgument_E (fl : Flags) (fuel : Nat) (c : Bool) :
    parseArgument (E fl) fuel c = parseArgument fl fuel c >>= fun a => pure a.erase := by
  simp only [parseArgument, parseName_E, parseValueLiteral_E, mkLoc_E, bind_assoc', pure_bind', Argument.erase]

theorem parseArguments_E (fl : Flags) (fuel : Nat) (c : Bool) :
    parseArguments (E fl) fuel c = parseArguments fl fuel c >>= fun as => pure (as.map Argument.erase) := by
  simp only [parseArguments_eq, parseArgument_E, optMany_E]

theorem parseDirective_E (fl : Flags) (fuel : Nat) (c : Bool) :
    parseDirective (E fl) fuel c = parseDirective fl fuel c >>= fun d => pure d.erase := by
  simp only [parseDirective, parseName_E, parseArguments_E, mkLoc_E, bind_assoc', pure_bind', Directive.erase]

theorem directivesLoop_E (fl : Flags) (fuel : Nat) (c : Bool) : ∀ n,
    directivesLoop (E fl) fuel c n = directivesLoop fl fuel c n >>= fun ds => pure (ds.map Directive.erase) := by
  intro n
  induction n with
  | zero => simp only [directivesLoop, fail_bind, failAt_bind, failTokAt_bind]
  | succ n ih => simp only [directivesLoop, ih, parseDirective_E, bind_assoc', pure_bind', ite_bind, List.map]

theorem parseDirectives_E (fl : Flags) (fuel : Nat) (c : Bool) :
    parseDirectives (E fl) fuel c = parseDirectives fl fuel c >>= fun ds => pure (ds.map Directive.erase) :=
  directivesLoop_E fl fuel c fuel

theorem parseVariableDefinition_E (fl : Flags) (fuel : Nat) :
    parseVariableDefinition (E fl) fuel = parseVariableDefinition fl fuel >>= fun d => pure d.erase := by
  simp only [parseVariableDefinition, parseVariable_E, parseTypeReference_E, parseValueLiteral_E, parseDirectives_E,
    mkLoc_E, bind_assoc', pure_bind', ite_bind, VariableDefinition.erase, Option.map]

theorem parseVariableDefinitions_E (fl : Flags) (fuel : Nat) :
    parseVariableDefinitions (E fl) fuel =
      parseVariableDefinitions fl fuel >>= fun ds => pure (ds.map VariableDefinition.erase) := by
  simp only [parseVariableDefinitions_eq, parseVariableDefinition_E, optMany_E]

theorem parseFragmentName_E (fl : Flags) : parseFragmentName (E fl) = parseFragmentName fl >>= fun n => pure n.erase := by
  simp only [parseFragmentName, parseName_E, bind_assoc', ite_bind, fail_bind, failAt_bind, failTokAt_bind]

/-! ### selections -/

theorem eraseSelections_eq (ss : List Selection) : eraseSelections ss = ss.map Selection.erase := by
  induction ss with
  | nil => simp [eraseSelections]
  | cons v vs ih => simp [eraseSelections, ih]

theorem parseSelectionSetWith_E (fl : Flags) (fuel : Nat) (psel : P Selection) :
    parseSelectionSetWith (E fl) fuel (psel >>= fun x => pure x.erase) =
      parseSelectionSetWith fl fuel psel >>= fun ss => pure ss.erase := by
  simp only [parseSelectionSetWith, many_E, mkLoc_E, bind_assoc', pure_bind', SelectionSet.erase, eraseSelections_eq]

theorem parseFieldWith_E (fl : Flags) (fuel : Nat) (pss : P SelectionSet) :
    parseFieldWith (E fl) fuel (pss >>= fun x => pure x.erase) =
      parseFieldWith fl fuel pss >>= fun x => pure x.erase := by
  simp only [parseFieldWith, parseName_E, parseArguments_E, parseDirectives_E, mkLoc_E, bind_assoc', pure_bind',
    ite_bind, Selection.erase, eraseOptSS, Option.map]

theorem parseFragmentWith_E (fl : Flags) (fuel : Nat) (pss : P SelectionSet) :
    parseFragmentWith (E fl) fuel (pss >>= fun x => pure x.erase) =
      parseFragmentWith fl fuel pss >>= fun x => pure x.erase := by
  simp only [parseFragmentWith, parseFragmentName_E, parseNamedType_E, parseDirectives_E, mkLoc_E, bind_assoc',
    pure_bind', ite_bind, Selection.erase, Option.map]

theorem parseSelection_E (fl : Flags) (fuel : Nat) : ∀ n,
    parseSelection (E fl) fuel n = parseSelection fl fuel n >>= fun x => pure x.erase := by
  intro n
  induction n with
  | zero => simp only [parseSelection, fail_bind, failAt_bind, failTokAt_bind]
  | succ n ih =>
    simp only [parseSelection, ih, parseSelectionSetWith_E, parseFieldWith_E, parseFragmentWith_E, bind_assoc',
      ite_bind]

theorem parseSelectionSet_E (fl : Flags) (fuel : Nat) :
    parseSelectionSet (E fl) fuel = parseSelectionSet fl fuel >>= fun x => pure x.erase := by
  simp only [parseSelectionSet, parseSelection_E, parseSelectionSetWith_E]

/-! ### operations, fragments -/

theorem parseOperationDefinition_E (fl : Flags) (fuel : Nat) :
    parseOperationDefinition (E fl) fuel = parseOperationDefinition fl fuel >>= fun x => pure x.erase := by
  simp only [parseOperationDefinition, parseSelectionSet_E, parseName_E, parseVariableDefinitions_E, parseDirectives_E,
    mkLoc_E, bind_assoc', pure_bind', ite_bind, OperationDefinition.erase, Option.map, List.map]

theorem E_fv (fl : Flags) : (E fl).experimentalFragmentVariables = fl.experimentalFragmentVariables := rfl
theorem E_ts (fl : Flags) : (E fl).allowTypeSystem = fl.allowTypeSystem := rfl

theorem parseFragmentDefinition_E (fl : Flags) (fuel : Nat) :
    parseFragmentDefinition (E fl) fuel = parseFragmentDefinition fl fuel >>= fun x => pure x.erase := by
  simp only [parseFragmentDefinition, E_fv, parseFragmentName_E, parseVariableDefinitions_E, parseNamedType_E,
    parseDirectives_E, parseSelectionSet_E, mkLoc_E, bind_assoc', pure_bind', ite_bind, FragmentDefinition.erase,
    List.map]

theorem parseExecutableDefinition_E (fl : Flags) (fuel : Nat) :
    parseExecutableDefinition (E fl) fuel = parseExecutableDefinition fl fuel >>= fun x => pure x.erase := by
  simp only [parseExecutableDefinition, parseOperationDefinition_E, parseFragmentDefinition_E, bind_assoc', pure_bind',
    ite_bind, fail_bind, failAt_bind, failTokAt_bind, Definition.erase]

end PyGql.Parse

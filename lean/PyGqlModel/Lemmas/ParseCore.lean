/-
  Helper lemmas for the parser proofs: inversion of the parser monad and of the primitives
  (`peek / advance / expect / expect_keyword / skip / _loc`), and the matcher's equations.
-/
import PyGqlModel.ParseDoc
import PyGqlModel.Spec.Grammar
namespace PyGql.Parse
open PyGql PyGql.Ast PyGql.Spec

/-! ### inversion (`… = .ok r ↔ …`) -/

theorem bind_ok {α β} (m : P α) (f : α → P β) (s : PS) (r : β × PS) :
    (m >>= f) s = .ok r ↔ ∃ a s1, m s = .ok (a, s1) ∧ f a s1 = .ok r := by
  show (match m s with | .ok (a, s') => f a s' | .error e => .error e) = _ ↔ _
  cases h : m s with
  | error e => simp
  | ok p =>
    rcases p with ⟨a, s1⟩
    constructor
    · intro h2; exact ⟨a, s1, rfl, h2⟩
    · rintro ⟨a', s1', h1, h2⟩; cases h1; exact h2

theorem pure_ok {α} (a : α) (s : PS) (r : α × PS) : (pure a : P α) s = .ok r ↔ r = (a, s) := by
  show Except.ok (a, s) = Except.ok r ↔ _
  constructor
  · intro h; cases h; rfl
  · intro h; rw [h]

theorem fail_ok {α} (msg : String) (s : PS) (r : α × PS) : (fail msg : P α) s = .ok r ↔ False := by
  simp only [fail]; split <;> simp

theorem failTok_ok {α} (msg : String) (s : PS) (r : α × PS) : (failTok msg : P α) s = .ok r ↔ False := by
  simp only [failTok]; split <;> simp

theorem failAt_ok {α} (t : Tok) (msg : String) (s : PS) (r : α × PS) : (failAt t msg : P α) s = .ok r ↔ False := by
  simp [failAt]

theorem failTokAt_ok {α} (t : Tok) (msg : String) (s : PS) (r : α × PS) :
    (failTokAt t msg : P α) s = .ok r ↔ False := by
  simp [failTokAt]

theorem ite_ok {α} (c : Prop) [Decidable c] (a b : P α) (s : PS) (r : α × PS) :
    (if c then a else b) s = .ok r ↔ (c ∧ a s = .ok r) ∨ (¬ c ∧ b s = .ok r) := by
  by_cases h : c <;> simp [h]

theorem peek_ok (s : PS) (t : Tok) (s' : PS) :
    peek s = .ok (t, s') ↔ ∃ ts, s.toks = t :: ts ∧ s' = s := by
  rcases s with ⟨_ | ⟨t0, ts⟩, l⟩ <;> simp [peek] <;> grind

theorem peek2_ok (s : PS) (t : Tok) (s' : PS) :
    peek2 s = .ok (t, s') ↔ ∃ t0 ts, s.toks = t0 :: t :: ts ∧ s' = s := by
  rcases s with ⟨_ | ⟨t0, _ | ⟨t1, ts⟩⟩, l⟩ <;> simp [peek2] <;> grind

theorem advance_ok (s : PS) (t : Tok) (s' : PS) :
    advance s = .ok (t, s') ↔ ∃ ts, s.toks = t :: ts ∧ s' = ⟨ts, t⟩ := by
  rcases s with ⟨_ | ⟨t0, ts⟩, l⟩ <;> simp [advance] <;> grind

theorem expect_ok (k : TokKind) (s : PS) (t : Tok) (s' : PS) :
    expect k s = .ok (t, s') ↔ ∃ ts, s.toks = t :: ts ∧ t.kind = k ∧ s' = ⟨ts, t⟩ := by
  simp only [expect, bind_ok, peek_ok, ite_ok, advance_ok, failTok_ok]
  constructor
  · rintro ⟨a, s1, ⟨ts, h1, rfl⟩, h2⟩
    rcases h2 with ⟨hk, ts', h3, rfl⟩ | ⟨_, h⟩
    · rw [h1] at h3; cases h3; exact ⟨ts, h1, hk, rfl⟩
    · exact h.elim
  · rintro ⟨ts, h1, hk, rfl⟩
    exact ⟨t, s, ⟨ts, h1, rfl⟩, Or.inl ⟨hk, ts, h1, rfl⟩⟩

theorem expectKeyword_ok (kw : Text) (s : PS) (t : Tok) (s' : PS) :
    expectKeyword kw s = .ok (t, s') ↔ ∃ ts, s.toks = t :: ts ∧ t.kind = .name ∧ t.value = kw ∧ s' = ⟨ts, t⟩ := by
  simp only [expectKeyword, bind_ok, peek_ok, ite_ok, advance_ok, failTok_ok]
  constructor
  · rintro ⟨a, s1, ⟨ts, h1, rfl⟩, h2⟩
    rcases h2 with ⟨⟨hk, hv⟩, ts', h3, rfl⟩ | ⟨_, h⟩
    · rw [h1] at h3; cases h3; exact ⟨ts, h1, hk, hv, rfl⟩
    · exact h.elim
  · rintro ⟨ts, h1, hk, hv, rfl⟩
    exact ⟨t, s, ⟨ts, h1, rfl⟩, Or.inl ⟨⟨hk, hv⟩, ts, h1, rfl⟩⟩

theorem skip_ok (k : TokKind) (s : PS) (b : Bool) (s' : PS) :
    skip k s = .ok (b, s') ↔
      ∃ t ts, s.toks = t :: ts ∧ ((t.kind = k ∧ b = true ∧ s' = ⟨ts, t⟩) ∨ (t.kind ≠ k ∧ b = false ∧ s' = s)) := by
  simp only [skip, bind_ok, peek_ok, ite_ok, advance_ok, pure_ok]
  constructor
  · rintro ⟨a, s1, ⟨ts, h1, rfl⟩, h2⟩
    rcases h2 with ⟨hk, a', s2, ⟨ts', h3, rfl⟩, h4⟩ | ⟨hk, h⟩
    · rw [h1] at h3; cases h3; cases h4; exact ⟨a, ts, h1, Or.inl ⟨hk, rfl, rfl⟩⟩
    · cases h; exact ⟨a, ts, h1, Or.inr ⟨hk, rfl, rfl⟩⟩
  · rintro ⟨t, ts, h1, h⟩
    refine ⟨t, s, ⟨ts, h1, rfl⟩, ?_⟩
    rcases h with ⟨hk, rfl, rfl⟩ | ⟨hk, rfl, rfl⟩
    · exact Or.inl ⟨hk, t, _, ⟨ts, h1, rfl⟩, rfl⟩
    · exact Or.inr ⟨hk, rfl⟩

theorem mkLoc_ok (fl : Flags) (st : Tok) (s : PS) (loc : Loc) (s' : PS) :
    mkLoc fl st s = .ok (loc, s') ↔ loc = locOf fl st s.last ∧ s' = s := by
  simp [mkLoc]; grind

/-! ### evaluation on a known head token -/

theorem bind_eq {α β} (m : P α) (f : α → P β) (s : PS) :
    (m >>= f) s = match m s with | .ok (a, s') => f a s' | .error e => .error e := rfl

theorem pure_eq {α} (a : α) (s : PS) : (pure a : P α) s = .ok (a, s) := rfl

theorem ite_app {α} (c : Prop) [Decidable c] (a b : P α) (s : PS) :
    (if c then a else b) s = if c then a s else b s := by
  split <;> rfl

theorem peek_cons (t : Tok) (ts : List Tok) (l : Tok) : peek ⟨t :: ts, l⟩ = .ok (t, ⟨t :: ts, l⟩) := rfl

theorem peek2_cons (t0 t : Tok) (ts : List Tok) (l : Tok) : peek2 ⟨t0 :: t :: ts, l⟩ = .ok (t, ⟨t0 :: t :: ts, l⟩) := rfl

theorem advance_cons (t : Tok) (ts : List Tok) (l : Tok) : advance ⟨t :: ts, l⟩ = .ok (t, ⟨ts, t⟩) := rfl

theorem skip_pos {k : TokKind} {t : Tok} (h : t.kind = k) (ts : List Tok) (l : Tok) :
    skip k ⟨t :: ts, l⟩ = .ok (true, ⟨ts, t⟩) := by
  simp [skip, bind_eq, peek_cons, h, advance_cons, pure_eq]

theorem skip_neg {k : TokKind} {t : Tok} (h : t.kind ≠ k) (ts : List Tok) (l : Tok) :
    skip k ⟨t :: ts, l⟩ = .ok (false, ⟨t :: ts, l⟩) := by
  simp [skip, bind_eq, peek_cons, h, pure_eq]

theorem expect_pos {k : TokKind} {t : Tok} (h : t.kind = k) (ts : List Tok) (l : Tok) :
    expect k ⟨t :: ts, l⟩ = .ok (t, ⟨ts, t⟩) := by
  simp [expect, bind_eq, peek_cons, h, advance_cons]

theorem expectKeyword_pos {kw : Text} {t : Tok} (h : t.kind = .name) (hv : t.value = kw) (ts : List Tok) (l : Tok) :
    expectKeyword kw ⟨t :: ts, l⟩ = .ok (t, ⟨ts, t⟩) := by
  simp [expectKeyword, bind_eq, peek_cons, h, hv, advance_cons]

theorem mkLoc_eq (fl : Flags) (st : Tok) (s : PS) : mkLoc fl st s = .ok (locOf fl st s.last, s) := rfl

end PyGql.Parse

namespace PyGql.Spec
open PyGql PyGql.Ast PyGql.Parse

/-! ### inversion of the matcher -/

theorem check_tok (fl : Flags) (k : TokKind) (v : Text) (l l' : Tok) (ts rest : List Tok) :
    (Item.tok k v).check fl l ts = some (l', rest) ↔ ∃ t, ts = t :: rest ∧ cls t = (k, v) ∧ l' = t := by
  rcases ts with _ | ⟨t, tl⟩
  · simp [Item.check]
  · simp only [Item.check]
    split <;> grind

theorem check_optTok (fl : Flags) (k : TokKind) (v : Text) (l l' : Tok) (ts rest : List Tok) :
    (Item.optTok k v).check fl l ts = some (l', rest) ↔
      (∃ t, ts = t :: rest ∧ cls t = (k, v) ∧ l' = t) ∨
      (l' = l ∧ rest = ts ∧ ∀ t tl, ts = t :: tl → cls t ≠ (k, v)) := by
  rcases ts with _ | ⟨t, tl⟩
  · simp [Item.check]; grind
  · simp only [Item.check]
    split <;> grind

theorem check_nla (fl : Flags) (k : TokKind) (l l' : Tok) (ts rest : List Tok) :
    (Item.nla k).check fl l ts = some (l', rest) ↔
      (l' = l ∧ rest = ts ∧ ∀ t tl, ts = t :: tl → t.kind ≠ k) := by
  rcases ts with _ | ⟨t, tl⟩
  · simp [Item.check]; grind
  · simp only [Item.check]
    split <;> grind

theorem check_node (fl : Flags) (loc : Loc) (is : List Item) (l l' : Tok) (ts rest : List Tok) :
    (Item.node loc is).check fl l ts = some (l', rest) ↔
      ∃ f tl, ts = f :: tl ∧ Item.checkAll fl is l ts = some (l', rest) ∧ loc = locOf fl f l' := by
  rcases ts with _ | ⟨t, tl⟩
  · simp [Item.check]
  · simp only [Item.check]
    cases h : Item.checkAll fl is l (t :: tl) with
    | none => simp
    | some r => rcases r with ⟨a, b⟩; simp; grind

theorem checkAll_nil (fl : Flags) (l : Tok) (ts : List Tok) (r : Tok × List Tok) :
    Item.checkAll fl [] l ts = some r ↔ r = (l, ts) := by
  simp [Item.checkAll]; grind

theorem checkAll_cons (fl : Flags) (i : Item) (is : List Item) (l : Tok) (ts : List Tok) (r : Tok × List Tok) :
    Item.checkAll fl (i :: is) l ts = some r ↔
      ∃ l1 ts1, i.check fl l ts = some (l1, ts1) ∧ Item.checkAll fl is l1 ts1 = some r := by
  simp only [Item.checkAll]
  cases h : i.check fl l ts with
  | none => simp
  | some p => rcases p with ⟨a, b⟩; simp; grind

theorem checkAll_append (fl : Flags) (is1 is2 : List Item) (l : Tok) (ts : List Tok) (r : Tok × List Tok) :
    Item.checkAll fl (is1 ++ is2) l ts = some r ↔
      ∃ l1 ts1, Item.checkAll fl is1 l ts = some (l1, ts1) ∧ Item.checkAll fl is2 l1 ts1 = some r := by
  induction is1 generalizing l ts with
  | nil => simp [checkAll_nil]; grind
  | cons i is ih =>
    simp only [List.cons_append, checkAll_cons, ih]
    grind


/-! ### the matcher implies the declarative relation -/

theorem lastOf_nil (l : Tok) : Item.lastOf l [] = l := rfl
theorem lastOf_cons (l t : Tok) (ts : List Tok) : Item.lastOf l (t :: ts) = Item.lastOf t ts := by
  cases ts with
  | nil => simp [Item.lastOf]
  | cons h tl =>
    simp only [Item.lastOf, List.getLast?_cons_cons]
    cases hh : (h :: tl).getLast? with
    | none => simp at hh
    | some x => rfl
theorem lastOf_append (l : Tok) (p1 p2 : List Tok) :
    Item.lastOf l (p1 ++ p2) = Item.lastOf (Item.lastOf l p1) p2 := by
  induction p1 generalizing l with
  | nil => rfl
  | cons t ts ih => simp only [List.cons_append, lastOf_cons, ih]

mutual
theorem check_spans (fl : Flags) : ∀ (i : Item) (l l' : Tok) (ts rest : List Tok),
    i.check fl l ts = some (l', rest) →
    ∃ pre, ts = pre ++ rest ∧ Item.Spans fl i pre ∧ l' = Item.lastOf l pre
  | .tok k v, l, l', ts, rest, h => by
    rw [check_tok] at h
    obtain ⟨t, rfl, hc, hl⟩ := h
    subst hl
    exact ⟨[_], rfl, .tok hc, by simp [Item.lastOf]⟩
  | .optTok k v, l, l', ts, rest, h => by
    rw [check_optTok] at h
    rcases h with ⟨t, rfl, hc, hl⟩ | ⟨rfl, rfl, _⟩
    · subst hl
      exact ⟨[_], rfl, .optSome hc, by simp [Item.lastOf]⟩
    · exact ⟨[], rfl, .optNone, rfl⟩
  | .nla k, l, l', ts, rest, h => by
    rw [check_nla] at h
    obtain ⟨rfl, rfl, _⟩ := h
    exact ⟨[], rfl, .nla, rfl⟩
  | .node loc is, l, l', ts, rest, h => by
    rw [check_node] at h
    obtain ⟨f, tl, rfl, hall, hloc⟩ := h
    obtain ⟨pre, hpre, hs, hl⟩ := checkAll_spans fl is l l' (f :: tl) rest hall
    cases pre with
    | nil => exact ⟨[], hpre, .nodeEmpty hs, hl⟩
    | cons f' tl' =>
      simp only [List.cons_append, List.cons.injEq] at hpre
      obtain ⟨rfl, rfl⟩ := hpre
      refine ⟨f :: tl', rfl, .node hs ?_, hl⟩
      rw [hloc, hl, lastOf_cons, lastOf_cons]
theorem checkAll_spans (fl : Flags) : ∀ (is : List Item) (l l' : Tok) (ts rest : List Tok),
    Item.checkAll fl is l ts = some (l', rest) →
    ∃ pre, ts = pre ++ rest ∧ Item.SpansAll fl is pre ∧ l' = Item.lastOf l pre
  | [], l, l', ts, rest, h => by
    rw [checkAll_nil] at h
    cases h
    exact ⟨[], rfl, .nil, rfl⟩
  | i :: is, l, l', ts, rest, h => by
    rw [checkAll_cons] at h
    obtain ⟨l1, ts1, h1, h2⟩ := h
    obtain ⟨p1, rfl, s1, rfl⟩ := check_spans fl i l l1 ts ts1 h1
    obtain ⟨p2, rfl, s2, rfl⟩ := checkAll_spans fl is _ l' ts1 rest h2
    exact ⟨p1 ++ p2, by simp, .cons s1 s2, by rw [lastOf_append]⟩
end


mutual
/-- the canonical yield is never longer than what the matcher consumed (fuel sufficiency) -/
theorem check_width (fl : Flags) : ∀ (i : Item) (l l' : Tok) (ts rest : List Tok),
    i.check fl l ts = some (l', rest) → i.yield.length + rest.length ≤ ts.length
  | .tok k v, l, l', ts, rest, h => by
    rw [check_tok] at h
    obtain ⟨t, rfl, _, _⟩ := h
    simp [Item.yield]; omega
  | .optTok k v, l, l', ts, rest, h => by
    rw [check_optTok] at h
    rcases h with ⟨t, rfl, _, _⟩ | ⟨_, rfl, _⟩ <;> simp [Item.yield]
  | .nla k, l, l', ts, rest, h => by
    rw [check_nla] at h
    obtain ⟨_, rfl, _⟩ := h
    simp [Item.yield]
  | .node loc is, l, l', ts, rest, h => by
    rw [check_node] at h
    obtain ⟨f, tl, rfl, hall, _⟩ := h
    have := checkAll_width fl is l l' (f :: tl) rest hall
    simpa [Item.yield] using this
theorem checkAll_width (fl : Flags) : ∀ (is : List Item) (l l' : Tok) (ts rest : List Tok),
    Item.checkAll fl is l ts = some (l', rest) → (Item.yieldAll is).length + rest.length ≤ ts.length
  | [], l, l', ts, rest, h => by
    rw [checkAll_nil] at h
    cases h
    simp [Item.yieldAll]
  | i :: is, l, l', ts, rest, h => by
    rw [checkAll_cons] at h
    obtain ⟨l1, ts1, h1, h2⟩ := h
    have a := check_width fl i l l1 ts ts1 h1
    have b := checkAll_width fl is l1 l' ts1 rest h2
    simp [Item.yieldAll]; omega
end

theorem check_len {fl : Flags} {i : Item} {l l' : Tok} {ts rest : List Tok}
    (h : i.check fl l ts = some (l', rest)) : rest.length ≤ ts.length := by
  have := check_width fl i l l' ts rest h; omega

theorem checkAll_len {fl : Flags} {is : List Item} {l l' : Tok} {ts rest : List Tok}
    (h : Item.checkAll fl is l ts = some (l', rest)) : rest.length ≤ ts.length := by
  have := checkAll_width fl is l l' ts rest h; omega

end PyGql.Spec

/-
  C08 — helper lemmas: the *eventual value* `ev` of a node (what it will finish with, whatever the
  order of completions), the shape invariant `Good`, and their preservation by `deliver`.
-/
import PyGqlModel.AsyncExec
import PyGqlModel.Spec.AsyncExecSpec

set_option linter.unusedVariables false
set_option linter.unusedSimpArgs false

namespace PyGql.Exec

/-- eventual outcome of a node: a plain value, a `ResolverError`, or an unexpected failure -/
inductive EvR where
  | ok (x : Val)
  | rerr
  | fail

def evExc : Exc → EvR
  | .resolver => .rerr
  | _ => .fail

def denToEv : Option V → EvR
  | some v => .ok (.data v)
  | none => .fail

/-- what callback `k` produces from the eventual outcome of its source -/
def evCont : Cont → EvR → EvR
  | .complete _, .ok (.raw c) => denToEv (denComp c)
  | .complete _, .rerr => .ok (.data .null)
  | .collect keys, .ok x => .ok (collect keys x)
  | .nonNull _, .ok x => .ok x
  | .onFinish, .ok x => .ok x
  | .serialCb _ key resolved args, .ok (.data v) =>
    match denFlds args with
    | some kvs => .ok (.data (.obj (resolved ++ (key, v) :: kvs)))
    | none => .fail
  | _, .fail => .fail
  | _, .rerr => .rerr
  | _, .ok _ => .ok .junk

/-- aggregate of slot outcomes (slots never evaluate to `rerr` in executor-built trees) -/
def evGather : List EvR → EvR
  | [] => .ok (.data (.list []))
  | r :: rs =>
    match r, evGather rs with
    | .ok (.data v), .ok (.data (.list vs)) => .ok (.data (.list (v :: vs)))
    | .ok _, .ok _ => .ok .junk
    | _, _ => .fail

mutual
def ev : Node → EvR
  | .val x => .ok x
  | .done r => ev r
  | .failed e => evExc e
  | .task _ _ _ out => match out with
    | .ok c => .ok (.raw c)
    | .rerr => .rerr
    | .exc => .fail
  | .unwrap src => ev src
  | .chain src k => evCont k (ev src)
  | .gather slots _ _ => evGather (evSlots slots)
def evSlots : Nodes → List EvR
  | .nil => []
  | .cons n ns => ev n :: evSlots ns
end

def evRes : Res Node → EvR
  | .ok n => ev n
  | .exc e => evExc e

/-- a node that can only finish as `done (val _)` or `failed _` (never with a Future as its result) -/
def flat : Node → Bool
  | .val _ => true
  | .done (.val _) => true
  | .done _ => false
  | .failed _ => true
  | .task _ _ _ _ => false
  | .unwrap _ => true
  | .gather _ _ _ => true
  | .chain _ (.nonNull _) => true
  | .chain _ (.collect _) => true
  | .chain _ .onFinish => true
  | .chain _ _ => false

def EvR.isRerr : EvR → Bool
  | .rerr => true
  | _ => false

mutual
/-- shape invariant of executor-built trees -/
def Good : Node → Bool
  | .val _ => true
  | .done r => Good r
  | .failed _ => true
  | .task _ _ _ _ => true
  | .unwrap src => Good src
  | .chain src _ => Good src && flat src
  | .gather slots _ _ => GoodSlots slots
def GoodSlots : Nodes → Bool
  | .nil => true
  | .cons n ns => Good n && flat n && !(ev n).isRerr && GoodSlots ns
end

def GoodRes : Res Node → Bool
  | .ok n => Good n
  | .exc _ => true

def FlatRes : Res Node → Bool
  | .ok n => flat n
  | .exc _ => true

/-! ### unwrap -/

theorem ev_unwrapCb : ∀ n : Node, ev (unwrapCb n) = ev n
  | .val x => by simp [unwrapCb, ev]
  | .failed e => by simp [unwrapCb, ev]
  | .done (.val x) => by simp [unwrapCb, ev]
  | .done (.done r) => by
    have := ev_unwrapCb (.done r)
    simp [unwrapCb, ev] at this ⊢; exact this
  | .done (.failed e) => by simp [unwrapCb, ev]
  | .done (.task a b c d) => by simp [unwrapCb, ev]
  | .done (.chain a b) => by simp [unwrapCb, ev]
  | .done (.unwrap a) => by simp [unwrapCb, ev]
  | .done (.gather a b c) => by simp [unwrapCb, ev]
  | .task a b c d => by simp [unwrapCb, ev]
  | .chain a b => by simp [unwrapCb, ev]
  | .unwrap a => by simp [unwrapCb, ev]
  | .gather a b c => by simp [unwrapCb, ev]

theorem good_unwrapCb : ∀ n : Node, Good n = true → Good (unwrapCb n) = true
  | .val x => by simp [unwrapCb, Good]
  | .failed e => by simp [unwrapCb, Good]
  | .done (.val x) => by simp [unwrapCb, Good]
  | .done (.done r) => by
    intro h
    have := good_unwrapCb (.done r) (by simpa [Good] using h)
    simpa [unwrapCb] using this
  | .done (.failed e) => by simp [unwrapCb, Good]
  | .done (.task a b c d) => by simp [unwrapCb, Good]
  | .done (.chain a b) => by simp [unwrapCb, Good]
  | .done (.unwrap a) => by simp [unwrapCb, Good]
  | .done (.gather a b c) => by simp [unwrapCb, Good]
  | .task a b c d => by simp [unwrapCb, Good]
  | .chain a b => by simp [unwrapCb, Good]
  | .unwrap a => by simp [unwrapCb, Good]
  | .gather a b c => by simp [unwrapCb, Good]

theorem flat_unwrapCb : ∀ n : Node, flat (unwrapCb n) = true
  | .val x => by simp [unwrapCb, flat]
  | .failed e => by simp [unwrapCb, flat]
  | .done (.val x) => by simp [unwrapCb, flat]
  | .done (.done r) => by
    have := flat_unwrapCb (.done r)
    simpa [unwrapCb] using this
  | .done (.failed e) => by simp [unwrapCb, flat]
  | .done (.task a b c d) => by simp [unwrapCb, flat]
  | .done (.chain a b) => by simp [unwrapCb, flat]
  | .done (.unwrap a) => by simp [unwrapCb, flat]
  | .done (.gather a b c) => by simp [unwrapCb, flat]
  | .task a b c d => by simp [unwrapCb, flat]
  | .chain a b => by simp [unwrapCb, flat]
  | .unwrap a => by simp [unwrapCb, flat]
  | .gather a b c => by simp [unwrapCb, flat]

theorem ev_unwrapValue (n : Node) : ev (unwrapValue n) = ev n := by
  cases n <;> simp [unwrapValue, ev_unwrapCb]

theorem good_unwrapValue (n : Node) (h : Good n = true) : Good (unwrapValue n) = true := by
  cases n <;> simp [unwrapValue] <;> first | exact h | exact good_unwrapCb _ h

theorem flat_unwrapValue (n : Node) : flat (unwrapValue n) = true := by
  cases n <;> simp only [unwrapValue] <;> first | rfl | exact flat_unwrapCb _

/-- a finished flat node is `done (val x)`, `val x` or `failed e` -/
theorem flat_finished (n : Node) (hf : flat n = true) (hfin : n.finished = true) :
    (∃ x, n = .val x) ∨ (∃ x, n = .done (.val x)) ∨ (∃ e, n = .failed e) := by
  cases n with
  | val x => exact .inl ⟨x, rfl⟩
  | failed e => exact .inr (.inr ⟨e, rfl⟩)
  | done r => cases r <;> simp_all [flat]
  | _ => simp_all [Node.finished]

/-! ### gather -/

theorem collectSlots_ne_exc {α : Type} : ∀ (l : List (Slot α)) (e : Exc), collectSlots l ≠ .setException e
  | [], e => by simp [collectSlots]
  | none :: r, e => by simp [collectSlots]
  | some (.error _) :: r, e => by simp [collectSlots]
  | some (.ok a) :: r, e => by
    have ih := collectSlots_ne_exc r e
    simp only [collectSlots]
    cases h : collectSlots r <;> simp_all

theorem evGather_fail : ∀ (rs : List EvR) (r : EvR), r ∈ rs → (∀ x, r ≠ .ok x) → evGather rs = .fail
  | [], r, h, _ => by simp at h
  | a :: rest, r, h, hr => by
    simp at h
    rcases h with h | h
    · subst h
      cases r with
      | ok x => exact absurd rfl (hr x)
      | rerr => simp [evGather]
      | fail => simp [evGather]
    · have ih := evGather_fail rest r h hr
      cases a with
      | ok x => cases x <;> simp [evGather, ih]
      | rerr => simp [evGather]
      | fail => simp [evGather]

theorem mem_evSlots : ∀ (slots : Nodes) (n : Node), n ∈ slots.toList → ev n ∈ evSlots slots
  | .nil, n, h => by simp [Nodes.toList] at h
  | .cons a ns, n, h => by
    simp [Nodes.toList] at h
    rcases h with h | h
    · subst h; simp [evSlots]
    · simp [evSlots]; right; exact mem_evSlots ns n h

theorem goodSlots_mem : ∀ (slots : Nodes) (n : Node), GoodSlots slots = true → n ∈ slots.toList →
    Good n = true ∧ flat n = true ∧ (ev n).isRerr = false
  | .nil, n, _, h => by simp [Nodes.toList] at h
  | .cons a ns, n, hg, h => by
    simp [GoodSlots] at hg
    simp [Nodes.toList] at h
    rcases h with h | h
    · subst h; exact ⟨hg.1.1.1, hg.1.1.2, hg.1.2⟩
    · exact goodSlots_mem ns n hg.2 h

/-- when the list comprehension of `on_finish` succeeds, its result is the aggregate of the slots' eventual values -/
theorem collect_ev : ∀ (slots : Nodes) (rs : List Node), GoodSlots slots = true →
    collectSlots (slots.toList.map Node.slot) = .setResult rs → evGather (evSlots slots) = .ok (valOfResults rs)
  | .nil, rs, _, h => by
    simp [Nodes.toList, collectSlots] at h; subst h
    simp [evSlots, evGather, valOfResults, listOfNodes]
  | .cons n ns, rs, hg, h => by
    simp only [GoodSlots, Bool.and_eq_true] at hg
    obtain ⟨⟨⟨hgn, hfn⟩, _⟩, hgs⟩ := hg
    simp only [Nodes.toList, List.map_cons] at h
    -- the head slot has a plain result
    have key : ∀ (x : Val) (r : Node), Node.slot n = some (.ok r) → r = .val x → ev n = .ok x →
        evGather (evSlots (.cons n ns)) = .ok (valOfResults rs) := by
      intro x r hs hr hev
      rw [hs] at h
      simp only [collectSlots] at h
      cases hc : collectSlots (ns.toList.map Node.slot) with
      | setResult rs' =>
        rw [hc] at h
        simp at h; subst h
        have ih := collect_ev ns rs' hgs hc
        subst hr
        simp only [evSlots, evGather, hev, ih]
        cases x with
        | data v =>
          cases hl : listOfNodes rs' with
          | some vs => simp [valOfResults, listOfNodes, hl]
          | none => simp [valOfResults, listOfNodes, hl]
        | raw c => simp [valOfResults, listOfNodes]
        | junk => simp [valOfResults, listOfNodes]
      | nothing => rw [hc] at h; simp at h
      | setException e => rw [hc] at h; simp at h
      | raisesInCallback => rw [hc] at h; simp at h
      | blocks => rw [hc] at h; simp at h
    cases n with
    | val x => exact key x (.val x) rfl rfl (by simp [ev])
    | done r =>
      cases r with
      | val x => exact key x (.val x) rfl rfl (by simp [ev])
      | _ => simp [flat] at hfn
    | failed e => simp [Node.slot, collectSlots] at h
    | task a b c d => simp [Node.slot, collectSlots] at h
    | chain a b => simp [Node.slot, collectSlots] at h
    | unwrap a => simp [Node.slot, collectSlots] at h
    | gather a b c => simp [Node.slot, collectSlots] at h

theorem gatherFire_some (done target : Nat) (d : Except Exc Node) (slots : Nodes) (dn : Nat) (o : Node)
    (hf : gatherFire done target d slots = (dn, some o)) :
    (∃ e, d = .error e ∧ o = .failed e) ∨
    (∃ rs, collectSlots (slots.toList.map Node.slot) = .setResult rs ∧ o = .done (.val (valOfResults rs))) := by
  cases d with
  | error e =>
    simp [gatherFire, gatherOnFinish] at hf
    exact .inl ⟨e, rfl, hf.2.symm⟩
  | ok r =>
    by_cases hdt : done + 1 = target
    · cases hc : collectSlots (slots.toList.map Node.slot) with
      | setResult rs =>
        simp [gatherFire, gatherOnFinish, hdt, hc] at hf
        exact .inr ⟨rs, rfl, hf.2.symm⟩
      | nothing => simp [gatherFire, gatherOnFinish, hdt, hc] at hf
      | setException e => exact absurd hc (collectSlots_ne_exc _ e)
      | raisesInCallback => simp [gatherFire, gatherOnFinish, hdt, hc] at hf
      | blocks => simp [gatherFire, gatherOnFinish, hdt, hc] at hf
    · simp [gatherFire, gatherOnFinish, hdt] at hf

/-- what a successful sequence of `on_finish` callbacks can do to `outer` -/
theorem gatherFires_some (target : Nat) (slots : Nodes) :
    ∀ (fired : List (Except Exc Node)) (done d' : Nat) (outer : Node),
      gatherFires done target slots fired = (d', some outer) →
      (∃ e, Except.error e ∈ fired ∧ outer = .failed e) ∨
      (∃ rs, collectSlots (slots.toList.map Node.slot) = .setResult rs ∧ outer = .done (.val (valOfResults rs)))
  | [], done, d', outer, h => by simp [gatherFires] at h
  | d :: rest, done, d', outer, h => by
    simp only [gatherFires] at h
    cases hf : gatherFire done target d slots with
    | mk dn o =>
      rw [hf] at h
      cases o with
      | some o' =>
        simp at h
        obtain ⟨_, ho⟩ := h
        subst ho
        rcases gatherFire_some done target d slots dn o' hf with ⟨e, he, ho⟩ | h'
        · exact .inl ⟨e, by simp [he], ho⟩
        · exact .inr h'
      | none =>
        simp at h
        rcases gatherFires_some target slots rest dn d' outer h with ⟨e, he, ho⟩ | h'
        · exact .inl ⟨e, by simp [he], ho⟩
        · exact .inr h'

/-- the node a gather becomes once the `on_finish` callbacks of the slots in `fired` have run -/
def gatherAfter (slots : Nodes) (done target : Nat) (fired : List (Except Exc Node)) : Node :=
  match gatherFires done target slots fired with
  | (_, some outer) => outer
  | (done', none) => .gather slots done' target

theorem gatherAfter_ev (slots : Nodes) (done target : Nat) (fired : List (Except Exc Node))
    (hg : GoodSlots slots = true) (hfired : ∀ e, Except.error e ∈ fired → Node.failed e ∈ slots.toList) :
    ev (gatherAfter slots done target fired) = evGather (evSlots slots) ∧
    Good (gatherAfter slots done target fired) = true ∧ flat (gatherAfter slots done target fired) = true := by
  unfold gatherAfter
  cases h : gatherFires done target slots fired with
  | mk d' o =>
    cases o with
    | none => simp [ev, Good, flat, hg]
    | some outer =>
      simp only
      rcases gatherFires_some target slots fired done d' outer h with ⟨e, he, ho⟩ | ⟨rs, hc, ho⟩
      · subst ho
        have hm := hfired e he
        obtain ⟨_, _, hr⟩ := goodSlots_mem slots _ hg hm
        have hne : ∀ x, ev (Node.failed e) ≠ .ok x := by intro x; cases e <;> simp [ev, evExc]
        have := evGather_fail (evSlots slots) (ev (.failed e)) (mem_evSlots slots _ hm) hne
        rw [this]
        cases e <;> simp_all [ev, evExc, Good, flat, EvR.isRerr]
      · subst ho
        have := collect_ev slots rs hg hc
        simp [ev, Good, flat, this]

/-! ### callbacks -/

def evOfVal : Res Val → EvR
  | .ok x => .ok x
  | .exc e => evExc e

def simpleK : Cont → Bool
  | .nonNull _ | .collect _ | .onFinish => true
  | _ => false

def ValRes : Res Node → Bool
  | .ok (.val _) => true
  | .exc _ => true
  | _ => false

/-- what the proofs need from an interpretation of callback `k` -/
def ApOK (ap : ApplyCont) (k : Cont) : Prop :=
  ∀ (r : Res Val) (s : ExecSt),
    evRes (ap k r s).1 = evCont k (evOfVal r) ∧ GoodRes (ap k r s).1 = true ∧ (simpleK k = true → ValRes (ap k r s).1 = true)

theorem flat_chain_simple (src : Node) (k : Cont) (h : simpleK k = true) : flat (.chain src k) = true := by
  cases k <;> simp_all [simpleK, flat]

theorem chainOnFinish_ev (ap : ApplyCont) (k : Cont) (hap : ApOK ap k) (src : Node) (s : ExecSt)
    (hg : Good src = true) (hf : flat src = true) :
    ev (chainOnFinish ap src k s).1 = evCont k (ev src) ∧ Good (chainOnFinish ap src k s).1 = true ∧
    (simpleK k = true → flat (chainOnFinish ap src k s).1 = true) := by
  cases src with
  | failed e =>
    obtain ⟨h1, h2, h3⟩ := hap (.exc e) s
    simp only [chainOnFinish]
    cases hr : ap k (.exc e) s with
    | mk r s' =>
      rw [hr] at h1 h2 h3
      cases r with
      | ok x =>
        refine ⟨by simpa [ev, evRes, evOfVal] using h1, by simpa [Good, GoodRes] using h2, ?_⟩
        intro hk
        have := h3 hk
        cases x <;> simp_all [ValRes, flat]
      | exc e' =>
        refine ⟨by simpa [ev, evRes, evOfVal] using h1, by simp [Good], by simp [flat]⟩
  | done r =>
    cases r with
    | val x =>
      obtain ⟨h1, h2, h3⟩ := hap (.ok x) s
      simp only [chainOnFinish, Node.plain]
      cases hr : ap k (.ok x) s with
      | mk r s' =>
        rw [hr] at h1 h2 h3
        cases r with
        | ok y =>
          refine ⟨by simpa [ev, evRes, evOfVal] using h1, by simpa [Good, GoodRes] using h2, ?_⟩
          intro hk
          have := h3 hk
          cases y <;> simp_all [ValRes, flat]
        | exc e' =>
          refine ⟨by simpa [ev, evRes, evOfVal] using h1, by simp [Good], by simp [flat]⟩
    | _ => simp [flat] at hf
  | val x => exact ⟨by simp [chainOnFinish, ev], by simp_all [chainOnFinish, Good], fun hk => by simp [chainOnFinish, flat_chain_simple _ _ hk]⟩
  | task a b c d => simp [flat] at hf
  | chain a b => exact ⟨by simp [chainOnFinish, ev], by simp_all [chainOnFinish, Good], fun hk => by simp [chainOnFinish, flat_chain_simple _ _ hk]⟩
  | unwrap a => exact ⟨by simp [chainOnFinish, ev], by simp_all [chainOnFinish, Good], fun hk => by simp [chainOnFinish, flat_chain_simple _ _ hk]⟩
  | gather a b c => exact ⟨by simp [chainOnFinish, ev], by simp_all [chainOnFinish, Good], fun hk => by simp [chainOnFinish, flat_chain_simple _ _ hk]⟩

theorem mapValue_ev (ap : ApplyCont) (k : Cont) (hap : ApOK ap k) (n : Node) (s : ExecSt)
    (hg : Good n = true) (hf : flat n = true) :
    evRes (mapValue ap n k s).1 = evCont k (ev n) ∧ GoodRes (mapValue ap n k s).1 = true ∧
    (simpleK k = true → FlatRes (mapValue ap n k s).1 = true) := by
  cases n with
  | val x =>
    obtain ⟨h1, h2, h3⟩ := hap (.ok x) s
    refine ⟨by simpa [mapValue, ev, evOfVal] using h1, by simpa [mapValue] using h2, ?_⟩
    intro hk
    have := h3 hk
    simp only [mapValue]
    cases hr : ap k (.ok x) s with
    | mk r s' =>
      rw [hr] at this
      cases r with
      | ok y => cases y <;> simp_all [ValRes, FlatRes, flat]
      | exc e => simp [FlatRes]
  | done r =>
    have := chainOnFinish_ev ap k hap (.done r) s hg hf
    simpa [mapValue, Node.finished, evRes, GoodRes, FlatRes] using this
  | failed e =>
    have := chainOnFinish_ev ap k hap (.failed e) s hg hf
    simpa [mapValue, Node.finished, evRes, GoodRes, FlatRes] using this
  | task a b c d => simp [flat] at hf
  | chain a b =>
    exact ⟨by simp [mapValue, Node.finished, evRes, ev], by simp_all [mapValue, Node.finished, GoodRes, Good],
           fun hk => by simp [mapValue, Node.finished, FlatRes, flat_chain_simple _ _ hk]⟩
  | unwrap a =>
    exact ⟨by simp [mapValue, Node.finished, evRes, ev], by simp_all [mapValue, Node.finished, GoodRes, Good],
           fun hk => by simp [mapValue, Node.finished, FlatRes, flat_chain_simple _ _ hk]⟩
  | gather a b c =>
    exact ⟨by simp [mapValue, Node.finished, evRes, ev], by simp_all [mapValue, Node.finished, GoodRes, Good],
           fun hk => by simp [mapValue, Node.finished, FlatRes, flat_chain_simple _ _ hk]⟩

@[simp] theorem handleNN_fst (p : Path) (x : Val) (s : ExecSt) : (handleNonNullableValue p x s).1 = x := by
  unfold handleNonNullableValue; split <;> rfl

theorem applySimple_ok (k : Cont) (hk : simpleK k = true) : ApOK applySimple k := by
  intro r s
  cases k <;> simp [simpleK] at hk <;> cases r <;>
    simp [applySimple, evRes, evCont, evOfVal, GoodRes, Good, ValRes, ev] <;>
    (try (rename_i e; cases e <;> simp [evExc, evCont]))

/-! ### nodes built by the executor -/

theorem collectSlots_vals : ∀ (l : List Node), l.filter Node.isFuture = [] →
    collectSlots (l.map Node.slot) = .setResult l
  | [], _ => by simp [collectSlots]
  | n :: rest, h => by
    cases n with
    | val x =>
      have h' : rest.filter Node.isFuture = [] := by simpa [List.filter, Node.isFuture] using h
      simp [collectSlots, Node.slot, collectSlots_vals rest h']
    | _ => simp [List.filter, Node.isFuture] at h

theorem nodes_nil_of_length : ∀ (ns : Nodes), ns.toList.length = 0 → ns = .nil
  | .nil, _ => rfl
  | .cons _ _, h => by simp [Nodes.toList] at h

theorem gatherValues_ev (source : Nodes) (hg : GoodSlots source = true) :
    ev (gatherValues source) = evGather (evSlots source) ∧ Good (gatherValues source) = true ∧
    flat (gatherValues source) = true := by
  unfold gatherValues
  simp only
  split
  · rename_i h0
    have : source = .nil := nodes_nil_of_length source (by simpa using h0)
    subst this
    simp [ev, evSlots, evGather, Good, flat]
  · split
    · rename_i _ hp
      have hc := collectSlots_vals source.toList (by simpa using hp)
      have := collect_ev source source.toList hg hc
      simp [ev, Good, flat, this]
    · apply gatherAfter_ev source _ _ _ hg
      intro e he
      simp only [List.mem_filterMap, List.mem_filter] at he
      obtain ⟨n, ⟨hn, _⟩, hs⟩ := he
      cases n <;> simp [slotResult] at hs
      subst hs; exact hn

theorem evExc_ne (e : Exc) (h : e ≠ .resolver) : evExc e = .fail := by cases e <;> simp_all [evExc]

theorem zip_keys : ∀ (fs : Flds) (kvs : List (String × V)), denFlds fs = some kvs → fs.keys.zip (kvs.map (·.2)) = kvs
  | .nil, kvs, h => by simp [denFlds] at h; subst h; simp [Flds.keys]
  | .cons key m out rest, kvs, h => by
    simp only [denFlds] at h
    cases ho : denOut out with
    | none => simp [ho] at h
    | some v =>
      cases hr : denFlds rest with
      | none => simp [ho, hr] at h
      | some kvs' =>
        simp [ho, hr] at h; subst h
        simp [Flds.keys, zip_keys rest kvs' hr]

def slotsSpec (ns : Nodes) (d : Option (List V)) : Prop :=
  GoodSlots ns = true ∧ evGather (evSlots ns) = (match d with | some vs => .ok (.data (.list vs)) | none => .fail)

def consOpt : Option V → Option (List V) → Option (List V)
  | some v, some vs => some (v :: vs)
  | _, _ => none

theorem slotsSpec_cons (n : Node) (ns : Nodes) (dv : Option V) (dvs : Option (List V))
    (h1 : ev n = denToEv dv) (hg : Good n = true) (hf : flat n = true) (h2 : slotsSpec ns dvs) :
    slotsSpec (.cons n ns) (consOpt dv dvs) := by
  obtain ⟨g2, e2⟩ := h2
  constructor
  · cases dv <;> simp_all [GoodSlots, denToEv, EvR.isRerr]
  · cases dv <;> cases dvs <;> simp_all [evSlots, evGather, denToEv, consOpt]

theorem denItems_cons (c : Comp) (cs : Comps) : denItems (.cons c cs) = consOpt (denComp c) (denItems cs) := by
  simp only [denItems]; cases denComp c <;> cases denItems cs <;> rfl

theorem denFlds_cons (key : String) (m : Mode) (out : ROut) (rest : Flds) :
    (denFlds (.cons key m out rest)).map (·.map (·.2)) = consOpt (denOut out) ((denFlds rest).map (·.map (·.2))) := by
  simp only [denFlds]; cases denOut out <;> cases denFlds rest <;> rfl

theorem denFlds_cons_none (key : String) (m : Mode) (out : ROut) (rest : Flds)
    (h : denOut out = none ∨ denFlds rest = none) : denFlds (.cons key m out rest) = none := by
  simp only [denFlds]; rcases h with h | h <;> rw [h] <;> cases denOut out <;> rfl

theorem denItems_cons_none (c : Comp) (cs : Comps)
    (h : denComp c = none ∨ denItems cs = none) : denItems (.cons c cs) = none := by
  simp only [denItems]; rcases h with h | h <;> rw [h] <;> cases denComp c <;> rfl

mutual
theorem completeValue_ev : ∀ (c : Comp) (path : Path) (s : ExecSt),
    evRes (completeValue path c s).1 = denToEv (denComp c) ∧ GoodRes (completeValue path c s).1 = true ∧
    FlatRes (completeValue path c s).1 = true
  | .null, path, s => by simp [completeValue, evRes, ev, denToEv, denComp, GoodRes, Good, FlatRes, flat]
  | .leaf v, path, s => by simp [completeValue, evRes, ev, denToEv, denComp, GoodRes, Good, FlatRes, flat]
  | .bad, path, s => by simp [completeValue, evRes, evExc, denToEv, denComp, GoodRes, FlatRes]
  | .nonNull c, path, s => by
    obtain ⟨h1, h2, h3⟩ := completeValue_ev c path s
    simp only [completeValue, denComp]
    cases hr : completeValue path c s with
    | mk r s1 =>
      rw [hr] at h1 h2 h3
      cases r with
      | exc e => simpa [evRes, GoodRes, FlatRes] using h1
      | ok n =>
        obtain ⟨m1, m2, m3⟩ := mapValue_ev applySimple (.nonNull path) (applySimple_ok _ rfl) n s1 h2 h3
        refine ⟨?_, m2, m3 rfl⟩
        rw [m1]
        simp only [evRes] at h1
        rw [h1]
        cases denComp c <;> simp [denToEv, evCont]
  | .list items, path, s => by
    have ih := completeItems_ev items path 0 s
    simp only [completeValue, denComp]
    cases hr : completeItems path 0 items s with
    | mk r s1 =>
      rw [hr] at ih
      cases r with
      | exc e =>
        simp only at ih
        simp [evRes, GoodRes, FlatRes, ih.2, denToEv, evExc_ne e ih.1]
      | ok ns =>
        simp only at ih
        obtain ⟨g1, g2, g3⟩ := gatherValues_ev ns ih.1
        refine ⟨?_, by simpa [GoodRes] using g2, by simpa [FlatRes] using g3⟩
        simp only [evRes, g1, ih.2]
        cases denItems items <;> simp [denToEv]
  | .obj fields, path, s => by
    have ih := resolveFields_ev fields path s
    simp only [completeValue, denComp]
    cases hr : resolveFields path fields s with
    | mk r s1 =>
      rw [hr] at ih
      cases r with
      | exc e =>
        simp only at ih
        simp [evRes, GoodRes, FlatRes, ih.2, denToEv, evExc_ne e ih.1]
      | ok ns =>
        simp only at ih
        obtain ⟨g1, g2, g3⟩ := gatherValues_ev ns ih.1
        obtain ⟨m1, m2, m3⟩ := mapValue_ev applySimple (.collect fields.keys) (applySimple_ok _ rfl) (gatherValues ns) s1 g2 g3
        refine ⟨?_, m2, m3 rfl⟩
        rw [m1, g1, ih.2]
        cases hd : denFlds fields with
        | none => simp [denToEv, evCont]
        | some kvs => simp [denToEv, evCont, collect, zip_keys fields kvs hd]
theorem completeItems_ev : ∀ (cs : Comps) (path : Path) (i : Nat) (s : ExecSt),
    match (completeItems path i cs s).1 with
    | .exc e => e ≠ .resolver ∧ denItems cs = none
    | .ok ns => slotsSpec ns (denItems cs)
  | .nil, path, i, s => by simp [completeItems, slotsSpec, GoodSlots, evSlots, evGather, denItems]
  | .cons c cs, path, i, s => by
    obtain ⟨h1, h2, h3⟩ := completeValue_ev c (path ++ [.idx i]) s
    have ih := completeItems_ev cs path (i + 1)
    simp only [completeItems]
    cases hr : completeValue (path ++ [.idx i]) c s with
    | mk r s1 =>
      rw [hr] at h1 h2 h3
      cases r with
      | exc e =>
        simp only [evRes] at h1
        cases hd : denComp c with
        | some v => rw [hd] at h1; cases e <;> simp [evExc, denToEv] at h1
        | none =>
          rw [hd] at h1
          exact ⟨by cases e <;> simp_all [evExc, denToEv], denItems_cons_none c cs (.inl hd)⟩
      | ok n =>
        have ih := ih s1
        simp only
        cases hr2 : completeItems path (i + 1) cs s1 with
        | mk r2 s2 =>
          rw [hr2] at ih
          cases r2 with
          | exc e => exact ⟨ih.1, denItems_cons_none c cs (.inr ih.2)⟩
          | ok ns =>
            show slotsSpec (.cons n ns) (denItems (.cons c cs))
            rw [denItems_cons]
            exact slotsSpec_cons n ns (denComp c) (denItems cs) h1 h2 h3 ih
theorem resolveFields_ev : ∀ (fs : Flds) (path : Path) (s : ExecSt),
    match (resolveFields path fs s).1 with
    | .exc e => e ≠ .resolver ∧ denFlds fs = none
    | .ok ns => slotsSpec ns ((denFlds fs).map (·.map (·.2)))
  | .nil, path, s => by simp [resolveFields, slotsSpec, GoodSlots, evSlots, evGather, denFlds]
  | .cons key mode out rest, path, s => by
    obtain ⟨h1, h2, h3⟩ := resolveField_ev out (path ++ [.key key]) mode s
    have ih := resolveFields_ev rest path
    simp only [resolveFields]
    cases hr : resolveField (path ++ [.key key]) mode out s with
    | mk r s1 =>
      rw [hr] at h1 h2 h3
      cases r with
      | exc e =>
        simp only [evRes] at h1
        cases hd : denOut out with
        | some v => rw [hd] at h1; cases e <;> simp [evExc, denToEv] at h1
        | none =>
          rw [hd] at h1
          exact ⟨by cases e <;> simp_all [evExc, denToEv], denFlds_cons_none key mode out rest (.inl hd)⟩
      | ok n =>
        have ih := ih s1
        simp only
        cases hr2 : resolveFields path rest s1 with
        | mk r2 s2 =>
          rw [hr2] at ih
          cases r2 with
          | exc e => exact ⟨ih.1, denFlds_cons_none key mode out rest (.inr ih.2)⟩
          | ok ns =>
            show slotsSpec (.cons n ns) ((denFlds (.cons key mode out rest)).map (·.map (·.2)))
            rw [denFlds_cons]
            exact slotsSpec_cons n ns (denOut out) _ h1 h2 h3 ih
theorem resolveField_ev : ∀ (out : ROut) (path : Path) (mode : Mode) (s : ExecSt),
    evRes (resolveField path mode out s).1 = denToEv (denOut out) ∧ GoodRes (resolveField path mode out s).1 = true ∧
    FlatRes (resolveField path mode out s).1 = true
  | .rerr, path, mode, s => by
    cases mode <;> simp [resolveField, failField, evRes, ev, evCont, denToEv, denOut, GoodRes, Good, FlatRes, flat, ExecSt.submit]
  | .exc, path, mode, s => by
    cases mode <;> simp [resolveField, evRes, ev, evExc, evCont, denToEv, denOut, GoodRes, Good, FlatRes, flat, ExecSt.submit]
  | .ok c, path, mode, s => by
    cases mode with
    | sync =>
      obtain ⟨h1, h2, h3⟩ := completeValue_ev c path ((s.emit (.call path)).emit (.done path))
      simp only [resolveField, denOut]
      cases hr : completeValue path c ((s.emit (.call path)).emit (.done path)) with
      | mk r s1 =>
        rw [hr] at h1 h2 h3
        cases r with
        | exc e =>
          cases e with
          | resolver => cases hd : denComp c <;> simp [hd, evRes, evExc, denToEv] at h1
          | boom => simpa [evRes, GoodRes, FlatRes] using h1
          | runtime => simpa [evRes, GoodRes, FlatRes] using h1
        | ok n =>
          refine ⟨?_, ?_, ?_⟩
          · simpa [evRes, ev_unwrapValue] using h1
          · simpa [GoodRes] using good_unwrapValue n h2
          · simpa [FlatRes] using flat_unwrapValue n
    | deferred => simp [resolveField, evRes, ev, evCont, denOut, GoodRes, Good, FlatRes, flat, ExecSt.submit]
    | nested => simp [resolveField, evRes, ev, evCont, denOut, GoodRes, Good, FlatRes, flat, ExecSt.submit]
end

/-! ### the serial routine and the full callback interpreter -/

def serialSpec (resolved : List (String × V)) (d : Option (List (String × V))) : EvR :=
  match d with
  | some kvs => .ok (.data (.obj (resolved ++ kvs)))
  | none => .fail

theorem serialNext_ev : ∀ (args : Flds) (path : Path) (resolved : List (String × V)) (s : ExecSt),
    evRes (serialNext path resolved args s).1 = serialSpec resolved (denFlds args) ∧
    GoodRes (serialNext path resolved args s).1 = true
  | .nil, path, resolved, s => by simp [serialNext, evRes, ev, serialSpec, denFlds, GoodRes, Good]
  | .cons key mode out args, path, resolved, s => by
    obtain ⟨h1, h2, h3⟩ := resolveField_ev out (path ++ [.key key]) mode s
    have ih := fun (v : V) => serialNext_ev args path (resolved ++ [(key, v)])
    simp only [serialNext]
    cases hr : resolveField (path ++ [.key key]) mode out s with
    | mk r s1 =>
      rw [hr] at h1 h2 h3
      cases r with
      | exc e =>
        simp only [evRes] at h1
        cases hd : denOut out with
        | some v => rw [hd] at h1; cases e <;> simp [evExc, denToEv] at h1
        | none =>
          rw [hd] at h1
          simp [evRes, GoodRes, denFlds_cons_none key mode out args (.inl hd), serialSpec, h1, denToEv]
      | ok n =>
        simp only [evRes] at h1
        cases hd : denOut out with
        | none =>
          rw [hd] at h1
          have hnone := denFlds_cons_none key mode out args (.inl hd)
          cases n with
          | val x => simp [ev, denToEv] at h1
          | _ => simp_all [evRes, ev, evCont, serialSpec, denToEv, GoodRes, Good, FlatRes]
        | some v =>
          rw [hd] at h1
          have hcons : denFlds (.cons key mode out args) = (denFlds args).map ((key, v) :: ·) := by
            simp only [denFlds, hd]; cases denFlds args <;> rfl
          cases n with
          | val x =>
            simp [ev, denToEv] at h1; subst h1
            obtain ⟨i1, i2⟩ := ih v s1
            refine ⟨?_, i2⟩
            rw [i1, hcons]
            cases denFlds args <;> simp [serialSpec]
          | _ =>
            simp only [evRes, ev, GoodRes, Good] at h1 h2 h3 ⊢
            simp only [FlatRes] at h3
            rw [hcons]
            cases hda : denFlds args <;> simp_all [evCont, serialSpec, denToEv, Good]

theorem applyCont_ok (k : Cont) : ApOK applyCont k := by
  intro r s
  cases k with
  | complete path =>
    cases r with
    | ok x =>
      cases x with
      | raw c =>
        obtain ⟨h1, h2, h3⟩ := completeValue_ev c path s
        simp only [applyCont]
        cases hr : completeValue path c s with
        | mk r' s1 =>
          rw [hr] at h1 h2 h3
          cases r' with
          | exc e =>
            cases e with
            | resolver => cases hd : denComp c <;> simp [hd, evRes, evExc, denToEv] at h1
            | boom => simp_all [evRes, evCont, evOfVal, GoodRes, simpleK]
            | runtime => simp_all [evRes, evCont, evOfVal, GoodRes, simpleK]
          | ok n => simp_all [evRes, evCont, evOfVal, GoodRes, simpleK]
      | data v => simp [applyCont, applySimple, evRes, ev, evCont, evOfVal, GoodRes, Good, simpleK]
      | junk => simp [applyCont, applySimple, evRes, ev, evCont, evOfVal, GoodRes, Good, simpleK]
    | exc e =>
      cases e <;> simp [applyCont, applySimple, failField, evRes, ev, evExc, evCont, evOfVal, GoodRes, Good, simpleK]
  | serialCb path key resolved args =>
    cases r with
    | ok x =>
      cases x with
      | data v =>
        obtain ⟨h1, h2⟩ := serialNext_ev args path (resolved ++ [(key, v)]) s
        refine ⟨?_, by simpa [applyCont] using h2, by simp [simpleK]⟩
        simp only [applyCont, h1, evOfVal, evCont]
        cases denFlds args <;> simp [serialSpec]
      | raw c => simp [applyCont, applySimple, evRes, ev, evCont, evOfVal, GoodRes, Good, simpleK]
      | junk => simp [applyCont, applySimple, evRes, ev, evCont, evOfVal, GoodRes, Good, simpleK]
    | exc e =>
      cases e <;> simp [applyCont, applySimple, evRes, evExc, evCont, evOfVal, GoodRes, simpleK]
  | collect keys => have := applySimple_ok (.collect keys) rfl r s; cases r <;> simpa [applyCont] using this
  | nonNull p => have := applySimple_ok (.nonNull p) rfl r s; cases r <;> simpa [applyCont] using this
  | onFinish => have := applySimple_ok .onFinish rfl r s; cases r <;> simpa [applyCont] using this

/-! ### completing a task preserves the eventual value -/

theorem simple_of_flat_chain (src : Node) (k : Cont) (h : flat (.chain src k) = true) : simpleK k = true := by
  cases k <;> simp_all [flat, simpleK]

mutual
theorem deliver_ev : ∀ (n : Node) (t : Nat) (s : ExecSt), Good n = true →
    ev (deliver applyCont t n s).1 = ev n ∧ Good (deliver applyCont t n s).1 = true ∧
    (flat n = true → flat (deliver applyCont t n s).1 = true)
  | .val x, t, s, h => by simp [deliver, h]
  | .done r, t, s, h => by simp [deliver, h]
  | .failed e, t, s, h => by simp [deliver, h]
  | .task id path nested out, t, s, h => by
    simp only [deliver]
    split
    · cases nested <;> cases out <;> simp [finishTask, ev, evExc, Good, flat, ExecSt.submit]
    · simp [ev, Good]
  | .chain src k, t, s, h => by
    simp only [Good, Bool.and_eq_true] at h
    obtain ⟨i1, i2, i3⟩ := deliver_ev src t s h.1
    simp only [deliver]
    cases hd : deliver applyCont t src s with
    | mk src' s1 =>
      rw [hd] at i1 i2 i3
      obtain ⟨c1, c2, c3⟩ := chainOnFinish_ev applyCont k (applyCont_ok k) src' s1 i2 (i3 h.2)
      refine ⟨?_, c2, fun hf => c3 (simple_of_flat_chain src k hf)⟩
      rw [c1]; simp only at i1; simp [ev, i1]
  | .unwrap src, t, s, h => by
    simp only [Good] at h
    obtain ⟨i1, i2, i3⟩ := deliver_ev src t s h
    simp only [deliver]
    cases hd : deliver applyCont t src s with
    | mk src' s1 =>
      rw [hd] at i1 i2 i3
      simp only at i1 i2
      exact ⟨by simp [ev_unwrapCb, ev, i1], good_unwrapCb _ i2, fun _ => flat_unwrapCb _⟩
  | .gather slots done target, t, s, h => by
    simp only [Good] at h
    obtain ⟨i1, i2, i3⟩ := deliverSlots_ev slots t s h
    simp only [deliver]
    cases hd : deliverSlots applyCont t slots s with
    | mk slots' rest =>
      cases rest with
      | mk fired s1 =>
        rw [hd] at i1 i2 i3
        simp only at i1 i2 i3
        obtain ⟨g1, g2, g3⟩ := gatherAfter_ev slots' done target fired i2 i3
        simp only []
        cases hgf : gatherFires done target slots' fired with
        | mk d o =>
          cases o with
          | some outer =>
            have hga : gatherAfter slots' done target fired = outer := by unfold gatherAfter; rw [hgf]
            rw [hga] at g1 g2 g3
            exact ⟨by simp only []; rw [g1, i1]; simp [ev], g2, fun _ => g3⟩
          | none =>
            have hga : gatherAfter slots' done target fired = .gather slots' d target := by unfold gatherAfter; rw [hgf]
            rw [hga] at g1 g2 g3
            exact ⟨by simp only []; rw [g1, i1]; simp [ev], g2, fun _ => g3⟩
theorem deliverSlots_ev : ∀ (ns : Nodes) (t : Nat) (s : ExecSt), GoodSlots ns = true →
    evSlots (deliverSlots applyCont t ns s).1 = evSlots ns ∧ GoodSlots (deliverSlots applyCont t ns s).1 = true ∧
    (∀ e, Except.error e ∈ (deliverSlots applyCont t ns s).2.1 → Node.failed e ∈ (deliverSlots applyCont t ns s).1.toList)
  | .nil, t, s, h => by simp [deliverSlots, evSlots, GoodSlots]
  | .cons n ns, t, s, h => by
    simp only [GoodSlots, Bool.and_eq_true, Bool.not_eq_true'] at h
    obtain ⟨⟨⟨hg, hf⟩, hr⟩, hgs⟩ := h
    obtain ⟨i1, i2, i3⟩ := deliver_ev n t s hg
    simp only [deliverSlots]
    cases hd : deliver applyCont t n s with
    | mk n' s1 =>
      rw [hd] at i1 i2 i3
      obtain ⟨j1, j2, j3⟩ := deliverSlots_ev ns t s1 hgs
      cases hd2 : deliverSlots applyCont t ns s1 with
      | mk ns' rest =>
        cases rest with
        | mk fired s2 =>
          rw [hd2] at j1 j2 j3
          simp only at i1 i2 i3 j1 j2 j3 ⊢
          refine ⟨by simp [evSlots, i1, j1], ?_, ?_⟩
          · simp [GoodSlots, i2, i3 hf, i1, hr, j2]
          · intro e he
            simp only [List.mem_append] at he
            rcases he with he | he
            · split at he
              · cases n' <;> simp [slotResult] at he
                subst he; simp [Nodes.toList]
              · simp at he
            · simp [Nodes.toList]; right; exact j3 e he
end

/-! ### schedules -/

structure TopInv (top : Node) (d : EvR) : Prop where
  ev_eq : ev top = d
  good : Good top = true
  isFlat : flat top = true

theorem stepSched_inv (top : Node) (s : ExecSt) (i : Nat) (d : EvR) (h : TopInv top d) :
    TopInv (stepSched top s i).1 d := by
  unfold stepSched
  simp only
  split
  · exact h
  · rename_i t _
    obtain ⟨h1, h2, h3⟩ := deliver_ev top t { s with queue := removeAt s.queue (i % s.queue.length) } h.good
    exact ⟨by rw [h1, h.ev_eq], h2, h3 h.isFlat⟩

theorem runSched_inv (d : EvR) : ∀ (sched : List Nat) (top : Node) (s : ExecSt) (sizes : List Nat),
    TopInv top d → TopInv (runSched top s sizes sched).top d
  | [], top, s, sizes, h => by simpa [runSched] using h
  | i :: rest, top, s, sizes, h => by
    simp only [runSched]
    split
    · exact h
    · have := stepSched_inv top s i d h
      cases hs : stepSched top s i with
      | mk top' s' =>
        rw [hs] at this
        exact runSched_inv d rest top' s' _ this

/-- the eventual value of the whole operation, as given by the specification -/
def opSpec (op : Op) : EvR := denToEv ((denFlds op.fields).map .obj)

theorem executeFields_eq (path : Path) (fields : Flds) (s : ExecSt) :
    executeFields path fields s = completeValue path (.obj fields) s := by
  simp [executeFields, completeValue]

theorem execute_inv (op : Op) (s : ExecSt) :
    match (execute op s).1 with
    | .exc e => evExc e = opSpec op
    | .ok top => TopInv top (opSpec op) := by
  have hbase : ∀ (r : Res Node × ExecSt), evRes r.1 = opSpec op → GoodRes r.1 = true →
      (match r.1 with | .ok n => flat (unwrapValue n) = true | .exc _ => True) →
      match (match r with
        | (.exc e, s1) => ((.exc e : Res Node), s1)
        | (.ok n, s1) => mapValue applyCont (unwrapValue n) .onFinish s1).1 with
      | .exc e => evExc e = opSpec op
      | .ok top => TopInv top (opSpec op) := by
    intro r h1 h2 _
    cases r with
    | mk r s1 =>
      cases r with
      | exc e => simpa [evRes] using h1
      | ok n =>
        simp only [evRes, GoodRes] at h1 h2
        obtain ⟨m1, m2, m3⟩ := mapValue_ev applyCont .onFinish (applyCont_ok _) (unwrapValue n) s1
          (good_unwrapValue n h2) (flat_unwrapValue n)
        simp only
        cases hm : mapValue applyCont (unwrapValue n) .onFinish s1 with
        | mk r2 s2 =>
          rw [hm] at m1 m2 m3
          rw [ev_unwrapValue, h1] at m1
          have hspec : evCont .onFinish (opSpec op) = opSpec op := by
            unfold opSpec; cases (denFlds op.fields) <;> simp [denToEv, evCont]
          rw [hspec] at m1
          cases r2 with
          | exc e => simpa [evRes] using m1
          | ok top => exact ⟨by simpa [evRes] using m1, by simpa [GoodRes] using m2, by simpa [FlatRes] using m3 rfl⟩
  unfold execute
  cases hk : op.kind with
  | query =>
    simp only
    obtain ⟨h1, h2, h3⟩ := completeValue_ev (.obj op.fields) [] s
    rw [← executeFields_eq] at h1 h2 h3
    apply hbase (executeFields [] op.fields s)
    · rw [h1]; simp only [denComp, opSpec]; cases denFlds op.fields <;> rfl
    · exact h2
    · cases (executeFields [] op.fields s).1 <;> simp [flat_unwrapValue]
  | mutation =>
    simp only
    obtain ⟨h1, h2⟩ := serialNext_ev op.fields [] [] s
    apply hbase (executeFieldsSerially [] op.fields s)
    · unfold executeFieldsSerially; rw [h1]; simp only [serialSpec, opSpec]; cases denFlds op.fields <;> simp [denToEv]
    · exact h2
    · cases (executeFieldsSerially [] op.fields s).1 <;> simp [flat_unwrapValue]

/-! ### the blocking executor computes the specification -/

def resOpt {α : Type} : Res α → Option α
  | .ok a => some a
  | .exc _ => none

mutual
theorem blockComp_den : ∀ (c : Comp) (path : Path) (s : ExecSt), resOpt (blockComp path c s).1 = denComp c
  | .null, path, s => by simp [blockComp, denComp, resOpt]
  | .leaf v, path, s => by simp [blockComp, denComp, resOpt]
  | .bad, path, s => by simp [blockComp, denComp, resOpt]
  | .nonNull c, path, s => by
    have ih := blockComp_den c path s
    simp only [blockComp, denComp]
    cases hr : blockComp path c s with
    | mk r s1 => rw [hr] at ih; cases r <;> simpa [resOpt] using ih
  | .list items, path, s => by
    have ih := blockItems_den items path 0 s
    simp only [blockComp, denComp]
    cases hr : blockItems path 0 items s with
    | mk r s1 => rw [hr] at ih; cases r <;> simp [resOpt] at ih ⊢ <;> simp [← ih]
  | .obj fields, path, s => by
    have ih := blockFields_den fields path s
    simp only [blockComp, denComp]
    cases hr : blockFields path fields s with
    | mk r s1 => rw [hr] at ih; cases r <;> simp [resOpt] at ih ⊢ <;> simp [← ih]
theorem blockItems_den : ∀ (cs : Comps) (path : Path) (i : Nat) (s : ExecSt), resOpt (blockItems path i cs s).1 = denItems cs
  | .nil, path, i, s => by simp [blockItems, denItems, resOpt]
  | .cons c cs, path, i, s => by
    have ih1 := blockComp_den c (path ++ [.idx i]) s
    have ih2 := fun s1 => blockItems_den cs path (i + 1) s1
    simp only [blockItems, denItems]
    cases hr : blockComp (path ++ [.idx i]) c s with
    | mk r s1 =>
      rw [hr] at ih1
      cases r with
      | exc e => simp [resOpt] at ih1 ⊢; simp [← ih1]
      | ok v =>
        have ih2 := ih2 s1
        simp only [resOpt] at ih1
        simp only []
        cases hr2 : blockItems path (i + 1) cs s1 with
        | mk r2 s2 => rw [hr2] at ih2; cases r2 <;> simp [resOpt] at ih2 ⊢ <;> simp [← ih1, ← ih2]
theorem blockFields_den : ∀ (fs : Flds) (path : Path) (s : ExecSt), resOpt (blockFields path fs s).1 = denFlds fs
  | .nil, path, s => by simp [blockFields, denFlds, resOpt]
  | .cons key mode out rest, path, s => by
    have ih1 := blockField_den out (path ++ [.key key]) s
    have ih2 := fun s1 => blockFields_den rest path s1
    simp only [blockFields, denFlds]
    cases hr : blockField (path ++ [.key key]) out s with
    | mk r s1 =>
      rw [hr] at ih1
      cases r with
      | exc e => simp [resOpt] at ih1 ⊢; simp [← ih1]
      | ok v =>
        have ih2 := ih2 s1
        simp only [resOpt] at ih1
        simp only []
        cases hr2 : blockFields path rest s1 with
        | mk r2 s2 => rw [hr2] at ih2; cases r2 <;> simp [resOpt] at ih2 ⊢ <;> simp [← ih1, ← ih2]
theorem blockField_den : ∀ (out : ROut) (p : Path) (s : ExecSt), resOpt (blockField p out s).1 = denOut out
  | .rerr, p, s => by simp [blockField, denOut, resOpt]
  | .exc, p, s => by simp [blockField, denOut, resOpt]
  | .ok c, p, s => by simpa [blockField, denOut] using blockComp_den c p _
end

end PyGql.Exec

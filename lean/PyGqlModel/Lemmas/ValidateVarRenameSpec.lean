/-
  Renaming of variables (`Vr`, Lemmas/ValidateVarRename.lean) and the SPECIFICATION side: the nodes of the renamed
  document are the renamed nodes (in the same order), the variables used by a definition are the renamed variables, the
  spread graph is untouched.
-/
import PyGqlModel.Lemmas.ValidateVarRename
import PyGqlModel.Spec.ValidSpecVars
namespace PyGql.Validate
open PyGql PyGql.Validate.Spec

theorem flatMap_congr' {α β : Type} {f g : α → List β} : ∀ (l : List α), (∀ a ∈ l, f a = g a) → l.flatMap f = l.flatMap g
  | [], _ => rfl
  | a :: l, h => by
    simp only [List.flatMap_cons, h a (List.mem_cons_self ..), flatMap_congr' l (fun b hb => h b (List.mem_cons_of_mem _ hb))]

section
variable (V : Vr)

mutual
theorem valueNodes_vr : ∀ v : Value, valueNodes (V.value v) = (valueNodes v).map V.node
  | .list vs => by simp only [Vr.value, valueNodes, List.map_cons, valuesNodes_vr vs]; rfl
  | .obj fs => by simp only [Vr.value, valueNodes, List.map_cons, objFieldsNodes_vr fs]; rfl
  | .var x => rfl
  | .int x => rfl
  | .float x => rfl
  | .str x => rfl
  | .bool x => rfl
  | .null => rfl
  | .enum x => rfl
theorem valuesNodes_vr : ∀ vs : List Value, valuesNodes (V.values vs) = (valuesNodes vs).map V.node
  | [] => rfl
  | v :: vs => by simp only [Vr.values, valuesNodes, List.map_append, valueNodes_vr v, valuesNodes_vr vs]
theorem objFieldNodes_vr : ∀ f : ObjField, objFieldNodes (V.objField f) = (objFieldNodes f).map V.node
  | .mk n v => by simp only [Vr.objField, objFieldNodes, List.map_cons, valueNodes_vr v]; rfl
theorem objFieldsNodes_vr : ∀ fs : List ObjField, objFieldsNodes (V.objFields fs) = (objFieldsNodes fs).map V.node
  | [] => rfl
  | f :: fs => by simp only [Vr.objFields, objFieldsNodes, List.map_append, objFieldNodes_vr f, objFieldsNodes_vr fs]
end

theorem argsNodes_vr (as : List Arg) : argsNodes (as.map V.arg) = (argsNodes as).map V.node := by
  induction as with
  | nil => rfl
  | cons a as ih =>
    simp only [argsNodes, List.map_cons, List.flatMap_cons, List.map_append] at ih ⊢
    rw [ih]
    simp only [argNodes, Vr.arg, List.map_cons, valueNodes_vr]
    rfl

theorem dirsNodes_vr (ds : List Dir) : dirsNodes (ds.map V.dir) = (dirsNodes ds).map V.node := by
  induction ds with
  | nil => rfl
  | cons a as ih =>
    simp only [dirsNodes, List.map_cons, List.flatMap_cons, List.map_append] at ih ⊢
    rw [ih]
    simp only [dirNodes, Vr.dir, List.map_cons, argsNodes_vr]
    rfl

mutual
theorem selNodes_vr : ∀ x : Sel, selNodes (V.sel x) = (selNodes x).map V.node
  | .field al n args dirs true id sub => by
    simp only [Vr.sel, selNodes, ↓reduceIte, List.map_cons, List.map_append, argsNodes_vr, dirsNodes_vr, selsNodes_vr sub]
    rfl
  | .field al n args dirs false id sub => by
    simp only [Vr.sel, selNodes, Bool.false_eq_true, ↓reduceIte, List.map_cons, List.map_append, argsNodes_vr, dirsNodes_vr,
      List.map_nil]
    rfl
  | .spread n dirs => by simp only [Vr.sel, selNodes, List.map_cons, dirsNodes_vr]; rfl
  | .inline on dirs id sub => by
    simp only [Vr.sel, selNodes, List.map_cons, List.map_append, dirsNodes_vr, selsNodes_vr sub]; rfl
theorem selsNodes_vr : ∀ xs : List Sel, selsNodes (V.selList xs) = (selsNodes xs).map V.node
  | [] => rfl
  | x :: xs => by simp only [Vr.selList, selsNodes, List.map_append, selNodes_vr x, selsNodes_vr xs]
end

theorem varDefsNodes_vr (vars : List VarDef) :
    (vars.map V.varDef).flatMap varDefNodes = (vars.flatMap varDefNodes).map V.node := by
  induction vars with
  | nil => rfl
  | cons v vs ih =>
    simp only [List.map_cons, List.flatMap_cons, List.map_append, ih]
    congr 1
    obtain ⟨nm, ty, df, ds⟩ := v
    cases df with
    | none => simp only [varDefNodes, Vr.varDef, List.map_cons, List.map_append, Option.map_none, dirsNodes_vr]; rfl
    | some dv =>
      simp only [varDefNodes, Vr.varDef, List.map_cons, List.map_append, Option.map_some, valueNodes_vr, dirsNodes_vr]; rfl

/-- **the nodes of the renamed definition are the renamed nodes of the definition, in the same order** -/
theorem defNodes_vr (x : Def) : defNodes (V.defn x) = (defNodes x).map V.node := by
  cases x with
  | op k nm vars dirs id sels =>
    simp only [Vr.defn, defNodes, List.map_cons, List.map_append, varDefsNodes_vr, dirsNodes_vr, selsNodes_vr]; rfl
  | frag n on dirs id sels =>
    simp only [Vr.defn, defNodes, List.map_cons, List.map_append, dirsNodes_vr, selsNodes_vr]; rfl
  | ts a b => rfl

mutual
theorem varsOfValue_vr : ∀ v : Value, varsOfValue (V.value v) = (varsOfValue v).map V.var
  | .list vs => by simp only [Vr.value, varsOfValue, varsOfValues_vr vs]
  | .obj fs => by simp only [Vr.value, varsOfValue, varsOfObjFields_vr fs]
  | .var x => rfl
  | .int x => rfl
  | .float x => rfl
  | .str x => rfl
  | .bool x => rfl
  | .null => rfl
  | .enum x => rfl
theorem varsOfValues_vr : ∀ vs : List Value, varsOfValues (V.values vs) = (varsOfValues vs).map V.var
  | [] => rfl
  | v :: vs => by simp only [Vr.values, varsOfValues, List.map_append, varsOfValue_vr v, varsOfValues_vr vs]
theorem varsOfObjFields_vr : ∀ fs : List ObjField, varsOfObjFields (V.objFields fs) = (varsOfObjFields fs).map V.var
  | [] => rfl
  | .mk n v :: fs => by
    simp only [Vr.objFields, Vr.objField, varsOfObjFields, List.map_append, varsOfValue_vr v, varsOfObjFields_vr fs]
end

theorem defVarUses_vr (x : Def) : defVarUses (V.defn x) = (defVarUses x).map V.var := by
  simp only [defVarUses, defNodes_vr, List.flatMap_map, List.map_flatMap]
  refine flatMap_congr' _ fun n _ => ?_
  cases n <;> simp [Vr.node, Vr.arg, varsOfValue_vr]

theorem defSpreads_vr (x : Def) : defSpreads (V.defn x) = defSpreads x := by
  simp only [defSpreads, defNodes_vr, List.flatMap_map]
  refine flatMap_congr' _ fun n _ => ?_
  cases n <;> simp [Vr.node]

theorem vr_opKey (x : Def) : (V.defn x).opKey? = x.opKey? := by cases x <;> rfl
theorem vr_fragName (x : Def) : (V.defn x).fragName? = x.fragName? := by cases x <;> rfl
theorem vr_vars (x : Def) : (V.defn x).vars = x.vars.map V.varDef := by cases x <;> rfl
theorem vr_vars_names (x : Def) : (V.defn x).vars.map (·.name) = (x.vars.map (·.name)).map V.var := by
  rw [vr_vars]; simp [List.map_map, Function.comp_def, Vr.varDef]

end

/-! ### the relations of `Spec/ValidSpecVars.lean` -/
section
variable (V : Vr) (d : Doc)

theorem mem_defs_vr (P : Def → Prop) : (∃ df ∈ (V.doc d).defs, P df) ↔ ∃ a ∈ d.defs, P (V.defn a) := by
  simp only [Vr.doc, List.mem_map]
  exact ⟨fun ⟨_, ⟨a, ha, e⟩, hp⟩ => ⟨a, ha, e ▸ hp⟩, fun ⟨a, ha, hp⟩ => ⟨_, ⟨a, ha, rfl⟩, hp⟩⟩

theorem definedIn_vr (o x' : String) : DefinedIn (V.doc d) o x' ↔ ∃ x, x' = V.var x ∧ DefinedIn d o x := by
  unfold DefinedIn
  rw [mem_defs_vr]
  simp only [vr_opKey, vr_vars_names, List.mem_map]
  constructor
  · rintro ⟨a, ha, hk, x, hx, rfl⟩; exact ⟨x, rfl, a, ha, hk, hx⟩
  · rintro ⟨x, rfl, a, ha, hk, hx⟩; exact ⟨a, ha, hk, x, hx, rfl⟩

theorem usedDirectly_vr (o x' : String) : UsedDirectly (V.doc d) o x' ↔ ∃ x, x' = V.var x ∧ UsedDirectly d o x := by
  unfold UsedDirectly
  rw [mem_defs_vr]
  simp only [vr_opKey, defVarUses_vr, List.mem_map]
  constructor
  · rintro ⟨a, ha, hk, x, hx, rfl⟩; exact ⟨x, rfl, a, ha, hk, hx⟩
  · rintro ⟨x, rfl, a, ha, hk, hx⟩; exact ⟨a, ha, hk, x, hx, rfl⟩

theorem fragUses_vr (f x' : String) : FragUses (V.doc d) f x' ↔ ∃ x, x' = V.var x ∧ FragUses d f x := by
  unfold FragUses
  rw [mem_defs_vr]
  simp only [vr_fragName, defVarUses_vr, List.mem_map]
  constructor
  · rintro ⟨a, ha, hk, x, hx, rfl⟩; exact ⟨x, rfl, a, ha, hk, hx⟩
  · rintro ⟨x, rfl, a, ha, hk, hx⟩; exact ⟨a, ha, hk, x, hx, rfl⟩

theorem opSpreads_vr (o g : String) : OpSpreads (V.doc d) o g ↔ OpSpreads d o g := by
  unfold OpSpreads
  rw [mem_defs_vr]
  simp only [vr_opKey, defSpreads_vr]

theorem fragSpreads_vr (f g : String) : FragSpreads (V.doc d) f g ↔ FragSpreads d f g := by
  unfold FragSpreads
  rw [mem_defs_vr]
  simp only [vr_fragName, defSpreads_vr]

theorem fragReach_vr (f g : String) : FragReach (V.doc d) f g ↔ FragReach d f g := by
  constructor
  · intro h
    induction h with
    | refl f => exact .refl f
    | step hs _ ih => exact .step ((fragSpreads_vr V d _ _).mp hs) ih
  · intro h
    induction h with
    | refl f => exact .refl f
    | step hs _ ih => exact .step ((fragSpreads_vr V d _ _).mpr hs) ih

theorem opReaches_vr (o f : String) : OpReaches (V.doc d) o f ↔ OpReaches d o f := by
  unfold OpReaches
  simp only [opSpreads_vr, fragReach_vr]

theorem usedIn_vr (o x' : String) : UsedIn (V.doc d) o x' ↔ ∃ x, x' = V.var x ∧ UsedIn d o x := by
  unfold UsedIn
  simp only [usedDirectly_vr, opReaches_vr, fragUses_vr]
  constructor
  · rintro (⟨x, rfl, h⟩ | ⟨f, hf, x, rfl, h⟩)
    · exact ⟨x, rfl, Or.inl h⟩
    · exact ⟨x, rfl, Or.inr ⟨f, hf, h⟩⟩
  · rintro ⟨x, rfl, h | ⟨f, hf, h⟩⟩
    · exact Or.inl ⟨x, rfl, h⟩
    · exact Or.inr ⟨f, hf, x, rfl, h⟩

end

/-- **the clause of 5.8.3 under an injective renaming of variables** -/
theorem no_undefined_variables_spec_vr (V : Vr) (hinj : ∀ a b, V.var a = V.var b → a = b) (d : Doc) :
    Spec.noUndefinedVariables (V.doc d) ↔ Spec.noUndefinedVariables d := by
  unfold Spec.noUndefinedVariables
  simp only [usedIn_vr, definedIn_vr]
  constructor
  · intro h o x hu
    obtain ⟨y, e, hy⟩ := h o (V.var x) ⟨x, rfl, hu⟩
    rwa [hinj _ _ e]
  · rintro h o _ ⟨x, rfl, hu⟩
    exact ⟨x, rfl, h o x hu⟩

/-- **the clause of 5.8.4 under an injective renaming of variables** -/
theorem no_unused_variables_spec_vr (V : Vr) (hinj : ∀ a b, V.var a = V.var b → a = b) (d : Doc) :
    Spec.noUnusedVariables (V.doc d) ↔ Spec.noUnusedVariables d := by
  unfold Spec.noUnusedVariables
  simp only [usedIn_vr, definedIn_vr]
  constructor
  · intro h o x hu
    obtain ⟨y, e, hy⟩ := h o (V.var x) ⟨x, rfl, hu⟩
    rwa [hinj _ _ e]
  · rintro h o _ ⟨x, rfl, hu⟩
    exact ⟨x, rfl, h o x hu⟩

end PyGql.Validate

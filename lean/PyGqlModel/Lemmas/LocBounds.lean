/-
  C10 — helper lemmas for `loc_bounds`: the loop of `index_to_loc` against the line structure
  of the specification (`splitLines`), by induction over the text.
-/
import PyGqlModel.Response
import PyGqlModel.Spec.ResponseSpec

namespace PyGql.Lemmas.LocBounds
open PyGql PyGql.Response PyGql.Spec.Response

theorem splitLines_ne_nil (t : Text) : splitLines t ≠ [] := by
  induction t with
  | nil => simp [splitLines]
  | cons c rest ih =>
    unfold splitLines
    split
    · simp
    · split
      · split
        · exact ih
        · simp
      · split <;> simp

theorem splitLines_length_pos (t : Text) : 1 ≤ (splitLines t).length := by
  have := splitLines_ne_nil t
  cases h : splitLines t with
  | nil => exact absurd h this
  | cons a b => simp

/-- the generalised invariant of the loop -/
theorem loop_bounds (rest : Text) : ∀ (p lines cols : Nat), p ≤ rest.length →
    lines + 1 ≤ (indexToLocLoop rest p lines cols).1 ∧
    (indexToLocLoop rest p lines cols).1 - lines ≤ (splitLines rest).length ∧
    1 ≤ (indexToLocLoop rest p lines cols).2 ∧
    ((indexToLocLoop rest p lines cols).1 = lines + 1 →
      (indexToLocLoop rest p lines cols).2 ≤ cols + ((splitLines rest).getD 0 []).length + 1) ∧
    ((indexToLocLoop rest p lines cols).1 ≠ lines + 1 →
      (indexToLocLoop rest p lines cols).2 ≤
        ((splitLines rest).getD ((indexToLocLoop rest p lines cols).1 - lines - 1) []).length + 1) := by
  induction rest with
  | nil =>
    intro p lines cols _
    simp [indexToLocLoop, splitLines]
  | cons c rest ih =>
    intro p lines cols hp
    have hpos := splitLines_length_pos (c :: rest)
    cases p with
    | zero =>
      simp only [indexToLocLoop]
      refine ⟨by omega, by omega, by omega, fun _ => by omega, fun h => absurd rfl h⟩
    | succ p =>
      have hp' : p ≤ rest.length := by simpa using hp
      by_cases h10 : c = 10
      · -- LF
        subst h10
        have := ih p (lines + 1) 0 hp'
        simp only [indexToLocLoop, splitLines, if_true]
        generalize indexToLocLoop rest p (lines + 1) 0 = r at this ⊢
        obtain ⟨a1, a2, a3, a4, a5⟩ := this
        refine ⟨by omega, by simp; omega, a3, fun h => by omega, fun _ => ?_⟩
        by_cases hr : r.1 = lines + 1 + 1
        · have := a4 hr
          have e : r.1 - lines - 1 = 1 := by omega
          rw [e]; simpa using this
        · have := a5 hr
          have e : r.1 - lines - 1 = (r.1 - (lines + 1) - 1) + 1 := by omega
          rw [e]; simpa using this
      · by_cases h13 : c = 13
        · subst h13
          by_cases hn : rest.head? = some 10
          · -- CR of a CRLF pair
            have := ih p lines cols hp'
            simp only [indexToLocLoop, splitLines, hn, if_true]
            simpa using this
          · -- lone CR
            have := ih p (lines + 1) 0 hp'
            simp only [indexToLocLoop, splitLines, hn, if_false]
            simp only [show ¬ ((13 : Nat) = 10) by decide, if_false, if_true]
            generalize indexToLocLoop rest p (lines + 1) 0 = r at this ⊢
            obtain ⟨a1, a2, a3, a4, a5⟩ := this
            refine ⟨by omega, by simp; omega, a3, fun h => by omega, fun _ => ?_⟩
            by_cases hr : r.1 = lines + 1 + 1
            · have := a4 hr
              have e : r.1 - lines - 1 = 1 := by omega
              rw [e]; simpa using this
            · have := a5 hr
              have e : r.1 - lines - 1 = (r.1 - (lines + 1) - 1) + 1 := by omega
              rw [e]; simpa using this
        · -- ordinary character
          have := ih p lines (cols + 1) hp'
          simp only [indexToLocLoop, h10, h13, if_false]
          generalize indexToLocLoop rest p lines (cols + 1) = r at this ⊢
          obtain ⟨a1, a2, a3, a4, a5⟩ := this
          have hs : splitLines (c :: rest) = (c :: (splitLines rest).getD 0 []) :: (splitLines rest).tail := by
            have hne := splitLines_ne_nil rest
            rw [splitLines]
            simp only [h10, h13, if_false]
            cases hsr : splitLines rest with
            | nil => exact absurd hsr hne
            | cons l ls => simp
          have hlen : (splitLines (c :: rest)).length = (splitLines rest).length := by
            rw [hs]
            have hne := splitLines_ne_nil rest
            cases hsr : splitLines rest with
            | nil => exact absurd hsr hne
            | cons l ls => simp
          refine ⟨a1, by omega, a3, fun h => ?_, fun h => ?_⟩
          · have := a4 h
            rw [hs]; simp only [List.getD_cons_zero, List.length_cons]; omega
          · have := a5 h
            have e : r.1 - lines - 1 = (r.1 - lines - 1 - 1) + 1 := by omega
            rw [hs, e]
            rw [e] at this
            cases hsr : splitLines rest with
            | nil => exact absurd hsr (splitLines_ne_nil rest)
            | cons l ls => rw [hsr] at this; simpa using this

end PyGql.Lemmas.LocBounds

/-
  THE MEMOISED SEARCH NEVER LOSES A REPORT, part 5: frames of the (field map, fragment, flag) memo - every search
  function only adds to it; `_conflicts_between_fields_and_fragment` keeps "every compared name is undefined or has its
  triple in the memo" (`CmpOK`) - and the postcondition of `_conflicts_between_fields_and_fragment` WITH the memo: a hit
  returns at once, and is covered; a miss inserts the triple, whose closure (`FOblM`) the comparison then establishes
  (or, when the fragment's body is the selection set itself - `field_map is fragment_field_map` - nothing: the guard of
  `FOblM`; no acyclicity / `Apart` hypothesis anywhere).
-/
import PyGqlModel.Lemmas.ValidateOverlapMPost4
namespace PyGql.Validate
open PyGql PyGql.Validate.Spec

/-- the triples memo only grows -/
def FL (a b : OCtx) : Prop := ∀ k ∈ a.ffp, k ∈ b.ffp

theorem FL.refl (a : OCtx) : FL a a := fun _ h => h
theorem FL.trans {a b c : OCtx} (h1 : FL a b) (h2 : FL b c) : FL a c := fun k h => h2 k (h1 k h)

theorem sumLoop_FL {α} (xs : List α) (f : α → OCtx → Nat × OCtx) (hf : ∀ x ∈ xs, ∀ c, FL c (f x c).2) (c : OCtx) :
    FL c (sumLoop xs f c).2 :=
  sumLoop_inv xs f FL FL.refl (fun _ _ _ h1 h2 => h1.trans h2) hf c

theorem ff_FL (s : SchemaD) (p : Option String) (i : Nat) (sels : List Sel) (c : OCtx) :
    FL c (fieldsAndFragments s p i sels c).2 := fun k h => by rw [ff_ffp]; exact h

theorem withFreshCmp_FL (f : OCtx → Nat × OCtx) (c : OCtx) (h : FL { c with cmp := [] } (f { c with cmp := [] }).2) :
    FL c (withFreshCmp f c).2 := h

section
variable (s : SchemaD) (fx : Fixes)

def FFindM (fuel : Nat) : Prop := ∀ pme f1 f2 c, FL c (findConflictM s fx fuel pme f1 f2 c).2
def FCbM (fuel : Nat) : Prop := ∀ me fm1 fm2 c, FL c (conflictsBetweenM s fx fuel me fm1 fm2 c).2
def FFrM (fuel : Nat) : Prop := ∀ me of1 of2 c, FL c (betweenFragmentsM s fx fuel me of1 of2 c).2
def FSsM (fuel : Nat) : Prop :=
  ∀ me p1 id1 sels1 p2 id2 sels2 c, FL c (betweenSubselectionsM s fx fuel me p1 id1 sels1 p2 id2 sels2 c).2
def FFfM (fuel : Nat) : Prop := ∀ me ssid fm name c, FL c (betweenFieldsAndFragmentM s fx fuel me ssid fm name c).2

theorem ffp_framesM (h7 : fx.v7 = true) : ∀ fuel,
    FFindM s fx fuel ∧ FCbM s fx fuel ∧ FFrM s fx fuel ∧ FSsM s fx fuel ∧ FFfM s fx fuel := by
  intro fuel
  induction fuel with
  | zero =>
    refine ⟨?_, ?_, ?_, ?_, ?_⟩
    · intro pme f1 f2 c; simp only [findConflictM]; exact fun _ h => h
    · intro me fm1 fm2 c; simp only [conflictsBetweenM]; exact fun _ h => h
    · intro me of1 of2 c; simp only [betweenFragmentsM]; exact fun _ h => h
    · intro me p1 id1 sels1 p2 id2 sels2 c; simp only [betweenSubselectionsM]; exact fun _ h => h
    · intro me ssid fm name c; simp only [betweenFieldsAndFragmentM]; exact fun _ h => h
  | succ fuel ih =>
    obtain ⟨i1, i2, i3, i4, i5⟩ := ih
    refine ⟨?_, ?_, ?_, ?_, ?_⟩
    · intro pme f1 f2 c
      simp only [findConflictM]
      repeat' split
      all_goals first | exact fun _ h => h | exact i4 _ _ _ _ _ _ _ c
    · intro me fm1 fm2 c
      simp only [conflictsBetweenM]
      apply sumLoop_FL
      intro q _ c
      split
      · exact FL.refl _
      · apply sumLoop_FL
        intro f1 _ c
        apply sumLoop_FL
        intro f2 _ c
        exact i1 me f1 f2 c
    · intro me of1 of2 c
      cases of1 with
      | none => simp only [betweenFragmentsM]; exact FL.refl _
      | some f1 =>
        cases of2 with
        | none => simp only [betweenFragmentsM]; exact FL.refl _
        | some f2 =>
          simp only [betweenFragmentsM, h7, ↓reduceIte]
          split
          · exact FL.refl _
          · split
            · exact FL.refl _
            · split
              · rename_i on1 id1 sels1 on2 id2 sels2 _ _
                refine FL.trans ?_ (sumLoop_FL _ _ (fun fr _ c => i3 me (some f1) (some fr) c) _)
                refine FL.trans ?_ (sumLoop_FL _ _ (fun fr _ c => i3 me (some fr) (some f2) c) _)
                refine FL.trans ?_ (i2 _ _ _ _)
                refine FL.trans ?_ (ff_FL s _ id2 sels2 _)
                refine FL.trans ?_ (ff_FL s _ id1 sels1 _)
                exact fun _ h => h
              · exact fun _ h => h
    · intro me p1 id1 sels1 p2 id2 sels2 c
      simp only [betweenSubselectionsM]
      refine FL.trans ?_ (sumLoop_FL _ _ (fun f1 _ c => sumLoop_FL _ _ (fun f2 _ c => i3 me (some f1) (some f2) c) c) _)
      refine FL.trans ?_ (sumLoop_FL _ _ (fun fr _ c => withFreshCmp_FL _ c (i5 me id2 _ fr _)) _)
      refine FL.trans ?_ (sumLoop_FL _ _ (fun fr _ c => withFreshCmp_FL _ c (i5 me id1 _ fr _)) _)
      refine FL.trans ?_ (i2 _ _ _ _)
      refine FL.trans ?_ (ff_FL s p2 id2 sels2 _)
      exact ff_FL s p1 id1 sels1 _
    · intro me ssid fm name c
      simp only [betweenFieldsAndFragmentM]
      split
      · exact FL.refl _
      · split
        · exact fun _ h => h
        · rename_i on fid fsels _
          split
          · exact fun _ h => h
          · split
            · refine FL.trans ?_ (ff_FL s _ fid fsels _)
              exact fun _ h => List.mem_cons_of_mem _ h
            · refine FL.trans ?_ (sumLoop_FL _ _ (fun fr _ c => i5 me ssid fm fr c) _)
              refine FL.trans ?_ (i2 _ _ _ _)
              refine FL.trans ?_ (ff_FL s _ fid fsels _)
              exact fun _ h => List.mem_cons_of_mem _ h

end

theorem CmpOK.mono {d : Doc} {a b : OCtx} {ssid : Nat} {me : Bool} (h : CmpOK d a ssid me) (hc : b.cmp = a.cmp)
    (hf : FL a b) : CmpOK d b ssid me := fun n hn => by
  rw [hc] at hn
  rcases h n hn with h | h
  · exact Or.inl h
  · exact Or.inr (hf _ h)

section
variable (s : SchemaD) (fx : Fixes) (d : Doc)

theorem CI.ffp {c : OCtx} (h : CI s d c) (x : List (Nat × String × Bool)) : CI s d { c with ffp := x } :=
  ⟨h.frags, h.cache⟩

/-- `_conflicts_between_fields_and_fragment` keeps `CmpOK` (crash or not) -/
theorem cmpOK_frame (h7 : fx.v7 = true) : ∀ fuel me ssid fm name c, CI s d c → EntOK (fun _ e => Ent s d e) fm →
    CmpOK d c ssid me → CmpOK d (betweenFieldsAndFragmentM s fx fuel me ssid fm name c).2 ssid me := by
  intro fuel
  induction fuel with
  | zero => intro me ssid fm name c _ _ h; simp only [betweenFieldsAndFragmentM]; exact h
  | succ fuel ih =>
    obtain ⟨_, scb, sff, _, _⟩ := searchM_sound s fx d h7 fuel
    obtain ⟨_, kcb, _, _, _⟩ := cmp_framesM s fx h7 fuel
    obtain ⟨_, fcb, _, _, _⟩ := ffp_framesM s fx h7 fuel
    intro me ssid fm name c hc h1 hok
    simp only [betweenFieldsAndFragmentM]
    by_cases hcm : c.cmp.contains name = true
    · rw [if_pos hcm]; exact hok
    · rw [if_neg hcm]
      cases hg : c.frags.get? name with
      | none =>
        have hg' : AL.get? (fragTable d) name = none := by rw [← hc.frags]; exact hg
        intro n hn
        rcases List.mem_cons.mp hn with rfl | hn
        · exact Or.inl hg'
        · exact hok n hn
      | some v =>
        obtain ⟨on, fid, fsels⟩ := v
        simp only
        by_cases hmemo : (ssid, name, me) ∈ c.ffp
        · rw [if_pos hmemo]
          intro n hn
          rcases List.mem_cons.mp hn with rfl | hn
          · exact Or.inr hmemo
          · exact hok n hn
        · rw [if_neg hmemo]
          have hc2 : CI s d { c with cmp := name :: c.cmp, ffp := (ssid, name, me) :: c.ffp } := ⟨hc.frags, hc.cache⟩
          have hok2 : CmpOK d { c with cmp := name :: c.cmp, ffp := (ssid, name, me) :: c.ffp } ssid me := by
            intro n hn
            rcases List.mem_cons.mp hn with rfl | hn
            · exact Or.inr (List.mem_cons_self ..)
            · rcases hok n hn with h | h
              · exact Or.inl h
              · exact Or.inr (List.mem_cons_of_mem _ h)
          obtain ⟨a1, a2, _, _⟩ := ff_frag s d hc2 (name := name) hg
          have af := ff_frame s ((typeFromAst s (.named on)).map (·.base)) fid fsels
            { c with cmp := name :: c.cmp, ffp := (ssid, name, me) :: c.ffp }
          have afl := ff_ffp s ((typeFromAst s (.named on)).map (·.base)) fid fsels
            { c with cmp := name :: c.cmp, ffp := (ssid, name, me) :: c.ffp }
          generalize fieldsAndFragments s ((typeFromAst s (.named on)).map (·.base)) fid fsels
            { c with cmp := name :: c.cmp, ffp := (ssid, name, me) :: c.ffp } = ra at a1 a2 af afl ⊢
          obtain ⟨⟨fm2, fr2⟩, c3⟩ := ra
          simp only at a1 a2 af afl ⊢
          have hok3 : CmpOK d c3 ssid me := hok2.mono af.2.1 (fun k h => by rw [afl]; exact h)
          split
          · exact hok3
          · have hok4 : CmpOK d (conflictsBetweenM s fx fuel me fm fm2 c3).2 ssid me :=
              hok3.mono (kcb me fm fm2 c3) (fcb me fm fm2 c3)
            have hci4 : CI s d (conflictsBetweenM s fx fuel me fm fm2 c3).2 := (scb me fm fm2 c3 a1 h1 a2).1
            exact (sumLoop_spec fr2 (fun fr c => betweenFieldsAndFragmentM s fx fuel me ssid fm fr c)
              (fun c => CI s d c ∧ CmpOK d c ssid me) (fun _ => True)
              (fun fr _ c hc => ⟨⟨(sff me ssid fm fr c hc.1 h1).1, ih me ssid fm fr c hc.1 h1 hc.2⟩, fun _ => trivial⟩)
              _ ⟨hci4, hok4⟩).1.2

theorem stepM_eff (h7 : fx.v7 = true) (hpa : ParentsAgree s d) (fuel : Nat) (hecb : ECbM s fx d fuel)
    (heff : EFfM s fx d fuel) : EFfM s fx d (fuel + 1) := by
  obtain ⟨_, scb, sff, _, _⟩ := searchM_sound s fx d h7 fuel
  obtain ⟨_, kcb, _, _, kff⟩ := cmp_framesM s fx h7 fuel
  obtain ⟨_, fcb, _, _, _⟩ := ffp_framesM s fx h7 fuel
  intro me ssid fm name c hc h1 hfm hok
  simp only [betweenFieldsAndFragmentM]
  by_cases hcm : c.cmp.contains name = true
  · rw [if_pos hcm]
    intro hcr
    exact ⟨by simpa using hcm, GPM.skip rfl rfl (fun M _ CF _ n hn => Or.inl hn) hcr⟩
  · rw [if_neg hcm]
    cases hg : c.frags.get? name with
    | none =>
      intro hcr
      have hg' : AL.get? (fragTable d) name = none := by rw [← hc.frags]; exact hg
      refine ⟨List.mem_cons_self .., GPM.skip rfl rfl (fun M _ CF _ n hn => ?_) hcr⟩
      rcases List.mem_cons.mp hn with rfl | hn
      · exact Or.inr (Or.inl hg')
      · exact Or.inl hn
    | some v =>
      obtain ⟨on, fid, fsels⟩ := v
      simp only
      have hg' : AL.get? (fragTable d) name = some (on, fid, fsels) := by rw [← hc.frags]; exact hg
      by_cases hmemo : (ssid, name, me) ∈ c.ffp
      · rw [if_pos hmemo]
        intro hcr
        refine ⟨List.mem_cons_self .., GPM.skip rfl rfl (fun M hM CF _ n hn => ?_) hcr⟩
        rcases List.mem_cons.mp hn with rfl | hn
        · exact Or.inr (Or.inr (hM _ (mem_keysM_inr.mpr hmemo)))
        · exact Or.inl hn
      · rw [if_neg hmemo]
        have hc2 : CI s d { c with cmp := name :: c.cmp, ffp := (ssid, name, me) :: c.ffp } := ⟨hc.frags, hc.cache⟩
        have hok2 : CmpOK d { c with cmp := name :: c.cmp, ffp := (ssid, name, me) :: c.ffp } ssid me := by
          intro n hn
          rcases List.mem_cons.mp hn with rfl | hn
          · exact Or.inr (List.mem_cons_self ..)
          · rcases hok n hn with h | h
            · exact Or.inl h
            · exact Or.inr (List.mem_cons_of_mem _ h)
        obtain ⟨a1, a2, a3, a4, a5⟩ := ff_frag_complete s d hpa hc2 (name := name) hg
        have af := ff_frame s ((typeFromAst s (.named on)).map (·.base)) fid fsels
          { c with cmp := name :: c.cmp, ffp := (ssid, name, me) :: c.ffp }
        have afl := ff_ffp s ((typeFromAst s (.named on)).map (·.base)) fid fsels
          { c with cmp := name :: c.cmp, ffp := (ssid, name, me) :: c.ffp }
        have afk := ff_keysM s ((typeFromAst s (.named on)).map (·.base)) fid fsels
          { c with cmp := name :: c.cmp, ffp := (ssid, name, me) :: c.ffp }
        generalize fieldsAndFragments s ((typeFromAst s (.named on)).map (·.base)) fid fsels
          { c with cmp := name :: c.cmp, ffp := (ssid, name, me) :: c.ffp } = ra at a1 a2 a3 a4 a5 af afl afk ⊢
        obtain ⟨⟨fm2, fr2⟩, c3⟩ := ra
        simp only at a1 a2 a3 a4 a5 af afl afk ⊢
        have hok3 : CmpOK d c3 ssid me := hok2.mono af.2.1 (fun k h => by rw [afl]; exact h)
        have hkc : ∀ k, k ∈ keysM c3 ↔ k = Sum.inr (ssid, name, me) ∨ k ∈ keysM c := fun k => by
          rw [afk]; exact mem_keysM_ffp_cons (c := { c with cmp := name :: c.cmp })
        by_cases hid : (ssid == fid) = true
        · -- `if field_map is fragment_field_map: return`: the triple is in the memo, nothing is claimed about it
          have hidd : ssid = fid := by simpa using hid
          rw [if_pos hid]
          intro hcr
          have hcrc : c.crash = none := by rw [← af.2.2.1]; exact hcr
          refine ⟨by rw [af.2.1]; exact List.mem_cons_self .., hcrc, fun k hk => (hkc k).mpr (Or.inr hk),
            fun _ M hM => ⟨fun k hk => ?_, fun CF _ n hn => ?_⟩⟩
          · rcases (hkc k).mp hk with rfl | hk
            · refine Or.inr ?_
              show FOblM s d M (ssid, name, me)
              intro hne
              exact absurd hidd.symm (hne on fid fsels hg')
            · exact Or.inl hk
          · rw [af.2.1] at hn
            rcases List.mem_cons.mp hn with rfl | hn
            · exact Or.inr (Or.inr (hM _ ((hkc _).mpr (Or.inl rfl))))
            · exact Or.inl hn
        · rw [if_neg hid]
          intro hcr
          have hidn : fid ≠ ssid := fun e => hid (by simp [e])
          have hci1 : CI s d (conflictsBetweenM s fx fuel me fm fm2 c3).2 := (scb me fm fm2 c3 a1 h1 a2).1
          have hok4 : CmpOK d (conflictsBetweenM s fx fuel me fm fm2 c3).2 ssid me :=
            hok3.mono (kcb me fm fm2 c3) (fcb me fm fm2 c3)
          obtain ⟨lx, lm, g2⟩ := sumLoop_namesM fr2 (fun fr c => betweenFieldsAndFragmentM s fx fuel me ssid fm fr c)
            (fun c => CI s d c ∧ CmpOK d c ssid me)
            (fun M _ n => FCov d M me ssid n)
            (fun fr hfr c hc => ⟨⟨(sff me ssid fm fr c hc.1 h1).1, cmpOK_frame s fx d h7 fuel me ssid fm fr c hc.1 h1 hc.2⟩,
              kff me ssid fm fr c,
              fun h => heff me ssid fm fr c hc.1 h1 hfm hc.2 h⟩)
            _ ⟨hci1, hok4⟩ hcr
          have g1 := hecb me fm fm2 c3 a1 h1 a2 g2.crash
          have hcmp1 : (conflictsBetweenM s fx fuel me fm fm2 c3).2.cmp = name :: c.cmp := by rw [kcb, af.2.1]
          refine ⟨lm _ (by rw [hcmp1]; exact List.mem_cons_self ..), ?_⟩
          refine ((g1.seq g2).pre (by rw [af.2.2.1]) (fun k hk => (hkc k).mpr (Or.inr hk))
            (fun _ M hM r k hk => ?_)).imp (fun M hM r CF hCF n hn => ?_)
          · rcases (hkc k).mp hk with rfl | hk
            · refine Or.inr ?_
              show FOblM s d M (ssid, name, me)
              intro _
              obtain ⟨r1, r2⟩ := r
              refine ⟨fun sels p rn e1 e2 hs ha c1 d2 => r1 rn e1 e2 (hfm sels p rn e1 hs ha c1) (a3 rn e2 d2),
                fun h hh => ?_⟩
              rcases r2 _ (fun _ x => x) h (lx h (a4 h hh)) with h' | h'
              · rw [hcmp1] at h'
                rcases List.mem_cons.mp h' with rfl | h'
                · exact Or.inr (hM _ ((g1.seq g2).mono _ ((hkc _).mpr (Or.inl rfl))))
                · rcases hok h h' with hu | hm
                  · exact Or.inl hu
                  · exact Or.inr (hM _ ((g1.seq g2).mono _ ((hkc _).mpr (Or.inr (mem_keysM_inr.mpr hm)))))
              · exact h'
            · exact Or.inl hk
          · obtain ⟨r1, r2⟩ := r
            rcases r2 CF hCF n hn with h' | h'
            · rw [hcmp1] at h'
              rcases List.mem_cons.mp h' with rfl | h'
              · exact Or.inr (Or.inr (hM _ ((g1.seq g2).mono _ ((hkc _).mpr (Or.inl rfl)))))
              · exact Or.inl h'
            · exact Or.inr h'

end
end PyGql.Validate

/-
  `OverlappingFieldsCanBeMergedChecker`: FUEL SUFFICIENCY, part 3: `find_conflicts_within_selection_set` and the walk
  of the rule run alone. On a document whose selection sets are ranked (`RankOk`) the run ends WITHOUT A CRASH.
-/
import PyGqlModel.Lemmas.ValidateOverlapFuel2
import PyGqlModel.Lemmas.ValidateOverlapWalk2
namespace PyGql.Validate
open PyGql PyGql.Validate.Spec

theorem within_fuel (s : SchemaD) (fx : Fixes) (d : Doc) (ρ : Nat → Nat) (hR : RankOk s d ρ) (h7 : fx.v7 = true)
    (p : Option String) (i : Nat) (sels : List Sel) (c : OCtx) (hc : CI s d c) (h1 : SelSet d i sels)
    (h2 : Adm s d i p) : (withinSelectionSet s fx p i sels c).2.crash = c.crash := by
  obtain ⟨sf, _, sff, sfr, _⟩ := search_sound s fx d h7 overlapFuel
  obtain ⟨nf, _, nff, nfr, _⟩ := search_fuel s fx d ρ hR h7 overlapFuel
  have t0 := hR.two _ _ h1
  have t1 := hR.top _ _ h1
  simp only [withinSelectionSet, conflictsWithin]
  obtain ⟨x1, x2, x3, x4, x5⟩ := ff_rank s d ρ hR hc h1 h2
  generalize fieldsAndFragments s p i sels c = ra at x1 x2 x3 x4 x5 ⊢
  obtain ⟨⟨fm, fr⟩, ca⟩ := ra
  simp only at x1 x2 x3 x4 x5 ⊢
  obtain ⟨k0c, k0⟩ := sumLoop_crash fm
    (fun x c => sumLoop (pairsOf x.2) (fun y c =>
      (if (findConflict s fx overlapFuel false y.1 y.2 c).1 = true then 1 else 0,
       (findConflict s fx overlapFuel false y.1 y.2 c).2)) c) (CI s d)
    (fun q hq c hc => sumLoop_crash (pairsOf q.2) _ (CI s d)
      (fun y hy c hc => by
        obtain ⟨m1, m2⟩ := mem_pairsOf hy
        have r1 : entryRank ρ y.1 ≤ ρ i - 2 := x3 q hq _ m1
        have r2 : entryRank ρ y.2 ≤ ρ i - 2 := x3 q hq _ m2
        exact ⟨(sf false y.1 y.2 c hc (x2 q hq _ m1) (x2 q hq _ m2)).1,
          nf false y.1 y.2 c hc (x2 q hq _ m1) (x2 q hq _ m2) (by omega)⟩) c hc) ca x1
  obtain ⟨k1c, k1⟩ := withFreshCmp_crash s d
    (fun c => sumLoop fr (fun g c => betweenFieldsAndFragment s fx overlapFuel false i fm g c) c)
    (fun c hc => sumLoop_crash fr _ (CI s d)
      (fun g hg c hc => ⟨(sff false i fm g c hc x2).1,
        nff false i fm g c _ hc x2 x3 (by have := x4 g hg; omega)⟩) c hc) _ k0c
  obtain ⟨-, k2⟩ := sumLoop_crash (pairsOf fr)
    (fun y c => betweenFragments s fx overlapFuel false (some y.1) (some y.2) c) (CI s d)
    (fun y hy c hc => by
      obtain ⟨m1, m2⟩ := mem_pairsOf hy
      exact ⟨(sfr false (some y.1) (some y.2) c hc).1,
        nfr false y.1 y.2 c hc (by have := x4 _ m1; have := x4 _ m2; omega)⟩) _ k1c
  exact k2.trans (k1.trans (k0.trans x5))

private theorem enter_ovf (s : SchemaD) (fx : Fixes) (n : Node) (st : St) :
    enter ⟨s, fx, [.overlappingFieldsCanBeMerged]⟩ n st =
      ({ ti := tiEnter s n st.ti, rs := (enterRule s fx .overlappingFieldsCanBeMerged n (tiEnter s n st.ti) st.rs).1 },
       (enterRule s fx .overlappingFieldsCanBeMerged n (tiEnter s n st.ti) st.rs).2) := by
  simp only [enter, enterRules]
  generalize enterRule s fx .overlappingFieldsCanBeMerged n (tiEnter s n st.ti) st.rs = p
  obtain ⟨a, b⟩ := p
  cases b <;> simp

private theorem leave_ovf (s : SchemaD) (fx : Fixes) (n : Node) (st : St) :
    leave ⟨s, fx, [.overlappingFieldsCanBeMerged]⟩ n st = { ti := tiLeave n st.ti, rs := st.rs } := by
  simp only [leave, List.reverse_cons, List.reverse_nil, List.nil_append, List.foldl_cons, List.foldl_nil]
  congr 1

/-- a search that did not crash leaves the exception flag of the rule state alone -/
theorem ov_enter_sel_nocrash (s : SchemaD) (fx : Fixes) (i : Nat) (sels : List Sel) (ti : TI) (rs : RS)
    (h : (withinSelectionSet s fx ti.parentType i sels rs.octx).2.crash = none) :
    (enterRule s fx .overlappingFieldsCanBeMerged (.selectionSet i sels) ti rs).1.crash = rs.crash := by
  simp only [enterRule, h, RS.errN]

/-- sane search context, nothing crashed -/
def FInv (s : SchemaD) (d : Doc) (st : St) : Prop :=
  CI s d st.rs.octx ∧ st.rs.octx.crash = none ∧ st.rs.crash = none

def OFu (s : SchemaD) (d : Doc) (l : List (Node × View)) (st st' : St) : Prop :=
  st'.ti = st.ti ∧ ((∀ p ∈ l, p ∈ typedNodes s d) → FInv s d st → FInv s d st')

theorem of_alg (s : SchemaD) (fx : Fixes) (d : Doc) (ρ : Nat → Nat) (hR : RankOk s d ρ) (h7 : fx.v7 = true) :
    TAlg ⟨s, fx, [.overlappingFieldsCanBeMerged]⟩ (OFu s d) where
  ti h := h.1
  nil st := ⟨rfl, fun _ hi => hi⟩
  append {a b s1 s2 s3} h1 h2 := ⟨h2.1.trans h1.1, fun hm hi =>
    h2.2 (fun p hp => hm p (List.mem_append_right _ hp)) (h1.2 (fun p hp => hm p (List.mem_append_left _ hp)) hi)⟩
  node n body l st hn hd hb := by
    have hsk : (enter ⟨s, fx, [.overlappingFieldsCanBeMerged]⟩ n st).2 = false := by rw [enter_ovf]; exact ov_noskip ..
    rw [visitNode_false hsk, leave_ovf]
    have hti : (enter ⟨s, fx, [.overlappingFieldsCanBeMerged]⟩ n st).1.ti = tiEnter s n st.ti := by rw [enter_ovf]
    obtain ⟨b1, b2⟩ := hb _ hti
    refine ⟨?_, fun hm hi => ?_⟩
    · show tiLeave n (body _).ti = st.ti
      rw [b1, hti, tiLeave_tiEnter _ _ _ hd]
    · have hmem : (n, View.enter s n st.ti.view) ∈ typedNodes s d := hm _ (List.mem_cons_self ..)
      have hst1 : FInv s d (enter ⟨s, fx, [.overlappingFieldsCanBeMerged]⟩ n st).1 := by
        rw [enter_ovf]
        by_cases hs : n.isSelSet = true
        · cases n with
          | selectionSet i sels =>
            obtain ⟨k1, _⟩ := ov_enter_sel s fx i sels (tiEnter s (.selectionSet i sels) st.ti) st.rs
            have hpar : (tiEnter s (.selectionSet i sels) st.ti).parentType =
                (View.enter s (.selectionSet i sels) st.ti.view).parent := by rw [← view_enter]; rfl
            have hadm : Adm s d i (tiEnter s (.selectionSet i sels) st.ti).parentType := by
              rw [hpar]; exact Adm.walk hmem
            have hsel := selSet_of_typed hmem
            obtain ⟨w1, _⟩ := within_sound s fx d h7 _ i sels st.rs.octx hi.1 hsel hadm
            have w2 := within_fuel s fx d ρ hR h7 _ i sels st.rs.octx hi.1 hsel hadm
            rw [hi.2.1] at w2
            refine ⟨by rw [k1]; exact w1, by rw [k1]; exact w2, ?_⟩
            show (enterRule s fx .overlappingFieldsCanBeMerged (.selectionSet i sels) _ st.rs).1.crash = none
            rw [ov_enter_sel_nocrash s fx i sels _ st.rs w2]
            exact hi.2.2
          | _ => cases hs
        · rw [ov_enter_other s fx n _ _ hn (by simpa using hs)]
          exact hi
      exact b2 (fun p hp => hm p (List.mem_cons_of_mem _ hp)) hst1

/-- **fuel sufficiency**: the rule run alone on a ranked document does not crash -/
theorem ov_document_nocrash (s : SchemaD) (fx : Fixes) (d : Doc) (ρ : Nat → Nat) (hR : RankOk s d ρ)
    (h7 : fx.v7 = true) :
    (visitDocument ⟨s, fx, [.overlappingFieldsCanBeMerged]⟩ d {}).rs.crash = none := by
  have he : enter ⟨s, fx, [.overlappingFieldsCanBeMerged]⟩ (.document d) {} =
      (({ ti := {}, rs := { ({} : RS) with octx := { ({} : OCtx) with frags := fragTable d } } } : St), false) := by
    rw [enter_ovf]; simp [enterRule, tiEnter, fragTable]
  rw [visitDocument]
  unfold visitNode
  rw [he]
  simp only [Bool.false_eq_true, ↓reduceIte, leave_ovf]
  have hw := visitDefsR (of_alg s fx d ρ hR h7) d.defs
    ({ ti := {}, rs := { ({} : RS) with octx := { ({} : OCtx) with frags := fragTable d } } } : St) rfl
  exact (hw.2 (fun p hp => hp) ⟨⟨rfl, fun _ h => nomatch h⟩, rfl, rfl⟩).2.2

end PyGql.Validate

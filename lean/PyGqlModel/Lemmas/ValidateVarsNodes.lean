/-
  Structural facts about the node enumerations: `Spec.tnDef` lists the nodes of `Spec.defNodes` (with contexts);
  variable definitions only occur in the variable list of an operation; the names of `usesValue` are `varsOfValue`.
-/
import PyGqlModel.Lemmas.ValidateVarsWalk3
namespace PyGql.Validate
open PyGql PyGql.Validate.Spec

theorem withView_fst (w : View) (ns : List Node) : (withView w ns).map (·.1) = ns := by
  induction ns with
  | nil => rfl
  | cons n ns ih => rw [withView_cons, List.map_cons, ih]

theorem tnDir_fst (s : SchemaD) (w : View) (d : Dir) : (tnDir s w d).map (·.1) = dirNodes d := by
  simp [tnDir, dirNodes, withView_fst]

theorem tnDirs_fst (s : SchemaD) (w : View) (ds : List Dir) : (tnDirs s w ds).map (·.1) = dirsNodes ds := by
  induction ds with
  | nil => rfl
  | cons d ds ih =>
    simp only [tnDirs, dirsNodes, List.flatMap_cons, List.map_append] at ih ⊢
    rw [ih, tnDir_fst]

mutual
theorem tnSel_fst (s : SchemaD) : ∀ (w : View) (x : Sel), (tnSel s w x).map (·.1) = selNodes x
  | w, .field al name args dirs true ssid sub => by
    simp only [tnSel, selNodes, List.map_cons, List.map_append, withView_fst, tnDirs_fst, ↓reduceIte,
      tnSels_fst s _ sub]
  | w, .field al name args dirs false ssid sub => by
    simp only [tnSel, selNodes, List.map_cons, List.map_append, withView_fst, tnDirs_fst, Bool.false_eq_true,
      ↓reduceIte, List.map_nil]
  | w, .spread name dirs => by
    simp only [tnSel, selNodes, List.map_cons, tnDirs_fst]
  | w, .inline on dirs ssid sub => by
    simp only [tnSel, selNodes, List.map_cons, List.map_append, tnDirs_fst, tnSels_fst s _ sub]
theorem tnSels_fst (s : SchemaD) : ∀ (w : View) (xs : List Sel), (tnSels s w xs).map (·.1) = selsNodes xs
  | _, [] => rfl
  | w, x :: xs => by
    simp only [tnSels, selsNodes, List.map_append, tnSel_fst s w x, tnSels_fst s w xs]
end

theorem tnVarDef_fst (s : SchemaD) (w : View) (v : VarDef) : (tnVarDef s w v).map (·.1) = varDefNodes v := by
  simp only [tnVarDef, varDefNodes, List.map_append, withView_fst, tnDirs_fst, List.cons_append, List.append_assoc,
    List.nil_append]
  cases v.default <;> rfl

theorem tnVarDefs_fst (s : SchemaD) (w : View) (vs : List VarDef) :
    (vs.flatMap (tnVarDef s w)).map (·.1) = vs.flatMap varDefNodes := by
  induction vs with
  | nil => rfl
  | cons v vs ih => simp only [List.flatMap_cons, List.map_append, tnVarDef_fst, ih]

theorem tnDef_fst (s : SchemaD) (x : Def) : (tnDef s x).map (·.1) = defNodes x := by
  cases x with
  | op kind name vars dirs ssid sels =>
    simp only [tnDef, defNodes, List.map_cons, List.map_append, tnVarDefs_fst, tnDirs_fst, tnSels_fst]
  | frag name on dirs ssid sels =>
    simp only [tnDef, defNodes, List.map_cons, List.map_append, tnDirs_fst, tnSels_fst]
  | ts a b => rfl

/-! ### no variable definition below a value, a directive or a selection -/

def Node.isVarDef : Node → Bool | .varDef _ => true | _ => false

mutual
theorem valueNodes_noVarDef : ∀ (v : Value), ∀ n ∈ valueNodes v, n.isVarDef = false
  | .list vs, n, h => by
    rw [valueNodes, List.mem_cons] at h
    rcases h with rfl | h
    · rfl
    · exact valuesNodes_noVarDef vs n h
  | .obj fs, n, h => by
    rw [valueNodes, List.mem_cons] at h
    rcases h with rfl | h
    · rfl
    · exact objFieldsNodes_noVarDef fs n h
  | .var _, n, h => by simp only [valueNodes, List.mem_singleton] at h; subst h; rfl
  | .int _, n, h => by simp only [valueNodes, List.mem_singleton] at h; subst h; rfl
  | .float _, n, h => by simp only [valueNodes, List.mem_singleton] at h; subst h; rfl
  | .str _, n, h => by simp only [valueNodes, List.mem_singleton] at h; subst h; rfl
  | .bool _, n, h => by simp only [valueNodes, List.mem_singleton] at h; subst h; rfl
  | .null, n, h => by simp only [valueNodes, List.mem_singleton] at h; subst h; rfl
  | .enum _, n, h => by simp only [valueNodes, List.mem_singleton] at h; subst h; rfl
theorem valuesNodes_noVarDef : ∀ (vs : List Value), ∀ n ∈ valuesNodes vs, n.isVarDef = false
  | [], _, h => by cases h
  | v :: vs, n, h => by
    rw [valuesNodes, List.mem_append] at h
    rcases h with h | h
    · exact valueNodes_noVarDef v n h
    · exact valuesNodes_noVarDef vs n h
theorem objFieldNodes_noVarDef : ∀ (f : ObjField), ∀ n ∈ objFieldNodes f, n.isVarDef = false
  | .mk _ v, n, h => by
    rw [objFieldNodes, List.mem_cons] at h
    rcases h with rfl | h
    · rfl
    · exact valueNodes_noVarDef v n h
theorem objFieldsNodes_noVarDef : ∀ (fs : List ObjField), ∀ n ∈ objFieldsNodes fs, n.isVarDef = false
  | [], _, h => by cases h
  | f :: fs, n, h => by
    rw [objFieldsNodes, List.mem_append] at h
    rcases h with h | h
    · exact objFieldNodes_noVarDef f n h
    · exact objFieldsNodes_noVarDef fs n h
end

theorem argsNodes_noVarDef (as : List Arg) : ∀ n ∈ argsNodes as, n.isVarDef = false := by
  intro n h
  simp only [argsNodes, List.mem_flatMap, argNodes, List.mem_cons] at h
  obtain ⟨a, _, rfl | h⟩ := h
  · rfl
  · exact valueNodes_noVarDef _ n h

theorem dirsNodes_noVarDef (ds : List Dir) : ∀ n ∈ dirsNodes ds, n.isVarDef = false := by
  intro n h
  simp only [dirsNodes, List.mem_flatMap, dirNodes, List.mem_cons] at h
  obtain ⟨d, _, rfl | h⟩ := h
  · rfl
  · exact argsNodes_noVarDef _ n h

mutual
theorem selNodes_noVarDef : ∀ (x : Sel), ∀ n ∈ selNodes x, n.isVarDef = false
  | .field al name args dirs true ssid sub, n, h => by
    simp only [selNodes, ↓reduceIte, List.mem_cons, List.mem_append] at h
    rcases h with rfl | (h | h) | rfl | h
    · rfl
    · exact argsNodes_noVarDef _ n h
    · exact dirsNodes_noVarDef _ n h
    · rfl
    · exact selsNodes_noVarDef sub n h
  | .field al name args dirs false ssid sub, n, h => by
    simp only [selNodes, Bool.false_eq_true, ↓reduceIte, List.append_nil, List.mem_cons, List.mem_append] at h
    rcases h with rfl | h | h
    · rfl
    · exact argsNodes_noVarDef _ n h
    · exact dirsNodes_noVarDef _ n h
  | .spread name dirs, n, h => by
    simp only [selNodes, List.mem_cons] at h
    rcases h with rfl | h
    · rfl
    · exact dirsNodes_noVarDef _ n h
  | .inline on dirs ssid sub, n, h => by
    simp only [selNodes, List.mem_cons, List.mem_append] at h
    rcases h with rfl | h | rfl | h
    · rfl
    · exact dirsNodes_noVarDef _ n h
    · rfl
    · exact selsNodes_noVarDef sub n h
theorem selsNodes_noVarDef : ∀ (xs : List Sel), ∀ n ∈ selsNodes xs, n.isVarDef = false
  | [], _, h => by cases h
  | x :: xs, n, h => by
    rw [selsNodes, List.mem_append] at h
    rcases h with h | h
    · exact selNodes_noVarDef x n h
    · exact selsNodes_noVarDef xs n h
end

/-! ### names of the usages -/

mutual
theorem usesValue_fst (s : SchemaD) : ∀ (p : Usage) (v : Value), (usesValue s p v).map (·.1) = varsOfValue v
  | p, .list vs => by rw [usesValue, varsOfValue, usesValues_fst s _ vs]
  | p, .obj fs => by rw [usesValue, varsOfValue, usesObjFields_fst s _ fs]
  | p, .var x => rfl
  | p, .int _ => rfl
  | p, .float _ => rfl
  | p, .str _ => rfl
  | p, .bool _ => rfl
  | p, .null => rfl
  | p, .enum _ => rfl
theorem usesValues_fst (s : SchemaD) : ∀ (p : Usage) (vs : List Value), (usesValues s p vs).map (·.1) = varsOfValues vs
  | _, [] => rfl
  | p, v :: vs => by rw [usesValues, varsOfValues, List.map_append, usesValue_fst s p v, usesValues_fst s p vs]
theorem usesObjFields_fst (s : SchemaD) : ∀ (p : Usage) (fs : List ObjField),
    (usesObjFields s p fs).map (·.1) = varsOfObjFields fs
  | _, [] => rfl
  | p, .mk n v :: fs => by
    rw [usesObjFields, varsOfObjFields, List.map_append, usesValue_fst s _ v, usesObjFields_fst s p fs]
end

end PyGql.Validate

/-
  Variant of `Lemmas/ValidateWalkI.lean` for rules whose behaviour at VARIABLE DEFINITIONS depends on the rule
  state (`UniqueVariableNamesChecker`): the context-free property is only required of the "body" nodes
  (values, object fields, arguments, directives, selections, selection sets, type references); variable
  definitions and everything above them are handled by explicit induction in the rule's proof.
-/
import PyGqlModel.Lemmas.ValidateWalkI
namespace PyGql.Validate
open PyGql PyGql.Validate.Spec

/-- nodes that can occur below a variable definition, a directive list or a selection set -/
def Node.isBody : Node → Bool
  | .typeNode _ | .directive _ | .argument _ | .selectionSet .. | .field .. | .spread .. | .inline .. | .value _
  | .objField _ => true
  | _ => false

structure CFK (c : Cfg) (Inv : St → Prop) (f g : Node → Nat) : Prop where
  noskip : ∀ n st, n.isBody = true → Inv st → (enter c n st).2 = false
  enterE : ∀ n st, n.isBody = true → Inv st → E (enter c n st).1 = E st + f n
  enterI : ∀ n st, n.isBody = true → Inv st → Inv (enter c n st).1
  leaveE : ∀ n st, n.isBody = true → Inv st → E (leave c n st) = E st + g n
  leaveI : ∀ n st, n.isBody = true → Inv st → Inv (leave c n st)

variable {c : Cfg} {Inv : St → Prop} {f g : Node → Nat}

theorem visitNodeK (h : CFK c Inv f g) (n : Node) (body : St → St) (ns : List Node)
    (hb : ∀ st, Inv st → Post Inv f g ns st (body st)) (st : St) (hi : Inv st) (hn : n.isBody = true) :
    Post Inv f g (n :: ns) st (visitNode c n body st) := by
  have e1 := h.enterE n st hn hi
  have e2 := h.noskip n st hn hi
  have e3 := h.enterI n st hn hi
  unfold visitNode
  revert e1 e2 e3
  generalize enter c n st = p
  obtain ⟨st', sk⟩ := p
  intro e1 e2 e3
  simp only at e1 e2 e3
  subst e2
  simp only [Bool.false_eq_true, ↓reduceIte]
  obtain ⟨b1, b2⟩ := hb st' e3
  refine ⟨h.leaveI n _ hn b1, ?_⟩
  rw [h.leaveE n _ hn b1, b2, e1, total_cons]; omega

mutual
theorem visitValueK (h : CFK c Inv f g) : ∀ (v : Value) (st : St), Inv st → Post Inv f g (valueNodes v) st (visitValue c v st)
  | .list vs, st, hi => by
    rw [visitValue, valueNodes]
    exact visitNodeK h _ _ _ (fun st hi => visitValuesK h vs st hi) st hi rfl
  | .obj fs, st, hi => by
    rw [visitValue, valueNodes]
    exact visitNodeK h _ _ _ (fun st hi => visitObjFieldsK h fs st hi) st hi rfl
  | .var x, st, hi => by
    rw [visitValue]; simp only [valueNodes]; exact visitNodeK h _ _ [] (fun _ hi => Post.nil hi) st hi rfl
  | .int x, st, hi => by
    rw [visitValue]; simp only [valueNodes]; exact visitNodeK h _ _ [] (fun _ hi => Post.nil hi) st hi rfl
  | .float x, st, hi => by
    rw [visitValue]; simp only [valueNodes]; exact visitNodeK h _ _ [] (fun _ hi => Post.nil hi) st hi rfl
  | .str x, st, hi => by
    rw [visitValue]; simp only [valueNodes]; exact visitNodeK h _ _ [] (fun _ hi => Post.nil hi) st hi rfl
  | .bool x, st, hi => by
    rw [visitValue]; simp only [valueNodes]; exact visitNodeK h _ _ [] (fun _ hi => Post.nil hi) st hi rfl
  | .null, st, hi => by
    rw [visitValue]; simp only [valueNodes]; exact visitNodeK h _ _ [] (fun _ hi => Post.nil hi) st hi rfl
  | .enum x, st, hi => by
    rw [visitValue]; simp only [valueNodes]; exact visitNodeK h _ _ [] (fun _ hi => Post.nil hi) st hi rfl
theorem visitValuesK (h : CFK c Inv f g) : ∀ (vs : List Value) (st : St), Inv st → Post Inv f g (valuesNodes vs) st (visitValues c vs st)
  | [], st, hi => by rw [visitValues, valuesNodes]; exact Post.nil hi
  | v :: vs, st, hi => by
    rw [visitValues, valuesNodes]
    have h1 := visitValueK h v st hi
    exact h1.append (visitValuesK h vs _ h1.1)
theorem visitObjFieldK (h : CFK c Inv f g) : ∀ (x : ObjField) (st : St), Inv st → Post Inv f g (objFieldNodes x) st (visitObjField c x st)
  | .mk n v, st, hi => by
    rw [visitObjField, objFieldNodes]
    exact visitNodeK h _ _ _ (fun st hi => visitValueK h v st hi) st hi rfl
theorem visitObjFieldsK (h : CFK c Inv f g) : ∀ (fs : List ObjField) (st : St), Inv st → Post Inv f g (objFieldsNodes fs) st (visitObjFields c fs st)
  | [], st, hi => by rw [visitObjFields, objFieldsNodes]; exact Post.nil hi
  | x :: fs, st, hi => by
    rw [visitObjFields, objFieldsNodes]
    have h1 := visitObjFieldK h x st hi
    exact h1.append (visitObjFieldsK h fs _ h1.1)
end

theorem foldlK {α} (visit : α → St → St) (ns : α → List Node)
    (hv : ∀ a st, Inv st → Post Inv f g (ns a) st (visit a st)) :
    ∀ (as : List α) (st : St), Inv st → Post Inv f g (as.flatMap ns) st (as.foldl (fun st a => visit a st) st)
  | [], st, hi => by simpa using Post.nil hi
  | a :: as, st, hi => by
    rw [List.foldl_cons, List.flatMap_cons]
    have h1 := hv a st hi
    exact h1.append (foldlK visit ns hv as _ h1.1)

theorem visitArgumentK (h : CFK c Inv f g) (a : Arg) (st : St) (hi : Inv st) :
    Post Inv f g (argNodes a) st (visitArgument c a st) := by
  rw [visitArgument, argNodes]
  exact visitNodeK h _ _ _ (fun st hi => visitValueK h a.value st hi) st hi rfl

theorem visitArgumentsK (h : CFK c Inv f g) (as : List Arg) (st : St) (hi : Inv st) :
    Post Inv f g (argsNodes as) st (visitArguments c as st) :=
  foldlK (visitArgument c) argNodes (visitArgumentK h) as st hi

theorem visitDirectiveK (h : CFK c Inv f g) (d : Dir) (st : St) (hi : Inv st) :
    Post Inv f g (dirNodes d) st (visitDirective c d st) := by
  rw [visitDirective, dirNodes]
  exact visitNodeK h _ _ _ (fun st hi => visitArgumentsK h d.args st hi) st hi rfl

theorem visitDirectivesK (h : CFK c Inv f g) (ds : List Dir) (st : St) (hi : Inv st) :
    Post Inv f g (dirsNodes ds) st (visitDirectives c ds st) :=
  foldlK (visitDirective c) dirNodes (visitDirectiveK h) ds st hi

mutual
theorem visitSelK (h : CFK c Inv f g) : ∀ (x : Sel) (st : St), Inv st → Post Inv f g (selNodes x) st (visitSel c x st)
  | .field al name args dirs true ssid sub, st, hi => by
    rw [visitSel, selNodes]
    refine visitNodeK h _ _ _ (fun st hi => ?_) st hi rfl
    simp only [↓reduceIte]
    have h1 := visitArgumentsK h args st hi
    have h2 := visitDirectivesK h dirs _ h1.1
    have h3 := visitNodeK h (.selectionSet ssid sub) _ _ (fun st hi => visitSelsK h sub st hi) _ h2.1 rfl
    exact (h1.append h2).append h3
  | .field al name args dirs false ssid sub, st, hi => by
    rw [visitSel, selNodes]
    refine visitNodeK h _ _ _ (fun st hi => ?_) st hi rfl
    simp only [Bool.false_eq_true, ↓reduceIte, List.append_nil]
    have h1 := visitArgumentsK h args st hi
    exact h1.append (visitDirectivesK h dirs _ h1.1)
  | .spread name dirs, st, hi => by
    rw [visitSel, selNodes]
    exact visitNodeK h _ _ _ (fun st hi => visitDirectivesK h dirs st hi) st hi rfl
  | .inline on dirs ssid sub, st, hi => by
    rw [visitSel, selNodes]
    refine visitNodeK h _ _ _ (fun st hi => ?_) st hi rfl
    have h2 := visitDirectivesK h dirs st hi
    exact h2.append (visitNodeK h (.selectionSet ssid sub) _ _ (fun st hi => visitSelsK h sub st hi) _ h2.1 rfl)
theorem visitSelsK (h : CFK c Inv f g) : ∀ (xs : List Sel) (st : St), Inv st → Post Inv f g (selsNodes xs) st (visitSels c xs st)
  | [], st, hi => by rw [visitSels, selsNodes]; exact Post.nil hi
  | x :: xs, st, hi => by
    rw [visitSels, selsNodes]
    have h1 := visitSelK h x st hi
    exact h1.append (visitSelsK h xs _ h1.1)
end

/-- default value and type reference of a variable definition (the children of the `VariableDefinition` node) -/
def varDefBodyNodes (v : VarDef) : List Node :=
  (match v.default with | some d => valueNodes d | none => []) ++ .typeNode v.type :: dirsNodes v.dirs

theorem varDefBodyK (h : CFK c Inv f g) (v : VarDef) (st : St) (hi : Inv st) :
    Post Inv f g (varDefBodyNodes v) st
      (visitDirectives c v.dirs
        (visitNode c (.typeNode v.type) id (match v.default with | some d => visitValue c d st | none => st))) := by
  have key0 : ∀ st', Inv st' → Post Inv f g [.typeNode v.type] st' (visitNode c (.typeNode v.type) id st') :=
    fun st' hi' => visitNodeK h _ id [] (fun _ hi => Post.nil hi) st' hi' rfl
  have key : ∀ st', Inv st' → Post Inv f g (.typeNode v.type :: dirsNodes v.dirs) st'
      (visitDirectives c v.dirs (visitNode c (.typeNode v.type) id st')) := fun st' hi' => by
    have h1 := key0 st' hi'
    exact h1.append (visitDirectivesK h v.dirs _ h1.1)
  unfold varDefBodyNodes
  cases hd : v.default with
  | none => simpa using key st hi
  | some d =>
    simp only
    have h1 := visitValueK h d st hi
    exact h1.append (key _ h1.1)

/-- directives and selection set of a definition -/
theorem defBodyK (h : CFK c Inv f g) (dirs : List Dir) (ssid : Nat) (sels : List Sel) (st : St) (hi : Inv st) :
    Post Inv f g (fragBodyNodes dirs ssid sels) st
      (visitNode c (.selectionSet ssid sels) (visitSels c sels) (visitDirectives c dirs st)) := by
  have h2 := visitDirectivesK h dirs st hi
  exact h2.append (visitNodeK h (.selectionSet ssid sels) _ _ (fun st hi => visitSelsK h sels st hi) _ h2.1 rfl)

end PyGql.Validate

/-
  `OverlappingFieldsCanBeMergedChecker`: FUEL SUFFICIENCY, part 1. Under a ranking of the selection sets of the
  document (`RankOk`: a set outranks by 2 the sub-selections of its fields and the bodies of the fragments it spreads)
  none of the five mutually recursive search functions runs out of fuel, provided the fuel covers the ranks of
  what it is called on: the crash flag comes back unchanged.
  This file: the ranking, `_find_conflict`, `_conflicts_between`.
-/
import PyGqlModel.Validate.OverlapRank
import PyGqlModel.Lemmas.ValidateOverlapSearch3
namespace PyGql.Validate
open PyGql PyGql.Validate.Spec

structure RankOk (s : SchemaD) (d : Doc) (ρ : Nat → Nat) : Prop where
  two : ∀ i sels, SelSet d i sels → 2 ≤ ρ i
  top : ∀ i sels, SelSet d i sels → 2 * ρ i + 2 ≤ overlapFuel
  sub : ∀ i sels p rn e, SelSet d i sels → CollD s p sels rn e → entryRank ρ e + 2 ≤ ρ i
  spr : ∀ i sels g, SelSet d i sels → SpreadD sels g → fragRank ρ d g + 2 ≤ ρ i

theorem sameArgsZip_some : ∀ (a b : List Arg), sameArgsZip a b ≠ none
  | [], _ => by simp [sameArgsZip]
  | _ :: _, [] => by simp [sameArgsZip]
  | a :: as, b :: bs => by
    rw [sameArgsZip]
    split
    · simp
    · split
      · exact sameArgsZip_some as bs
      · simp

theorem sameArguments_some (a b : List Arg) : sameArguments a b ≠ none := by
  unfold sameArguments
  split
  · simp
  · exact sameArgsZip_some _ _

/-- a loop whose steps keep an invariant and the crash flag keeps both -/
theorem sumLoop_crash {α} (xs : List α) (f : α → OCtx → Nat × OCtx) (P : OCtx → Prop)
    (hf : ∀ x ∈ xs, ∀ c, P c → P (f x c).2 ∧ (f x c).2.crash = c.crash) (c : OCtx) (hc : P c) :
    P (sumLoop xs f c).2 ∧ (sumLoop xs f c).2.crash = c.crash :=
  (sumLoop_spec xs f (fun c' => P c' ∧ c'.crash = c.crash) (fun _ => True)
    (fun x hx c' hc' => ⟨⟨(hf x hx c' hc'.1).1, (hf x hx c' hc'.1).2.trans hc'.2⟩, fun _ => trivial⟩) c ⟨hc, rfl⟩).1

/-- every field of the map has rank at most `m` -/
def RkB (ρ : Nat → Nat) (m : Nat) (fm : FMap) : Prop := EntOK (fun _ e => entryRank ρ e ≤ m) fm

section
variable (s : SchemaD) (fx : Fixes) (d : Doc) (ρ : Nat → Nat)

def NFind (fuel : Nat) : Prop :=
  ∀ pme f1 f2 c, CI s d c → Ent s d f1 → Ent s d f2 → entryRank ρ f1 + entryRank ρ f2 + 5 ≤ fuel →
    (findConflict s fx fuel pme f1 f2 c).2.crash = c.crash

def NCb (fuel : Nat) : Prop :=
  ∀ me fm1 fm2 c m1 m2, CI s d c → EntOK (fun _ e => Ent s d e) fm1 → EntOK (fun _ e => Ent s d e) fm2 →
    RkB ρ m1 fm1 → RkB ρ m2 fm2 → m1 + m2 + 6 ≤ fuel →
    (conflictsBetween s fx fuel me fm1 fm2 c).2.crash = c.crash

def NFf (fuel : Nat) : Prop :=
  ∀ me ssid fm name c m, CI s d c → EntOK (fun _ e => Ent s d e) fm → RkB ρ m fm →
    m + fragRank ρ d name + 6 ≤ fuel →
    (betweenFieldsAndFragment s fx fuel me ssid fm name c).2.crash = c.crash

def NFr (fuel : Nat) : Prop :=
  ∀ me f1 f2 c, CI s d c → fragRank ρ d f1 + fragRank ρ d f2 + 6 ≤ fuel →
    (betweenFragments s fx fuel me (some f1) (some f2) c).2.crash = c.crash

def NSs (fuel : Nat) : Prop :=
  ∀ me p1 id1 sels1 p2 id2 sels2 c, CI s d c → SelSet d id1 sels1 → Adm s d id1 p1 → SelSet d id2 sels2 →
    Adm s d id2 p2 → ρ id1 + ρ id2 + 4 ≤ fuel →
    (betweenSubselections s fx fuel me p1 id1 sels1 p2 id2 sels2 c).2.crash = c.crash

theorem nstep_find (fuel : Nat) (hss : NSs s fx d ρ fuel) : NFind s fx d ρ (fuel + 1) := by
  intro pme f1 f2 c hc h1 h2 hr
  simp only [findConflict]
  generalize (pme || _) = me
  have htail :
      (if (match f1.fdef.map (·.type), f2.fdef.map (·.type) with
          | some a, some b => typesConflict s a b
          | _, _ => false) = true then (true, c)
        else if (f1.hasSub && f2.hasSub) = true then
          (decide ((betweenSubselections s fx fuel me ((f1.fdef.map (·.type)).map (·.base)) f1.ssid f1.sub
            ((f2.fdef.map (·.type)).map (·.base)) f2.ssid f2.sub c).1 > 0),
           (betweenSubselections s fx fuel me ((f1.fdef.map (·.type)).map (·.base)) f1.ssid f1.sub
            ((f2.fdef.map (·.type)).map (·.base)) f2.ssid f2.sub c).2)
        else (false, c)).2.crash = c.crash := by
    generalize (match f1.fdef.map (·.type), f2.fdef.map (·.type) with
      | some a, some b => typesConflict s a b
      | _, _ => false) = tc
    cases tc with
    | true => rfl
    | false =>
      simp only [Bool.false_eq_true, ↓reduceIte]
      cases hsd : (f1.hasSub && f2.hasSub) with
      | true =>
        simp only [↓reduceIte]
        simp only [Bool.and_eq_true] at hsd
        obtain ⟨s1, a1⟩ := h1.sub hsd.1
        obtain ⟨s2, a2⟩ := h2.sub hsd.2
        refine hss me _ _ _ _ _ _ c hc s1 a1 s2 a2 ?_
        simp only [entryRank, hsd.1, hsd.2, ↓reduceIte] at hr
        omega
      | false => rfl
  cases me with
  | true =>
    simp only [↓reduceIte]
    exact htail
  | false =>
    simp only [Bool.false_eq_true, ↓reduceIte]
    by_cases hn : (f1.name != f2.name) = true
    · simp only [hn, ↓reduceIte]
    · simp only [hn, Bool.false_eq_true, ↓reduceIte]
      cases hsa : sameArguments f1.args f2.args with
      | none => exact absurd hsa (sameArguments_some _ _)
      | some b =>
        cases b with
        | false => rfl
        | true => exact htail

theorem nstep_cb (h7 : fx.v7 = true) (fuel : Nat) (hf : NFind s fx d ρ fuel) : NCb s fx d ρ (fuel + 1) := by
  intro me fm1 fm2 c m1 m2 hc h1 h2 r1 r2 hr
  simp only [conflictsBetween]
  refine (sumLoop_crash fm1 _ (CI s d) (fun q hq c hc => ?_) c hc).2
  obtain ⟨rn, fields1⟩ := q
  simp only
  cases hg : AL.get? fm2 rn with
  | none => exact ⟨hc, rfl⟩
  | some fields2 =>
    simp only
    refine sumLoop_crash fields1 _ (CI s d) (fun f1 hf1 c hc => ?_) c hc
    refine sumLoop_crash fields2 _ (CI s d) (fun f2 hf2 c hc => ?_) c hc
    have e1 := h1 _ hq f1 hf1
    have e2 := entOK_get h2 hg f2 hf2
    have k1 := r1 _ hq f1 hf1
    have k2 := entOK_get r2 hg f2 hf2
    simp only at e1 e2 k1 k2
    exact ⟨((search_sound s fx d h7 fuel).1 me f1 f2 c hc e1 e2).1, hf me f1 f2 c hc e1 e2 (by omega)⟩
end
end PyGql.Validate

/-
  All documents: the per-definition matcher facts (type-system definitions with look-ahead; the query shorthand with
  and without the keyword the R6 guard adds) and the document loop.
-/
import PyGqlModel.Lemmas.PrintLayTSDefs
import PyGqlModel.Lemmas.PrintMatchTS
namespace PyGql.PrintTokens
open PyGql PyGql.Ast PyGql.Parse PyGql.Spec PyGql.Print PyGql.PrintLex PyGql.PrintMatch PyGql.PrintString PyGql.Lex

theorem ne_nil_of_cons_append {α} (a : List α) (x : α) (b c : List α) : a ++ x :: b ++ c ≠ [] := by simp

theorem plainF_tsDefinition (d : Definition) (h : noLocTSDefinition d = true) (fol : List TokClass)
    (hf : openEnd d = true → (fol.head?.map Prod.fst) ≠ some .curlyL) :
    plainF (definitionV (stripDef d)) fol = true := by
  cases d with
  | operation d => simp [noLocTSDefinition] at h
  | fragment d => simp [noLocTSDefinition] at h
  | schemaDefinition dirs ops loc =>
    simp only [noLocTSDefinition, Bool.and_eq_true, Option.isNone_iff_eq_none] at h
    obtain ⟨⟨h1, h2⟩, h3⟩ := h
    have hops := plainAll_map operationTypeV ops (fun x hx => plain_operationTypeV x ((List.all_eq_true.1 h3) x hx))
    simp only [stripDef, definitionV, plainF, Bool.and_eq_true, Option.isNone_iff_eq_none, Bool.not_eq_true',
      List.isEmpty_eq_false_iff]
    refine ⟨⟨h1, pf_cons_plain rfl (pf_append_plain (plainAll_directivesV dirs h2) (pf_of_plainAll ?_))⟩, by simp [Item.yieldAll, Item.yield]⟩
    simp [plainAll, plainAll_append, plain, hops]
  | schemaExtension dirs ops loc =>
    simp only [noLocTSDefinition, Bool.and_eq_true, Option.isNone_iff_eq_none] at h
    obtain ⟨⟨h1, h2⟩, h3⟩ := h
    simp only [stripDef, definitionV, plainF, Bool.and_eq_true, Option.isNone_iff_eq_none, Bool.not_eq_true',
      List.isEmpty_eq_false_iff]
    exact ⟨⟨h1, pf_cons_plain rfl (pf_cons_plain rfl (pf_append_plain (plainAll_directivesV dirs h2)
      (pf_blockOT ops h3 fol (by simpa [openEnd] using hf))))⟩, by simp [Item.yieldAll, Item.yield]⟩
  | scalarTypeDefinition desc name dirs loc =>
    simp only [noLocTSDefinition, Bool.and_eq_true, Option.isNone_iff_eq_none] at h
    obtain ⟨⟨⟨h1, h2⟩, h3⟩, h4⟩ := h
    simp only [stripDef, definitionV, plainF, Bool.and_eq_true, Option.isNone_iff_eq_none, Bool.not_eq_true',
      List.isEmpty_eq_false_iff]
    exact ⟨⟨h1, pf_append_plain (plainAll_descV desc h2) (pf_cons_plain rfl (pf_cons_plain (plain_nameV name (by simpa using h3))
      (pf_of_plainAll (plainAll_directivesV dirs h4))))⟩, by simp [Item.yieldAll, Item.yield, yieldAll_append]⟩
  | scalarTypeExtension name dirs loc =>
    simp only [noLocTSDefinition, Bool.and_eq_true, Option.isNone_iff_eq_none] at h
    obtain ⟨⟨h1, h3⟩, h4⟩ := h
    simp only [stripDef, definitionV, plainF, Bool.and_eq_true, Option.isNone_iff_eq_none, Bool.not_eq_true',
      List.isEmpty_eq_false_iff]
    exact ⟨⟨h1, pf_cons_plain rfl (pf_cons_plain rfl (pf_cons_plain (plain_nameV name (by simpa using h3))
      (pf_of_plainAll (plainAll_directivesV dirs h4))))⟩, by simp [Item.yieldAll, Item.yield]⟩
  | objectTypeDefinition desc name ifs dirs fields loc =>
    simp only [noLocTSDefinition, Bool.and_eq_true, Option.isNone_iff_eq_none] at h
    obtain ⟨⟨⟨⟨⟨h1, h2⟩, h3⟩, h4⟩, h5⟩, h6⟩ := h
    simp only [stripDef, definitionV, plainF, Bool.and_eq_true, Option.isNone_iff_eq_none, Bool.not_eq_true',
      List.isEmpty_eq_false_iff]
    exact ⟨⟨h1, pf_append_plain (plainAll_descV desc h2) (pf_cons_plain rfl (pf_cons_plain (plain_nameV name (by simpa using h3))
      (pf_append_all (fun f' => pf_append_all (fun f'' => pf_implementsV ifs h4 f'') (pf_of_plainAll (plainAll_directivesV dirs h5)))
        (pf_blockFD fields h6 fol (by simpa [openEnd] using hf)))))⟩, by simp [Item.yieldAll, Item.yield, yieldAll_append]⟩
  | objectTypeExtension name ifs dirs fields loc =>
    simp only [noLocTSDefinition, Bool.and_eq_true, Option.isNone_iff_eq_none] at h
    obtain ⟨⟨⟨⟨h1, h3⟩, h4⟩, h5⟩, h6⟩ := h
    simp only [stripDef, definitionV, plainF, Bool.and_eq_true, Option.isNone_iff_eq_none, Bool.not_eq_true',
      List.isEmpty_eq_false_iff]
    exact ⟨⟨h1, pf_cons_plain rfl (pf_cons_plain rfl (pf_cons_plain (plain_nameV name (by simpa using h3))
      (pf_append_all (fun f' => pf_append_all (fun f'' => pf_implementsV ifs h4 f'') (pf_of_plainAll (plainAll_directivesV dirs h5)))
        (pf_blockFD fields h6 fol (by simpa [openEnd] using hf)))))⟩, by simp [Item.yieldAll, Item.yield]⟩
  | interfaceTypeDefinition desc name dirs fields loc =>
    simp only [noLocTSDefinition, Bool.and_eq_true, Option.isNone_iff_eq_none] at h
    obtain ⟨⟨⟨⟨h1, h2⟩, h3⟩, h5⟩, h6⟩ := h
    simp only [stripDef, definitionV, plainF, Bool.and_eq_true, Option.isNone_iff_eq_none, Bool.not_eq_true',
      List.isEmpty_eq_false_iff]
    exact ⟨⟨h1, pf_append_plain (plainAll_descV desc h2) (pf_cons_plain rfl (pf_cons_plain (plain_nameV name (by simpa using h3))
      (pf_append_plain (plainAll_directivesV dirs h5) (pf_blockFD fields h6 fol (by simpa [openEnd] using hf)))))⟩,
      by simp [Item.yieldAll, Item.yield, yieldAll_append]⟩
  | interfaceTypeExtension name dirs fields loc =>
    simp only [noLocTSDefinition, Bool.and_eq_true, Option.isNone_iff_eq_none] at h
    obtain ⟨⟨⟨h1, h3⟩, h5⟩, h6⟩ := h
    simp only [stripDef, definitionV, plainF, Bool.and_eq_true, Option.isNone_iff_eq_none, Bool.not_eq_true',
      List.isEmpty_eq_false_iff]
    exact ⟨⟨h1, pf_cons_plain rfl (pf_cons_plain rfl (pf_cons_plain (plain_nameV name (by simpa using h3))
      (pf_append_plain (plainAll_directivesV dirs h5) (pf_blockFD fields h6 fol (by simpa [openEnd] using hf)))))⟩,
      by simp [Item.yieldAll, Item.yield]⟩
  | unionTypeDefinition desc name dirs types loc =>
    simp only [noLocTSDefinition, Bool.and_eq_true, Option.isNone_iff_eq_none] at h
    obtain ⟨⟨⟨⟨h1, h2⟩, h3⟩, h5⟩, h6⟩ := h
    simp only [stripDef, definitionV, plainF, Bool.and_eq_true, Option.isNone_iff_eq_none, Bool.not_eq_true',
      List.isEmpty_eq_false_iff]
    exact ⟨⟨h1, pf_append_plain (plainAll_descV desc h2) (pf_cons_plain rfl (pf_cons_plain (plain_nameV name (by simpa using h3))
      (pf_append_plain (plainAll_directivesV dirs h5) (pf_unionMembersV types h6 fol))))⟩,
      by simp [Item.yieldAll, Item.yield, yieldAll_append]⟩
  | unionTypeExtension name dirs types loc =>
    simp only [noLocTSDefinition, Bool.and_eq_true, Option.isNone_iff_eq_none] at h
    obtain ⟨⟨⟨h1, h3⟩, h5⟩, h6⟩ := h
    simp only [stripDef, definitionV, plainF, Bool.and_eq_true, Option.isNone_iff_eq_none, Bool.not_eq_true',
      List.isEmpty_eq_false_iff]
    exact ⟨⟨h1, pf_cons_plain rfl (pf_cons_plain rfl (pf_cons_plain (plain_nameV name (by simpa using h3))
      (pf_append_plain (plainAll_directivesV dirs h5) (pf_unionMembersV types h6 fol))))⟩, by simp [Item.yieldAll, Item.yield]⟩
  | enumTypeDefinition desc name dirs values loc =>
    simp only [noLocTSDefinition, Bool.and_eq_true, Option.isNone_iff_eq_none] at h
    obtain ⟨⟨⟨⟨h1, h2⟩, h3⟩, h5⟩, h6⟩ := h
    simp only [stripDef, definitionV, plainF, Bool.and_eq_true, Option.isNone_iff_eq_none, Bool.not_eq_true',
      List.isEmpty_eq_false_iff]
    exact ⟨⟨h1, pf_append_plain (plainAll_descV desc h2) (pf_cons_plain rfl (pf_cons_plain (plain_nameV name (by simpa using h3))
      (pf_append_plain (plainAll_directivesV dirs h5) (pf_blockEV values h6 fol (by simpa [openEnd] using hf)))))⟩,
      by simp [Item.yieldAll, Item.yield, yieldAll_append]⟩
  | enumTypeExtension name dirs values loc =>
    simp only [noLocTSDefinition, Bool.and_eq_true, Option.isNone_iff_eq_none] at h
    obtain ⟨⟨⟨h1, h3⟩, h5⟩, h6⟩ := h
    simp only [stripDef, definitionV, plainF, Bool.and_eq_true, Option.isNone_iff_eq_none, Bool.not_eq_true',
      List.isEmpty_eq_false_iff]
    exact ⟨⟨h1, pf_cons_plain rfl (pf_cons_plain rfl (pf_cons_plain (plain_nameV name (by simpa using h3))
      (pf_append_plain (plainAll_directivesV dirs h5) (pf_blockEV values h6 fol (by simpa [openEnd] using hf)))))⟩,
      by simp [Item.yieldAll, Item.yield]⟩
  | inputObjectTypeDefinition desc name dirs fields loc =>
    simp only [noLocTSDefinition, Bool.and_eq_true, Option.isNone_iff_eq_none] at h
    obtain ⟨⟨⟨⟨h1, h2⟩, h3⟩, h5⟩, h6⟩ := h
    simp only [stripDef, definitionV, plainF, Bool.and_eq_true, Option.isNone_iff_eq_none, Bool.not_eq_true',
      List.isEmpty_eq_false_iff]
    exact ⟨⟨h1, pf_append_plain (plainAll_descV desc h2) (pf_cons_plain rfl (pf_cons_plain (plain_nameV name (by simpa using h3))
      (pf_append_plain (plainAll_directivesV dirs h5) (pf_blockIV fields h6 fol (by simpa [openEnd] using hf)))))⟩,
      by simp [Item.yieldAll, Item.yield, yieldAll_append]⟩
  | inputObjectTypeExtension name dirs fields loc =>
    simp only [noLocTSDefinition, Bool.and_eq_true, Option.isNone_iff_eq_none] at h
    obtain ⟨⟨⟨h1, h3⟩, h5⟩, h6⟩ := h
    simp only [stripDef, definitionV, plainF, Bool.and_eq_true, Option.isNone_iff_eq_none, Bool.not_eq_true',
      List.isEmpty_eq_false_iff]
    exact ⟨⟨h1, pf_cons_plain rfl (pf_cons_plain rfl (pf_cons_plain (plain_nameV name (by simpa using h3))
      (pf_append_plain (plainAll_directivesV dirs h5) (pf_blockIV fields h6 fol (by simpa [openEnd] using hf)))))⟩,
      by simp [Item.yieldAll, Item.yield]⟩
  | directiveDefinition desc name args locations loc =>
    simp only [noLocTSDefinition, Bool.and_eq_true, Option.isNone_iff_eq_none] at h
    obtain ⟨⟨⟨⟨h1, h2⟩, h3⟩, h5⟩, h6⟩ := h
    simp only [stripDef, definitionV, plainF, Bool.and_eq_true, Option.isNone_iff_eq_none, Bool.not_eq_true',
      List.isEmpty_eq_false_iff]
    exact ⟨⟨h1, pf_append_plain (plainAll_descV desc h2) (pf_cons_plain rfl (pf_cons_plain rfl
      (pf_cons_plain (plain_nameV name (by simpa using h3)) (pf_append_plain (plainAll_argDefsV args h5)
        (pf_cons_plain rfl (plainAllF_sepV .pipe (by decide) nameV locations fol
          (fun x hx => plain_nameV x ((List.all_eq_true.1 h6) x hx)) (fun x _ => nameV_head x)))))))⟩,
      by simp [Item.yieldAll, Item.yield, yieldAll_append]⟩

end PyGql.PrintTokens

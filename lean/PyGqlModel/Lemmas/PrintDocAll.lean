/-
  All documents: the per-definition matcher facts (type-system definitions with look-ahead; the query shorthand with
  and without the keyword the R6 guard adds) and the document loop.
-/
import PyGqlModel.Lemmas.PrintLayTSDefs
import PyGqlModel.Lemmas.PrintMatchTS
namespace PyGql.PrintTokens
open PyGql PyGql.Ast PyGql.Parse PyGql.Spec PyGql.Print PyGql.PrintLex PyGql.PrintMatch PyGql.PrintString PyGql.Lex

theorem ne_nil_of_cons_append {α} (a : List α) (x : α) (b c : List α) : a ++ x :: b ++ c ≠ [] := by simp

theorem plainF_tsDefinition (d : Definition) (h : noLocTSDefinition d = true) (fol : List TokClass)
    (hf : openEnd d = true → (fol.head?.map Prod.fst) ≠ some .curlyL) :
    plainF (definitionV (stripDef d)) fol = true := by
  cases d with
  | operation d => simp [noLocTSDefinition] at h
  | fragment d => simp [noLocTSDefinition] at h
  | schemaDefinition dirs ops loc =>
    simp only [noLocTSDefinition, Bool.and_eq_true, Option.isNone_iff_eq_none] at h
    obtain ⟨⟨h1, h2⟩, h3⟩ := h
    have hops := plainAll_map operationTypeV ops (fun x hx => plain_operationTypeV x ((List.all_eq_true.1 h3) x hx))
    simp only [stripDef, definitionV, plainF, Bool.and_eq_true, Option.isNone_iff_eq_none, Bool.not_eq_true',
      List.isEmpty_eq_false_iff]
    refine ⟨⟨h1, pf_cons_plain rfl (pf_append_plain (plainAll_directivesV dirs h2) (pf_of_plainAll ?_))⟩, by simp [Item.yieldAll, Item.yield]⟩
    simp [plainAll, plainAll_append, plain, hops]
  | schemaExtension dirs ops loc =>
    simp only [noLocTSDefinition, Bool.and_eq_true, Option.isNone_iff_eq_none] at h
    obtain ⟨⟨h1, h2⟩, h3⟩ := h
    simp only [stripDef, definitionV, plainF, Bool.and_eq_true, Option.isNone_iff_eq_none, Bool.not_eq_true',
      List.isEmpty_eq_false_iff]
    exact ⟨⟨h1, pf_cons_plain rfl (pf_cons_plain rfl (pf_append_plain (plainAll_directivesV dirs h2)
      (pf_blockOT ops h3 fol (by simpa [openEnd] using hf))))⟩, by simp [Item.yieldAll, Item.yield]⟩
  | scalarTypeDefinition desc name dirs loc =>
    simp only [noLocTSDefinition, Bool.and_eq_true, Option.isNone_iff_eq_none] at h
    obtain ⟨⟨⟨h1, h2⟩, h3⟩, h4⟩ := h
    simp only [stripDef, definitionV, plainF, Bool.and_eq_true, Option.isNone_iff_eq_none, Bool.not_eq_true',
      List.isEmpty_eq_false_iff]
    exact ⟨⟨h1, pf_append_plain (plainAll_descV desc h2) (pf_cons_plain rfl (pf_cons_plain (plain_nameV name (by simpa using h3))
      (pf_of_plainAll (plainAll_directivesV dirs h4))))⟩, by simp [Item.yieldAll, Item.yield, yieldAll_append]⟩
  | scalarTypeExtension name dirs loc =>
    simp only [noLocTSDefinition, Bool.and_eq_true, Option.isNone_iff_eq_none] at h
    obtain ⟨⟨h1, h3⟩, h4⟩ := h
    simp only [stripDef, definitionV, plainF, Bool.and_eq_true, Option.isNone_iff_eq_none, Bool.not_eq_true',
      List.isEmpty_eq_false_iff]
    exact ⟨⟨h1, pf_cons_plain rfl (pf_cons_plain rfl (pf_cons_plain (plain_nameV name (by simpa using h3))
      (pf_of_plainAll (plainAll_directivesV dirs h4))))⟩, by simp [Item.yieldAll, Item.yield]⟩
  | objectTypeDefinition desc name ifs dirs fields loc =>
    simp only [noLocTSDefinition, Bool.and_eq_true, Option.isNone_iff_eq_none] at h
    obtain ⟨⟨⟨⟨⟨h1, h2⟩, h3⟩, h4⟩, h5⟩, h6⟩ := h
    simp only [stripDef, definitionV, plainF, Bool.and_eq_true, Option.isNone_iff_eq_none, Bool.not_eq_true',
      List.isEmpty_eq_false_iff]
    exact ⟨⟨h1, pf_append_plain (plainAll_descV desc h2) (pf_cons_plain rfl (pf_cons_plain (plain_nameV name (by simpa using h3))
      (pf_append_all (fun f' => pf_append_all (fun f'' => pf_implementsV ifs h4 f'') (pf_of_plainAll (plainAll_directivesV dirs h5)))
        (pf_blockFD fields h6 fol (by simpa [openEnd] using hf)))))⟩, by simp [Item.yieldAll, Item.yield, yieldAll_append]⟩
  | objectTypeExtension name ifs dirs fields loc =>
    simp only [noLocTSDefinition, Bool.and_eq_true, Option.isNone_iff_eq_none] at h
    obtain ⟨⟨⟨⟨h1, h3⟩, h4⟩, h5⟩, h6⟩ := h
    simp only [stripDef, definitionV, plainF, Bool.and_eq_true, Option.isNone_iff_eq_none, Bool.not_eq_true',
      List.isEmpty_eq_false_iff]
    exact ⟨⟨h1, pf_cons_plain rfl (pf_cons_plain rfl (pf_cons_plain (plain_nameV name (by simpa using h3))
      (pf_append_all (fun f' => pf_append_all (fun f'' => pf_implementsV ifs h4 f'') (pf_of_plainAll (plainAll_directivesV dirs h5)))
        (pf_blockFD fields h6 fol (by simpa [openEnd] using hf)))))⟩, by simp [Item.yieldAll, Item.yield]⟩
  | interfaceTypeDefinition desc name dirs fields loc =>
    simp only [noLocTSDefinition, Bool.and_eq_true, Option.isNone_iff_eq_none] at h
    obtain ⟨⟨⟨⟨h1, h2⟩, h3⟩, h5⟩, h6⟩ := h
    simp only [stripDef, definitionV, plainF, Bool.and_eq_true, Option.isNone_iff_eq_none, Bool.not_eq_true',
      List.isEmpty_eq_false_iff]
    exact ⟨⟨h1, pf_append_plain (plainAll_descV desc h2) (pf_cons_plain rfl (pf_cons_plain (plain_nameV name (by simpa using h3))
      (pf_append_plain (plainAll_directivesV dirs h5) (pf_blockFD fields h6 fol (by simpa [openEnd] using hf)))))⟩,
      by simp [Item.yieldAll, Item.yield, yieldAll_append]⟩
  | interfaceTypeExtension name dirs fields loc =>
    simp only [noLocTSDefinition, Bool.and_eq_true, Option.isNone_iff_eq_none] at h
    obtain ⟨⟨⟨h1, h3⟩, h5⟩, h6⟩ := h
    simp only [stripDef, definitionV, plainF, Bool.and_eq_true, Option.isNone_iff_eq_none, Bool.not_eq_true',
      List.isEmpty_eq_false_iff]
    exact ⟨⟨h1, pf_cons_plain rfl (pf_cons_plain rfl (pf_cons_plain (plain_nameV name (by simpa using h3))
      (pf_append_plain (plainAll_directivesV dirs h5) (pf_blockFD fields h6 fol (by simpa [openEnd] using hf)))))⟩,
      by simp [Item.yieldAll, Item.yield]⟩
  | unionTypeDefinition desc name dirs types loc =>
    simp only [noLocTSDefinition, Bool.and_eq_true, Option.isNone_iff_eq_none] at h
    obtain ⟨⟨⟨⟨h1, h2⟩, h3⟩, h5⟩, h6⟩ := h
    simp only [stripDef, definitionV, plainF, Bool.and_eq_true, Option.isNone_iff_eq_none, Bool.not_eq_true',
      List.isEmpty_eq_false_iff]
    exact ⟨⟨h1, pf_append_plain (plainAll_descV desc h2) (pf_cons_plain rfl (pf_cons_plain (plain_nameV name (by simpa using h3))
      (pf_append_plain (plainAll_directivesV dirs h5) (pf_unionMembersV types h6 fol))))⟩,
      by simp [Item.yieldAll, Item.yield, yieldAll_append]⟩
  | unionTypeExtension name dirs types loc =>
    simp only [noLocTSDefinition, Bool.and_eq_true, Option.isNone_iff_eq_none] at h
    obtain ⟨⟨⟨h1, h3⟩, h5⟩, h6⟩ := h
    simp only [stripDef, definitionV, plainF, Bool.and_eq_true, Option.isNone_iff_eq_none, Bool.not_eq_true',
      List.isEmpty_eq_false_iff]
    exact ⟨⟨h1, pf_cons_plain rfl (pf_cons_plain rfl (pf_cons_plain (plain_nameV name (by simpa using h3))
      (pf_append_plain (plainAll_directivesV dirs h5) (pf_unionMembersV types h6 fol))))⟩, by simp [Item.yieldAll, Item.yield]⟩
  | enumTypeDefinition desc name dirs values loc =>
    simp only [noLocTSDefinition, Bool.and_eq_true, Option.isNone_iff_eq_none] at h
    obtain ⟨⟨⟨⟨h1, h2⟩, h3⟩, h5⟩, h6⟩ := h
    simp only [stripDef, definitionV, plainF, Bool.and_eq_true, Option.isNone_iff_eq_none, Bool.not_eq_true',
      List.isEmpty_eq_false_iff]
    exact ⟨⟨h1, pf_append_plain (plainAll_descV desc h2) (pf_cons_plain rfl (pf_cons_plain (plain_nameV name (by simpa using h3))
      (pf_append_plain (plainAll_directivesV dirs h5) (pf_blockEV values h6 fol (by simpa [openEnd] using hf)))))⟩,
      by simp [Item.yieldAll, Item.yield, yieldAll_append]⟩
  | enumTypeExtension name dirs values loc =>
    simp only [noLocTSDefinition, Bool.and_eq_true, Option.isNone_iff_eq_none] at h
    obtain ⟨⟨⟨h1, h3⟩, h5⟩, h6⟩ := h
    simp only [stripDef, definitionV, plainF, Bool.and_eq_true, Option.isNone_iff_eq_none, Bool.not_eq_true',
      List.isEmpty_eq_false_iff]
    exact ⟨⟨h1, pf_cons_plain rfl (pf_cons_plain rfl (pf_cons_plain (plain_nameV name (by simpa using h3))
      (pf_append_plain (plainAll_directivesV dirs h5) (pf_blockEV values h6 fol (by simpa [openEnd] using hf)))))⟩,
      by simp [Item.yieldAll, Item.yield]⟩
  | inputObjectTypeDefinition desc name dirs fields loc =>
    simp only [noLocTSDefinition, Bool.and_eq_true, Option.isNone_iff_eq_none] at h
    obtain ⟨⟨⟨⟨h1, h2⟩, h3⟩, h5⟩, h6⟩ := h
    simp only [stripDef, definitionV, plainF, Bool.and_eq_true, Option.isNone_iff_eq_none, Bool.not_eq_true',
      List.isEmpty_eq_false_iff]
    exact ⟨⟨h1, pf_append_plain (plainAll_descV desc h2) (pf_cons_plain rfl (pf_cons_plain (plain_nameV name (by simpa using h3))
      (pf_append_plain (plainAll_directivesV dirs h5) (pf_blockIV fields h6 fol (by simpa [openEnd] using hf)))))⟩,
      by simp [Item.yieldAll, Item.yield, yieldAll_append]⟩
  | inputObjectTypeExtension name dirs fields loc =>
    simp only [noLocTSDefinition, Bool.and_eq_true, Option.isNone_iff_eq_none] at h
    obtain ⟨⟨⟨h1, h3⟩, h5⟩, h6⟩ := h
    simp only [stripDef, definitionV, plainF, Bool.and_eq_true, Option.isNone_iff_eq_none, Bool.not_eq_true',
      List.isEmpty_eq_false_iff]
    exact ⟨⟨h1, pf_cons_plain rfl (pf_cons_plain rfl (pf_cons_plain (plain_nameV name (by simpa using h3))
      (pf_append_plain (plainAll_directivesV dirs h5) (pf_blockIV fields h6 fol (by simpa [openEnd] using hf)))))⟩,
      by simp [Item.yieldAll, Item.yield]⟩
  | directiveDefinition desc name args locations loc =>
    simp only [noLocTSDefinition, Bool.and_eq_true, Option.isNone_iff_eq_none] at h
    obtain ⟨⟨⟨⟨h1, h2⟩, h3⟩, h5⟩, h6⟩ := h
    simp only [stripDef, definitionV, plainF, Bool.and_eq_true, Option.isNone_iff_eq_none, Bool.not_eq_true',
      List.isEmpty_eq_false_iff]
    exact ⟨⟨h1, pf_append_plain (plainAll_descV desc h2) (pf_cons_plain rfl (pf_cons_plain rfl
      (pf_cons_plain (plain_nameV name (by simpa using h3)) (pf_append_plain (plainAll_argDefsV args h5)
        (pf_cons_plain rfl (plainAllF_sepV .pipe (by decide) nameV locations fol
          (fun x hx => plain_nameV x ((List.all_eq_true.1 h6) x hx)) (fun x _ => nameV_head x)))))))⟩,
      by simp [Item.yieldAll, Item.yield, yieldAll_append]⟩


/-! ### every definition -/

def isShortOp : Definition → Bool
  | .operation d => isShorthand d
  | _ => false

def isExecDef : Definition → Bool
  | .operation _ | .fragment _ => true
  | _ => false

/-- leaf conditions of any definition -/
def okDefinition (ind : Text) (d : Definition) : Prop :=
  if isExecDef d then okExecDefinition ind d else okTSDefinition ind d
/-- no positions (member descriptions ignored) -/
def noLocDefinition (d : Definition) : Bool := if isExecDef d then noLocExecDefinition d else noLocTSDefinition d

/-- what the document loop needs to know about one printed definition -/
structure GFacts (c : Cfg) (d : Definition) : Prop where
  lay : Lay (printDefinition c d) (definitionV (stripDef d)).yield
  ne : printDefinition c d ≠ []
  head : (printDefinition c d).head? = some 123 ↔ isShortOp d = true
  nb : openEnd d = true → NB (printDefinition c d)

theorem gfacts (c : Cfg) (hdesc : c.includeDescriptions = true) (hind : Blank c.indent) (d : Definition)
    (h : okDefinition c.indent d) : GFacts c d := by
  cases d with
  | operation o =>
    simp only [okDefinition, isExecDef, ↓reduceIte, okExecDefinition] at h
    obtain ⟨l, pre, hpre⟩ := lay_operation c hind o h
    have heq := printOperationDefinition_eq c o h
    refine ⟨by simpa [printDefinition, definitionV, stripDef] using l, by simp [printDefinition, hpre], ?_, by intro e; simp [openEnd] at e⟩
    simp only [printDefinition, isShortOp]
    by_cases hs : isShorthand o = true
    · obtain ⟨_, _, pre', hp'⟩ := lay_selectionSet_delim c hind o.selectionSet h.2.2.2.2
      simp [heq, hs, hp']
    · have hs' : isShorthand o = false := by simpa using hs
      have hop := kw_facts (operation_isName h.1)
      simp only [heq, hs', Bool.false_eq_true, ↓reduceIte, iff_false]
      rw [head?_append_ne hop.1]; exact hop.2.1
  | fragment f =>
    simp only [okDefinition, isExecDef, ↓reduceIte, okExecDefinition] at h
    obtain ⟨l, pre, hpre⟩ := lay_fragment c hind f h
    refine ⟨by simpa [printDefinition, definitionV, stripDef] using l, by simp [printDefinition, hpre], ?_, by intro e; simp [openEnd] at e⟩
    have e1 : lit "fragment " = K.fragment ++ [32] := by decide
    simp [printDefinition, isShortOp, printFragmentDefinition, e1, K.fragment]
  | _ =>
    simp only [okDefinition, isExecDef, Bool.false_eq_true, ↓reduceIte] at h
    have f := tsDefFacts c hdesc hind _ h
    exact ⟨f.lay, f.ne, by simp only [isShortOp, Bool.false_eq_true, iff_false]; exact f.head, f.nb⟩

/-! ### the document loop with the R6 guard -/

/-- the guard of `print_document` -/
def guardBit (prev : Option Text) (e : Text) : Bool :=
  match prev with
  | some p => e.head? == some 123 && !(p.getLast? == some 125)
  | none => false

/-- the entries of `print_document` with the classes of their tokens -/
def entryPairs (c : Cfg) : Option Text → List Definition → List LP
  | _, [] => []
  | prev, d :: ds =>
    let e := printDefinition c d
    let b := guardBit prev e
    let e' := if b then lit "query " ++ e else e
    (e', (if b then [(.name, K.query)] else []) ++ (definitionV (stripDef d)).yield) :: entryPairs c (some e') ds

theorem documentEntries_eq (c : Cfg) : ∀ (ds : List Definition) (acc : List Text), (∀ d ∈ ds, printDefinition c d ≠ []) →
    documentEntries c acc ds = acc.reverse ++ (entryPairs c acc.head? ds).map Prod.fst
  | [], acc, _ => by simp [documentEntries, entryPairs]
  | d :: ds, acc, h => by
    have hne := h d (by simp)
    have ih := fun acc' => documentEntries_eq c ds acc' (fun x hx => h x (by simp [hx]))
    cases acc with
    | nil =>
      have hn : (printDefinition c d).isEmpty = false := by cases hv : printDefinition c d <;> simp_all
      simp only [documentEntries, hn, Bool.false_eq_true, ↓reduceIte, ih, entryPairs, guardBit, List.head?_nil,
        List.head?_cons]
      simp
    | cons prev rest =>
      simp only [documentEntries, entryPairs, guardBit, List.head?_cons]
      by_cases hb : ((printDefinition c d).head? == some 123 && !(prev.getLast? == some 125)) = true
      · have hn : (lit "query " ++ printDefinition c d).isEmpty = false := by
          have : lit "query " = [113, 117, 101, 114, 121, 32] := by decide
          simp [this]
        simp only [hb, ↓reduceIte, hn, Bool.false_eq_true, ih, List.head?_cons]
        simp
      · have hb' : ((printDefinition c d).head? == some 123 && !(prev.getLast? == some 125)) = false := by simpa using hb
        have hn : (printDefinition c d).isEmpty = false := by cases hv : printDefinition c d <;> simp_all
        simp only [hb', Bool.false_eq_true, ↓reduceIte, hn, ih, List.head?_cons]
        simp

theorem entryPairs_lay (c : Cfg) : ∀ (ds : List Definition) (prev : Option Text), (∀ d ∈ ds, GFacts c d) →
    (∀ p ∈ entryPairs c prev ds, Lay p.1 p.2) ∧ (∀ p ∈ entryPairs c prev ds, p.1 ≠ [])
  | [], _, _ => ⟨by intro p hp; simp [entryPairs] at hp, by intro p hp; simp [entryPairs] at hp⟩
  | d :: ds, prev, h => by
    obtain ⟨i1, i2⟩ := entryPairs_lay c ds (some (if guardBit prev (printDefinition c d) then lit "query " ++ printDefinition c d
      else printDefinition c d)) (fun x hx => h x (by simp [hx]))
    have f := h d (by simp)
    have hq : Spec.Lexical.isName K.query = true := by decide
    have eq : lit "query " = K.query ++ [32] := by decide
    constructor
    · intro p hp
      simp only [entryPairs, List.mem_cons] at hp
      rcases hp with rfl | hp
      · by_cases hb : guardBit prev (printDefinition c d) = true
        · simp only [hb, ↓reduceIte, eq]
          simpa using lay_append (lay_name hq) (lay_space_cons f.lay) (delimHead_cons (by decide))
        · have hb' : guardBit prev (printDefinition c d) = false := by simpa using hb
          simpa [hb'] using f.lay
      · exact i1 p hp
    · intro p hp
      simp only [entryPairs, List.mem_cons] at hp
      rcases hp with rfl | hp
      · by_cases hb : guardBit prev (printDefinition c d) = true
        · simp [hb, eq, K.query]
        · have hb' : guardBit prev (printDefinition c d) = false := by simpa using hb
          simpa [hb'] using f.ne
      · exact i2 p hp

/-- the printed document lexes to the classes of its entries -/
theorem lexesTo_document (c : Cfg) (d : Document) (h : ∀ x ∈ d.definitions, GFacts c x) :
    LexesTo (printDocument c d) ((entryPairs c none d.definitions).flatMap Prod.snd) := by
  obtain ⟨hl, hne⟩ := entryPairs_lay c d.definitions none h
  have he := documentEntries_eq c d.definitions [] (fun x hx => (h x hx).ne)
  have l1 := lay_joinSep [10, 10] [] (fun b cb hb => by simpa using lay_lf_cons (lay_lf_cons hb))
    (fun b => delimHead_cons (by decide)) _ hl
  rw [joinCls_nil] at l1
  have l2 := lay_append l1 (lay_lf_cons lay_nil) (delimHead_cons (by decide))
  have := lexesTo_of_lay l2 [] [] safe_nil lexesTo_nil
  unfold printDocument
  rw [he, join_eq_joinSep _ _ (by
    intro x hx; simp only [List.reverse_nil, List.nil_append, List.head?_nil, List.mem_map] at hx
    obtain ⟨p, hp, rfl⟩ := hx; exact hne p hp)]
  simpa using this

end PyGql.PrintTokens

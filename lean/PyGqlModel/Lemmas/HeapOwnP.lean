/-
  C14 — ownership / separation invariant for the object heap, PER SCHEMA (region form of `Lemmas/HeapOwn.lean`).

  `HeapOwn` separates "the source" (addresses `< n`) from "the result" (addresses `≥ n`). When several derived schemas live on one
  heap their objects interleave, so ownership is a REGION `P : Addr → Prop`:
  `Inv P h`: every address not yet allocated is in `P` (what the step allocates belongs to the schema it works on) and every
  object in `P` owns (through its `fields` / `arguments` lists) only objects in `P`. `Pres P h h'`: `h'` still satisfies `Inv P`
  and NO OBJECT OUTSIDE `P` was written. Every visitor hook keeps `Pres` when it is started on an address in `P`; so does
  `SchemaVisitor.on_schema` on a schema whose non-protected type objects and directive objects are in `P` (`onSchema_ok`).
  The proofs are those of `HeapOwn` with `n ≤ ·` replaced by `P`.
-/
import PyGqlModel.Lemmas.HeapOwn

set_option linter.unusedSimpArgs false
set_option linter.unusedVariables false

namespace PyGql.Heap.OwnP
open PyGql.Heap
open PyGql.Heap.Own (read_alloc_old read_alloc_new read_alloc_lt size_alloc alloc_addr size_write read_write_other read_write read_lt
  readArg_read readField_read readType_read readDir_read mem_regSet mem_regErase lookup_none_ne)

/-- the member objects an object owns THROUGH ITS KIND: `fields` of object / interface / input object types only (what
    closedness and well-formedness read; `Heap.kids` also lists the `fields` attribute of a union / enum / scalar type object) -/
def kids' : Obj → List Addr
  | .type t => typeKids t
  | .field f => f.args
  | .arg _ => []
  | .dir d => d.args

theorem typeKids_sub {t : TypeO} {c : Addr} (hc : c ∈ typeKids t) : c ∈ t.fields := by
  simp only [typeKids] at hc
  split at hc <;> first | exact hc | cases hc

theorem kidsT {P : Addr → Prop} {t : TypeO} (hfs : ∀ c, c ∈ t.fields → P c) : ∀ c, c ∈ kids' (.type t) → P c :=
  fun c hc => hfs c (typeKids_sub hc)

def Inv (P : Addr → Prop) (h : Heap) : Prop :=
  (∀ a, h.size ≤ a → P a) ∧ ∀ a o, P a → h.read a = some o → ∀ c, c ∈ kids' o → P c

def Pres (P : Addr → Prop) (h h' : Heap) : Prop :=
  Inv P h' ∧ h.size ≤ h'.size ∧ ∀ x, ¬ P x → h'.read x = h.read x

theorem Pres.refl {P : Addr → Prop} {h : Heap} (i : Inv P h) : Pres P h h := ⟨i, Nat.le_refl _, fun _ _ => rfl⟩

theorem Pres.trans {P : Addr → Prop} {h1 h2 h3 : Heap} (a : Pres P h1 h2) (b : Pres P h2 h3) : Pres P h1 h3 :=
  ⟨b.1, Nat.le_trans a.2.1 b.2.1, fun x hx => by rw [b.2.2 x hx, a.2.2 x hx]⟩

theorem pres_alloc {P : Addr → Prop} {h : Heap} (i : Inv P h) (o : Obj) (ho : ∀ c, c ∈ kids' o → P c) :
    Pres P h (h.alloc o).1 ∧ P (h.alloc o).2 := by
  refine ⟨⟨⟨?_, ?_⟩, ?_, ?_⟩, ?_⟩
  · intro a ha; rw [size_alloc] at ha; exact i.1 a (by omega)
  · intro a o' ha hr c hc
    rcases read_alloc_lt h o a o' hr with hlt | ⟨_, rfl⟩
    · rw [read_alloc_old h o a hlt] at hr
      exact i.2 a o' ha hr c hc
    · exact ho c hc
  · rw [size_alloc]; omega
  · intro x hx
    have hlt : x < h.size := by
      apply Classical.byContradiction
      intro hn
      exact hx (i.1 x (Nat.le_of_not_lt hn))
    exact read_alloc_old h o x hlt
  · rw [alloc_addr]; exact i.1 _ (Nat.le_refl _)

theorem pres_write {P : Addr → Prop} {h : Heap} (i : Inv P h) (a : Addr) (o : Obj) (ha : P a) (ho : ∀ c, c ∈ kids' o → P c) :
    Pres P h (h.write a o) := by
  refine ⟨⟨?_, ?_⟩, ?_, ?_⟩
  · intro x hx; rw [size_write] at hx; exact i.1 x hx
  · intro b o' hb hr c hc
    rcases read_write h a b o o' hr with ⟨_, rfl⟩ | ⟨_, hr'⟩
    · exact ho c hc
    · exact i.2 b o' hb hr' c hc
  · rw [size_write]; exact Nat.le_refl _
  · intro x hx
    exact read_write_other h a x o (fun e => hx (e ▸ ha))

theorem field_args_fresh {P : Addr → Prop} {h : Heap} (i : Inv P h) {a : Addr} (ha : P a) {f : FieldO} (hr : h.readField a = some f) :
    ∀ c, c ∈ f.args → P c := fun c hc => i.2 a _ ha (readField_read hr) c (by simpa [kids'] using hc)

theorem type_fields_fresh {P : Addr → Prop} {h : Heap} (i : Inv P h) {a : Addr} (ha : P a) {t : TypeO} (hr : h.readType a = some t) :
    ∀ c, c ∈ typeKids t → P c := fun c hc => i.2 a _ ha (readType_read hr) c (by simpa [kids'] using hc)

theorem dir_args_fresh {P : Addr → Prop} {h : Heap} (i : Inv P h) {a : Addr} (ha : P a) {d : DirO} (hr : h.readDir a = some d) :
    ∀ c, c ∈ d.args → P c := fun c hc => i.2 a _ ha (readDir_read hr) c (by simpa [kids'] using hc)

/-- what a visitor hook guarantees when started on an owned address -/
def HookOK (P : Addr → Prop) (f : Heap → Addr → Heap × Option Addr) : Prop :=
  ∀ h a, Inv P h → P a → Pres P h (f h a).1 ∧ ∀ a', (f h a).2 = some a' → P a'

theorem mapFilter_ok {P : Addr → Prop} {f : Heap → Addr → Heap × Option Addr} (hf : HookOK P f) :
    ∀ (as : List Addr) (h : Heap), Inv P h → (∀ c, c ∈ as → P c) →
      Pres P h (mapFilter f h as).1 ∧ ∀ c, c ∈ (mapFilter f h as).2 → P c := by
  intro as
  induction as with
  | nil => intro h i _; exact ⟨Pres.refl i, by simp [mapFilter]⟩
  | cons a as ih =>
    intro h i has
    simp only [mapFilter]
    obtain ⟨p1, r1⟩ := hf h a i (has a (by simp))
    obtain ⟨p2, r2⟩ := ih (f h a).1 p1.1 (fun c hc => has c (by simp [hc]))
    refine ⟨p1.trans p2, ?_⟩
    intro c hc
    split at hc
    · rename_i x hx
      simp only [List.mem_cons] at hc
      rcases hc with rfl | hc
      · exact r1 _ hx
      · exact r2 c hc
    · exact r2 c hc

/-! ### hooks -/

theorem onArgument_ok (P : Addr → Prop) (v : Visitor) (reg : List (String × Addr)) : HookOK P (onArgument v reg) := by
  intro h a i ha
  simp only [onArgument]
  split
  · exact ⟨Pres.refl i, fun a' e => by cases e; exact ha⟩
  · rename_i g hg
    cases v with
    | camel ren =>
      obtain ⟨p, q⟩ := pres_alloc i (.arg { g with name := ren g.name }) (by simp [kids'])
      exact ⟨p, fun a' e => by cases e; exact q⟩
    | heal =>
      simp only
      split
      · exact ⟨Pres.refl i, fun a' e => by cases e⟩
      · exact ⟨pres_write i a _ ha (by simp [kids']), fun a' e => by cases e; exact ha⟩
    | vis p => exact ⟨Pres.refl i, fun a' e => by cases e; exact ha⟩
    | sdir d w => exact ⟨Pres.refl i, fun a' e => by cases e; exact ha⟩

theorem onInputField_ok (P : Addr → Prop) (v : Visitor) (reg : List (String × Addr)) : HookOK P (onInputField v reg) := by
  intro h a i ha
  simp only [onInputField]
  split
  · exact ⟨Pres.refl i, fun a' e => by cases e; exact ha⟩
  · rename_i g hg
    cases v with
    | camel ren =>
      obtain ⟨p, q⟩ := pres_alloc i (.arg { g with name := ren g.name }) (by simp [kids'])
      exact ⟨p, fun a' e => by cases e; exact q⟩
    | heal =>
      simp only
      split
      · exact ⟨Pres.refl i, fun a' e => by cases e⟩
      · exact ⟨pres_write i a _ ha (by simp [kids']), fun a' e => by cases e; exact ha⟩
    | vis p =>
      simp only
      split
      · exact ⟨Pres.refl i, fun a' e => by cases e; exact ha⟩
      · exact ⟨Pres.refl i, fun a' e => by cases e⟩
    | sdir d w => exact ⟨Pres.refl i, fun a' e => by cases e; exact ha⟩

theorem onFieldBase_ok (P : Addr → Prop) (v : Visitor) (reg : List (String × Addr)) (h : Heap) (a : Addr) (f : FieldO)
    (i : Inv P h) (ha : P a) (hf : ∀ c, c ∈ f.args → P c) :
    Pres P h (onFieldBase v reg h a f).1 ∧ P (onFieldBase v reg h a f).2 := by
  simp only [onFieldBase]
  obtain ⟨p, q⟩ := mapFilter_ok (onArgument_ok P v reg) f.args h i hf
  split
  · obtain ⟨p2, q2⟩ := pres_alloc p.1 (.field { f with args := (mapFilter (onArgument v reg) h f.args).2 }) (by simpa [kids'] using q)
    exact ⟨p.trans p2, q2⟩
  · exact ⟨p, ha⟩

theorem healFieldType_ok (P : Addr → Prop) (reg : List (String × Addr)) : HookOK P (healFieldType reg) := by
  intro h a i ha
  simp only [healFieldType]
  split
  · exact ⟨Pres.refl i, fun a' e => by cases e; exact ha⟩
  · rename_i f hf
    split
    · exact ⟨Pres.refl i, fun a' e => by cases e⟩
    · exact ⟨pres_write i a _ ha (by simpa [kids'] using field_args_fresh i ha hf), fun a' e => by cases e; exact ha⟩

theorem onField_ok (P : Addr → Prop) (v : Visitor) (reg : List (String × Addr)) (tn : String) : HookOK P (onField v reg tn) := by
  intro h a i ha
  simp only [onField]
  split
  · exact ⟨Pres.refl i, fun a' e => by cases e; exact ha⟩
  · rename_i f hf
    have hargs := field_args_fresh i ha hf
    cases v with
    | camel ren =>
      simp only
      obtain ⟨p, q⟩ := pres_alloc i (.field { f with name := ren f.name }) (by simpa [kids'] using hargs)
      obtain ⟨p2, q2⟩ := onFieldBase_ok P (.camel ren) reg _ _ { f with name := ren f.name } p.1 q hargs
      exact ⟨p.trans p2, fun a' e => by cases e; exact q2⟩
    | sdir d w =>
      simp only
      split
      · exact ⟨Pres.refl i, fun a' e => by cases e⟩
      · split
        · rename_i id _
          obtain ⟨p, q⟩ := pres_alloc i (.field { f with res := some id }) (by simpa [kids'] using hargs)
          obtain ⟨p2, q2⟩ := onFieldBase_ok P (.sdir d w) reg _ _ { f with res := some id } p.1 q hargs
          exact ⟨p.trans p2, fun a' e => by cases e; exact q2⟩
        · obtain ⟨p2, q2⟩ := onFieldBase_ok P (.sdir d w) reg h a f i ha hargs
          exact ⟨p2, fun a' e => by cases e; exact q2⟩
    | heal =>
      simp only
      obtain ⟨p2, q2⟩ := onFieldBase_ok P .heal reg h a f i ha hargs
      obtain ⟨p3, q3⟩ := healFieldType_ok P reg _ _ p2.1 q2
      exact ⟨p2.trans p3, q3⟩
    | vis p =>
      simp only
      obtain ⟨p2, q2⟩ := onFieldBase_ok P (.vis p) reg h a f i ha hargs
      exact ⟨p2, fun a' e => by cases e; exact q2⟩


theorem filter_fresh {P : Addr → Prop} {l : List Addr} (p : Addr → Bool) (hl : ∀ c, c ∈ l → P c) : ∀ c, c ∈ l.filter p → P c :=
  fun c hc => hl c (List.mem_filter.mp hc).1

theorem rebuilt_ok {P : Addr → Prop} {h h1 : Heap} (p : Pres P h h1) (a : Addr) (ha : P a) (t : TypeO) (fs old : List Addr)
    (hfs : ∀ c, c ∈ fs → P c) :
    Pres P h (if fs != old then h1.alloc (.type { t with fields := fs }) else (h1, a)).1 ∧
      P (if fs != old then h1.alloc (.type { t with fields := fs }) else (h1, a)).2 := by
  split
  · obtain ⟨p2, q2⟩ := pres_alloc p.1 (.type { t with fields := fs }) (kidsT (t := { t with fields := fs }) hfs)
    exact ⟨p.trans p2, q2⟩
  · exact ⟨p, ha⟩

theorem compositeRest_ok (P : Addr → Prop) (v : Visitor) (reg : List (String × Addr)) (a : Addr) (h : Heap) (t : TypeO)
    (i : Inv P h) (ha : P a) (ht : ∀ c, c ∈ t.fields → P c) :
    Pres P h (compositeRest v reg a h t).1 ∧ ∀ a', (compositeRest v reg a h t).2 = some a' → P a' := by
  simp only [compositeRest, rebuiltOrSame]
  obtain ⟨p, q⟩ := mapFilter_ok (onField_ok P v reg t.name) t.fields h i ht
  obtain ⟨pu, qu⟩ := rebuilt_ok p a ha t _ t.fields q
  cases v with
  | heal =>
    simp only
    split
    · split
      · rename_i tu htu
        refine ⟨pu.trans (pres_write pu.1 _ _ qu ?_), fun a' e => by cases e; exact qu⟩
        simpa [kids', typeKids] using type_fields_fresh pu.1 qu htu
      · exact ⟨pu, fun a' e => by cases e; exact qu⟩
    · exact ⟨pu, fun a' e => by cases e; exact qu⟩
  | vis p => exact ⟨pu, fun a' e => by cases e; exact qu⟩
  | camel r => exact ⟨pu, fun a' e => by cases e; exact qu⟩
  | sdir d w => exact ⟨pu, fun a' e => by cases e; exact qu⟩

/-- `on_object` / `on_interface`, started on an owned type object -/
theorem onComposite_ok (P : Addr → Prop) (v : Visitor) (reg : List (String × Addr)) (h : Heap) (a : Addr) (t : TypeO)
    (i : Inv P h) (ha : P a) (ht : ∀ c, c ∈ t.fields → P c) :
    Pres P h (onComposite v reg h a t).1 ∧ ∀ a', (onComposite v reg h a t).2 = some a' → P a' := by
  simp only [onComposite]
  cases v with
  | vis p =>
    simp only
    split
    · exact ⟨Pres.refl i, fun a' e => by cases e⟩
    · split
      · have pw := pres_write i a (.type { t with fields := t.fields.filter fun fa => match fieldName h fa with | some fnm => p.fieldVis t.name fnm | none => true })
          ha (kidsT (t := { t with fields := t.fields.filter fun fa => match fieldName h fa with | some fnm => p.fieldVis t.name fnm | none => true }) (filter_fresh _ ht))
        obtain ⟨p2, q2⟩ := compositeRest_ok P (.vis p) reg a _ { t with fields := t.fields.filter fun fa => match fieldName h fa with | some fnm => p.fieldVis t.name fnm | none => true }
          pw.1 ha (by simpa using filter_fresh _ ht)
        exact ⟨pw.trans p2, q2⟩
      · exact compositeRest_ok P _ reg a h t i ha ht
  | heal => exact compositeRest_ok P _ reg a h t i ha ht
  | camel r => exact compositeRest_ok P _ reg a h t i ha ht
  | sdir d w => exact compositeRest_ok P _ reg a h t i ha ht

theorem inputRest_ok (P : Addr → Prop) (v : Visitor) (reg : List (String × Addr)) (a : Addr) (nm : String) (h : Heap) (t : TypeO)
    (i : Inv P h) (ha : P a) (ht : ∀ c, c ∈ t.fields → P c) :
    Pres P h (inputRest v reg a nm h t).1 ∧ ∀ a', (inputRest v reg a nm h t).2 = some a' → P a' := by
  simp only [inputRest, rebuiltOrSame]
  obtain ⟨p, q⟩ := mapFilter_ok (onInputField_ok P v reg) t.fields h i ht
  obtain ⟨pu, qu⟩ := rebuilt_ok p a ha t _ t.fields q
  cases v with
  | vis p =>
    simp only
    split
    · exact ⟨pu, fun a' e => by cases e; exact qu⟩
    · exact ⟨pu, fun a' e => by cases e⟩
  | heal => exact ⟨pu, fun a' e => by cases e; exact qu⟩
  | camel r => exact ⟨pu, fun a' e => by cases e; exact qu⟩
  | sdir d w => exact ⟨pu, fun a' e => by cases e; exact qu⟩

theorem onInputObject_ok (P : Addr → Prop) (v : Visitor) (reg : List (String × Addr)) (h : Heap) (a : Addr) (t : TypeO)
    (i : Inv P h) (ha : P a) (ht : ∀ c, c ∈ t.fields → P c) :
    Pres P h (onInputObject v reg h a t).1 ∧ ∀ a', (onInputObject v reg h a t).2 = some a' → P a' := by
  simp only [onInputObject]
  cases v with
  | vis p =>
    simp only
    split
    · have pw := pres_write i a (.type { t with fields := t.fields.filter fun fa => match argName h fa with | some fnm => p.inputVis t.name fnm | none => true })
        ha (kidsT (t := { t with fields := t.fields.filter fun fa => match argName h fa with | some fnm => p.inputVis t.name fnm | none => true }) (filter_fresh _ ht))
      obtain ⟨p2, q2⟩ := inputRest_ok P (.vis p) reg a t.name _ { t with fields := t.fields.filter fun fa => match argName h fa with | some fnm => p.inputVis t.name fnm | none => true }
        pw.1 ha (by simpa using filter_fresh _ ht)
      exact ⟨pw.trans p2, q2⟩
    · exact inputRest_ok P _ reg a t.name h t i ha ht
  | heal => exact inputRest_ok P _ reg a t.name h t i ha ht
  | camel r => exact inputRest_ok P _ reg a t.name h t i ha ht
  | sdir d w => exact inputRest_ok P _ reg a t.name h t i ha ht

theorem onUnion_ok (P : Addr → Prop) (v : Visitor) (reg : List (String × Addr)) (h : Heap) (a : Addr) (t : TypeO)
    (i : Inv P h) (ha : P a) (ht : t.kind = Kind.union) :
    Pres P h (onUnion v reg h a t).1 ∧ ∀ a', (onUnion v reg h a t).2 = some a' → P a' := by
  simp only [onUnion]
  cases v with
  | heal => exact ⟨pres_write i a _ ha (by simp [kids', typeKids, ht]), fun a' e => by cases e; exact ha⟩
  | vis p =>
    simp only
    split
    · exact ⟨Pres.refl i, fun a' e => by cases e; exact ha⟩
    · exact ⟨Pres.refl i, fun a' e => by cases e⟩
  | camel r => exact ⟨Pres.refl i, fun a' e => by cases e; exact ha⟩
  | sdir d w => exact ⟨Pres.refl i, fun a' e => by cases e; exact ha⟩

theorem onLeaf_ok (P : Addr → Prop) (v : Visitor) (h : Heap) (a : Addr) (t : TypeO) (i : Inv P h) (ha : P a) :
    Pres P h (onLeaf v h a t).1 ∧ ∀ a', (onLeaf v h a t).2 = some a' → P a' := by
  simp only [onLeaf]
  cases v with
  | vis p =>
    simp only
    split
    · exact ⟨Pres.refl i, fun a' e => by cases e; exact ha⟩
    · exact ⟨Pres.refl i, fun a' e => by cases e⟩
  | heal => exact ⟨Pres.refl i, fun a' e => by cases e; exact ha⟩
  | camel r => exact ⟨Pres.refl i, fun a' e => by cases e; exact ha⟩
  | sdir d w => exact ⟨Pres.refl i, fun a' e => by cases e; exact ha⟩

theorem onType_ok (P : Addr → Prop) (v : Visitor) (reg : List (String × Addr)) : HookOK P (onType v reg) := by
  intro h a i ha
  simp only [onType]
  split
  · exact ⟨Pres.refl i, fun a' e => by cases e; exact ha⟩
  · rename_i t ht
    have hf := type_fields_fresh i ha ht
    split
    · rename_i hk
      exact onComposite_ok P v reg h a t i ha (by simpa [typeKids, hk] using hf)
    · rename_i hk
      exact onComposite_ok P v reg h a t i ha (by simpa [typeKids, hk] using hf)
    · rename_i hk
      exact onInputObject_ok P v reg h a t i ha (by simpa [typeKids, hk] using hf)
    · rename_i hk
      exact onUnion_ok P v reg h a t i ha hk
    · exact onLeaf_ok P v h a t i ha
    · exact onLeaf_ok P v h a t i ha

theorem onDirective_ok (P : Addr → Prop) (v : Visitor) (reg : List (String × Addr)) : HookOK P (onDirective v reg) := by
  intro h a i ha
  simp only [onDirective]
  split
  · exact ⟨Pres.refl i, fun a' e => by cases e; exact ha⟩
  · rename_i d hd
    split
    · exact ⟨Pres.refl i, fun a' e => by cases e⟩
    · obtain ⟨p, q⟩ := mapFilter_ok (onArgument_ok P v reg) d.args h i (dir_args_fresh i ha hd)
      split
      · obtain ⟨p2, q2⟩ := pres_alloc p.1 (.dir { d with args := (mapFilter (onArgument v reg) h d.args).2 }) (by simpa [kids'] using q)
        exact ⟨p.trans p2, fun a' e => by cases e; exact q2⟩
      · exact ⟨p, fun a' e => by cases e; exact ha⟩


/-! ### schema level -/

def TypesFresh (P : Addr → Prop) (reg : List (String × Addr)) : Prop := ∀ e, e ∈ reg → isProtected e.1 = true ∨ P e.2
def DirsFresh (P : Addr → Prop) (reg : List (String × Addr)) : Prop := ∀ e, e ∈ reg → P e.2
def ValsFresh (P : Addr → Prop) (ut : List (String × Option Addr)) : Prop := ∀ e, e ∈ ut → ∀ a', e.2 = some a' → P a'
/-- the schema owns its (non-protected) type and directive objects: all of them live at addresses `≥ n` -/
def RegFresh (P : Addr → Prop) (s : Schema) : Prop := TypesFresh P s.types ∧ DirsFresh P s.dirs

theorem visitTypes_ok (P : Addr → Prop) (v : Visitor) (reg : List (String × Addr)) :
    ∀ (l : List (String × Addr)) (h : Heap), Inv P h → TypesFresh P l →
      Pres P h (visitTypes v reg h l).1 ∧ ValsFresh P (visitTypes v reg h l).2 := by
  intro l
  induction l with
  | nil => intro h i _; exact ⟨Pres.refl i, by simp [visitTypes, ValsFresh]⟩
  | cons e rest ih =>
    intro h i hl
    obtain ⟨nm, a⟩ := e
    have hrest : TypesFresh P rest := fun e he => hl e (by simp [he])
    simp only [visitTypes]
    split
    · exact ih h i hrest
    · rename_i hp
      have ha : P a := by
        rcases hl (nm, a) (by simp) with h1 | h1
        · simp at h1; simp [h1] at hp
        · exact h1
      obtain ⟨p1, q1⟩ := onType_ok P v reg h a i ha
      obtain ⟨p2, q2⟩ := ih _ p1.1 hrest
      refine ⟨p1.trans p2, ?_⟩
      split
      · intro e he a' ea
        simp only [List.mem_cons] at he
        rcases he with rfl | he
        · exact q1 a' ea
        · exact q2 e he a' ea
      · exact q2

theorem visitDirs_ok (P : Addr → Prop) (v : Visitor) (reg : List (String × Addr)) :
    ∀ (l : List (String × Addr)) (h : Heap), Inv P h → DirsFresh P l →
      Pres P h (visitDirs v reg h l).1 ∧ ValsFresh P (visitDirs v reg h l).2 := by
  intro l
  induction l with
  | nil => intro h i _; exact ⟨Pres.refl i, by simp [visitDirs, ValsFresh]⟩
  | cons e rest ih =>
    intro h i hl
    obtain ⟨nm, a⟩ := e
    have hrest : DirsFresh P rest := fun e he => hl e (by simp [he])
    simp only [visitDirs]
    obtain ⟨p1, q1⟩ := onDirective_ok P v reg h a i (hl (nm, a) (by simp))
    obtain ⟨p2, q2⟩ := ih _ p1.1 hrest
    refine ⟨p1.trans p2, ?_⟩
    split
    · intro e he a' ea
      simp only [List.mem_cons] at he
      rcases he with rfl | he
      · exact q1 a' ea
      · exact q2 e he a' ea
    · exact q2


/-- after `_replace_types_and_directives`' loop every entry is protected, owned, or was owned already;
    names still to be replaced (`ut`) end up owned -/
theorem replaceTypes_cover (P : Addr → Prop) (cfg : Cfg) :
    ∀ (ut : List (String × Option Addr)) (reg : List (String × Addr)) (b : Bool), ValsFresh P ut →
      (∀ e, e ∈ reg → isProtected e.1 = true ∨ P e.2 ∨ (e.1 ∈ ut.map (·.1) ∧ ∀ x, x ∈ ut → x.1 = e.1 → x.2 ≠ none)) →
      TypesFresh P (replaceTypes cfg reg b ut).1 := by
  intro ut
  induction ut with
  | nil =>
    intro reg b _ hreg e he
    rcases hreg e he with h1 | h1 | h1
    · exact Or.inl h1
    · exact Or.inr h1
    · simp at h1
  | cons x rest ih =>
    intro reg b hv hreg
    obtain ⟨nm, new⟩ := x
    have hvr : ValsFresh P rest := fun e he => hv e (by simp [he])
    simp only [replaceTypes]
    split
    · rename_i hl
      apply ih reg b hvr
      intro e he
      rcases hreg e he with h1 | h1 | ⟨h1, h2⟩
      · exact Or.inl h1
      · exact Or.inr (Or.inl h1)
      · right; right
        have hne := lookup_none_ne hl e he
        simp only [List.map_cons, List.mem_cons] at h1
        rcases h1 with h1 | h1
        · simp [h1] at hne
        · exact ⟨h1, fun x hx => h2 x (by simp [hx])⟩
    · rename_i orig hl
      cases new with
      | none =>
        apply ih _ _ hvr
        intro e he
        have he0 := mem_regErase he
        have hne : (e.1 != nm) = true := (List.mem_filter.mp he).2
        rcases hreg e he0 with h1 | h1 | ⟨h1, h2⟩
        · exact Or.inl h1
        · exact Or.inr (Or.inl h1)
        · right; right
          simp only [List.map_cons, List.mem_cons] at h1
          rcases h1 with h1 | h1
          · simp [h1] at hne
          · exact ⟨h1, fun x hx => h2 x (by simp [hx])⟩
      | some a' =>
        apply ih _ _ hvr
        intro e he
        rcases mem_regSet he with rfl | ⟨he0, hne⟩
        · exact Or.inr (Or.inl (hv (nm, some a') (by simp) a' rfl))
        · rcases hreg e he0 with h1 | h1 | ⟨h1, h2⟩
          · exact Or.inl h1
          · exact Or.inr (Or.inl h1)
          · right; right
            simp only [List.map_cons, List.mem_cons] at h1
            rcases h1 with h1 | h1
            · simp [h1] at hne
            · exact ⟨h1, fun x hx => h2 x (by simp [hx])⟩

theorem replaceTypes_fresh (P : Addr → Prop) (cfg : Cfg) (ut : List (String × Option Addr)) (reg : List (String × Addr)) (b : Bool)
    (hv : ValsFresh P ut) (hreg : TypesFresh P reg) : TypesFresh P (replaceTypes cfg reg b ut).1 :=
  replaceTypes_cover P cfg ut reg b hv (fun e he => by
    rcases hreg e he with h1 | h1
    · exact Or.inl h1
    · exact Or.inr (Or.inl h1))

theorem replaceDirs_fresh (P : Addr → Prop) : ∀ (ud : List (String × Option Addr)) (reg : List (String × Addr)),
    ValsFresh P ud → DirsFresh P reg → DirsFresh P (replaceDirs reg ud) := by
  intro ud
  induction ud with
  | nil => intro reg _ hr; simpa [replaceDirs] using hr
  | cons x rest ih =>
    intro reg hv hr
    obtain ⟨nm, new⟩ := x
    have hvr : ValsFresh P rest := fun e he => hv e (by simp [he])
    cases new with
    | none =>
      simp only [replaceDirs]
      exact ih _ hvr (fun e he => hr e (mem_regErase he))
    | some a' =>
      simp only [replaceDirs]
      apply ih _ hvr
      intro e he
      rcases mem_regSet he with rfl | ⟨he0, _⟩
      · exact hv (nm, some a') (by simp) a' rfl
      · exact hr e he0

theorem replaceCore_fresh (P : Addr → Prop) (cfg : Cfg) (s : Schema) (ut ud : List (String × Option Addr))
    (hs : RegFresh P s) (hut : ValsFresh P ut) (hud : ValsFresh P ud) : RegFresh P (replaceCore cfg s ut ud).1 := by
  simp only [replaceCore, RegFresh]
  exact ⟨replaceTypes_fresh P cfg ut s.types false hut hs.1, replaceDirs_fresh P ud s.dirs hud hs.2⟩

theorem visitAll_ok (P : Addr → Prop) (v : Visitor) (s : Schema) (h : Heap) (i : Inv P h) (hs : RegFresh P s) :
    Pres P h (visitAll v s h).1 ∧ ValsFresh P (visitAll v s h).2.1 ∧ ValsFresh P (visitAll v s h).2.2 := by
  simp only [visitAll]
  obtain ⟨p1, q1⟩ := visitTypes_ok P v s.types s.types h i hs.1
  obtain ⟨p2, q2⟩ := visitDirs_ok P v s.types s.dirs _ p1.1 hs.2
  exact ⟨p1.trans p2, q1, q2⟩

theorem healLoop_ok (P : Addr → Prop) (cfg : Cfg) : ∀ (fuel : Nat) (s : Schema) (h : Heap) (h' : Heap) (s' : Schema),
    Inv P h → RegFresh P s → healLoop cfg fuel s h = some (h', s') → Pres P h h' ∧ RegFresh P s' := by
  intro fuel
  induction fuel with
  | zero => intro s h h' s' _ _ e; simp [healLoop] at e
  | succ fuel ih =>
    intro s h h' s' i hs e
    simp only [healLoop] at e
    obtain ⟨p, q1, q2⟩ := visitAll_ok P .heal s h i hs
    have hc := replaceCore_fresh P cfg s _ _ hs q1 q2
    split at e
    · obtain ⟨p2, r2⟩ := ih _ _ _ _ p.1 hc e
      exact ⟨p.trans p2, r2⟩
    · cases e
      exact ⟨p, hc⟩

theorem replaceTD_ok (P : Addr → Prop) (cfg : Cfg) (fuel : Nat) (s : Schema) (h : Heap) (ut ud : List (String × Option Addr))
    (h' : Heap) (s' : Schema) (i : Inv P h) (hc : RegFresh P (replaceCore cfg s ut ud).1)
    (e : replaceTD cfg fuel s h ut ud = some (h', s')) : Pres P h h' ∧ RegFresh P s' := by
  simp only [replaceTD] at e
  split at e
  · exact healLoop_ok P cfg fuel _ _ _ _ i hc e
  · cases e
    exact ⟨Pres.refl i, hc⟩

theorem onSchema_ok (P : Addr → Prop) (cfg : Cfg) (fuel : Nat) (v : Visitor) (s : Schema) (h : Heap) (h' : Heap) (s' : Schema)
    (i : Inv P h) (hs : RegFresh P s) (e : onSchema cfg fuel v s h = some (h', s')) : Pres P h h' ∧ RegFresh P s' := by
  simp only [onSchema] at e
  obtain ⟨p, q1, q2⟩ := visitAll_ok P v s h i hs
  obtain ⟨p2, r2⟩ := replaceTD_ok P cfg fuel s _ _ _ _ _ p.1 (replaceCore_fresh P cfg s _ _ hs q1 q2) e
  exact ⟨p.trans p2, r2⟩

theorem transformFrom_ok (P : Addr → Prop) (cfg : Cfg) (fuel : Nat) : ∀ (vs : List Visitor) (h : Heap) (s : Schema) (h' : Heap) (s' : Schema),
    Inv P h → RegFresh P s → transformFrom cfg fuel vs (h, s) = some (h', s') → Pres P h h' ∧ RegFresh P s' := by
  intro vs
  induction vs with
  | nil => intro h s h' s' i hs e; simp only [transformFrom] at e; cases e; exact ⟨Pres.refl i, hs⟩
  | cons v vs ih =>
    intro h s h' s' i hs e
    simp only [transformFrom] at e
    split at e
    · cases e
    · rename_i r hr
      obtain ⟨h1, s1⟩ := r
      obtain ⟨p1, q1⟩ := onSchema_ok P cfg fuel v s h h1 s1 i hs hr
      obtain ⟨p2, q2⟩ := ih h1 s1 h' s' p1.1 q1 e
      exact ⟨p1.trans p2, q2⟩


/-! ### `Schema.clone` establishes ownership (deep-clone variant) -/

end PyGql.Heap.OwnP

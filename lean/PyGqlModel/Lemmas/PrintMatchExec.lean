/-
  Token classes → `Matches` for executable documents (the query shorthand's optional keyword is handled here).
-/
import PyGqlModel.Lemmas.PrintPlainExec
namespace PyGql.PrintTokens
open PyGql PyGql.Ast PyGql.Parse PyGql.Spec PyGql.Print PyGql.PrintLex PyGql.PrintMatch

/-- an item that is matched by every token list with its canonical classes -/
def CheckOK (fl : Flags) (i : Item) : Prop :=
  ∀ (l : Tok) (ts rest : List Tok), classes ts = i.yield → i.check fl l (ts ++ rest) = some (Item.lastOf l ts, rest)

theorem checkOK_of_plain (fl : Flags) (hnl : fl.noLocation = true) (i : Item) (h : plain i = true) : CheckOK fl i :=
  fun l ts rest hy => check_of_yield fl hnl i l ts rest h hy

theorem checkAll_of_checkOK (fl : Flags) : ∀ (is : List Item), (∀ i ∈ is, CheckOK fl i) →
    ∀ (l : Tok) (ts rest : List Tok), classes ts = Item.yieldAll is →
      Item.checkAll fl is l (ts ++ rest) = some (Item.lastOf l ts, rest)
  | [], _, l, ts, rest, hy => by
    simp only [Item.yieldAll, classes, List.map_eq_nil_iff] at hy
    subst hy
    simp [Item.checkAll, Item.lastOf]
  | i :: is, h, l, ts, rest, hy => by
    simp only [Item.yieldAll, classes] at hy
    obtain ⟨t1, t2, rfl, h1, h2⟩ := List.map_eq_append_iff.1 hy
    rw [checkAll_cons]
    refine ⟨Item.lastOf l t1, t2 ++ rest, ?_, ?_⟩
    · rw [List.append_assoc]; exact h i (by simp) l t1 (t2 ++ rest) h1
    · rw [lastOf_append]; exact checkAll_of_checkOK fl is (fun j hj => h j (by simp [hj])) _ t2 rest h2

def noLocOperation (d : OperationDefinition) : Bool :=
  d.loc.isNone && (match d.name with | some n => n.loc.isNone | none => true) &&
  d.variableDefinitions.all noLocVarDef && d.directives.all noLocDirective && noLocSS d.selectionSet
def noLocFragment (d : FragmentDefinition) : Bool :=
  d.loc.isNone && d.name.loc.isNone && d.variableDefinitions.all noLocVarDef && d.typeCondition.loc.isNone &&
  d.typeCondition.name.loc.isNone && d.directives.all noLocDirective && noLocSS d.selectionSet
def noLocExecDefinition : Definition → Bool
  | .operation d => noLocOperation d
  | .fragment d => noLocFragment d
  | _ => false
def noLocExecDocument (d : Document) : Bool := d.loc.isNone && d.definitions.all noLocExecDefinition

theorem yield_selectionSetV_head (ss : SelectionSet) : ∃ tl, (selectionSetV ss).yield = (.curlyL, []) :: tl := by
  cases ss with
  | mk sels loc => exact ⟨Item.yieldAll (selectionsV sels ++ [p .curlyR]), by simp [selectionSetV, Item.yield, Item.yieldAll]⟩

theorem checkOK_operationV (fl : Flags) (hnl : fl.noLocation = true) (d : OperationDefinition)
    (h : noLocOperation d = true) : CheckOK fl (operationV d) := by
  simp only [noLocOperation, Bool.and_eq_true, Option.isNone_iff_eq_none] at h
  obtain ⟨⟨⟨⟨h1, h2⟩, h3⟩, h4⟩, h5⟩ := h
  have pss := plain_selectionSetV d.selectionSet h5
  by_cases hsh : isShorthand d = true
  · intro l ts rest hy
    simp only [operationV, hsh, ↓reduceIte, Item.yield, Item.yieldAll, List.nil_append, List.append_nil] at hy ⊢
    obtain ⟨tl, htl⟩ := yield_selectionSetV_head d.selectionSet
    have hss := check_of_yield fl hnl (selectionSetV d.selectionSet) l ts rest pss hy
    cases ts with
    | nil => rw [htl] at hy; simp [classes] at hy
    | cons t ts' =>
      have hct : cls t = (.curlyL, []) := by
        rw [htl] at hy; simp [classes] at hy; exact hy.1
      rw [check_node]
      refine ⟨t, ts' ++ rest, rfl, ?_, by simp [h1, locOf, hnl]⟩
      rw [checkAll_cons]
      refine ⟨l, (t :: ts') ++ rest, ?_, ?_⟩
      · rw [check_optTok]
        right
        refine ⟨rfl, rfl, ?_⟩
        intro t' tl' e hc
        simp at e
        rw [← e.1, hct] at hc
        simp at hc
      · rw [checkAll_cons]
        exact ⟨_, _, hss, by simp [Item.checkAll]⟩
  · have hsh' : isShorthand d = false := by simpa using hsh
    apply checkOK_of_plain fl hnl
    have hv := plainAll_variableDefinitionsV d.variableDefinitions h3
    have hd := plainAll_directivesV d.directives h4
    have hn : plainAll (optV nameV d.name) = true := by
      cases hnm : d.name with
      | none => rfl
      | some n => rw [hnm] at h2; simp at h2; simp [optV, nameV, plainAll, plain, Item.yieldAll, Item.yield, h2]
    simp [operationV, hsh', kw, plain, plainAll, plainAll_append, Item.yieldAll, Item.yield, h1, hv, hd, hn, pss]

theorem checkOK_fragmentV (fl : Flags) (hnl : fl.noLocation = true) (d : FragmentDefinition)
    (h : noLocFragment d = true) : CheckOK fl (fragmentV d) := by
  simp only [noLocFragment, Bool.and_eq_true, Option.isNone_iff_eq_none] at h
  obtain ⟨⟨⟨⟨⟨⟨h1, h2⟩, h3⟩, h4⟩, h5⟩, h6⟩, h7⟩ := h
  apply checkOK_of_plain fl hnl
  have hv := plainAll_variableDefinitionsV d.variableDefinitions h3
  have hd := plainAll_directivesV d.directives h6
  have pss := plain_selectionSetV d.selectionSet h7
  simp [fragmentV, namedTypeV, nameV, kw, plain, plainAll, plainAll_append, Item.yieldAll, Item.yield, h1, h2, h4, h5, hv, hd, pss]

theorem checkOK_execDefinitionV (fl : Flags) (hnl : fl.noLocation = true) (d : Definition)
    (h : noLocExecDefinition d = true) : CheckOK fl (definitionV d) := by
  cases d with
  | operation d => exact checkOK_operationV fl hnl d h
  | fragment d => exact checkOK_fragmentV fl hnl d h
  | _ => simp [noLocExecDefinition] at h

/-- SOF, tokens with the classes of the definitions' canonical yields, EOF — are matched by the document view -/
theorem matches_execDocument (fl : Flags) (hnl : fl.noLocation = true) (d : Document) (h : noLocExecDocument d = true)
    (sof eof : Tok) (hs : cls sof = (.sof, [])) (he : cls eof = (.eof, [])) (toks : List Tok)
    (hy : classes toks = Item.yieldAll (d.definitions.map definitionV)) :
    matchesAll fl [documentV d] (sof :: toks ++ [eof]) = true := by
  simp only [noLocExecDocument, Bool.and_eq_true, Option.isNone_iff_eq_none] at h
  have hall : ∀ i ∈ (p .sof :: (d.definitions.map definitionV ++ [p .eof])), CheckOK fl i := by
    intro i hi
    simp only [List.mem_cons, List.mem_append, List.mem_map, List.mem_singleton, List.not_mem_nil, or_false] at hi
    rcases hi with rfl | ⟨x, hx, rfl⟩ | rfl
    · exact checkOK_of_plain fl hnl _ rfl
    · exact checkOK_execDefinitionV fl hnl x ((List.all_eq_true.1 h.2) x hx)
    · exact checkOK_of_plain fl hnl _ rfl
  have hcls : classes (sof :: toks ++ [eof]) = Item.yieldAll (p .sof :: (d.definitions.map definitionV ++ [p .eof])) := by
    simp [classes, Item.yieldAll, yieldAll_append, Item.yield, hs, he] at hy ⊢
    exact hy
  have hc := checkAll_of_checkOK fl _ hall default (sof :: toks ++ [eof]) [] hcls
  simp only [List.append_nil] at hc
  unfold matchesAll
  have : Item.checkAll fl [documentV d] default (sof :: toks ++ [eof]) =
      some (Item.lastOf default (sof :: toks ++ [eof]), []) := by
    rw [checkAll_cons]
    refine ⟨Item.lastOf default (sof :: toks ++ [eof]), [], ?_, by simp [Item.checkAll]⟩
    simp only [documentV]
    rw [check_node]
    exact ⟨sof, toks ++ [eof], by simp, hc, by simp [h.1, locOf, hnl]⟩
  rw [this]

end PyGql.PrintTokens

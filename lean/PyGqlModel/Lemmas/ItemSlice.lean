/-
  The matcher of `Spec/Grammar.lean` under (1) moving every position down by an offset, (2) replacing what FOLLOWS
  the matched tokens (the matcher only ever looks at the next token: optional tokens and look-ahead restrictions),
  (3) descending to a sub-node.  Together with `Lemmas/LexSlice.lean` these give the character-level `span_reparse`.
-/
import PyGqlModel.Lemmas.ParseCore
import PyGqlModel.Lemmas.LexSlice
namespace PyGql.Spec
open PyGql PyGql.Ast PyGql.Parse

/-- move a span down by `d` -/
def locDown (d : Nat) : Loc → Loc
  | none => none
  | some (a, b) => some (a - d, b - d)

namespace Item

mutual
/-- move every `loc` of the item down by `d` -/
def down (d : Nat) : Item → Item
  | .node loc is => .node (locDown d loc) (downAll d is)
  | .tok k v => .tok k v
  | .optTok k v => .optTok k v
  | .nla k => .nla k
def downAll (d : Nat) : List Item → List Item
  | [] => []
  | i :: is => i.down d :: downAll d is
end

mutual
/-- the item certainly derives at least one token (it is a token, or a node one of whose parts certainly does) -/
def lead : Item → Bool
  | .tok _ _ => true
  | .node _ is => leadAll is
  | _ => false
def leadAll : List Item → Bool
  | [] => false
  | i :: is => i.lead || leadAll is
end

mutual
/-- every node below certainly derives a token, and no optional token / look-ahead restriction concerns `<EOF>` -/
def solid : Item → Bool
  | .tok _ _ => true
  | .optTok k _ => k != .eof
  | .nla k => k != .eof
  | .node _ is => leadAll is && solidAll is
def solidAll : List Item → Bool
  | [] => true
  | i :: is => i.solid && solidAll is
end

/-- `j` occurs in `i` (at any depth) -/
inductive Sub (j : Item) : Item → Prop
  | refl : Sub j j
  | node {loc : Loc} {is : List Item} {i : Item} : i ∈ is → Sub j i → Sub j (.node loc is)

end Item

theorem cls_down (d : Nat) (t : Tok) : cls (t.down d) = cls t := rfl
theorem kind_down (d : Nat) (t : Tok) : (t.down d).kind = t.kind := rfl

theorem locOf_down (fl : Flags) (d : Nat) (f l : Tok) : locOf fl (f.down d) (l.down d) = locDown d (locOf fl f l) := by
  unfold locOf; split <;> rfl

/-! ### (1) moving positions -/

mutual
theorem check_down (fl : Flags) (d : Nat) : ∀ (i : Item) (l l' : Tok) (ts rest : List Tok),
    i.check fl l ts = some (l', rest) →
    (i.down d).check fl (l.down d) (ts.map (Tok.down d)) = some (l'.down d, rest.map (Tok.down d))
  | .tok k v, l, l', ts, rest, h => by
    rw [check_tok] at h
    obtain ⟨t, rfl, hc, rfl⟩ := h
    simp only [Item.down, List.map_cons]
    rw [check_tok]
    exact ⟨_, rfl, hc, rfl⟩
  | .optTok k v, l, l', ts, rest, h => by
    rw [check_optTok] at h
    simp only [Item.down]
    rw [check_optTok]
    rcases h with ⟨t, rfl, hc, rfl⟩ | ⟨rfl, rfl, hn⟩
    · exact .inl ⟨_, rfl, hc, rfl⟩
    · refine .inr ⟨rfl, rfl, ?_⟩
      intro t tl e
      cases rest with
      | nil => simp at e
      | cons t0 tl0 =>
        simp only [List.map_cons, List.cons.injEq] at e
        rw [← e.1, cls_down]; exact hn t0 tl0 rfl
  | .nla k, l, l', ts, rest, h => by
    rw [check_nla] at h
    simp only [Item.down]
    rw [check_nla]
    obtain ⟨rfl, rfl, hn⟩ := h
    refine ⟨rfl, rfl, ?_⟩
    intro t tl e
    cases rest with
    | nil => simp at e
    | cons t0 tl0 =>
      simp only [List.map_cons, List.cons.injEq] at e
      rw [← e.1, kind_down]; exact hn t0 tl0 rfl
  | .node loc is, l, l', ts, rest, h => by
    rw [check_node] at h
    obtain ⟨f, tl, rfl, hall, hloc⟩ := h
    simp only [Item.down]
    rw [check_node]
    refine ⟨f.down d, tl.map (Tok.down d), by simp, ?_, ?_⟩
    · simpa using checkAll_down fl d is l l' (f :: tl) rest hall
    · rw [hloc, locOf_down]
theorem checkAll_down (fl : Flags) (d : Nat) : ∀ (is : List Item) (l l' : Tok) (ts rest : List Tok),
    Item.checkAll fl is l ts = some (l', rest) →
    Item.checkAll fl (Item.downAll d is) (l.down d) (ts.map (Tok.down d)) = some (l'.down d, rest.map (Tok.down d))
  | [], l, l', ts, rest, h => by
    rw [checkAll_nil] at h
    cases h
    simp [Item.downAll, Item.checkAll]
  | i :: is, l, l', ts, rest, h => by
    rw [checkAll_cons] at h
    obtain ⟨l1, ts1, h1, h2⟩ := h
    simp only [Item.downAll]
    rw [checkAll_cons]
    exact ⟨_, _, check_down fl d i l l1 ts ts1 h1, checkAll_down fl d is l1 l' ts1 rest h2⟩
end

/-! ### (2) replacing what follows -/

/-- a tail the matcher cannot tell from the end of the input: empty, or starting with `<EOF>` -/
def Neutral (ts : List Tok) : Prop := ∀ t tl, ts = t :: tl → t.kind = .eof

/-- `rest2` may stand for `rest` behind a matched item: same next token, or neutral -/
def Comp (rest rest2 : List Tok) : Prop := rest2.head? = rest.head? ∨ Neutral rest2

theorem Comp.append (p : List Tok) {rest rest2 : List Tok} (h : Comp rest rest2) : Comp (p ++ rest) (p ++ rest2) := by
  cases p with
  | nil => exact h
  | cons t tl => exact .inl rfl

theorem cls_ne_of_eof {t : Tok} {k : TokKind} {v : Text} (ht : t.kind = .eof) (hk : (k != .eof) = true) :
    cls t ≠ (k, v) := by
  intro e
  have : t.kind = k := congrArg Prod.fst e
  rw [ht] at this; subst this; simp at hk

mutual
theorem check_lead (fl : Flags) : ∀ (i : Item) (l l' : Tok) (ts rest : List Tok), i.lead = true →
    i.check fl l ts = some (l', rest) → rest.length < ts.length
  | .tok k v, l, l', ts, rest, _, h => by
    rw [check_tok] at h
    obtain ⟨t, rfl, _, _⟩ := h
    simp
  | .optTok k v, _, _, _, _, hl, _ => by simp [Item.lead] at hl
  | .nla k, _, _, _, _, hl, _ => by simp [Item.lead] at hl
  | .node loc is, l, l', ts, rest, hl, h => by
    rw [check_node] at h
    obtain ⟨f, tl, rfl, hall, _⟩ := h
    simp only [Item.lead] at hl
    exact checkAll_lead fl is l l' (f :: tl) rest hl hall
theorem checkAll_lead (fl : Flags) : ∀ (is : List Item) (l l' : Tok) (ts rest : List Tok), Item.leadAll is = true →
    Item.checkAll fl is l ts = some (l', rest) → rest.length < ts.length
  | [], _, _, _, _, hl, _ => by simp [Item.leadAll] at hl
  | i :: is, l, l', ts, rest, hl, h => by
    rw [checkAll_cons] at h
    obtain ⟨l1, ts1, h1, h2⟩ := h
    simp only [Item.leadAll, Bool.or_eq_true] at hl
    rcases hl with hl | hl
    · have a := check_lead fl i l l1 ts ts1 hl h1
      have b := checkAll_len h2
      omega
    · have a := check_len h1
      have b := checkAll_lead fl is l1 l' ts1 rest hl h2
      omega
end

mutual
theorem check_retarget (fl : Flags) : ∀ (i : Item) (l l' : Tok) (ts rest : List Tok), i.solid = true →
    i.check fl l ts = some (l', rest) →
    ∃ pre, ts = pre ++ rest ∧ ∀ rest2, Comp rest rest2 → i.check fl l (pre ++ rest2) = some (l', rest2)
  | .tok k v, l, l', ts, rest, _, h => by
    rw [check_tok] at h
    obtain ⟨t, rfl, hc, rfl⟩ := h
    refine ⟨[l'], rfl, fun rest2 _ => ?_⟩
    rw [check_tok]; exact ⟨_, rfl, hc, rfl⟩
  | .optTok k v, l, l', ts, rest, hs, h => by
    rw [check_optTok] at h
    simp only [Item.solid] at hs
    rcases h with ⟨t, rfl, hc, rfl⟩ | ⟨rfl, rfl, hn⟩
    · refine ⟨[l'], rfl, fun rest2 _ => ?_⟩
      rw [check_optTok]; exact .inl ⟨_, rfl, hc, rfl⟩
    · refine ⟨[], rfl, fun rest2 hc => ?_⟩
      rw [check_optTok]
      refine .inr ⟨rfl, rfl, ?_⟩
      intro t tl e
      subst e
      rcases hc with hh | hn2
      · cases rest with
        | nil => simp at hh
        | cons t0 tl0 =>
          simp at hh; subst hh; exact hn _ tl0 rfl
      · exact cls_ne_of_eof (hn2 t tl rfl) hs
  | .nla k, l, l', ts, rest, hs, h => by
    rw [check_nla] at h
    simp only [Item.solid] at hs
    obtain ⟨rfl, rfl, hn⟩ := h
    refine ⟨[], rfl, fun rest2 hc => ?_⟩
    rw [check_nla]
    refine ⟨rfl, rfl, ?_⟩
    intro t tl e
    subst e
    rcases hc with hh | hn2
    · cases rest with
      | nil => simp at hh
      | cons t0 tl0 =>
        simp at hh; subst hh; exact hn _ tl0 rfl
    · intro e; rw [hn2 t tl rfl] at e; subst e; simp at hs
  | .node loc is, l, l', ts, rest, hs, h => by
    rw [check_node] at h
    obtain ⟨f, tl, rfl, hall, hloc⟩ := h
    simp only [Item.solid, Bool.and_eq_true] at hs
    obtain ⟨pre, hpre, hr⟩ := checkAll_retarget fl is l l' (f :: tl) rest hs.2 hall
    have hlt := checkAll_lead fl is l l' (f :: tl) rest hs.1 hall
    cases pre with
    | nil => simp at hpre; subst hpre; simp at hlt
    | cons f' tl' =>
      simp only [List.cons_append, List.cons.injEq] at hpre
      obtain ⟨rfl, rfl⟩ := hpre
      refine ⟨f :: tl', rfl, fun rest2 hc => ?_⟩
      rw [check_node]
      exact ⟨f, tl' ++ rest2, rfl, hr rest2 hc, hloc⟩
theorem checkAll_retarget (fl : Flags) : ∀ (is : List Item) (l l' : Tok) (ts rest : List Tok),
    Item.solidAll is = true → Item.checkAll fl is l ts = some (l', rest) →
    ∃ pre, ts = pre ++ rest ∧ ∀ rest2, Comp rest rest2 → Item.checkAll fl is l (pre ++ rest2) = some (l', rest2)
  | [], l, l', ts, rest, _, h => by
    rw [checkAll_nil] at h
    cases h
    exact ⟨[], rfl, fun rest2 _ => by simp [Item.checkAll]⟩
  | i :: is, l, l', ts, rest, hs, h => by
    rw [checkAll_cons] at h
    obtain ⟨l1, ts1, h1, h2⟩ := h
    simp only [Item.solidAll, Bool.and_eq_true] at hs
    obtain ⟨p1, rfl, r1⟩ := check_retarget fl i l l1 ts ts1 hs.1 h1
    obtain ⟨p2, rfl, r2⟩ := checkAll_retarget fl is l1 l' ts1 rest hs.2 h2
    refine ⟨p1 ++ p2, by simp, fun rest2 hc => ?_⟩
    rw [checkAll_cons]
    refine ⟨l1, p2 ++ rest2, ?_, r2 rest2 hc⟩
    rw [List.append_assoc]
    exact r1 _ (hc.append p2)
end


/-! ### (2b) the token BEFORE a solid item only matters when the item derives nothing -/

mutual
theorem check_last_indep (fl : Flags) : ∀ (i : Item) (l l' : Tok) (ts rest : List Tok), i.solid = true →
    i.check fl l ts = some (l', rest) →
    ∀ l2, i.check fl l2 ts = some (if rest.length = ts.length then l2 else l', rest)
  | .tok k v, l, l', ts, rest, _, h => by
    rw [check_tok] at h
    obtain ⟨t, rfl, hc, rfl⟩ := h
    intro l2
    rw [check_tok]
    exact ⟨_, rfl, hc, by simp⟩
  | .optTok k v, l, l', ts, rest, _, h => by
    rw [check_optTok] at h
    intro l2
    rw [check_optTok]
    rcases h with ⟨t, rfl, hc, rfl⟩ | ⟨rfl, rfl, hn⟩
    · exact .inl ⟨_, rfl, hc, by simp⟩
    · exact .inr ⟨by simp, rfl, hn⟩
  | .nla k, l, l', ts, rest, _, h => by
    rw [check_nla] at h
    obtain ⟨rfl, rfl, hn⟩ := h
    intro l2
    rw [check_nla]
    exact ⟨by simp, rfl, hn⟩
  | .node loc is, l, l', ts, rest, hs, h => by
    rw [check_node] at h
    obtain ⟨f, tl, rfl, hall, hloc⟩ := h
    simp only [Item.solid, Bool.and_eq_true] at hs
    intro l2
    have hlt := checkAll_lead fl is l l' (f :: tl) rest hs.1 hall
    have := checkAll_last_indep fl is l l' (f :: tl) rest hs.2 hall l2
    rw [if_neg (by omega)] at this ⊢
    rw [check_node]
    exact ⟨f, tl, rfl, this, hloc⟩
theorem checkAll_last_indep (fl : Flags) : ∀ (is : List Item) (l l' : Tok) (ts rest : List Tok),
    Item.solidAll is = true → Item.checkAll fl is l ts = some (l', rest) →
    ∀ l2, Item.checkAll fl is l2 ts = some (if rest.length = ts.length then l2 else l', rest)
  | [], l, l', ts, rest, _, h => by
    rw [checkAll_nil] at h
    cases h
    intro l2
    simp [Item.checkAll]
  | i :: is, l, l', ts, rest, hs, h => by
    rw [checkAll_cons] at h
    obtain ⟨l1, ts1, h1, h2⟩ := h
    simp only [Item.solidAll, Bool.and_eq_true] at hs
    intro l2
    have a := check_last_indep fl i l l1 ts ts1 hs.1 h1 l2
    have b := checkAll_last_indep fl is l1 l' ts1 rest hs.2 h2
    have len1 := check_len h1
    have len2 := checkAll_len h2
    rw [checkAll_cons]
    refine ⟨_, ts1, a, ?_⟩
    by_cases e1 : ts1.length = ts.length
    · rw [if_pos e1]
      have := b l2
      rw [this]
      by_cases e2 : rest.length = ts1.length
      · rw [if_pos e2, if_pos (by omega)]
      · rw [if_neg e2, if_neg (by omega)]
    · rw [if_neg e1]
      have := b l1
      rw [h2] at this
      rw [h2, if_neg (by omega)]
end

/-! ### (3) descending to a sub-node -/

theorem checkAll_mem (fl : Flags) : ∀ (is : List Item) (i : Item) (l l' : Tok) (ts rest : List Tok), i ∈ is →
    Item.checkAll fl is l ts = some (l', rest) →
    ∃ pre y li li' tsi resti, ts = pre ++ tsi ∧ resti = y ++ rest ∧ i.check fl li tsi = some (li', resti)
  | [], _, _, _, _, _, hm, _ => by simp at hm
  | i0 :: is, i, l, l', ts, rest, hm, h => by
    rw [checkAll_cons] at h
    obtain ⟨l1, ts1, h1, h2⟩ := h
    obtain ⟨p1, rfl, _, _⟩ := check_spans fl i0 l l1 ts ts1 h1
    obtain ⟨p2, rfl, _, _⟩ := checkAll_spans fl is l1 l' ts1 rest h2
    rcases List.mem_cons.1 hm with rfl | hm'
    · exact ⟨[], p2, l, l1, _, _, rfl, rfl, h1⟩
    · obtain ⟨pre, y, li, li', tsi, resti, e1, e2, hc⟩ := checkAll_mem fl is i l1 l' _ rest hm' h2
      exact ⟨p1 ++ pre, y, li, li', tsi, resti, by rw [e1, List.append_assoc], e2, hc⟩

theorem check_sub (fl : Flags) {j i : Item} (hs : Item.Sub j i) : ∀ (l l' : Tok) (ts rest : List Tok),
    i.check fl l ts = some (l', rest) →
    ∃ pre y lj lj' tsj restj, ts = pre ++ tsj ∧ restj = y ++ rest ∧ j.check fl lj tsj = some (lj', restj) := by
  induction hs with
  | refl => intro l l' ts rest h; exact ⟨[], [], l, l', ts, rest, rfl, rfl, h⟩
  | node hm _ ih =>
    intro l l' ts rest h
    rw [check_node] at h
    obtain ⟨f, tl, rfl, hall, _⟩ := h
    obtain ⟨pre, y, li, li', tsi, resti, e1, e2, hc⟩ := checkAll_mem fl _ _ l l' _ rest hm hall
    obtain ⟨pre2, y2, lj, lj', tsj, restj, e3, e4, hj⟩ := ih li li' tsi resti hc
    exact ⟨pre ++ pre2, y2 ++ y, lj, lj', tsj, restj, by rw [e1, e3, List.append_assoc],
      by rw [e4, e2, List.append_assoc], hj⟩

theorem solid_sub {j i : Item} (hs : Item.Sub j i) : i.solid = true → j.solid = true := by
  induction hs with
  | refl => exact id
  | @node loc is i hm _ ih =>
    intro h
    simp only [Item.solid, Bool.and_eq_true] at h
    apply ih
    have : ∀ (is : List Item), Item.solidAll is = true → ∀ i ∈ is, i.solid = true := by
      intro is
      induction is with
      | nil => simp
      | cons a as iha =>
        intro h2 i hi
        simp only [Item.solidAll, Bool.and_eq_true] at h2
        rcases List.mem_cons.1 hi with rfl | hi'
        · exact h2.1
        · exact iha h2.2 i hi'
    exact this is h.2 i hm

end PyGql.Spec

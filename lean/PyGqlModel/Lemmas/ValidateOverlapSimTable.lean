/-
  Helpers for instantiating `OvSim` (Lemmas/ValidateOverlapSim.lean): the fragment table of a document whose fragment
  definitions are the images (renamed name, mapped selections) of those of another; the field node behind a collected
  field; `Good` = pairwise different argument names, from the clause of UniqueArgumentNames.
-/
import PyGqlModel.Lemmas.ValidateOverlapSim
import PyGqlModel.Lemmas.ValidateOverlapSortArgs
namespace PyGql.Validate
open PyGql PyGql.Validate.Spec

theorem get?_foldl_set_image {β γ : Type} (φ : String → String) (hinj : ∀ a b, φ a = φ b → a = b) (H : β → γ) (k : String) :
    ∀ (l : List (String × β)) (m : AL β) (m' : AL γ), AL.get? m' (φ k) = (AL.get? m k).map H →
      AL.get? (l.foldl (fun acc f => AL.set acc (φ f.1) (H f.2)) m') (φ k) =
        (AL.get? (l.foldl (fun acc f => AL.set acc f.1 f.2) m) k).map H
  | [], _, _, h => h
  | f :: l, m, m', h => by
    simp only [List.foldl_cons]
    refine get?_foldl_set_image φ hinj H k l _ _ ?_
    rw [AL.get?_set, AL.get?_set, h]
    by_cases e : k = f.1
    · subst e; simp
    · have : ¬ φ k = φ f.1 := fun e' => e (hinj _ _ e')
      simp [e, this]

/-- how a transformation acts on the entries of `fragDefs` -/
def mapFragDef (φ : String → String) (σ : List Sel → List Sel) (f : String × String × Nat × List Sel) :
    String × String × Nat × List Sel := (φ f.1, f.2.1, f.2.2.1, σ f.2.2.2)

section
variable {d d' : Doc} {φ : String → String} {σ : List Sel → List Sel}
  (hdefs : fragDefs d' = (fragDefs d).map (mapFragDef φ σ)) (hinj : ∀ a b, φ a = φ b → a = b)
include hdefs hinj

theorem fragTable_image (g : String) :
    AL.get? (fragTable d') (φ g) = (AL.get? (fragTable d) g).map fun v => (v.1, v.2.1, σ v.2.2) := by
  unfold fragTable
  rw [hdefs, List.foldl_map]
  exact get?_foldl_set_image φ hinj (fun v : String × Nat × List Sel => (v.1, v.2.1, σ v.2.2)) g (fragDefs d) [] [] rfl

theorem fragTable_image_fwd (g on : String) (i : Nat) (sels : List Sel)
    (h : AL.get? (fragTable d) g = some (on, i, sels)) : AL.get? (fragTable d') (φ g) = some (on, i, σ sels) := by
  rw [fragTable_image hdefs hinj, h]; rfl

theorem fragTable_image_bwd (g' on : String) (i : Nat) (sels' : List Sel)
    (h : AL.get? (fragTable d') g' = some (on, i, sels')) :
    ∃ g sels, g' = φ g ∧ sels' = σ sels ∧ AL.get? (fragTable d) g = some (on, i, sels) := by
  have hm : ∃ f ∈ fragDefs d, g' = φ f.1 := by
    have h0 := h
    unfold fragTable at h0
    rcases get?_foldl_set _ _ _ _ h0 with h' | h'
    · rw [hdefs] at h'
      obtain ⟨f, hf, e⟩ := List.mem_map.mp h'
      exact ⟨f, hf, (congrArg Prod.fst e).symm⟩
    · simp [AL.get?_nil] at h'
  obtain ⟨f, _, rfl⟩ := hm
  rw [fragTable_image hdefs hinj] at h
  cases hv : AL.get? (fragTable d) f.1 with
  | none => rw [hv] at h; cases h
  | some v =>
    rw [hv] at h
    obtain ⟨on0, i0, sels0⟩ := v
    simp only [Option.map_some, Option.some.injEq, Prod.mk.injEq] at h
    obtain ⟨rfl, rfl, rfl⟩ := h
    exact ⟨f.1, sels0, rfl, rfl, hv⟩

end

/-- the field node behind a field collected from a selection set of the document -/
theorem collD_field_node {s : SchemaD} {d : Doc} {p : Option String} {sels : List Sel} {rn : String} {e : FEntry} {i : Nat}
    (h : SelSet d i sels) (hc : CollD s p sels rn e) : ∃ dirs, Node.field e.name e.args dirs e.hasSub ∈ nodes d := by
  induction hc generalizing i with
  | @field parent sels alias name args dirs hasSub ssid sub hm =>
    refine ⟨dirs, selSet_closed h _ (mem_selsNodes_of_mem hm _ ?_)⟩
    simp [selNodes]
  | @inline parent sels on dirs id sub rn e hm _ ih =>
    refine ih (i := id) (selSet_closed h _ (mem_selsNodes_of_mem hm _ ?_))
    simp [selNodes]

/-- a collected field of a document that satisfies the clause of UniqueArgumentNames has pairwise different argument names -/
theorem entD_args_nodup {s : SchemaD} {d : Doc} (hu : Spec.uniqueArgumentNames d) {e : FEntry} (he : EntD s d e) :
    (e.args.map (·.name)).Nodup := by
  obtain ⟨i, sels, p, rn, h1, h2⟩ := he
  obtain ⟨dirs, hn⟩ := collD_field_node h1 h2
  exact hu.1 _ hn _ _ _ _ rfl

end PyGql.Validate

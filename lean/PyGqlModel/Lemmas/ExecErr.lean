/-
  C08 — helper lemmas, part 2: error accounting. `pend n` = the errors the continuations inside node `n`
  will still record; invariant: (errors recorded so far) + pend = (errors of the specification), as
  multisets (stated with `List.count`, so that `omega` does the bookkeeping).
-/
import PyGqlModel.Lemmas.ExecEv

set_option linter.unusedVariables false
set_option linter.unusedSimpArgs false

namespace PyGql.AsyncExec

/-- errors callback `k` records when it runs on the eventual outcome of its source -/
def pendCont : Cont → EvR → List Err
  | .complete path, .ok (.raw c) => errsComp path c
  | .complete path, .rerr => [⟨path, .resolver⟩]
  | .nonNull path, .ok (.data .null) => [⟨path, .nonNull⟩]
  | .serialCb path _ _ args, .ok (.data _) => errsFlds path args
  | _, _ => []

mutual
def pend : Node → List Err
  | .done r => pend r
  | .unwrap src => pend src
  | .chain src k => pend src ++ pendCont k (ev src)
  | .gather slots _ _ => pendSlots slots
  | .val _ => []
  | .failed _ => []
  | .task _ _ _ _ => []
def pendSlots : Nodes → List Err
  | .nil => []
  | .cons n ns => pend n ++ pendSlots ns
end

def pendRes : Res Node → List Err
  | .ok n => pend n
  | .exc _ => []

def EvR.isFail : EvR → Bool
  | .fail => true
  | _ => false

abbrev cnt (e : Err) (l : List Err) : Nat := List.count e l

/-! ### blocking executor = specification -/

mutual
theorem blockComp_errs : ∀ (c : Comp) (path : Path) (s : ExecSt) (v : V) (s1 : ExecSt),
    blockComp path c s = (.ok v, s1) → s1.errors = s.errors ++ errsComp path c
  | .null, path, s, v, s1, h => by simp [blockComp] at h; simp [← h.2, errsComp]
  | .leaf n, path, s, v, s1, h => by simp [blockComp] at h; simp [← h.2, errsComp]
  | .bad, path, s, v, s1, h => by simp [blockComp] at h
  | .nonNull c, path, s, v, s1, h => by
    simp only [blockComp] at h
    cases hr : blockComp path c s with
    | mk r s0 =>
      rw [hr] at h
      cases r with
      | exc e => simp at h
      | ok v0 =>
        have ih := blockComp_errs c path s v0 s0 hr
        have hd := blockComp_den c path s
        rw [hr] at hd; simp [resOpt] at hd
        simp at h
        obtain ⟨hv, hs⟩ := h
        subst hv
        rw [← hs, errsComp, ← hd]
        cases v0 <;> simp [V.isNull, ExecSt.addError, ih]
  | .list items, path, s, v, s1, h => by
    simp only [blockComp] at h
    cases hr : blockItems path 0 items s with
    | mk r s0 =>
      rw [hr] at h
      cases r with
      | exc e => simp at h
      | ok vs => simp at h; rw [← h.2, errsComp]; exact blockItems_errs items path 0 s vs s0 hr
  | .obj fields, path, s, v, s1, h => by
    simp only [blockComp] at h
    cases hr : blockFields path fields s with
    | mk r s0 =>
      rw [hr] at h
      cases r with
      | exc e => simp at h
      | ok kvs => simp at h; rw [← h.2, errsComp]; exact blockFields_errs fields path s kvs s0 hr
theorem blockItems_errs : ∀ (cs : Comps) (path : Path) (i : Nat) (s : ExecSt) (vs : List V) (s1 : ExecSt),
    blockItems path i cs s = (.ok vs, s1) → s1.errors = s.errors ++ errsItems path i cs
  | .nil, path, i, s, vs, s1, h => by simp [blockItems] at h; simp [← h.2, errsItems]
  | .cons c cs, path, i, s, vs, s1, h => by
    simp only [blockItems] at h
    cases hr : blockComp (path ++ [.idx i]) c s with
    | mk r s0 =>
      rw [hr] at h
      cases r with
      | exc e => simp at h
      | ok v =>
        simp only [] at h
        cases hr2 : blockItems path (i + 1) cs s0 with
        | mk r2 s2 =>
          rw [hr2] at h
          cases r2 with
          | exc e => simp at h
          | ok vs2 =>
            simp at h
            rw [← h.2, errsItems, blockItems_errs cs path (i + 1) s0 vs2 s2 hr2, blockComp_errs c _ s v s0 hr]
            simp
theorem blockFields_errs : ∀ (fs : Flds) (path : Path) (s : ExecSt) (kvs : List (String × V)) (s1 : ExecSt),
    blockFields path fs s = (.ok kvs, s1) → s1.errors = s.errors ++ errsFlds path fs
  | .nil, path, s, kvs, s1, h => by simp [blockFields] at h; simp [← h.2, errsFlds]
  | .cons key mode out rest, path, s, kvs, s1, h => by
    simp only [blockFields] at h
    cases hr : blockField (path ++ [.key key]) out s with
    | mk r s0 =>
      rw [hr] at h
      cases r with
      | exc e => simp at h
      | ok v =>
        simp only [] at h
        cases hr2 : blockFields path rest s0 with
        | mk r2 s2 =>
          rw [hr2] at h
          cases r2 with
          | exc e => simp at h
          | ok kvs2 =>
            simp at h
            rw [← h.2, errsFlds, blockFields_errs rest path s0 kvs2 s2 hr2, blockField_errs out _ s v s0 hr]
            simp
theorem blockField_errs : ∀ (out : ROut) (p : Path) (s : ExecSt) (v : V) (s1 : ExecSt),
    blockField p out s = (.ok v, s1) → s1.errors = s.errors ++ errsOut p out
  | .rerr, p, s, v, s1, h => by simp [blockField] at h; simp [← h.2, errsOut, ExecSt.addError, ExecSt.emit]
  | .exc, p, s, v, s1, h => by simp [blockField] at h
  | .ok c, p, s, v, s1, h => by
    simp only [blockField] at h
    have := blockComp_errs c p _ v s1 h
    simpa [errsOut, ExecSt.emit] using this
end

/-! ### callbacks and combinators -/

/-- error accounting required of the interpretation of callback `k` -/
def ApErr (ap : ApplyCont) (k : Cont) : Prop :=
  ∀ (r : Res Val) (s : ExecSt) (e : Err), (evCont k (evOfVal r)).isFail = false →
    cnt e (ap k r s).2.errors + cnt e (pendRes (ap k r s).1) = cnt e s.errors + cnt e (pendCont k (evOfVal r))

theorem applySimple_errs (k : Cont) (hk : simpleK k = true) : ApErr applySimple k := by
  intro r s e _
  cases k <;> simp [simpleK] at hk <;> cases r with
  | exc x => cases x <;> simp [applySimple, pendRes, pendCont, evOfVal, evExc, cnt]
  | ok x =>
    first
    | (simp [applySimple, pendRes, pend, pendCont, evOfVal, cnt]; done)
    | (cases x with
       | data v => cases v <;> simp [applySimple, handleNonNullableValue, pendRes, pend, pendCont, evOfVal, cnt, ExecSt.addError, List.count_append]
       | raw c => simp [applySimple, handleNonNullableValue, pendRes, pend, pendCont, evOfVal, cnt]
       | junk => simp [applySimple, handleNonNullableValue, pendRes, pend, pendCont, evOfVal, cnt])

theorem evCont_fail (k : Cont) : evCont k .fail = .fail := by cases k <;> rfl

theorem chainOnFinish_errs (ap : ApplyCont) (k : Cont) (hap : ApErr ap k) (src : Node) (s : ExecSt) (e : Err)
    (hf : flat src = true) (hnf : (evCont k (ev src)).isFail = false) :
    cnt e (chainOnFinish ap src k s).2.errors + cnt e (pend (chainOnFinish ap src k s).1)
      = cnt e s.errors + cnt e (pend (.chain src k)) := by
  cases src with
  | failed x =>
    have h := hap (.exc x) s e (by simpa [evOfVal, ev] using hnf)
    simp only [chainOnFinish]
    cases hr : ap k (.exc x) s with
    | mk r s' => rw [hr] at h; cases r <;> simpa [pendRes, pend, evOfVal, ev, cnt, List.count_append] using h
  | done r =>
    cases r with
    | val x =>
      have h := hap (.ok x) s e (by simpa [evOfVal, ev] using hnf)
      simp only [chainOnFinish, Node.plain]
      cases hr : ap k (.ok x) s with
      | mk r s' => rw [hr] at h; cases r <;> simpa [pendRes, pend, evOfVal, ev, cnt, List.count_append] using h
    | _ => simp [flat] at hf
  | val x => simp [chainOnFinish]
  | task a b c d => simp [chainOnFinish]
  | chain a b => simp [chainOnFinish]
  | unwrap a => simp [chainOnFinish]
  | gather a b c => simp [chainOnFinish]

theorem mapValue_errs (ap : ApplyCont) (k : Cont) (hap : ApErr ap k) (n : Node) (s : ExecSt) (e : Err)
    (hf : flat n = true) (hnf : (evCont k (ev n)).isFail = false) :
    cnt e (mapValue ap n k s).2.errors + cnt e (pendRes (mapValue ap n k s).1)
      = cnt e s.errors + cnt e (pend n) + cnt e (pendCont k (ev n)) := by
  cases n with
  | val x =>
    have h := hap (.ok x) s e (by simpa [evOfVal, ev] using hnf)
    simpa [mapValue, pend, evOfVal, ev] using h
  | done r =>
    have := chainOnFinish_errs ap k hap (.done r) s e hf hnf
    simp only [mapValue, Node.finished, if_true, pendRes]
    simp only [pend, cnt, List.count_append] at this ⊢; omega
  | failed x =>
    have := chainOnFinish_errs ap k hap (.failed x) s e hf hnf
    simp only [mapValue, Node.finished, if_true, pendRes]
    simp only [pend, cnt, List.count_append] at this ⊢; omega
  | task a b c d => simp [flat] at hf
  | chain a b => simp [mapValue, Node.finished, pendRes, pend, cnt, List.count_append]; omega
  | unwrap a => simp [mapValue, Node.finished, pendRes, pend, cnt, List.count_append]; omega
  | gather a b c => simp [mapValue, Node.finished, pendRes, pend, cnt, List.count_append]; omega

/-! ### unwrap / gather -/

theorem pend_unwrapCb : ∀ n : Node, pend (unwrapCb n) = pend n
  | .val x => by simp [unwrapCb, pend]
  | .failed e => by simp [unwrapCb, pend]
  | .done (.val x) => by simp [unwrapCb, pend]
  | .done (.done r) => by
    have := pend_unwrapCb (.done r)
    simp [unwrapCb, pend] at this ⊢; exact this
  | .done (.failed e) => by simp [unwrapCb, pend]
  | .done (.task a b c d) => by simp [unwrapCb, pend]
  | .done (.chain a b) => by simp [unwrapCb, pend]
  | .done (.unwrap a) => by simp [unwrapCb, pend]
  | .done (.gather a b c) => by simp [unwrapCb, pend]
  | .task a b c d => by simp [unwrapCb, pend]
  | .chain a b => by simp [unwrapCb, pend]
  | .unwrap a => by simp [unwrapCb, pend]
  | .gather a b c => by simp [unwrapCb, pend]

theorem pend_unwrapValue (n : Node) : pend (unwrapValue n) = pend n := by
  cases n <;> simp [unwrapValue, pend_unwrapCb]

/-- slots that are all finished (the list comprehension succeeded) have nothing left to record -/
theorem pendSlots_collected : ∀ (slots : Nodes) (rs : List Node), GoodSlots slots = true →
    collectSlots (slots.toList.map Node.slot) = .setResult rs → pendSlots slots = []
  | .nil, rs, _, _ => by simp [pendSlots]
  | .cons n ns, rs, hg, h => by
    simp only [GoodSlots, Bool.and_eq_true] at hg
    obtain ⟨⟨⟨_, hfn⟩, _⟩, hgs⟩ := hg
    simp only [Nodes.toList, List.map_cons] at h
    have tail : ∀ r, Node.slot n = some (.ok r) → pendSlots ns = [] := by
      intro r hs
      rw [hs] at h
      simp only [collectSlots] at h
      cases hc : collectSlots (ns.toList.map Node.slot) with
      | setResult rs' => exact pendSlots_collected ns rs' hgs hc
      | nothing => rw [hc] at h; simp at h
      | setException e => rw [hc] at h; simp at h
      | raisesInCallback => rw [hc] at h; simp at h
      | blocks => rw [hc] at h; simp at h
    cases n with
    | val x => simp [pendSlots, pend, tail (.val x) rfl]
    | done r =>
      cases r with
      | val x => simp [pendSlots, pend, tail (.val x) rfl]
      | _ => simp [flat] at hfn
    | failed e => simp [Node.slot, collectSlots] at h
    | task a b c d => simp [Node.slot, collectSlots] at h
    | chain a b => simp [Node.slot, collectSlots] at h
    | unwrap a => simp [Node.slot, collectSlots] at h
    | gather a b c => simp [Node.slot, collectSlots] at h

theorem gatherAfter_pend (slots : Nodes) (done target : Nat) (fired : List (Except Exc Node))
    (hg : GoodSlots slots = true) (hfired : ∀ e, Except.error e ∈ fired → Node.failed e ∈ slots.toList)
    (hnf : (evGather (evSlots slots)).isFail = false) :
    pend (gatherAfter slots done target fired) = pendSlots slots := by
  unfold gatherAfter
  cases h : gatherFires done target slots fired with
  | mk d' o =>
    cases o with
    | none => simp [pend]
    | some outer =>
      simp only
      rcases gatherFires_some target slots fired done d' outer h with ⟨e, he, ho⟩ | ⟨rs, hc, ho⟩
      · -- a failed slot makes the aggregate fail: excluded
        have hm := hfired e he
        have hne : ∀ x, ev (Node.failed e) ≠ .ok x := by intro x; cases e <;> simp [ev, evExc]
        have := evGather_fail (evSlots slots) (ev (.failed e)) (mem_evSlots slots _ hm) hne
        rw [this] at hnf; simp [EvR.isFail] at hnf
      · subst ho
        simp [pend, pendSlots_collected slots rs hg hc]

theorem pendSlots_vals : ∀ (slots : Nodes), slots.toList.filter Node.isFuture = [] → pendSlots slots = []
  | .nil, _ => by simp [pendSlots]
  | .cons n ns, h => by
    cases n with
    | val x =>
      have h' : ns.toList.filter Node.isFuture = [] := by simpa [Nodes.toList, List.filter, Node.isFuture] using h
      simp [pendSlots, pend, pendSlots_vals ns h']
    | _ => simp [Nodes.toList, List.filter, Node.isFuture] at h

theorem gatherValues_pend (source : Nodes) (hg : GoodSlots source = true)
    (hnf : (evGather (evSlots source)).isFail = false) :
    pend (gatherValues source) = pendSlots source := by
  unfold gatherValues
  simp only
  split
  · rename_i h0
    have : source = .nil := nodes_nil_of_length source (by simpa using h0)
    subst this; simp [pend, pendSlots]
  · split
    · rename_i _ hp
      simp [pend, pendSlots_vals source (by simpa using hp)]
    · apply gatherAfter_pend source _ _ _ hg _ hnf
      intro e he
      simp only [List.mem_filterMap, List.mem_filter] at he
      obtain ⟨n, ⟨hn, _⟩, hs⟩ := he
      cases n <;> simp [slotResult] at hs
      subst hs; exact hn

/-! ### nodes built by the executor -/

def pendSlotsRes : Res Nodes → List Err
  | .ok ns => pendSlots ns
  | .exc _ => []

theorem res_ok_of_den {r : Res Node} {v : V} (h : evRes r = denToEv (some v)) : ∃ n, r = .ok n ∧ ev n = .ok (.data v) := by
  cases r with
  | ok n => exact ⟨n, rfl, by simpa [evRes, denToEv] using h⟩
  | exc e => cases e <;> simp [evRes, evExc, denToEv] at h

@[simp] theorem emit_errors (s : ExecSt) (e : Ev) : (s.emit e).errors = s.errors := rfl
@[simp] theorem submit_errors (s : ExecSt) : s.submit.2.errors = s.errors := rfl
@[simp] theorem addError_errors (s : ExecSt) (p : Path) (k : ErrKind) : (s.addError p k).errors = s.errors ++ [⟨p, k⟩] := rfl

mutual
theorem completeValue_errs : ∀ (c : Comp) (path : Path) (s : ExecSt) (e : Err), denComp c ≠ none →
    cnt e (completeValue path c s).2.errors + cnt e (pendRes (completeValue path c s).1)
      = cnt e s.errors + cnt e (errsComp path c)
  | .null, path, s, e, _ => by simp [completeValue, pendRes, pend, errsComp, cnt]
  | .leaf v, path, s, e, _ => by simp [completeValue, pendRes, pend, errsComp, cnt]
  | .bad, path, s, e, h => by simp [denComp] at h
  | .nonNull c, path, s, e, h => by
    simp only [denComp] at h
    obtain ⟨v, hv⟩ := Option.ne_none_iff_exists'.mp h
    have ih := completeValue_errs c path s e h
    obtain ⟨h1, h2, h3⟩ := completeValue_ev c path s
    simp only [completeValue, errsComp]
    cases hr : completeValue path c s with
    | mk r s1 =>
      rw [hr] at ih h1 h2 h3
      rw [hv] at h1
      obtain ⟨n, rfl, hn⟩ := res_ok_of_den h1
      have hm := mapValue_errs applySimple (.nonNull path) (applySimple_errs _ rfl) n s1 e h3
        (by rw [hn]; simp [evCont, EvR.isFail])
      simp only [pendRes] at ih
      rw [hn] at hm
      simp only [hv]
      cases v <;> simp only [pendCont, cnt, List.count_append] at hm ih ⊢ <;> omega
  | .list items, path, s, e, h => by
    have hd : denItems items ≠ none := by
      intro hn; apply h; simp [denComp, hn]
    have ih := completeItems_errs items path 0 s e hd
    have hev := completeItems_ev items path 0 s
    simp only [completeValue, errsComp]
    cases hr : completeItems path 0 items s with
    | mk r s1 =>
      rw [hr] at ih hev
      cases r with
      | exc x => exact absurd hev.2 hd
      | ok ns =>
        simp only at hev
        obtain ⟨vs, hvs⟩ := Option.ne_none_iff_exists'.mp hd
        have hp := gatherValues_pend ns hev.1 (by rw [hev.2, hvs]; simp [EvR.isFail])
        simpa [pendRes, hp, pendSlotsRes] using ih
  | .obj fields, path, s, e, h => by
    have hd : denFlds fields ≠ none := by
      intro hn; apply h; simp [denComp, hn]
    have ih := resolveFields_errs fields path s e hd
    have hev := resolveFields_ev fields path s
    simp only [completeValue, errsComp]
    cases hr : resolveFields path fields s with
    | mk r s1 =>
      rw [hr] at ih hev
      cases r with
      | exc x => exact absurd hev.2 hd
      | ok ns =>
        simp only at hev
        obtain ⟨kvs, hkvs⟩ := Option.ne_none_iff_exists'.mp hd
        have hnf : (evGather (evSlots ns)).isFail = false := by rw [hev.2, hkvs]; simp [EvR.isFail]
        have hp := gatherValues_pend ns hev.1 hnf
        obtain ⟨g1, g2, g3⟩ := gatherValues_ev ns hev.1
        have hm := mapValue_errs applySimple (.collect fields.keys) (applySimple_errs _ rfl) (gatherValues ns) s1 e g3
          (by rw [g1, hev.2, hkvs]; simp [evCont, EvR.isFail])
        have hpc : pendCont (.collect fields.keys) (ev (gatherValues ns)) = [] := by cases ev (gatherValues ns) <;> rfl
        simp only [pendSlotsRes] at ih
        rw [hp, hpc] at hm
        simp only [cnt, List.count_nil] at hm ih ⊢; omega
theorem completeItems_errs : ∀ (cs : Comps) (path : Path) (i : Nat) (s : ExecSt) (e : Err), denItems cs ≠ none →
    cnt e (completeItems path i cs s).2.errors + cnt e (pendSlotsRes (completeItems path i cs s).1)
      = cnt e s.errors + cnt e (errsItems path i cs)
  | .nil, path, i, s, e, _ => by simp [completeItems, pendSlotsRes, pendSlots, errsItems, cnt]
  | .cons c cs, path, i, s, e, h => by
    have hc : denComp c ≠ none := by intro hn; exact h (denItems_cons_none c cs (.inl hn))
    have hcs : denItems cs ≠ none := by intro hn; exact h (denItems_cons_none c cs (.inr hn))
    obtain ⟨v, hv⟩ := Option.ne_none_iff_exists'.mp hc
    have ih1 := completeValue_errs c (path ++ [.idx i]) s e hc
    obtain ⟨h1, _, _⟩ := completeValue_ev c (path ++ [.idx i]) s
    simp only [completeItems, errsItems]
    cases hr : completeValue (path ++ [.idx i]) c s with
    | mk r s1 =>
      rw [hr] at ih1 h1
      rw [hv] at h1
      obtain ⟨n, rfl, _⟩ := res_ok_of_den h1
      have ih2 := completeItems_errs cs path (i + 1) s1 e hcs
      have hev2 := completeItems_ev cs path (i + 1) s1
      simp only []
      cases hr2 : completeItems path (i + 1) cs s1 with
      | mk r2 s2 =>
        rw [hr2] at ih2 hev2
        cases r2 with
        | exc x => exact absurd hev2.2 hcs
        | ok ns =>
          simp only [pendRes, pendSlotsRes, pendSlots, cnt, List.count_append] at ih1 ih2 ⊢; omega
theorem resolveFields_errs : ∀ (fs : Flds) (path : Path) (s : ExecSt) (e : Err), denFlds fs ≠ none →
    cnt e (resolveFields path fs s).2.errors + cnt e (pendSlotsRes (resolveFields path fs s).1)
      = cnt e s.errors + cnt e (errsFlds path fs)
  | .nil, path, s, e, _ => by simp [resolveFields, pendSlotsRes, pendSlots, errsFlds, cnt]
  | .cons key mode out rest, path, s, e, h => by
    have hc : denOut out ≠ none := by intro hn; exact h (denFlds_cons_none key mode out rest (.inl hn))
    have hcs : denFlds rest ≠ none := by intro hn; exact h (denFlds_cons_none key mode out rest (.inr hn))
    obtain ⟨v, hv⟩ := Option.ne_none_iff_exists'.mp hc
    have ih1 := resolveField_errs out (path ++ [.key key]) mode s e hc
    obtain ⟨h1, _, _⟩ := resolveField_ev out (path ++ [.key key]) mode s
    simp only [resolveFields, errsFlds]
    cases hr : resolveField (path ++ [.key key]) mode out s with
    | mk r s1 =>
      rw [hr] at ih1 h1
      rw [hv] at h1
      obtain ⟨n, rfl, _⟩ := res_ok_of_den h1
      have ih2 := resolveFields_errs rest path s1 e hcs
      have hev2 := resolveFields_ev rest path s1
      simp only []
      cases hr2 : resolveFields path rest s1 with
      | mk r2 s2 =>
        rw [hr2] at ih2 hev2
        cases r2 with
        | exc x => exact absurd hev2.2 hcs
        | ok ns =>
          simp only [pendRes, pendSlotsRes, pendSlots, cnt, List.count_append] at ih1 ih2 ⊢; omega
theorem resolveField_errs : ∀ (out : ROut) (path : Path) (mode : Mode) (s : ExecSt) (e : Err), denOut out ≠ none →
    cnt e (resolveField path mode out s).2.errors + cnt e (pendRes (resolveField path mode out s).1)
      = cnt e s.errors + cnt e (errsOut path out)
  | .rerr, path, mode, s, e, _ => by
    cases mode <;> simp [resolveField, failField, pendRes, pend, pendCont, ev, errsOut, cnt, unwrapCb, List.count_append]
  | .exc, path, mode, s, e, h => by simp [denOut] at h
  | .ok c, path, mode, s, e, h => by
    simp only [denOut] at h
    obtain ⟨v, hv⟩ := Option.ne_none_iff_exists'.mp h
    cases mode with
    | sync =>
      have ih := completeValue_errs c path ((s.emit (.call path)).emit (.done path)) e h
      obtain ⟨h1, _, _⟩ := completeValue_ev c path ((s.emit (.call path)).emit (.done path))
      simp only [resolveField, errsOut]
      cases hr : completeValue path c ((s.emit (.call path)).emit (.done path)) with
      | mk r s1 =>
        rw [hr] at ih h1
        rw [hv] at h1
        obtain ⟨n, rfl, _⟩ := res_ok_of_den h1
        simpa [pendRes, pend_unwrapValue] using ih
    | deferred => simp [resolveField, pendRes, pend, pendCont, ev, errsOut, cnt]
    | nested => simp [resolveField, pendRes, pend, pendCont, ev, errsOut, cnt]
    | ready =>
      have ih := completeValue_errs c path ((s.emit (.call path)).emit (.done path)) e h
      obtain ⟨h1, _, _⟩ := completeValue_ev c path ((s.emit (.call path)).emit (.done path))
      simp only [resolveField, errsOut]
      cases hr : completeValue path c ((s.emit (.call path)).emit (.done path)) with
      | mk r s1 =>
        rw [hr] at ih h1
        rw [hv] at h1
        obtain ⟨n, rfl, _⟩ := res_ok_of_den h1
        simpa [pendRes, pend_unwrapCb, pend] using ih
end

/-! ### serial routine, full interpreter -/

theorem serialNext_errs : ∀ (args : Flds) (path : Path) (resolved : List (String × V)) (s : ExecSt) (e : Err),
    denFlds args ≠ none →
    cnt e (serialNext path resolved args s).2.errors + cnt e (pendRes (serialNext path resolved args s).1)
      = cnt e s.errors + cnt e (errsFlds path args)
  | .nil, path, resolved, s, e, _ => by simp [serialNext, pendRes, pend, errsFlds, cnt]
  | .cons key mode out args, path, resolved, s, e, h => by
    have hc : denOut out ≠ none := by intro hn; exact h (denFlds_cons_none key mode out args (.inl hn))
    have hcs : denFlds args ≠ none := by intro hn; exact h (denFlds_cons_none key mode out args (.inr hn))
    obtain ⟨v, hv⟩ := Option.ne_none_iff_exists'.mp hc
    have ih1 := resolveField_errs out (path ++ [.key key]) mode s e hc
    obtain ⟨h1, _, h3⟩ := resolveField_ev out (path ++ [.key key]) mode s
    have ih2 := fun (w : V) (s1 : ExecSt) => serialNext_errs args path (resolved ++ [(key, w)]) s1 e hcs
    simp only [serialNext, errsFlds]
    cases hr : resolveField (path ++ [.key key]) mode out s with
    | mk r s1 =>
      rw [hr] at ih1 h1 h3
      rw [hv] at h1
      obtain ⟨n, rfl, hn⟩ := res_ok_of_den h1
      simp only [pendRes, FlatRes] at ih1 h3
      cases n with
      | val x =>
        simp [ev] at hn; subst hn
        have := ih2 v s1
        simp only [pend, cnt, List.count_append, List.count_nil] at ih1 this ⊢; omega
      | done r =>
        cases r with
        | val x =>
          simp [ev] at hn; subst hn
          have := ih2 v s1
          simp only []
          cases hs : serialNext path (resolved ++ [(key, v)]) args s1 with
          | mk r2 s2 =>
            rw [hs] at this
            cases r2 <;> simp only [pendRes, pend, cnt, List.count_append, List.count_nil] at ih1 this ⊢ <;> omega
        | _ => simp [flat] at h3
      | failed x => cases x <;> simp [ev, evExc] at hn
      | task a b c d =>
        simp only [pendRes, pend, pendCont, hn, cnt, List.count_append] at ih1 ⊢; omega
      | chain a b =>
        simp only [pendRes, pend, pendCont, hn, cnt, List.count_append] at ih1 ⊢; omega
      | unwrap a =>
        simp only [pendRes, pend, pendCont, hn, cnt, List.count_append] at ih1 ⊢; omega
      | gather a b c =>
        simp only [pendRes, pend, pendCont, hn, cnt, List.count_append] at ih1 ⊢; omega

theorem applyCont_errs (k : Cont) : ApErr applyCont k := by
  intro r s e hnf
  cases k with
  | complete path =>
    cases r with
    | ok x =>
      cases x with
      | raw c =>
        simp only [evOfVal, evCont] at hnf
        have hd : denComp c ≠ none := by intro hn; rw [hn] at hnf; simp [denToEv, EvR.isFail] at hnf
        obtain ⟨v, hv⟩ := Option.ne_none_iff_exists'.mp hd
        have ih := completeValue_errs c path s e hd
        obtain ⟨h1, _, _⟩ := completeValue_ev c path s
        simp only [applyCont]
        cases hr : completeValue path c s with
        | mk r' s1 =>
          rw [hr] at ih h1
          rw [hv] at h1
          obtain ⟨n, rfl, _⟩ := res_ok_of_den h1
          simpa [evOfVal, pendCont] using ih
      | data v => simp [applyCont, applySimple, pendRes, pend, pendCont, evOfVal, cnt]
      | junk => simp [applyCont, applySimple, pendRes, pend, pendCont, evOfVal, cnt]
    | exc x =>
      cases x with
      | resolver => simp [applyCont, failField, pendRes, pend, pendCont, evOfVal, evExc, cnt, List.count_append]
      | boom => simp [evOfVal, evExc, evCont, EvR.isFail] at hnf
      | runtime => simp [evOfVal, evExc, evCont, EvR.isFail] at hnf
  | serialCb path key resolved args =>
    cases r with
    | ok x =>
      cases x with
      | data v =>
        simp only [evOfVal, evCont] at hnf
        have hd : denFlds args ≠ none := by intro hn; rw [hn] at hnf; simp [EvR.isFail] at hnf
        have := serialNext_errs args path (resolved ++ [(key, v)]) s e hd
        simpa [applyCont, evOfVal, pendCont] using this
      | raw c => simp [applyCont, applySimple, pendRes, pend, pendCont, evOfVal, cnt]
      | junk => simp [applyCont, applySimple, pendRes, pend, pendCont, evOfVal, cnt]
    | exc x => cases x <;> simp [applyCont, applySimple, pendRes, pendCont, evOfVal, evExc, cnt]
  | collect keys => have := applySimple_errs (.collect keys) rfl r s e hnf; cases r <;> simpa [applyCont] using this
  | nonNull p => have := applySimple_errs (.nonNull p) rfl r s e hnf; cases r <;> simpa [applyCont] using this
  | onFinish => have := applySimple_errs .onFinish rfl r s e hnf; cases r <;> simpa [applyCont] using this

/-! ### completing a task -/

theorem evGather_cons_notfail (r : EvR) (rs : List EvR) (h : (evGather (r :: rs)).isFail = false) :
    r.isFail = false ∧ (evGather rs).isFail = false := by
  simp only [evGather] at h
  cases r with
  | ok x =>
    refine ⟨rfl, ?_⟩
    cases hg : evGather rs with
    | ok y => rfl
    | rerr => rw [hg] at h; cases x <;> simp [EvR.isFail] at h
    | fail => rw [hg] at h; cases x <;> simp [EvR.isFail] at h
  | rerr => simp [EvR.isFail] at h
  | fail => simp [EvR.isFail] at h

theorem notfail_of_cont (k : Cont) (r : EvR) (h : (evCont k r).isFail = false) : r.isFail = false := by
  cases r with
  | fail => rw [evCont_fail] at h; exact h
  | ok x => rfl
  | rerr => rfl

mutual
theorem deliver_errs : ∀ (n : Node) (t : Nat) (s : ExecSt) (e : Err), Good n = true → (ev n).isFail = false →
    cnt e (deliver applyCont t n s).2.errors + cnt e (pend (deliver applyCont t n s).1)
      = cnt e s.errors + cnt e (pend n)
  | .val x, t, s, e, _, _ => by simp [deliver]
  | .done r, t, s, e, _, _ => by simp [deliver]
  | .failed x, t, s, e, _, _ => by simp [deliver]
  | .task id path nested out, t, s, e, _, _ => by
    simp only [deliver]
    split
    · cases nested <;> cases out <;> simp [finishTask, pend]
    · rfl
  | .chain src k, t, s, e, hg, hnf => by
    simp only [Good, Bool.and_eq_true] at hg
    simp only [ev] at hnf
    have hsrc := notfail_of_cont k (ev src) hnf
    have ih := deliver_errs src t s e hg.1 hsrc
    obtain ⟨i1, i2, i3⟩ := deliver_ev src t s hg.1
    simp only [deliver]
    cases hd : deliver applyCont t src s with
    | mk src' s1 =>
      rw [hd] at ih i1 i2 i3
      simp only at ih i1
      have := chainOnFinish_errs applyCont k (applyCont_errs k) src' s1 e (i3 hg.2) (by rw [i1]; exact hnf)
      simp only [pend, i1, cnt, List.count_append] at this ih ⊢; omega
  | .unwrap src, t, s, e, hg, hnf => by
    simp only [Good] at hg
    simp only [ev] at hnf
    have ih := deliver_errs src t s e hg hnf
    simp only [deliver]
    cases hd : deliver applyCont t src s with
    | mk src' s1 =>
      rw [hd] at ih
      simpa [pend, pend_unwrapCb] using ih
  | .gather slots done target, t, s, e, hg, hnf => by
    simp only [Good] at hg
    simp only [ev] at hnf
    have ih := deliverSlots_errs slots t s e hg hnf
    obtain ⟨i1, i2, i3⟩ := deliverSlots_ev slots t s hg
    simp only [deliver]
    cases hd : deliverSlots applyCont t slots s with
    | mk slots' rest =>
      cases rest with
      | mk fired s1 =>
        rw [hd] at ih i1 i2 i3
        simp only at ih i1 i2 i3
        have hp := gatherAfter_pend slots' done target fired i2 i3 (by rw [i1]; exact hnf)
        simp only []
        cases hgf : gatherFires done target slots' fired with
        | mk d o =>
          cases o with
          | some outer =>
            have hga : gatherAfter slots' done target fired = outer := by unfold gatherAfter; rw [hgf]
            rw [hga] at hp
            simp only [hp, pend]; exact ih
          | none =>
            simp only [pend]; exact ih
theorem deliverSlots_errs : ∀ (ns : Nodes) (t : Nat) (s : ExecSt) (e : Err), GoodSlots ns = true →
    (evGather (evSlots ns)).isFail = false →
    cnt e (deliverSlots applyCont t ns s).2.2.errors + cnt e (pendSlots (deliverSlots applyCont t ns s).1)
      = cnt e s.errors + cnt e (pendSlots ns)
  | .nil, t, s, e, _, _ => by simp [deliverSlots]
  | .cons n ns, t, s, e, hg, hnf => by
    simp only [GoodSlots, Bool.and_eq_true] at hg
    obtain ⟨⟨⟨hgn, _⟩, _⟩, hgs⟩ := hg
    simp only [evSlots] at hnf
    obtain ⟨hn1, hn2⟩ := evGather_cons_notfail _ _ hnf
    have ih1 := deliver_errs n t s e hgn hn1
    simp only [deliverSlots]
    cases hd : deliver applyCont t n s with
    | mk n' s1 =>
      rw [hd] at ih1
      have ih2 := deliverSlots_errs ns t s1 e hgs hn2
      cases hd2 : deliverSlots applyCont t ns s1 with
      | mk ns' rest =>
        cases rest with
        | mk fired s2 =>
          rw [hd2] at ih2
          simp only [pendSlots, cnt, List.count_append] at ih1 ih2 ⊢; omega
end

/-! ### schedules -/

/-- errors recorded so far + errors still to come = the specification's errors `E` (as multisets) -/
def ErrInv (top : Node) (s : ExecSt) (E : List Err) : Prop :=
  ∀ e, cnt e s.errors + cnt e (pend top) = cnt e E

theorem stepSched_errs (top : Node) (s : ExecSt) (i : Nat) (E : List Err) (d : EvR) (hd : d.isFail = false)
    (h : TopInv top d) (he : ErrInv top s E) : ErrInv (stepSched top s i).1 (stepSched top s i).2 E := by
  unfold stepSched
  simp only
  split
  · exact he
  · rename_i t _
    intro e
    have := deliver_errs top t { s with queue := removeAt s.queue (i % s.queue.length) } e h.good (by rw [h.ev_eq]; exact hd)
    have he' := he e
    simp only [] at this
    omega

theorem runSched_errs (E : List Err) (d : EvR) (hd : d.isFail = false) :
    ∀ (sched : List Nat) (top : Node) (s : ExecSt) (sizes : List Nat),
      TopInv top d → ErrInv top s E →
      ErrInv (runSched top s sizes sched).top (runSched top s sizes sched).st E
  | [], top, s, sizes, _, he => by simpa [runSched] using he
  | i :: rest, top, s, sizes, h, he => by
    simp only [runSched]
    split
    · exact he
    · have h1 := stepSched_inv top s i d h
      have h2 := stepSched_errs top s i E d hd h he
      cases hs : stepSched top s i with
      | mk top' s' =>
        rw [hs] at h1 h2
        exact runSched_errs E d hd rest top' s' _ h1 h2

theorem finish_errs (kvs : List (String × V)) (E0 : List Err) (s0 : ExecSt) (n : Node) (s1 : ExecSt)
    (h1 : ev n = .ok (.data (.obj kvs))) (hg : Good n = true)
    (herr : ∀ e, cnt e s1.errors + cnt e (pend n) = cnt e s0.errors + cnt e E0) :
    match mapValue applyCont (unwrapValue n) .onFinish s1 with
    | (.exc _, _) => False
    | (.ok top, s2) => ∀ e, cnt e s2.errors + cnt e (pend top) = cnt e s0.errors + cnt e E0 := by
  have hev : evCont .onFinish (ev (unwrapValue n)) = denToEv (some (.obj kvs)) := by rw [ev_unwrapValue, h1]; rfl
  obtain ⟨m1, _, _⟩ := mapValue_ev applyCont .onFinish (applyCont_ok _) (unwrapValue n) s1
    (good_unwrapValue n hg) (flat_unwrapValue n)
  have hm := fun e => mapValue_errs applyCont .onFinish (applyCont_errs _) (unwrapValue n) s1 e (flat_unwrapValue n)
    (by rw [hev]; rfl)
  cases hmv : mapValue applyCont (unwrapValue n) .onFinish s1 with
  | mk r2 s2 =>
    rw [hmv] at m1 hm
    rw [hev] at m1
    obtain ⟨top, rfl, _⟩ := res_ok_of_den m1
    intro e
    have := hm e
    have h0 := herr e
    have hpc : pendCont .onFinish (ev (unwrapValue n)) = [] := by cases ev (unwrapValue n) <;> rfl
    simp only [pendRes, pend_unwrapValue, hpc, cnt, List.count_nil] at this h0 ⊢; omega

theorem execute_errs (op : Op) (s : ExecSt) (hden : denFlds op.fields ≠ none) :
    match execute op s with
    | (.exc _, _) => False
    | (.ok top, s2) => ∀ e, cnt e s2.errors + cnt e (pend top) = cnt e s.errors + cnt e (errsFlds [] op.fields) := by
  obtain ⟨kvs, hk⟩ := Option.ne_none_iff_exists'.mp hden
  unfold execute
  cases hkind : op.kind with
  | query =>
    simp only
    have hd : denComp (.obj op.fields) ≠ none := by simp [denComp, hk]
    obtain ⟨h1, h2, _⟩ := completeValue_ev (.obj op.fields) [] s
    have herr := fun e => completeValue_errs (.obj op.fields) [] s e hd
    rw [← executeFields_eq] at h1 h2 herr
    cases hr : executeFields [] op.fields s with
    | mk r s1 =>
      rw [hr] at h1 h2 herr
      have hden' : denToEv (denComp (.obj op.fields)) = denToEv (some (.obj kvs)) := by simp [denComp, hk]
      rw [hden'] at h1
      obtain ⟨n, rfl, hn⟩ := res_ok_of_den h1
      simp only
      exact finish_errs kvs (errsFlds [] op.fields) s n s1 hn (by simpa [GoodRes] using h2)
        (by intro e; simpa [pendRes, errsComp] using herr e)
  | mutation =>
    simp only
    obtain ⟨h1, h2⟩ := serialNext_ev op.fields [] [] s
    have herr := fun e => serialNext_errs op.fields [] [] s e hden
    unfold executeFieldsSerially
    cases hr : serialNext [] [] op.fields s with
    | mk r s1 =>
      rw [hr] at h1 h2 herr
      have hspec : serialSpec [] (denFlds op.fields) = denToEv (some (.obj kvs)) := by simp [serialSpec, hk, denToEv]
      rw [hspec] at h1
      obtain ⟨n, rfl, hn⟩ := res_ok_of_den h1
      simp only
      exact finish_errs kvs (errsFlds [] op.fields) s n s1 hn (by simpa [GoodRes] using h2)
        (by intro e; simpa [pendRes] using herr e)

end PyGql.AsyncExec

/-
  Every rule visitor owns a part of the rule state (`RS.own`) and reads / writes nothing else, except that it PREPENDS its
  own errors to the shared error list (and may set the exception flag). This file: the definitions (`RS.own`, `RS.put`)
  and the facts that do not depend on `enterRule` / `leaveRule`.
-/
import PyGqlModel.Validate.Chain
namespace PyGql.Validate
open PyGql

/-- the part of the rule state that rule `r` owns; everything else (the shared error list included) reset -/
def RS.own (r : Rule) (a : RS) : RS :=
  match r with
  | .uniqueOperationName => { opNames := a.opNames }
  | .singleFieldSubscriptions => { sfsFrags := a.sfsFrags, sfsFuel := a.sfsFuel }
  | .uniqueFragmentNames => { fragNames := a.fragNames }
  | .knownFragmentNames => { knownFrags := a.knownFrags }
  | .noUnusedFragments => { nufFrags := a.nufFrags, nufUsed := a.nufUsed }
  | .possibleFragmentSpreads => { pfsTypes := a.pfsTypes }
  | .noFragmentCycles => { cycSpreads := a.cycSpreads, cycCurrent := a.cycCurrent }
  | .uniqueVariableNames => { uvVars := a.uvVars }
  | .noUndefinedVariables => { vcUndef := a.vcUndef }
  | .noUnusedVariables => { vcUnused := a.vcUnused }
  | .variablesInAllowedPosition => { vcPos := a.vcPos }
  | .knownDirectives => { ancestors := a.ancestors }
  | .uniqueInputFieldNames => { uifStack := a.uifStack }
  | .overlappingFieldsCanBeMerged => { octx := a.octx }
  | _ => {}

/-- `a` with the part owned by `r`, the error list and the exception flag taken from `new` -/
def RS.put (r : Rule) (a new : RS) : RS :=
  let b : RS := { a with errs := new.errs, crash := new.crash }
  match r with
  | .uniqueOperationName => { b with opNames := new.opNames }
  | .singleFieldSubscriptions => { b with sfsFrags := new.sfsFrags, sfsFuel := new.sfsFuel }
  | .uniqueFragmentNames => { b with fragNames := new.fragNames }
  | .knownFragmentNames => { b with knownFrags := new.knownFrags }
  | .noUnusedFragments => { b with nufFrags := new.nufFrags, nufUsed := new.nufUsed }
  | .possibleFragmentSpreads => { b with pfsTypes := new.pfsTypes }
  | .noFragmentCycles => { b with cycSpreads := new.cycSpreads, cycCurrent := new.cycCurrent }
  | .uniqueVariableNames => { b with uvVars := new.uvVars }
  | .noUndefinedVariables => { b with vcUndef := new.vcUndef }
  | .noUnusedVariables => { b with vcUnused := new.vcUnused }
  | .variablesInAllowedPosition => { b with vcPos := new.vcPos }
  | .knownDirectives => { b with ancestors := new.ancestors }
  | .uniqueInputFieldNames => { b with uifStack := new.uifStack }
  | .overlappingFieldsCanBeMerged => { b with octx := new.octx }
  | _ => b

/-- writing the part of one rule does not touch the part of another -/
theorem RS.own_put_ne (r r' : Rule) (h : r ≠ r') (a new : RS) : (RS.put r' a new).own r = a.own r := by
  cases r <;> cases r' <;> first | rfl | exact absurd rfl h

theorem RS.addOpt_errs (r : Rule) (o : Option Nat) (a : RS) :
    (RS.addOpt r o a).errs = (match o with | some n => List.replicate n r | none => []) ++ a.errs := by
  cases o <;> simp [RS.addOpt, RS.errN]

/-! tactics for the case analyses of `Lemmas/ValidateChainFrame{E1,E2,E3,L1,L2}.lean` -/

macro "rs_auto" : tactic => `(tactic| first
  | (simp [enterRule, leaveRule, RS.own, RS.put, RS.err, RS.errN, RS.addOpt_errs]; done)
  | (simp only [enterRule, leaveRule, RS.own, RS.put, RS.err, RS.errN]
     <;> (repeat' split) <;> (try simp_all [RS.addOpt_errs, RS.addOpt, RS.errN])
     <;> (repeat' split) <;> (try simp_all [RS.addOpt_errs, RS.addOpt, RS.errN]); done)
  | (simp only [enterRule, leaveRule, RS.own, RS.put, RS.err, RS.errN]
     <;> (repeat' split) <;> (try simp_all [RS.addOpt_errs, RS.addOpt, RS.errN])
     <;> (repeat' split) <;> (try simp_all [RS.addOpt_errs, RS.addOpt, RS.errN]) <;> grind))

macro "rs_cases" : tactic => `(tactic| first
  | rs_auto
  | (rename_i x; cases x <;> rs_auto)
  | (rename_i x y; cases x <;> rs_auto))

macro "rs_put" : tactic => `(tactic| first
  | rfl
  | (simp [enterRule, leaveRule, RS.put, RS.err, RS.errN, RS.addOpt]; done)
  | (simp only [enterRule, leaveRule, RS.put, RS.err, RS.errN, RS.addOpt]
     <;> (repeat' split) <;> first | rfl | (simp_all; done)))

macro "rs_pcases" : tactic => `(tactic| first
  | rs_put
  | (rename_i x; cases x <;> rs_put)
  | (rename_i x y; cases x <;> rs_put))

end PyGql.Validate

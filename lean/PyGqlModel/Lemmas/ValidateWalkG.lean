/-
  The skeleton shared by all node-list walk lemmas: any relation `Q ns st st'` between the state before and
  after a visit and the list `ns` of nodes of the visited sub-tree that
    * holds for the empty visit,            (nil)
    * composes sequentially,                (append)
    * is preserved by `visitNode`,          (node)
  holds for every visit function of `Chain.lean` with the node list of `Spec.nodes`.
  Variant `WalkAlgV`: VALUE sub-trees are handled by a lemma supplied by the user (rules whose state changes
  inside input values), everything above values by `node`.
-/
import PyGqlModel.Lemmas.ValidateWalkI
import PyGqlModel.Lemmas.ValidateTr
namespace PyGql.Validate
open PyGql PyGql.Validate.Spec

structure WalkAlgV (c : Cfg) (Q : List Node → St → St → Prop) : Prop where
  nil : ∀ st, Q [] st st
  append : ∀ {a b : List Node} {s1 s2 s3 : St}, Q a s1 s2 → Q b s2 s3 → Q (a ++ b) s1 s3
  /-- nodes below the definitions that are neither values nor object fields -/
  node : ∀ (n : Node) (body : St → St) (ns : List Node) (st : St), n.isTop = false → n.isValueish = false →
    (∀ st1, Q ns st1 (body st1)) → Q (n :: ns) st (visitNode c n body st)
  value : ∀ (v : Value) (st : St), Q (valueNodes v) st (visitValue c v st)

structure WalkAlg (c : Cfg) (Q : List Node → St → St → Prop) : Prop where
  nil : ∀ st, Q [] st st
  append : ∀ {a b : List Node} {s1 s2 s3 : St}, Q a s1 s2 → Q b s2 s3 → Q (a ++ b) s1 s3
  node : ∀ (n : Node) (body : St → St) (ns : List Node) (st : St), n.isTop = false →
    (∀ st1, Q ns st1 (body st1)) → Q (n :: ns) st (visitNode c n body st)

variable {c : Cfg} {Q : List Node → St → St → Prop}

mutual
theorem visitValueG (h : WalkAlg c Q) : ∀ (v : Value) (st : St), Q (valueNodes v) st (visitValue c v st)
  | .list vs, st => by
    rw [visitValue, valueNodes]; exact h.node _ _ _ st rfl (fun st => visitValuesG h vs st)
  | .obj fs, st => by
    rw [visitValue, valueNodes]; exact h.node _ _ _ st rfl (fun st => visitObjFieldsG h fs st)
  | .var x, st => by rw [visitValue]; simp only [valueNodes]; exact h.node _ _ [] st rfl (fun st => h.nil st)
  | .int x, st => by rw [visitValue]; simp only [valueNodes]; exact h.node _ _ [] st rfl (fun st => h.nil st)
  | .float x, st => by rw [visitValue]; simp only [valueNodes]; exact h.node _ _ [] st rfl (fun st => h.nil st)
  | .str x, st => by rw [visitValue]; simp only [valueNodes]; exact h.node _ _ [] st rfl (fun st => h.nil st)
  | .bool x, st => by rw [visitValue]; simp only [valueNodes]; exact h.node _ _ [] st rfl (fun st => h.nil st)
  | .null, st => by rw [visitValue]; simp only [valueNodes]; exact h.node _ _ [] st rfl (fun st => h.nil st)
  | .enum x, st => by rw [visitValue]; simp only [valueNodes]; exact h.node _ _ [] st rfl (fun st => h.nil st)
theorem visitValuesG (h : WalkAlg c Q) : ∀ (vs : List Value) (st : St), Q (valuesNodes vs) st (visitValues c vs st)
  | [], st => by rw [visitValues, valuesNodes]; exact h.nil st
  | v :: vs, st => by rw [visitValues, valuesNodes]; exact h.append (visitValueG h v st) (visitValuesG h vs _)
theorem visitObjFieldG (h : WalkAlg c Q) : ∀ (x : ObjField) (st : St), Q (objFieldNodes x) st (visitObjField c x st)
  | .mk n v, st => by
    rw [visitObjField, objFieldNodes]; exact h.node _ _ _ st rfl (fun st => visitValueG h v st)
theorem visitObjFieldsG (h : WalkAlg c Q) : ∀ (fs : List ObjField) (st : St), Q (objFieldsNodes fs) st (visitObjFields c fs st)
  | [], st => by rw [visitObjFields, objFieldsNodes]; exact h.nil st
  | x :: fs, st => by rw [visitObjFields, objFieldsNodes]; exact h.append (visitObjFieldG h x st) (visitObjFieldsG h fs _)
end

theorem WalkAlg.toV (h : WalkAlg c Q) : WalkAlgV c Q where
  nil := h.nil
  append := h.append
  node n body ns st hn _ hb := h.node n body ns st hn hb
  value := visitValueG h

theorem foldlG {α} (h : WalkAlgV c Q) (visit : α → St → St) (ns : α → List Node)
    (hv : ∀ a st, Q (ns a) st (visit a st)) :
    ∀ (as : List α) (st : St), Q (as.flatMap ns) st (as.foldl (fun st a => visit a st) st)
  | [], st => by simpa using h.nil st
  | a :: as, st => by rw [List.foldl_cons, List.flatMap_cons]; exact h.append (hv a st) (foldlG h visit ns hv as _)

theorem visitArgumentG (h : WalkAlgV c Q) (a : Arg) (st : St) : Q (argNodes a) st (visitArgument c a st) := by
  rw [visitArgument, argNodes]; exact h.node _ _ _ st rfl rfl (fun st => h.value a.value st)
theorem visitArgumentsG (h : WalkAlgV c Q) (as : List Arg) (st : St) : Q (argsNodes as) st (visitArguments c as st) :=
  foldlG h (visitArgument c) argNodes (visitArgumentG h) as st
theorem visitDirectiveG (h : WalkAlgV c Q) (d : Dir) (st : St) : Q (dirNodes d) st (visitDirective c d st) := by
  rw [visitDirective, dirNodes]; exact h.node _ _ _ st rfl rfl (fun st => visitArgumentsG h d.args st)
theorem visitDirectivesG (h : WalkAlgV c Q) (ds : List Dir) (st : St) : Q (dirsNodes ds) st (visitDirectives c ds st) :=
  foldlG h (visitDirective c) dirNodes (visitDirectiveG h) ds st

mutual
theorem visitSelG (h : WalkAlgV c Q) : ∀ (x : Sel) (st : St), Q (selNodes x) st (visitSel c x st)
  | .field al name args dirs true ssid sub, st => by
    rw [visitSel, selNodes]
    refine h.node _ _ _ st rfl rfl (fun st => ?_)
    simp only [↓reduceIte]
    exact h.append (h.append (visitArgumentsG h args st) (visitDirectivesG h dirs _))
      (h.node (.selectionSet ssid sub) _ _ _ rfl rfl (fun st => visitSelsG h sub st))
  | .field al name args dirs false ssid sub, st => by
    rw [visitSel, selNodes]
    refine h.node _ _ _ st rfl rfl (fun st => ?_)
    simp only [Bool.false_eq_true, ↓reduceIte, List.append_nil]
    exact h.append (visitArgumentsG h args st) (visitDirectivesG h dirs _)
  | .spread name dirs, st => by
    rw [visitSel, selNodes]; exact h.node _ _ _ st rfl rfl (fun st => visitDirectivesG h dirs st)
  | .inline on dirs ssid sub, st => by
    rw [visitSel, selNodes]
    refine h.node _ _ _ st rfl rfl (fun st => ?_)
    exact h.append (visitDirectivesG h dirs st)
      (h.node (.selectionSet ssid sub) _ _ _ rfl rfl (fun st => visitSelsG h sub st))
theorem visitSelsG (h : WalkAlgV c Q) : ∀ (xs : List Sel) (st : St), Q (selsNodes xs) st (visitSels c xs st)
  | [], st => by rw [visitSels, selsNodes]; exact h.nil st
  | x :: xs, st => by rw [visitSels, selsNodes]; exact h.append (visitSelG h x st) (visitSelsG h xs _)
end

theorem visitVarDefG (h : WalkAlgV c Q) (v : VarDef) (st : St) : Q (varDefNodes v) st (visitVarDef c v st) := by
  rw [visitVarDef, varDefNodes]
  refine h.node _ _ _ st rfl rfl (fun st => ?_)
  have key0 : ∀ st', Q [.typeNode v.type] st' (visitNode c (.typeNode v.type) id st') :=
    fun st' => h.node _ id [] st' rfl rfl (fun st => h.nil st)
  have key : ∀ st', Q (.typeNode v.type :: dirsNodes v.dirs) st'
      (visitDirectives c v.dirs (visitNode c (.typeNode v.type) id st')) :=
    fun st' => h.append (key0 st') (visitDirectivesG h v.dirs _)
  cases hd : v.default with
  | none => simpa using key st
  | some d => simp only; exact h.append (h.value d st) (key _)

theorem opBodyG (h : WalkAlgV c Q) (vars : List VarDef) (dirs : List Dir) (ssid : Nat) (sels : List Sel) (st : St) :
    Q (opBodyNodes vars dirs ssid sels) st
      (visitNode c (.selectionSet ssid sels) (visitSels c sels)
        (visitDirectives c dirs (vars.foldl (fun st v => visitVarDef c v st) st))) :=
  h.append (h.append (foldlG h (visitVarDef c) varDefNodes (visitVarDefG h) vars st) (visitDirectivesG h dirs _))
    (h.node (.selectionSet ssid sels) _ _ _ rfl rfl (fun st => visitSelsG h sels st))

theorem fragBodyG (h : WalkAlgV c Q) (dirs : List Dir) (ssid : Nat) (sels : List Sel) (st : St) :
    Q (fragBodyNodes dirs ssid sels) st
      (visitNode c (.selectionSet ssid sels) (visitSels c sels) (visitDirectives c dirs st)) :=
  h.append (visitDirectivesG h dirs st) (h.node (.selectionSet ssid sels) _ _ _ rfl rfl (fun st => visitSelsG h sels st))

/-- when `node` also holds for the definition-level nodes -/
theorem visitDefG (h : WalkAlgV c Q)
    (htop : ∀ (n : Node) (body : St → St) (ns : List Node) (st : St), n.isDoc = false → n.isValueish = false →
      (∀ st1, Q ns st1 (body st1)) → Q (n :: ns) st (visitNode c n body st))
    (d : Def) (st : St) : Q (defNodes d) st (visitDef c d st) := by
  cases d with
  | op kind name vars dirs ssid sels =>
    simp only [visitDef, defNodes]
    exact htop _ _ _ st rfl rfl (fun st => opBodyG h vars dirs ssid sels st)
  | frag name on dirs ssid sels =>
    simp only [visitDef, defNodes]
    exact htop _ _ _ st rfl rfl (fun st => fragBodyG h dirs ssid sels st)
  | ts a b =>
    simp only [visitDef, defNodes]
    exact htop _ id [] st rfl rfl (fun st => h.nil st)

theorem visitDefsG (h : WalkAlgV c Q)
    (htop : ∀ (n : Node) (body : St → St) (ns : List Node) (st : St), n.isDoc = false → n.isValueish = false →
      (∀ st1, Q ns st1 (body st1)) → Q (n :: ns) st (visitNode c n body st))
    (ds : List Def) (st : St) : Q (ds.flatMap defNodes) st (ds.foldl (fun st x => visitDef c x st) st) :=
  foldlG h (visitDef c) defNodes (visitDefG h htop) ds st

end PyGql.Validate

/-
  Variant of the GENERIC CONTEXT WALK (`Lemmas/ValidateCtx.lean`, copied and adapted) for a chain in which an
  OBJECT LITERAL may raise `SkipNode` WITHOUT reporting an error (`ValuesOfCorrectTypeChecker` at a position whose
  input type is unknown): a skipping node adds `S n x ≥ 0` errors; when it adds none, every node below it must be
  fine for static reasons (`quiet`) and nothing was pushed (`skipCtx`).
  RESULT (`Q.defsC`): the run adds no error  ⇔  every (node, context) pair of `Spec.gnDoc` is fine.
-/
import PyGqlModel.Lemmas.ValidateCtx
namespace PyGql.Validate
open PyGql PyGql.Validate.Spec

def Node.isObjVal : Node → Bool | .value (.obj _) => true | _ => false

namespace Q

structure CTXQ (c : Cfg) (X : Type) where
  ctx : St → X
  down : Node → X → X
  up : Node → X → X
  J : X → Prop
  Inv : St → Prop
  bad : Node → X → Bool
  F : Node → X → Nat
  G : Node → X → Nat
  restore : ∀ n x, (n.isDirective = true → J x) → up n (down n x) = x
  keepJ : ∀ n x, n.isDirective = false → J x → J (down n x)
  enter_ctx : ∀ n st, ctx (enter c n st).1 = down n (ctx st)
  leave_ctx : ∀ n st, ctx (leave c n st) = up n (ctx st)
  enterI : ∀ n st, n.isDoc = false → Inv st → Inv (enter c n st).1
  leaveI : ∀ n st, n.isDoc = false → Inv st → Inv (leave c n st)
  /-- errors added by a node that raises SkipNode (possibly none) -/
  S : Node → X → Nat
  skipE : ∀ n st, n.isDoc = false → Inv st → bad n (down n (ctx st)) = true →
    (enter c n st).2 = true ∧ E (leaveSkipped c n st (enter c n st).1) = E st + S n (down n (ctx st))
  /-- after a `SkipNode` the members that entered are left at once (fix 391ad62) -/
  skipI : ∀ n st, n.isDoc = false → Inv st → bad n (down n (ctx st)) = true →
    Inv (leaveSkipped c n st (enter c n st).1)
  skip_ctx : ∀ n st, n.isDoc = false → Inv st → bad n (down n (ctx st)) = true →
    ctx (leaveSkipped c n st (enter c n st).1) = up n (down n (ctx st))
  /-- only object literals raise SkipNode -/
  badObj : ∀ n x, bad n x = true → n.isObjVal = true
  /-- a node that skips does not push anything -/
  skipCtx : ∀ n x, bad n (down n x) = true → down n x = x
  /-- below an object literal that skips WITHOUT an error every node is fine anyway -/
  quiet : ∀ fs x, bad (.value (.obj fs)) x = true → S (.value (.obj fs)) x = 0 →
    ∀ p ∈ gnObjFields down x fs,
      (bad p.1 p.2 = true → S p.1 p.2 = 0) ∧ (bad p.1 p.2 = false → F p.1 p.2 = 0 ∧ G p.1 p.2 = 0)
  noskip : ∀ n st, n.isDoc = false → Inv st → bad n (down n (ctx st)) = false → (enter c n st).2 = false
  enterE : ∀ n st, n.isDoc = false → Inv st → bad n (down n (ctx st)) = false →
    E (enter c n st).1 = E st + F n (down n (ctx st))
  leaveE : ∀ n st, n.isDoc = false → Inv st → E (leave c n st) = E st + G n (ctx st)

variable {c : Cfg} {X : Type}

/-! ### the invariant is kept and errors never decrease (no side condition) -/

def MI (K : CTXQ c X) (st st' : St) : Prop := K.Inv st → K.Inv st' ∧ E st ≤ E st'

theorem visitNode_MI (K : CTXQ c X) (n : Node) (body : St → St) (st : St) (hn : n.isDoc = false)
    (hb : ∀ st1, MI K st1 (body st1)) : MI K st (visitNode c n body st) := by
  intro hi
  cases hbad : K.bad n (K.down n (K.ctx st))
  · rw [visitNode_false (K.noskip n st hn hi hbad)]
    have e1 := K.enterE n st hn hi hbad
    obtain ⟨i2, m2⟩ := hb _ (K.enterI n st hn hi)
    refine ⟨K.leaveI n _ hn i2, ?_⟩
    rw [K.leaveE n _ hn i2]; omega
  · obtain ⟨h1, h2⟩ := K.skipE n st hn hi hbad
    rw [visitNode_true h1]
    exact ⟨K.skipI n st hn hi hbad, by omega⟩

theorem algM (K : CTXQ c X) : WalkAlg c (fun _ st st' => MI K st st') where
  nil st := fun hi => ⟨hi, Nat.le_refl _⟩
  append h1 h2 := fun hi => by
    obtain ⟨i2, m2⟩ := h1 hi
    obtain ⟨i3, m3⟩ := h2 i2
    exact ⟨i3, Nat.le_trans m2 m3⟩
  node n body _ st hn hb := visitNode_MI K n body st (isDoc_of_isTop hn) hb

theorem htopM (K : CTXQ c X) (n : Node) (body : St → St) (ns : List Node) (st : St) (hn : n.isDoc = false)
    (_ : n.isValueish = false) (hb : ∀ st1, MI K st1 (body st1)) : MI K st (visitNode c n body st) :=
  visitNode_MI K n body st hn hb

/-! ### silent ⇔ every (node, context) pair is fine -/

def okP (K : CTXQ c X) (p : Node × X) : Prop :=
  (K.bad p.1 p.2 = true → K.S p.1 p.2 = 0) ∧ (K.bad p.1 p.2 = false → K.F p.1 p.2 = 0 ∧ K.G p.1 p.2 = 0)

def PX (K : CTXQ c X) (l : List (Node × X)) (st st' : St) : Prop :=
  (E st' = E st ↔ ∀ p ∈ l, okP K p) ∧ (E st' = E st → K.ctx st' = K.ctx st)

theorem PX.nil (K : CTXQ c X) (st : St) : PX K [] st st := ⟨by simp, fun _ => rfl⟩

theorem PX.seq (K : CTXQ c X) (la lb : List (Node × X)) (s1 s2 s3 : St) (m12 : E s1 ≤ E s2) (m23 : E s2 ≤ E s3)
    (h1 : PX K la s1 s2) (h2 : K.ctx s2 = K.ctx s1 → PX K lb s2 s3) : PX K (la ++ lb) s1 s3 := by
  constructor
  · simp only [List.mem_append]
    constructor
    · intro e
      have e2 : E s2 = E s1 := by omega
      have e3 : E s3 = E s2 := by omega
      have hb := h2 (h1.2 e2)
      intro p hp
      rcases hp with hp | hp
      · exact h1.1.mp e2 p hp
      · exact hb.1.mp e3 p hp
    · intro h
      have e2 := h1.1.mpr (fun p hp => h p (Or.inl hp))
      have hb := h2 (h1.2 e2)
      have e3 := hb.1.mpr (fun p hp => h p (Or.inr hp))
      omega
  · intro e
    have e2 : E s2 = E s1 := by omega
    have e3 : E s3 = E s2 := by omega
    have hb := h2 (h1.2 e2)
    rw [hb.2 e3, h1.2 e2]

theorem PX.nodeQ (K : CTXQ c X) (n : Node) (body : St → St) (lb : List (Node × X)) (st : St) (hn : n.isDoc = false)
    (hi : K.Inv st) (hJ : n.isDirective = true → K.J (K.ctx st))
    (mb : ∀ st1, MI K st1 (body st1))
    (hb : ∀ st1, K.Inv st1 → K.ctx st1 = K.down n (K.ctx st) → PX K lb st1 (body st1))
    (hq : K.bad n (K.down n (K.ctx st)) = true → K.S n (K.down n (K.ctx st)) = 0 → ∀ p ∈ lb, okP K p) :
    PX K ((n, K.down n (K.ctx st)) :: lb) st (visitNode c n body st) := by
  cases hbad : K.bad n (K.down n (K.ctx st))
  · rw [visitNode_false (K.noskip n st hn hi hbad)]
    have e1 := K.enterE n st hn hi hbad
    have i1 := K.enterI n st hn hi
    have c1 := K.enter_ctx n st
    obtain ⟨i2, m2⟩ := mb _ i1
    have el := K.leaveE n _ hn i2
    have hb1 := hb _ i1 c1
    have hok : okP K (n, K.down n (K.ctx st)) ↔ (K.F n (K.down n (K.ctx st)) = 0 ∧ K.G n (K.down n (K.ctx st)) = 0) := by
      simp [okP, hbad]
    constructor
    · simp only [List.mem_cons, forall_eq_or_imp, hok]
      constructor
      · intro e
        have eb : E (body (enter c n st).1) = E (enter c n st).1 := by omega
        have cb := hb1.2 eb
        rw [cb, c1] at el
        exact ⟨⟨by omega, by omega⟩, hb1.1.mp eb⟩
      · rintro ⟨⟨hf, hg⟩, hrest⟩
        have eb := hb1.1.mpr hrest
        have cb := hb1.2 eb
        rw [cb, c1] at el
        omega
    · intro e
      have eb : E (body (enter c n st).1) = E (enter c n st).1 := by omega
      rw [K.leave_ctx, hb1.2 eb, c1, K.restore n _ hJ]
  · obtain ⟨h1, h2⟩ := K.skipE n st hn hi hbad
    rw [visitNode_true h1]
    constructor
    · constructor
      · intro e
        have hs : K.S n (K.down n (K.ctx st)) = 0 := by omega
        intro p hp
        rcases List.mem_cons.mp hp with rfl | hp
        · exact ⟨fun _ => hs, fun h => by rw [hbad] at h; cases h⟩
        · exact hq hbad hs p hp
      · intro hall
        have := (hall _ (List.mem_cons_self ..)).1 hbad
        simp only at this
        omega
    · intro _
      rw [K.skip_ctx n st hn hi hbad, K.restore n _ hJ]

/-- a node that is not an object literal -/
theorem PX.node (K : CTXQ c X) (n : Node) (body : St → St) (lb : List (Node × X)) (st : St) (hn : n.isDoc = false)
    (hi : K.Inv st) (hJ : n.isDirective = true → K.J (K.ctx st))
    (mb : ∀ st1, MI K st1 (body st1))
    (hb : ∀ st1, K.Inv st1 → K.ctx st1 = K.down n (K.ctx st) → PX K lb st1 (body st1))
    (hno : n.isObjVal = false := by rfl) :
    PX K ((n, K.down n (K.ctx st)) :: lb) st (visitNode c n body st) :=
  PX.nodeQ K n body lb st hn hi hJ mb hb (fun hb' _ => by rw [K.badObj _ _ hb'] at hno; cases hno)


/-! ### the induction over the document -/

theorem leafC (K : CTXQ c X) (n : Node) (st : St) (hn : n.isDoc = false) (hi : K.Inv st)
    (hJ : n.isDirective = true → K.J (K.ctx st)) (hno : n.isObjVal = false := by rfl) :
    PX K [(n, K.down n (K.ctx st))] st (visitNode c n id st) :=
  PX.node K n id [] st hn hi hJ (fun _ hi => ⟨hi, Nat.le_refl _⟩) (fun st1 _ _ => PX.nil K st1) hno

mutual
theorem valueC (K : CTXQ c X) : ∀ (v : Value) (st : St), K.Inv st →
    PX K (gnValue K.down (K.ctx st) v) st (visitValue c v st)
  | .list vs, st, hi => by
    rw [visitValue, gnValue]
    exact PX.node K _ _ _ st rfl hi (by intro h; cases h) (fun st1 => visitValuesG (algM K) vs st1)
      (fun st1 i1 c1 => by have := valuesC K vs st1 i1; rwa [c1] at this)
  | .obj fs, st, hi => by
    rw [visitValue, gnValue]
    exact PX.nodeQ K _ _ _ st rfl hi (by intro h; cases h) (fun st1 => visitObjFieldsG (algM K) fs st1)
      (fun st1 i1 c1 => by have := objFieldsC K fs st1 i1; rwa [c1] at this)
      (fun hb hs => K.quiet fs _ hb hs)
  | .var a, st, hi => by rw [visitValue, gnValue]; exact leafC K _ st rfl hi (by intro h; cases h)
  | .int a, st, hi => by rw [visitValue, gnValue]; exact leafC K _ st rfl hi (by intro h; cases h)
  | .float a, st, hi => by rw [visitValue, gnValue]; exact leafC K _ st rfl hi (by intro h; cases h)
  | .str a, st, hi => by rw [visitValue, gnValue]; exact leafC K _ st rfl hi (by intro h; cases h)
  | .bool a, st, hi => by rw [visitValue, gnValue]; exact leafC K _ st rfl hi (by intro h; cases h)
  | .null, st, hi => by rw [visitValue, gnValue]; exact leafC K _ st rfl hi (by intro h; cases h)
  | .enum a, st, hi => by rw [visitValue, gnValue]; exact leafC K _ st rfl hi (by intro h; cases h)
theorem valuesC (K : CTXQ c X) : ∀ (vs : List Value) (st : St), K.Inv st →
    PX K (gnValues K.down (K.ctx st) vs) st (visitValues c vs st)
  | [], st, _ => by rw [visitValues, gnValues]; exact PX.nil K st
  | v :: vs, st, hi => by
    rw [visitValues, gnValues]
    obtain ⟨i2, m2⟩ := visitValueG (algM K) v st hi
    obtain ⟨_, m3⟩ := visitValuesG (algM K) vs (visitValue c v st) i2
    exact PX.seq K _ _ st _ _ m2 m3 (valueC K v st hi)
      (fun e => by have := valuesC K vs (visitValue c v st) i2; rwa [e] at this)
theorem objFieldC (K : CTXQ c X) : ∀ (f : ObjField) (st : St), K.Inv st →
    PX K (gnObjField K.down (K.ctx st) f) st (visitObjField c f st)
  | .mk n v, st, hi => by
    rw [visitObjField, gnObjField]
    exact PX.node K _ _ _ st rfl hi (by intro h; cases h) (fun st1 => visitValueG (algM K) v st1)
      (fun st1 i1 c1 => by have := valueC K v st1 i1; rwa [c1] at this)
theorem objFieldsC (K : CTXQ c X) : ∀ (fs : List ObjField) (st : St), K.Inv st →
    PX K (gnObjFields K.down (K.ctx st) fs) st (visitObjFields c fs st)
  | [], st, _ => by rw [visitObjFields, gnObjFields]; exact PX.nil K st
  | f :: fs, st, hi => by
    rw [visitObjFields, gnObjFields]
    obtain ⟨i2, m2⟩ := visitObjFieldG (algM K) f st hi
    obtain ⟨_, m3⟩ := visitObjFieldsG (algM K) fs (visitObjField c f st) i2
    exact PX.seq K _ _ st _ _ m2 m3 (objFieldC K f st hi)
      (fun e => by have := objFieldsC K fs (visitObjField c f st) i2; rwa [e] at this)
end

/-- a fold over children, each of which restores the context when silent -/
theorem foldlC {α} (K : CTXQ c X) (P : X → Prop) (visit : α → St → St) (ln : X → α → List (Node × X))
    (hm : ∀ a st, MI K st (visit a st))
    (hv : ∀ a st, K.Inv st → P (K.ctx st) → PX K (ln (K.ctx st) a) st (visit a st)) :
    ∀ (as : List α) (st : St), K.Inv st → P (K.ctx st) →
      PX K (as.flatMap (ln (K.ctx st))) st (as.foldl (fun st a => visit a st) st)
  | [], st, _, _ => by simpa using PX.nil K st
  | a :: as, st, hi, hp => by
    rw [List.foldl_cons, List.flatMap_cons]
    obtain ⟨i2, m2⟩ := hm a st hi
    obtain ⟨_, m3⟩ := foldlG (algM K).toV visit (fun _ => []) hm as (visit a st) i2
    exact PX.seq K _ _ st _ _ m2 m3 (hv a st hi hp)
      (fun e => by have := foldlC K P visit ln hm hv as (visit a st) i2 (by rw [e]; exact hp); rwa [e] at this)

theorem argC (K : CTXQ c X) (a : Arg) (st : St) (hi : K.Inv st) :
    PX K (gnArg K.down (K.ctx st) a) st (visitArgument c a st) := by
  rw [visitArgument, gnArg]
  exact PX.node K _ _ _ st rfl hi (by intro h; cases h) (fun st1 => visitValueG (algM K) a.value st1)
    (fun st1 i1 c1 => by have := valueC K a.value st1 i1; rwa [c1] at this)

theorem argsC (K : CTXQ c X) (as : List Arg) (st : St) (hi : K.Inv st) :
    PX K (gnArgs K.down (K.ctx st) as) st (visitArguments c as st) :=
  foldlC K (fun _ => True) (visitArgument c) (fun x a => gnArg K.down x a)
    (fun a st => visitArgumentG (algM K).toV a st) (fun a st hi _ => argC K a st hi) as st hi trivial

theorem dirC (K : CTXQ c X) (d : Dir) (st : St) (hi : K.Inv st) (hj : K.J (K.ctx st)) :
    PX K (gnDir K.down (K.ctx st) d) st (visitDirective c d st) := by
  rw [visitDirective, gnDir]
  exact PX.node K _ _ _ st rfl hi (fun _ => hj) (fun st1 => visitArgumentsG (algM K).toV d.args st1)
    (fun st1 i1 c1 => by have := argsC K d.args st1 i1; rwa [c1] at this)

theorem dirsC (K : CTXQ c X) (ds : List Dir) (st : St) (hi : K.Inv st) (hj : K.J (K.ctx st)) :
    PX K (gnDirs K.down (K.ctx st) ds) st (visitDirectives c ds st) :=
  foldlC K K.J (visitDirective c) (fun x d => gnDir K.down x d)
    (fun d st => visitDirectiveG (algM K).toV d st) (fun d st hi hj => dirC K d st hi hj) ds st hi hj

/-- the selection set node with its selections, visited from a state whose context is `x1` -/
theorem ssPartC (K : CTXQ c X) (ssid : Nat) (sub : List Sel) (st : St) (hi : K.Inv st) (hj : K.J (K.ctx st))
    (hsub : ∀ st2, K.Inv st2 → K.J (K.ctx st2) → PX K (gnSels K.down (K.ctx st2) sub) st2 (visitSels c sub st2)) :
    PX K ((.selectionSet ssid sub, K.down (.selectionSet ssid sub) (K.ctx st)) ::
        gnSels K.down (K.down (.selectionSet ssid sub) (K.ctx st)) sub) st
      (visitNode c (.selectionSet ssid sub) (visitSels c sub) st) :=
  PX.node K _ _ _ st rfl hi (by intro h; cases h) (fun st1 => visitSelsG (algM K).toV sub st1)
    (fun st2 i2 c2 => by
      have := hsub st2 i2 (by rw [c2]; exact K.keepJ _ _ rfl hj)
      rwa [c2] at this)

theorem MI.trans {K : CTXQ c X} {a b d : St} (h1 : MI K a b) (h2 : MI K b d) : MI K a d := fun hi => by
  obtain ⟨i2, m2⟩ := h1 hi
  obtain ⟨i3, m3⟩ := h2 i2
  exact ⟨i3, Nat.le_trans m2 m3⟩

mutual
theorem selC (K : CTXQ c X) : ∀ (x : Sel) (st : St), K.Inv st → K.J (K.ctx st) →
    PX K (gnSel K.down (K.ctx st) x) st (visitSel c x st)
  | .field al name args dirs true ssid sub, st, hi, hj => by
    rw [visitSel, gnSel]
    simp only [↓reduceIte]
    refine PX.node K _ _ _ st rfl hi (by intro h; cases h)
      (fun st1 => MI.trans (MI.trans (visitArgumentsG (algM K).toV args st1) (visitDirectivesG (algM K).toV dirs _))
        (visitNode_MI K _ _ _ rfl (fun st => visitSelsG (algM K).toV sub st)))
      (fun st1 i1 c1 => ?_)
    have hj1 : K.J (K.down (.field name args dirs true) (K.ctx st)) := K.keepJ _ _ rfl hj
    obtain ⟨ia, ma⟩ := visitArgumentsG (algM K).toV args st1 i1
    obtain ⟨id_, md⟩ := visitDirectivesG (algM K).toV dirs (visitArguments c args st1) ia
    obtain ⟨_, ms⟩ := visitNode_MI K (.selectionSet ssid sub) (visitSels c sub)
      (visitDirectives c dirs (visitArguments c args st1)) rfl (fun st => visitSelsG (algM K).toV sub st) id_
    have pa := argsC K args st1 i1
    rw [c1] at pa
    have pad := PX.seq K _ (gnDirs K.down (K.down (.field name args dirs true) (K.ctx st)) dirs) st1 _ _ ma md pa
      (fun e => by
        have := dirsC K dirs (visitArguments c args st1) ia (by rw [e, c1]; exact hj1)
        rwa [e, c1] at this)
    exact PX.seq K _ _ st1 _ _ (Nat.le_trans ma md) ms pad
      (fun e => by
        have := ssPartC K ssid sub (visitDirectives c dirs (visitArguments c args st1)) id_ (by rw [e, c1]; exact hj1)
          (fun st2 i2 j2 => selsC K sub st2 i2 j2)
        rwa [e, c1] at this)
  | .field al name args dirs false ssid sub, st, hi, hj => by
    rw [visitSel, gnSel]
    simp only [Bool.false_eq_true, ↓reduceIte, List.append_nil]
    refine PX.node K _ _ _ st rfl hi (by intro h; cases h)
      (fun st1 => MI.trans (visitArgumentsG (algM K).toV args st1) (visitDirectivesG (algM K).toV dirs _))
      (fun st1 i1 c1 => ?_)
    have hj1 : K.J (K.down (.field name args dirs false) (K.ctx st)) := K.keepJ _ _ rfl hj
    obtain ⟨ia, ma⟩ := visitArgumentsG (algM K).toV args st1 i1
    obtain ⟨_, md⟩ := visitDirectivesG (algM K).toV dirs (visitArguments c args st1) ia
    have pa := argsC K args st1 i1
    rw [c1] at pa
    exact PX.seq K _ _ st1 _ _ ma md pa
      (fun e => by
        have := dirsC K dirs (visitArguments c args st1) ia (by rw [e, c1]; exact hj1)
        rwa [e, c1] at this)
  | .spread name dirs, st, hi, hj => by
    rw [visitSel, gnSel]
    exact PX.node K _ _ _ st rfl hi (by intro h; cases h) (fun st1 => visitDirectivesG (algM K).toV dirs st1)
      (fun st1 i1 c1 => by
        have := dirsC K dirs st1 i1 (by rw [c1]; exact K.keepJ _ _ rfl hj)
        rwa [c1] at this)
  | .inline on dirs ssid sub, st, hi, hj => by
    rw [visitSel, gnSel]
    refine PX.node K _ _ _ st rfl hi (by intro h; cases h)
      (fun st1 => MI.trans (visitDirectivesG (algM K).toV dirs st1)
        (visitNode_MI K _ _ _ rfl (fun st => visitSelsG (algM K).toV sub st)))
      (fun st1 i1 c1 => ?_)
    have hj1 : K.J (K.down (.inline on dirs) (K.ctx st)) := K.keepJ _ _ rfl hj
    obtain ⟨id_, md⟩ := visitDirectivesG (algM K).toV dirs st1 i1
    obtain ⟨_, ms⟩ := visitNode_MI K (.selectionSet ssid sub) (visitSels c sub) (visitDirectives c dirs st1) rfl
      (fun st => visitSelsG (algM K).toV sub st) id_
    have pd := dirsC K dirs st1 i1 (by rw [c1]; exact hj1)
    rw [c1] at pd
    exact PX.seq K _ _ st1 _ _ md ms pd
      (fun e => by
        have := ssPartC K ssid sub (visitDirectives c dirs st1) id_ (by rw [e, c1]; exact hj1)
          (fun st2 i2 j2 => selsC K sub st2 i2 j2)
        rwa [e, c1] at this)
theorem selsC (K : CTXQ c X) : ∀ (xs : List Sel) (st : St), K.Inv st → K.J (K.ctx st) →
    PX K (gnSels K.down (K.ctx st) xs) st (visitSels c xs st)
  | [], st, _, _ => by rw [visitSels, gnSels]; exact PX.nil K st
  | x :: xs, st, hi, hj => by
    rw [visitSels, gnSels]
    obtain ⟨i2, m2⟩ := visitSelG (algM K).toV x st hi
    obtain ⟨_, m3⟩ := visitSelsG (algM K).toV xs (visitSel c x st) i2
    exact PX.seq K _ _ st _ _ m2 m3 (selC K x st hi hj)
      (fun e => by have := selsC K xs (visitSel c x st) i2 (by rw [e]; exact hj); rwa [e] at this)
end


theorem varDefC (K : CTXQ c X) (v : VarDef) (st : St) (hi : K.Inv st) (hj : K.J (K.ctx st)) :
    PX K (gnVarDef K.down (K.ctx st) v) st (visitVarDef c v st) := by
  rw [visitVarDef, gnVarDef]
  have hj1 : K.J (K.down (.varDef v) (K.ctx st)) := K.keepJ _ _ rfl hj
  have tyMI : ∀ st', MI K st' (visitNode c (.typeNode v.type) id st') :=
    fun st' => visitNode_MI K _ _ _ rfl (fun _ hi => ⟨hi, Nat.le_refl _⟩)
  have tail : ∀ st', K.Inv st' → K.ctx st' = K.down (.varDef v) (K.ctx st) →
      PX K ((.typeNode v.type, K.down (.typeNode v.type) (K.down (.varDef v) (K.ctx st))) ::
        gnDirs K.down (K.down (.varDef v) (K.ctx st)) v.dirs) st'
        (visitDirectives c v.dirs (visitNode c (.typeNode v.type) id st')) := by
    intro st' i' c'
    obtain ⟨i2, m2⟩ := tyMI st' i'
    obtain ⟨_, m3⟩ := visitDirectivesG (algM K).toV v.dirs (visitNode c (.typeNode v.type) id st') i2
    have pt := leafC K (.typeNode v.type) st' rfl i' (by intro h; cases h)
    rw [c'] at pt
    exact PX.seq K [_] _ st' _ _ m2 m3 pt (fun e => by
      have := dirsC K v.dirs (visitNode c (.typeNode v.type) id st') i2 (by rw [e, c']; exact hj1)
      rwa [e, c'] at this)
  refine PX.node K _ _ _ st rfl hi (by intro h; cases h) (fun st1 => ?_) (fun st1 i1 c1 => ?_)
  · cases hd : v.default with
    | none => exact MI.trans (tyMI st1) (visitDirectivesG (algM K).toV v.dirs _)
    | some dv =>
      simp only
      exact MI.trans (MI.trans (visitValueG (algM K) dv st1) (tyMI _)) (visitDirectivesG (algM K).toV v.dirs _)
  · cases hd : v.default with
    | none =>
      simp only [List.nil_append]
      exact tail st1 i1 c1
    | some dv =>
      simp only
      obtain ⟨i2, m2⟩ := visitValueG (algM K) dv st1 i1
      obtain ⟨i3, m3⟩ := tyMI (visitValue c dv st1) i2
      obtain ⟨_, m4⟩ := visitDirectivesG (algM K).toV v.dirs (visitNode c (.typeNode v.type) id (visitValue c dv st1)) i3
      have pv := valueC K dv st1 i1
      rw [c1] at pv
      exact PX.seq K _ _ st1 _ _ m2 (Nat.le_trans m3 m4) pv (fun e => tail _ i2 (by rw [e, c1]))

theorem visitVarDef_MI (K : CTXQ c X) (v : VarDef) (st : St) : MI K st (visitVarDef c v st) :=
  visitVarDefG (algM K).toV v st

theorem defC (K : CTXQ c X) (d : Def) (st : St) (hi : K.Inv st) (hj : K.J (K.ctx st)) :
    PX K (gnDef K.down (K.ctx st) d) st (visitDef c d st) := by
  cases d with
  | op kind name vars dirs ssid sels =>
    rw [visitDef, gnDef]
    refine PX.node K _ _ _ st rfl hi (by intro h; cases h)
      (fun st1 => MI.trans (MI.trans (foldlG (algM K).toV (visitVarDef c) (fun _ => []) (visitVarDef_MI K) vars st1)
        (visitDirectivesG (algM K).toV dirs _)) (visitNode_MI K _ _ _ rfl (fun st => visitSelsG (algM K).toV sels st)))
      (fun st1 i1 c1 => ?_)
    have hj1 : K.J (K.down (.operation kind name vars dirs sels) (K.ctx st)) := K.keepJ _ _ rfl hj
    obtain ⟨iv, mv⟩ := foldlG (algM K).toV (visitVarDef c) (fun _ => []) (visitVarDef_MI K) vars st1 i1
    obtain ⟨id_, md⟩ := visitDirectivesG (algM K).toV dirs (vars.foldl (fun st v => visitVarDef c v st) st1) iv
    obtain ⟨_, ms⟩ := visitNode_MI K (.selectionSet ssid sels) (visitSels c sels)
      (visitDirectives c dirs (vars.foldl (fun st v => visitVarDef c v st) st1)) rfl
      (fun st => visitSelsG (algM K).toV sels st) id_
    have pv := foldlC K K.J (visitVarDef c) (fun x v => gnVarDef K.down x v) (visitVarDef_MI K)
      (fun v st hi hj => varDefC K v st hi hj) vars st1 i1 (by rw [c1]; exact hj1)
    rw [c1] at pv
    have pvd := PX.seq K _ (gnDirs K.down (K.down (.operation kind name vars dirs sels) (K.ctx st)) dirs) st1 _ _ mv md pv
      (fun e => by
        have := dirsC K dirs (vars.foldl (fun st v => visitVarDef c v st) st1) iv (by rw [e, c1]; exact hj1)
        rwa [e, c1] at this)
    exact PX.seq K _ _ st1 _ _ (Nat.le_trans mv md) ms pvd
      (fun e => by
        have := ssPartC K ssid sels (visitDirectives c dirs (vars.foldl (fun st v => visitVarDef c v st) st1)) id_
          (by rw [e, c1]; exact hj1) (fun st2 i2 j2 => selsC K sels st2 i2 j2)
        rwa [e, c1] at this)
  | frag name on dirs ssid sels =>
    rw [visitDef, gnDef]
    refine PX.node K _ _ _ st rfl hi (by intro h; cases h)
      (fun st1 => MI.trans (visitDirectivesG (algM K).toV dirs st1)
        (visitNode_MI K _ _ _ rfl (fun st => visitSelsG (algM K).toV sels st)))
      (fun st1 i1 c1 => ?_)
    have hj1 : K.J (K.down (.fragmentDef name on dirs) (K.ctx st)) := K.keepJ _ _ rfl hj
    obtain ⟨id_, md⟩ := visitDirectivesG (algM K).toV dirs st1 i1
    obtain ⟨_, ms⟩ := visitNode_MI K (.selectionSet ssid sels) (visitSels c sels) (visitDirectives c dirs st1) rfl
      (fun st => visitSelsG (algM K).toV sels st) id_
    have pd := dirsC K dirs st1 i1 (by rw [c1]; exact hj1)
    rw [c1] at pd
    exact PX.seq K _ _ st1 _ _ md ms pd
      (fun e => by
        have := ssPartC K ssid sels (visitDirectives c dirs st1) id_ (by rw [e, c1]; exact hj1)
          (fun st2 i2 j2 => selsC K sels st2 i2 j2)
        rwa [e, c1] at this)
  | ts a b =>
    rw [visitDef, gnDef]
    exact leafC K .tsDef st rfl hi (by intro h; cases h)

theorem visitDef_MI (K : CTXQ c X) (d : Def) (st : St) : MI K st (visitDef c d st) :=
  visitDefG (algM K).toV (htopM K) d st

/-- **main theorem of the context walk**: over the definitions of a document, the run adds no error exactly when
    every (node, static context) pair is fine; in that case the context is back where it started -/
theorem defsC (K : CTXQ c X) (ds : List Def) (st : St) (hi : K.Inv st) (hj : K.J (K.ctx st)) :
    PX K (ds.flatMap (gnDef K.down (K.ctx st))) st (ds.foldl (fun st x => visitDef c x st) st) :=
  foldlC K K.J (visitDef c) (fun x d => gnDef K.down x d) (visitDef_MI K) (fun d st hi hj => defC K d st hi hj) ds st hi hj

end Q
end PyGql.Validate

/-
  Enumerations of the nodes of EXECUTABLE definitions that have no entry point of their own — selections, selection sets,
  directives, arguments — each a sub-node of the definition's concrete-syntax view and well-formed when the definition is.
  (Mirror of `Lemmas/SpanVals.lean`; used by the closed forms of the re-parse-in-context theorems of C02.)
-/
import PyGqlModel.Lemmas.SpanVals
import PyGqlModel.Lemmas.SpanCtx
namespace PyGql.Ast

mutual
/-- the selection itself and every selection nested in it -/
def Selection.sels : Selection → List Selection
  | .field a n args dirs ss loc => .field a n args dirs ss loc :: optSSSels ss
  | .fragmentSpread n dirs loc => [.fragmentSpread n dirs loc]
  | .inlineFragment tc dirs ss loc => .inlineFragment tc dirs ss loc :: ss.sels
def SelectionSet.sels : SelectionSet → List Selection
  | .mk sels _ => selsSels sels
def optSSSels : Option SelectionSet → List Selection
  | none => []
  | some ss => ss.sels
def selsSels : List Selection → List Selection
  | [] => []
  | s :: ss => s.sels ++ selsSels ss
end

/-- the parts of ONE selection -/
def Selection.directives : Selection → List Directive
  | .field _ _ _ dirs _ _ => dirs
  | .fragmentSpread _ dirs _ => dirs
  | .inlineFragment _ dirs _ _ => dirs
def Selection.arguments : Selection → List Argument
  | .field _ _ args _ _ _ => args
  | _ => []
def Selection.ownSet : Selection → List SelectionSet
  | .field _ _ _ _ (some ss) _ => [ss]
  | .inlineFragment _ _ ss _ => [ss]
  | _ => []

/-- selection set, variable definitions and directives of an executable definition -/
def Definition.execParts : Definition → Option (SelectionSet × List VariableDefinition × List Directive)
  | .operation o => some (o.selectionSet, o.variableDefinitions, o.directives)
  | .fragment f => some (f.selectionSet, f.variableDefinitions, f.directives)
  | _ => none

/-- every selection (field, fragment spread, inline fragment) of an executable definition, at any depth -/
def Definition.sels (x : Definition) : List Selection :=
  match x.execParts with
  | some (ss, _, _) => ss.sels
  | none => []
/-- every selection set of an executable definition: its own and those of fields and inline fragments at any depth -/
def Definition.ssets (x : Definition) : List SelectionSet :=
  match x.execParts with
  | some (ss, _, _) => ss :: x.sels.flatMap Selection.ownSet
  | none => []
/-- every directive of an executable definition: on the definition, on its variable definitions, on its selections -/
def Definition.dirs (x : Definition) : List Directive :=
  match x.execParts with
  | some (_, vds, ds) => ds ++ vds.flatMap (·.directives) ++ x.sels.flatMap Selection.directives
  | none => []
/-- every variable definition of an executable definition -/
def Definition.vdefs (x : Definition) : List VariableDefinition :=
  match x.execParts with
  | some (_, vds, _) => vds
  | none => []
/-- every argument of an executable definition: of its fields and of its directives -/
def Definition.args (x : Definition) : List Argument :=
  x.sels.flatMap Selection.arguments ++ x.dirs.flatMap (·.arguments)

end PyGql.Ast

namespace PyGql.Spec
open PyGql PyGql.Ast PyGql.Parse

mutual
theorem selection_sels : ∀ (s w : Selection), w ∈ s.sels →
    Item.Sub (selectionV w) (selectionV s) ∧ (wfSelection s = true → wfSelection w = true)
  | .field alias_ name args dirs ss loc, w, h => by
    simp only [Selection.sels, List.mem_cons] at h
    rcases h with rfl | h
    · exact ⟨.refl, id⟩
    · simp only [selectionV, wfSelection, Bool.and_eq_true]
      obtain ⟨h1, h2⟩ := optSS_sels ss w h
      exact ⟨((h1.right _).tail _ |>.right _).node _, fun hh => h2 hh.2⟩
  | .fragmentSpread name dirs loc, w, h => by
    simp only [Selection.sels, List.mem_singleton] at h
    subst h; exact ⟨.refl, id⟩
  | .inlineFragment tc dirs ss loc, w, h => by
    simp only [Selection.sels, List.mem_cons] at h
    rcases h with rfl | h
    · exact ⟨.refl, id⟩
    · simp only [selectionV, wfSelection, Bool.and_eq_true]
      obtain ⟨h1, h2⟩ := selectionSet_sels ss w h
      exact ⟨(((SubL.head [] h1).right _).tail _).node _, fun hh => h2 hh.2⟩
theorem selectionSet_sels : ∀ (ss : SelectionSet) (w : Selection), w ∈ ss.sels →
    Item.Sub (selectionV w) (selectionSetV ss) ∧ (wfSelectionSet ss = true → wfSelection w = true)
  | .mk sels loc, w, h => by
    simp only [SelectionSet.sels] at h
    simp only [selectionSetV, wfSelectionSet, Bool.and_eq_true]
    obtain ⟨h1, h2⟩ := sels_sels sels w h
    exact ⟨((h1.left _).tail _).node _, fun hh => h2 hh.2⟩
theorem optSS_sels : ∀ (o : Option SelectionSet) (w : Selection), w ∈ optSSSels o →
    SubL (selectionV w) (optSelectionSetV o) ∧ (wfOptSelectionSet o = true → wfSelection w = true)
  | none, w, h => by simp [optSSSels] at h
  | some ss, w, h => by
    simp only [optSSSels] at h
    obtain ⟨h1, h2⟩ := selectionSet_sels ss w h
    exact ⟨by simp only [optSelectionSetV]; exact SubL.head _ h1, fun hh => h2 (by simpa [wfOptSelectionSet] using hh)⟩
theorem sels_sels : ∀ (ss : List Selection) (w : Selection), w ∈ selsSels ss →
    SubL (selectionV w) (selectionsV ss) ∧ (wfSelections ss = true → wfSelection w = true)
  | [], w, h => by simp [selsSels] at h
  | s :: ss, w, h => by
    simp only [selsSels, List.mem_append] at h
    simp only [selectionsV, wfSelections, Bool.and_eq_true]
    rcases h with h | h
    · obtain ⟨h1, h2⟩ := selection_sels s w h
      exact ⟨SubL.head _ h1, fun hh => h2 hh.1⟩
    · obtain ⟨h1, h2⟩ := sels_sels ss w h
      exact ⟨h1.tail _, fun hh => h2 hh.2⟩
end

/-! ### the parts of one selection -/

theorem selection_ownSet (s : Selection) (ss : SelectionSet) (h : ss ∈ s.ownSet) :
    Item.Sub (selectionSetV ss) (selectionV s) ∧ (wfSelection s = true → wfSelectionSet ss = true) := by
  cases s with
  | field alias_ name args dirs o loc =>
    cases o with
    | none => simp [Selection.ownSet] at h
    | some ss' =>
      simp only [Selection.ownSet, List.mem_singleton] at h
      subst h
      simp only [selectionV, wfSelection, Bool.and_eq_true, optSelectionSetV, wfOptSelectionSet]
      exact ⟨(((SubL.head [] .refl).right _).tail _ |>.right _).node _, fun hh => hh.2⟩
  | fragmentSpread name dirs loc => simp [Selection.ownSet] at h
  | inlineFragment tc dirs ss' loc =>
    simp only [Selection.ownSet, List.mem_singleton] at h
    subst h
    simp only [selectionV, wfSelection, Bool.and_eq_true]
    exact ⟨(((SubL.head [] .refl).right _).tail _).node _, fun hh => hh.2⟩

theorem directives_mem (c : Bool) (ds : List Directive) (d : Directive) (h : d ∈ ds) :
    SubL (directiveV d) (directivesV ds) ∧ (wfDirectives c ds = true → wfDirective c d = true) :=
  ⟨SubL.map directiveV h .refl, fun hh => all_mem hh h⟩

theorem selection_directives (s : Selection) (d : Directive) (h : d ∈ s.directives) :
    Item.Sub (directiveV d) (selectionV s) ∧ (wfSelection s = true → wfDirective false d = true) := by
  cases s with
  | field alias_ name args dirs o loc =>
    simp only [Selection.directives] at h
    simp only [selectionV, wfSelection, Bool.and_eq_true]
    obtain ⟨h1, h2⟩ := directives_mem false dirs d h
    exact ⟨(((h1.right _).left _).tail _ |>.right _).node _, fun hh => h2 hh.1.2⟩
  | fragmentSpread name dirs loc =>
    simp only [Selection.directives] at h
    simp only [selectionV, wfSelection, Bool.and_eq_true]
    obtain ⟨h1, h2⟩ := directives_mem false dirs d h
    exact ⟨(h1.tail _ |>.tail _).node _, fun hh => h2 hh.2⟩
  | inlineFragment tc dirs ss loc =>
    simp only [Selection.directives] at h
    simp only [selectionV, wfSelection, Bool.and_eq_true]
    obtain ⟨h1, h2⟩ := directives_mem false dirs d h
    exact ⟨(((h1.right _).left _).tail _).node _, fun hh => h2 hh.1⟩

theorem arguments_mem (c : Bool) (as : List Argument) (a : Argument) (h : a ∈ as) :
    SubL (argumentV a) (argumentsV as) ∧ (as.all (wfArgument c) = true → wfArgument c a = true) :=
  ⟨SubL.group _ _ argumentV h .refl, fun hh => all_mem hh h⟩

theorem selection_arguments (s : Selection) (a : Argument) (h : a ∈ s.arguments) :
    Item.Sub (argumentV a) (selectionV s) ∧ (wfSelection s = true → wfArgument false a = true) := by
  cases s with
  | field alias_ name args dirs o loc =>
    simp only [Selection.arguments] at h
    simp only [selectionV, wfSelection, Bool.and_eq_true]
    obtain ⟨h1, h2⟩ := arguments_mem false args a h
    exact ⟨(((h1.left _).left _).tail _ |>.right _).node _, fun hh => h2 hh.1.1⟩
  | fragmentSpread name dirs loc => simp [Selection.arguments] at h
  | inlineFragment tc dirs ss loc => simp [Selection.arguments] at h

theorem directive_arguments (c : Bool) (d : Directive) (a : Argument) (h : a ∈ d.arguments) :
    Item.Sub (argumentV a) (directiveV d) ∧ (wfDirective c d = true → wfArgument c a = true) := by
  obtain ⟨h1, h2⟩ := arguments_mem c d.arguments a h
  exact ⟨by simp only [directiveV]; exact (h1.tail _ |>.tail _).node _, fun hh => h2 hh⟩

/-! ### the top of an executable definition -/

theorem variableDefinitions_dirs (vds : List VariableDefinition) (vd : VariableDefinition) (hv : vd ∈ vds)
    (d : Directive) (hd : d ∈ vd.directives) :
    SubL (directiveV d) (variableDefinitionsV vds) ∧ (vds.all wfVariableDefinition = true → wfDirective true d = true) := by
  obtain ⟨h1, h2⟩ := directives_mem true vd.directives d hd
  have hs : Item.Sub (directiveV d) (variableDefinitionV vd) := by
    unfold variableDefinitionV
    exact ((h1.right _).tail _ |>.tail _ |>.tail _).node _
  refine ⟨SubL.group _ _ variableDefinitionV hv hs, fun hh => h2 ?_⟩
  have := all_mem hh hv
  simp only [wfVariableDefinition, Bool.and_eq_true] at this
  exact this.2

/-- selection set, directives and variable-definition directives of an executable definition are sub-nodes of its view,
    well-formed when the definition is -/
theorem definition_parts (fl : Flags) (x : Definition) (ss : SelectionSet) (vds : List VariableDefinition)
    (ds : List Directive) (h : x.execParts = some (ss, vds, ds)) :
    (Item.Sub (selectionSetV ss) (definitionV x) ∧ (wfDefinition fl x = true → wfSelectionSet ss = true)) ∧
    (∀ d ∈ ds, Item.Sub (directiveV d) (definitionV x) ∧ (wfDefinition fl x = true → wfDirective false d = true)) ∧
    (∀ vd ∈ vds, ∀ d ∈ vd.directives,
      Item.Sub (directiveV d) (definitionV x) ∧ (wfDefinition fl x = true → wfDirective true d = true)) := by
  cases x with
  | operation o =>
    simp only [Definition.execParts, Option.some.injEq, Prod.mk.injEq] at h
    obtain ⟨rfl, rfl, rfl⟩ := h
    simp only [definitionV, wfDefinition, wfOperation, Bool.and_eq_true]
    unfold operationV
    split
    · rename_i hsh
      simp only [isShorthand, decide_eq_true_eq] at hsh
      have hv : o.variableDefinitions = [] := by simpa using hsh.2.2.1
      have hd : o.directives = [] := by simpa using hsh.2.2.2
      refine ⟨⟨((SubL.head [] .refl).tail _).node _, fun hh => hh.2⟩, ?_, ?_⟩
      · intro d hd'; rw [hd] at hd'; cases hd'
      · intro vd hv'; rw [hv] at hv'; cases hv'
    · refine ⟨⟨(((SubL.head [] .refl).right _).tail _).node _, fun hh => hh.2⟩, ?_, ?_⟩
      · intro d hd
        obtain ⟨h1, h2⟩ := directives_mem false o.directives d hd
        exact ⟨(((h1.right _).left _).tail _).node _, fun hh => h2 hh.1.2⟩
      · intro vd hv d hd
        obtain ⟨h1, h2⟩ := variableDefinitions_dirs o.variableDefinitions vd hv d hd
        exact ⟨((((h1.right _).left _).left _).tail _).node _, fun hh => h2 hh.1.1.2⟩
  | fragment f =>
    simp only [Definition.execParts, Option.some.injEq, Prod.mk.injEq] at h
    obtain ⟨rfl, rfl, rfl⟩ := h
    simp only [definitionV, wfDefinition, wfFragment, Bool.and_eq_true]
    unfold fragmentV
    refine ⟨⟨((((SubL.head [] .refl).right _).tail _ |>.tail _).right _ |>.tail _ |>.tail _).node _, fun hh => hh.2⟩, ?_, ?_⟩
    · intro d hd
      obtain ⟨h1, h2⟩ := directives_mem false f.directives d hd
      exact ⟨(((h1.left _).tail _ |>.tail _).right _ |>.tail _ |>.tail _).node _, fun hh => h2 hh.1.2⟩
    · intro vd hv d hd
      obtain ⟨h1, h2⟩ := variableDefinitions_dirs f.variableDefinitions vd hv d hd
      exact ⟨((h1.left _).tail _ |>.tail _).node _, fun hh => h2 hh.1.1.2⟩
  | _ => simp [Definition.execParts] at h

theorem definition_vdefs (fl : Flags) (x : Definition) (w : VariableDefinition) (h : w ∈ x.vdefs) :
    Item.Sub (variableDefinitionV w) (definitionV x) ∧ (wfDefinition fl x = true → wfVariableDefinition w = true) := by
  cases x with
  | operation o =>
    simp only [Definition.vdefs, Definition.execParts] at h
    have h1 : SubL (variableDefinitionV w) (variableDefinitionsV o.variableDefinitions) :=
      SubL.group _ _ variableDefinitionV h .refl
    simp only [definitionV, wfDefinition, wfOperation, Bool.and_eq_true]
    unfold operationV
    split
    · rename_i hsh
      simp only [isShorthand, decide_eq_true_eq] at hsh
      have hv : o.variableDefinitions = [] := by simpa using hsh.2.2.1
      rw [hv] at h; cases h
    · exact ⟨((((h1.right _).left _).left _).tail _).node _, fun hh => all_mem hh.1.1.2 h⟩
  | fragment f =>
    simp only [Definition.vdefs, Definition.execParts] at h
    have h1 : SubL (variableDefinitionV w) (variableDefinitionsV f.variableDefinitions) :=
      SubL.group _ _ variableDefinitionV h .refl
    simp only [definitionV, wfDefinition, wfFragment, Bool.and_eq_true]
    unfold fragmentV
    exact ⟨((h1.left _).tail _ |>.tail _).node _, fun hh => all_mem hh.1.1.2 h⟩
  | _ => simp [Definition.vdefs, Definition.execParts] at h

theorem definition_sels (fl : Flags) (x : Definition) (w : Selection) (h : w ∈ x.sels) :
    Item.Sub (selectionV w) (definitionV x) ∧ (wfDefinition fl x = true → wfSelection w = true) := by
  unfold Definition.sels at h
  cases hp : x.execParts with
  | none => rw [hp] at h; cases h
  | some t =>
    obtain ⟨ss, vds, ds⟩ := t
    rw [hp] at h
    obtain ⟨⟨a1, a2⟩, _, _⟩ := definition_parts fl x ss vds ds hp
    obtain ⟨b1, b2⟩ := selectionSet_sels ss w h
    exact ⟨b1.trans a1, fun hh => b2 (a2 hh)⟩

theorem definition_ssets (fl : Flags) (x : Definition) (w : SelectionSet) (h : w ∈ x.ssets) :
    Item.Sub (selectionSetV w) (definitionV x) ∧ (wfDefinition fl x = true → wfSelectionSet w = true) := by
  unfold Definition.ssets at h
  cases hp : x.execParts with
  | none => rw [hp] at h; cases h
  | some t =>
    obtain ⟨ss, vds, ds⟩ := t
    rw [hp] at h
    obtain ⟨⟨a1, a2⟩, _, _⟩ := definition_parts fl x ss vds ds hp
    rcases List.mem_cons.1 h with rfl | h
    · exact ⟨a1, a2⟩
    · obtain ⟨s, hs, hw⟩ := mem_flatMap' h
      obtain ⟨b1, b2⟩ := definition_sels fl x s hs
      obtain ⟨c1, c2⟩ := selection_ownSet s w hw
      exact ⟨c1.trans b1, fun hh => c2 (b2 hh)⟩

/-- the directives of an executable definition, each with the `Const`-ness of its position -/
theorem definition_dirs (fl : Flags) (x : Definition) (w : Directive) (h : w ∈ x.dirs) :
    Item.Sub (directiveV w) (definitionV x) ∧ (wfDefinition fl x = true → ∃ c, wfDirective c w = true) := by
  unfold Definition.dirs at h
  cases hp : x.execParts with
  | none => rw [hp] at h; cases h
  | some t =>
    obtain ⟨ss, vds, ds⟩ := t
    rw [hp] at h
    obtain ⟨_, hd, hv⟩ := definition_parts fl x ss vds ds hp
    simp only [List.mem_append] at h
    rcases h with (h | h) | h
    · obtain ⟨a1, a2⟩ := hd w h
      exact ⟨a1, fun hh => ⟨false, a2 hh⟩⟩
    · obtain ⟨vd, hvd, hw⟩ := mem_flatMap' h
      obtain ⟨a1, a2⟩ := hv vd hvd w hw
      exact ⟨a1, fun hh => ⟨true, a2 hh⟩⟩
    · obtain ⟨s, hs, hw⟩ := mem_flatMap' h
      obtain ⟨b1, b2⟩ := definition_sels fl x s hs
      obtain ⟨c1, c2⟩ := selection_directives s w hw
      exact ⟨c1.trans b1, fun hh => ⟨false, c2 (b2 hh)⟩⟩

theorem definition_args (fl : Flags) (x : Definition) (w : Argument) (h : w ∈ x.args) :
    Item.Sub (argumentV w) (definitionV x) ∧ (wfDefinition fl x = true → ∃ c, wfArgument c w = true) := by
  unfold Definition.args at h
  rcases List.mem_append.1 h with h | h
  · obtain ⟨s, hs, hw⟩ := mem_flatMap' h
    obtain ⟨b1, b2⟩ := definition_sels fl x s hs
    obtain ⟨c1, c2⟩ := selection_arguments s w hw
    exact ⟨c1.trans b1, fun hh => ⟨false, c2 (b2 hh)⟩⟩
  · obtain ⟨d, hd, hw⟩ := mem_flatMap' h
    obtain ⟨b1, b2⟩ := definition_dirs fl x d hd
    refine ⟨(directive_arguments false d w hw).1.trans b1, fun hh => ?_⟩
    obtain ⟨c, hc⟩ := b2 hh
    exact ⟨c, (directive_arguments c d w hw).2 hc⟩

end PyGql.Spec

/-
  `Lay` for variable definitions, operations, fragments and executable documents.
-/
import PyGqlModel.Lemmas.PrintLaySel
namespace PyGql.PrintTokens
open PyGql PyGql.Ast PyGql.Parse PyGql.Spec PyGql.Print PyGql.PrintLex PyGql.PrintMatch PyGql.PrintString PyGql.Lex

def okVarDef (ind : Text) (d : VariableDefinition) : Prop :=
  Spec.Lexical.isName d.var.name.value = true ∧ lexOkType d.type = true ∧
  (match d.defaultValue with | some v => okValue ind v | none => True) ∧ okDirectives ind d.directives
def okVarDefs (ind : Text) : List VariableDefinition → Prop
  | [] => True
  | d :: ds => okVarDef ind d ∧ okVarDefs ind ds

theorem tailJoin_space1 (a : Text) : tailJoin [32] [a] = wrapS a := by simp [tailJoin, wrapS]

/-- the default-value part ` = v` -/
def defaultText (c : Cfg) (o : Option Value) : Text := wrap [32, 61, 32] (printOptValue c o)

theorem lay_defaultText (c : Cfg) (o : Option Value) (h : match o with | some v => okValue c.indent v | none => True) :
    Lay (defaultText c o) (Item.yieldAll (defaultV o)) ∧ DelimHead (defaultText c o) := by
  cases o with
  | none => exact ⟨by simpa [defaultText, printOptValue, wrap, defaultV, Item.yieldAll] using lay_nil,
      by simpa [defaultText, printOptValue, wrap] using delimHead_nil⟩
  | some v =>
    simp only at h
    have hne := printValue_ne_nil' c v h
    have hw : defaultText c (some v) = 32 :: 61 :: 32 :: printValue c v := by
      unfold defaultText wrap printOptValue
      cases hv : printValue c v with
      | nil => exact absurd hv hne
      | cons x y => simp [hv]
    rw [hw]
    exact ⟨by simpa [defaultV, Item.yieldAll, Item.yield] using lay_space_cons (lay_equals (lay_space_cons (lay_value c v h))),
      delimHead_cons (by decide)⟩

theorem printVariableDefinition_eq (c : Cfg) (d : VariableDefinition) :
    printVariableDefinition c d =
      (36 :: d.var.name.value ++ 58 :: 32 :: (printType d.type ++ defaultText c d.defaultValue)) ++
        wrapS (printDirectives c d.directives) := by
  unfold printVariableDefinition
  rw [join_cons_ne _ _ _ (by simp [printVariable]), tailJoin_space1]
  simp [printVariable, defaultText, List.append_assoc]

theorem lay_variableDefinition (c : Cfg) (d : VariableDefinition) (h : okVarDef c.indent d) :
    Lay (printVariableDefinition c d) (variableDefinitionV d).yield := by
  obtain ⟨hn, ht, hv, hd⟩ := h
  obtain ⟨ldef, ddef⟩ := lay_defaultText c d.defaultValue hv
  have ltail := lay_append ldef (lay_wrapS (lay_directives c d.directives hd)) (delimHead_wrapS _)
  have h1 := lay_dollar (lay_append (lay_name hn) (lay_colon (lay_space_cons
    (lay_append (lay_type d.type ht) ltail (delimHead_append ddef (delimHead_wrapS _))))) (delimHead_cons (by decide)))
  rw [printVariableDefinition_eq]
  simpa [variableDefinitionV, variableV, nameV, Item.yield, Item.yieldAll, yieldAll_append, List.append_assoc] using h1

theorem printVariableDefinition_ne (c : Cfg) (ds : List VariableDefinition) :
    ∀ x ∈ ds.map (printVariableDefinition c), x ≠ [] := by
  intro x hx
  simp only [List.mem_map] at hx
  obtain ⟨a, _, rfl⟩ := hx
  rw [printVariableDefinition_eq]; simp

theorem lay_variableDefinitionList (c : Cfg) : ∀ (ds : List VariableDefinition), okVarDefs c.indent ds →
    Lay (joinSep [44, 32] (ds.map (printVariableDefinition c))) (Item.yieldAll (ds.map variableDefinitionV))
  | [], _ => by simpa [joinSep, Item.yieldAll] using lay_nil
  | [d], h => by simpa [joinSep, Item.yieldAll] using lay_variableDefinition c d h.1
  | d :: d' :: ds, h => by
    have ih := lay_variableDefinitionList c (d' :: ds) h.2
    have h1 := lay_append (lay_variableDefinition c d h.1) (lay_comma_cons (lay_space_cons ih)) (delimHead_cons (by decide))
    simpa [joinSep, Item.yieldAll] using h1

theorem printVariableDefinitions_eq (c : Cfg) (d : VariableDefinition) (ds : List VariableDefinition) :
    printVariableDefinitions c (d :: ds) = 40 :: (joinSep [44, 32] ((d :: ds).map (printVariableDefinition c)) ++ [41]) := by
  have hj := join_eq_joinSep _ [44, 32] (printVariableDefinition_ne c (d :: ds))
  have hne := joinSep_ne_nil [44, 32] ((d :: ds).map (printVariableDefinition c)) (by simp) (printVariableDefinition_ne c (d :: ds))
  rw [printVariableDefinitions, hj]
  unfold wrap
  cases hh : joinSep [44, 32] ((d :: ds).map (printVariableDefinition c)) with
  | nil => exact absurd hh hne
  | cons x y => simp

theorem lay_variableDefinitions (c : Cfg) (ds : List VariableDefinition) (h : okVarDefs c.indent ds) :
    Lay (printVariableDefinitions c ds) (Item.yieldAll (variableDefinitionsV ds)) ∧
    DelimHead (printVariableDefinitions c ds) ∧ (printVariableDefinitions c ds = [] ↔ ds = []) := by
  cases ds with
  | nil =>
    have : printVariableDefinitions c [] = [] := by simp [printVariableDefinitions, join, joinSep, wrap]
    rw [this]
    exact ⟨by simpa [variableDefinitionsV, groupV, Item.yieldAll] using lay_nil, delimHead_nil, by simp⟩
  | cons d ds =>
    rw [printVariableDefinitions_eq]
    have h1 := lay_parenL (lay_append (lay_variableDefinitionList c (d :: ds) h) (lay_parenR lay_nil) (delimHead_cons (by decide)))
    exact ⟨by simpa [variableDefinitionsV, groupV, Item.yieldAll, yieldAll_append, Item.yield] using h1,
      delimHead_cons (by decide), by simp⟩

/-! ### operations -/

def okOperation (ind : Text) (d : OperationDefinition) : Prop :=
  (d.operation = K.query ∨ d.operation = K.mutation ∨ d.operation = K.subscription) ∧
  (match d.name with | some n => Spec.Lexical.isName n.value = true | none => True) ∧
  okVarDefs ind d.variableDefinitions ∧ okDirectives ind d.directives ∧ okSelectionSet ind d.selectionSet

theorem operation_isName {op : Text} (h : op = K.query ∨ op = K.mutation ∨ op = K.subscription) :
    Spec.Lexical.isName op = true := by
  rcases h with rfl | rfl | rfl <;> decide

theorem printSelectionSet_eq (c : Cfg) (ss : SelectionSet) (h : okSelectionSet c.indent ss) :
    ∃ body, printSelectionSet c ss = 123 :: 10 :: (body ++ [10, 125]) := by
  cases ss with
  | mk sels loc =>
    simp only [okSelectionSet] at h
    have hne : printSelections c sels ≠ [] := by
      cases sels with
      | nil => exact absurd rfl h.1
      | cons s ss => simp [printSelections]
    exact ⟨_, by simp only [printSelectionSet]; rw [block_eq _ _ hne (printSelections_ne c sels h.2)]⟩

/-- the name part of an operation -/
def opNameText (o : Option Name) : Text := match o with | some n => n.value | none => []

/-- the short-form test of the printer is the grammar's shorthand condition -/
theorem useShortForm_iff (c : Cfg) (d : OperationDefinition) (h : okOperation c.indent d) :
    ((opNameText d.name).isEmpty &&
      (printDirectives c d.directives).isEmpty && (printVariableDefinitions c d.variableDefinitions).isEmpty &&
      (d.operation == K.query || d.operation.isEmpty)) = isShorthand d := by
  obtain ⟨hop, hname, hv, _, _⟩ := h
  have hopne : d.operation.isEmpty = false := by rcases hop with e | e | e <;> rw [e] <;> decide
  have h1 : (opNameText d.name).isEmpty = d.name.isNone := by
    cases hn : d.name with
    | none => rfl
    | some n =>
      rw [hn] at hname
      have := isName_ne_nil hname
      cases hv : n.value with
      | nil => exact absurd hv this
      | cons _ _ => simp [opNameText, hv]
  have h2 : (printDirectives c d.directives).isEmpty = d.directives.isEmpty := by
    rw [Bool.eq_iff_iff]; simp [List.isEmpty_iff, printDirectives_nil_iff]
  have h3 : (printVariableDefinitions c d.variableDefinitions).isEmpty = d.variableDefinitions.isEmpty := by
    rw [Bool.eq_iff_iff]; simp [List.isEmpty_iff, (lay_variableDefinitions c _ hv).2.2]
  rw [h1, h2, h3, hopne]
  simp only [isShorthand, Bool.or_false, beq_iff_eq, Bool.decide_and, Bool.decide_eq_true]
  rw [Bool.eq_iff_iff]; simp only [Bool.and_eq_true, decide_eq_true_eq, beq_iff_eq]; grind


theorem join2_nil_sep (a b : Text) : join [a, b] = a ++ b := by
  cases a <;> cases b <;> simp [join, joinSep]

theorem lay_selectionSet_delim (c : Cfg) (hind : Blank c.indent) (ss : SelectionSet) (h : okSelectionSet c.indent ss) :
    Lay (printSelectionSet c ss) (selectionSetV ss).yield ∧ DelimHead (printSelectionSet c ss) ∧
    ∃ pre, printSelectionSet c ss = 123 :: (pre ++ [125]) := by
  obtain ⟨body, hb⟩ := printSelectionSet_eq c ss h
  refine ⟨lay_selectionSet c hind ss h, ?_, 10 :: (body ++ [10]), ?_⟩
  · rw [hb]; exact delimHead_cons (by decide)
  · rw [hb]; simp

theorem lay_opName (o : Option Name) (h : match o with | some n => Spec.Lexical.isName n.value = true | none => True) :
    Lay (opNameText o) (Item.yieldAll (optV nameV o)) := by
  cases o with
  | none => simpa [opNameText, optV, Item.yieldAll] using lay_nil
  | some n => simpa [opNameText, optV, nameV, Item.yieldAll, Item.yield] using lay_name h

theorem printOperationDefinition_eq (c : Cfg) (d : OperationDefinition) (h : okOperation c.indent d) :
    printOperationDefinition c d =
      if isShorthand d then printSelectionSet c d.selectionSet
      else d.operation ++ (wrapS (opNameText d.name ++ printVariableDefinitions c d.variableDefinitions) ++
        (wrapS (printDirectives c d.directives) ++ wrapS (printSelectionSet c d.selectionSet))) := by
  have hs := useShortForm_iff c d h
  have hopne : d.operation ≠ [] := isName_ne_nil (operation_isName h.1)
  have e : printOperationDefinition c d =
      if ((opNameText d.name).isEmpty && (printDirectives c d.directives).isEmpty &&
          (printVariableDefinitions c d.variableDefinitions).isEmpty && (d.operation == K.query || d.operation.isEmpty)) = true
      then printSelectionSet c d.selectionSet
      else join [d.operation, join [opNameText d.name, printVariableDefinitions c d.variableDefinitions],
        printDirectives c d.directives, printSelectionSet c d.selectionSet] [32] := rfl
  rw [e, hs, join_cons_ne _ _ _ hopne, tailJoin_space3, join2_nil_sep]

theorem lay_operation (c : Cfg) (hind : Blank c.indent) (d : OperationDefinition) (h : okOperation c.indent d) :
    Lay (printOperationDefinition c d) (operationV d).yield ∧ ∃ pre, printOperationDefinition c d = pre ++ [125] := by
  have heq := printOperationDefinition_eq c d h
  obtain ⟨hop, hname, hv, hd, hss⟩ := h
  obtain ⟨lss, dss, pre, hpre⟩ := lay_selectionSet_delim c hind d.selectionSet hss
  rw [heq]
  by_cases hsh : isShorthand d = true
  · simp only [hsh, ↓reduceIte]
    refine ⟨?_, 123 :: pre, by rw [hpre]; simp⟩
    simpa [operationV, hsh, Item.yield, Item.yieldAll] using lss
  · have hsh' : isShorthand d = false := by simpa using hsh
    simp only [hsh', Bool.false_eq_true, ↓reduceIte]
    obtain ⟨lv, dv, _⟩ := lay_variableDefinitions c d.variableDefinitions hv
    have lnv := lay_append (lay_opName d.name hname) lv dv
    have ltail := lay_append (lay_wrapS lnv)
      (lay_append (lay_wrapS (lay_directives c d.directives hd)) (lay_wrapS lss) (delimHead_wrapS _))
      (delimHead_append (delimHead_wrapS _) (delimHead_wrapS _))
    have h1 := lay_append (lay_name (operation_isName hop)) ltail
      (delimHead_append (delimHead_wrapS _) (delimHead_append (delimHead_wrapS _) (delimHead_wrapS _)))
    refine ⟨by simpa [operationV, hsh', kw, Item.yield, Item.yieldAll, yieldAll_append, List.append_assoc] using h1, ?_⟩
    refine ⟨d.operation ++ (wrapS (opNameText d.name ++ printVariableDefinitions c d.variableDefinitions) ++
      (wrapS (printDirectives c d.directives) ++ 32 :: 123 :: pre)), ?_⟩
    rw [hpre]; simp [wrapS]

/-! ### fragments -/

def okFragment (ind : Text) (d : FragmentDefinition) : Prop :=
  Spec.Lexical.isName d.name.value = true ∧ Spec.Lexical.isName d.typeCondition.name.value = true ∧
  okVarDefs ind d.variableDefinitions ∧ okDirectives ind d.directives ∧ okSelectionSet ind d.selectionSet

theorem lay_fragment (c : Cfg) (hind : Blank c.indent) (d : FragmentDefinition) (h : okFragment c.indent d) :
    Lay (printFragmentDefinition c d) (fragmentV d).yield ∧ ∃ pre, printFragmentDefinition c d = pre ++ [125] := by
  obtain ⟨hn, htc, hv, hd, hss⟩ := h
  obtain ⟨lss, dss, pre, hpre⟩ := lay_selectionSet_delim c hind d.selectionSet hss
  obtain ⟨lv, dv, _⟩ := lay_variableDefinitions c d.variableDefinitions hv
  have hfrag : Spec.Lexical.isName K.fragment = true := by decide
  have hon : Spec.Lexical.isName K.on = true := by decide
  have e1 : lit "fragment " = K.fragment ++ [32] := by decide
  have e2 : lit " on " = 32 :: (K.on ++ [32]) := by decide
  have ltail := lay_space_cons (lay_append (lay_directives c d.directives hd) lss dss)
  have l2 := lay_space_cons (lay_append (lay_name hon) (lay_space_cons (lay_append (lay_name htc) ltail
    (delimHead_cons (by decide)))) (delimHead_cons (by decide)))
  have l3 := lay_append lv l2 (delimHead_cons (by decide))
  have l4 := lay_append (lay_name hfrag) (lay_space_cons (lay_append (lay_name hn) l3
    (delimHead_append dv (delimHead_cons (by decide))))) (delimHead_cons (by decide))
  unfold printFragmentDefinition
  rw [e1, e2]
  refine ⟨by simpa [fragmentV, printNamedType, namedTypeV, nameV, kw, Item.yield, Item.yieldAll, yieldAll_append,
    List.append_assoc] using l4, ?_⟩
  rw [hpre]
  exact ⟨K.fragment ++ [32] ++ d.name.value ++ printVariableDefinitions c d.variableDefinitions ++ (32 :: (K.on ++ [32])) ++
    printNamedType d.typeCondition ++ [32] ++ printDirectives c d.directives ++ 123 :: pre, by simp⟩

/-! ### executable definitions and documents -/

def okExecDefinition (ind : Text) : Definition → Prop
  | .operation d => okOperation ind d
  | .fragment d => okFragment ind d
  | _ => False

theorem lay_execDefinition (c : Cfg) (hind : Blank c.indent) (d : Definition) (h : okExecDefinition c.indent d) :
    Lay (printDefinition c d) (definitionV d).yield ∧ ∃ pre, printDefinition c d = pre ++ [125] := by
  cases d with
  | operation d => simpa [printDefinition, definitionV] using lay_operation c hind d h
  | fragment d => simpa [printDefinition, definitionV] using lay_fragment c hind d h
  | _ => exact absurd h (by simp [okExecDefinition])

def okExecDefinitions (ind : Text) : List Definition → Prop
  | [] => True
  | d :: ds => okExecDefinition ind d ∧ okExecDefinitions ind ds

/-- the R6 guard of `print_document` never fires between executable definitions (each ends with `}`) -/
theorem documentEntries_exec (c : Cfg) (hind : Blank c.indent) : ∀ (ds : List Definition) (acc : List Text),
    okExecDefinitions c.indent ds → (∀ prev rest, acc = prev :: rest → prev.getLast? = some 125) →
    documentEntries c acc ds = acc.reverse ++ ds.map (printDefinition c)
  | [], acc, _, _ => by simp [documentEntries]
  | d :: ds, acc, h, hacc => by
    obtain ⟨_, pre, hpre⟩ := lay_execDefinition c hind d h.1
    have hlast : (printDefinition c d).getLast? = some 125 := by rw [hpre]; simp
    have hne : (printDefinition c d).isEmpty = false := by rw [hpre]; cases pre <;> rfl
    have ih := documentEntries_exec c hind ds (printDefinition c d :: acc) h.2 (by intro p r e; cases e; exact hlast)
    cases acc with
    | nil =>
      simp only [documentEntries, hne, Bool.false_eq_true, ↓reduceIte, ih]
      simp
    | cons prev rest =>
      have hp := hacc prev rest rfl
      simp only [documentEntries, hp, beq_self_eq_true, Bool.not_true, Bool.and_false, Bool.false_eq_true, ↓reduceIte,
        hne, ih]
      simp

theorem printDefinition_exec_ne (c : Cfg) (hind : Blank c.indent) : ∀ (ds : List Definition), okExecDefinitions c.indent ds →
    ∀ x ∈ ds.map (printDefinition c), x ≠ []
  | [], _, x, hx => by simp at hx
  | d :: ds, h, x, hx => by
    simp only [List.map_cons, List.mem_cons] at hx
    rcases hx with rfl | hx
    · obtain ⟨_, pre, hpre⟩ := lay_execDefinition c hind d h.1
      rw [hpre]; simp
    · exact printDefinition_exec_ne c hind ds h.2 x hx

theorem lay_execDefinitionList (c : Cfg) (hind : Blank c.indent) : ∀ (ds : List Definition), okExecDefinitions c.indent ds →
    Lay (joinSep [10, 10] (ds.map (printDefinition c))) (Item.yieldAll (ds.map definitionV))
  | [], _ => by simpa [joinSep, Item.yieldAll] using lay_nil
  | [d], h => by simpa [joinSep, Item.yieldAll] using (lay_execDefinition c hind d h.1).1
  | d :: d' :: ds, h => by
    have ih := lay_execDefinitionList c hind (d' :: ds) h.2
    have h1 := lay_append (lay_execDefinition c hind d h.1).1 (lay_lf_cons (lay_lf_cons ih)) (delimHead_cons (by decide))
    simpa [joinSep, Item.yieldAll] using h1

/-- the printed executable document lexes to the canonical yield of its definitions -/
theorem lexesTo_execDocument (c : Cfg) (hind : Blank c.indent) (d : Document) (h : okExecDefinitions c.indent d.definitions) :
    LexesTo (printDocument c d) (Item.yieldAll (d.definitions.map definitionV)) := by
  have he := documentEntries_exec c hind d.definitions [] h (by intro p r e; cases e)
  have hl := lay_append (lay_execDefinitionList c hind d.definitions h) (lay_lf_cons lay_nil) (delimHead_cons (by decide))
  have := lexesTo_of_lay hl [] [] safe_nil lexesTo_nil
  unfold printDocument
  rw [he, join_eq_joinSep _ _ (by simpa using printDefinition_exec_ne c hind d.definitions h)]
  simpa using this

end PyGql.PrintTokens

/-
  C14 — visibility: hidden type names leave the registry and never come back.
-/
import PyGqlModel.Lemmas.HeapCloneClosed

set_option linter.unusedSimpArgs false
set_option linter.unusedVariables false
set_option linter.unnecessarySimpa false

namespace PyGql.Heap.Own
open PyGql.Heap

theorem visitTypes_names_sub (v : Visitor) (reg : List (String × Addr)) : ∀ (l : List (String × Addr)) (h : Heap),
    ∀ x, x ∈ (visitTypes v reg h l).2 → x.1 ∈ regNames l := by
  intro l
  induction l with
  | nil => intro h x hx; simp [visitTypes] at hx
  | cons e rest ih =>
    intro h x hx
    obtain ⟨n, a⟩ := e
    simp only [visitTypes] at hx
    simp only [regNames, List.map_cons, List.mem_cons]
    split at hx
    · exact Or.inr (ih h x hx)
    · split at hx
      · simp only [List.mem_cons] at hx
        rcases hx with rfl | hx
        · exact Or.inl rfl
        · exact Or.inr (ih _ x hx)
      · exact Or.inr (ih _ x hx)

/-- `on_schema` of the visibility transform reports `None` for every registered type the predicate hides — and nothing else under that name -/
theorem visitTypes_vis_hidden (p : VisP) (reg : List (String × Addr)) : ∀ (l : List (String × Addr)) (h : Heap),
    (l.map (·.1)).Nodup → (∀ e, e ∈ l → nameOK h e = true) →
    ∀ e, e ∈ l → p.isTypeVisible e.1 = false →
      (e.1, none) ∈ (visitTypes (.vis p) reg h l).2 ∧ ∀ x, x ∈ (visitTypes (.vis p) reg h l).2 → x.1 = e.1 → x.2 = none := by
  intro l
  induction l with
  | nil => intro h _ _ e he; simp at he
  | cons e0 rest ih =>
    intro h hnd hname e he hid
    obtain ⟨n, a⟩ := e0
    simp only [List.map_cons, List.nodup_cons] at hnd
    have hnp : ∀ x : String × Addr, p.isTypeVisible x.1 = false → isProtected x.1 = false := by
      intro x hx
      simp only [VisP.isTypeVisible, Bool.or_eq_false_iff] at hx
      exact hx.1
    simp only [List.mem_cons] at he
    have hstep := onType_step (.vis p) reg h a (fun _ => true) (by simp [Compat])
    have hname' : ∀ e, e ∈ rest → nameOK (onType (.vis p) reg h a).1 e = true :=
      fun e he => nameOK_keep hstep e (hname e (by simp [he]))
    by_cases hp : isProtected n = true
    · simp only [visitTypes, hp, if_true]
      rcases he with rfl | he
      · have := hnp (n, a) hid; simp [hp] at this
      · exact ih h hnd.2 (fun e he => hname e (by simp [he])) e he hid
    · have hp' : isProtected n = false := by simpa using hp
      simp only [visitTypes, hp', Bool.false_eq_true, if_false]
      rcases he with rfl | he
      · -- the head is the hidden type
        have hn := hname (n, a) (by simp)
        simp only [nameOK] at hn
        split at hn
        · rename_i t ht
          simp only [beq_iff_eq] at hn
          have hnone : (onType (.vis p) reg h a).2 = none := by
            have hin : ∀ h' t', (inputRest (.vis p) reg a n h' t').2 = none := by
              intro h' t'; simp [inputRest, rebuiltOrSame, hid]
            simp only [onType, ht]
            cases hk : t.kind <;> simp [onComposite, onInputObject, onUnion, onLeaf, hn, hid]
            split <;> exact hin _ _
          simp only [hnone]
          refine ⟨by simp, ?_⟩
          intro x hx hxn
          simp only [bne_iff_ne, ne_eq, reduceCtorEq, not_false_eq_true, if_true, List.mem_cons] at hx
          rcases hx with rfl | hx
          · rfl
          · exfalso
            exact hnd.1 (hxn ▸ visitTypes_names_sub (.vis p) reg rest _ x hx)
        · cases hn
      · obtain ⟨h1, h2⟩ := ih _ hnd.2 hname' e he hid
        have hne : n ≠ e.1 := fun heq => hnd.1 (heq ▸ List.mem_map.mpr ⟨e, he, rfl⟩)
        split
        · refine ⟨by simp [h1], ?_⟩
          intro x hx hxn
          simp only [List.mem_cons] at hx
          rcases hx with rfl | hx
          · exact absurd hxn hne
          · exact h2 x hx hxn
        · exact ⟨h1, h2⟩

/-! ### `_replace_types_and_directives` never registers a new name; `None` entries unregister -/

theorem regNames_regErase (reg : List (String × Addr)) (nm : String) : nm ∉ regNames (regErase reg nm) := by
  intro hn
  simp only [regNames, regErase, List.mem_map, List.mem_filter] at hn
  obtain ⟨e, ⟨_, hne⟩, rfl⟩ := hn
  simp at hne

theorem regNames_regErase_sub (reg : List (String × Addr)) (nm x : String) (hx : x ∈ regNames (regErase reg nm)) : x ∈ regNames reg := by
  simp only [regNames, regErase, List.mem_map, List.mem_filter] at hx ⊢
  obtain ⟨e, ⟨he, _⟩, rfl⟩ := hx
  exact ⟨e, he, rfl⟩

theorem lookup_isSome_name {reg : List (String × Addr)} {n : String} {a : Addr} (hl : lookup reg n = some a) : n ∈ regNames reg :=
  name_of_lookup hl

theorem replaceTypes_names_sub (cfg : Cfg) : ∀ (ut : List (String × Option Addr)) (reg : List (String × Addr)) (b : Bool),
    ∀ x, x ∈ regNames (replaceTypes cfg reg b ut).1 → x ∈ regNames reg := by
  intro ut
  induction ut with
  | nil => intro reg b x hx; simpa [replaceTypes] using hx
  | cons e rest ih =>
    intro reg b x hx
    obtain ⟨nm, new⟩ := e
    simp only [replaceTypes] at hx
    split at hx
    · exact ih reg b x hx
    · rename_i orig hl
      cases new with
      | none => exact regNames_regErase_sub reg nm x (ih _ _ x hx)
      | some a' =>
        have := ih _ _ x hx
        simp only [regNames] at this ⊢
        rw [regSet_names_eq reg nm a' (by simp [hl])] at this
        exact this

/-- a name that is not registered stays unregistered when all its entries are `None` -/
theorem replaceTypes_notin (cfg : Cfg) (n : String) : ∀ (ut : List (String × Option Addr)) (reg : List (String × Addr)) (b : Bool),
    n ∉ regNames reg → n ∉ regNames (replaceTypes cfg reg b ut).1 :=
  fun ut reg b hn hx => hn (replaceTypes_names_sub cfg ut reg b n hx)

theorem replaceTypes_erases (cfg : Cfg) (n : String) : ∀ (ut : List (String × Option Addr)) (reg : List (String × Addr)) (b : Bool),
    (∀ x, x ∈ ut → x.1 = n → x.2 = none) → (n, none) ∈ ut → n ∉ regNames (replaceTypes cfg reg b ut).1 := by
  intro ut
  induction ut with
  | nil => intro reg b _ hm; simp at hm
  | cons e rest ih =>
    intro reg b hall hm
    obtain ⟨nm, new⟩ := e
    have hallr : ∀ x, x ∈ rest → x.1 = n → x.2 = none := fun x hx => hall x (by simp [hx])
    by_cases hnm : nm = n
    · subst hnm
      have hnew : new = none := hall (nm, new) (by simp) rfl
      subst hnew
      simp only [replaceTypes]
      split
      · rename_i hl
        apply replaceTypes_notin
        intro hn
        have := lookup_isSome_of_name hn
        simp [hl] at this
      · exact replaceTypes_notin cfg nm rest _ _ (regNames_regErase reg nm)
    · simp only [List.mem_cons, Prod.mk.injEq] at hm
      rcases hm with ⟨h1, _⟩ | hm
      · exact absurd h1.symm hnm
      · simp only [replaceTypes]
        split
        · exact ih reg b hallr hm
        · cases new with
          | none => exact ih _ _ hallr hm
          | some a' => exact ih _ _ hallr hm

theorem healLoop_names_sub (cfg : Cfg) : ∀ (fuel : Nat) (s : Schema) (h h' : Heap) (s' : Schema),
    healLoop cfg fuel s h = some (h', s') → ∀ n, n ∈ regNames s'.types → n ∈ regNames s.types := by
  intro fuel
  induction fuel with
  | zero => intro s h h' s' e; simp [healLoop] at e
  | succ fuel ih =>
    intro s h h' s' e n hn
    rw [healLoop] at e
    have hsub : ∀ n, n ∈ regNames (replaceCore cfg s (visitAll .heal s h).2.1 (visitAll .heal s h).2.2).1.types → n ∈ regNames s.types := by
      intro n hn
      simp only [replaceCore] at hn
      exact replaceTypes_names_sub cfg _ _ _ n hn
    split at e
    · exact hsub n (ih _ _ _ _ e n hn)
    · cases e; exact hsub n hn

/-- FULL `visibility_hides_type`: after `VisibilitySchemaTransform.on_schema` every registered name is visible -/
theorem onSchema_vis_names (cfg : Cfg) (fuel : Nat) (p : VisP) (s : Schema) (h h' : Heap) (s' : Schema) (hnd : (s.types.map (·.1)).Nodup)
    (hname : ∀ e, e ∈ s.types → nameOK h e = true) (e : onSchema cfg fuel (.vis p) s h = some (h', s')) :
    ∀ n, n ∈ regNames s'.types → p.isTypeVisible n = true ∧ n ∈ regNames s.types := by
  intro n hn
  simp only [onSchema, replaceTD] at e
  have hcore : n ∈ regNames (replaceCore cfg s (visitAll (.vis p) s h).2.1 (visitAll (.vis p) s h).2.2).1.types := by
    split at e
    · exact healLoop_names_sub cfg fuel _ _ _ _ e n hn
    · cases e; exact hn
  simp only [replaceCore, visitAll] at hcore
  have hsrc := replaceTypes_names_sub cfg _ _ _ n hcore
  refine ⟨?_, hsrc⟩
  cases hv : p.isTypeVisible n with
  | true => rfl
  | false =>
    exfalso
    simp only [regNames, List.mem_map] at hsrc
    obtain ⟨e0, he0, rfl⟩ := hsrc
    obtain ⟨h1, h2⟩ := visitTypes_vis_hidden p s.types s.types h hnd hname e0 he0 hv
    exact replaceTypes_erases cfg e0.1 _ _ _ h2 h1 hcore

end PyGql.Heap.Own

/-
  `ValuesOfCorrectTypeChecker`, part 3: "the node is fine in the context of the stacks" is the declarative
  `Spec.valueNodeOk` in the static input context.
-/
import PyGqlModel.Lemmas.ValidateValues2
namespace PyGql.Validate
open PyGql PyGql.Validate.Spec

theorem parseLiteralFails_eq (sc : String) (v : Value) : parseLiteralFails sc v = some (!scalarAccepts sc v) := by
  unfold parseLiteralFails scalarAccepts
  by_cases hsp : specifiedScalars.contains sc = true
  · simp only [hsp, ↓reduceIte, Option.some.injEq]
    split <;> simp_all
  · simp only [hsp, Bool.false_eq_true, ↓reduceIte]
    cases v <;> rfl

theorem scalarErrs_zero_iff (s : SchemaD) (t : TI) (v : Value) :
    scalarErrs s t v = 0 ↔ ∀ it, t.inputType = some it → isScalar s it.base = true ∧ scalarAccepts it.base v = true := by
  unfold scalarErrs checkScalar
  cases hit : t.inputType with
  | none => simp
  | some it =>
    simp only [Option.some.injEq, forall_eq', parseLiteralFails_eq]
    cases isScalar s it.base <;> cases scalarAccepts it.base v <;> simp

theorem outerObject_iview (s : SchemaD) (fx : Fixes) (t : TI) : t.iview.outerObject s fx = t.parentInputType s fx := by
  unfold IView.outerObject TI.parentInputType TI.iview
  cases TI.peek t.inputStack 2 with
  | none => rfl
  | some ty => cases ty <;> rfl

theorem okT_iff (s : SchemaD) (fx : Fixes) (n : Node) (t : TI) : okT s fx (n, t) ↔ valueNodeOk s fx n t.iview := by
  cases n with
  | value v =>
    cases v with
    | int x => simp [okT, vocBad, vocF, valueNodeOk, scalarLiteralOk, scalarErrs_zero_iff, TI.iview]
    | float x => simp [okT, vocBad, vocF, valueNodeOk, scalarLiteralOk, scalarErrs_zero_iff, TI.iview]
    | str x => simp [okT, vocBad, vocF, valueNodeOk, scalarLiteralOk, scalarErrs_zero_iff, TI.iview]
    | bool x => simp [okT, vocBad, vocF, valueNodeOk, scalarLiteralOk, scalarErrs_zero_iff, TI.iview]
    | var x => simp [okT, vocBad, vocF, valueNodeOk]
    | list vs => simp [okT, vocBad, vocF, valueNodeOk]
    | null =>
      simp only [okT, vocBad, vocF, valueNodeOk, TI.iview, Bool.false_eq_true, false_implies, true_and, forall_const]
      cases t.inputType with
      | none => simp
      | some it => cases it <;> simp
    | enum x =>
      simp only [okT, vocBad, vocF, valueNodeOk, TI.iview, Bool.false_eq_true, false_implies, true_and, forall_const]
      have hopt : t.inputType = none ∨ ∃ it, t.inputType = some it := by cases t.inputType <;> simp
      rcases hopt with hit | ⟨it, hit⟩
      · simp [hit]
      · simp only [hit, Option.map_some, Option.some.injEq, forall_eq']
        by_cases he : isEnum s it.base = true
        · by_cases hh : enumHas s it.base x = true <;> simp [he, hh]
        · have := scalarErrs_zero_iff s t (.enum x)
          simp only [hit, Option.some.injEq, forall_eq'] at this
          simp [he, this]
    | obj fs =>
      have hopt : t.inputType = none ∨ ∃ it, t.inputType = some it := by cases t.inputType <;> simp
      rcases hopt with hit | ⟨it, hit⟩
      · simp [okT, vocBad, vocF, vocS, valueNodeOk, TI.iview, hit, scalarErrs_dead]
      · by_cases hi : isInputObject s it.base = true
        · have hb : vocBad s (.value (.obj fs)) t = false := by simp [vocBad, hit, hi]
          simp only [okT, hb, Bool.false_eq_true, false_implies, true_and, forall_const, vocF, valueNodeOk, TI.iview, hit,
            Option.map_some, hi, ↓reduceIte, Option.some.injEq, forall_eq', List.length_eq_zero_iff,
            List.filter_eq_nil_iff, false_and, or_false]
          constructor
          · intro h
            refine Or.inl fun fd hfd hreq => ?_
            have := h fd hfd
            simpa [hreq] using this
          · intro h fd hfd
            rcases h with h | h
            · by_cases hreq : ArgD.required fd = true
              · simp [hreq, h fd hfd hreq]
              · simp [hreq]
            · exact absurd h.1 (by simp)
        · have hz := scalarErrs_zero_iff s t (.obj fs)
          simp only [hit, Option.some.injEq, forall_eq'] at hz
          by_cases h0 : scalarErrs s t (.obj fs) = 0
          · have hb : vocBad s (.value (.obj fs)) t = false := by simp [vocBad, hit, hi, h0]
            simp only [okT, hb, Bool.false_eq_true, false_implies, true_and, forall_const, vocF, valueNodeOk, TI.iview,
              hit, Option.map_some, hi, ↓reduceIte, Option.some.injEq, forall_eq', false_and, false_or]
            exact ⟨fun _ => hz.mp h0, fun _ => trivial⟩
          · have hb : vocBad s (.value (.obj fs)) t = true := by simp [vocBad, hit, hi, h0]
            simp only [okT, hb, forall_const, Bool.true_eq_false, false_implies, and_true, valueNodeOk, TI.iview, hit,
              Option.some.injEq, forall_eq', hi, Bool.false_eq_true, false_and, false_or, true_and, vocS]
            exact hz
  | objField name =>
    simp only [okT, vocBad, vocF, valueNodeOk, outerObject_iview, Bool.false_eq_true, false_implies, true_and,
      forall_const]
    show _ ↔ (t.inputType = none → _)
    cases t.inputType <;> cases t.parentInputType s fx <;> simp
  | _ => simp [okT, vocBad, vocF, valueNodeOk]

end PyGql.Validate

/-
  Layer 4 (completeness): the two dispatchers and `TSComplete`.
-/
import PyGqlModel.Lemmas.ParseTSC5
namespace PyGql.Parse
open PyGql PyGql.Ast PyGql.Spec

theorem dispatch_def (fl : Flags) (fuel : Nat) (desc : Option StringValue) (kw : Text) (ts : List Tok) (l : Tok)
    (sh : HeadShape desc kw ts) (hkw : kw ∈ Generated.ParserTables.schemaDefinitionsKeywords) :
    parseTypeSystemDefinition fl fuel ⟨ts, l⟩ =
      (if kw = K.schema then parseSchemaDefinition fl fuel
       else if kw = K.scalar then parseScalarTypeDefinition fl fuel
       else if kw = K.type_ then parseObjectTypeDefinition fl fuel
       else if kw = K.interface_ then parseInterfaceTypeDefinition fl fuel
       else if kw = K.union then parseUnionTypeDefinition fl fuel
       else if kw = K.enum_ then parseEnumTypeDefinition fl fuel
       else if kw = K.input then parseInputObjectTypeDefinition fl fuel
       else parseDirectiveDefinition fl fuel) ⟨ts, l⟩ := by
  simp only [Generated.ParserTables.schemaDefinitionsKeywords, List.mem_cons, List.mem_nil_iff, or_false] at hkw
  cases desc with
  | none =>
    obtain ⟨k, tl, rfl, hk, hv⟩ := sh
    rcases hkw with rfl | rfl | rfl | rfl | rfl | rfl | rfl | rfl <;>
      simp [parseTypeSystemDefinition, bind_eq, peek_cons, pure_eq, hk, hv, ite_app, K.schema, K.scalar, K.type_,
        K.interface_, K.union, K.enum_, K.input, K.directive]
  | some sv =>
    obtain ⟨s, k, tl, rfl, hs, hk, hv⟩ := sh
    rcases hkw with rfl | rfl | rfl | rfl | rfl | rfl | rfl | rfl <;>
      simp [parseTypeSystemDefinition, bind_eq, peek_cons, peek2_cons, hs, hk, hv, ite_app, K.schema, K.scalar, K.type_,
        K.interface_, K.union, K.enum_, K.input, K.directive]

/-- the keywords after `extend` -/
def extKeywords : List Text := [K.schema, K.scalar, K.type_, K.interface_, K.union, K.enum_, K.input]

theorem dispatch_ext (fl : Flags) (fuel : Nat) (kw : Text) (ts : List Tok) (l : Tok) (sh : ExtShape kw ts)
    (hkw : kw ∈ extKeywords) :
    parseTypeSystemExtension fl fuel ⟨ts, l⟩ =
      (if kw = K.schema then parseSchemaExtension fl fuel
       else if kw = K.scalar then parseScalarTypeExtension fl fuel
       else if kw = K.type_ then parseObjectTypeExtension fl fuel
       else if kw = K.interface_ then parseInterfaceTypeExtension fl fuel
       else if kw = K.union then parseUnionTypeExtension fl fuel
       else if kw = K.enum_ then parseEnumTypeExtension fl fuel
       else parseInputObjectTypeExtension fl fuel) ⟨ts, l⟩ := by
  simp only [extKeywords, List.mem_cons, List.mem_nil_iff, or_false] at hkw
  obtain ⟨e, k, tl, rfl, _, _, hk, hv⟩ := sh
  rcases hkw with rfl | rfl | rfl | rfl | rfl | rfl | rfl <;>
    simp [parseTypeSystemExtension, bind_eq, peek2_cons, hk, hv, ite_app, K.schema, K.scalar, K.type_,
      K.interface_, K.union, K.enum_, K.input]

/-- the keyword of a type-system definition / extension -/
def defKeyword : Definition → Text
  | .schemaDefinition .. | .schemaExtension .. => K.schema
  | .scalarTypeDefinition .. | .scalarTypeExtension .. => K.scalar
  | .objectTypeDefinition .. | .objectTypeExtension .. => K.type_
  | .interfaceTypeDefinition .. | .interfaceTypeExtension .. => K.interface_
  | .unionTypeDefinition .. | .unionTypeExtension .. => K.union
  | .enumTypeDefinition .. | .enumTypeExtension .. => K.enum_
  | .inputObjectTypeDefinition .. | .inputObjectTypeExtension .. => K.input
  | .directiveDefinition .. => K.directive
  | _ => []

/-- the shape of the first tokens of a type-system definition (keyword after an optional description) -/
theorem defShape (fl : Flags) (d : Definition) (l : Tok) (ts : List Tok) (r : Tok × List Tok)
    (hx : isTypeSystem d = true) (he : isExtension d = false) (h : (definitionV d).check fl l ts = some r) :
    ∃ desc, HeadShape desc (defKeyword d) ts := by
  rcases r with ⟨l', rest⟩
  cases d with
  | schemaDefinition ds ops loc =>
    simp only [definitionV, check_node] at h
    obtain ⟨f, tl, rfl, hall, _⟩ := h
    exact ⟨none, (descKw_shape fl K.schema none _ l l' _ rest (by simpa [descV, optV] using hall)).1⟩
  | scalarTypeDefinition desc nm ds loc =>
    simp only [definitionV, check_node] at h
    obtain ⟨f, tl, rfl, hall, _⟩ := h
    exact ⟨desc, (descKw_shape fl _ desc _ l l' _ rest hall).1⟩
  | objectTypeDefinition desc nm ifs ds fs loc =>
    simp only [definitionV, check_node] at h
    obtain ⟨f, tl, rfl, hall, _⟩ := h
    exact ⟨desc, (descKw_shape fl _ desc _ l l' _ rest hall).1⟩
  | interfaceTypeDefinition desc nm ds fs loc =>
    simp only [definitionV, check_node] at h
    obtain ⟨f, tl, rfl, hall, _⟩ := h
    exact ⟨desc, (descKw_shape fl _ desc _ l l' _ rest hall).1⟩
  | unionTypeDefinition desc nm ds us loc =>
    simp only [definitionV, check_node] at h
    obtain ⟨f, tl, rfl, hall, _⟩ := h
    exact ⟨desc, (descKw_shape fl _ desc _ l l' _ rest hall).1⟩
  | enumTypeDefinition desc nm ds vs loc =>
    simp only [definitionV, check_node] at h
    obtain ⟨f, tl, rfl, hall, _⟩ := h
    exact ⟨desc, (descKw_shape fl _ desc _ l l' _ rest hall).1⟩
  | inputObjectTypeDefinition desc nm ds fs loc =>
    simp only [definitionV, check_node] at h
    obtain ⟨f, tl, rfl, hall, _⟩ := h
    exact ⟨desc, (descKw_shape fl _ desc _ l l' _ rest hall).1⟩
  | directiveDefinition desc nm args locs loc =>
    simp only [definitionV, check_node] at h
    obtain ⟨f, tl, rfl, hall, _⟩ := h
    exact ⟨desc, (descKw_shape fl _ desc _ l l' _ rest hall).1⟩
  | _ => simp [isTypeSystem, isExtension] at hx he

theorem extShape (fl : Flags) (d : Definition) (l : Tok) (ts : List Tok) (r : Tok × List Tok)
    (he : isExtension d = true) (h : (definitionV d).check fl l ts = some r) : ExtShape (defKeyword d) ts := by
  rcases r with ⟨l', rest⟩
  have key : ∀ kw tail, Item.checkAll fl (Spec.kw K.extend :: Spec.kw kw :: tail) l ts = some (l', rest) →
      ExtShape kw ts := by
    intro kw tail h
    simp only [checkAll_cons, check_tok] at h
    obtain ⟨l1, ts1, ⟨e, rfl, hce, rfl⟩, l2, ts2, ⟨k, rfl, hck, rfl⟩, _⟩ := h
    obtain ⟨hke, hve⟩ := cls_kw_inv hce
    obtain ⟨hkk, hvk⟩ := cls_kw_inv hck
    exact ⟨_, _, _, rfl, hke, hve, hkk, hvk⟩
  cases d with
  | schemaExtension ds ops loc =>
    simp only [definitionV, check_node] at h
    obtain ⟨f, tl, rfl, hall, _⟩ := h
    exact key _ _ hall
  | scalarTypeExtension nm ds loc =>
    simp only [definitionV, check_node] at h
    obtain ⟨f, tl, rfl, hall, _⟩ := h
    exact key _ _ hall
  | objectTypeExtension nm ifs ds fs loc =>
    simp only [definitionV, check_node] at h
    obtain ⟨f, tl, rfl, hall, _⟩ := h
    exact key _ _ hall
  | interfaceTypeExtension nm ds fs loc =>
    simp only [definitionV, check_node] at h
    obtain ⟨f, tl, rfl, hall, _⟩ := h
    exact key _ _ hall
  | unionTypeExtension nm ds us loc =>
    simp only [definitionV, check_node] at h
    obtain ⟨f, tl, rfl, hall, _⟩ := h
    exact key _ _ hall
  | enumTypeExtension nm ds vs loc =>
    simp only [definitionV, check_node] at h
    obtain ⟨f, tl, rfl, hall, _⟩ := h
    exact key _ _ hall
  | inputObjectTypeExtension nm ds fs loc =>
    simp only [definitionV, check_node] at h
    obtain ⟨f, tl, rfl, hall, _⟩ := h
    exact key _ _ hall
  | _ => simp [isExtension] at he

theorem defKeyword_schema (d : Definition) (hx : isTypeSystem d = true) (he : isExtension d = false) :
    defKeyword d ∈ Generated.ParserTables.schemaDefinitionsKeywords := by
  cases d <;> first | (simp only [defKeyword]; decide) | (simp [isTypeSystem, isExtension] at hx he)

theorem defKeyword_ext (d : Definition) (he : isExtension d = true) : defKeyword d ∈ extKeywords := by
  cases d <;> first | (simp only [defKeyword]; decide) | (simp [isExtension] at he)

/-- layer 4, completeness: both type-system dispatchers -/
theorem tsComplete (fl : Flags) (fuel : Nat) : TSComplete fl fuel := by
  refine ⟨?_, ?_, ?_⟩
  · intro d l ts r hx w h
    cases he : isExtension d with
    | true =>
      obtain ⟨e, k, tl, rfl, hke, hve, _⟩ := extShape fl d l ts r he h
      exact ⟨e, _, rfl, by simp [hke, hve]⟩
    | false =>
      obtain ⟨desc, sh⟩ := defShape fl d l ts r hx he h
      have hm := defKeyword_schema d hx he
      cases desc with
      | none =>
        obtain ⟨k, tl, rfl, hk, hv⟩ := sh
        exact ⟨k, tl, rfl, by simp [hk, hv, hm]⟩
      | some sv =>
        obtain ⟨s, k, tl, rfl, hs, _⟩ := sh
        refine ⟨s, _, rfl, ?_⟩
        rcases hs with hs | hs <;> simp [hs]
  · intro d l l' ts rest hx he w hf h hfol
    obtain ⟨desc, sh⟩ := defShape fl d l ts _ hx he h
    rw [dispatch_def fl fuel desc _ ts l sh (defKeyword_schema d hx he)]
    cases d with
    | schemaDefinition ds ops loc =>
      simpa [defKeyword] using parseSchemaDefinition_complete fl fuel ds ops loc l l' ts rest w hf h hfol
    | scalarTypeDefinition desc nm ds loc =>
      simpa [defKeyword, K.scalar, K.schema] using
        parseScalarTypeDefinition_complete fl fuel desc nm ds loc l l' ts rest w hf h hfol
    | objectTypeDefinition desc nm ifs ds fs loc =>
      simpa [defKeyword, K.scalar, K.schema, K.type_] using
        parseObjectTypeDefinition_complete fl fuel desc nm ifs ds fs loc l l' ts rest w hf h hfol
    | interfaceTypeDefinition desc nm ds fs loc =>
      simpa [defKeyword, K.scalar, K.schema, K.type_, K.interface_] using
        parseInterfaceTypeDefinition_complete fl fuel desc nm ds fs loc l l' ts rest w hf h hfol
    | unionTypeDefinition desc nm ds us loc =>
      simpa [defKeyword, K.scalar, K.schema, K.type_, K.interface_, K.union] using
        parseUnionTypeDefinition_complete fl fuel desc nm ds us loc l l' ts rest w hf h hfol
    | enumTypeDefinition desc nm ds vs loc =>
      simpa [defKeyword, K.scalar, K.schema, K.type_, K.interface_, K.union, K.enum_] using
        parseEnumTypeDefinition_complete fl fuel desc nm ds vs loc l l' ts rest w hf h hfol
    | inputObjectTypeDefinition desc nm ds fs loc =>
      simpa [defKeyword, K.scalar, K.schema, K.type_, K.interface_, K.union, K.enum_, K.input] using
        parseInputObjectTypeDefinition_complete fl fuel desc nm ds fs loc l l' ts rest w hf h hfol
    | directiveDefinition desc nm args locs loc =>
      simpa [defKeyword, K.scalar, K.schema, K.type_, K.interface_, K.union, K.enum_, K.input, K.directive] using
        parseDirectiveDefinition_complete fl fuel desc nm args locs loc l l' ts rest w hf h hfol
    | _ => simp [isTypeSystem, isExtension] at hx he
  · intro d l l' ts rest hx he w hf h hfol
    have sh := extShape fl d l ts _ he h
    rw [dispatch_ext fl fuel _ ts l sh (defKeyword_ext d he)]
    cases d with
    | schemaExtension ds ops loc =>
      simpa [defKeyword] using parseSchemaExtension_complete fl fuel ds ops loc l l' ts rest w hf h hfol
    | scalarTypeExtension nm ds loc =>
      simpa [defKeyword, K.scalar, K.schema] using
        parseScalarTypeExtension_complete fl fuel nm ds loc l l' ts rest w hf h hfol
    | objectTypeExtension nm ifs ds fs loc =>
      simpa [defKeyword, K.scalar, K.schema, K.type_] using
        parseObjectTypeExtension_complete fl fuel nm ifs ds fs loc l l' ts rest w hf h hfol
    | interfaceTypeExtension nm ds fs loc =>
      simpa [defKeyword, K.scalar, K.schema, K.type_, K.interface_] using
        parseInterfaceTypeExtension_complete fl fuel nm ds fs loc l l' ts rest w hf h hfol
    | unionTypeExtension nm ds us loc =>
      simpa [defKeyword, K.scalar, K.schema, K.type_, K.interface_, K.union] using
        parseUnionTypeExtension_complete fl fuel nm ds us loc l l' ts rest w hf h hfol
    | enumTypeExtension nm ds vs loc =>
      simpa [defKeyword, K.scalar, K.schema, K.type_, K.interface_, K.union, K.enum_] using
        parseEnumTypeExtension_complete fl fuel nm ds vs loc l l' ts rest w hf h hfol
    | inputObjectTypeExtension nm ds fs loc =>
      simpa [defKeyword, K.scalar, K.schema, K.type_, K.interface_, K.union, K.enum_, K.input] using
        parseInputObjectTypeExtension_complete fl fuel nm ds fs loc l l' ts rest w hf h hfol
    | _ => simp [isExtension] at he

end PyGql.Parse

/-
  The number look-ahead restriction of `_read_number` ("Explicit lookahead restrictions", pinned by
  tests/test_lang/test_lexer.py::test_useful_number_errors): EVERY IntValue / FloatValue lexeme directly followed by a
  NameStart character (other than an exponent indicator) is rejected with `UnexpectedCharacter` at that character.
-/
import PyGqlModel.Lemmas.LexCompleteNum

namespace PyGql.Lex
open PyGql.Spec.Lexical
open PyGql.PrintLex (NoDigitHead readOverInteger_ip readFraction_frac floatShape_of_isFloatValue next_number FloatShape)

/-- IntegerPart FractionalPart? ExponentPart? (IntValue or FloatValue) -/
def NumShape (w : Text) : Prop :=
  ∃ ip frac exp, w = ip ++ (frac ++ exp) ∧ Spec.Lexical.isIntegerPart ip = true ∧
    (frac = [] ∨ Spec.Lexical.isFractionalPart frac = true) ∧ (exp = [] ∨ Spec.Lexical.isExponentPart exp = true)

theorem numShape_of_number (w : Text) (h : isIntValue w = true ∨ isFloatValue w = true) : NumShape w := by
  rcases h with h | h
  · exact ⟨w, [], [], by simp, h, Or.inl rfl, Or.inl rfl⟩
  · obtain ⟨ip, frac, exp, e, a, b, c, _⟩ := floatShape_of_isFloatValue w h
    exact ⟨ip, frac, exp, e, a, b, c⟩

theorem next_number_glued (n : Nat) (w : Text) (c : Nat) (t : Text) (hw : NumShape w)
    (hc : Spec.Lexical.isNameStart c = true) (he : c ≠ 101 ∧ c ≠ 69) :
    next n (w ++ c :: t) = .error ⟨.unexpectedCharacter, posAt n (c :: t)⟩ := by
  obtain ⟨ip, frac, exp, rfl, hip, hf, hex⟩ := hw
  have hcns : Lex.isNameStart c = true := by rw [isNameStart_spec]; exact hc
  have hcd : Lex.isDigit c = false := by
    rw [isDigit_spec]
    cases hd : Spec.Lexical.isDigit c with
    | false => rfl
    | true =>
      simp [Spec.Lexical.isDigit] at hd
      simp [Spec.Lexical.isNameStart, Spec.Lexical.isLetter] at hc
      omega
  have hc46 : c ≠ 46 := by
    intro e; subst e; simp [Spec.Lexical.isNameStart, Spec.Lexical.isLetter] at hc
  have hnd : NoDigitHead (c :: t) := by
    intro x u e; simp only [List.cons.injEq] at e; rw [← e.1]; exact hcd
  have hee : ∀ x u, c :: t = x :: u → ¬ (x = 101 ∨ x = 69) := by
    intro x u e; simp only [List.cons.injEq] at e; rw [← e.1]; intro h; rcases h with h | h
    · exact he.1 h
    · exact he.2 h
  -- heads of the tails
  have hheads : NoDigitHead (frac ++ (exp ++ c :: t)) ∧ NoDigitHead (exp ++ c :: t) ∧
      (frac = [] → ∀ x u, exp ++ c :: t = x :: u → x ≠ 46) := by
    by_cases hne : frac = [] ∧ exp = []
    · obtain ⟨rfl, rfl⟩ := hne
      refine ⟨by simpa using hnd, by simpa using hnd, ?_⟩
      intro _ x u e; simp only [List.nil_append, List.cons.injEq] at e; rw [← e.1]; exact hc46
    · exact float_tail_heads frac exp (c :: t) hf hex hne hnd
  obtain ⟨nd1, nd2, h46⟩ := hheads
  have hfr := readFraction_frac n frac (exp ++ c :: t) hf h46 nd2
  have hexp := readExponent_exp' n exp (c :: t) hex hnd hee
  have hla : numberLookahead n (c :: t) = .error ⟨.unexpectedCharacter, posAt n (c :: t)⟩ := by
    simp [numberLookahead, hcns]
  simp only [Spec.Lexical.isIntegerPart] at hip
  by_cases hneg : ∃ u, ip = 45 :: u
  · obtain ⟨u, rfl⟩ := hneg
    simp only [Spec.Lexical.stripNegativeSign] at hip
    cases u with
    | nil => simp at hip
    | cons d ds =>
      simp only at hip
      have hro := readOverInteger_ip n d ds (frac ++ (exp ++ c :: t)) hip nd1
      simp only [List.cons_append, List.append_assoc] at hro ⊢
      rw [next_number n 45 _ (Or.inl rfl)]
      simp only [readNumber, skipMinus, ↓reduceIte, hro, hfr, hexp, hla, bind, Except.bind, Except.map]
  · cases ip with
    | nil => simp [Spec.Lexical.stripNegativeSign] at hip
    | cons d ds =>
      have hd45 : d ≠ 45 := fun e => hneg ⟨ds, by rw [e]⟩
      have hs : Spec.Lexical.stripNegativeSign (d :: ds) = d :: ds := by
        unfold Spec.Lexical.stripNegativeSign
        split
        · rename_i heq; simp at heq; exact absurd heq.1 hd45
        · rfl
      rw [hs] at hip
      simp only at hip
      have hro := readOverInteger_ip n d ds (frac ++ (exp ++ c :: t)) hip nd1
      have hdig : Lex.isDigit d = true := by
        rw [isDigit_spec]
        simp [Spec.Lexical.isNonZeroDigit, Spec.Lexical.isDigit] at hip ⊢
        rcases hip with ⟨rfl, _⟩ | ⟨h, _⟩ <;> omega
      simp only [List.cons_append, List.append_assoc] at hro ⊢
      rw [next_number n d _ (Or.inr hdig)]
      simp only [readNumber, skipMinus, hd45, ↓reduceIte, hro, hfr, hexp, hla, bind, Except.bind, Except.map]

end PyGql.Lex

/-
  PRELUDE of the mini-translator (`harness/py2lean.py`, class `Tr`): the Lean meaning given to the Python
  built-ins that translated functions use. Import-free. Everything here is part of the TRUSTED reading of
  Python (`str` = list of code points, `int` = `Int`, `list` = `List`); it is listed in `TRUSTED` of
  `harness/corr/_tr.py`. Partial operations return `Except String α` (the string is the exception class).
-/
namespace PyGql.Py

/-- what a translated loop hands back: it ran to its end (or hit `break`) with the loop-carried variables `s`,
    or the enclosing function `return`ed `r`, or an exception of class `exc` was raised. -/
inductive Flow (ε σ ρ : Type) where
  | fall (s : σ)
  | ret (r : ρ)
  | raise (exc : ε)
  deriving Repr, DecidableEq

/-- an exception of a built-in (class name) seen through the caller's exception type -/
def mapErr {ε α} (exc : String → ε) : Except String α → Except ε α
  | .ok v => .ok v
  | .error e => .error (exc e)

/-- `d[key]` where `d` may be `None` (`TypeError`) -/
def optGet {α} : Option α → Except String α
  | none => .error "TypeError"
  | some v => .ok v

/-- `len(xs)` -/
def len {α} (xs : List α) : Int := Int.ofNat xs.length

/-- `enumerate(xs, k)` -/
def enumerateFrom {α} (k : Int) : List α → List (Int × α)
  | [] => []
  | x :: xs => (k, x) :: enumerateFrom (k + 1) xs

/-- `enumerate(xs)` -/
def enumerate {α} (xs : List α) : List (Int × α) := enumerateFrom 0 xs

/-- a slice bound as CPython normalises it (`PySlice_AdjustIndices`, step 1): negative counts from the end, then clamp to `[0, n]` -/
def normIdx (n : Nat) (i : Int) : Nat := if i < 0 then (i + Int.ofNat n).toNat else min i.toNat n

/-- `xs[i:j]` -/
def slice {α} (xs : List α) (i j : Int) : List α := (xs.take (normIdx xs.length j)).drop (normIdx xs.length i)

/-- `xs[i:]` -/
def sliceFrom {α} (xs : List α) (i : Int) : List α := xs.drop (normIdx xs.length i)

/-- `xs[:j]` -/
def sliceTo {α} (xs : List α) (j : Int) : List α := xs.take (normIdx xs.length j)

/-- the list position `xs[i]` reads / writes; `none` = `IndexError` -/
def itemIdx (n : Nat) (i : Int) : Option Nat :=
  let k := if i < 0 then i + Int.ofNat n else i
  if 0 ≤ k ∧ k < Int.ofNat n then some k.toNat else none

/-- `xs[i]` -/
def getItem {α} (xs : List α) (i : Int) : Except String α :=
  match itemIdx xs.length i with
  | none => .error "IndexError"
  | some k => match xs[k]? with | some v => .ok v | none => .error "IndexError"

/-- `xs[i] = v` (the updated list) -/
def setItem {α} (xs : List α) (i : Int) (v : α) : Except String (List α) :=
  match itemIdx xs.length i with
  | none => .error "IndexError"
  | some k => .ok (xs.set k v)

/-- `xs.pop(0)`: (popped, rest) -/
def pop0 {α} : List α → Except String (α × List α)
  | [] => .error "IndexError"
  | x :: xs => .ok (x, xs)

/-- `xs.pop()`: (popped, rest) -/
def popLast {α} (xs : List α) : Except String (α × List α) :=
  match xs.getLast? with
  | none => .error "IndexError"
  | some x => .ok (x, xs.dropLast)

/-- `s.lstrip(chars)` with an explicit character set -/
def lstrip (s : List Nat) (chars : List Nat) : List Nat := s.dropWhile (fun c => chars.contains c)

/-- `sep.join(parts)` -/
def join (sep : List Nat) : List (List Nat) → List Nat
  | [] => []
  | [l] => l
  | l :: ls => l ++ sep ++ join sep ls

/-- `sorted(xs, key=key)`: Python's sort is stable, so the result is THE stable sorted permutation; computed here by
    insertion (an element goes behind every earlier element whose key is not greater). `lt` is `<` on keys. -/
def insertBy {α κ} (lt : κ → κ → Bool) (key : α → κ) (a : α) : List α → List α
  | [] => [a]
  | b :: bs => if lt (key a) (key b) then a :: b :: bs else b :: insertBy lt key a bs

def sortedBy {α κ} (lt : κ → κ → Bool) (key : α → κ) (xs : List α) : List α :=
  xs.foldl (fun acc a => insertBy lt key a acc) []

/-- a token constructor call `Cls(start, end, value)` read as the triple of its arguments -/
def tok3 (start stop : Int) (value : List Nat) : Int × Int × List Nat := (start, stop, value)

/-- `range(a, b)` -/
def range (a b : Int) : List Int := (List.range (b - a).toNat).map (fun (i : Nat) => a + (i : Int))

/-- `Float(start, end, value)` / `Integer(start, end, value)`: which of the two, and the arguments -/
def tokNum (isFloat : Bool) (start stop : Int) (value : List Nat) : Bool × Int × Int × List Nat := (isFloat, start, stop, value)

/-- a token constructor call `Cls(start, end)` read as the pair of its arguments -/
def tok2 (start stop : Int) : Int × Int := (start, stop)

/-- `min(a, b)` / `max(a, b)` on ints -/
def imin (a b : Int) : Int := if b < a then b else a
def imax (a b : Int) : Int := if b > a then b else a

/-- `re.compile(r"\r\n|[\n\r]").split(s)` (`LINE_SEPARATOR.split`): always at least one piece; a CR directly followed by
    LF is ONE separator (`afterCR`: the previous character was a CR that already ended the line). The extractor
    checks that the pattern in the source is literally this one. -/
def lineSepSplitAux (afterCR : Bool) : List Nat → List (List Nat)
  | [] => [[]]
  | c :: t =>
    if c = 10 then (if afterCR then lineSepSplitAux false t else [] :: lineSepSplitAux false t)
    else if c = 13 then [] :: lineSepSplitAux true t
    else
      match lineSepSplitAux false t with
      | l :: ls => (c :: l) :: ls
      | [] => [[c]]

def lineSepSplit (s : List Nat) : List (List Nat) := lineSepSplitAux false s

end PyGql.Py

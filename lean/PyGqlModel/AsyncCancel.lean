/-
  C16 / finding N7 — the MECHANISM by which a started field loses its end hook on asyncio, as a small event-queue model
  (the executor trace model `Instr.lean` / `AsyncExec.lean` is the callback algebra of the thread pool and has no notion of
  loop iterations or task cancellation).

  Situation (execution/runtime/asyncio.py): the parent field's task `P` is inside `gather_values._await_values`: it has
  just wrapped its `n` children (each the coroutine `map_value._await_value`, whose `try … except BaseException` holds the
  `else_=(BaseException, on_error)` handler that fires `on_field_end`; every child's `on_field_start` HAS fired) with
  `asyncio.ensure_future` — their first steps are in the loop's ready queue, in order — and awaits `asyncio.gather(*futures)`.
  After `k` of these first steps the ROOT gather (a sibling aborted the request) cancels `P`.

  asyncio semantics used (trusted, §4 "asyncio gather/await ordering"): the ready queue is FIFO; `Task.cancel()` on a task
  that has not run its first step sets `_must_cancel`, and that first step then throws CancelledError INTO THE UNSTARTED
  coroutine, whose body never runs; on a task suspended at an `await` it schedules a wake-up with CancelledError raised at
  that `await`; `Task.cancel()` of a task waiting on a gather future calls `_GatheringFuture.cancel()`, which cancels every
  child at once; cancelling a `shield` only cancels the outer future: the waiting task's wake-up is queued behind what is
  already in the queue.
-/
namespace PyGql.AsyncCancel

inductive CState where
  | unstarted     -- task created, first step queued, coroutine body not entered
  | doomed        -- cancelled while unstarted (`_must_cancel`): the queued first step will kill it
  | entered       -- body entered: suspended inside the `try` of `map_value._await_value`
  | ended         -- CancelledError raised inside the `try`: `else_` → `on_error` → `end()` — on_field_end fired
  | dead          -- CancelledError thrown into the unstarted coroutine: body never ran — NO on_field_end
  deriving DecidableEq, Repr

inductive Act where
  | first (i : Nat)     -- first `__step` of child i's task
  | wake (i : Nat)      -- child i resumes with CancelledError at its `await`
  | parent              -- P resumes with CancelledError: `except BaseException: for fut in futures: fut.cancel()`
  deriving DecidableEq, Repr

structure St where
  children : List CState
  queue : List Act
  deriving DecidableEq, Repr

/-- `Task.cancel()` of child `i` -/
def cancelChild (s : St) (i : Nat) : St :=
  match s.children[i]? with
  | some .unstarted => { s with children := s.children.set i .doomed }
  | some .entered => { s with queue := s.queue ++ [.wake i] }
  | _ => s

def cancelAll (s : St) : St := (List.range s.children.length).foldl cancelChild s

def exec (s : St) : Act → St
  | .first i =>
    match s.children[i]? with
    | some .unstarted => { s with children := s.children.set i .entered }
    | some .doomed => { s with children := s.children.set i .dead }
    | _ => s
  | .wake i =>
    match s.children[i]? with
    | some .entered => { s with children := s.children.set i .ended }
    | _ => s
  | .parent => cancelAll s

/-- `fuel` iterations of the event loop -/
def runLoop : Nat → St → St
  | 0, s => s
  | fuel + 1, s =>
    match s.queue with
    | [] => s
    | a :: rest => runLoop fuel (exec { s with queue := rest } a)

def init (n : Nat) : St := ⟨List.replicate n .unstarted, (List.range n).map .first⟩

/-- TODAY: `P` awaits `asyncio.gather(*futures)` directly: cancelling `P` cancels the gather future, which forwards the
    cancellation to every child NOW; `P` itself wakes up once they are all over. -/
def rootCancelToday (s : St) : St := let s := cancelAll s; { s with queue := s.queue ++ [.parent] }

/-- WITH proposed_fixes/C16-N7.patch: `P` awaits `asyncio.shield(gather)`: only `P`'s wake-up is queued. -/
def rootCancelFixed (s : St) : St := { s with queue := s.queue ++ [.parent] }

/-- `n` children, the root's cancellation arrives after `k` of their first steps; final state of the children -/
def scenario (fixed : Bool) (n k : Nat) : List CState :=
  let s := runLoop k (init n)
  let s := if fixed then rootCancelFixed s else rootCancelToday s
  (runLoop (3 * n + 3) s).children

def lost (cs : List CState) : Nat := (cs.filter (· == .dead)).length

end PyGql.AsyncCancel

/-
  MODEL of the string encoders of `py_gql/lang/printer.py` (with proposed fixes C03-R1-R3, C03-R2):
  `print_string_value` (→ `json.dumps(value, ensure_ascii=False)` / `_block_string`), `_indent`,
  `_block_string`, and the description path of `_with_desc`.
-/
import PyGqlModel.Token

namespace PyGql.PrintString

def hexDigitLower (n : Nat) : Nat := if n < 10 then 48 + n else 87 + n

/-- one character of `json.dumps(s, ensure_ascii=False)`: `ESCAPE = [\x00-\x1f\\"\b\f\n\r\t]` -/
def jsonEscapeChar (c : Nat) : Text :=
  if c = 34 then [92, 34]
  else if c = 92 then [92, 92]
  else if c = 10 then [92, 110]
  else if c = 13 then [92, 114]
  else if c = 9 then [92, 116]
  else if c = 8 then [92, 98]
  else if c = 12 then [92, 102]
  else if c < 32 then [92, 117, 48, 48, hexDigitLower (c / 16), hexDigitLower (c % 16)]
  else [c]

def jsonEscape : Text → Text
  | [] => []
  | c :: t => jsonEscapeChar c ++ jsonEscape t

/-- `json.dumps(value, ensure_ascii=False)` -/
def jsonDumps (value : Text) : Text := 34 :: (jsonEscape value ++ [34])

/-- `value.replace('"""', '\\"""')` (leftmost, non-overlapping); `k > 0` = inside a replaced `"""` -/
def escapeTQAux : Nat → Text → Text
  | _, [] => []
  | k + 1, c :: t => c :: escapeTQAux k t
  | 0, c :: t =>
    if [34, 34, 34].isPrefixOf (c :: t) then 92 :: c :: escapeTQAux 2 t
    else c :: escapeTQAux 0 t

def escapeTripleQuotes (value : Text) : Text := escapeTQAux 0 value

/-- `s.replace("\n", "\n" + indent)` -/
def replaceLF (indent : Text) : Text → Text
  | [] => []
  | c :: t => if c = 10 then 10 :: (indent ++ replaceLF indent t) else c :: replaceLF indent t

/-- `_indent(maybe_string, indent)` -/
def indentText (s indent : Text) : Text :=
  if s.isEmpty then [] else indent ++ replaceLF indent s

/-- `_block_string(value, indent, is_description)` -/
def blockString (value indent : Text) (isDescription : Bool := false) : Text :=
  let escaped := escapeTripleQuotes value
  let tq : Text := [34, 34, 34]
  let startsBlank : Bool := match value with
    | c :: _ => c == 32 || c == 9
    | [] => false
  if startsBlank && !(value.contains 10) then
    let escaped :=
      if escaped.getLast? == some 34 || escaped.getLast? == some 92 then escaped ++ [10] else escaped
    tq ++ escaped ++ tq
  else
    tq ++ 10 :: ((if isDescription then escaped else indentText escaped indent) ++ 10 :: tq)

/-- `print_string_value(node)` -/
def printStringValue (value : Text) (block : Bool) (indent : Text) : Text :=
  if block then blockString value indent else jsonDumps value

/-- enclosing layout: `_indent` applied `k` times (selection sets / field blocks around the string) -/
def indentN (indent : Text) : Nat → Text → Text
  | 0, s => s
  | k + 1, s => indentText (indentN indent k s) indent

end PyGql.PrintString

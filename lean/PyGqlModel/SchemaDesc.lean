/-
  Plain description of a GraphQL schema (by-name references), shared by the schema-side models.
  Mirrors the dict produced by `harness/gen/schema.py` and `harness/canon_schema.py`.
  Import-free (uses PyGqlModel.Json for opaque default values).
-/
import PyGqlModel.Json
import PyGqlModel.Ty

namespace PyGql

/-- kind of a Python parameter (`inspect.Parameter.kind`) -/
inductive ParamKind where
  | posOnly | posOrKw | varPos | kwOnly | varKw
  deriving DecidableEq, Repr, Inhabited

def ParamKind.ofString : String → ParamKind
  | "posOnly" => .posOnly | "varPos" => .varPos | "kwOnly" => .kwOnly | "varKw" => .varKw | _ => .posOrKw

def ParamKind.toString : ParamKind → String
  | .posOnly => "posOnly" | .posOrKw => "posOrKw" | .varPos => "varPos" | .kwOnly => "kwOnly" | .varKw => "varKw"

/-- one parameter of a resolver's `inspect.signature` -/
structure ParamD where
  name : String
  kind : ParamKind := .posOrKw
  hasDefault : Bool := false
  deriving DecidableEq, Repr, Inhabited

/-- a resolver callable as data: its signature (`inspectable = false`: `inspect.signature` raises `ValueError`) -/
structure ResolverD where
  /-- `callable(resolver)`; a non-callable object in a resolver slot -/
  callable : Bool := true
  inspectable : Bool := true
  params : List ParamD := []
  deriving DecidableEq, Repr, Inhabited

/-- argument or input field -/
structure ArgD where
  name : String
  type : Ty
  hasDefault : Bool := false
  /-- canonical JSON of the coerced Python default value (enum internal values as given) -/
  default : J := .null
  desc : Option String := none
  /-- `python_name` (keyword under which the resolver receives the argument; defaults to `name`) -/
  pythonName : String := name
  deriving Repr, Inhabited, BEq

structure FieldD where
  name : String
  type : Ty
  args : List ArgD := []
  deprecated : Option String := none   -- deprecation reason
  desc : Option String := none
  /-- `field.resolver` as data (none: no resolver set) -/
  resolver : Option ResolverD := none
  /-- `field.subscription_resolver` as data -/
  subscriptionResolver : Option ResolverD := none
  deriving Repr, Inhabited, BEq

structure EnumValD where
  name : String
  /-- canonical JSON of the internal (Python) value -/
  value : J := .null
  deprecated : Option String := none
  desc : Option String := none
  deriving Repr, Inhabited, BEq

inductive Kind where
  | scalar | object | interface | union | enum | input
  deriving DecidableEq, Repr, Inhabited

def Kind.ofString : String → Option Kind
  | "scalar" => some .scalar | "object" => some .object | "interface" => some .interface
  | "union" => some .union | "enum" => some .enum | "input" => some .input | _ => none

def Kind.toString : Kind → String
  | .scalar => "scalar" | .object => "object" | .interface => "interface"
  | .union => "union" | .enum => "enum" | .input => "input"

structure TypeD where
  kind : Kind
  name : String
  desc : Option String := none
  interfaces : List String := []     -- object
  fields : List FieldD := []         -- object / interface
  members : List String := []        -- union
  values : List EnumValD := []       -- enum
  inputFields : List ArgD := []      -- input
  /-- `ObjectType.default_resolver` as data -/
  defaultResolver : Option ResolverD := none
  /-- specified scalar or introspection type (exempt from the type-name rule) -/
  builtin : Bool := false
  deriving Repr, Inhabited, BEq

structure DirectiveD where
  name : String
  locations : List String
  args : List ArgD := []
  desc : Option String := none
  deriving Repr, Inhabited, BEq

structure SchemaD where
  types : List TypeD
  directives : List DirectiveD := []
  query : Option String := some "Query"
  mutation : Option String := none
  subscription : Option String := none
  /-- `Schema.default_resolver` as data -/
  defaultResolver : Option ResolverD := none
  deriving Repr, Inhabited, BEq

namespace SchemaD
def findType (s : SchemaD) (n : String) : Option TypeD := s.types.find? (·.name == n)
end SchemaD

end PyGql

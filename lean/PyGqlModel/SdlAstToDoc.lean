/-
  C12 at TEXT level — the conversion the harness (and `build_schema`) applies to a PARSED tree: `astToDoc ρ`, the SDL
  document (`Sdl.Doc`, the wire image the builder model consumes) of a location-free `Ast.Document`.

  `SdlText.docToAst` (document → tree) is NOT injective: it drops the component `f` of `Lit.int v f` / `Lit.float v f`
  (Python's `repr(float(text))`, which `Sdl.scalarLiteral` uses for `Float` defaults) and the member lists that are not of
  a definition's kind.  `astToDoc ρ` goes the other way and is a function of the tree alone: `f := ρ v`, where the
  parameter `ρ : String → String` stands for Python's `repr(float(·))` (not modelled: shortest round-trip formatting of
  IEEE doubles; the theorems quantify over it).  `reDoc ρ` is the normaliser `astToDoc ρ ∘ docToAst`:
  a document is CANONICAL for `ρ` iff `reDoc ρ doc = doc` (every `f` is `ρ v`; only the member lists of the kind are
  populated; extensions have no description).  Audit 3, finding F9.
  Import-free (core Lean + model files).
-/
import PyGqlModel.SdlText
namespace PyGql.SdlText
open PyGql PyGql.Ast PyGql.Sdl

/-- the Python string of a list of code points (inverse of `T` on its image) -/
def unT (t : Text) : String := String.ofList (t.map Char.ofNat)
def unName (n : Name) : String := unT n.value
def unNamed (n : NamedType) : String := unName n.name

def unType : TypeRef → Ty
  | .named n => .named (unNamed n)
  | .list t _ => .list (unType t)
  | .nonNull t _ => .nonNull (unType t)

mutual
/-- the constant a value node denotes; `f := ρ v` for number literals (a variable is not a constant: never in the image of
    `valueOf`) -/
def litOfValue (ρ : String → String) : Value → Lit
  | .var _ => .null
  | .int v _ => .int (unT v) (ρ (unT v))
  | .float v _ => .float (unT v) (ρ (unT v))
  | .string s => .str (unT s.value)
  | .boolean b _ => .bool b
  | .null _ => .null
  | .enum v _ => .enum (unT v)
  | .list vs _ => .list (litsOfValues ρ vs)
  | .object fs _ => .obj (litFieldsOf ρ fs)
def litsOfValues (ρ : String → String) : List Value → List Lit
  | [] => []
  | v :: vs => litOfValue ρ v :: litsOfValues ρ vs
def litFieldOf (ρ : String → String) : ObjectField → String × Lit
  | .mk n v _ => (unName n, litOfValue ρ v)
def litFieldsOf (ρ : String → String) : List ObjectField → List (String × Lit)
  | [] => []
  | f :: fs => litFieldOf ρ f :: litFieldsOf ρ fs
end

def argOfAst (ρ : String → String) (a : Argument) : String × Lit := (unName a.name, litOfValue ρ a.value)
def dirOfAst (ρ : String → String) (d : Directive) : DirApp := { name := unName d.name, args := d.arguments.map (argOfAst ρ) }
def descOfAst (d : Option StringValue) : Option String := d.map fun s => unT s.value

def inputValOfAst (ρ : String → String) (a : InputValueDefinition) : InputValDef :=
  { name := unName a.name, desc := descOfAst a.description, type := unType a.type, default := a.defaultValue.map (litOfValue ρ),
    dirs := a.directives.map (dirOfAst ρ) }
def fieldOfAst (ρ : String → String) (f : FieldDefinition) : FieldDef :=
  { name := unName f.name, desc := descOfAst f.description, args := f.arguments.map (inputValOfAst ρ), type := unType f.type,
    dirs := f.directives.map (dirOfAst ρ) }
def enumValOfAst (ρ : String → String) (v : EnumValueDefinition) : EnumValDef :=
  { name := unName v.name, desc := descOfAst v.description, dirs := v.directives.map (dirOfAst ρ) }
def opTypeOfAst (o : OperationTypeDefinition) : String × String := (unT o.operation, unNamed o.type)

/-- the SDL definition of a tree definition (executable definitions: `.other`) -/
def defOfAst (ρ : String → String) : Definition → Def
  | .operation _ => .other
  | .fragment _ => .other
  | .schemaDefinition ds ops _ => .schema { ops := ops.map opTypeOfAst, dirs := ds.map (dirOfAst ρ) }
  | .schemaExtension ds ops _ => .schemaExt { ops := ops.map opTypeOfAst, dirs := ds.map (dirOfAst ρ) }
  | .directiveDefinition d n args locs _ =>
    .directive { name := unName n, desc := descOfAst d, args := args.map (inputValOfAst ρ), locations := locs.map unName }
  | .scalarTypeDefinition d n ds _ => .type { kind := .scalar, name := unName n, desc := descOfAst d, dirs := ds.map (dirOfAst ρ) }
  | .objectTypeDefinition d n is ds fs _ =>
    .type { kind := .object, name := unName n, desc := descOfAst d, interfaces := is.map unNamed, fields := fs.map (fieldOfAst ρ), dirs := ds.map (dirOfAst ρ) }
  | .interfaceTypeDefinition d n ds fs _ =>
    .type { kind := .interface, name := unName n, desc := descOfAst d, fields := fs.map (fieldOfAst ρ), dirs := ds.map (dirOfAst ρ) }
  | .unionTypeDefinition d n ds ts _ =>
    .type { kind := .union, name := unName n, desc := descOfAst d, members := ts.map unNamed, dirs := ds.map (dirOfAst ρ) }
  | .enumTypeDefinition d n ds vs _ =>
    .type { kind := .enum, name := unName n, desc := descOfAst d, values := vs.map (enumValOfAst ρ), dirs := ds.map (dirOfAst ρ) }
  | .inputObjectTypeDefinition d n ds fs _ =>
    .type { kind := .input, name := unName n, desc := descOfAst d, inputFields := fs.map (inputValOfAst ρ), dirs := ds.map (dirOfAst ρ) }
  | .scalarTypeExtension n ds _ => .ext { kind := .scalar, name := unName n, dirs := ds.map (dirOfAst ρ) }
  | .objectTypeExtension n is ds fs _ =>
    .ext { kind := .object, name := unName n, interfaces := is.map unNamed, fields := fs.map (fieldOfAst ρ), dirs := ds.map (dirOfAst ρ) }
  | .interfaceTypeExtension n ds fs _ => .ext { kind := .interface, name := unName n, fields := fs.map (fieldOfAst ρ), dirs := ds.map (dirOfAst ρ) }
  | .unionTypeExtension n ds ts _ => .ext { kind := .union, name := unName n, members := ts.map unNamed, dirs := ds.map (dirOfAst ρ) }
  | .enumTypeExtension n ds vs _ => .ext { kind := .enum, name := unName n, values := vs.map (enumValOfAst ρ), dirs := ds.map (dirOfAst ρ) }
  | .inputObjectTypeExtension n ds fs _ =>
    .ext { kind := .input, name := unName n, inputFields := fs.map (inputValOfAst ρ), dirs := ds.map (dirOfAst ρ) }

/-- **astToDoc** — the SDL document of a parsed tree, with `repr(float(·)) = ρ` -/
def astToDoc (ρ : String → String) (d : Document) : Doc := d.definitions.map (defOfAst ρ)

/-! ### the normaliser `reDoc ρ = astToDoc ρ ∘ docToAst`, written on documents -/

mutual
def reLit (ρ : String → String) : Lit → Lit
  | .null => .null
  | .int v _ => .int v (ρ v)
  | .float v _ => .float v (ρ v)
  | .str s => .str s
  | .bool b => .bool b
  | .enum s => .enum s
  | .list l => .list (reLits ρ l)
  | .obj fs => .obj (reLitFields ρ fs)
def reLits (ρ : String → String) : List Lit → List Lit
  | [] => []
  | v :: vs => reLit ρ v :: reLits ρ vs
def reLitFields (ρ : String → String) : List (String × Lit) → List (String × Lit)
  | [] => []
  | (k, v) :: fs => (k, reLit ρ v) :: reLitFields ρ fs
end

def reArg (ρ : String → String) (a : String × Lit) : String × Lit := (a.1, reLit ρ a.2)
def reDir (ρ : String → String) (d : DirApp) : DirApp := { name := d.name, args := d.args.map (reArg ρ) }
def reInputVal (ρ : String → String) (a : InputValDef) : InputValDef :=
  { name := a.name, desc := a.desc, type := a.type, default := a.default.map (reLit ρ), dirs := a.dirs.map (reDir ρ) }
def reField (ρ : String → String) (f : FieldDef) : FieldDef :=
  { name := f.name, desc := f.desc, args := f.args.map (reInputVal ρ), type := f.type, dirs := f.dirs.map (reDir ρ) }
def reEnumVal (ρ : String → String) (v : EnumValDef) : EnumValDef := { name := v.name, desc := v.desc, dirs := v.dirs.map (reDir ρ) }

/-- a type definition keeps the member lists of its kind only (`ext`: an extension, no description) -/
def reType (ρ : String → String) (ext : Bool) (t : TypeDef) : TypeDef :=
  let desc := if ext then none else t.desc
  match t.kind with
  | .scalar => { kind := .scalar, name := t.name, desc := desc, dirs := t.dirs.map (reDir ρ) }
  | .object => { kind := .object, name := t.name, desc := desc, interfaces := t.interfaces, fields := t.fields.map (reField ρ), dirs := t.dirs.map (reDir ρ) }
  | .interface => { kind := .interface, name := t.name, desc := desc, fields := t.fields.map (reField ρ), dirs := t.dirs.map (reDir ρ) }
  | .union => { kind := .union, name := t.name, desc := desc, members := t.members, dirs := t.dirs.map (reDir ρ) }
  | .enum => { kind := .enum, name := t.name, desc := desc, values := t.values.map (reEnumVal ρ), dirs := t.dirs.map (reDir ρ) }
  | .input => { kind := .input, name := t.name, desc := desc, inputFields := t.inputFields.map (reInputVal ρ), dirs := t.dirs.map (reDir ρ) }

def reDef (ρ : String → String) : Def → Def
  | .type t => .type (reType ρ false t)
  | .ext t => .ext (reType ρ true t)
  | .directive d => .directive { name := d.name, desc := d.desc, args := d.args.map (reInputVal ρ), locations := d.locations }
  | .schema s => .schema { ops := s.ops, dirs := s.dirs.map (reDir ρ) }
  | .schemaExt s => .schemaExt { ops := s.ops, dirs := s.dirs.map (reDir ρ) }
  | .other => .other

/-- **reDoc** — the canonical form of a document for `ρ` -/
def reDoc (ρ : String → String) (doc : Doc) : Doc := doc.map (reDef ρ)

/-- a document is canonical for `ρ`: it is what the conversion returns on its own tree -/
def CanonDoc (ρ : String → String) (doc : Doc) : Prop := reDoc ρ doc = doc

mutual
/-- decidable: every numeral of the literal carries `f = ρ v` -/
def litCanonB (ρ : String → String) : Lit → Bool
  | .int v f => f == ρ v
  | .float v f => f == ρ v
  | .list l => litsCanonB ρ l
  | .obj fs => litFieldsCanonB ρ fs
  | _ => true
def litsCanonB (ρ : String → String) : List Lit → Bool
  | [] => true
  | v :: vs => litCanonB ρ v && litsCanonB ρ vs
def litFieldsCanonB (ρ : String → String) : List (String × Lit) → Bool
  | [] => true
  | (_, v) :: fs => litCanonB ρ v && litFieldsCanonB ρ fs
end

/-- the arguments / input fields of a schema whose default the printer writes -/
def allArgs (s : SchemaD) : List ArgD :=
  s.directives.flatMap (·.args) ++ s.types.flatMap (fun t => t.fields.flatMap (·.args) ++ t.inputFields)

/-- decidable: `ρ` agrees with the printer on every printed default literal -/
def litsCanonWF (ρ : String → String) (s : SchemaD) : Bool :=
  (allArgs s).all fun a => !a.hasDefault ||
    (match SdlPrint.valueLit s SdlPrint.valueFuel a.default a.type with | some l => litCanonB ρ l | none => true)

/-- `ρ` given by a finite table (the driver receives Python's `repr(float(v))` for every numeral of the real text) -/
def reprOfTable (tbl : List (String × String)) (v : String) : String :=
  match tbl.find? (·.1 == v) with | some p => p.2 | none => ""

/-! ### the schema without its descriptions -/

def stripArg (a : ArgD) : ArgD := { a with desc := none }
def stripField (f : FieldD) : FieldD := { f with desc := none, args := f.args.map stripArg }
def stripEnumVal (v : EnumValD) : EnumValD := { v with desc := none }
def stripType (t : TypeD) : TypeD :=
  { t with desc := none, fields := t.fields.map stripField, values := t.values.map stripEnumVal, inputFields := t.inputFields.map stripArg }
def stripDirective (d : DirectiveD) : DirectiveD := { d with desc := none, args := d.args.map stripArg }
/-- every description removed (what a schema rebuilt from a text printed with `include_descriptions=False` carries) -/
def stripSchema (s : SchemaD) : SchemaD :=
  { s with types := s.types.map stripType, directives := s.directives.map stripDirective }

end PyGql.SdlText

/-
  C04 — MODEL of `execution/default_resolver.py` and of resolver worlds given by plain DATA:
  the parent value is a Mapping, an object with attributes and callables, or something else; the documented
  lookup order is
    Mapping            → `root.get(name, None)`  (present value, present-with-None, or absent ⇒ None; never an
                          attribute or a method of the mapping, whatever the field is called: `items`, `get`, …)
    attribute present  → the attribute if not callable, else the result of calling it `(context, info, **args)`
    otherwise          → None
-/
import PyGqlModel.ExecTypes

namespace PyGql.Exec
open PyGql

/-- Python values handed to the default resolver -/
inductive PVal where
  | none
  | leaf (j : J)
  | list (vs : List PVal)
  | dict (kvs : List (String × PVal))                       -- a Mapping
  | obj (attrs : List (String × PVal))                      -- plain attributes
        (calls : List (String × PVal))                      -- callables and what they return
        (raises : List (String × String))                   -- callables raising ResolverError(message)
  deriving Inhabited

def assoc {α} (kvs : List (String × α)) (k : String) : Option α := (kvs.find? (·.1 == k)).map (·.2)

inductive Looked where
  | value (v : PVal)
  | raised (msg : String)
  deriving Inhabited

/-- `default_resolver(root, context, info, **args)` for the field called `name` -/
def defaultResolver (root : PVal) (name : String) : Looked :=
  match root with
  | .dict kvs => .value ((assoc kvs name).getD .none)
  | .obj attrs calls raises =>
    match assoc attrs name with
    | some v => .value v
    | none =>
      match assoc calls name with
      | some v => .value v
      | none =>
        match assoc raises name with
        | some m => .raised m
        | none => .value .none
  | _ => .value .none

/-- the value reached from `root` along a response path (no aliases: response keys are field names) -/
def PVal.at : PVal → Path → Option PVal
  | v, [] => some v
  | v, .key k :: rest =>
    match defaultResolver v k with
    | .value x => PVal.at x rest
    | .raised _ => Option.none
  | .list vs, .idx i :: rest =>
    match vs[i]? with
    | some x => PVal.at x rest
    | Option.none => Option.none
  | _, .idx _ :: _ => Option.none

def typenameOf (kvs : List (String × PVal)) (dflt : String) : String :=
  match assoc kvs "__typename__" with
  | some (.leaf (.str s)) => s
  | _ => dflt

mutual
/-- what `complete_value` sees of a Python value -/
def toRVal : PVal → RVal
  | .none => .null
  | .leaf j => .leaf j
  | .list vs => .list (toRVals vs)
  | .dict kvs => .obj (typenameOf kvs "dict")
  | .obj attrs _ _ => .obj (typenameOf attrs "O")
def toRVals : List PVal → List RVal
  | [] => []
  | v :: vs => toRVal v :: toRVals vs
end

/-- the world in which every field is resolved by the DEFAULT resolver over the data `root` -/
def dataWorld (root : PVal) : World := fun _parent field path _args =>
  match PVal.at root path.dropLast with
  | some pv =>
    match defaultResolver pv field with
    | .value v => .val (toRVal v)
    | .raised m => .err m Option.none
  | Option.none => .val .null

end PyGql.Exec

/-
  C09 — `Executor.execute_fields_serially` in the form the code has TODAY: `_next` is a `while True` loop that
  carries on while fields resolve synchronously and only chains through `map_value` when a field's value is
  actually deferred (a recursive `_next` per field overflowed the stack on a few hundred root fields: fix H1):

      def _next():
          while True:
              try: k, f, n = args.pop(0)
              except IndexError: return resolved_fields
              state = {"inline": True, "ran": False}
              def cb(value):                      # `then` of map_value
                  resolved_fields[k] = value
                  with lock:
                      if state["inline"]: state["ran"] = True; return None
                  return _next()
              chained = map_value(resolve_field(…), cb)
              with lock: state["inline"] = False; ran = state["ran"]
              if not ran: return chained

  `AsyncExec.serialNext` is the RECURSIVE reading (`cb` always calls `_next()`); `serialLoop` below is the loop:
    * plain value: `map_value` runs `cb` at once, inline: `ran` — the loop carries on (same as the recursion);
    * a FINISHED Future (`ready`): `chain.on_finish` fires at once and runs `cb` inline: `ran` — the loop carries on and
      what `_next` eventually returns is NOT wrapped in the target Future of that `chain` (the recursion returns
      `done (rest)` / stores an exception of the rest in the Future; the loop returns `rest` / lets it propagate);
    * a failed Future: `cb` does not run, `chained` is the failed Future: returned;
    * a pending Future: `cb` has not run: `chained` is returned; when the Future completes `cb` runs with
      `inline = False` and calls `_next()` — a fresh loop over the remaining queue (`Cont.serialCb`, interpreted by
      `applyContL`).
  The lock only matters when `cb` runs on ANOTHER thread between `map_value` returning and the hand-over; completions
  are atomic in this model (see `RuntimeRace.lean` for the micro-step treatment of `gather_futures`), the
  line-level interleavings are exercised by `interleaving_stage` of harness/corr/C09.py.
-/
import PyGqlModel.AsyncExec

namespace PyGql.AsyncExec.Loop

/-- `_next()` of today's `execute_fields_serially`: the loop -/
def serialLoop (path : Path) (resolved : List (String × V)) : Flds → ExecSt → Res Node × ExecSt
  | .nil, s => (.ok (.val (.data (.obj resolved))), s)                 -- `except IndexError: return resolved_fields`
  | .cons key mode out args, s =>
    match resolveField (path ++ [.key key]) mode out s with
    | (.exc e, s1) => (.exc e, s1)
    | (.ok (.val (.data v)), s1) => serialLoop path (resolved ++ [(key, v)]) args s1     -- `cb` ran inline: next iteration
    | (.ok (.val _), s1) => (.ok (.val .junk), s1)
    | (.ok (.done (.val (.data v))), s1) =>
      -- an already finished Future: `chain` fired `cb` inline (`ran`), `chained` (a Future holding None) is dropped
      serialLoop path (resolved ++ [(key, v)]) args s1
    | (.ok (.failed e), s1) => (.ok (.failed e), s1)
    | (.ok n, s1) => (.ok (.chain n (.serialCb path key resolved args)), s1)

/-- the callbacks, with `cb` of the loop form: resumed after a deferred field it runs `_next()` = a fresh loop -/
def applyContL : ApplyCont
  | .serialCb path key resolved args, .ok (.data v), s => serialLoop path (resolved ++ [(key, v)]) args s
  | k, r, s => applyCont k r s

/-- `execute` with the loop form for mutations -/
def execute (op : Op) (s : ExecSt) : Res Node × ExecSt :=
  let r := match op.kind with
    | .query => executeFields [] op.fields s
    | .mutation => serialLoop [] [] op.fields s
  match r with
  | (.exc e, s1) => (.exc e, s1)
  | (.ok n, s1) => mapValue applyContL (unwrapValue n) .onFinish s1

def stepSched (top : Node) (s : ExecSt) (i : Nat) : Node × ExecSt :=
  let j := i % s.queue.length
  match s.queue[j]? with
  | none => (top, s)
  | some t => deliver applyContL t top { s with queue := removeAt s.queue j }

def runSched (top : Node) (s : ExecSt) (sizes : List Nat) : List Nat → RunOut
  | [] => ⟨top, s, sizes⟩
  | i :: rest =>
    if top.finished || s.queue.isEmpty then ⟨top, s, sizes⟩
    else
      let (top', s') := stepSched top s i
      runSched top' s' (sizes ++ [s.queue.length]) rest

def runAsync (op : Op) (schedule : List Nat) : Result :=
  match execute op {} with
  | (.exc e, s) => ⟨.failed e, s.trace, []⟩
  | (.ok top, s) =>
    let r := runSched top s [] schedule
    ⟨outcomeOf r.top r.st, r.st.trace, r.sizes⟩

end PyGql.AsyncExec.Loop

/-
  C14 — which variant of the anchored code the model follows. `Generated/HeapCfg.lean`
  (rewritten from the Python source on every run) instantiates it for the working tree.
-/
namespace PyGql.Heap

structure Cfg where
  /-- `Schema.clone` registers every type of the source (T1 fixed), not only those reachable from the roots -/
  keepAllTypes : Bool
  /-- `Schema.clone` copies field / argument / input-field objects too (T2 fixed), not only the type objects -/
  deepClone : Bool
  /-- `_replace_types_and_directives` accumulates `busted_cache` (T3 fixed) instead of overwriting it per entry -/
  accumulateBusted : Bool
  /-- `clone` carries the schema-level `default_resolver` over (T4) -/
  cloneSchemaDres : Bool
  /-- `_extend_object_type` passes `default_resolver` -/
  extObjDres : Bool
  /-- `_extend_field` passes `subscription_resolver` -/
  extFieldSub : Bool
  /-- `_extend_field` passes `python_name` -/
  extFieldPy : Bool
  /-- `_extend_interface_type` passes `resolve_type` -/
  extIfaceRtype : Bool
  /-- `_extend_union_type` passes `description` -/
  extUnionDesc : Bool
  /-- `_extend_union_type` passes `resolve_type` -/
  extUnionRtype : Bool
  /-- `_extend_argument` passes `python_name` -/
  extArgPy : Bool
  /-- the `InputField(...)` rebuilt on extension gets `python_name` -/
  extInputPy : Bool
  /-- `extend_schema` rebuilds every registered type, not only extended / reachable ones -/
  extKeepAll : Bool
  /-- `extend_schema` carries the schema-level `default_resolver` over -/
  extSchemaDres : Bool
  /-- input fields ADDED by an extension are passed through `extend_type` (C11-S1); otherwise they reference the
      type object of the schema being extended -/
  extInputFieldExtended : Bool
  /-- `Schema.clone` copies the resolver registries with `merge_resolvers` (fresh inner per-type dicts); `false`: the outer
      maps are copied with `dict.update` and the inner dicts are SHARED with the source -/
  cloneRegsDeep : Bool
  /-- `Schema.clone` replays only the registry entries that still name a field of the clone
      (`merge_resolvers(self._applicable_resolvers(cloned))`, T5); `false`: every entry is replayed and an entry naming a
      renamed / removed field makes `clone()` raise `SchemaError` -/
  cloneRegsFiltered : Bool
  /-- `Schema.clone` copies the registry ENTRIES only (the cloned fields already carry their resolvers); `false`: the entries
      are replayed through `Schema.register_resolver` / `register_subscription`, which also assign to the field and raise
      `ValueError` when the field's resolver was replaced since it was registered (T6) -/
  cloneRegsByValue : Bool
  /-- `extend_schema` carries the `resolvers` / `subscriptions` registries over (T8); `false`: the result's are empty -/
  extKeepRegs : Bool
  /-- `_extend_scalar_type` / `_extend_enum_type` COPY the type object (`copy.copy`: an instance of a `ScalarType` /
      `EnumType` subclass keeps its class, T9); `false`: they rebuild a plain `ScalarType(...)` / `EnumType(...)` -/
  extLeafCopied : Bool
  deriving Repr, DecidableEq

/-- the code with every proposed fix applied -/
def Cfg.fixed : Cfg := ⟨true, true, true, true, true, true, true, true, true, true, true, true, true, true, true, true, true, true, true, true⟩
/-- the code of the unchanged tree (snapshot 2541ded) -/
def Cfg.legacy : Cfg := ⟨false, false, false, false, false, false, false, false, false, false, false, false, false, false, false, true, false, false, false, false⟩

/-- the fixed code, except that `clone` copies the registries shallowly (the class of a seeded change) -/
def Cfg.shallowRegs : Cfg := { Cfg.fixed with cloneRegsDeep := false }

end PyGql.Heap

/-
  C18 — a decidable SHAPE check of a generic tree against a traversal table (used by Props/C18_shape.lean:
  `wellShaped_visit_ok`, and evaluated by the driver on every document of the correspondence). It reads shapes only: it never
  builds a trace and calls no visitor. Import-free (core Lean only).
-/
import PyGqlModel.Visit

namespace PyGql.Visit

/-- the child `c` is resolved by the call target and passes `rec` for the method it is sent to -/
def childShaped (T : Table) (rec : String → Node → Bool) (tgt : Target) (c : Node) : Bool :=
  match resolve T tgt c.kind with
  | .ok m' => rec m' c
  | .error _ => false

/-- one statement on the node `n` -/
def stepShaped (T : Table) (rec : String → Node → Bool) (st : Step) (n : Node) : Bool :=
  !st.applies n.kind ||
  match n.getAttr st.attr with
  | none => false
  | some a =>
    match st.shape, a with
    | .one, .one none => st.guard != .always
    | .one, .one (some c) => childShaped T rec st.target c
    | .many, .many cs => cs.all (childShaped T rec st.target)
    | _, _ => false

def wellShapedM (T : Table) : Nat → String → Node → Bool
  | 0, _, _ => false
  | fuel + 1, m, n =>
    match T.methods.lookup m with
    | none => false
    | some steps => steps.all fun st => stepShaped T (wellShapedM T fuel) st n

/-- the shape check at the root -/
def wellShapedAt (T : Table) (fuel : Nat) (t : Node) : Bool :=
  match T.visit.lookup t.kind with
  | none => false
  | some m => wellShapedM T fuel m t

end PyGql.Visit

/-
  MODEL of the LAZY token window of `Parser` (`_advance_window`, `peek`, `advance`: tokens are pulled from the lexer one at
  a time, when the parser first looks at them).  For a text with a lexical error the real parser therefore sees the tokens
  BEFORE the error; if it fails on one of them it raises that grammatical error and never reaches the lexical one; if it
  asks for the next token it gets the lexer's exception.  In the token-level model (`Parse.lean`) "asks for the next token
  and there is none" is exactly the error with `eof = true` on a token list WITHOUT `<EOF>` (the `[]` branches of `peek`,
  `peek2`, `advance`, `fail`).
-/
import PyGqlModel.ParseText
namespace PyGql.Lex

/-- `lexLoop`, keeping the tokens produced before an error -/
def lexLoopP (n : Nat) : Nat → Text → List Tok × Option SynErr
  | 0, _ => ([], some ⟨.fuel, 0⟩)
  | fuel + 1, s =>
    match next n s with
    | .error e => ([], some e)
    | .ok (tok, none) => ([tok], none)
    | .ok (tok, some rest) =>
      let r := lexLoopP n fuel rest
      (tok :: r.1, r.2)

/-- the tokens the lexer yields before it fails (all of them if it does not), and its error -/
def lexPrefix (s : Text) : List Tok × Option SynErr :=
  let r := lexLoopP s.length (s.length + 1) s
  (sofTok :: r.1, r.2)

end PyGql.Lex

namespace PyGql.Parse
open PyGql PyGql.Ast

/-- `Parser(text).parse_…()` with the lazy window -/
def withLexerLazy {α} (p : List Tok → Except SynErr α) (s : Text) : Except TextErr α :=
  match Lex.lexPrefix s with
  | (toks, none) =>
    match p toks with
    | .ok a => .ok a
    | .error e => .error (.parse e)
  | (toks, some le) =>
    match p toks with
    | .error pe => if pe.eof then .error (.lex le) else .error (.parse pe)
    | .ok _ => .error (.lex le)      -- dead branch: a successful parse consumes `<EOF>` (`Props/C01_lazy.lean: lazy_prefix_never_ok`)

def parseTextLazyE (fl : Flags) (s : Text) : Except TextErr Document := withLexerLazy (parseDocument fl) s
def parseValueTextLazyE (fl : Flags) (s : Text) : Except TextErr Value := withLexerLazy (parseValue fl) s
def parseTypeTextLazyE (fl : Flags) (s : Text) : Except TextErr TypeRef := withLexerLazy (parseType fl) s

end PyGql.Parse

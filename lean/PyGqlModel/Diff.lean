/-
  C20 — model of `diff_schema` (src/py_gql/schema/differ/__init__.py) over by-name schema
  descriptions. Mirrors the `_find_*` / `_diff_*` generators one by one, in the order
  `diff_schema` chains them. A change is (class name, identifying attributes, severity).
-/
import PyGqlModel.SchemaDesc
import PyGqlModel.Differ

namespace PyGql.Diff
open PyGql PyGql.Differ

structure Change where
  cls : String
  /-- identifying attributes, (python attribute name, element name), sorted by attribute name -/
  key : List (String × String)
  severity : Nat
  deriving Repr, BEq, DecidableEq, Inhabited

def sev (cls : String) (required : Bool := false) : Nat := (severityOf cls required).getD 99

def mk (cls : String) (key : List (String × String)) (required : Bool := false) : Change :=
  { cls := cls, key := key, severity := sev cls required }

def ArgD.required (a : ArgD) : Bool := a.type.isNonNull && !a.hasDefault

/-- `ObjectType.__name__[:-4]` etc. -/
def kindName : Kind → String
  | .scalar => "Scalar" | .object => "Object" | .interface => "Interface"
  | .union => "Union" | .enum => "Enum" | .input => "InputObject"

/-- `_diff_root_types`: the root operation types, compared by name -/
def diffRootTypes (o n : SchemaD) : List Change :=
  [("query", o.query, n.query), ("mutation", o.mutation, n.mutation), ("subscription", o.subscription, n.subscription)].flatMap
    fun (op, ot, nt) =>
      match ot, nt with
      | none, none => []
      | none, some b => [mk "RootTypeAdded" [("operation", op), ("type_name", b)]]
      | some a, none => [mk "RootTypeRemoved" [("operation", op), ("type_name", a)]]
      | some a, some b =>
        if a != b then [mk "RootTypeChanged" [("new_type_name", b), ("old_type_name", a), ("operation", op)]] else []

def findRemovedTypes (o n : SchemaD) : List Change :=
  (o.types.filter fun t => (n.findType t.name).isNone).map fun t => mk "TypeRemoved" [("type_name", t.name)]

def findAddedTypes (o n : SchemaD) : List Change :=
  (n.types.filter fun t => (o.findType t.name).isNone).map fun t => mk "TypeAdded" [("type_name", t.name)]

def findChangedTypes (o n : SchemaD) : List Change :=
  o.types.filterMap fun t =>
    match n.findType t.name with
    | some t' => if t.kind != t'.kind then
        some (mk "TypeChangedKind" [("new_kind_name", kindName t'.kind), ("old_kind_name", kindName t.kind), ("type_name", t.name)])
      else none
    | none => none

/-- `_iterate_matching_pairs` for one kind -/
def matchingPairs (o n : SchemaD) (k : Kind) : List (TypeD × TypeD) :=
  (o.types.filter (·.kind == k)).filterMap fun t =>
    match (n.types.filter (·.kind == k)).find? (·.name == t.name) with
    | some t' => some (t, t')
    | none => none

def diffUnionTypes (o n : SchemaD) : List Change :=
  (matchingPairs o n .union).flatMap fun (ou, nu) =>
    ((ou.members.filter fun m => !nu.members.contains m).map fun m =>
        mk "TypeRemovedFromUnion" [("type_name", m), ("union", ou.name)])
    ++ ((nu.members.filter fun m => !ou.members.contains m).map fun m =>
        mk "TypeAddedToUnion" [("type_name", m), ("union", nu.name)])

def diffEnumTypes (o n : SchemaD) : List Change :=
  (matchingPairs o n .enum).flatMap fun (oe, ne) =>
    (oe.values.filterMap fun ov =>
      match ne.values.find? (·.name == ov.name) with
      | none => some (mk "EnumValueRemoved" [("enum", oe.name), ("value", ov.name)])
      | some nv =>
        let k := [("enum", oe.name), ("new_value", nv.name), ("old_value", ov.name)]
        match ov.deprecated, nv.deprecated with
        | some _, none => some (mk "EnumValueDeprecationRemoved" k)
        | some r, some r' => if r != r' then some (mk "EnumValueDeprecationReasonChanged" k) else none
        | none, some _ => some (mk "EnumValueDeprecated" k)
        | none, none => none)
    ++ ((ne.values.filter fun nv => (oe.values.find? (·.name == nv.name)).isNone).map fun nv =>
        mk "EnumValueAdded" [("enum", ne.name), ("value", nv.name)])

/-- the argument / input field BECOMES required (its default value was removed from a non-null type): the
    `required` flag of the three `*DefaultValueChange` classes (`_default_change_severity`) -/
def becameRequired (oa na : ArgD) : Bool := ArgD.required na && !ArgD.required oa

/-- the default-value comparison shared by arguments and input fields -/
def defaultChanged (oa na : ArgD) : Bool :=
  (oa.hasDefault && !na.hasDefault) || (!oa.hasDefault && na.hasDefault)
    || (oa.hasDefault && oa.default.render != na.default.render)

/-- `_compatible(change)`: a retyping the differ considers safe for clients (`Int!` -> `Int` on an input
    position, `Int` -> `Int!` on an output position) is reported nonetheless, with the severity the helper
    sets (`compatibleRetypeSeverity`, re-extracted; `none`: the source has no such helper and reports nothing).
    `str(old.type) != str(new.type)` is `ot != nt` here (`Ty.render` is injective). -/
def compatRetype (cls : String) (key : List (String × String)) (ot nt : Ty) : List Change :=
  match PyGql.Generated.Differ.compatibleRetypeSeverity with
  | some s => if ot != nt then [{ cls := cls, key := key, severity := s }] else []
  | none => []

/-- the compatible retypings of the arguments / input fields matched by name -/
def compatRetypes (cls : String) (key : ArgD → ArgD → List (String × String)) (olds news : List ArgD) : List Change :=
  olds.flatMap fun oa =>
    match news.find? (·.name == oa.name) with
    | none => []
    | some na => if safeIn oa.type na.type then compatRetype cls (key oa na) oa.type na.type else []

def diffDirectiveArguments (od nd : DirectiveD) : List Change :=
  (od.args.filterMap fun oa =>
    match nd.args.find? (·.name == oa.name) with
    | none => some (mk "DirectiveArgumentRemoved" [("argument", oa.name), ("directive", od.name)])
    | some na =>
      let k := [("directive", od.name), ("new_argument", na.name), ("old_argument", oa.name)]
      if !safeIn oa.type na.type then some (mk "DirectiveArgumentChangedType" k)
      else if defaultChanged oa na then some (mk "DirectiveArgumentDefaultValueChange" k (becameRequired oa na))
      else none)
  ++ ((nd.args.filter fun na => (od.args.find? (·.name == na.name)).isNone).map fun na =>
      mk "DirectiveArgumentAdded" [("argument", na.name), ("directive", nd.name)] (ArgD.required na))
  ++ compatRetypes "DirectiveArgumentChangedType"
      (fun oa na => [("directive", od.name), ("new_argument", na.name), ("old_argument", oa.name)]) od.args nd.args

def diffDirectives (o n : SchemaD) : List Change :=
  (o.directives.flatMap fun od =>
    match n.directives.find? (·.name == od.name) with
    | none => [mk "DirectiveRemoved" [("directive", od.name)]]
    | some nd =>
      ((od.locations.filter fun l => !nd.locations.contains l).map fun l =>
          mk "DirectiveLocationRemoved" [("directive", od.name), ("location", l)])
      ++ ((nd.locations.filter fun l => !od.locations.contains l).map fun l =>
          mk "DirectiveLocationAdded" [("directive", od.name), ("location", l)])
      ++ diffDirectiveArguments od nd)
  ++ ((n.directives.filter fun nd => (o.directives.find? (·.name == nd.name)).isNone).map fun nd =>
      mk "DirectiveAdded" [("directive", nd.name)])

def diffFieldArguments (parent : String) (of nf : FieldD) : List Change :=
  (of.args.filterMap fun oa =>
    match nf.args.find? (·.name == oa.name) with
    | none => some (mk "FieldArgumentRemoved" [("argument", oa.name), ("field", of.name), ("type", parent)])
    | some na =>
      let k := [("field", of.name), ("new_argument", na.name), ("old_argument", oa.name), ("type", parent)]
      if !safeIn oa.type na.type then some (mk "FieldArgumentChangedType" k)
      else if defaultChanged oa na then some (mk "FieldArgumentDefaultValueChange" k (becameRequired oa na))
      else none)
  ++ ((nf.args.filter fun na => (of.args.find? (·.name == na.name)).isNone).map fun na =>
      mk "FieldArgumentAdded" [("argument", na.name), ("field", nf.name), ("type", parent)] (ArgD.required na))
  ++ compatRetypes "FieldArgumentChangedType"
      (fun oa na => [("field", of.name), ("new_argument", na.name), ("old_argument", oa.name), ("type", parent)]) of.args nf.args

def diffField (parent : String) (of nf : FieldD) : List Change :=
  let k := [("new_field", nf.name), ("old_field", of.name), ("type", parent)]
  (if !safeOut of.type nf.type then [mk "FieldChangedType" k] else compatRetype "FieldChangedType" k of.type nf.type)
  ++ diffFieldArguments parent of nf
  ++ (match of.deprecated, nf.deprecated with
      | some _, none => [mk "FieldDeprecationRemoved" k]
      | some r, some r' => if r != r' then [mk "FieldDeprecationReasonChanged" k] else []
      | none, some _ => [mk "FieldDeprecated" k]
      | none, none => [])

def diffFields (ot nt : TypeD) : List Change :=
  (ot.fields.flatMap fun of =>
    match nt.fields.find? (·.name == of.name) with
    | none => [mk "FieldRemoved" [("field", of.name), ("type", ot.name)]]
    | some nf => diffField ot.name of nf)
  ++ ((nt.fields.filter fun nf => (ot.fields.find? (·.name == nf.name)).isNone).map fun nf =>
      mk "FieldAdded" [("field", nf.name), ("type", nt.name)])

def diffObjectTypes (o n : SchemaD) : List Change :=
  (matchingPairs o n .object).flatMap fun (ot, nt) =>
    diffFields ot nt
    ++ ((ot.interfaces.filter fun i => !nt.interfaces.contains i).map fun i =>
        mk "TypeRemovedFromInterface" [("interface", i), ("type", ot.name)])
    ++ ((nt.interfaces.filter fun i => !ot.interfaces.contains i).map fun i =>
        mk "TypeAddedToInterface" [("interface", i), ("type", ot.name)])

def diffInterfaceTypes (o n : SchemaD) : List Change :=
  (matchingPairs o n .interface).flatMap fun (ot, nt) => diffFields ot nt

def diffInputTypes (o n : SchemaD) : List Change :=
  (matchingPairs o n .input).flatMap fun (ot, nt) =>
    (ot.inputFields.filterMap fun of =>
      match nt.inputFields.find? (·.name == of.name) with
      | none => some (mk "InputFieldRemoved" [("field", of.name), ("type", ot.name)])
      | some nf =>
        let k := [("new_field", nf.name), ("old_field", of.name), ("type", ot.name)]
        if !safeIn of.type nf.type then some (mk "InputFieldChangedType" k)
        else if defaultChanged of nf then some (mk "InputFieldDefaultValueChange" k (becameRequired of nf))
        else none)
    ++ ((nt.inputFields.filter fun nf => (ot.inputFields.find? (·.name == nf.name)).isNone).map fun nf =>
        mk "InputFieldAdded" [("field", nf.name), ("type", nt.name)] (ArgD.required nf))
    ++ compatRetypes "InputFieldChangedType"
        (fun of nf => [("new_field", nf.name), ("old_field", of.name), ("type", ot.name)]) ot.inputFields nt.inputFields

/-- `diff_schema(old, new, min_severity)` -/
def diffSchema (o n : SchemaD) (minSeverity : Nat := 0) : List Change :=
  (diffRootTypes o n ++ findRemovedTypes o n ++ findAddedTypes o n ++ diffDirectives o n ++ findChangedTypes o n
    ++ diffUnionTypes o n ++ diffEnumTypes o n ++ diffObjectTypes o n ++ diffInterfaceTypes o n
    ++ diffInputTypes o n).filter (fun c => c.severity ≥ minSeverity)

end PyGql.Diff

/-
  MODEL of `py_gql/lang/printer.py`: `ASTPrinter` (`__init__`, `__call__`, every `print_*`, `_selection_set`,
  `_with_desc`) and the layout helpers `_wrap`, `_join`, `_indent`, `_block` — function by function, names kept
  (`print_variable_definition` → `printVariableDefinition`).  The string encoders (`print_string_value`,
  `_block_string`, `_indent`, `json.dumps`) are `PrintString.lean` (string part of C03) and are used unchanged.

  Text is `List Nat` (code points).  The printer is parameterised by a configuration `Cfg` = the two attributes
  `self.indent` (already a string) and `self.include_descriptions`; `mkCfg` mirrors `ASTPrinter.__init__`
  (`indent` may be an int = number of spaces, or the indent string itself).

  Modelled as FIXED (proposed_fixes/C03-R5.patch, C03-R6.patch):
    R5 `_with_desc` prints a non-block description with `json.dumps` (in the form it was written);
    R6 `print_document` keeps the keyword `query` of a shorthand query when the previous definition's text does not
       end with `}` (`type A` followed by `{ a: b }` would otherwise be read back as `type A { a: b }`).
  Modelled as it is (finding R4, pinned by the suite): the descriptions of field / argument / input-field / enum-value
  definitions are NOT printed.
  Import-free apart from Token, Ast, PrintString, and Parse (keyword texts `K.*` only).
-/
import PyGqlModel.Ast
import PyGqlModel.PrintString
import PyGqlModel.Parse
namespace PyGql.Print
open PyGql PyGql.Ast PyGql.PrintString PyGql.Parse

/-- the two attributes of an `ASTPrinter` -/
structure Cfg where
  indent : Text
  includeDescriptions : Bool := true
  deriving Repr, DecidableEq, Inhabited

/-- the `indent` argument of `ASTPrinter.__init__`: an int or a string -/
inductive IndentArg where
  | width (n : Int)
  | str (s : Text)
  deriving Repr, DecidableEq

/-- `ASTPrinter.__init__`: `indent * " "` for an int (empty for a negative one), the string itself otherwise -/
def mkCfg (indent : IndentArg := .width 4) (includeDescriptions : Bool := true) : Cfg :=
  { indent := match indent with
      | .width n => List.replicate n.toNat 32
      | .str s => s,
    includeDescriptions := includeDescriptions }

/-- a Python string literal as code points -/
def lit (s : String) : Text := textOfString s

/-! ### layout helpers -/

/-- `_wrap(start, maybe_string, end)` -/
def wrap (start maybeString : Text) (end_ : Text := []) : Text :=
  if maybeString.isEmpty then [] else start ++ maybeString ++ end_

/-- `separator.join(entries)` -/
def joinSep (sep : Text) : List Text → Text
  | [] => []
  | [x] => x
  | x :: xs => x ++ sep ++ joinSep sep xs

/-- `_join(entries, separator)`: empty entries are dropped -/
def join (entries : List Text) (sep : Text := []) : Text :=
  joinSep sep (entries.filter fun x => !x.isEmpty)

/-- `_block(iterator, indent)` -/
def block (arr : List Text) (indent : Text) : Text :=
  if arr.isEmpty then []
  else [123, 10] ++ join (arr.map fun s => indentText s indent) [10] ++ [10, 125]

/-! ### names, variables, types -/

/-- `print_name` -/
def printName (n : Name) : Text := n.value
/-- `print_variable` -/
def printVariable (v : Variable) : Text := 36 :: v.name.value
/-- `print_named_type` -/
def printNamedType (t : NamedType) : Text := t.name.value

/-- `print_named_type`, `print_list_type`, `print_non_null_type` -/
def printType : TypeRef → Text
  | .named t => printNamedType t
  | .list t _ => 91 :: (printType t ++ [93])
  | .nonNull t _ => printType t ++ [33]

/-! ### values -/

mutual
/-- `print_variable`, `print_int_value`, …, `print_list_value`, `print_object_value` -/
def printValue (c : Cfg) : Value → Text
  | .var v => printVariable v
  | .int v _ => v
  | .float v _ => v
  | .string s => printStringValue s.value s.block c.indent
  | .boolean b _ => if b then K.true_ else K.false_      -- `str(node.value).lower()`
  | .null _ => K.null_
  | .enum v _ => v
  | .list vs _ => 91 :: (join (printValues c vs) [44, 32] ++ [93])
  | .object fs _ => 123 :: (join (printObjectFields c fs) [44, 32] ++ [125])
def printValues (c : Cfg) : List Value → List Text
  | [] => []
  | v :: vs => printValue c v :: printValues c vs
/-- `print_object_field` -/
def printObjectField (c : Cfg) : ObjectField → Text
  | .mk name value _ => name.value ++ [58, 32] ++ printValue c value
def printObjectFields (c : Cfg) : List ObjectField → List Text
  | [] => []
  | f :: fs => printObjectField c f :: printObjectFields c fs
end

/-- `self(node)` for an optional value (`self(None) = ""`) -/
def printOptValue (c : Cfg) : Option Value → Text
  | none => []
  | some v => printValue c v

/-! ### arguments, directives, variable definitions -/

/-- `print_argument` -/
def printArgument (c : Cfg) (a : Argument) : Text := a.name.value ++ [58, 32] ++ printValue c a.value
/-- `print_arguments` -/
def printArguments (c : Cfg) (as : List Argument) : Text :=
  wrap [40] (join (as.map (printArgument c)) [44, 32]) [41]
/-- `print_directive` -/
def printDirective (c : Cfg) (d : Directive) : Text := 64 :: (d.name.value ++ printArguments c d.arguments)
/-- `print_directives` -/
def printDirectives (c : Cfg) (ds : List Directive) : Text := join (ds.map (printDirective c)) [32]

/-- `print_variable_definition` -/
def printVariableDefinition (c : Cfg) (d : VariableDefinition) : Text :=
  join [printVariable d.var ++ [58, 32] ++ printType d.type ++ wrap [32, 61, 32] (printOptValue c d.defaultValue),
        printDirectives c d.directives] [32]
/-- `print_variable_definitions` -/
def printVariableDefinitions (c : Cfg) (ds : List VariableDefinition) : Text :=
  wrap [40] (join (ds.map (printVariableDefinition c)) [44, 32]) [41]

/-! ### selections -/

mutual
/-- `print_field`, `print_fragment_spread`, `print_inline_fragment` -/
def printSelection (c : Cfg) : Selection → Text
  | .field alias_ name args dirs ss _ =>
    let lead := match alias_ with
      | some a => join [wrap [] a.value [58, 32], name.value]
      | none => name.value
    join [join [lead, printArguments c args], printDirectives c dirs, printOptSelectionSet c ss] [32]
  | .fragmentSpread name dirs _ => [46, 46, 46] ++ name.value ++ wrap [32] (printDirectives c dirs)
  | .inlineFragment tc dirs ss _ =>
    join [[46, 46, 46],
          wrap [111, 110, 32] (match tc with | some t => printNamedType t | none => []),
          printDirectives c dirs, printSelectionSet c ss] [32]
/-- `print_selection_set` -/
def printSelectionSet (c : Cfg) : SelectionSet → Text
  | .mk sels _ => block (printSelections c sels) c.indent
/-- `_selection_set(node)` -/
def printOptSelectionSet (c : Cfg) : Option SelectionSet → Text
  | none => []
  | some ss => printSelectionSet c ss
def printSelections (c : Cfg) : List Selection → List Text
  | [] => []
  | s :: ss => printSelection c s :: printSelections c ss
end

/-! ### executable definitions -/

/-- `print_operation_definition` -/
def printOperationDefinition (c : Cfg) (d : OperationDefinition) : Text :=
  let op := d.operation
  let name := match d.name with | some n => n.value | none => []
  let varDefs := printVariableDefinitions c d.variableDefinitions
  let directives := printDirectives c d.directives
  let selectionSet := printSelectionSet c d.selectionSet
  let useShortForm := name.isEmpty && directives.isEmpty && varDefs.isEmpty && (op == K.query || op.isEmpty)
  if useShortForm then selectionSet
  else join [op, join [name, varDefs], directives, selectionSet] [32]

/-- `print_fragment_definition`: `"fragment %s%s on %s %s%s"` -/
def printFragmentDefinition (c : Cfg) (d : FragmentDefinition) : Text :=
  lit "fragment " ++ d.name.value ++ printVariableDefinitions c d.variableDefinitions ++ lit " on " ++
    printNamedType d.typeCondition ++ [32] ++ printDirectives c d.directives ++ printSelectionSet c d.selectionSet

/-! ### type-system definitions -/

/-- `_with_desc(formatted, desc)` (R5 fixed: a description is printed in the form it was written) -/
def withDesc (c : Cfg) (formatted : Text) (desc : Option StringValue) : Text :=
  match desc with
  | none => formatted
  | some d =>
    if !c.includeDescriptions then formatted
    else
      let descStr := if d.block then blockString d.value c.indent true else jsonDumps d.value
      join [descStr, formatted] [10]

/-- `print_operation_type_definition` -/
def printOperationTypeDefinition (d : OperationTypeDefinition) : Text :=
  d.operation ++ [58, 32] ++ printNamedType d.type

/-- `print_input_value_definition` (the description is not printed: finding R4) -/
def printInputValueDefinition (c : Cfg) (d : InputValueDefinition) : Text :=
  join [join [d.name.value, [58, 32], printType d.type],
        wrap [32, 61, 32] (printOptValue c d.defaultValue),
        wrap [32] (printDirectives c d.directives)]

/-- `print_argument_definitions` -/
def printArgumentDefinitions (c : Cfg) (as : List InputValueDefinition) : Text :=
  let args := as.map (printInputValueDefinition c)
  if !(args.any fun a => a.contains 10) then wrap [40] (join args [44, 32]) [41]
  else wrap [40, 10] (indentText (join args [10]) c.indent) [10, 41]

/-- `print_field_definition` (the description is not printed: finding R4) -/
def printFieldDefinition (c : Cfg) (d : FieldDefinition) : Text :=
  join [d.name.value, printArgumentDefinitions c d.arguments, [58, 32], printType d.type,
        wrap [32] (printDirectives c d.directives)]

/-- `print_enum_value_definition` (the description is not printed: finding R4) -/
def printEnumValueDefinition (c : Cfg) (d : EnumValueDefinition) : Text :=
  join [d.name.value, printDirectives c d.directives] [32]

/-- `_wrap("implements ", _join(map(self, node.interfaces), " & "))` -/
def printImplements (ifs : List NamedType) : Text :=
  wrap (lit "implements ") (join (ifs.map printNamedType) [32, 38, 32])
/-- `_wrap("= ", _join(map(self, node.types), " | "))` -/
def printUnionMembers (ts : List NamedType) : Text :=
  wrap [61, 32] (join (ts.map printNamedType) [32, 124, 32])

/-- every `print_*_definition` / `print_*_extension`, dispatched as `__call__` does -/
def printDefinition (c : Cfg) : Definition → Text
  | .operation d => printOperationDefinition c d
  | .fragment d => printFragmentDefinition c d
  | .schemaDefinition dirs ops _ =>
    join [lit "schema", printDirectives c dirs, block (ops.map printOperationTypeDefinition) c.indent] [32]
  | .schemaExtension dirs ops _ =>
    join [lit "extend schema", printDirectives c dirs, block (ops.map printOperationTypeDefinition) c.indent] [32]
  | .scalarTypeDefinition desc name dirs _ =>
    withDesc c (join [lit "scalar", name.value, printDirectives c dirs] [32]) desc
  | .scalarTypeExtension name dirs _ =>
    join [lit "extend scalar", name.value, printDirectives c dirs] [32]
  | .objectTypeDefinition desc name ifs dirs fields _ =>
    withDesc c (join [lit "type", name.value, printImplements ifs, printDirectives c dirs,
                      block (fields.map (printFieldDefinition c)) c.indent] [32]) desc
  | .objectTypeExtension name ifs dirs fields _ =>
    join [lit "extend type", name.value, printImplements ifs, printDirectives c dirs,
          block (fields.map (printFieldDefinition c)) c.indent] [32]
  | .interfaceTypeDefinition desc name dirs fields _ =>
    withDesc c (join [lit "interface", name.value, printDirectives c dirs,
                      block (fields.map (printFieldDefinition c)) c.indent] [32]) desc
  | .interfaceTypeExtension name dirs fields _ =>
    join [lit "extend interface", name.value, printDirectives c dirs,
          block (fields.map (printFieldDefinition c)) c.indent] [32]
  | .unionTypeDefinition desc name dirs types _ =>
    withDesc c (join [lit "union", name.value, printDirectives c dirs, printUnionMembers types] [32]) desc
  | .unionTypeExtension name dirs types _ =>
    join [lit "extend union", name.value, printDirectives c dirs, printUnionMembers types] [32]
  | .enumTypeDefinition desc name dirs values _ =>
    withDesc c (join [lit "enum", name.value, printDirectives c dirs,
                      block (values.map (printEnumValueDefinition c)) c.indent] [32]) desc
  | .enumTypeExtension name dirs values _ =>
    join [lit "extend enum", name.value, printDirectives c dirs,
          block (values.map (printEnumValueDefinition c)) c.indent] [32]
  | .inputObjectTypeDefinition desc name dirs fields _ =>
    withDesc c (join [lit "input", name.value, printDirectives c dirs,
                      block (fields.map (printInputValueDefinition c)) c.indent] [32]) desc
  | .inputObjectTypeExtension name dirs fields _ =>
    join [lit "extend input", name.value, printDirectives c dirs,
          block (fields.map (printInputValueDefinition c)) c.indent] [32]
  | .directiveDefinition desc name args locations _ =>
    withDesc c (join [lit "directive @", name.value, printArgumentDefinitions c args, lit " on ",
                      join (locations.map printName) [32, 124, 32]]) desc

/-! ### documents -/

/-- the loop of `print_document` (R6 fixed): `acc` = the entries so far, in reverse -/
def documentEntries (c : Cfg) : List Text → List Definition → List Text
  | acc, [] => acc.reverse
  | acc, d :: ds =>
    let entry := printDefinition c d
    let entry :=
      match acc with
      | prev :: _ => if entry.head? == some 123 && !(prev.getLast? == some 125) then lit "query " ++ entry else entry
      | [] => entry
    documentEntries c (if entry.isEmpty then acc else entry :: acc) ds

/-- `print_document` -/
def printDocument (c : Cfg) (d : Document) : Text :=
  join (documentEntries c [] d.definitions) [10, 10] ++ [10]

end PyGql.Print

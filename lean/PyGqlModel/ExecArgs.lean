/-
  C04 ∘ C07 — argument coercion INSIDE the executor model: `resolve_field` calls
  `self.argument_values(field_definition, node)` = `coerce_argument_values(definition, node, variables)` (C07's model,
  `PyGqlModel/Coerce.lean`) — memoised per (field definition, node), which is what the table "parent object type ↦
  coerced arguments" of a field node is. A `CoercionError` makes the entry `none`: `resolveField` then records a field
  error and returns null WITHOUT calling the resolver. Successful keyword arguments reach the resolver world as the
  canonical JSON text the harness computes from the real kwargs (`exec_common.canon_args`).
-/
import PyGqlModel.Exec
import PyGqlModel.Coerce

namespace PyGql.Exec
open PyGql PyGql.Coerce

/-! ### schema description → C07's registry of input types -/

mutual
/-- canonical JSON of a Python value (harness `canon_value`) → the value -/
def pvOfJ : J → PV
  | .null => .none
  | .bool b => .bool b
  | .num n => .int n
  | .str s => .str s
  | .arr a => .list (pvsOfJ a)
  | .obj kvs =>
    match kvs with
    | [("$float", .str s)] => .float (.text s)
    | _ => .dict (kvsOfJ kvs)
def pvsOfJ : List J → List PV
  | [] => []
  | x :: xs => pvOfJ x :: pvsOfJ xs
def kvsOfJ : List (String × J) → List (String × PV)
  | [] => []
  | (k, v) :: r => (k, pvOfJ v) :: kvsOfJ r
end

/-- `Argument` / `InputField` of a schema built from SDL (`python_name` = name) -/
def inFieldOfArg (a : ArgD) : InField :=
  { name := a.name, pyName := a.name, type := a.type, default := if a.hasDefault then some (pvOfJ a.default) else none }

def namedOfType (t : TypeD) : Option NamedT :=
  match t.kind with
  | .scalar => some .custom
  | .enum => some (.enum (t.values.map fun v => (v.name, pvOfJ v.value)))
  | .input => some (.input (t.inputFields.map inFieldOfArg))
  | _ => none

def regOfSchema (s : SchemaD) : Reg :=
  { types := [("Int", .int), ("Float", .float), ("String", .string), ("Boolean", .boolean), ("ID", .id)] ++
      s.types.filterMap fun t => (namedOfType t).map fun k => (t.name, k),
    -- custom scalars of SDL-built schemas have no parser of their own: `ScalarType` falls back to `default_scalar`
    customParse := defaultScalarParse, customParseLiteral := defaultScalarParseLiteral,
    -- `default_scalar` brings its own `parse_literal` (`_untyped_literal`): every literal kind is handed to it
    customHasParseLiteral := fun _ => true }

/-! ### canonical text of the keyword arguments (what the resolver world hashes) -/

def fltRepr : Flt → String
  | .text s => s
  | .ofInt n => toString n ++ ".0"
  | .ofBool b => if b then "1.0" else "0.0"

def insertKV (kv : String × J) : List (String × J) → List (String × J)
  | [] => [kv]
  | x :: xs => if kv.1 < x.1 then kv :: x :: xs else x :: insertKV kv xs

def sortKVs : List (String × J) → List (String × J)
  | [] => []
  | x :: xs => insertKV x (sortKVs xs)

mutual
def pvToJ : PV → J
  | .none => .null
  | .bool b => .bool b
  | .int n => .num n
  | .float f => .obj [("$float", .str (fltRepr f))]
  | .str s => .str s
  | .list l => .arr (pvsToJ l)
  | .dict kvs => .obj (sortKVs (kvsToJ kvs))
def pvsToJ : List PV → List J
  | [] => []
  | x :: xs => pvToJ x :: pvsToJ xs
def kvsToJ : List (String × PV) → List (String × J)
  | [] => []
  | (k, v) :: r => (k, pvToJ v) :: kvsToJ r
end

/-- `json.dumps(canon_value(kwargs), sort_keys=True, separators=(",", ":"))` -/
def renderArgs (kwargs : List (String × PV)) : String := (pvToJ (.dict (dictOfAssignments kwargs))).render

/-! ### the table of a field node -/

structure ArgEnv where
  reg : Reg
  fuel : Nat
  vars : List (String × PV)      -- coerced variable values

/-- `ResolutionContext.argument_values(field_definition, node)`; `none` = `CoercionError` -/
def argsEntry (e : ArgEnv) (defs : List InField) (nodes : List (String × Lit)) : Option String :=
  match coerceArgumentValues e.reg e.fuel e.vars nodes defs with
  | .ok kwargs => some (renderArgs kwargs)
  | .error _ => none

/-- one entry per object type that defines the field -/
def argsTable (s : SchemaD) (e : ArgEnv) (fieldName : String) (nodes : List (String × Lit)) : List (String × Option String) :=
  s.types.filterMap fun t =>
    if t.kind == .object then
      (t.fields.find? (·.name == fieldName)).map fun f => (t.name, argsEntry e (f.args.map inFieldOfArg) nodes)
    else none

end PyGql.Exec

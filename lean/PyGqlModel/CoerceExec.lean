/-
  C07 — the ORDER in which the executor coerces and calls (trace model).

    src/py_gql/execution/execute.py            execute: `coerce_variable_values(...)` runs BEFORE the executor object exists;
                                               a `VariablesCoercionError` aborts the request: no field is resolved.
    src/py_gql/execution/blocking_executor.py  resolve_field:  `coerced_args = self.argument_values(field_definition, node)`
                                               precedes `resolver(parent, ctx, info, **coerced_args)` inside one `try`;
                                               `except (CoercionError, ResolverError)`: add_error, `return None` — NO call.
    src/py_gql/execution/wrappers.py           ResolutionContext.argument_values: `coerce_argument_values`, cached per
                                               (field definition, node).

  One operation = variable definitions + a list of top-level field selections (response key, argument definitions of the
  field's definition, argument nodes). The trace lists what an observer with recording resolvers sees, in order.
-/
import PyGqlModel.Coerce

namespace PyGql.Coerce

structure FieldSel where
  key : String                       -- response key (alias)
  defs : List InField                -- argument definitions of the resolved field definition
  args : List (String × Lit)         -- argument nodes of the selection
  deriving Repr, Inhabited

inductive Ev where
  | call (key : String) (kwargs : List (String × PV))   -- the resolver of this selection ran with these keyword arguments
  | fieldError (key : String)                           -- CoercionError caught in resolve_field: error added, value null, no call
  | requestError                                        -- VariablesCoercionError: the whole request is refused before execution
  | crash                                               -- an undocumented exception escaped (RecursionError, OverflowError, TypeError)
  deriving Repr, Inhabited

def Ev.isCall : Ev → Bool
  | .call _ _ => true
  | _ => false

def Ev.isCrash : Ev → Bool
  | .crash => true
  | _ => false

/-- `resolve_field`, up to and including the resolver call -/
def resolveField (reg : Reg) (fuel : Nat) (env : List (String × PV)) (sel : FieldSel) : Ev :=
  match coerceArgumentValues reg fuel env sel.args sel.defs with
  | .ok kw => .call sel.key (dictOfAssignments kw)      -- `coerced_values[target_name] = …` builds a dict
  | .error .coercion => .fieldError sel.key
  | .error _ => .crash

/-- `execute_fields` over the top-level selections, in document order; an escaping exception ends the execution -/
def resolveFields (reg : Reg) (fuel : Nat) (env : List (String × PV)) : List FieldSel → List Ev
  | [] => []
  | sel :: rest =>
    if (resolveField reg fuel env sel).isCrash then [.crash]
    else resolveField reg fuel env sel :: resolveFields reg fuel env rest

/-- `execute` -/
def executeOp (reg : Reg) (fuel : Nat) (defs : List VarDef) (variables : List (String × JV)) (sels : List FieldSel) : List Ev :=
  match coerceVariableValues reg fuel variables defs with
  | .ok env => resolveFields reg fuel env sels
  | .error .coercion => [.requestError]
  | .error _ => [.crash]

end PyGql.Coerce

/-! ### the whole response tree: nested selections, lists of objects, abstract types

  `execute_fields` → `resolve_field` → `complete_value` → (`complete_list_value`) → `execute_fields` on the RUNTIME type.
  Field collection (fragments, @skip/@include, merging) is C04's subject: a selection here is an already collected
  response key with its field node's arguments and its merged sub-selections. For an abstract return type the SAME
  node is resolved against the definition that the runtime object type gives to the field (`ResolutionContext.
  argument_values` caches per (field definition, node)): `ArgTable` is indexed by (object type, field name).
-/

namespace PyGql.Coerce

inductive Seg where
  | key (k : String)
  | idx (i : Nat)
  deriving Repr, DecidableEq, Inhabited

abbrev RPath := List Seg

inductive SelT where
  | mk (key field : String) (args : List (String × Lit)) (sub : List SelT)
  deriving Repr, Inhabited

def SelT.key : SelT → String | .mk k _ _ _ => k
def SelT.field : SelT → String | .mk _ f _ _ => f
def SelT.args : SelT → List (String × Lit) | .mk _ _ a _ => a
def SelT.sub : SelT → List SelT | .mk _ _ _ s => s

/-- what a resolver returned, as far as the executor's recursion depends on it -/
inductive RVal where
  | null
  | leaf
  | obj (ty : String)                       -- an object whose runtime type (`resolve_type` / the declared object type) is `ty`
  | objs (items : List (Option String))     -- a list of objects (runtime types) and nulls
  | raised                                  -- the resolver raised `ResolverError`
  deriving Repr, Inhabited

inductive TEv where
  | call (path : RPath) (ty field : String) (kwargs : List (String × PV))
  | fieldError (path : RPath)               -- CoercionError / ResolverError caught by `resolve_field`: add_error, value None
  | requestError
  | crash
  deriving Repr, Inhabited

def TEv.isCrash : TEv → Bool
  | .crash => true
  | _ => false

/-- object type ↦ field name ↦ argument definitions (`none`: the type has no such field: `continue`) -/
abbrev ArgTable := String → String → Option (List InField)

/-- resolvers: (parent object type, field, response path, keyword arguments) ↦ what they return -/
abbrev TWorld := String → String → RPath → List (String × PV) → RVal

/-- sequential composition: an exception that escaped ends the execution -/
def andThen (a b : List TEv) : List TEv := if a.any TEv.isCrash then a else a ++ b

/-- `complete_list_value`: items in order, path extended by the index -/
def completeItems (execSub : String → RPath → List SelT → List TEv) (sub : List SelT) (p : RPath) :
    Nat → List (Option String) → List TEv
  | _, [] => []
  | i, none :: rest => completeItems execSub sub p (i + 1) rest
  | i, some ty :: rest => andThen (execSub ty (p ++ [.idx i]) sub) (completeItems execSub sub p (i + 1) rest)

/-- `complete_value` -/
def completeT (execSub : String → RPath → List SelT → List TEv) (sub : List SelT) (p : RPath) : RVal → List TEv
  | .obj ty => execSub ty p sub
  | .objs items => completeItems execSub sub p 0 items
  | _ => []

/-- `resolve_field` + completion of what the resolver returned -/
def execFieldT (reg : Reg) (fuelC : Nat) (env : List (String × PV)) (tbl : ArgTable) (w : TWorld)
    (execSub : String → RPath → List SelT → List TEv) (ty : String) (path : RPath) (sel : SelT) : List TEv :=
  match tbl ty sel.field with
  | none => []
  | some defs =>
    match coerceArgumentValues reg fuelC env sel.args defs with
    | .error .coercion => [.fieldError (path ++ [.key sel.key])]
    | .error _ => [.crash]
    | .ok kw =>
      match w ty sel.field (path ++ [.key sel.key]) (dictOfAssignments kw) with
      | .raised => [.call (path ++ [.key sel.key]) ty sel.field (dictOfAssignments kw), .fieldError (path ++ [.key sel.key])]
      | v => .call (path ++ [.key sel.key]) ty sel.field (dictOfAssignments kw) :: completeT execSub sel.sub (path ++ [.key sel.key]) v

/-- `execute_fields`: the response keys in order -/
def execSelsT (reg : Reg) (fuelC : Nat) (env : List (String × PV)) (tbl : ArgTable) (w : TWorld)
    (execSub : String → RPath → List SelT → List TEv) (ty : String) (path : RPath) : List SelT → List TEv
  | [] => []
  | sel :: rest => andThen (execFieldT reg fuelC env tbl w execSub ty path sel) (execSelsT reg fuelC env tbl w execSub ty path rest)

/-- the executor on a selection forest (fuel = nesting budget; exhausted = RecursionError escapes) -/
def execTree (reg : Reg) (fuelC : Nat) (env : List (String × PV)) (tbl : ArgTable) (w : TWorld) :
    Nat → String → RPath → List SelT → List TEv
  | 0, _, _, _ => [.crash]
  | n + 1, ty, path, sels => execSelsT reg fuelC env tbl w (execTree reg fuelC env tbl w n) ty path sels

/-- `execute`: variables first, then the root selection set -/
def executeTree (reg : Reg) (fuelC fuel : Nat) (defs : List VarDef) (variables : List (String × JV)) (tbl : ArgTable) (w : TWorld)
    (root : String) (sels : List SelT) : List TEv :=
  match coerceVariableValues reg fuelC variables defs with
  | .ok env => execTree reg fuelC env tbl w fuel root [] sels
  | .error .coercion => [.requestError]
  | .error _ => [.crash]

/-- `sel` occurs somewhere in the forest -/
inductive InTree : SelT → List SelT → Prop
  | here {sel : SelT} {l : List SelT} : sel ∈ l → InTree sel l
  | deeper {sel s : SelT} {l : List SelT} : s ∈ l → InTree sel s.sub → InTree sel l

end PyGql.Coerce

/-
  C07 — the ORDER in which the executor coerces and calls (trace model).

    src/py_gql/execution/execute.py            execute: `coerce_variable_values(...)` runs BEFORE the executor object exists;
                                               a `VariablesCoercionError` aborts the request: no field is resolved.
    src/py_gql/execution/blocking_executor.py  resolve_field:  `coerced_args = self.argument_values(field_definition, node)`
                                               precedes `resolver(parent, ctx, info, **coerced_args)` inside one `try`;
                                               `except (CoercionError, ResolverError)`: add_error, `return None` — NO call.
    src/py_gql/execution/wrappers.py           ResolutionContext.argument_values: `coerce_argument_values`, cached per
                                               (field definition, node).

  One operation = variable definitions + a list of top-level field selections (response key, argument definitions of the
  field's definition, argument nodes). The trace lists what an observer with recording resolvers sees, in order.
-/
import PyGqlModel.Coerce

namespace PyGql.Coerce

structure FieldSel where
  key : String                       -- response key (alias)
  defs : List InField                -- argument definitions of the resolved field definition
  args : List (String × Lit)         -- argument nodes of the selection
  deriving Repr, Inhabited

inductive Ev where
  | call (key : String) (kwargs : List (String × PV))   -- the resolver of this selection ran with these keyword arguments
  | fieldError (key : String)                           -- CoercionError caught in resolve_field: error added, value null, no call
  | requestError                                        -- VariablesCoercionError: the whole request is refused before execution
  | crash                                               -- an undocumented exception escaped (RecursionError, OverflowError, TypeError)
  deriving Repr, Inhabited

def Ev.isCall : Ev → Bool
  | .call _ _ => true
  | _ => false

def Ev.isCrash : Ev → Bool
  | .crash => true
  | _ => false

/-- `resolve_field`, up to and including the resolver call -/
def resolveField (reg : Reg) (fuel : Nat) (env : List (String × PV)) (sel : FieldSel) : Ev :=
  match coerceArgumentValues reg fuel env sel.args sel.defs with
  | .ok kw => .call sel.key (dictOfAssignments kw)      -- `coerced_values[target_name] = …` builds a dict
  | .error .coercion => .fieldError sel.key
  | .error _ => .crash

/-- `execute_fields` over the top-level selections, in document order; an escaping exception ends the execution -/
def resolveFields (reg : Reg) (fuel : Nat) (env : List (String × PV)) : List FieldSel → List Ev
  | [] => []
  | sel :: rest =>
    if (resolveField reg fuel env sel).isCrash then [.crash]
    else resolveField reg fuel env sel :: resolveFields reg fuel env rest

/-- `execute` -/
def executeOp (reg : Reg) (fuel : Nat) (defs : List VarDef) (variables : List (String × JV)) (sels : List FieldSel) : List Ev :=
  match coerceVariableValues reg fuel variables defs with
  | .ok env => resolveFields reg fuel env sels
  | .error .coercion => [.requestError]
  | .error _ => [.crash]

end PyGql.Coerce

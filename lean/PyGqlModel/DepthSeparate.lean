/-
  C19 — MODEL of `_skip_unless_unknown` after proposed_fixes/C19-H4.patch (utilities/max_depth.py): `@skip` and `@include`
  are evaluated ON THEIR OWN, each inside its own `try … except CoercionError: pass`; the selection is excluded as soon as
  one of them is KNOWN to exclude it, an unevaluable one decides nothing:

      try:    skip = directive_arguments(SkipDirective, node, variables=variables)
              if skip is not None and skip["if"]: return True
      except CoercionError: pass
      try:    include = directive_arguments(IncludeDirective, node, variables=variables)
              if include is not None and not include["if"]: return True
      except CoercionError: pass
      return False

  (today's hook wraps BOTH evaluations in one `try`: `@skip(if: true) @include(if: $unknown)` is KEPT — `skipSelectionT`.)
  The rules below are `ruleF` / `ruleM` with this hook. Import-free.
-/
import PyGqlModel.DepthFrontier
import PyGqlModel.DepthMerged

namespace PyGql.Depth

/-- the directive was evaluated and its `if` is true -/
def knownTrue : Except Err (Option Bool) → Bool
  | .ok (some true) => true
  | _ => false

/-- the directive was evaluated and its `if` is false -/
def knownFalse : Except Err (Option Bool) → Bool
  | .ok (some false) => true
  | _ => false

/-- `_skip_unless_unknown(node, variables)` after C19-H4 -/
def skipSelectionT3 (d : Dirs) (vars : Vars) : Except Err Bool :=
  .ok (knownTrue (evalOpt vars d.skip) || knownFalse (evalOpt vars d.incl))

def depthFixedFB3 (budget : Nat) (op : Op) (frags : List Frag) (vars : Vars) : Except Err (Option Nat) :=
  match depthFixedFG skipSelectionT3 budget op frags vars with
  | .ok d => .ok (some d)
  | .error .recursion => .ok none
  | .error e => .error e

/-- the rule of today's tree (frontier loop) with the hook of C19-H4 -/
def ruleF3 (limit : Nat) (filter : Option String) (doc : Doc) (defs : List (List VarDefR)) (raw : RawVars) :
    Except Err (List (Nat × Option Nat)) :=
  ruleLoopB (fun i op => depthFixedFB3 doc.budget op doc.frags (effectiveVarsR (defs.getD i []) raw))
    limit filter 0 doc.ops

def depthFixedMB3 (budget : Nat) (op : Op) (frags : List Frag) (vars : Vars) : Except Err (Option Nat) :=
  match depthFixedMG skipSelectionT3 budget op frags vars with
  | .ok d => .ok (some d)
  | .error .recursion => .ok none
  | .error e => .error e

/-- the rule with the level-merged loop (C19-H3) and the hook of C19-H4 -/
def ruleM3 (limit : Nat) (filter : Option String) (doc : Doc) (defs : List (List VarDefR)) (raw : RawVars) :
    Except Err (List (Nat × Option Nat)) :=
  ruleLoopB (fun i op => depthFixedMB3 doc.budget op doc.frags (effectiveVarsR (defs.getD i []) raw))
    limit filter 0 doc.ops

end PyGql.Depth

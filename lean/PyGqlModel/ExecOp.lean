/-
  C08 / C09 — the *simplified operation form* shared by the runtime algebra, the generic
  executor model and the blocking reference executor.

  An operation is a tree of response-keyed fields.  Every field instance carries
    * `mode`  — how its resolver delivers: synchronously, through a deferred task (a pool-submitted
                function / an awaited future), or through a deferred task whose result is again a
                deferred task (`nested`, exercises `unwrap_value`);
    * `out`   — what the resolver does: returns a value, raises `ResolverError`, raises an
                unexpected exception.
  A returned value is described together with the type it is completed at (`Comp`): `nonNull c`
  is the `NonNullType` wrapper around the completion of `c`, `null` is `None`, `leaf` a serialisable
  scalar, `bad` a value for which `complete_value` raises `RuntimeError` (not iterable / not
  serialisable), `list` an iterable of item values, `obj` an object whose sub-selection is `fields`.
-/
namespace PyGql.Exec

inductive Seg where
  | key (s : String)
  | idx (n : Nat)
  deriving DecidableEq, Repr, Inhabited

abbrev Path := List Seg

inductive Mode where
  | sync | deferred | nested
  deriving DecidableEq, Repr, Inhabited

/-- exception classes that matter: `ResolverError` (caught by `else_`), the resolver's unexpected
    exception, and the `RuntimeError` raised by `complete_value`. -/
inductive Exc where
  | resolver | boom | runtime
  deriving DecidableEq, Repr, Inhabited

mutual
inductive Comp where
  | null
  | leaf (v : Nat)
  | bad
  | nonNull (c : Comp)
  | list (items : Comps)
  | obj (fields : Flds)
inductive Comps where
  | nil
  | cons (c : Comp) (cs : Comps)
inductive Flds where
  | nil
  | cons (key : String) (mode : Mode) (out : ROut) (rest : Flds)
inductive ROut where
  | ok (c : Comp)
  | rerr
  | exc
end

instance : Inhabited Comp := ⟨.null⟩
instance : Inhabited Comps := ⟨.nil⟩
instance : Inhabited Flds := ⟨.nil⟩
instance : Inhabited ROut := ⟨.rerr⟩

/-- response data -/
inductive V where
  | null
  | leaf (n : Nat)
  | list (vs : List V)
  | obj (kvs : List (String × V))
  deriving Repr, Inhabited

def V.isNull : V → Bool
  | .null => true
  | _ => false

inductive ErrKind where
  | resolver | nonNull
  deriving DecidableEq, Repr

structure Err where
  path : Path
  kind : ErrKind
  deriving DecidableEq, Repr

/-- resolver events: `call` = the executor invokes the resolver (submission, for a deferred one),
    `done` = its result is available. -/
inductive Ev where
  | call (p : Path)
  | done (p : Path)
  deriving DecidableEq, Repr

/-- The part of the executor's state that callbacks touch. -/
structure ExecSt where
  next : Nat := 0               -- id of the next submitted task
  queue : List Nat := []        -- outstanding tasks, submission order
  errors : List Err := []       -- `ResolutionContext._errors`
  trace : List Ev := []
  deriving Repr

def ExecSt.emit (s : ExecSt) (e : Ev) : ExecSt := { s with trace := s.trace ++ [e] }
def ExecSt.addError (s : ExecSt) (p : Path) (k : ErrKind) : ExecSt := { s with errors := s.errors ++ [⟨p, k⟩] }
/-- `submit`: a new outstanding task -/
def ExecSt.submit (s : ExecSt) : Nat × ExecSt := (s.next, { s with next := s.next + 1, queue := s.queue ++ [s.next] })

def Flds.keys : Flds → List String
  | .nil => []
  | .cons k _ _ r => k :: r.keys

def Flds.length : Flds → Nat
  | .nil => 0
  | .cons _ _ _ r => r.length + 1

end PyGql.Exec

/-
  C08 / C09 — the *simplified operation form* shared by the runtime algebra, the generic
  executor model and the blocking reference executor.

  An operation is a tree of response-keyed fields.  Every field instance carries
    * `mode`  — how its resolver delivers: synchronously, through a deferred task (a pool-submitted
                function / an awaited future), or through a deferred task whose result is again a
                deferred task (`nested`, exercises `unwrap_value`), or through a Future that is ALREADY
                finished when the executor receives it (`ready`: the pool ran the task at once);
    * `out`   — what the resolver does: returns a value, raises `ResolverError`, raises an
                unexpected exception.
  A ResolverError raised while the returned value is COMPLETED (a custom scalar's `serialize`, an abstract
  type's `resolve_type`, a lazy iterable raising while the list is completed) is caught by the same handler
  (`else_=(ResolverError, fail)` around `complete` in `Executor.resolve_field`; `except ResolverError` around
  `complete_value` in `BlockingExecutor.resolve_field` since /repo 7b8e151) and has the same effect as the resolver
  itself raising it: `done`, then the field is null with one error at the field's path. When nothing else happened
  before the raise (no sub-field resolver invoked, no non-null violation recorded) it is therefore THE SAME EVENT in
  this form — `ROut.rerr` — and `async_eq_blocking`, `failure_does_not_stop`, `serial_order` cover it as such
  (harness: `to_model` maps it to `rerr`). A completion that raises AFTER sub-resolvers of the same field were
  started is outside this form (known finding E1: the generic executor abandons them in flight).
  A returned value is described together with the type it is completed at (`Comp`): `nonNull c`
  is the `NonNullType` wrapper around the completion of `c`, `null` is `None`, `leaf` a serialisable
  scalar, `bad` a value for which `complete_value` raises `RuntimeError` (not iterable / not
  serialisable), `list` an iterable of item values, `obj` an object whose sub-selection is `fields`.
-/
namespace PyGql.AsyncExec

inductive Seg where
  | key (s : String)
  | idx (n : Nat)
  deriving DecidableEq, Repr, Inhabited

abbrev Path := List Seg

inductive Mode where
  | sync | deferred | nested | ready
  deriving DecidableEq, Repr, Inhabited

/-- exception classes that matter: `ResolverError` (caught by `else_`), the resolver's unexpected
    exception, and the `RuntimeError` raised by `complete_value`. -/
inductive Exc where
  | resolver | boom | runtime
  deriving DecidableEq, Repr, Inhabited

mutual
inductive Comp where
  | null
  | leaf (v : Nat)
  | bad
  | nonNull (c : Comp)
  | list (items : Comps)
  | obj (fields : Flds)
inductive Comps where
  | nil
  | cons (c : Comp) (cs : Comps)
inductive Flds where
  | nil
  | cons (key : String) (mode : Mode) (out : ROut) (rest : Flds)
inductive ROut where
  | ok (c : Comp)
  | rerr
  | exc
end

instance : Inhabited Comp := ⟨.null⟩
instance : Inhabited Comps := ⟨.nil⟩
instance : Inhabited Flds := ⟨.nil⟩
instance : Inhabited ROut := ⟨.rerr⟩

/-- response data -/
inductive V where
  | null
  | leaf (n : Nat)
  | list (vs : List V)
  | obj (kvs : List (String × V))
  deriving Repr, Inhabited

def V.isNull : V → Bool
  | .null => true
  | _ => false

inductive ErrKind where
  | resolver | nonNull
  deriving DecidableEq, Repr

structure Err where
  path : Path
  kind : ErrKind
  deriving DecidableEq, Repr

/-- resolver events: `call` = the executor invokes the resolver (submission, for a deferred one),
    `done` = its result is available. -/
inductive Ev where
  | call (p : Path)
  | done (p : Path)
  deriving DecidableEq, Repr

/-- The part of the executor's state that callbacks touch. -/
structure ExecSt where
  next : Nat := 0               -- id of the next submitted task
  queue : List Nat := []        -- outstanding tasks, submission order
  errors : List Err := []       -- `ResolutionContext._errors`
  trace : List Ev := []
  deriving Repr

def ExecSt.emit (s : ExecSt) (e : Ev) : ExecSt := { s with trace := s.trace ++ [e] }
def ExecSt.addError (s : ExecSt) (p : Path) (k : ErrKind) : ExecSt := { s with errors := s.errors ++ [⟨p, k⟩] }
/-- `submit`: a new outstanding task -/
def ExecSt.submit (s : ExecSt) : Nat × ExecSt := (s.next, { s with next := s.next + 1, queue := s.queue ++ [s.next] })

def Flds.keys : Flds → List String
  | .nil => []
  | .cons k _ _ r => k :: r.keys

def Flds.length : Flds → Nat
  | .nil => 0
  | .cons _ _ _ r => r.length + 1

end PyGql.AsyncExec

/-
  C08 / C09 — the generic `Executor` (execution/executor.py) over the runtime algebra, the
  `BlockingExecutor` (execution/blocking_executor.py) as reference, `execute` (execution/execute.py)
  and the schedule-driven run loop.

  Function names follow the code: `resolveField`, `executeFields`, `executeFieldsSerially`
  (`serialNext` is its inner `_next`), `completeValue`, `completeListValue` (`completeItems` is the
  generator it feeds to `gather_values`), `completeNonNullableValue`, `handleNonNullableValue`.
-/
import PyGqlModel.Runtime

namespace PyGql.Exec

/-- `_handle_non_nullable_value` -/
def handleNonNullableValue (path : Path) (v : Val) (s : ExecSt) : Val × ExecSt :=
  match v with
  | .data .null => (v, s.addError path .nonNull)
  | _ => (v, s)

/-- `_collect`: `OrderedDict(zip(keys, done))` -/
def collect (keys : List String) : Val → Val
  | .data (.list vs) => .data (.obj (keys.zip vs))
  | _ => .junk

/-- the callbacks that do not call back into the executor -/
def applySimple : ApplyCont
  | _, .exc e, s => (.exc e, s)
  | .collect keys, .ok x, s => (.ok (.val (collect keys x)), s)
  | .nonNull path, .ok x, s => let (v, s') := handleNonNullableValue path x s; (.ok (.val v), s')
  | .onFinish, .ok x, s => (.ok (.val x), s)
  | _, .ok _, s => (.ok (.val .junk), s)

/-- `fail(err)` of resolve_field -/
def failField (path : Path) (s : ExecSt) : Node × ExecSt := (.val (.data .null), s.addError path .resolver)

mutual
/-- `Executor.complete_value` (may raise: `Res.exc`) -/
def completeValue (path : Path) : Comp → ExecSt → Res Node × ExecSt
  | .nonNull c, s =>
    -- complete_non_nullable_value: map_value(complete_value(inner), _handle_non_nullable_value)
    match completeValue path c s with
    | (.exc e, s1) => (.exc e, s1)
    | (.ok n, s1) => mapValue applySimple n (.nonNull path) s1
  | .null, s => (.ok (.val (.data .null)), s)
  | .leaf v, s => (.ok (.val (.data (.leaf v))), s)
  | .bad, s => (.exc .runtime, s)
  | .list items, s =>
    -- complete_list_value: gather_values(complete_value(inner, path + [i], entry) for i, entry in enumerate(...))
    match completeItems path 0 items s with
    | (.exc e, s1) => (.exc e, s1)
    | (.ok ns, s1) => (.ok (gatherValues ns), s1)
  | .obj fields, s =>
    -- execute_fields(runtime_type, resolved_value, path, collect_fields(…)) — see `executeFields`
    match resolveFields path fields s with
    | (.exc e, s1) => (.exc e, s1)
    | (.ok pending, s1) => mapValue applySimple (gatherValues pending) (.collect fields.keys) s1
/-- the generator consumed by `gather_values` in complete_list_value -/
def completeItems (path : Path) (i : Nat) : Comps → ExecSt → Res Nodes × ExecSt
  | .nil, s => (.ok .nil, s)
  | .cons c cs, s =>
    match completeValue (path ++ [.idx i]) c s with
    | (.exc e, s1) => (.exc e, s1)
    | (.ok n, s1) =>
      match completeItems path (i + 1) cs s1 with
      | (.exc e, s2) => (.exc e, s2)
      | (.ok ns, s2) => (.ok (.cons n ns), s2)
/-- the loop of execute_fields: resolve every field in order, an exception aborts the loop -/
def resolveFields (path : Path) : Flds → ExecSt → Res Nodes × ExecSt
  | .nil, s => (.ok .nil, s)
  | .cons key mode out rest, s =>
    match resolveField (path ++ [.key key]) mode out s with
    | (.exc e, s1) => (.exc e, s1)
    | (.ok n, s1) =>
      match resolveFields path rest s1 with
      | (.exc e, s2) => (.exc e, s2)
      | (.ok ns, s2) => (.ok (.cons n ns), s2)
/-- `Executor.resolve_field` (`path` already includes the response key) -/
def resolveField (path : Path) : Mode → ROut → ExecSt → Res Node × ExecSt
  | .sync, out, s =>
    -- the resolver runs now
    let s := (s.emit (.call path)).emit (.done path)
    match out with
    | .rerr => let (n, s') := failField path s; (.ok n, s')          -- `except ResolverError: return fail(err)`
    | .exc => (.exc .boom, s)                                          -- propagates out of resolve_field
    | .ok c =>
      -- map_value(plain value, complete, else_) = complete(value) now, then the outer unwrap_value
      match completeValue path c s with
      | (.exc .resolver, s1) => let (n, s') := failField path s1; (.ok n, s')
      | (.exc e, s1) => (.exc e, s1)
      | (.ok n, s1) => (.ok (unwrapValue n), s1)
  | .deferred, out, s =>
    let (id, s1) := (s.emit (.call path)).submit
    (.ok (.unwrap (.chain (.unwrap (.task id path false out)) (.complete path))), s1)
  | .nested, out, s =>
    let (id, s1) := (s.emit (.call path)).submit
    (.ok (.unwrap (.chain (.unwrap (.task id path true out)) (.complete path))), s1)
end

/-- `Executor.execute_fields`: resolve all fields, `map_value(gather_values(pending), _collect)` -/
def executeFields (path : Path) (fields : Flds) (s : ExecSt) : Res Node × ExecSt :=
  match resolveFields path fields s with
  | (.exc e, s1) => (.exc e, s1)
  | (.ok pending, s1) => mapValue applySimple (gatherValues pending) (.collect fields.keys) s1

/-- `_next()` of `Executor.execute_fields_serially`: `args` is the queue of remaining fields,
    `resolved` the accumulated `resolved_fields`. -/
def serialNext (path : Path) (resolved : List (String × V)) : Flds → ExecSt → Res Node × ExecSt
  | .nil, s => (.ok (.val (.data (.obj resolved))), s)                 -- `except IndexError: return resolved_fields`
  | .cons key mode out args, s =>
    match resolveField (path ++ [.key key]) mode out s with
    | (.exc e, s1) => (.exc e, s1)
    | (.ok (.val (.data v)), s1) => serialNext path (resolved ++ [(key, v)]) args s1     -- `cb(value)` runs now
    | (.ok (.val _), s1) => (.ok (.val .junk), s1)
    | (.ok n, s1) => (.ok (.chain n (.serialCb path key resolved args)), s1)

def executeFieldsSerially (path : Path) (fields : Flds) (s : ExecSt) : Res Node × ExecSt :=
  serialNext path [] fields s

/-- every `then` / `else_` callback of the executor -/
def applyCont : ApplyCont
  | .complete path, .ok (.raw c), s =>
    match completeValue path c s with
    | (.exc .resolver, s1) => let (n, s') := failField path s1; (.ok n, s')
    | r => r
  | .complete path, .exc .resolver, s => let (n, s') := failField path s; (.ok n, s')
  | .serialCb path key resolved args, .ok (.data v), s => serialNext path (resolved ++ [(key, v)]) args s
  | k, r, s => applySimple k r s

inductive OpKind where
  | query | mutation
  deriving DecidableEq, Repr

structure Op where
  kind : OpKind
  fields : Flds

/-- `execute`: `ensure_wrapped(map_value(unwrap_value(exe_fn(root_type, …)), _on_finish))`.
    `Res.exc` = raised synchronously out of `execute`. -/
def execute (op : Op) (s : ExecSt) : Res Node × ExecSt :=
  let r := match op.kind with
    | .query => executeFields [] op.fields s
    | .mutation => executeFieldsSerially [] op.fields s
  match r with
  | (.exc e, s1) => (.exc e, s1)
  | (.ok n, s1) => mapValue applyCont (unwrapValue n) .onFinish s1

/-! ### schedules -/

def removeAt {α : Type} : List α → Nat → List α
  | [], _ => []
  | _ :: xs, 0 => xs
  | x :: xs, i + 1 => x :: removeAt xs i

/-- one completion: the `i`-th outstanding task (index modulo the queue length) completes -/
def stepSched (top : Node) (s : ExecSt) (i : Nat) : Node × ExecSt :=
  let j := i % s.queue.length
  match s.queue[j]? with
  | none => (top, s)
  | some t => deliver applyCont t top { s with queue := removeAt s.queue j }

structure RunOut where
  top : Node
  st : ExecSt
  sizes : List Nat       -- queue length before each completion

/-- complete tasks in the order given by the schedule until the overall result is there,
    no task is outstanding, or the schedule ends -/
def runSched (top : Node) (s : ExecSt) (sizes : List Nat) : List Nat → RunOut
  | [] => ⟨top, s, sizes⟩
  | i :: rest =>
    if top.finished || s.queue.isEmpty then ⟨top, s, sizes⟩
    else
      let (top', s') := stepSched top s i
      runSched top' s' (sizes ++ [s.queue.length]) rest

inductive Outcome where
  | ok (data : V) (errors : List Err)
  | failed (e : Exc)
  | pending
  | junk

def outcomeOf (top : Node) (s : ExecSt) : Outcome :=
  match top with
  | .val (.data v) | .done (.val (.data v)) => .ok v s.errors
  | .failed e => .failed e
  | .val _ | .done _ => .junk
  | _ => .pending

structure Result where
  outcome : Outcome
  trace : List Ev
  sizes : List Nat

/-- the generic executor on a deferred runtime, under a schedule -/
def runAsync (op : Op) (schedule : List Nat) : Result :=
  match execute op {} with
  | (.exc e, s) => ⟨.failed e, s.trace, []⟩
  | (.ok top, s) =>
    let r := runSched top s [] schedule
    ⟨outcomeOf r.top r.st, r.st.trace, r.sizes⟩

/-! ### BlockingExecutor -/

mutual
/-- `BlockingExecutor.complete_value` -/
def blockComp (path : Path) : Comp → ExecSt → Res V × ExecSt
  | .nonNull c, s =>
    match blockComp path c s with
    | (.exc e, s1) => (.exc e, s1)
    | (.ok v, s1) => (.ok v, if v.isNull then s1.addError path .nonNull else s1)
  | .null, s => (.ok .null, s)
  | .leaf v, s => (.ok (.leaf v), s)
  | .bad, s => (.exc .runtime, s)
  | .list items, s =>
    match blockItems path 0 items s with
    | (.exc e, s1) => (.exc e, s1)
    | (.ok vs, s1) => (.ok (.list vs), s1)
  | .obj fields, s =>
    match blockFields path fields s with
    | (.exc e, s1) => (.exc e, s1)
    | (.ok kvs, s1) => (.ok (.obj kvs), s1)
def blockItems (path : Path) (i : Nat) : Comps → ExecSt → Res (List V) × ExecSt
  | .nil, s => (.ok [], s)
  | .cons c cs, s =>
    match blockComp (path ++ [.idx i]) c s with
    | (.exc e, s1) => (.exc e, s1)
    | (.ok v, s1) =>
      match blockItems path (i + 1) cs s1 with
      | (.exc e, s2) => (.exc e, s2)
      | (.ok vs, s2) => (.ok (v :: vs), s2)
/-- `BlockingExecutor.execute_fields` (= `execute_fields_serially`) -/
def blockFields (path : Path) : Flds → ExecSt → Res (List (String × V)) × ExecSt
  | .nil, s => (.ok [], s)
  | .cons key _ out rest, s =>
    match blockField (path ++ [.key key]) out s with
    | (.exc e, s1) => (.exc e, s1)
    | (.ok v, s1) =>
      match blockFields path rest s1 with
      | (.exc e, s2) => (.exc e, s2)
      | (.ok kvs, s2) => (.ok ((key, v) :: kvs), s2)
/-- `BlockingExecutor.resolve_field` (`p` already includes the response key) -/
def blockField (p : Path) : ROut → ExecSt → Res V × ExecSt
  | .rerr, s => (.ok .null, ((s.emit (.call p)).emit (.done p)).addError p .resolver)
  | .exc, s => (.exc .boom, (s.emit (.call p)).emit (.done p))
  | .ok c, s => blockComp p c ((s.emit (.call p)).emit (.done p))
end

def runBlocking (op : Op) : Result :=
  match blockFields [] op.fields {} with
  | (.exc e, s) => ⟨.failed e, s.trace, []⟩
  | (.ok kvs, s) => ⟨.ok (.obj kvs) s.errors, s.trace, []⟩

end PyGql.Exec

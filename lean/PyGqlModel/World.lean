/-
  The resolver WORLD used by the C04/C05 correspondence: a fixed, simple hash function that
  `harness/corr/exec_common.py: World` implements identically (FNV-1a 32 over an ASCII key,
  reduced modulo small tables). A replay is (schema, document, variables, seed, mode).
-/
import PyGqlModel.ExecTypes

namespace PyGql.Exec
open PyGql

def fnvBytes (bs : List UInt8) : Nat :=
  bs.foldl (fun h b => ((h ^^^ b.toNat) * 16777619) % 4294967296) 2166136261

def fnv (s : String) : Nat := fnvBytes s.toUTF8.toList

def mix (h i : Nat) : Nat := fnv (toString h ++ ":" ++ toString i)

def segStr : Seg → String
  | .key k => k
  | .idx i => toString i

def pathStr (p : Path) : String := "/".intercalate (p.map segStr)

def leafTable (n : String) : List J :=
  if n == "Int" then [.num 0, .num 1, .num (-7), .num 42, .num 2147483646, .str "12", .num 2147483647, .num (-2147483648)]
  else if n == "Float" then [.obj [("$float", .str "0.5")], .obj [("$float", .str "-2.25")], .obj [("$float", .str "3.0")],
                             .obj [("$float", .str "1000.0")], .num 2]
  else if n == "String" then [.str "", .str "a", .str "x y", .str "q\"uote", .bool true, .num 5]
  else if n == "Boolean" then [.bool true, .bool false, .num 1, .num 0, .str "", .str "x"]
  else if n == "ID" then [.str "id1", .num 7, .str "0"]
  else [.num 1, .str "s", .bool true, .num (-3)]

def wrongLeaves (n : String) : List J :=
  if n == "Int" then [.str "zz", .num 2147483648, .num (-2147483649)]
  else if n == "Float" then [.str "zz", .obj [("$float", .str "nan")], .obj [("$float", .str "inf")], .obj [("$float", .str "-inf")]]
  else if n == "String" then [.arr [.num 1]] else []

def nth (l : List α) (i : Nat) (d : α) : α := (l[i]?).getD d

mutual
/-- `World.gen` -/
def genVal (s : SchemaD) (mode : Nat) : Ty → Nat → RVal
  | .nonNull t, h => if mix h 0 % 16 == 0 then .null else genNN s mode t (mix h 1)
  | .list t, h => if mix h 0 % 6 == 0 then .null else genNN s mode (.list t) (mix h 1)
  | .named n, h => if mix h 0 % 6 == 0 then .null else genNN s mode (.named n) (mix h 1)
/-- `World.gen_nn` -/
def genNN (s : SchemaD) (mode : Nat) : Ty → Nat → RVal
  | .nonNull t, h => genNN s mode t h
  | .list t, h =>
    if mode == 1 && mix h 0 % 16 == 7 then .leaf (.num 5)
    else if mode == 1 && mix h 0 % 16 == 8 then .leaf (.str "ab")       -- a string at a list position is not iterated
    else
      let items := (List.range (mix h 1 % 4)).map fun i => genVal s mode t (mix h (2 + i))
      -- a lazy iterable that raises ResolverError after yielding its items
      if mix h 9 % 16 == 9 then .raise items ("R" ++ toString (h % 1000)) none else .list items
  | .named n, h =>
    let kind : Option Kind := (s.findType n).map (·.kind)
    match kind with
    | some .object => .obj n
    | some .interface | some .union =>
      let a := mix h 0 % 4
      -- `resolve_type` raises ResolverError
      if mix h 9 % 16 == 9 then .raise [] ("T" ++ toString (h % 1000)) none
      else if mode == 1 && a == 2 then .obj (s.query.getD "Query")
      else if mode == 1 && a == 1 && mix h 3 % 4 == 0 then .obj "Nope__"
      else
        let poss := possibleTypes s n
        if poss.isEmpty then .null else .obj (nth poss (mix h 1 % poss.length) "")
    | some .enum =>
      if mode == 1 && mix h 0 % 16 == 4 then .leaf (.str "zz__")
      else
        let vals := ((s.findType n).map (·.values)).getD []
        .leaf ((nth vals (mix h 1 % vals.length) default).value)
    | _ =>
      let wr := wrongLeaves n
      match (if mode == 1 && mix h 0 % 16 == 4 && !wr.isEmpty then some (nth wr (mix h 2 % wr.length) .null) else none) with
      | some j => .leaf j
      | none =>
        let tab := leafTable n
        .leaf (nth tab (mix h 1 % tab.length) .null)
end

/-- `World.outcome` -/
def fnvWorld (s : SchemaD) (seed mode : Nat) : World := fun parent field path args =>
  let h0 := fnv (toString seed ++ "|" ++ parent ++ "|" ++ field ++ "|" ++ pathStr path ++ "|" ++ args)
  let r := mix h0 0 % 16
  if r == 1 then .err ("E" ++ toString (h0 % 1000)) none
  else if r == 2 then .err ("E" ++ toString (h0 % 1000)) (some (.obj [("code", .num (Int.ofNat (mix h0 1 % 7)))]))
  else if r == 3 && mode == 1 then .boom
  else
    match fieldOf s parent field with
    | some fd => .val (genVal s mode fd.type (mix h0 2))
    | none => .val .null

end PyGql.Exec
